(* Group_proofs.v — invariants of the dispatch group model for any number of threads and any interleaving. *)
From Coq Require Import ZArith Bool List Lia.
From Verif Require Import Word Bits Conc Gen_consts Gen_group Group Group_iface.
Import ListNotations.
Local Open Scope Z_scope.

(* ================= invariant 1: words are well formed, the 32-bit generation is the ghost generation mod 2^32,
   and what a waiter knows about zero ================= *)
Definition Cw (s : gst) (t : Z) : Prop := gsnap s t <= gfull s /\ (gsnap s t < gfull s -> wz s t = true).
Definition T1p (s : gst) (t : Z) (p : pc) : Prop :=
  match p with
  | PLvLoop _ old => wfw old
  | PSnapHead _ st | PSnapStore _ st | PSnapTail _ st | PFire _ st => wfw st
  | PWtCas _ old new => wfw old /\ new = Z.lor old HW /\ fg old = gsnap s t mod 4294967296 /\ Cw s t
  | PSlow _ g | PSleep _ g | PSlowLoad _ g _ => g = gsnap s t mod 4294967296 /\ Cw s t
  | PRetV v => v = 0 -> wz s t = true
  | PNfCas old new => wfw old /\ new = Z.lor old HN
  | _ => True
  end.
Definition T1 (s : gst) (t : Z) : Prop := T1p s t (pcs s t).
Definition G1 (s : gst) : Prop := wfw (word s) /\ 0 <= gfull s /\ fg (word s) = gfull s mod 4294967296.
Definition Inv1 (s : gst) : Prop := G1 s /\ forall t, T1 s t.

Lemma Inv1_init : Inv1 init_state.
Proof. split; [unfold G1, wfw, fg; cbn; repeat split; lia | intros t; exact I]. Qed.

Lemma Inv1_intro s s' t : Inv1 s -> G1 s' -> T1p s' t (pcs s' t) ->
  (forall u, u <> t -> pcs s' u = pcs s u /\ gsnap s' u = gsnap s u /\ (wz s u = true -> wz s' u = true) /\
                       (gfull s < gfull s' -> wz s' u = true)) ->
  gfull s <= gfull s' -> Inv1 s'.
Proof.
  intros (_ & HT) G' Ht F Hm. split; [exact G'|]. intros u. destruct (Z.eq_dec u t) as [->|Ne]; [exact Ht|].
  destruct (F u Ne) as (Ep & Eg & Hw & Hc). specialize (HT u). unfold T1, T1p, Cw in *. rewrite Ep, Eg.
  assert (X : gsnap s u <= gfull s /\ (gsnap s u < gfull s -> wz s u = true) ->
              gsnap s u <= gfull s' /\ (gsnap s u < gfull s' -> wz s' u = true)).
  { intros (A & B). split; [lia|]. intros L. destruct (Z.lt_ge_cases (gfull s) (gfull s')); [auto|]. apply Hw, B. lia. }
  destruct (pcs s u); try exact HT.
  - destruct HT as (A & B & C & D). split; [exact A|]. split; [exact B|]. split; [exact C|]. apply X; exact D.
  - destruct HT as (A & B); split; [exact A|apply X; exact B].
  - destruct HT as (A & B); split; [exact A|apply X; exact B].
  - destruct HT as (A & B); split; [exact A|apply X; exact B].
  - intros E. apply Hw, HT, E.
Qed.

Ltac frame1 := let u := fresh "u" in let Hu := fresh "Hu" in
  intros u Hu; rewrite ?upd_other by exact Hu; repeat split; auto; intros; try lia.

Lemma T1p_wake_tail s t k x : T1p s t (wake_tail k x).
Proof. unfold wake_tail. destruct (nz _); [exact I|destruct k; exact I]. Qed.
Lemma T1p_wake_entry s t k x : wfw x -> T1p s t (wake_entry k x).
Proof. intros H. unfold wake_entry. destruct (nz _); [exact H|apply T1p_wake_tail]. Qed.
Lemma T1p_lv_loop_entry s t k x : wfw x -> T1p s t (lv_loop_entry k x).
Proof. intros H. unfold lv_loop_entry. destruct (_ =? _); [apply T1p_wake_entry; exact H|exact H]. Qed.
Lemma T1p_after_add s t k x : wfw (leave_word x) -> T1p s t (after_add k x).
Proof.
  intros H. rewrite after_add_spec. destruct (_ =? _); [apply T1p_lv_loop_entry; exact H|].
  destruct (_ =? _); [exact I|destruct k; exact I].
Qed.
Lemma T1p_wt_entry s t tmo x : wfw x -> fg x = gsnap s t mod 4294967296 -> Cw s t -> (fv x = 0 -> wz s t = true) ->
  T1p s t (wt_entry tmo x).
Proof.
  intros H Hg Hc Hz. rewrite (wt_entry_spec tmo x H). destruct (Z.eqb_spec (fv x) 0); [intros _; auto|].
  destruct (tmo =? 0); [intros X; discriminate X|]. destruct (fw x =? 1); cbn; auto.
Qed.
Lemma T1p_nf_entry s t x : wfw x -> T1p s t (nf_entry x).
Proof.
  intros H. rewrite nf_entry_spec. destruct (_ =? _); [apply T1p_wake_entry, lor_hn_spec; exact H|cbn; auto].
Qed.

Lemma Some_inj {A} (a b : A) : Some a = Some b -> a = b.
Proof. intros H. injection H. auto. Qed.
Lemma ev_is_kind e k o f : ev_is e k o f = true -> ek e = k.
Proof. unfold ev_is. intros H. apply andb_true_iff in H as [H _]. apply andb_true_iff in H as [H _]. apply Z.eqb_eq. exact H. Qed.
Lemma G1_same_word s s' : G1 s -> word s' = word s -> gfull s' = gfull s -> G1 s'.
Proof. unfold G1. intros H -> ->. exact H. Qed.
Lemma G1_new_word s s' : G1 s -> gfull s' = gfull s -> wfw (word s') -> fg (word s') = fg (word s) -> G1 s'.
Proof. unfold G1. intros (A & B & C) -> W ->. auto. Qed.

Lemma leave_eff_inv1 s t k e s1 : Inv1 s ->
  (if (ea e =? word s) && negb (vzero (word s))
   then Some (if Z.land (word s) VMASK =? V1 then set_carry s (leave_word (word s))
              else set_count s (leave_word (word s)) (-1)) else None) = Some s1 ->
  Inv1 (set_pc s1 t (after_add k (ea e))).
Proof.
  intros HI Hg. pose proof HI as ((W & G0 & Gg) & HT). crack Hg. bsplit C. apply Z.eqb_eq in C0. apply Some_inj in Hg; subst s1.
  pose proof (leave_word_spec (word s) W) as (W' & _ & _ & L). rewrite carry_fv.
  destruct (Z.eqb_spec (fv (word s)) 1073741823) as [V|V]; destruct L as (Lg & Lv).
  - apply (Inv1_intro s _ t HI); sset.
    + unfold G1; sset; split; [|split]; [exact W'|lia|]. rewrite Lg, Gg. rewrite Z.add_mod_idemp_l by lia. reflexivity.
    + rewrite upd_same, C0. apply T1p_after_add. exact W'.
    + frame1.
    + lia.
  - apply (Inv1_intro s _ t HI); sset.
    + unfold G1; sset; split; [|split]; [exact W'|lia|]. rewrite Lg. exact Gg.
    + rewrite upd_same, C0. apply T1p_after_add. exact W'.
    + frame1.
    + lia.
Qed.

Lemma step1 s t e s' : Inv1 s -> gstep s t e = Some s' -> Inv1 s'.
Proof.
  intros HI Hs. destruct (gstep_inv _ _ _ _ Hs) as (p' & s1 & Hts & Hg & ->).
  pose proof HI as (G & HT). pose proof G as (W & G0 & Gg). pose proof (HT t) as Ht. unfold T1 in Ht.
  destruct (pcs s t) eqn:Hpc; cbn [tstep] in Hts; cbn [geffect] in Hg; cbn [T1p] in Ht.
  - (* PIdle *)
    destruct (ev_kind e DVU_CALL).
    + assert (X : exists s0, s1 = s0 /\ (s0 = s \/ s0 = set_call_wait s t)).
      { destruct (ea e =? OP_WAIT); injection Hg as Hg; [exists (set_call_wait s t)|exists s]; auto. }
      destruct X as (s0 & -> & Hs0).
      assert (P : T1p (set_pc s0 t p') t p').
      { destruct ((ea e =? OP_ENTER) || (ea e =? OP_ASYNC)); [injection Hts as <-; exact I|].
        destruct (ea e =? OP_LEAVE); [injection Hts as <-; exact I|].
        destruct (ea e =? OP_WAIT); [injection Hts as <-; exact I|].
        destruct (ea e =? OP_NOTIFY); [injection Hts as <-; exact I|discriminate]. }
      destruct Hs0 as [->| ->]; apply (Inv1_intro s _ t HI); sset; try (rewrite upd_same; exact P); try exact G; try frame1; lia.
    + destruct (is_add e).
      * injection Hts as <-. apply (leave_eff_inv1 s); assumption.
      * crack Hts. injection Hts as <-. apply Some_inj in Hg; subst s1.
        apply (Inv1_intro s _ t HI); sset; [exact G|rewrite upd_same; exact I|frame1|lia].
  - discriminate.
  - (* PEnter *)
    crack Hts. injection Hts as <-. crack Hg. apply Some_inj in Hg; subst s1.
    pose proof (enter_word_spec (word s) W) as (W' & Eg & _).
    apply (Inv1_intro s _ t HI); sset.
    + unfold G1; sset; split; [|split]; [exact W'|exact G0|]. rewrite Eg. exact Gg.
    + rewrite upd_same. destruct (_ =? _); exact I.
    + frame1.
    + lia.
  - (* PRet *)
    crack Hts. injection Hts as <-. apply Some_inj in Hg; subst s1.
    apply (Inv1_intro s _ t HI); sset; [exact G|rewrite upd_same; exact I|frame1|lia].
  - (* PLeave *)
    crack Hts. injection Hts as <-. apply (leave_eff_inv1 s); assumption.
  - (* PLvLoop *)
    crack Hts. injection Hts as <-. crack Hg. bsplit C0. apply Z.eqb_eq in C1. apply Some_inj in Hg; subst s1.
    pose proof (leave_new_spec old Ht) as (_ & Wn & Ng & _).
    destruct (Z.eqb_spec (word s) old) as [Ew|Ew].
    + apply Z.eqb_eq in C0. rewrite C0. cbn [Z.eqb Pos.eqb].
      assert (X : forall s2, (s2 = set_word s (leave_new old) \/ s2 = set_tok (set_word s (leave_new old)) (TSnap t)) ->
                  Inv1 (set_pc s2 t (wake_entry k old))).
      { intros s2 [->| ->]; apply (Inv1_intro s _ t HI); sset;
          try (unfold G1; sset; split; [|split]; [exact Wn|exact G0|rewrite Ng, <- Ew; exact Gg]);
          try (rewrite upd_same; apply T1p_wake_entry; exact Ht); try frame1; lia. }
      destruct (nz _); apply X; auto.
    + apply Z.eqb_eq in C0. rewrite C0. cbn [Z.eqb].
      apply (Inv1_intro s _ t HI); sset; [exact G|rewrite upd_same; apply T1p_lv_loop_entry; rewrite C1; exact W|frame1|lia].
  - (* PSnapHead *)
    crack Hts. injection Hts as <-. apply Some_inj in Hg; subst s1.
    apply (Inv1_intro s _ t HI); sset; [exact G|rewrite upd_same; destruct (_ =? _); exact Ht|frame1|lia].
  - crack Hts. injection Hts as <-. apply Some_inj in Hg; subst s1.
    apply (Inv1_intro s _ t HI); sset; [exact G|rewrite upd_same; exact Ht|frame1|lia].
  - crack Hts. injection Hts as <-. crack Hg. apply Some_inj in Hg; subst s1.
    apply (Inv1_intro s _ t HI); sset; [exact G|rewrite upd_same; exact Ht|frame1|lia].
  - (* PFire *)
    crack Hts. injection Hts as <-. destruct (held s t) as [|[i ptr] rest]; [discriminate|]. crack Hg. apply Some_inj in Hg; subst s1.
    apply (Inv1_intro s _ t HI); sset; [exact G|rewrite upd_same; destruct (_ =? _); [apply T1p_wake_tail|exact Ht]|frame1|lia].
  - (* PWakeFutex *)
    crack Hts. injection Hts as <-. apply Some_inj in Hg; subst s1.
    apply (Inv1_intro s _ t HI); sset; [exact G|rewrite upd_same; destruct k; exact I|frame1|lia].
  - (* PWtLoad *)
    crack Hts. injection Hts as <-. crack Hg. apply Z.eqb_eq in C0. apply Some_inj in Hg; subst s1.
    apply (Inv1_intro s _ t HI); sset; [exact G| |frame1|lia].
    rewrite upd_same, C0. apply T1p_wt_entry; [exact W| | |]; unfold Cw; sset; rewrite ?upd_same.
    + exact Gg.
    + split; [lia|intros; lia].
    + intros V. rewrite vzero_fv, V. apply orb_true_r.
  - (* PWtCas *)
    destruct Ht as (Wo & En & Eg & Hc).
    crack Hts. injection Hts as <-. crack Hg. bsplit C0. apply Z.eqb_eq in C1. apply Some_inj in Hg; subst s1.
    destruct (Z.eqb_spec (eok e) 1) as [Ok|Nok].
    + cbn [negb orb] in C0. apply Z.eqb_eq in C0.
      pose proof (lor_hw_spec old Wo) as (Wn & Ng & _). subst new.
      apply (Inv1_intro s _ t HI); sset.
      * unfold G1; sset; split; [|split]; [exact Wn|exact G0|]. rewrite Ng, <- C0. exact Gg.
      * rewrite upd_same. cbn [T1p]. unfold Cw; sset; rewrite ?upd_same. rewrite (gen_fields _ Wn), Ng, <- C0.
        split; [exact Gg|]. split; [lia|intros; lia].
      * frame1.
      * lia.
    + apply (Inv1_intro s _ t HI); sset; [exact G| |frame1|lia].
      rewrite upd_same, C1. apply T1p_wt_entry; [exact W| | |]; unfold Cw; sset; rewrite ?upd_same.
      * exact Gg.
      * split; [lia|intros; lia].
      * intros V. rewrite vzero_fv, V. apply orb_true_r.
  - (* PSlow *)
    destruct Ht as (Eg & Hc).
    destruct (ev_kind e DV_FUTEX_WAIT && (eoff e =? OFF_GEN) && (ea e =? gen) && (eb e =? (if tmo =? FOREVER then 0 else 1))) eqn:C.
    + injection Hts as <-. apply andb_true_iff in C as [C _]. apply andb_true_iff in C as [C C2]. apply andb_true_iff in C as [C C1]. rewrite C in Hg.
      apply Some_inj in Hg; subst s1.
      apply (Inv1_intro s _ t HI); sset; [exact G|rewrite upd_same; split; assumption|frame1|lia].
    + crack Hts. injection Hts as <-.
      assert (Hg' : (if ea e =? f_dg_state_gen (word s) then Some s else None) = Some s1).
      { destruct (ev_kind e DV_FUTEX_WAIT) eqn:K; [|exact Hg]. exfalso.
        apply andb_true_iff in C0 as [C0 _]. apply andb_true_iff in C0 as [C0 _]. apply ev_is_kind in C0.
        unfold ev_kind in K. rewrite C0 in K. discriminate K. }
      crack Hg'. apply Z.eqb_eq in C1. apply Some_inj in Hg'; subst s1.
      apply (Inv1_intro s _ t HI); sset; [exact G| |frame1|lia].
      rewrite upd_same. destruct (Z.eqb_spec (ea e) gen) as [E|E]; [intros X; discriminate X|]. intros _.
      apply Hc. rewrite C1, (gen_fields _ W), Gg, Eg in E. destruct Hc as (L & _).
      destruct (Z.eq_dec (gsnap s t) (gfull s)) as [Q|Q]; [rewrite Q in E; contradiction|lia].
  - (* PSleep *)
    crack Hts. injection Hts as <-. destruct ((tmo =? FOREVER) && (eb e =? ETIMEDOUT)); [discriminate Hg|]. apply Some_inj in Hg; subst s1.
    apply (Inv1_intro s _ t HI); sset; [exact G|rewrite upd_same; exact Ht|frame1|lia].
  - (* PSlowLoad *)
    destruct Ht as (Eg & Hc).
    crack Hts. injection Hts as <-. crack Hg. apply Z.eqb_eq in C0. apply Some_inj in Hg; subst s1.
    apply (Inv1_intro s _ t HI); sset; [exact G| |frame1|lia].
    rewrite upd_same. destruct (Z.eqb_spec (ea e) gen) as [E|E].
    + destruct (rc =? ETIMEDOUT); [intros X; discriminate X|split; assumption].
    + intros _. apply Hc. rewrite C0, (gen_fields _ W), Gg, Eg in E. destruct Hc as (L & _).
      destruct (Z.eq_dec (gsnap s t) (gfull s)) as [Q|Q]; [rewrite Q in E; contradiction|lia].
  - (* PRetV *)
    crack Hts. injection Hts as <-. apply Some_inj in Hg; subst s1.
    apply (Inv1_intro s _ t HI); sset; [exact G|rewrite upd_same; exact I|frame1|lia].
  - (* PNfPush *)
    crack Hts. injection Hts as <-. crack Hg. apply Some_inj in Hg; subst s1.
    apply (Inv1_intro s _ t HI); sset; [exact G|rewrite upd_same; destruct (_ =? _); exact I|frame1|lia].
  - (* PNfHead *)
    crack Hts. injection Hts as <-. apply Some_inj in Hg; subst s1.
    apply (Inv1_intro s _ t HI); sset; [exact G|rewrite upd_same; exact I|frame1|lia].
  - (* PNfLoad *)
    crack Hts. injection Hts as <-. crack Hg. apply Z.eqb_eq in C0. apply Some_inj in Hg; subst s1.
    destruct (is_presnap _); apply (Inv1_intro s _ t HI); sset;
      try exact G; try (rewrite upd_same, C0; apply T1p_nf_entry; exact W); try frame1; lia.
  - (* PNfCas *)
    destruct Ht as (Wo & En).
    crack Hts. injection Hts as <-. crack Hg. bsplit C0. apply Z.eqb_eq in C1. apply Some_inj in Hg; subst s1.
    destruct (Z.eqb_spec (eok e) 1) as [Ok|Nok].
    + cbn [negb orb] in C0. apply Z.eqb_eq in C0. pose proof (lor_hn_spec old Wo) as (Wn & Ng & _). subst new.
      apply (Inv1_intro s _ t HI); sset; [|rewrite upd_same; exact I|frame1|lia].
      unfold G1; sset; split; [|split]; [exact Wn|exact G0|]. rewrite Ng, <- C0. exact Gg.
    + destruct (is_presnap _); apply (Inv1_intro s _ t HI); sset;
        try exact G; try (rewrite upd_same, C1; apply T1p_nf_entry; exact W); try frame1; lia.
Qed.

Theorem inv1_reach s : reach s -> Inv1 s.
Proof.
  apply invariant_lift.
  - intros ? ->. apply Inv1_init.
  - intros s0 [t e] s1 HI [_ Hs]. cbn in *. eapply step1; eauto.
Qed.

(* ================= invariant 2: who is responsible for the notify list; where every registered notification is ===== *)
Definition cls (p : pc) : Z :=
  match p with
  | PNfHead _ | PNfLoad | PNfCas _ _ => 1
  | PSnapHead _ _ | PSnapStore _ _ | PSnapTail _ _ => 2
  | PFire _ _ => 3
  | _ => 0
  end.
Definition G2 (s : gst) : Prop :=
  match ntok s with
  | TNone => nq s = [] /\ fn (word s) = 0
  | TPusher p => nq s <> [] /\ fn (word s) = 0 /\ cls (pcs s p) = 1
  | TWord => nq s <> [] /\ fn (word s) = 1
  | TSnap u => nq s <> [] /\ fn (word s) = 0 /\ cls (pcs s u) = 2
  end.
Definition T2 (s : gst) (t : Z) : Prop :=
  (cls (pcs s t) = 1 -> ntok s = TPusher t) /\ (cls (pcs s t) = 2 -> ntok s = TSnap t) /\
  (cls (pcs s t) = 3 -> held s t <> []) /\ (cls (pcs s t) <> 3 -> held s t = []) /\
  (forall o n, pcs s t = PNfCas o n -> n = Z.lor o HN).
Definition I2 (s : gst) : Prop :=
  0 <= nreg s /\ NoDup (ids (nq s)) /\ (forall t, NoDup (ids (held s t))) /\
  (forall i, In i (ids (nq s)) -> 0 <= i < nreg s /\ nplace s i = 0) /\
  (forall t i, In i (ids (held s t)) -> 0 <= i < nreg s /\ nplace s i = t /\ 0 < t) /\
  (forall i, fcnt s i = (if nplace s i =? -1 then 1 else 0)) /\
  (forall i, 0 <= i < nreg s -> (nplace s i = 0 -> In i (ids (nq s))) /\
                                (0 < nplace s i -> In i (ids (held s (nplace s i)))) /\
                                (nplace s i = 0 \/ nplace s i = -1 \/ 0 < nplace s i)) /\
  (forall i, ~ (0 <= i < nreg s) -> nplace s i = 0) /\
  (forall i p, In (i, p) (nq s) -> p <> 0).
Definition Inv2 (s : gst) : Prop := G2 s /\ I2 s /\ forall t, T2 s t.

Lemma Inv2_init : Inv2 init_state.
Proof.
  split; [cbn; auto|]. split.
  - unfold I2; cbn. repeat split; try constructor; try contradiction; try lia; auto; intros; try lia.
  - intros t. unfold T2; cbn. repeat split; intros; try discriminate; auto.
Qed.

Lemma T2_frame s s' t u : u <> t -> T2 s u -> pcs s' u = pcs s u -> held s' u = held s u ->
  (ntok s' = ntok s \/ (ntok s <> TPusher u /\ ntok s <> TSnap u)) -> T2 s' u.
Proof.
  unfold T2. intros Ne (A & B & C & D & E) -> -> [->|(N1 & N2)]; [repeat split; auto|].
  repeat split; auto; intros X; exfalso; [apply N1, A, X|apply N2, B, X].
Qed.

(* a step that touches neither the list, the HAS_NOTIFS bit, the token nor the bookkeeping, and keeps the thread's class *)
Lemma Inv2_same s s1 t p' : Inv2 s -> pcs s1 = pcs s -> ntok s1 = ntok s -> nq s1 = nq s -> held s1 = held s ->
  nreg s1 = nreg s -> nplace s1 = nplace s -> fcnt s1 = fcnt s -> fn (word s1) = fn (word s) ->
  cls p' = cls (pcs s t) -> (forall o n, p' = PNfCas o n -> n = Z.lor o HN) -> Inv2 (set_pc s1 t p').
Proof.
  intros (G & HI & HT) Ep Et Eq Eh Er Enp Ef Efn Ec Hn.
  assert (Pc : forall u, cls (upd (pcs s) t p' u) = cls (pcs s u)).
  { intros u. destruct (Z.eq_dec u t) as [->|Ne]; [rewrite upd_same; exact Ec|rewrite upd_other by exact Ne; reflexivity]. }
  split; [|split].
  - unfold G2 in *; sset. rewrite Et, Eq, Efn, Ep. destruct (ntok s); auto; rewrite Pc; exact G.
  - unfold I2 in *; sset. rewrite Eq, Eh, Er, Enp, Ef. exact HI.
  - intros u. destruct (Z.eq_dec u t) as [->|Ne].
    + specialize (HT t). unfold T2 in *; sset. rewrite Et, Eh, Ep, upd_same, Ec.
      destruct HT as (A & B & C & D & E). repeat split; auto.
    + apply (T2_frame s _ t u Ne (HT u)); sset; [rewrite Ep; apply upd_other; exact Ne|rewrite Eh; reflexivity|left; exact Et].
Qed.

Lemma cls_wake_tail k x : cls (wake_tail k x) = 0.
Proof. unfold wake_tail. destruct (nz _); [reflexivity|destruct k; reflexivity]. Qed.
Lemma cls_lv_loop_entry k x : wfw x -> cls (lv_loop_entry k x) = 0.
Proof. intros H. destruct (lv_loop_entry_spec k x H) as [->|(_ & _ & ->)]; [reflexivity|apply cls_wake_tail]. Qed.
Lemma cls_after_add k x : wfw (leave_word x) -> cls (after_add k x) = 0.
Proof.
  intros H. rewrite after_add_spec. destruct (_ =? _); [apply cls_lv_loop_entry; exact H|].
  destruct (_ =? _); [reflexivity|destruct k; reflexivity].
Qed.
Lemma cls_wt_entry tmo x : cls (wt_entry tmo x) = 0.
Proof. unfold wt_entry. cbv zeta. repeat (destruct (_ =? _); [reflexivity|]). reflexivity. Qed.
Lemma not_cas_wake_tail k x o n : wake_tail k x <> PNfCas o n.
Proof. unfold wake_tail. destruct (nz _); [discriminate|destruct k; discriminate]. Qed.
Lemma not_cas_of_cls p o n : cls p <> 1 -> p <> PNfCas o n.
Proof. intros H ->. apply H. reflexivity. Qed.

Ltac same2 := first [reflexivity | assumption].

Lemma existsb_In i l : existsb (Z.eqb i) l = true <-> In i l.
Proof.
  rewrite existsb_exists. split.
  - intros (x & Hx & E). apply Z.eqb_eq in E. subst. exact Hx.
  - intros H. exists i. split; [exact H|apply Z.eqb_refl].
Qed.
Lemma ids_app l x : ids (l ++ [x]) = ids l ++ [fst x].
Proof. unfold ids. rewrite map_app. reflexivity. Qed.
Lemma tailptr_snoc l i p : tailptr (l ++ [(i, p)]) = p.
Proof. unfold tailptr. rewrite rev_app_distr. reflexivity. Qed.
Lemma tailptr_nz l : (forall i p, In (i, p) l -> p <> 0) -> l <> [] -> tailptr l <> 0.
Proof.
  intros H Hn. destruct (exists_last Hn) as (l0 & [i p] & ->). rewrite tailptr_snoc. apply (H i).
  apply in_or_app. right. left. reflexivity.
Qed.
Lemma NoDup_app_snoc (l : list Z) x : NoDup l -> ~ In x l -> NoDup (l ++ [x]).
Proof.
  induction l as [|a l IH]; intros ND Nin; cbn.
  - constructor; [intros []|constructor].
  - apply NoDup_cons_iff in ND as (Na & NDl). constructor.
    + intros X. apply in_app_or in X as [X|[X|[]]]; [contradiction|]. apply Nin. left. symmetry. exact X.
    + apply IH; [exact NDl|]. intros X. apply Nin. right. exact X.
Qed.

Lemma Inv2_tok s s1 t p' : Inv2 s -> pcs s1 = pcs s -> nq s1 = nq s -> held s1 = held s -> nreg s1 = nreg s ->
  nplace s1 = nplace s -> fcnt s1 = fcnt s ->
  (forall u, u <> t -> ntok s <> TPusher u /\ ntok s <> TSnap u) ->
  G2 (set_pc s1 t p') -> T2 (set_pc s1 t p') t -> Inv2 (set_pc s1 t p').
Proof.
  intros (G & HI & HT) Ep Eq Eh Er Enp Ef Hn G' T'. split; [exact G'|]. split.
  - unfold I2 in *; sset. rewrite Eq, Eh, Er, Enp, Ef. exact HI.
  - intros u. destruct (Z.eq_dec u t) as [->|Ne]; [exact T'|].
    apply (T2_frame s _ t u Ne (HT u)); sset; [rewrite Ep; apply upd_other; exact Ne|rewrite Eh; reflexivity|right; apply Hn; exact Ne].
Qed.

Lemma G2_frame s s' t : G2 s -> ntok s' = ntok s -> (nq s' = [] <-> nq s = []) -> fn (word s') = fn (word s) ->
  (forall u, u <> t -> pcs s' u = pcs s u) -> cls (pcs s t) <> 1 -> cls (pcs s t) <> 2 -> G2 s'.
Proof.
  unfold G2. intros G -> Eq -> Ep N1 N2.
  assert (X : nq s <> [] -> nq s' <> []) by (intros A B; apply A, Eq, B).
  destruct (ntok s) as [|p| |p].
  - destruct G as (A & B). split; [apply Eq; exact A|exact B].
  - destruct G as (A & B & C). repeat split; auto. rewrite Ep; [exact C|]. intros ->. contradiction.
  - destruct G as (A & B). split; auto.
  - destruct G as (A & B & C). repeat split; auto. rewrite Ep; [exact C|]. intros ->. contradiction.
Qed.

Lemma leave_eff_inv2 s t k e s1 : Inv1 s -> Inv2 s -> cls (pcs s t) = 0 ->
  (if (ea e =? word s) && negb (vzero (word s))
   then Some (if Z.land (word s) VMASK =? V1 then set_carry s (leave_word (word s))
              else set_count s (leave_word (word s)) (-1)) else None) = Some s1 ->
  Inv2 (set_pc s1 t (after_add k (ea e))).
Proof.
  intros ((W & _) & _) HI Hc Hg. crack Hg. apply andb_true_iff in C as [C _]. apply Z.eqb_eq in C.
  apply Some_inj in Hg; subst s1. rewrite C.
  pose proof (leave_word_spec (word s) W) as (W' & Fn & _).
  assert (Cl : cls (after_add k (word s)) = 0) by (apply cls_after_add; exact W').
  destruct (_ =? V1); apply (Inv2_same s); try exact HI; try reflexivity; try exact Fn; try (rewrite Hc; exact Cl);
    intros o n X; rewrite X in Cl; discriminate Cl.
Qed.

Lemma nf_step s t x : Inv2 s -> wfw x -> cls (pcs s t) = 1 ->
  Inv2 (set_pc (if is_presnap (nf_entry x) then set_tok s (TSnap t) else s) t (nf_entry x)).
Proof.
  intros HI W Hc. pose proof HI as (G & _ & HT). destruct (HT t) as (A & _ & _ & D & _). specialize (A Hc).
  rewrite nf_entry_spec. destruct (u32 x =? 0).
  - pose proof (lor_hn_spec x W) as (Wn & _ & _ & Fn & _). rewrite (wake_entry_spec _ _ Wn), Fn. cbn [Z.eqb Pos.eqb is_presnap].
    apply (Inv2_tok s); try exact HI; try reflexivity.
    + intros u Ne. rewrite A. split; intros X; [injection X as X; auto|discriminate X].
    + unfold G2 in *; sset. rewrite A in G. destruct G as (G1' & G2' & _). rewrite upd_same. repeat split; auto.
    + unfold T2; sset. rewrite upd_same. cbn [cls]. repeat split; intros; try discriminate; auto.
      apply D. rewrite Hc. discriminate.
  - cbn [is_presnap]. apply (Inv2_same s); try exact HI; try reflexivity; [rewrite Hc; reflexivity|].
    intros o n X. injection X as <- <-. reflexivity.
Qed.

Lemma step2 s t e s' : valid_tid t -> Inv1 s -> Inv2 s -> gstep s t e = Some s' -> Inv2 s'.
Proof.
  intros Vt HI1 HI Hs. unfold valid_tid in Vt. destruct (gstep_inv _ _ _ _ Hs) as (p' & s1 & Hts & Hg & ->).
  pose proof HI1 as ((W & _ & _) & HT1). pose proof (HT1 t) as Ht1. unfold T1 in Ht1.
  pose proof HI as (G & HI2 & HT). pose proof (HT t) as (TA & TB & TC & TD & TE).
  destruct (pcs s t) eqn:Hpc; cbn [tstep] in Hts; cbn [geffect] in Hg; cbn [T1p] in Ht1; cbn [cls] in TA, TB, TC, TD.
  - (* PIdle *)
    destruct (ev_kind e DVU_CALL).
    + assert (X : exists s0, s1 = s0 /\ (s0 = s \/ s0 = set_call_wait s t)).
      { destruct (ea e =? OP_WAIT); injection Hg as Hg; [exists (set_call_wait s t)|exists s]; auto. }
      destruct X as (s0 & -> & Hs0).
      assert (P : cls p' = 0 /\ forall o n, p' = PNfCas o n -> n = Z.lor o HN).
      { destruct ((ea e =? OP_ENTER) || (ea e =? OP_ASYNC)); [injection Hts as <-; split; [reflexivity|discriminate]|].
        destruct (ea e =? OP_LEAVE); [injection Hts as <-; split; [reflexivity|discriminate]|].
        destruct (ea e =? OP_WAIT); [injection Hts as <-; split; [reflexivity|discriminate]|].
        destruct (ea e =? OP_NOTIFY); [injection Hts as <-; split; [reflexivity|discriminate]|discriminate]. }
      destruct P as (P1 & P2).
      destruct Hs0 as [->| ->]; apply (Inv2_same s); try exact HI; try reflexivity; try exact P2; rewrite Hpc; exact P1.
    + destruct (is_add e).
      * injection Hts as <-. apply (leave_eff_inv2 s); try assumption. rewrite Hpc. reflexivity.
      * crack Hts. injection Hts as <-. apply Some_inj in Hg; subst s1.
        apply (Inv2_same s); try exact HI; try reflexivity; [rewrite Hpc; reflexivity|discriminate].
  - discriminate.
  - (* PEnter *)
    crack Hts. injection Hts as <-. crack Hg. apply Some_inj in Hg; subst s1.
    pose proof (enter_word_spec (word s) W) as (_ & _ & _ & Fn & _).
    apply (Inv2_same s); try exact HI; try reflexivity; try exact Fn.
    + rewrite Hpc. destruct (_ =? _); reflexivity.
    + intros o n X. destruct (_ =? _); discriminate X.
  - (* PRet *)
    crack Hts. injection Hts as <-. apply Some_inj in Hg; subst s1.
    apply (Inv2_same s); try exact HI; try reflexivity; [rewrite Hpc; reflexivity|discriminate].
  - (* PLeave *)
    crack Hts. injection Hts as <-. apply (leave_eff_inv2 s); try assumption. rewrite Hpc. reflexivity.
  - (* PLvLoop *)
    crack Hts. injection Hts as <-. crack Hg. apply andb_true_iff in C0 as [C1 C0]. apply Z.eqb_eq in C1.
    apply Some_inj in Hg; subst s1.
    pose proof (leave_new_spec old Ht1) as (_ & Wn & _ & _ & Nn & _).
    destruct (Z.eqb_spec (word s) old) as [Ew|Ew].
    + apply Z.eqb_eq in C0. rewrite C0. cbn [Z.eqb Pos.eqb]. rewrite (nz_hn old Ht1), (wake_entry_spec k old Ht1).
      destruct (Z.eqb_spec (fn old) 1) as [F|F].
      * (* the thread cleared HAS_NOTIFS: it takes the token *)
        assert (Tk : ntok s = TWord).
        { unfold G2 in G. rewrite Ew in G. destruct (ntok s); auto; [destruct G as (_ & G)|destruct G as (_ & G & _)|destruct G as (_ & G & _)]; lia. }
        apply (Inv2_tok s); try exact HI; try reflexivity.
        -- intros u Ne. rewrite Tk. split; discriminate.
        -- unfold G2 in *; sset. rewrite Tk in G. destruct G as (G & _). rewrite upd_same. repeat split; auto.
        -- unfold T2; sset. rewrite upd_same. cbn [cls]. repeat split; intros; try discriminate; auto.
           apply TD. discriminate.
      * pose proof (decomp old Ht1) as (_ & _ & _ & Bn & _).
        apply (Inv2_same s); try exact HI; try reflexivity.
        -- sset. rewrite Nn, Ew. lia.
        -- rewrite Hpc. apply cls_wake_tail.
        -- intros o n X. exfalso. exact (not_cas_wake_tail _ _ _ _ X).
    + apply Z.eqb_eq in C0. rewrite C0. cbn [Z.eqb].
      assert (Cl : cls (lv_loop_entry k (ea e)) = 0) by (apply cls_lv_loop_entry; rewrite C1; exact W).
      apply (Inv2_same s); try exact HI; try reflexivity; [rewrite Hpc; exact Cl|].
      intros o n X. rewrite X in Cl. discriminate Cl.
  - (* PSnapHead *)
    crack Hts. injection Hts as <-. apply Some_inj in Hg; subst s1.
    apply (Inv2_same s); try exact HI; try reflexivity; [rewrite Hpc; destruct (_ =? _); reflexivity|].
    intros o n X. destruct (_ =? _); discriminate X.
  - crack Hts. injection Hts as <-. apply Some_inj in Hg; subst s1.
    apply (Inv2_same s); try exact HI; try reflexivity; [rewrite Hpc; reflexivity|discriminate].
  - (* PSnapTail: the list is detached *)
    crack Hts. injection Hts as <-. crack Hg. apply Some_inj in Hg; subst s1.
    specialize (TB eq_refl). assert (Hh : held s t = []) by (apply TD; discriminate).
    unfold G2 in G. rewrite TB in G. destruct G as (Nq & Fn0 & _).
    destruct HI2 as (R0 & ND & NDh & Iq & Ih & If & Ic & Iu & Ip).
    split; [|split].
    + unfold G2; sset. auto.
    + unfold I2; sset. split; [exact R0|]. split; [constructor|]. split.
      { intros u. unfold upd. destruct (u =? t); [exact ND|apply NDh]. }
      split; [intros i []|]. split.
      { intros u i Hi. unfold upd in Hi. destruct (Z.eqb_spec u t) as [->|Ne].
        - destruct (Iq i Hi) as (A & _). split; [exact A|]. split; [|exact Vt].
          apply existsb_In in Hi. rewrite Hi. reflexivity.
        - destruct (Ih u i Hi) as (A & B & C'). split; [exact A|]. split; [|exact C'].
          destruct (existsb (Z.eqb i) (ids (nq s))) eqn:Ex; [|exact B]. apply existsb_In in Ex. destruct (Iq i Ex) as (_ & Z0). lia. }
      split.
      { intros i. rewrite If. destruct (existsb (Z.eqb i) (ids (nq s))) eqn:Ex; [|reflexivity].
        apply existsb_In in Ex. destruct (Iq i Ex) as (_ & Z0). rewrite Z0. unfold valid_tid in Vt.
        destruct (Z.eqb_spec t (-1)); [lia|reflexivity]. }
      split.
      { intros i Hi. destruct (Ic i Hi) as (A & B & C'). destruct (existsb (Z.eqb i) (ids (nq s))) eqn:Ex.
        - apply existsb_In in Ex. unfold valid_tid in Vt. split; [intros; lia|]. split; [|right; right; exact Vt].
          intros _. rewrite upd_same. exact Ex.
        - assert (Nin : ~ In i (ids (nq s))) by (intros X; apply existsb_In in X; congruence).
          split; [intros Z0; exfalso; apply Nin, A, Z0|]. split; [|exact C'].
          intros P. specialize (B P). destruct (Z.eq_dec (nplace s i) t) as [Q|Q].
          + rewrite Q, Hh in B. destruct B.
          + rewrite upd_other by exact Q. exact B. }
      split.
      { intros i Hi. destruct (existsb (Z.eqb i) (ids (nq s))) eqn:Ex; [|apply Iu; exact Hi].
        apply existsb_In in Ex. destruct (Iq i Ex) as (A & _). contradiction. }
      intros i p [].
    + intros u. destruct (Z.eq_dec u t) as [->|Ne].
      * unfold T2; sset. rewrite !upd_same. cbn [cls]. repeat split; intros; try discriminate; auto. congruence.
      * apply (T2_frame s _ t u Ne (HT u)); sset; [apply upd_other; exact Ne|apply upd_other; exact Ne|].
        right. rewrite TB. split; intros X; [discriminate X|injection X as X; auto].
  - (* PFire: one continuation is submitted *)
    crack Hts. injection Hts as <-. destruct (held s t) as [|[i ptr] rest] eqn:Hh; [discriminate|]. crack Hg.
    apply andb_true_iff in C0 as [_ C0]. apply Z.eqb_eq in C0. apply Some_inj in Hg; subst s1.
    destruct HI2 as (R0 & ND & NDh & Iq & Ih & If & Ic & Iu & Ip).
    assert (Hi : In i (ids (held s t))) by (rewrite Hh; left; reflexivity).
    destruct (Ih t i Hi) as (Ri & Pi & _).
    pose proof (NDh t) as NDt. rewrite Hh in NDt. cbn [ids map fst] in NDt. apply NoDup_cons_iff in NDt as (Nin & NDr). fold (ids rest) in Nin, NDr.
    split; [|split].
    + apply (G2_frame s _ t G); sset; try reflexivity; [intros u Ne; apply upd_other; exact Ne|rewrite Hpc; discriminate|rewrite Hpc; discriminate].
    + unfold I2; sset. split; [exact R0|]. split; [exact ND|]. split.
      { intros u. unfold upd. destruct (u =? t); [exact NDr|apply NDh]. }
      split.
      { intros j Hj. destruct (Iq j Hj) as (A & B). split; [exact A|]. rewrite upd_other; [exact B|]. intros ->. lia. }
      split.
      { intros u j Hj. unfold upd in Hj. destruct (Z.eqb_spec u t) as [->|Ne].
        - destruct (Ih t j) as (A & B & C'); [rewrite Hh; right; exact Hj|]. split; [exact A|]. split; [|exact C'].
          rewrite upd_other; [exact B|]. intros ->. contradiction.
        - destruct (Ih u j Hj) as (A & B & C'). split; [exact A|]. split; [|exact C'].
          rewrite upd_other; [exact B|]. intros ->. congruence. }
      split.
      { intros j. unfold upd. destruct (Z.eqb_spec j i) as [->|Ne]; [|apply If].
        rewrite If, Pi. unfold valid_tid in Vt. destruct (Z.eqb_spec t (-1)); [lia|reflexivity]. }
      split.
      { intros j Hj. destruct (Z.eq_dec j i) as [->|Ne].
        - rewrite upd_same. split; [intros; lia|]. split; [intros; lia|]. right; left; reflexivity.
        - rewrite upd_other by exact Ne. destruct (Ic j Hj) as (A & B & C'). split; [exact A|]. split; [|exact C'].
          intros P. specialize (B P). unfold upd. destruct (Z.eqb_spec (nplace s j) t) as [Q|Q]; [|exact B].
          rewrite Q, Hh in B. destruct B as [B|B]; [cbn in B; congruence|exact B]. }
      split.
      { intros j Hj. rewrite upd_other; [apply Iu; exact Hj|]. intros ->. contradiction. }
      exact Ip.
    + intros u. destruct (Z.eq_dec u t) as [->|Ne].
      * unfold T2; sset. rewrite !upd_same. rewrite C0. destruct rest as [|r rest'].
        -- cbn [Z.eqb Pos.eqb]. rewrite cls_wake_tail. repeat split; intros; try discriminate; auto.
           exfalso. exact (not_cas_wake_tail _ _ _ _ H).
        -- cbn [Z.eqb cls]. repeat split; intros; try discriminate; auto. exfalso; apply H; reflexivity.
      * apply (T2_frame s _ t u Ne (HT u)); sset; [apply upd_other; exact Ne|apply upd_other; exact Ne|left; reflexivity].
  - (* PWakeFutex *)
    crack Hts. injection Hts as <-. apply Some_inj in Hg; subst s1.
    apply (Inv2_same s); try exact HI; try reflexivity; [rewrite Hpc; destruct k; reflexivity|destruct k; discriminate].
  - (* PWtLoad *)
    crack Hts. injection Hts as <-. crack Hg. apply Some_inj in Hg; subst s1.
    apply (Inv2_same s); try exact HI; try reflexivity; [rewrite Hpc; apply cls_wt_entry|].
    intros o n X. pose proof (cls_wt_entry tmo (ea e)) as Cl. rewrite X in Cl. discriminate Cl.
  - (* PWtCas *)
    destruct Ht1 as (Wo & En & _).
    crack Hts. injection Hts as <-. crack Hg. apply andb_true_iff in C0 as [C1 C0]. apply Z.eqb_eq in C1.
    apply Some_inj in Hg; subst s1.
    destruct (Z.eqb_spec (eok e) 1) as [Ok|Nok].
    + cbn [negb orb] in C0. apply Z.eqb_eq in C0. pose proof (lor_hw_spec old Wo) as (_ & _ & _ & Fn & _). subst new.
      apply (Inv2_same s); try exact HI; try reflexivity; [sset; rewrite Fn, C0; reflexivity|rewrite Hpc; reflexivity|discriminate].
    + apply (Inv2_same s); try exact HI; try reflexivity; [rewrite Hpc; apply cls_wt_entry|].
      intros o n X. pose proof (cls_wt_entry tmo (ea e)) as Cl. rewrite X in Cl. discriminate Cl.
  - (* PSlow *)
    assert (X : exists s0 p0, s1 = s0 /\ p' = p0 /\ cls p0 = 0 /\ (forall o n, p0 <> PNfCas o n) /\
                (s0 = s \/ exists f, s0 = set_slp s f)).
    { destruct (ev_kind e DV_FUTEX_WAIT && (eoff e =? OFF_GEN) && (ea e =? gen) && (eb e =? (if tmo =? FOREVER then 0 else 1))) eqn:C.
      - injection Hts as <-. apply andb_true_iff in C as [C _]. apply andb_true_iff in C as [C _]. apply andb_true_iff in C as [C _]. rewrite C in Hg.
        apply Some_inj in Hg; subst s1. eexists _, _. repeat split; [discriminate|right; eexists; reflexivity].
      - crack Hts. injection Hts as <-.
        assert (Q : s1 = s \/ exists f, s1 = set_slp s f).
        { destruct (ev_kind e DV_FUTEX_WAIT); [apply Some_inj in Hg; subst s1; right; eexists; reflexivity|].
          crack Hg. apply Some_inj in Hg; subst s1. left; reflexivity. }
        eexists _, _. repeat split; [destruct (_ =? _); reflexivity|destruct (_ =? _); discriminate|exact Q]. }
    destruct X as (s0 & p0 & -> & -> & Cl & Nc & [->|(f & ->)]); apply (Inv2_same s); try exact HI; try reflexivity;
      try (rewrite Hpc; exact Cl); intros o n X; exfalso; exact (Nc _ _ X).
  - (* PSleep *)
    crack Hts. injection Hts as <-. destruct ((tmo =? FOREVER) && (eb e =? ETIMEDOUT)); [discriminate Hg|]. apply Some_inj in Hg; subst s1.
    apply (Inv2_same s); try exact HI; try reflexivity; [rewrite Hpc; reflexivity|discriminate].
  - (* PSlowLoad *)
    crack Hts. injection Hts as <-. crack Hg. apply Some_inj in Hg; subst s1.
    apply (Inv2_same s); try exact HI; try reflexivity.
    + rewrite Hpc. destruct (_ =? _); [destruct (_ =? _)|]; reflexivity.
    + intros o n X. destruct (_ =? _); [destruct (_ =? _)|]; discriminate X.
  - (* PRetV *)
    crack Hts. injection Hts as <-. apply Some_inj in Hg; subst s1.
    apply (Inv2_same s); try exact HI; try reflexivity; [rewrite Hpc; reflexivity|discriminate].
  - (* PNfPush: registration *)
    crack Hts. injection Hts as <-. crack Hg. apply Z.eqb_eq in C0. apply Some_inj in Hg; subst s1.
    apply andb_true_iff in C as [_ Cp]. apply negb_true_iff in Cp. apply Z.eqb_neq in Cp.
    assert (Hh : held s t = []) by (apply TD; discriminate).
    destruct HI2 as (R0 & ND & NDh & Iq & Ih & If & Ic & Iu & Ip).
    assert (I2' : I2 (set_pc (set_push s t (eb e)) t (if ea e =? 0 then PNfHead (eb e) else PRet))).
    { unfold I2; sset. rewrite ids_app. cbn [fst]. split; [lia|]. split.
      { apply NoDup_app_snoc. - exact ND. - intros X. destruct (Iq _ X). lia. }
      split; [exact NDh|]. split.
      { intros i Hi. apply in_app_or in Hi as [Hi|[<-|[]]]; [destruct (Iq i Hi); split; [lia|assumption]|].
        split; [lia|]. apply Iu. lia. }
      split; [intros u i Hi; destruct (Ih u i Hi) as (A & B & C'); repeat split; auto; lia|].
      split; [exact If|]. split.
      { intros i Hi. destruct (Z.eq_dec i (nreg s)) as [->|Ne].
        - rewrite (Iu (nreg s)) by lia. split; [intros _; apply in_or_app; right; left; reflexivity|]. split; [intros; lia|left; reflexivity].
        - destruct (Ic i) as (A & B & C'); [lia|]. split; [intros Z0; apply in_or_app; left; apply A, Z0|]. split; assumption. }
      split; [intros i Hi; apply Iu; lia|].
      intros i p Hi. apply in_app_or in Hi as [Hi|[Hi|[]]]; [apply (Ip i p Hi)|]. injection Hi as _ <-. exact Cp. }
    destruct (nq s) as [|q0 qs] eqn:Hq.
    + (* first pusher *)
      cbn in C0. rewrite C0. cbn [Z.eqb].
      assert (Tk : ntok s = TNone).
      { unfold G2 in G. rewrite Hq in G. destruct (ntok s); auto; destruct G as (G & _); exfalso; apply G; reflexivity. }
      unfold G2 in G. rewrite Tk in G. destruct G as (_ & Fn0).
      rewrite C0 in I2'. cbn [Z.eqb] in I2'.
      split; [|split; [exact I2'|]].
      * unfold G2; sset. rewrite Hq. cbn [app]. rewrite upd_same. repeat split; auto. discriminate.
      * intros u. destruct (Z.eq_dec u t) as [->|Ne].
        -- unfold T2; sset. rewrite Hq, upd_same. cbn [cls]. repeat split; intros; try discriminate; auto.
        -- apply (T2_frame s _ t u Ne (HT u)); sset; [apply upd_other; exact Ne|reflexivity|].
           right. rewrite Tk. split; discriminate.
    + (* pushed behind others *)
      assert (Tz : tailptr (q0 :: qs) <> 0) by (apply tailptr_nz; [exact Ip|discriminate]).
      destruct (Z.eqb_spec (ea e) 0) as [E0|E0]; [congruence|].
      split; [|split; [exact I2'|]].
      * apply (G2_frame s _ t G); sset; rewrite ?Hq; try reflexivity.
        -- split; intros X; [destruct qs; discriminate X|discriminate X].
        -- intros u Ne; apply upd_other; exact Ne.
        -- rewrite Hpc; discriminate.
        -- rewrite Hpc; discriminate.
      * intros u. destruct (Z.eq_dec u t) as [->|Ne].
        -- unfold T2; sset. rewrite upd_same. cbn [cls]. repeat split; intros; try discriminate; auto.
        -- apply (T2_frame s _ t u Ne (HT u)); sset; [apply upd_other; exact Ne|reflexivity|left].
           rewrite Hq. reflexivity.
  - (* PNfHead *)
    crack Hts. injection Hts as <-. apply Some_inj in Hg; subst s1.
    apply (Inv2_same s); try exact HI; try reflexivity; [rewrite Hpc; reflexivity|discriminate].
  - (* PNfLoad *)
    crack Hts. injection Hts as <-. crack Hg. apply Z.eqb_eq in C0. apply Some_inj in Hg; subst s1.
    apply nf_step; [exact HI|rewrite C0; exact W|rewrite Hpc; reflexivity].
  - (* PNfCas *)
    destruct Ht1 as (Wo & En).
    crack Hts. injection Hts as <-. crack Hg. apply andb_true_iff in C0 as [C1 C0]. apply Z.eqb_eq in C1.
    apply Some_inj in Hg; subst s1.
    destruct (Z.eqb_spec (eok e) 1) as [Ok|Nok].
    + cbn [negb orb] in C0. apply Z.eqb_eq in C0. pose proof (lor_hn_spec old Wo) as (_ & _ & _ & Fn & _). subst new.
      specialize (TA eq_refl).
      apply (Inv2_tok s); try exact HI; try reflexivity.
      * intros u Ne. rewrite TA. split; intros X; [injection X as X; auto|discriminate X].
      * unfold G2 in *; sset. rewrite TA in G. destruct G as (G & _). split; [exact G|exact Fn].
      * unfold T2; sset. rewrite upd_same. cbn [cls]. repeat split; intros; try discriminate; auto. apply TD. discriminate.
    + apply nf_step; [exact HI|rewrite C1; exact W|rewrite Hpc; reflexivity].
Qed.

(* ================= consequences ================= *)
Theorem inv_reach s : reach s -> Inv1 s /\ Inv2 s.
Proof.
  apply (invariant_lift (fun s => s = init_state) step (fun s => Inv1 s /\ Inv2 s)).
  - intros ? ->. split; [apply Inv1_init|apply Inv2_init].
  - intros s0 [t e] s1 (H1 & H2) [Vt Hs]. cbn in *. split; [eapply step1; eauto|eapply step2; eauto].
Qed.
Lemma reach_gstep s t e s' : reach s -> valid_tid t -> gstep s t e = Some s' -> reach s'.
Proof. intros R Vt Hs. apply (reach_step _ _ s (t, e) s' R). split; assumption. Qed.
Lemma grun_reach tr : forall s s', reach s -> Forall (fun a => valid_tid (fst a)) tr -> grun s tr = Some s' -> reach s'.
Proof.
  induction tr as [|[t e] tr IH]; intros s s' R F H; cbn in H.
  - injection H as <-. exact R.
  - destruct (gstep s t e) as [s1|] eqn:Hs; [|discriminate]. inversion F; subst.
    apply (IH s1); auto. eapply reach_gstep; eauto.
Qed.

(* dispatch_group_wait returns 0 only if the count was zero at some state during the call *)
Lemma wait_zero_sound s t : reach s -> pcs s t = PRetV 0 -> wz s t = true.
Proof. intros R Hp. destruct (inv_reach s R) as ((_ & HT) & _). specialize (HT t). unfold T1 in HT. rewrite Hp in HT. apply HT. reflexivity. Qed.
(* ... and the return event of a wait that reports 0 is only accepted at such a program point *)
Lemma wait_ret_zero_pc s t e s' v : pcs s t = PRetV v -> gstep s t e = Some s' -> ea e = 0 -> v = 0.
Proof.
  intros Hp Hs E. unfold gstep in Hs. rewrite Hp in Hs. cbn [tstep] in Hs.
  destruct (ev_kind e DVU_RET && Bool.eqb (ea e =? 0) (v =? 0)) eqn:C; [|discriminate].
  apply andb_true_iff in C as [_ C]. rewrite E in C. cbn in C. destruct (Z.eqb_spec v 0); [assumption|discriminate].
Qed.

(* a non-zero result comes only from a zero timeout, from ETIMEDOUT of the futex wait, or from a deadline that had
   already passed when _dispatch_wait_on_address computed the remaining time *)
Definition isret (p : pc) : bool := match p with PRetV _ => true | _ => false end.
Lemma isret_wake_tail k x : isret (wake_tail k x) = false.
Proof. unfold wake_tail. destruct (nz _); [reflexivity|destruct k; reflexivity]. Qed.
Lemma isret_wake_entry k x : isret (wake_entry k x) = false.
Proof. unfold wake_entry. destruct (nz _); [reflexivity|apply isret_wake_tail]. Qed.
Lemma isret_lv_loop_entry k x : isret (lv_loop_entry k x) = false.
Proof. unfold lv_loop_entry. destruct (_ =? _); [apply isret_wake_entry|reflexivity]. Qed.
Lemma isret_after_add k x : isret (after_add k x) = false.
Proof. unfold after_add. cbv zeta. destruct (_ =? _); [apply isret_lv_loop_entry|]. destruct (_ =? _); [reflexivity|destruct k; reflexivity]. Qed.
Lemma isret_nf_entry x : isret (nf_entry x) = false.
Proof. rewrite nf_entry_spec. destruct (_ =? _); [apply isret_wake_entry|reflexivity]. Qed.
Lemma isret_inj p v : p = PRetV v -> isret p = true.
Proof. intros ->. reflexivity. Qed.
Ltac noret H lem := apply isret_inj in H; rewrite lem in H; discriminate H.

Lemma nonzero_only_by_timeout p e v : tstep p e = Some (PRetV v) -> v <> 0 ->
  match p with
  | PWtLoad tmo | PWtCas tmo _ _ => tmo = 0
  | PSlow tmo _ => tmo <> FOREVER /\ ev_kind e DV_FUTEX_WAIT = false
  | PSlowLoad _ _ rc => rc = ETIMEDOUT
  | _ => False
  end.
Proof.
  assert (WT : forall tmo x, wt_entry tmo x = PRetV v -> v <> 0 -> tmo = 0).
  { intros tmo x. unfold wt_entry. cbv zeta. destruct (_ =? 1); [intros X; injection X as <-; contradiction|].
    destruct (_ =? 2) eqn:C2; [|destruct (_ =? 3); [discriminate|destruct (_ =? 0); discriminate]].
    intros _ _. unfold group_wait_loop in C2. destruct (Z.land x 4294967292 =? 0); [discriminate C2|].
    destruct (Z.eqb_spec tmo 0); [assumption|]. cbn in C2. destruct (negb _); discriminate C2. }
  intros H Hv. destruct p; cbn [tstep] in H.
  - destruct (ev_kind e DVU_CALL).
    + destruct (_ || _); [discriminate H|]. destruct (_ =? _); [discriminate H|]. destruct (_ =? _); [discriminate H|].
      destruct (_ =? _); discriminate H.
    + destruct (is_add e); [|destruct (is_mark e); discriminate H]. apply Some_inj in H. noret H isret_after_add.
  - discriminate H.
  - crack H. apply Some_inj in H. destruct (Z.land (ea e) VMASK =? VMAX); discriminate H.
  - crack H. discriminate H.
  - crack H. apply Some_inj in H. noret H isret_after_add.
  - crack H. apply Some_inj in H. destruct (eok e =? 1); [noret H isret_wake_entry|noret H isret_lv_loop_entry].
  - crack H. apply Some_inj in H. destruct (ea e =? 0); discriminate H.
  - crack H. discriminate H.
  - crack H. discriminate H.
  - crack H. apply Some_inj in H. destruct (eok e =? 1); [noret H isret_wake_tail|discriminate H].
  - crack H. destruct k; discriminate H.
  - crack H. apply Some_inj in H. exact (WT _ _ H Hv).
  - crack H. apply Some_inj in H. destruct (eok e =? 1); [discriminate|]. exact (WT _ _ H Hv).
  - destruct (ev_kind e DV_FUTEX_WAIT && (eoff e =? OFF_GEN) && (ea e =? gen) && (eb e =? (if tmo =? FOREVER then 0 else 1))) eqn:C; [discriminate|].
    crack H. apply andb_true_iff in C0 as [C0 C1]. apply andb_true_iff in C0 as [C0 _]. apply ev_is_kind in C0.
    split; [apply negb_true_iff in C1; apply Z.eqb_neq; exact C1|]. unfold ev_kind. rewrite C0. reflexivity.
  - crack H. discriminate H.
  - crack H. apply Some_inj in H. destruct (ea e =? gen); [|injection H as <-; contradiction].
    destruct (Z.eqb_spec rc ETIMEDOUT); [assumption|discriminate].
  - crack H. discriminate H.
  - crack H. apply Some_inj in H. destruct (ea e =? 0); discriminate H.
  - crack H. discriminate H.
  - crack H. apply Some_inj in H. noret H isret_nf_entry.
  - crack H. apply Some_inj in H. destruct (eok e =? 1); [discriminate H|noret H isret_nf_entry].
Qed.

(* every registered notification is submitted at most once, and only registered ones are submitted *)
Lemma exactly_once s i : reach s -> 0 <= fcnt s i <= 1 /\ (fcnt s i = 1 -> 0 <= i < nreg s).
Proof.
  intros R. destruct (inv_reach s R) as (_ & _ & (R0 & _ & _ & _ & _ & If & _ & Iu & _) & _).
  rewrite If. destruct (Z.eqb_spec (nplace s i) (-1)) as [E|E]; split; try lia; intros _.
  destruct (Z.lt_ge_cases i 0); [rewrite Iu in E by lia; discriminate|].
  destruct (Z.lt_ge_cases i (nreg s)); [lia|rewrite Iu in E by lia; discriminate].
Qed.
(* the thread that detaches the list is unique, and so is the first pusher still working on the HAS_NOTIFS bit *)
Lemma unique_detacher s t u : reach s -> cls (pcs s t) = 2 -> cls (pcs s u) = 2 -> t = u.
Proof.
  intros R A B. destruct (inv_reach s R) as (_ & _ & _ & HT). destruct (HT t) as (_ & X & _), (HT u) as (_ & Y & _).
  specialize (X A). specialize (Y B). congruence.
Qed.
(* where each registered notification is: still listed, detached by exactly one thread, or submitted once *)
Lemma notification_place s i : reach s -> 0 <= i < nreg s ->
  (In i (ids (nq s)) /\ fcnt s i = 0) \/ (exists t, In i (ids (held s t)) /\ cls (pcs s t) = 3 /\ fcnt s i = 0) \/ fcnt s i = 1.
Proof.
  intros R Hi. destruct (inv_reach s R) as (_ & _ & (R0 & _ & _ & _ & _ & If & Ic & _) & HT).
  destruct (Ic i Hi) as (A & B & [C|[C|C]]); rewrite If.
  - left. split; [auto|]. rewrite C. reflexivity.
  - right; right. rewrite C. reflexivity.
  - right; left. exists (nplace s i). specialize (B C). split; [exact B|]. split.
    + destruct (HT (nplace s i)) as (_ & _ & _ & D & _). destruct (Z.eq_dec (cls (pcs s (nplace s i))) 3); [assumption|].
      rewrite D in B by assumption. destruct B.
    + destruct (Z.eqb_spec (nplace s i) (-1)); [lia|reflexivity].
Qed.
(* when no call is in flight the list is either empty with HAS_NOTIFS clear, or non-empty with the bit set *)
Lemma idle_list_state s : reach s -> (forall t, pcs s t = PIdle) ->
  ((nq s = [] /\ fn (word s) = 0) \/ (nq s <> [] /\ fn (word s) = 1)) /\ forall t, held s t = [].
Proof.
  intros R Hq. destruct (inv_reach s R) as (_ & G & _ & HT). split.
  - unfold G2 in G. destruct (ntok s) as [|p| |p]; [left; exact G| |right; exact G|]; destruct G as (_ & _ & C);
      rewrite Hq in C; discriminate C.
  - intros t. destruct (HT t) as (_ & _ & _ & D & _). apply D. rewrite Hq. discriminate.
Qed.

(* ties *)
Lemma sites_enter : canon model_sites_enter = canon group_enter_sites. Proof. vm_compute. reflexivity. Qed.
Lemma sites_leave : canon model_sites_leave = canon group_leave_sites. Proof. vm_compute. reflexivity. Qed.
Lemma sites_wait : canon model_sites_wait = canon group_wait_sites. Proof. vm_compute. reflexivity. Qed.
Lemma sites_wait_slow : canon model_sites_wait_slow = canon group_wait_slow_sites. Proof. vm_compute. reflexivity. Qed.
Lemma sites_notify : canon model_sites_notify = canon group_notify_sites. Proof. vm_compute. reflexivity. Qed.
Lemma sites_wake : canon model_sites_wake = canon group_wake_sites. Proof. vm_compute. reflexivity. Qed.
Lemma gstep_tstep s t e s' : gstep s t e = Some s' -> tstep (pcs s t) e = Some (pcs s' t).
Proof. intros H. destruct (gstep_inv _ _ _ _ H) as (p' & s1 & Hts & _ & ->). sset. rewrite upd_same. exact Hts. Qed.

(* ================= invariant 3: nobody is left behind =================
   J     : value = 0 with a flag still set  =>  some thread is in the clearing loop of dispatch_group_leave holding a
           value-0 word with a flag (it must attempt the CAS, and re-reads on failure);
   Wake  : a thread past its successful clearing CAS that still owes the futex wake (its snapshot of the word has
           HAS_WAITERS), or HAS_WAITERS still set in the word together with a clearing-loop thread that holds it;
   sleeper: asleep in the current generation => HAS_WAITERS set and value <> 0; asleep in an older one => Wake;
   Oc    : the value field is the number of outstanding enters (negated, mod 2^30). *)
Definition WHp (p : pc) : Prop :=
  match p with
  | PSnapHead _ st | PSnapStore _ st | PSnapTail _ st | PFire _ st => fw st = 1
  | PWakeFutex _ => True
  | _ => False
  end.
Definition LWp (p : pc) : Prop := match p with PLvLoop _ old => fw old = 1 | _ => False end.
Definition Jp (p : pc) : Prop := match p with PLvLoop _ old => fv old = 0 /\ (fn old = 1 \/ fw old = 1) | _ => False end.
Definition Wake (s : gst) : Prop := (exists u, WHp (pcs s u)) \/ (fw (word s) = 1 /\ exists u, LWp (pcs s u)).
Definition J (s : gst) : Prop := fv (word s) = 0 -> (fn (word s) = 1 \/ fw (word s) = 1) -> exists u, Jp (pcs s u).
Definition Oc (s : gst) : Prop :=
  0 <= outst s < 1073741824 /\ fv (word s) = (1073741824 - outst s) mod 1073741824.
Definition T3p (s : gst) (t : Z) (p : pc) : Prop :=
  match p with
  | PSlow _ _ | PSleep _ _ | PSlowLoad _ _ _ => gsnap s t = gfull s -> fw (word s) = 1 /\ fv (word s) <> 0
  | PWtCas _ old _ => fv old <> 0
  | PNfCas old _ => (u32 old =? 0) = false
  | _ => True
  end.
Definition T3 (s : gst) (t : Z) : Prop :=
  (slp s t = Sleeping -> exists tmo g, pcs s t = PSleep tmo g) /\
  T3p s t (pcs s t) /\
  (slp s t = Sleeping -> gsnap s t < gfull s -> Wake s).
Definition Inv3 (s : gst) : Prop := Oc s /\ J s /\ forall t, T3 s t.

Lemma Inv3_init : Inv3 init_state.
Proof.
  split; [unfold Oc, fv; cbn; split; [lia|reflexivity]|]. split.
  - intros _ [H|H]; cbn in H; discriminate H.
  - intros t. unfold T3; cbn. repeat split; intros; discriminate.
Qed.

Section Arith3.
Local Ltac Zify.zify_post_hook ::= Z.div_mod_to_equations.
Lemma oc_enter o v : 0 <= o < 1073741824 -> v = (1073741824 - o) mod 1073741824 -> v <> 1 ->
  0 <= o + 1 < 1073741824 /\ (v - 1) mod 1073741824 = (1073741824 - (o + 1)) mod 1073741824 /\ (v - 1) mod 1073741824 <> 0.
Proof. intros. lia. Qed.
Lemma oc_leave o v : 0 <= o < 1073741824 -> v = (1073741824 - o) mod 1073741824 -> v <> 0 ->
  0 <= o - 1 < 1073741824 /\ (v = 1073741823 -> 0 = (1073741824 - (o - 1)) mod 1073741824) /\
  (v <> 1073741823 -> v + 1 = (1073741824 - (o - 1)) mod 1073741824 /\ v + 1 <> 0).
Proof. intros. lia. Qed.
Lemma fresh_eq G g : g <= G -> G - g < 4294967296 -> G mod 4294967296 = g mod 4294967296 -> G = g.
Proof. intros. lia. Qed.
Lemma flags_of_u32 x : wfw x -> fv x = 0 -> (u32 x =? 0) = false -> fn x = 1 \/ fw x = 1.
Proof.
  intros W V U. rewrite (u32_fields x W), V in U. pose proof (decomp x W) as (_ & _ & _ & Bn & Bw).
  apply Z.eqb_neq in U. lia.
Qed.
End Arith3.

Lemma leave_new_fixpoint_flags x : wfw x -> fv x = 0 -> leave_new x = x -> fn x = 0 /\ fw x = 0.
Proof.
  intros W V E. pose proof (leave_new_spec x W) as (_ & _ & _ & _ & Fn & Fw). rewrite E, V in *. cbn in Fw. auto.
Qed.
Lemma WHp_wake_tail k x : wfw x -> fw x = 1 -> WHp (wake_tail k x).
Proof. intros W F. rewrite (wake_tail_spec k x W), F. exact I. Qed.
Lemma WHp_wake_entry k x : wfw x -> fw x = 1 -> WHp (wake_entry k x).
Proof. intros W F. rewrite (wake_entry_spec k x W). destruct (fn x =? 1); [exact F|apply WHp_wake_tail; assumption]. Qed.
(* entering the clearing loop on a word with a flag to clear *)
Lemma lv_entry_J k x : wfw x -> fv x = 0 -> (fn x = 1 \/ fw x = 1) -> Jp (lv_loop_entry k x).
Proof.
  intros W V F. destruct (lv_loop_entry_spec k x W) as [->|(E & _ & _)]; [split; assumption|].
  destruct (leave_new_fixpoint_flags x W V E) as (A & B). destruct F; lia.
Qed.
Lemma lv_entry_W k x : wfw x -> fw x = 1 -> LWp (lv_loop_entry k x) \/ WHp (lv_loop_entry k x).
Proof.
  intros W F. destruct (lv_loop_entry_spec k x W) as [->|(_ & _ & ->)]; [left; exact F|right; apply WHp_wake_tail; assumption].
Qed.
Lemma T3p_wake_tail s t k x : T3p s t (wake_tail k x).
Proof. unfold wake_tail. destruct (nz _); [exact I|destruct k; exact I]. Qed.
Lemma T3p_wake_entry s t k x : T3p s t (wake_entry k x).
Proof. unfold wake_entry. destruct (nz _); [exact I|apply T3p_wake_tail]. Qed.
Lemma T3p_lv_loop_entry s t k x : T3p s t (lv_loop_entry k x).
Proof. unfold lv_loop_entry. destruct (_ =? _); [apply T3p_wake_entry|exact I]. Qed.
Lemma T3p_after_add s t k x : T3p s t (after_add k x).
Proof. rewrite after_add_spec. destruct (_ =? _); [apply T3p_lv_loop_entry|]. destruct (_ =? _); [exact I|destruct k; exact I]. Qed.
Lemma T3p_nf_entry s t x : T3p s t (nf_entry x).
Proof. rewrite nf_entry_spec. destruct (u32 x =? 0) eqn:E; [apply T3p_wake_entry|exact E]. Qed.
Lemma T3p_wt_entry s t tmo x : wfw x -> (gsnap s t = gfull s -> word s = x) -> T3p s t (wt_entry tmo x).
Proof.
  intros W Hw. rewrite (wt_entry_spec tmo x W). destruct (Z.eqb_spec (fv x) 0) as [V|V]; [exact I|].
  destruct (tmo =? 0); [exact I|]. destruct (Z.eqb_spec (fw x) 1) as [F|F]; cbn [T3p]; [|exact V].
  intros E. rewrite (Hw E). auto.
Qed.

Lemma Wake_frame s s' t : Wake s -> (forall u, u <> t -> pcs s' u = pcs s u) ->
  (fw (word s) = 1 -> fw (word s') = 1 \/ WHp (pcs s' t)) ->
  (WHp (pcs s t) -> WHp (pcs s' t)) ->
  (LWp (pcs s t) -> fw (word s) = 1 -> (LWp (pcs s' t) /\ fw (word s') = 1) \/ WHp (pcs s' t)) -> Wake s'.
Proof.
  intros [(u & Hu)|(Fw & u & Hu)] Ep H3 H4 H5.
  - left. destruct (Z.eq_dec u t) as [->|Ne]; [exists t; auto|exists u; rewrite Ep by exact Ne; exact Hu].
  - destruct (Z.eq_dec u t) as [->|Ne].
    + destruct (H5 Hu Fw) as [(A & B)|A]; [right; split; [exact B|exists t; exact A]|left; exists t; exact A].
    + destruct (H3 Fw) as [A|A]; [right; split; [exact A|exists u; rewrite Ep by exact Ne; exact Hu]|left; exists t; exact A].
Qed.

Lemma J_vac s' : (fv (word s') <> 0 \/ (fn (word s') = 0 /\ fw (word s') = 0)) -> J s'.
Proof. intros [H|(A & B)] V F; [contradiction|destruct F; lia]. Qed.
Lemma J_keep s s' t : J s -> word s' = word s -> (forall u, u <> t -> pcs s' u = pcs s u) ->
  (Jp (pcs s t) -> fv (word s) = 0 -> (fn (word s) = 1 \/ fw (word s) = 1) -> Jp (pcs s' t)) -> J s'.
Proof.
  intros HJ Ew Ep Ht V F. rewrite Ew in V, F. destruct (HJ V F) as (u & Hu).
  destruct (Z.eq_dec u t) as [->|Ne]; [exists t; auto|exists u; rewrite Ep by exact Ne; exact Hu].
Qed.

(* the thread that moves proves its own clause, the new J and Oc, and how Wake is carried over; everybody else follows *)
Lemma Inv3_intro s s' t : Inv1 s -> Inv3 s -> Oc s' -> J s' -> T3 s' t ->
  (forall u, u <> t -> pcs s' u = pcs s u /\ gsnap s' u = gsnap s u /\ (slp s' u = slp s u \/ slp s' u <> Sleeping)) ->
  gfull s <= gfull s' ->
  (gfull s' = gfull s -> fw (word s) = 1 -> fv (word s) <> 0 -> fw (word s') = 1 /\ fv (word s') <> 0) ->
  (Wake s -> (forall u, slp s' u <> Sleeping) \/ Wake s') ->
  (gfull s < gfull s' -> fw (word s) = 1 -> Wake s') ->
  Inv3 s'.
Proof.
  intros (_ & HT1) (_ & _ & HT) O' J' T' F Hm Hst Hw Hc. split; [exact O'|]. split; [exact J'|].
  intros u. destruct (Z.eq_dec u t) as [->|Ne]; [exact T'|].
  destruct (F u Ne) as (Ep & Eg & Es). destruct (HT u) as (A & B & D). specialize (HT1 u). unfold T1 in HT1.
  assert (Sl : slp s' u = Sleeping -> slp s u = Sleeping) by (intros X; destruct Es as [Es|Es]; [congruence|contradiction]).
  unfold T3. rewrite Ep, Eg. split; [intros X; apply A, Sl, X|]. split.
  - destruct (pcs s u); cbn [T3p T1p] in *; try exact B; destruct HT1 as (_ & (L & _)); intros E;
      (assert (E2 : gfull s' = gfull s) by lia); (assert (E3 : gsnap s u = gfull s) by lia);
      destruct (B E3) as (B1 & B2); apply Hst; assumption.
  - intros X L. pose proof (Sl X) as X0. destruct (A X0) as (tmo & g & Hp). rewrite Hp in HT1, B. cbn [T1p T3p] in HT1, B.
    destruct HT1 as (_ & (L0 & _)).
    destruct (Z.lt_ge_cases (gsnap s u) (gfull s)) as [Lt|Ge].
    + destruct (Hw (D X0 Lt)) as [N|W]; [exfalso; exact (N u X)|exact W].
    + apply Hc; [lia|]. apply B. lia.
Qed.

(* the moving thread is not asleep afterwards: only the pc-dependent clause remains *)
Lemma T3_mover s' t : slp s' t <> Sleeping -> T3p s' t (pcs s' t) -> T3 s' t.
Proof. intros N P. split; [intros X; contradiction|]. split; [exact P|intros X; contradiction]. Qed.
Lemma not_asleep s t : T3 s t -> (forall tmo g, pcs s t <> PSleep tmo g) -> slp s t <> Sleeping.
Proof. intros (A & _) N X. destruct (A X) as (tmo & g & E). exact (N _ _ E). Qed.

(* a step that leaves the word, the counters and the generation alone *)
Lemma Inv3_same s s1 t p' : Inv1 s -> Inv3 s -> word s1 = word s -> gfull s1 = gfull s -> outst s1 = outst s ->
  pcs s1 = pcs s -> (forall u, u <> t -> gsnap s1 u = gsnap s u /\ slp s1 u = slp s u) ->
  (WHp (pcs s t) -> WHp p') ->
  (LWp (pcs s t) -> fw (word s) = 1 -> LWp p' \/ WHp p') ->
  (Jp (pcs s t) -> fv (word s) = 0 -> (fn (word s) = 1 \/ fw (word s) = 1) -> Jp p') ->
  T3 (set_pc s1 t p') t -> Inv3 (set_pc s1 t p').
Proof.
  intros HI1 HI Ew Eg Eo Ep Fr Hwh Hlw Hj Tt. pose proof HI as (O & HJ & _).
  assert (Pc : forall u, u <> t -> pcs (set_pc s1 t p') u = pcs s u).
  { intros u Ne. sset. rewrite Ep. apply upd_other. exact Ne. }
  apply (Inv3_intro s _ t HI1 HI); sset.
  - unfold Oc in *; sset. rewrite Ew, Eo. exact O.
  - apply (J_keep s _ t HJ); sset; [exact Ew|exact Pc|rewrite upd_same; exact Hj].
  - exact Tt.
  - intros u Ne. destruct (Fr u Ne) as (A & B). rewrite Ep, upd_other by exact Ne. repeat split; auto.
  - lia.
  - intros _ A B. rewrite Ew. auto.
  - intros W. right. apply (Wake_frame s _ t W); sset; try exact Pc; rewrite ?upd_same, ?Ew; auto.
    intros A B. destruct (Hlw A B); auto.
  - intros X. lia.
Qed.

Ltac fr3 := let u := fresh "u" in let Ne := fresh "Ne" in intros u Ne; sset; rewrite ?upd_other by exact Ne; split; reflexivity.
Ltac nw Hpc := rewrite Hpc; cbn [WHp LWp Jp]; intros [].
Ltac awake HT Hpc := apply (not_asleep _ _ (HT _)); rewrite Hpc; intros ? ?; discriminate.
Ltac nof := try match goal with |- False -> _ => intros [] end.
Lemma wake_all_ns f u : wake_all f u <> Sleeping.
Proof. unfold wake_all. destruct (f u); discriminate. Qed.

Lemma leave_eff_inv3 s t k e s1 : Inv1 s -> Inv3 s -> (pcs s t = PIdle \/ pcs s t = PLeave) ->
  (if (ea e =? word s) && negb (vzero (word s))
   then Some (if Z.land (word s) VMASK =? V1 then set_carry s (leave_word (word s))
              else set_count s (leave_word (word s)) (-1)) else None) = Some s1 ->
  Inv3 (set_pc s1 t (after_add k (ea e))).
Proof.
  intros HI1 HI Hp Hg. pose proof HI1 as ((W & _ & _) & _). pose proof HI as ((O1 & O2) & HJ & HT).
  crack Hg. apply andb_true_iff in C as [C0 C]. apply Z.eqb_eq in C0. apply negb_true_iff in C. rewrite vzero_fv in C.
  apply Z.eqb_neq in C. apply Some_inj in Hg; subst s1. rewrite C0.
  pose proof (leave_word_spec (word s) W) as (W' & Fn & Fw & L). rewrite carry_fv.
  pose proof (oc_leave _ _ O1 O2 C) as (R & Rc & Rn).
  assert (NW : ~ WHp (pcs s t) /\ ~ LWp (pcs s t) /\ forall tmo g, pcs s t <> PSleep tmo g).
  { destruct Hp as [-> | ->]; repeat split; try (intros []); intros ? ?; discriminate. }
  destruct NW as (N1 & N2 & N3).
  assert (Pc : forall s2, pcs s2 = pcs s -> forall u, u <> t -> pcs (set_pc s2 t (after_add k (word s))) u = pcs s u).
  { intros s2 E u Ne. sset. rewrite E. apply upd_other. exact Ne. }
  rewrite after_add_spec.
  destruct (Z.eqb_spec (fv (word s)) 1073741823) as [V|V]; destruct L as (Lg & Lv).
  - (* the count reaches zero: the carry bumps the generation *)
    apply (Inv3_intro s _ t HI1 HI); sset.
    + unfold Oc; sset. split; [exact R|]. rewrite Lv. apply Rc. exact V.
    + intros V0 F. sset. exists t. rewrite upd_same. apply lv_entry_J; assumption.
    + apply T3_mover; sset; [apply (not_asleep s t (HT t)); exact N3|rewrite upd_same; apply T3p_lv_loop_entry].
    + intros u Ne. rewrite upd_other by exact Ne. auto.
    + lia.
    + intros X. lia.
    + intros Wk. right. apply (Wake_frame s _ t Wk); sset.
      * intros u Ne. apply upd_other. exact Ne.
      * intros X. left. rewrite Fw. exact X.
      * intros X. contradiction.
      * intros X. contradiction.
    + intros _ X. assert (X' : fw (leave_word (word s)) = 1) by (rewrite Fw; exact X).
      destruct (lv_entry_W k _ W' X') as [A|A].
      * right. sset. split; [exact X'|]. exists t. rewrite upd_same. exact A.
      * left. sset. exists t. rewrite upd_same. exact A.
  - destruct (Rn V) as (Rv & Rz).
    replace (if fv (word s) =? 0 then PCrash else end_pc k) with (end_pc k)
      by (destruct (Z.eqb_spec (fv (word s)) 0); [contradiction|reflexivity]).
    apply (Inv3_intro s _ t HI1 HI); sset.
    + unfold Oc; sset. split; [exact R|]. rewrite Lv. exact Rv.
    + apply J_vac. sset. left. rewrite Lv. exact Rz.
    + apply T3_mover; sset; [apply (not_asleep s t (HT t)); exact N3|rewrite upd_same; destruct k; exact I].
    + intros u Ne. rewrite upd_other by exact Ne. auto.
    + lia.
    + intros _ A B. rewrite Fw, Lv. split; [exact A|exact Rz].
    + intros Wk. right. apply (Wake_frame s _ t Wk); sset.
      * intros u Ne. apply upd_other. exact Ne.
      * intros X. left. rewrite Fw. exact X.
      * intros X. contradiction.
      * intros X. contradiction.
    + intros X. lia.
Qed.

Lemma step3 s t e s' : Inv1 s -> fresh s -> Inv3 s -> gstep s t e = Some s' -> Inv3 s'.
Proof.
  intros HI1 Hf HI Hs. destruct (gstep_inv _ _ _ _ Hs) as (p' & s1 & Hts & Hg & ->).
  pose proof HI1 as ((W & G0 & Gg) & HT1). pose proof (HT1 t) as Ht1. unfold T1 in Ht1.
  pose proof HI as ((O1 & O2) & HJ & HT). pose proof (HT t) as (TA & TB & TD).
  destruct (pcs s t) eqn:Hpc; cbn [tstep] in Hts; cbn [geffect] in Hg; cbn [T1p] in Ht1; cbn [T3p] in TB.
  - (* PIdle *)
    destruct (ev_kind e DVU_CALL).
    + assert (X : exists s0, s1 = s0 /\ (s0 = s \/ s0 = set_call_wait s t)).
      { destruct (ea e =? OP_WAIT); injection Hg as Hg; [exists (set_call_wait s t)|exists s]; auto. }
      destruct X as (s0 & -> & Hs0).
      assert (P : forall s2, T3p s2 t p').
      { intros s2. destruct ((ea e =? OP_ENTER) || (ea e =? OP_ASYNC)); [injection Hts as <-; exact I|].
        destruct (ea e =? OP_LEAVE); [injection Hts as <-; exact I|].
        destruct (ea e =? OP_WAIT); [injection Hts as <-; exact I|].
        destruct (ea e =? OP_NOTIFY); [injection Hts as <-; exact I|discriminate]. }
      destruct Hs0 as [->| ->]; apply (Inv3_same s); try assumption; try reflexivity; try fr3; try (nw Hpc);
        apply T3_mover; sset; try (rewrite upd_same; apply P); awake HT Hpc.
    + destruct (is_add e).
      * injection Hts as <-. apply (leave_eff_inv3 s); auto.
      * crack Hts. injection Hts as <-. apply Some_inj in Hg; subst s1.
        apply (Inv3_same s); try assumption; try reflexivity; try fr3; try (nw Hpc).
        apply T3_mover; sset; [awake HT Hpc|rewrite upd_same; exact I].
  - discriminate.
  - (* PEnter *)
    crack Hts. injection Hts as <-. crack Hg. apply andb_true_iff in C0 as [_ C0]. apply negb_true_iff in C0.
    rewrite vmax_fv in C0. apply Z.eqb_neq in C0. apply Some_inj in Hg; subst s1.
    pose proof (enter_word_spec (word s) W) as (W' & _ & Ev & _ & Ew).
    pose proof (oc_enter _ _ O1 O2 C0) as (R & Rv & Rz).
    apply (Inv3_intro s _ t HI1 HI); sset.
    + unfold Oc; sset. split; [exact R|]. rewrite Ev. exact Rv.
    + apply J_vac. sset. left. rewrite Ev. exact Rz.
    + apply T3_mover; sset; [awake HT Hpc|rewrite upd_same; destruct (_ =? _); exact I].
    + intros u Ne. rewrite upd_other by exact Ne. auto.
    + lia.
    + intros _ A B. rewrite Ew, Ev. split; [exact A|exact Rz].
    + intros Wk. right. apply (Wake_frame s _ t Wk); sset.
      * intros u Ne. apply upd_other. exact Ne.
      * intros X. left. rewrite Ew. exact X.
      * rewrite Hpc. intros [].
      * rewrite Hpc. intros [].
    + intros X. lia.
  - (* PRet *)
    crack Hts. injection Hts as <-. apply Some_inj in Hg; subst s1.
    apply (Inv3_same s); try assumption; try reflexivity; try fr3; try (nw Hpc).
    apply T3_mover; sset; [awake HT Hpc|rewrite upd_same; exact I].
  - (* PLeave *)
    crack Hts. injection Hts as <-. apply (leave_eff_inv3 s); auto.
  - (* PLvLoop *)
    crack Hts. injection Hts as <-. crack Hg. apply andb_true_iff in C0 as [C1 C0]. apply Z.eqb_eq in C1.
    apply Some_inj in Hg; subst s1.
    pose proof (leave_new_spec old Ht1) as (_ & Wn & _ & Nv & Nn & Nw).
    destruct (Z.eqb_spec (word s) old) as [Ew|Ew].
    + apply Z.eqb_eq in C0. rewrite C0. cbn [Z.eqb Pos.eqb].
      assert (X : forall s2, (s2 = set_word s (leave_new old) \/ s2 = set_tok (set_word s (leave_new old)) (TSnap t)) ->
                  Inv3 (set_pc s2 t (wake_entry k old))).
      { intros s2 Hs2.
        assert (E2 : word s2 = leave_new old /\ pcs s2 = pcs s /\ gsnap s2 = gsnap s /\ slp s2 = slp s /\ gfull s2 = gfull s /\
                     outst s2 = outst s) by (destruct Hs2 as [->| ->]; repeat split).
        destruct E2 as (E2w & E2p & E2g & E2s & E2f & E2o).
        apply (Inv3_intro s _ t HI1 HI); sset; rewrite ?E2w, ?E2p, ?E2g, ?E2s, ?E2f, ?E2o.
        - unfold Oc; sset. rewrite E2w, E2o, Nv, <- Ew. split; assumption.
        - apply J_vac. sset. rewrite E2w. destruct (Z.eqb_spec (fv old) 0) as [V|V]; [right; split; assumption|left; rewrite Nv; exact V].
        - apply T3_mover; sset; rewrite ?E2s, ?E2p; [awake HT Hpc|rewrite upd_same; apply T3p_wake_entry].
        - intros u Ne. rewrite upd_other by exact Ne. auto.
        - lia.
        - intros _ A B. rewrite Ew in A, B. rewrite Nv. split; [|exact B].
          rewrite Nw. destruct (Z.eqb_spec (fv old) 0); [contradiction|exact A].
        - intros Wk. right. apply (Wake_frame s _ t Wk); sset; rewrite ?E2w, ?E2p.
          + intros u Ne. apply upd_other. exact Ne.
          + intros A. right. rewrite upd_same. apply WHp_wake_entry; [exact Ht1|rewrite <- Ew; exact A].
          + rewrite Hpc. intros [].
          + rewrite Hpc. cbn [LWp]. intros A _. right. rewrite upd_same. apply WHp_wake_entry; assumption.
        - intros A. lia. }
      destruct (nz _); apply X; auto.
    + apply Z.eqb_eq in C0. rewrite C0. cbn [Z.eqb].
      assert (Wa : wfw (ea e)) by (rewrite C1; exact W).
      apply (Inv3_same s); try assumption; try reflexivity; try fr3; rewrite ?Hpc; cbn [WHp LWp Jp].
      * intros [].
      * intros _ A. apply lv_entry_W; [exact Wa|rewrite C1; exact A].
      * intros _ A B. apply lv_entry_J; rewrite ?C1; assumption.
      * apply T3_mover; sset; [awake HT Hpc|rewrite upd_same; apply T3p_lv_loop_entry].
  - (* PSnapHead *)
    crack Hts. injection Hts as <-. apply Some_inj in Hg; subst s1.
    apply (Inv3_same s); try assumption; try reflexivity; try fr3; rewrite ?Hpc; cbn [WHp LWp Jp]; nof.
    + intros A. destruct (_ =? _); exact A.
    + apply T3_mover; sset; [awake HT Hpc|rewrite upd_same; destruct (_ =? _); exact I].
  - (* PSnapStore *)
    crack Hts. injection Hts as <-. apply Some_inj in Hg; subst s1.
    apply (Inv3_same s); try assumption; try reflexivity; try fr3; rewrite ?Hpc; cbn [WHp LWp Jp]; nof.
    + intros A. exact A.
    + apply T3_mover; sset; [awake HT Hpc|rewrite upd_same; exact I].
  - (* PSnapTail *)
    crack Hts. injection Hts as <-. crack Hg. apply Some_inj in Hg; subst s1.
    apply (Inv3_same s); try assumption; try reflexivity; try fr3; rewrite ?Hpc; cbn [WHp LWp Jp]; nof.
    + intros A. exact A.
    + apply T3_mover; sset; [awake HT Hpc|rewrite upd_same; exact I].
  - (* PFire *)
    crack Hts. injection Hts as <-. destruct (held s t) as [|[i ptr] rest]; [discriminate|]. crack Hg.
    apply Some_inj in Hg; subst s1.
    apply (Inv3_same s); try assumption; try reflexivity; try fr3; rewrite ?Hpc; cbn [WHp LWp Jp]; nof.
    + intros A. destruct (_ =? _); [apply WHp_wake_tail; assumption|exact A].
    + apply T3_mover; sset; [awake HT Hpc|rewrite upd_same; destruct (_ =? _); [apply T3p_wake_tail|exact I]].
  - (* PWakeFutex: everybody asleep on dg_gen is woken *)
    crack Hts. injection Hts as <-. apply Some_inj in Hg; subst s1.
    apply (Inv3_intro s _ t HI1 HI); sset.
    + split; assumption.
    + apply (J_keep s _ t HJ); sset; [reflexivity|intros u Ne; apply upd_other; exact Ne|rewrite Hpc; intros []].
    + apply T3_mover; sset; [apply wake_all_ns|rewrite upd_same; destruct k; exact I].
    + intros u Ne. rewrite upd_other by exact Ne. repeat split; auto. right. apply wake_all_ns.
    + lia.
    + auto.
    + intros _. left. intros u. apply wake_all_ns.
    + intros X. lia.
  - (* PWtLoad *)
    crack Hts. injection Hts as <-. crack Hg. apply Z.eqb_eq in C0. apply Some_inj in Hg; subst s1.
    apply (Inv3_same s); try assumption; try reflexivity; try fr3; try (nw Hpc).
    apply T3_mover; sset; [awake HT Hpc|rewrite upd_same].
    apply T3p_wt_entry; [rewrite C0; exact W|intros _; sset; symmetry; exact C0].
  - (* PWtCas *)
    destruct Ht1 as (Wo & En & _).
    crack Hts. injection Hts as <-. crack Hg. apply andb_true_iff in C0 as [C1 C0]. apply Z.eqb_eq in C1.
    apply Some_inj in Hg; subst s1.
    destruct (Z.eqb_spec (eok e) 1) as [Ok|Nok].
    + cbn [negb orb] in C0. apply Z.eqb_eq in C0. pose proof (lor_hw_spec old Wo) as (Wn & _ & Nv & _ & Nw). subst new.
      apply (Inv3_intro s _ t HI1 HI); sset.
      * unfold Oc; sset. rewrite Nv, <- C0. split; assumption.
      * apply J_vac. sset. left. rewrite Nv. exact TB.
      * apply T3_mover; sset; [awake HT Hpc|rewrite upd_same; cbn [T3p]; sset]. intros _. rewrite Nv. auto.
      * intros u Ne. rewrite !upd_other by exact Ne. auto.
      * lia.
      * intros _ A B. rewrite Nv, Nw. auto.
      * intros Wk. right. apply (Wake_frame s _ t Wk); sset.
        -- intros u Ne. apply upd_other. exact Ne.
        -- intros _. left. exact Nw.
        -- rewrite Hpc. intros [].
        -- rewrite Hpc. intros [].
      * intros X. lia.
    + apply (Inv3_same s); try assumption; try reflexivity; try fr3; try (nw Hpc).
      apply T3_mover; sset; [awake HT Hpc|rewrite upd_same].
      apply T3p_wt_entry; [rewrite C1; exact W|intros _; sset; symmetry; exact C1].
  - (* PSlow *)
    destruct Ht1 as (Eg & (Lg & _)).
    destruct (ev_kind e DV_FUTEX_WAIT && (eoff e =? OFF_GEN) && (ea e =? gen) && (eb e =? (if tmo =? FOREVER then 0 else 1))) eqn:C.
    + injection Hts as <-. apply andb_true_iff in C as [C _]. apply andb_true_iff in C as [C C2]. apply andb_true_iff in C as [C C1]. rewrite C in Hg.
      apply Z.eqb_eq in C2. apply Some_inj in Hg; subst s1.
      apply (Inv3_same s); try assumption; try reflexivity; try fr3; try (nw Hpc).
      unfold T3; sset. rewrite !upd_same. split; [intros _; eauto|]. split; [exact TB|].
      intros X L. exfalso.
      destruct (Z.eqb_spec (f_dg_state_gen (word s)) (ea e)) as [E|E]; [|discriminate X].
      rewrite (gen_fields _ W), Gg, C2, Eg in E.
      assert (Fr : gfull s - gsnap s t < 4294967296) by (apply Hf; rewrite Hpc; reflexivity).
      pose proof (fresh_eq _ _ Lg Fr E). lia.
    + crack Hts. injection Hts as <-.
      assert (Hg' : (if ea e =? f_dg_state_gen (word s) then Some s else None) = Some s1).
      { destruct (ev_kind e DV_FUTEX_WAIT) eqn:K; [|exact Hg]. exfalso.
        apply andb_true_iff in C0 as [C0 _]. apply andb_true_iff in C0 as [C0 _]. apply ev_is_kind in C0.
        unfold ev_kind in K. rewrite C0 in K. discriminate K. }
      crack Hg'. apply Some_inj in Hg'; subst s1.
      apply (Inv3_same s); try assumption; try reflexivity; try fr3; try (nw Hpc).
      apply T3_mover; sset; [awake HT Hpc|rewrite upd_same; destruct (_ =? _); exact I].
  - (* PSleep *)
    crack Hts. injection Hts as <-. destruct ((tmo =? FOREVER) && (eb e =? ETIMEDOUT)); [discriminate Hg|]. apply Some_inj in Hg; subst s1.
    apply (Inv3_same s); try assumption; try reflexivity; try fr3; try (nw Hpc).
    apply T3_mover; sset; [rewrite upd_same; discriminate|rewrite upd_same; exact TB].
  - (* PSlowLoad *)
    crack Hts. injection Hts as <-. crack Hg. apply Some_inj in Hg; subst s1.
    apply (Inv3_same s); try assumption; try reflexivity; try fr3; try (nw Hpc).
    apply T3_mover; sset; [awake HT Hpc|rewrite upd_same].
    destruct (_ =? _); [destruct (_ =? _); [exact I|exact TB]|exact I].
  - (* PRetV *)
    crack Hts. injection Hts as <-. apply Some_inj in Hg; subst s1.
    apply (Inv3_same s); try assumption; try reflexivity; try fr3; try (nw Hpc).
    apply T3_mover; sset; [awake HT Hpc|rewrite upd_same; exact I].
  - (* PNfPush *)
    crack Hts. injection Hts as <-. crack Hg. apply Some_inj in Hg; subst s1.
    apply (Inv3_same s); try assumption; try reflexivity; try fr3; try (nw Hpc).
    apply T3_mover; sset; [awake HT Hpc|rewrite upd_same; destruct (_ =? _); exact I].
  - (* PNfHead *)
    crack Hts. injection Hts as <-. apply Some_inj in Hg; subst s1.
    apply (Inv3_same s); try assumption; try reflexivity; try fr3; try (nw Hpc).
    apply T3_mover; sset; [awake HT Hpc|rewrite upd_same; exact I].
  - (* PNfLoad *)
    crack Hts. injection Hts as <-. crack Hg. apply Some_inj in Hg; subst s1.
    destruct (is_presnap _); apply (Inv3_same s); try assumption; try reflexivity; try fr3; try (nw Hpc);
      apply T3_mover; sset; try (awake HT Hpc); rewrite upd_same; apply T3p_nf_entry.
  - (* PNfCas *)
    destruct Ht1 as (Wo & En).
    crack Hts. injection Hts as <-. crack Hg. apply andb_true_iff in C0 as [C1 C0]. apply Z.eqb_eq in C1.
    apply Some_inj in Hg; subst s1.
    destruct (Z.eqb_spec (eok e) 1) as [Ok|Nok].
    + cbn [negb orb] in C0. apply Z.eqb_eq in C0. pose proof (lor_hn_spec old Wo) as (Wn & _ & Nv & Nn & Nw). subst new.
      apply (Inv3_intro s _ t HI1 HI); sset.
      * unfold Oc; sset. rewrite Nv, <- C0. split; assumption.
      * intros V F. sset. rewrite Nv in V. rewrite <- C0 in V.
        assert (F0 : fn (word s) = 1 \/ fw (word s) = 1) by (apply flags_of_u32; [exact W|exact V|rewrite C0; exact TB]).
        destruct (HJ V F0) as (u & Hu). assert (Ne : u <> t) by (intros ->; rewrite Hpc in Hu; exact Hu).
        exists u. rewrite upd_other by exact Ne. exact Hu.
      * apply T3_mover; sset; [awake HT Hpc|rewrite upd_same; exact I].
      * intros u Ne. rewrite upd_other by exact Ne. auto.
      * lia.
      * intros _ A B. rewrite Nv, Nw, <- C0. auto.
      * intros Wk. right. apply (Wake_frame s _ t Wk); sset.
        -- intros u Ne. apply upd_other. exact Ne.
        -- intros A. left. rewrite Nw, <- C0. exact A.
        -- rewrite Hpc. intros [].
        -- rewrite Hpc. intros [].
      * intros X. lia.
    + destruct (is_presnap _); apply (Inv3_same s); try assumption; try reflexivity; try fr3; try (nw Hpc);
        apply T3_mover; sset; try (awake HT Hpc); rewrite upd_same; apply T3p_nf_entry.
Qed.

(* ---- runs in which every wait stays fresh (fewer than 2^32 generations elapse during one wait) ---- *)
Lemma reach_nw_reach s : reach_nw s -> reach s.
Proof.
  intros R. induction R as [s H|s a s' R IH (St & _)]; [apply reach_init; exact H|].
  apply (reach_step _ _ s a s' IH St).
Qed.
Lemma fresh_init : fresh init_state.
Proof. intros t H. discriminate H. Qed.
Lemma reach_nw_fresh s : reach_nw s -> fresh s.
Proof. intros R. destruct R as [s H|s a s' R (_ & F)]; [subst; apply fresh_init|exact F]. Qed.
Theorem inv3_reach s : reach_nw s -> Inv3 s.
Proof.
  intros R. induction R as [s H|s [t e] s' R IH (St & _)]; [subst; apply Inv3_init|].
  destruct St as (_ & Hs). cbn in Hs.
  apply (step3 s t e s'); [apply inv_reach, reach_nw_reach; exact R|apply reach_nw_fresh; exact R|exact IH|exact Hs].
Qed.

(* the value field is the number of outstanding enters *)
Lemma value_is_outstanding s : reach_nw s ->
  0 <= outst s < 1073741824 /\ fv (word s) = (1073741824 - outst s) mod 1073741824.
Proof. intros R. apply (inv3_reach s R). Qed.

(* a thread asleep in futex_wait on dg_gen always has its wake-up coming *)
Lemma sleeper_has_waker s t : reach_nw s -> slp s t = Sleeping ->
  (gsnap s t = gfull s /\ fw (word s) = 1 /\ fv (word s) <> 0) \/ (gsnap s t < gfull s /\ Wake s).
Proof.
  intros R Hs. destruct (inv3_reach s R) as (_ & _ & HT). destruct (HT t) as (A & B & D).
  destruct (inv_reach s (reach_nw_reach s R)) as ((_ & HT1) & _). specialize (HT1 t). unfold T1 in HT1.
  destruct (A Hs) as (tmo & g & Hp). rewrite Hp in B, HT1. cbn [T3p T1p] in B, HT1. destruct HT1 as (_ & (L & _)).
  destruct (Z.lt_ge_cases (gsnap s t) (gfull s)) as [Lt|Ge]; [right; auto|left].
  assert (E : gsnap s t = gfull s) by lia. destruct (B E). auto.
Qed.

Definition quiet (p : pc) : bool :=
  match p with
  | PIdle | PCrash | PEnter | PRet | PWtLoad _ | PWtCas _ _ _ | PSlow _ _ | PSleep _ _ | PSlowLoad _ _ _ | PRetV _ => true
  | _ => false
  end.
Section Arith4.
Local Ltac Zify.zify_post_hook ::= Z.div_mod_to_equations.
Lemma oc_zero o : 0 <= o < 1073741824 -> 0 = (1073741824 - o) mod 1073741824 -> o = 0.
Proof. intros. lia. Qed.
End Arith4.

(* value = 0 and no leave / notify / wake in flight: nobody sleeps on the group, the word is gen|0|0|0, the list is empty,
   nothing is held, every registered notification has been submitted, every enter has been matched *)
Theorem none_left_behind s : reach_nw s -> fv (word s) = 0 -> (forall u, quiet (pcs s u) = true) ->
  (forall t, slp s t <> Sleeping) /\ fn (word s) = 0 /\ fw (word s) = 0 /\ nq s = [] /\ (forall t, held s t = []) /\
  (forall i, 0 <= i < nreg s -> fcnt s i = 1) /\ outst s = 0.
Proof.
  intros R V Q. pose proof (inv3_reach s R) as ((O1 & O2) & HJ & HT).
  destruct (inv_reach s (reach_nw_reach s R)) as (((W & _) & _) & (G & HI2 & HT2)).
  assert (NJ : forall u, ~ Jp (pcs s u)).
  { intros u X. specialize (Q u). destruct (pcs s u); try exact X; discriminate Q. }
  assert (NW : ~ Wake s).
  { intros [(u & X)|(_ & u & X)]; specialize (Q u); destruct (pcs s u); try exact X; discriminate Q. }
  assert (Fl : fn (word s) = 0 /\ fw (word s) = 0).
  { pose proof (decomp _ W) as (_ & _ & _ & Bn & Bw).
    destruct (Z.eq_dec (fn (word s)) 0) as [A|A]; [destruct (Z.eq_dec (fw (word s)) 0) as [B|B]; [auto|]|].
    - destruct (HJ V) as (u & X); [right; lia|]. exfalso. exact (NJ u X).
    - destruct (HJ V) as (u & X); [left; lia|]. exfalso. exact (NJ u X). }
  destruct Fl as (Fn0 & Fw0).
  assert (Hh : forall t, held s t = []).
  { intros t. destruct (HT2 t) as (_ & _ & _ & D & _). apply D. specialize (Q t). destruct (pcs s t); try discriminate. }
  split; [|split; [exact Fn0|split; [exact Fw0|]]].
  - intros t Hs. destruct (sleeper_has_waker s t R Hs) as [(_ & _ & X)|(_ & X)]; [contradiction|exact (NW X)].
  - assert (Hq : nq s = []).
    { unfold G2 in G. destruct (ntok s) as [|p| |p].
      - apply G.
      - destruct G as (_ & _ & C). specialize (Q p). destruct (pcs s p); try discriminate.
      - destruct G as (_ & C). lia.
      - destruct G as (_ & _ & C). specialize (Q p). destruct (pcs s p); try discriminate. }
    split; [exact Hq|]. split; [exact Hh|]. split.
    + intros i Hi. destruct HI2 as (_ & _ & _ & _ & _ & If & Ic & _). destruct (Ic i Hi) as (A & B & [C|[C|C]]).
      * specialize (A C). rewrite Hq in A. destruct A.
      * rewrite If, C. reflexivity.
      * specialize (B C). rewrite Hh in B. destruct B.
    + apply oc_zero; [exact O1|rewrite <- O2; symmetry; exact V].
Qed.

(* the same, in the form of the property: no reachable state with value = 0, nothing in flight, and either a sleeping
   waiter whose generation snapshot differs from the current generation or a registered notification not yet submitted *)
Theorem none_left_behind_neg s : reach_nw s -> fv (word s) = 0 -> (forall u, quiet (pcs s u) = true) ->
  ~ (exists t, slp s t = Sleeping /\ gsnap s t <> gfull s) /\ ~ (exists i, 0 <= i < nreg s /\ fcnt s i <> 1).
Proof.
  intros R V Q. destruct (none_left_behind s R V Q) as (A & _ & _ & _ & _ & B & _). split.
  - intros (t & X & _). exact (A t X).
  - intros (i & Hi & X). exact (X (B i Hi)).
Qed.

(* the freshness hypothesis is satisfiable: it holds along every run of fewer than 2^32 generations *)
Lemma gstep_mono s t e s' : gstep s t e = Some s' ->
  gfull s <= gfull s' /\ forall u, gsnap s' u = gsnap s u \/ gsnap s' u = gfull s.
Proof.
  intros Hs. destruct (gstep_inv _ _ _ _ Hs) as (p' & s1 & _ & Hg & ->). clear Hs.
  assert (X : (gfull s1 = gfull s \/ gfull s1 = gfull s + 1) /\
              (gsnap s1 = gsnap s \/ gsnap s1 = upd (gsnap s) t (gfull s))).
  { destruct (pcs s t); cbn [geffect] in Hg;
      repeat (match type of Hg with
              | (if ?c then _ else _) = Some _ => destruct c
              | (match ?x with _ => _ end) = Some _ => destruct x
              | None = Some _ => discriminate Hg
              end);
      apply Some_inj in Hg; subst s1;
      repeat (match goal with |- context [if ?c then _ else _] => destruct c end); sset; auto. }
  destruct X as (A & B). sset. split; [lia|]. intros u. destruct B as [-> | ->]; [left; reflexivity|].
  unfold upd. destruct (u =? t); auto.
Qed.
Lemma gsnap_nonneg s : reach s -> 0 <= gfull s /\ forall t, 0 <= gsnap s t.
Proof.
  intros R. induction R as [s H|s [t e] s' R (IH1 & IH2) (_ & Hs)]; [subst; cbn; split; [lia|intros; lia]|].
  cbn in Hs. destruct (gstep_mono _ _ _ _ Hs) as (A & B). split; [lia|]. intros u. destruct (B u) as [-> | ->]; auto.
Qed.
Theorem small_runs_are_fresh s : reach s -> gfull s < 4294967296 -> reach_nw s.
Proof.
  intros R. induction R as [s H|s [t e] s' R IH St]; intros L; [apply reach_init; exact H|].
  pose proof St as (Vt & Hs). cbn in Hs. destruct (gstep_mono _ _ _ _ Hs) as (A & _).
  apply (reach_step _ _ s (t, e) s'); [apply IH; lia|]. split; [exact St|].
  intros u _. assert (R' : reach s') by (eapply reach_gstep; eauto).
  destruct (gsnap_nonneg s' R') as (_ & N). specialize (N u). lia.
Qed.

(* ---- concrete witnesses ---- *)
Lemma not_early_refuted :
  exists s, reach s /\ early s = true /\ outst s = 1 /\ fcnt s 1 = 1 /\ (fv (word s) =? 0) = false.
Proof.
  assert (H : match grun init_state early_schedule with
              | Some s => early s = true /\ outst s = 1 /\ fcnt s 1 = 1 /\ (fv (word s) =? 0) = false
              | None => False end) by (vm_compute; repeat split).
  destruct (grun init_state early_schedule) as [s|] eqn:E; [|destruct H].
  exists s. split; [|exact H].
  apply (grun_reach early_schedule init_state s); [apply reach_init; reflexivity| |exact E].
  repeat constructor.
Qed.
Lemma demo_is_fresh :
  match grun init_state (firstn 7 demo_schedule) with
  | Some s => reach_nw s /\ slp s 3 = Sleeping /\ gsnap s 3 = gfull s | None => False end.
Proof.
  assert (H : match grun init_state (firstn 7 demo_schedule) with
              | Some s => gfull s < 4294967296 /\ slp s 3 = Sleeping /\ gsnap s 3 = gfull s | None => False end)
    by (vm_compute; repeat split).
  destruct (grun init_state (firstn 7 demo_schedule)) as [s|] eqn:E; [|destruct H]. destruct H as (A & B & C).
  split; [|split; assumption]. apply small_runs_are_fresh; [|exact A].
  apply (grun_reach (firstn 7 demo_schedule) init_state s); [apply reach_init; reflexivity| |exact E].
  repeat constructor.
Qed.

Lemma masks_all x : Z.land x VMASK = fv x * 4 /\ Z.land x HW = fw x /\ Z.land x HN = fn x * 2.
Proof. split; [apply land_vmask|split; [apply land_hw|apply land_hn]]. Qed.
Lemma generation_counts s : reach s -> wfw (word s) /\ 0 <= gfull s /\ fg (word s) = gfull s mod 4294967296.
Proof. intros R. apply (inv_reach s R). Qed.
Lemma sites_all :
  canon model_sites_enter = canon group_enter_sites /\ canon model_sites_leave = canon group_leave_sites /\
  canon model_sites_wait = canon group_wait_sites /\ canon model_sites_wait_slow = canon group_wait_slow_sites /\
  canon model_sites_notify = canon group_notify_sites /\ canon model_sites_wake = canon group_wake_sites /\
  group_wait_loop_order = Relaxed /\ group_notify_loop_order = Release.
Proof.
  split; [apply sites_enter|]. split; [apply sites_leave|]. split; [apply sites_wait|]. split; [apply sites_wait_slow|].
  split; [apply sites_notify|]. split; [apply sites_wake|]. split; reflexivity.
Qed.

(* what the ghost flag of C07_wait_zero_sound means: it is reset to [count = 0] when dispatch_group_wait is called, and it
   can only turn true in a step whose source or target state has the count at zero *)
Lemma carry_zero w : wfw w -> (Z.land w VMASK =? V1) = true -> vzero (leave_word w) = true.
Proof.
  intros W C. rewrite carry_fv in C. pose proof (leave_word_spec w W) as (_ & _ & _ & L). rewrite C in L.
  rewrite vzero_fv. destruct L as (_ & ->). reflexivity.
Qed.
Lemma wz_meaning s t e s' u : reach s -> gstep s t e = Some s' -> wz s' u = true ->
  wz s u = true \/ vzero (word s) = true \/ vzero (word s') = true.
Proof.
  intros R Hs Hw. destruct (inv_reach s R) as (((W & _) & _) & _).
  destruct (gstep_inv _ _ _ _ Hs) as (p' & s1 & _ & Hg & ->). clear Hs. sset.
  assert (X : wz s1 = wz s \/ wz s1 = upd (wz s) t (wz s t || vzero (word s)) \/ wz s1 = upd (wz s) t (vzero (word s)) \/
              vzero (word s1) = true).
  { destruct (pcs s t); cbn [geffect] in Hg;
      repeat (match type of Hg with
              | (if ?c then _ else _) = Some _ => destruct c eqn:?
              | (match ?x with _ => _ end) = Some _ => destruct x
              | None = Some _ => discriminate Hg
              end);
      apply Some_inj in Hg; subst s1;
      repeat (match goal with |- context [if ?c then _ else _] => destruct c eqn:? end); sset;
      first [left; reflexivity | right; left; reflexivity | right; right; left; reflexivity
            | right; right; right; apply carry_zero; assumption]. }
  destruct X as [E|[E|[E|E]]].
  - rewrite E in Hw. auto.
  - rewrite E in Hw. unfold upd in Hw. destruct (Z.eqb_spec u t) as [->|]; [|auto]. apply orb_true_iff in Hw as [A|A]; auto.
  - rewrite E in Hw. unfold upd in Hw. destruct (Z.eqb_spec u t) as [->|]; auto.
  - auto.
Qed.
Lemma wz_reset s t e s' : pcs s t = PIdle -> ev_kind e DVU_CALL = true -> ea e = OP_WAIT -> gstep s t e = Some s' ->
  wz s' t = vzero (word s).
Proof.
  intros Hp K E Hs. unfold gstep in Hs. rewrite Hp in Hs. cbn [tstep geffect] in Hs. rewrite K, E in Hs. cbn in Hs.
  apply Some_inj in Hs. subst s'. sset. apply upd_same.
Qed.

(* ================= invariant 4: the trap states are never entered (client contract: Group.geffect has no successor for an
   over-enter / an unbalanced leave), a futex wait without timeout is never told ETIMEDOUT, detached continuations are real == *)
Definition T4p (p : pc) : Prop :=
  match p with
  | PCrash => False
  | PSlowLoad tmo _ rc => rc = ETIMEDOUT -> tmo <> FOREVER
  | _ => True
  end.
Definition Inv4 (s : gst) : Prop := (forall t, T4p (pcs s t)) /\ (forall t i p, In (i, p) (held s t) -> p <> 0).
Lemma Inv4_init : Inv4 init_state.
Proof. split; [intros t; exact I|intros t i p []]. Qed.

Lemma T4p_wake_tail k x : T4p (wake_tail k x).
Proof. unfold wake_tail. destruct (nz _); [exact I|destruct k; exact I]. Qed.
Lemma T4p_wake_entry k x : T4p (wake_entry k x).
Proof. unfold wake_entry. destruct (nz _); [exact I|apply T4p_wake_tail]. Qed.
Lemma T4p_lv_loop_entry k x : T4p (lv_loop_entry k x).
Proof. unfold lv_loop_entry. destruct (_ =? _); [apply T4p_wake_entry|exact I]. Qed.
Lemma T4p_after_add k x : fv x <> 0 -> T4p (after_add k x).
Proof.
  intros V. rewrite after_add_spec. destruct (_ =? 1073741823); [apply T4p_lv_loop_entry|].
  destruct (Z.eqb_spec (fv x) 0); [contradiction|destruct k; exact I].
Qed.
Lemma T4p_wt_entry tmo x : wfw x -> T4p (wt_entry tmo x).
Proof.
  intros W. rewrite (wt_entry_spec tmo x W). destruct (_ =? 0); [exact I|]. destruct (_ =? 0); [exact I|].
  destruct (_ =? 1); exact I.
Qed.
Lemma T4p_nf_entry x : T4p (nf_entry x).
Proof. rewrite nf_entry_spec. destruct (_ =? 0); [apply T4p_wake_entry|exact I]. Qed.

Section Arith5.
Local Ltac Zify.zify_post_hook ::= Z.div_mod_to_equations.
Lemma land_vmask_u32 w : wfw w -> Z.land (u32 w) VMASK = Z.land w VMASK.
Proof. intros W. rewrite !land_vmask. unfold fv, u32, wfw in *. lia. Qed.
End Arith5.

Lemma gstep_frame s t e s' u : gstep s t e = Some s' -> u <> t -> pcs s' u = pcs s u /\ held s' u = held s u.
Proof.
  intros Hs Ne. destruct (gstep_inv _ _ _ _ Hs) as (p' & s1 & _ & Hg & ->). clear Hs. sset. rewrite upd_other by exact Ne.
  assert (X : pcs s1 = pcs s /\ (held s1 = held s \/ exists l, held s1 = upd (held s) t l)).
  { destruct (pcs s t); cbn [geffect] in Hg;
      repeat (match type of Hg with
              | (if ?c then _ else _) = Some _ => destruct c
              | (match ?x with _ => _ end) = Some _ => destruct x
              | None = Some _ => discriminate Hg
              end);
      apply Some_inj in Hg; subst s1;
      repeat (match goal with |- context [if ?c then _ else _] => destruct c end); sset;
      (split; [reflexivity|first [left; reflexivity|right; eexists; reflexivity]]). }
  destruct X as (A & B). rewrite A. split; [reflexivity|].
  destruct B as [-> |(l & ->)]; [reflexivity|apply upd_other; exact Ne].
Qed.

Lemma step4 s t e s' : Inv1 s -> Inv2 s -> Inv4 s -> gstep s t e = Some s' -> Inv4 s'.
Proof.
  intros HI1 HI2 (HT & HH) Hs. pose proof HI1 as ((W & _) & HT1). pose proof (HT1 t) as Ht1. unfold T1 in Ht1.
  pose proof HI2 as (_ & (_ & _ & _ & _ & _ & _ & _ & _ & Ip) & _).
  assert (Others : forall u, u <> t -> T4p (pcs s' u) /\ (forall i p, In (i, p) (held s' u) -> p <> 0)).
  { intros u Ne. destruct (gstep_frame _ _ _ _ u Hs Ne) as (A & B). rewrite A, B. split; [apply HT|apply HH]. }
  destruct (gstep_inv _ _ _ _ Hs) as (p' & s1 & Hts & Hg & ->). clear Hs.
  assert (Mover : T4p p' /\ (forall i p, In (i, p) (held (set_pc s1 t p') t) -> p <> 0)).
  { pose proof (HT t) as Ht. pose proof (HH t) as Hh.
    destruct (pcs s t) eqn:Hpc; cbn [tstep] in Hts; cbn [geffect] in Hg; cbn [T1p] in Ht1; cbn [T4p] in Ht.
    - (* PIdle *)
      destruct (ev_kind e DVU_CALL).
      + assert (Hh' : forall i p, In (i, p) (held (set_pc s1 t p') t) -> p <> 0).
        { destruct (ea e =? OP_WAIT); apply Some_inj in Hg; subst s1; exact Hh. }
        split; [|exact Hh'].
        destruct ((ea e =? OP_ENTER) || (ea e =? OP_ASYNC)); [injection Hts as <-; exact I|].
        destruct (ea e =? OP_LEAVE); [injection Hts as <-; exact I|].
        destruct (ea e =? OP_WAIT); [injection Hts as <-; exact I|].
        destruct (ea e =? OP_NOTIFY); [injection Hts as <-; exact I|discriminate].
      + destruct (is_add e).
        * injection Hts as <-. crack Hg. apply andb_true_iff in C as [C0 C]. apply Z.eqb_eq in C0. apply negb_true_iff in C.
          rewrite vzero_fv in C. apply Z.eqb_neq in C. split; [apply T4p_after_add; rewrite C0; exact C|].
          destruct (_ =? V1); apply Some_inj in Hg; subst s1; exact Hh.
        * crack Hts. injection Hts as <-. apply Some_inj in Hg; subst s1. split; [exact I|exact Hh].
    - contradiction.
    - (* PEnter *)
      crack Hts. injection Hts as <-. crack Hg. apply andb_true_iff in C0 as [C1 C0]. apply Z.eqb_eq in C1. apply negb_true_iff in C0.
      apply Some_inj in Hg; subst s1. split; [|exact Hh]. rewrite C1, (land_vmask_u32 _ W), C0. exact I.
    - crack Hts. injection Hts as <-. apply Some_inj in Hg; subst s1. split; [exact I|exact Hh].
    - (* PLeave *)
      crack Hts. injection Hts as <-. crack Hg. apply andb_true_iff in C0 as [C1 C0]. apply Z.eqb_eq in C1. apply negb_true_iff in C0.
      rewrite vzero_fv in C0. apply Z.eqb_neq in C0. split; [apply T4p_after_add; rewrite C1; exact C0|].
      destruct (_ =? V1); apply Some_inj in Hg; subst s1; exact Hh.
    - (* PLvLoop *)
      crack Hts. injection Hts as <-. crack Hg. split.
      + destruct (eok e =? 1); [apply T4p_wake_entry|apply T4p_lv_loop_entry].
      + destruct (word s =? old); [destruct (nz _)|]; apply Some_inj in Hg; subst s1; exact Hh.
    - crack Hts. injection Hts as <-. apply Some_inj in Hg; subst s1. split; [destruct (_ =? _); exact I|exact Hh].
    - crack Hts. injection Hts as <-. apply Some_inj in Hg; subst s1. split; [exact I|exact Hh].
    - (* PSnapTail *)
      crack Hts. injection Hts as <-. crack Hg. apply Some_inj in Hg; subst s1. split; [exact I|].
      sset. rewrite upd_same. exact Ip.
    - (* PFire *)
      crack Hts. injection Hts as <-. destruct (held s t) as [|[i ptr] rest] eqn:Hh'; [discriminate|]. crack Hg.
      apply Some_inj in Hg; subst s1. split; [destruct (_ =? _); [apply T4p_wake_tail|exact I]|].
      sset. rewrite upd_same. intros j p Hj. apply (Hh j p). right. exact Hj.
    - crack Hts. injection Hts as <-. apply Some_inj in Hg; subst s1. split; [destruct k; exact I|exact Hh].
    - (* PWtLoad *)
      crack Hts. injection Hts as <-. crack Hg. apply Z.eqb_eq in C0. apply Some_inj in Hg; subst s1.
      split; [apply T4p_wt_entry; rewrite C0; exact W|exact Hh].
    - (* PWtCas *)
      crack Hts. injection Hts as <-. crack Hg. apply andb_true_iff in C0 as [C1 _]. apply Z.eqb_eq in C1. split.
      + destruct (eok e =? 1); [exact I|apply T4p_wt_entry; rewrite C1; exact W].
      + destruct (eok e =? 1); apply Some_inj in Hg; subst s1; exact Hh.
    - (* PSlow *)
      assert (P : T4p p').
      { destruct (ev_kind e DV_FUTEX_WAIT && (eoff e =? OFF_GEN) && (ea e =? gen) && (eb e =? (if tmo =? FOREVER then 0 else 1)));
          [injection Hts as <-; exact I|]. crack Hts. injection Hts as <-. destruct (_ =? _); exact I. }
      split; [exact P|]. destruct (ev_kind e DV_FUTEX_WAIT); [apply Some_inj in Hg; subst s1; exact Hh|].
      crack Hg. apply Some_inj in Hg; subst s1. exact Hh.
    - (* PSleep *)
      crack Hts. injection Hts as <-. destruct ((tmo =? FOREVER) && (eb e =? ETIMEDOUT)) eqn:X; [discriminate Hg|].
      apply Some_inj in Hg; subst s1. split; [|exact Hh]. cbn [T4p]. intros E F. rewrite E, F in X. discriminate X.
    - (* PSlowLoad *)
      crack Hts. injection Hts as <-. crack Hg. apply Some_inj in Hg; subst s1. split; [|exact Hh].
      destruct (_ =? _); [destruct (_ =? _)|]; exact I.
    - crack Hts. injection Hts as <-. apply Some_inj in Hg; subst s1. split; [exact I|exact Hh].
    - crack Hts. injection Hts as <-. crack Hg. apply Some_inj in Hg; subst s1. split; [destruct (_ =? _); exact I|exact Hh].
    - crack Hts. injection Hts as <-. apply Some_inj in Hg; subst s1. split; [exact I|exact Hh].
    - (* PNfLoad *)
      crack Hts. injection Hts as <-. crack Hg. split; [apply T4p_nf_entry|].
      destruct (is_presnap _); apply Some_inj in Hg; subst s1; exact Hh.
    - (* PNfCas *)
      crack Hts. injection Hts as <-. crack Hg. split; [destruct (eok e =? 1); [exact I|apply T4p_nf_entry]|].
      destruct (eok e =? 1); [|destruct (is_presnap _)]; apply Some_inj in Hg; subst s1; exact Hh. }
  destruct Mover as (M1 & M2). split.
  - intros u. destruct (Z.eq_dec u t) as [->|Ne]; [sset; rewrite upd_same; exact M1|apply Others; exact Ne].
  - intros u. destruct (Z.eq_dec u t) as [->|Ne]; [exact M2|apply Others; exact Ne].
Qed.

Theorem inv4_reach s : reach s -> Inv4 s.
Proof.
  intros R. induction R as [s H|s [t e] s' R IH (_ & Hs)]; [subst; apply Inv4_init|]. cbn in Hs.
  destruct (inv_reach s R) as (H1 & H2). eapply step4; eauto.
Qed.
(* the model has no state in which the library has trapped: executions of clients that over-enter or leave an empty
   group end at the step before (Group.geffect has no successor there) *)
Lemma no_crash_state s t : reach s -> pcs s t <> PCrash.
Proof. intros R E. destruct (inv4_reach s R) as (H & _). specialize (H t). rewrite E in H. exact H. Qed.

(* a non-zero result in a reachable state: only a zero timeout, the ETIMEDOUT of a TIMED futex wait, or a deadline that
   had already passed when the remaining time was computed (never for DISPATCH_TIME_FOREVER) *)
Lemma wait_nonzero_only_timed s t e s' v : reach s -> gstep s t e = Some s' -> pcs s' t = PRetV v -> v <> 0 ->
  match pcs s t with
  | PWtLoad tmo | PWtCas tmo _ _ => tmo = 0
  | PSlow tmo _ => tmo <> FOREVER /\ ev_kind e DV_FUTEX_WAIT = false
  | PSlowLoad tmo _ rc => rc = ETIMEDOUT /\ tmo <> FOREVER
  | _ => False
  end.
Proof.
  intros R Hs Hp Hv. pose proof (gstep_tstep _ _ _ _ Hs) as Ht. rewrite Hp in Ht.
  pose proof (nonzero_only_by_timeout _ _ _ Ht Hv) as N. destruct (inv4_reach s R) as (H4 & _). specialize (H4 t).
  destruct (pcs s t); try exact N. cbn [T4p] in H4. split; [exact N|apply H4; exact N].
Qed.
Definition wait_tmo (p : pc) : option Z :=
  match p with
  | PWtLoad tmo | PWtCas tmo _ _ | PSlow tmo _ | PSleep tmo _ | PSlowLoad tmo _ _ => Some tmo
  | _ => None
  end.
Lemma wait_forever_returns_zero s t e s' v : reach s -> gstep s t e = Some s' ->
  wait_tmo (pcs s t) = Some FOREVER -> pcs s' t = PRetV v -> v = 0.
Proof.
  intros R Hs Hw Hp. destruct (Z.eq_dec v 0) as [E|E]; [exact E|exfalso].
  pose proof (wait_nonzero_only_timed s t e s' v R Hs Hp E) as N.
  destruct (pcs s t); cbn [wait_tmo] in Hw; try discriminate Hw; injection Hw as ->; try (destruct N as (A & B));
    try (unfold FOREVER in *; congruence). 
Qed.
(* the timeout a waiter was called with is carried unchanged through the call *)
Lemma wait_tmo_stable s t e s' x : reach s -> gstep s t e = Some s' -> wait_tmo (pcs s t) = Some x ->
  wait_tmo (pcs s' t) = Some x \/ exists v, pcs s' t = PRetV v.
Proof.
  intros R Hs Hw. destruct (inv_reach s R) as (((W & _) & _) & _).
  assert (WT : forall y, wfw y -> wait_tmo (wt_entry x y) = Some x \/ exists v, wt_entry x y = PRetV v).
  { intros y Wy. rewrite (wt_entry_spec x y Wy). destruct (_ =? 0); [right; eauto|]. destruct (_ =? 0); [right; eauto|].
    destruct (_ =? 1); left; reflexivity. }
  destruct (gstep_inv _ _ _ _ Hs) as (p' & s1 & Hts & Hg & ->). sset. rewrite upd_same.
  destruct (pcs s t); cbn [wait_tmo] in Hw; try discriminate Hw; injection Hw as ->; cbn [tstep] in Hts; cbn [geffect] in Hg.
  - crack Hts. injection Hts as <-. crack Hg. apply Z.eqb_eq in C0. apply WT. rewrite C0. exact W.
  - crack Hts. injection Hts as <-. crack Hg. apply andb_true_iff in C0 as [C1 _]. apply Z.eqb_eq in C1.
    destruct (eok e =? 1); [left; reflexivity|apply WT; rewrite C1; exact W].
  - destruct (ev_kind e DV_FUTEX_WAIT && (eoff e =? OFF_GEN) && (ea e =? gen) && (eb e =? (if x =? FOREVER then 0 else 1)));
      [injection Hts as <-; left; reflexivity|]. crack Hts. injection Hts as <-. right. destruct (_ =? _); eauto.
  - crack Hts. injection Hts as <-. left; reflexivity.
  - crack Hts. injection Hts as <-. destruct (_ =? _); [destruct (_ =? _); [right; eauto|left; reflexivity]|right; eauto].
Qed.

(* ================= no thread of the model is ever stuck =================
   Every thread inside a library call has an enabled step, in every reachable state, with two exceptions that are the
   client contract: dispatch_group_enter at the maximum count and dispatch_group_leave at count zero (the library traps).
   For the thread that detaches the notify list the enabled step is the one that moves it forward (a non-NULL head, the
   store, the exchange, the submission of the next continuation): its loops are bounded by the list it detached.  The clearing
   loop of dispatch_group_leave and the rmw loops retry only when another thread changed dg_state in between (lock-free).
   This is deadlock freedom, not termination.  The spin on a NULL dg_notify_head IS in the model, as a self-loop enabled in
   every state (PSnapHead accepts a NULL load and stays: the head value is not part of the state), so fair infinite runs that never
   detach exist in the model; in the library the first pusher stores the head before it sets HAS_NOTIFS or fires itself (program
   order in _dispatch_group_notify), which is argued, not proved.  The spin on do_next of a pusher that has exchanged the tail but
   not yet linked is not a step of the model: it waits for a thread inside dispatch_group_notify with exactly one store left. *)
Definition enabled (s : gst) (t : Z) : Prop := exists e s', gstep s t e = Some s'.
Definition mk (k ord off sz a b ok : Z) : event := mkEv k ord 0 off sz a b ok.
Ltac go Hpc := unfold gstep; rewrite Hpc; eexists; cbn; rewrite ?Z.eqb_refl; cbn; reflexivity.

Theorem no_stuck s t : reach s ->
  (pcs s t = PEnter -> fv (word s) <> 1) -> (pcs s t = PLeave -> fv (word s) <> 0) -> enabled s t.
Proof.
  intros R CE CL. destruct (inv_reach s R) as (((W & _) & HT1) & (_ & _ & HT2)).
  pose proof (no_crash_state s t R) as NC. destruct (inv4_reach s R) as (_ & H4).
  destruct (pcs s t) eqn:Hpc.
  - exists (mk DVU_CALL 0 0 0 OP_ENTER 0 1). go Hpc.
  - contradiction.
  - (* PEnter *)
    exists (mk DV_SUB MO_ACQUIRE OFF_STATE 4 (u32 (word s)) INTERVAL 1). unfold gstep. rewrite Hpc. cbn [tstep geffect].
    assert (X : negb (Z.land (word s) VMASK =? VMAX) = true).
    { rewrite vmax_fv. apply negb_true_iff. apply Z.eqb_neq. apply CE. reflexivity. }
    eexists. cbn. rewrite Z.eqb_refl, X. cbn. reflexivity.
  - exists (mk DVU_RET 0 0 0 0 0 1). go Hpc.
  - (* PLeave *)
    exists (mk DV_ADD MO_RELEASE OFF_STATE 8 (word s) INTERVAL 1). unfold gstep. rewrite Hpc. cbn [tstep geffect].
    assert (X : negb (vzero (word s)) = true).
    { rewrite vzero_fv. apply negb_true_iff. apply Z.eqb_neq. apply CL. reflexivity. }
    eexists. cbn. rewrite Z.eqb_refl, X. cbn. reflexivity.
  - (* PLvLoop *)
    exists (mk DV_CAS MO_RELAXED OFF_STATE 8 (word s) (leave_new old) (if word s =? old then 1 else 0)).
    unfold gstep. rewrite Hpc. eexists. cbn. rewrite !Z.eqb_refl. cbn. reflexivity.
  - exists (mk DV_LOAD MO_ACQUIRE OFF_HEAD 8 1 1 1). go Hpc.
  - exists (mk DV_STORE MO_RELAXED OFF_HEAD 8 0 0 1). go Hpc.
  - exists (mk DV_XCHG MO_RELEASE OFF_TAIL 8 (tailptr (nq s)) 0 1). go Hpc.
  - (* PFire: the next continuation of the detached list *)
    destruct (HT2 t) as (_ & _ & C & _). rewrite Hpc in C. specialize (C eq_refl).
    destruct (held s t) as [|[i ptr] rest] eqn:Hh; [contradiction|].
    assert (Np : ptr <> 0) by (apply (H4 t i ptr); rewrite Hh; left; reflexivity).
    exists (mk DV_XCHG MO_RELEASE OFF_NQ 8 0 ptr (match rest with [] => 1 | _ => 0 end)).
    unfold gstep. rewrite Hpc. cbn [tstep geffect]. rewrite Hh. eexists. cbn.
    destruct (Z.eqb_spec ptr 0); [contradiction|]. cbn. rewrite !Z.eqb_refl. cbn. reflexivity.
  - exists (mk DV_FUTEX_WAKE 0 OFF_GEN 0 2147483647 0 1). go Hpc.
  - exists (mk DV_LOAD MO_RELAXED OFF_STATE 8 (word s) (word s) 1). go Hpc.
  - (* PWtCas *)
    exists (mk DV_CASW (mo_code group_wait_loop_order) OFF_STATE 8 (word s) new 0). go Hpc.
  - (* PSlow *)
    exists (mk DV_FUTEX_WAIT 0 OFF_GEN 0 gen (if tmo =? FOREVER then 0 else 1) 1). go Hpc.
  - (* PSleep: the kernel may always return (interrupted) *)
    exists (mk DV_FUTEX_WAIT_RET 0 OFF_GEN 0 gen 4 1). unfold gstep. rewrite Hpc. eexists. cbn.
    rewrite andb_false_r. reflexivity.
  - exists (mk DV_LOAD MO_ACQUIRE OFF_GEN 4 (f_dg_state_gen (word s)) (f_dg_state_gen (word s)) 1). go Hpc.
  - (* PRetV *)
    exists (mk DVU_RET 0 0 0 v 0 1). unfold gstep. rewrite Hpc. eexists. cbn. rewrite eqb_reflx. cbn. reflexivity.
  - exists (mk DV_XCHG MO_RELEASE OFF_TAIL 8 (tailptr (nq s)) 1 1). go Hpc.
  - exists (mk DV_STORE MO_RELAXED OFF_HEAD 8 0 dsn 1). go Hpc.
  - exists (mk DV_LOAD MO_RELAXED OFF_STATE 8 (word s) (word s) 1). go Hpc.
  - exists (mk DV_CASW (mo_code group_notify_loop_order) OFF_STATE 8 (word s) new 0). go Hpc.
Qed.

(* the submit loop is bounded by the detached list; the detach itself takes the whole list *)
Lemma fire_decreases s t e s' k st : pcs s t = PFire k st -> gstep s t e = Some s' ->
  (length (held s' t) + 1 = length (held s t))%nat /\ (held s' t = [] <-> pcs s' t = wake_tail k st).
Proof.
  intros Hp Hs. unfold gstep in Hs. rewrite Hp in Hs. cbn [tstep geffect] in Hs.
  destruct (ev_kind e DV_XCHG && (eoff e =? OFF_NQ) && negb (eb e =? 0)); [|discriminate].
  destruct (held s t) as [|[i ptr] rest]; [discriminate|].
  destruct ((eb e =? ptr) && (eok e =? match rest with [] => 1 | _ :: _ => 0 end)) eqn:C; [|discriminate].
  apply andb_true_iff in C as [_ C]. apply Z.eqb_eq in C. apply Some_inj in Hs. subst s'. sset. rewrite !upd_same. cbn [length].
  split; [lia|]. rewrite C. destruct rest; cbn; split; intros X; try reflexivity; try discriminate X.
  exfalso. revert X. unfold wake_tail. destruct (nz _); [discriminate|destruct k; discriminate].
Qed.
(* the clearing loop of dispatch_group_leave retries only if another thread changed dg_state since the value was read *)
Lemma leave_loop_retry_means_interference s t e s' k old : pcs s t = PLvLoop k old -> gstep s t e = Some s' ->
  (eok e = 1 /\ word s = old /\ word s' = leave_new old /\ pcs s' t = wake_entry k old) \/
  (eok e <> 1 /\ word s <> old /\ word s' = word s /\ pcs s' t = lv_loop_entry k (word s)).
Proof.
  intros Hp Hs. unfold gstep in Hs. rewrite Hp in Hs. cbn [tstep geffect] in Hs.
  destruct (ev_is e DV_CAS MO_RELAXED OFF_STATE && (esz e =? 8) && (eb e =? leave_new old)); [|discriminate].
  destruct ((ea e =? word s) && (eok e =? (if word s =? old then 1 else 0))) eqn:C; [|discriminate].
  apply andb_true_iff in C as [C1 C2]. apply Z.eqb_eq in C1, C2. apply Some_inj in Hs. subst s'. sset. rewrite upd_same.
  destruct (Z.eqb_spec (word s) old) as [E|E]; rewrite C2; cbn [Z.eqb Pos.eqb].
  - left. repeat split; auto. destruct (nz _); reflexivity.
  - right. rewrite C1. repeat split; auto. discriminate.
Qed.
