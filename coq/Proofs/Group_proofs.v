(* Group_proofs.v — invariants of the dispatch group model for any number of threads and any interleaving. *)
From Coq Require Import ZArith Bool List Lia.
From Verif Require Import Word Bits Conc Gen_consts Gen_group Group Group_iface.
Import ListNotations.
Local Open Scope Z_scope.

(* ================= invariant 1: words are well formed, the 32-bit generation is the ghost generation mod 2^32,
   and what a waiter knows about zero ================= *)
Definition Cw (s : gst) (t : Z) : Prop := gsnap s t <= gfull s /\ (gsnap s t < gfull s -> wz s t = true).
Definition T1p (s : gst) (t : Z) (p : pc) : Prop :=
  match p with
  | PLvLoop _ old => wfw old
  | PSnapHead _ st | PSnapStore _ st | PSnapTail _ st | PFire _ st => wfw st
  | PWtCas _ old new => wfw old /\ new = Z.lor old HW /\ fg old = gsnap s t mod 4294967296 /\ Cw s t
  | PSlow _ g | PSleep _ g | PSlowLoad _ g _ => g = gsnap s t mod 4294967296 /\ Cw s t
  | PRetV v => v = 0 -> wz s t = true
  | PNfCas old new => wfw old /\ new = Z.lor old HN
  | _ => True
  end.
Definition T1 (s : gst) (t : Z) : Prop := T1p s t (pcs s t).
Definition G1 (s : gst) : Prop := wfw (word s) /\ 0 <= gfull s /\ fg (word s) = gfull s mod 4294967296.
Definition Inv1 (s : gst) : Prop := G1 s /\ forall t, T1 s t.

Lemma Inv1_init : Inv1 init_state.
Proof. split; [unfold G1, wfw, fg; cbn; repeat split; lia | intros t; exact I]. Qed.

Lemma Inv1_intro s s' t : Inv1 s -> G1 s' -> T1p s' t (pcs s' t) ->
  (forall u, u <> t -> pcs s' u = pcs s u /\ gsnap s' u = gsnap s u /\ (wz s u = true -> wz s' u = true) /\
                       (gfull s < gfull s' -> wz s' u = true)) ->
  gfull s <= gfull s' -> Inv1 s'.
Proof.
  intros (_ & HT) G' Ht F Hm. split; [exact G'|]. intros u. destruct (Z.eq_dec u t) as [->|Ne]; [exact Ht|].
  destruct (F u Ne) as (Ep & Eg & Hw & Hc). specialize (HT u). unfold T1, T1p, Cw in *. rewrite Ep, Eg.
  assert (X : gsnap s u <= gfull s /\ (gsnap s u < gfull s -> wz s u = true) ->
              gsnap s u <= gfull s' /\ (gsnap s u < gfull s' -> wz s' u = true)).
  { intros (A & B). split; [lia|]. intros L. destruct (Z.lt_ge_cases (gfull s) (gfull s')); [auto|]. apply Hw, B. lia. }
  destruct (pcs s u); try exact HT.
  - destruct HT as (A & B & C & D). split; [exact A|]. split; [exact B|]. split; [exact C|]. apply X; exact D.
  - destruct HT as (A & B); split; [exact A|apply X; exact B].
  - destruct HT as (A & B); split; [exact A|apply X; exact B].
  - destruct HT as (A & B); split; [exact A|apply X; exact B].
  - intros E. apply Hw, HT, E.
Qed.

Ltac frame1 := let u := fresh "u" in let Hu := fresh "Hu" in
  intros u Hu; rewrite ?upd_other by exact Hu; repeat split; auto; intros; try lia.

Lemma T1p_wake_tail s t k x : T1p s t (wake_tail k x).
Proof. unfold wake_tail. destruct (nz _); [exact I|destruct k; exact I]. Qed.
Lemma T1p_wake_entry s t k x : wfw x -> T1p s t (wake_entry k x).
Proof. intros H. unfold wake_entry. destruct (nz _); [exact H|apply T1p_wake_tail]. Qed.
Lemma T1p_lv_loop_entry s t k x : wfw x -> T1p s t (lv_loop_entry k x).
Proof. intros H. unfold lv_loop_entry. destruct (_ =? _); [apply T1p_wake_entry; exact H|exact H]. Qed.
Lemma T1p_after_add s t k x : wfw (leave_word x) -> T1p s t (after_add k x).
Proof.
  intros H. rewrite after_add_spec. destruct (_ =? _); [apply T1p_lv_loop_entry; exact H|].
  destruct (_ =? _); [exact I|destruct k; exact I].
Qed.
Lemma T1p_wt_entry s t tmo x : wfw x -> fg x = gsnap s t mod 4294967296 -> Cw s t -> (fv x = 0 -> wz s t = true) ->
  T1p s t (wt_entry tmo x).
Proof.
  intros H Hg Hc Hz. rewrite (wt_entry_spec tmo x H). destruct (Z.eqb_spec (fv x) 0); [intros _; auto|].
  destruct (tmo =? 0); [intros X; discriminate X|]. destruct (fw x =? 1); cbn; auto.
Qed.
Lemma T1p_nf_entry s t x : wfw x -> T1p s t (nf_entry x).
Proof.
  intros H. rewrite nf_entry_spec. destruct (_ =? _); [apply T1p_wake_entry, lor_hn_spec; exact H|cbn; auto].
Qed.

Lemma Some_inj {A} (a b : A) : Some a = Some b -> a = b.
Proof. intros H. injection H. auto. Qed.
Lemma ev_is_kind e k o f : ev_is e k o f = true -> ek e = k.
Proof. unfold ev_is. intros H. apply andb_true_iff in H as [H _]. apply andb_true_iff in H as [H _]. apply Z.eqb_eq. exact H. Qed.
Lemma G1_same_word s s' : G1 s -> word s' = word s -> gfull s' = gfull s -> G1 s'.
Proof. unfold G1. intros H -> ->. exact H. Qed.
Lemma G1_new_word s s' : G1 s -> gfull s' = gfull s -> wfw (word s') -> fg (word s') = fg (word s) -> G1 s'.
Proof. unfold G1. intros (A & B & C) -> W ->. auto. Qed.

Lemma leave_eff_inv1 s t k e s1 : Inv1 s ->
  (if (ea e =? word s) && negb (vzero (word s))
   then Some (if Z.land (word s) VMASK =? V1 then set_carry s (leave_word (word s))
              else set_count s (leave_word (word s)) (-1)) else None) = Some s1 ->
  Inv1 (set_pc s1 t (after_add k (ea e))).
Proof.
  intros HI Hg. pose proof HI as ((W & G0 & Gg) & HT). crack Hg. bsplit C. apply Z.eqb_eq in C0. apply Some_inj in Hg; subst s1.
  pose proof (leave_word_spec (word s) W) as (W' & _ & _ & L). rewrite carry_fv.
  destruct (Z.eqb_spec (fv (word s)) 1073741823) as [V|V]; destruct L as (Lg & Lv).
  - apply (Inv1_intro s _ t HI); sset.
    + unfold G1; sset; split; [|split]; [exact W'|lia|]. rewrite Lg, Gg. rewrite Z.add_mod_idemp_l by lia. reflexivity.
    + rewrite upd_same, C0. apply T1p_after_add. exact W'.
    + frame1.
    + lia.
  - apply (Inv1_intro s _ t HI); sset.
    + unfold G1; sset; split; [|split]; [exact W'|lia|]. rewrite Lg. exact Gg.
    + rewrite upd_same, C0. apply T1p_after_add. exact W'.
    + frame1.
    + lia.
Qed.

Lemma step1 s t e s' : Inv1 s -> gstep s t e = Some s' -> Inv1 s'.
Proof.
  intros HI Hs. destruct (gstep_inv _ _ _ _ Hs) as (p' & s1 & Hts & Hg & ->).
  pose proof HI as (G & HT). pose proof G as (W & G0 & Gg). pose proof (HT t) as Ht. unfold T1 in Ht.
  destruct (pcs s t) eqn:Hpc; cbn [tstep] in Hts; cbn [geffect] in Hg; cbn [T1p] in Ht.
  - (* PIdle *)
    destruct (ev_kind e DVU_CALL).
    + assert (X : exists s0, s1 = s0 /\ (s0 = s \/ s0 = set_call_wait s t)).
      { destruct (ea e =? OP_WAIT); injection Hg as Hg; [exists (set_call_wait s t)|exists s]; auto. }
      destruct X as (s0 & -> & Hs0).
      assert (P : T1p (set_pc s0 t p') t p').
      { destruct ((ea e =? OP_ENTER) || (ea e =? OP_ASYNC)); [injection Hts as <-; exact I|].
        destruct (ea e =? OP_LEAVE); [injection Hts as <-; exact I|].
        destruct (ea e =? OP_WAIT); [injection Hts as <-; exact I|].
        destruct (ea e =? OP_NOTIFY); [injection Hts as <-; exact I|discriminate]. }
      destruct Hs0 as [->| ->]; apply (Inv1_intro s _ t HI); sset; try (rewrite upd_same; exact P); try exact G; try frame1; lia.
    + destruct (is_add e).
      * injection Hts as <-. apply (leave_eff_inv1 s); assumption.
      * crack Hts. injection Hts as <-. apply Some_inj in Hg; subst s1.
        apply (Inv1_intro s _ t HI); sset; [exact G|rewrite upd_same; exact I|frame1|lia].
  - discriminate.
  - (* PEnter *)
    crack Hts. injection Hts as <-. crack Hg. apply Some_inj in Hg; subst s1.
    pose proof (enter_word_spec (word s) W) as (W' & Eg & _).
    apply (Inv1_intro s _ t HI); sset.
    + unfold G1; sset; split; [|split]; [exact W'|exact G0|]. rewrite Eg. exact Gg.
    + rewrite upd_same. destruct (_ =? _); exact I.
    + frame1.
    + lia.
  - (* PRet *)
    crack Hts. injection Hts as <-. apply Some_inj in Hg; subst s1.
    apply (Inv1_intro s _ t HI); sset; [exact G|rewrite upd_same; exact I|frame1|lia].
  - (* PLeave *)
    crack Hts. injection Hts as <-. apply (leave_eff_inv1 s); assumption.
  - (* PLvLoop *)
    crack Hts. injection Hts as <-. crack Hg. bsplit C0. apply Z.eqb_eq in C1. apply Some_inj in Hg; subst s1.
    pose proof (leave_new_spec old Ht) as (_ & Wn & Ng & _).
    destruct (Z.eqb_spec (word s) old) as [Ew|Ew].
    + apply Z.eqb_eq in C0. rewrite C0. cbn [Z.eqb Pos.eqb].
      assert (X : forall s2, (s2 = set_word s (leave_new old) \/ s2 = set_tok (set_word s (leave_new old)) (TSnap t)) ->
                  Inv1 (set_pc s2 t (wake_entry k old))).
      { intros s2 [->| ->]; apply (Inv1_intro s _ t HI); sset;
          try (unfold G1; sset; split; [|split]; [exact Wn|exact G0|rewrite Ng, <- Ew; exact Gg]);
          try (rewrite upd_same; apply T1p_wake_entry; exact Ht); try frame1; lia. }
      destruct (nz _); apply X; auto.
    + apply Z.eqb_eq in C0. rewrite C0. cbn [Z.eqb].
      apply (Inv1_intro s _ t HI); sset; [exact G|rewrite upd_same; apply T1p_lv_loop_entry; rewrite C1; exact W|frame1|lia].
  - (* PSnapHead *)
    crack Hts. injection Hts as <-. apply Some_inj in Hg; subst s1.
    apply (Inv1_intro s _ t HI); sset; [exact G|rewrite upd_same; destruct (_ =? _); exact Ht|frame1|lia].
  - crack Hts. injection Hts as <-. apply Some_inj in Hg; subst s1.
    apply (Inv1_intro s _ t HI); sset; [exact G|rewrite upd_same; exact Ht|frame1|lia].
  - crack Hts. injection Hts as <-. crack Hg. apply Some_inj in Hg; subst s1.
    apply (Inv1_intro s _ t HI); sset; [exact G|rewrite upd_same; exact Ht|frame1|lia].
  - (* PFire *)
    crack Hts. injection Hts as <-. destruct (held s t) as [|[i ptr] rest]; [discriminate|]. crack Hg. apply Some_inj in Hg; subst s1.
    apply (Inv1_intro s _ t HI); sset; [exact G|rewrite upd_same; destruct (_ =? _); [apply T1p_wake_tail|exact Ht]|frame1|lia].
  - (* PWakeFutex *)
    crack Hts. injection Hts as <-. apply Some_inj in Hg; subst s1.
    apply (Inv1_intro s _ t HI); sset; [exact G|rewrite upd_same; destruct k; exact I|frame1|lia].
  - (* PWtLoad *)
    crack Hts. injection Hts as <-. crack Hg. apply Z.eqb_eq in C0. apply Some_inj in Hg; subst s1.
    apply (Inv1_intro s _ t HI); sset; [exact G| |frame1|lia].
    rewrite upd_same, C0. apply T1p_wt_entry; [exact W| | |]; unfold Cw; sset; rewrite ?upd_same.
    + exact Gg.
    + split; [lia|intros; lia].
    + intros V. rewrite vzero_fv, V. apply orb_true_r.
  - (* PWtCas *)
    destruct Ht as (Wo & En & Eg & Hc).
    crack Hts. injection Hts as <-. crack Hg. bsplit C0. apply Z.eqb_eq in C1. apply Some_inj in Hg; subst s1.
    destruct (Z.eqb_spec (eok e) 1) as [Ok|Nok].
    + cbn [negb orb] in C0. apply Z.eqb_eq in C0.
      pose proof (lor_hw_spec old Wo) as (Wn & Ng & _). subst new.
      apply (Inv1_intro s _ t HI); sset.
      * unfold G1; sset; split; [|split]; [exact Wn|exact G0|]. rewrite Ng, <- C0. exact Gg.
      * rewrite upd_same. cbn [T1p]. unfold Cw; sset; rewrite ?upd_same. rewrite (gen_fields _ Wn), Ng, <- C0.
        split; [exact Gg|]. split; [lia|intros; lia].
      * frame1.
      * lia.
    + apply (Inv1_intro s _ t HI); sset; [exact G| |frame1|lia].
      rewrite upd_same, C1. apply T1p_wt_entry; [exact W| | |]; unfold Cw; sset; rewrite ?upd_same.
      * exact Gg.
      * split; [lia|intros; lia].
      * intros V. rewrite vzero_fv, V. apply orb_true_r.
  - (* PSlow *)
    destruct Ht as (Eg & Hc).
    destruct (ev_kind e DV_FUTEX_WAIT && (eoff e =? OFF_GEN) && (ea e =? gen)) eqn:C.
    + injection Hts as <-. apply andb_true_iff in C as [C C2]. apply andb_true_iff in C as [C C1]. rewrite C in Hg.
      apply Some_inj in Hg; subst s1.
      apply (Inv1_intro s _ t HI); sset; [exact G|rewrite upd_same; split; assumption|frame1|lia].
    + crack Hts. injection Hts as <-.
      assert (Hg' : (if ea e =? f_dg_state_gen (word s) then Some s else None) = Some s1).
      { destruct (ev_kind e DV_FUTEX_WAIT) eqn:K; [|exact Hg]. exfalso.
        apply andb_true_iff in C0 as [C0 _]. apply andb_true_iff in C0 as [C0 _]. apply ev_is_kind in C0.
        unfold ev_kind in K. rewrite C0 in K. discriminate K. }
      crack Hg'. apply Z.eqb_eq in C1. apply Some_inj in Hg'; subst s1.
      apply (Inv1_intro s _ t HI); sset; [exact G| |frame1|lia].
      rewrite upd_same. destruct (Z.eqb_spec (ea e) gen) as [E|E]; [intros X; discriminate X|]. intros _.
      apply Hc. rewrite C1, (gen_fields _ W), Gg, Eg in E. destruct Hc as (L & _).
      destruct (Z.eq_dec (gsnap s t) (gfull s)) as [Q|Q]; [rewrite Q in E; contradiction|lia].
  - (* PSleep *)
    crack Hts. injection Hts as <-. apply Some_inj in Hg; subst s1.
    apply (Inv1_intro s _ t HI); sset; [exact G|rewrite upd_same; exact Ht|frame1|lia].
  - (* PSlowLoad *)
    destruct Ht as (Eg & Hc).
    crack Hts. injection Hts as <-. crack Hg. apply Z.eqb_eq in C0. apply Some_inj in Hg; subst s1.
    apply (Inv1_intro s _ t HI); sset; [exact G| |frame1|lia].
    rewrite upd_same. destruct (Z.eqb_spec (ea e) gen) as [E|E].
    + destruct (rc =? ETIMEDOUT); [intros X; discriminate X|split; assumption].
    + intros _. apply Hc. rewrite C0, (gen_fields _ W), Gg, Eg in E. destruct Hc as (L & _).
      destruct (Z.eq_dec (gsnap s t) (gfull s)) as [Q|Q]; [rewrite Q in E; contradiction|lia].
  - (* PRetV *)
    crack Hts. injection Hts as <-. apply Some_inj in Hg; subst s1.
    apply (Inv1_intro s _ t HI); sset; [exact G|rewrite upd_same; exact I|frame1|lia].
  - (* PNfPush *)
    crack Hts. injection Hts as <-. crack Hg. apply Some_inj in Hg; subst s1.
    apply (Inv1_intro s _ t HI); sset; [exact G|rewrite upd_same; destruct (_ =? _); exact I|frame1|lia].
  - (* PNfHead *)
    crack Hts. injection Hts as <-. apply Some_inj in Hg; subst s1.
    apply (Inv1_intro s _ t HI); sset; [exact G|rewrite upd_same; exact I|frame1|lia].
  - (* PNfLoad *)
    crack Hts. injection Hts as <-. crack Hg. apply Z.eqb_eq in C0. apply Some_inj in Hg; subst s1.
    destruct (is_presnap _); apply (Inv1_intro s _ t HI); sset;
      try exact G; try (rewrite upd_same, C0; apply T1p_nf_entry; exact W); try frame1; lia.
  - (* PNfCas *)
    destruct Ht as (Wo & En).
    crack Hts. injection Hts as <-. crack Hg. bsplit C0. apply Z.eqb_eq in C1. apply Some_inj in Hg; subst s1.
    destruct (Z.eqb_spec (eok e) 1) as [Ok|Nok].
    + cbn [negb orb] in C0. apply Z.eqb_eq in C0. pose proof (lor_hn_spec old Wo) as (Wn & Ng & _). subst new.
      apply (Inv1_intro s _ t HI); sset; [|rewrite upd_same; exact I|frame1|lia].
      unfold G1; sset; split; [|split]; [exact Wn|exact G0|]. rewrite Ng, <- C0. exact Gg.
    + destruct (is_presnap _); apply (Inv1_intro s _ t HI); sset;
        try exact G; try (rewrite upd_same, C1; apply T1p_nf_entry; exact W); try frame1; lia.
Qed.

Theorem inv1_reach s : reach s -> Inv1 s.
Proof.
  apply invariant_lift.
  - intros ? ->. apply Inv1_init.
  - intros s0 [t e] s1 HI [_ Hs]. cbn in *. eapply step1; eauto.
Qed.

(* ================= invariant 2: who is responsible for the notify list; where every registered notification is ===== *)
Definition cls (p : pc) : Z :=
  match p with
  | PNfHead _ | PNfLoad | PNfCas _ _ => 1
  | PSnapHead _ _ | PSnapStore _ _ | PSnapTail _ _ => 2
  | PFire _ _ => 3
  | _ => 0
  end.
Definition G2 (s : gst) : Prop :=
  match ntok s with
  | TNone => nq s = [] /\ fn (word s) = 0
  | TPusher p => nq s <> [] /\ fn (word s) = 0 /\ cls (pcs s p) = 1
  | TWord => nq s <> [] /\ fn (word s) = 1
  | TSnap u => nq s <> [] /\ fn (word s) = 0 /\ cls (pcs s u) = 2
  end.
Definition T2 (s : gst) (t : Z) : Prop :=
  (cls (pcs s t) = 1 -> ntok s = TPusher t) /\ (cls (pcs s t) = 2 -> ntok s = TSnap t) /\
  (cls (pcs s t) = 3 -> held s t <> []) /\ (cls (pcs s t) <> 3 -> held s t = []) /\
  (forall o n, pcs s t = PNfCas o n -> n = Z.lor o HN).
Definition I2 (s : gst) : Prop :=
  0 <= nreg s /\ NoDup (ids (nq s)) /\ (forall t, NoDup (ids (held s t))) /\
  (forall i, In i (ids (nq s)) -> 0 <= i < nreg s /\ nplace s i = 0) /\
  (forall t i, In i (ids (held s t)) -> 0 <= i < nreg s /\ nplace s i = t /\ 0 < t) /\
  (forall i, fcnt s i = (if nplace s i =? -1 then 1 else 0)) /\
  (forall i, 0 <= i < nreg s -> (nplace s i = 0 -> In i (ids (nq s))) /\
                                (0 < nplace s i -> In i (ids (held s (nplace s i)))) /\
                                (nplace s i = 0 \/ nplace s i = -1 \/ 0 < nplace s i)) /\
  (forall i, ~ (0 <= i < nreg s) -> nplace s i = 0) /\
  (forall i p, In (i, p) (nq s) -> p <> 0).
Definition Inv2 (s : gst) : Prop := G2 s /\ I2 s /\ forall t, T2 s t.

Lemma Inv2_init : Inv2 init_state.
Proof.
  split; [cbn; auto|]. split.
  - unfold I2; cbn. repeat split; try constructor; try contradiction; try lia; auto; intros; try lia.
  - intros t. unfold T2; cbn. repeat split; intros; try discriminate; auto.
Qed.

Lemma T2_frame s s' t u : u <> t -> T2 s u -> pcs s' u = pcs s u -> held s' u = held s u ->
  (ntok s' = ntok s \/ (ntok s <> TPusher u /\ ntok s <> TSnap u)) -> T2 s' u.
Proof.
  unfold T2. intros Ne (A & B & C & D & E) -> -> [->|(N1 & N2)]; [repeat split; auto|].
  repeat split; auto; intros X; exfalso; [apply N1, A, X|apply N2, B, X].
Qed.

(* a step that touches neither the list, the HAS_NOTIFS bit, the token nor the bookkeeping, and keeps the thread's class *)
Lemma Inv2_same s s1 t p' : Inv2 s -> pcs s1 = pcs s -> ntok s1 = ntok s -> nq s1 = nq s -> held s1 = held s ->
  nreg s1 = nreg s -> nplace s1 = nplace s -> fcnt s1 = fcnt s -> fn (word s1) = fn (word s) ->
  cls p' = cls (pcs s t) -> (forall o n, p' = PNfCas o n -> n = Z.lor o HN) -> Inv2 (set_pc s1 t p').
Proof.
  intros (G & HI & HT) Ep Et Eq Eh Er Enp Ef Efn Ec Hn.
  assert (Pc : forall u, cls (upd (pcs s) t p' u) = cls (pcs s u)).
  { intros u. destruct (Z.eq_dec u t) as [->|Ne]; [rewrite upd_same; exact Ec|rewrite upd_other by exact Ne; reflexivity]. }
  split; [|split].
  - unfold G2 in *; sset. rewrite Et, Eq, Efn, Ep. destruct (ntok s); auto; rewrite Pc; exact G.
  - unfold I2 in *; sset. rewrite Eq, Eh, Er, Enp, Ef. exact HI.
  - intros u. destruct (Z.eq_dec u t) as [->|Ne].
    + specialize (HT t). unfold T2 in *; sset. rewrite Et, Eh, Ep, upd_same, Ec.
      destruct HT as (A & B & C & D & E). repeat split; auto.
    + apply (T2_frame s _ t u Ne (HT u)); sset; [rewrite Ep; apply upd_other; exact Ne|rewrite Eh; reflexivity|left; exact Et].
Qed.

Lemma cls_wake_tail k x : cls (wake_tail k x) = 0.
Proof. unfold wake_tail. destruct (nz _); [reflexivity|destruct k; reflexivity]. Qed.
Lemma cls_lv_loop_entry k x : wfw x -> cls (lv_loop_entry k x) = 0.
Proof. intros H. destruct (lv_loop_entry_spec k x H) as [->|(_ & _ & ->)]; [reflexivity|apply cls_wake_tail]. Qed.
Lemma cls_after_add k x : wfw (leave_word x) -> cls (after_add k x) = 0.
Proof.
  intros H. rewrite after_add_spec. destruct (_ =? _); [apply cls_lv_loop_entry; exact H|].
  destruct (_ =? _); [reflexivity|destruct k; reflexivity].
Qed.
Lemma cls_wt_entry tmo x : cls (wt_entry tmo x) = 0.
Proof. unfold wt_entry. cbv zeta. repeat (destruct (_ =? _); [reflexivity|]). reflexivity. Qed.
Lemma not_cas_wake_tail k x o n : wake_tail k x <> PNfCas o n.
Proof. unfold wake_tail. destruct (nz _); [discriminate|destruct k; discriminate]. Qed.
Lemma not_cas_of_cls p o n : cls p <> 1 -> p <> PNfCas o n.
Proof. intros H ->. apply H. reflexivity. Qed.

Ltac same2 := first [reflexivity | assumption].

Lemma existsb_In i l : existsb (Z.eqb i) l = true <-> In i l.
Proof.
  rewrite existsb_exists. split.
  - intros (x & Hx & E). apply Z.eqb_eq in E. subst. exact Hx.
  - intros H. exists i. split; [exact H|apply Z.eqb_refl].
Qed.
Lemma ids_app l x : ids (l ++ [x]) = ids l ++ [fst x].
Proof. unfold ids. rewrite map_app. reflexivity. Qed.
Lemma tailptr_snoc l i p : tailptr (l ++ [(i, p)]) = p.
Proof. unfold tailptr. rewrite rev_app_distr. reflexivity. Qed.
Lemma tailptr_nz l : (forall i p, In (i, p) l -> p <> 0) -> l <> [] -> tailptr l <> 0.
Proof.
  intros H Hn. destruct (exists_last Hn) as (l0 & [i p] & ->). rewrite tailptr_snoc. apply (H i).
  apply in_or_app. right. left. reflexivity.
Qed.
Lemma NoDup_app_snoc (l : list Z) x : NoDup l -> ~ In x l -> NoDup (l ++ [x]).
Proof.
  induction l as [|a l IH]; intros ND Nin; cbn.
  - constructor; [intros []|constructor].
  - apply NoDup_cons_iff in ND as (Na & NDl). constructor.
    + intros X. apply in_app_or in X as [X|[X|[]]]; [contradiction|]. apply Nin. left. symmetry. exact X.
    + apply IH; [exact NDl|]. intros X. apply Nin. right. exact X.
Qed.

Lemma Inv2_tok s s1 t p' : Inv2 s -> pcs s1 = pcs s -> nq s1 = nq s -> held s1 = held s -> nreg s1 = nreg s ->
  nplace s1 = nplace s -> fcnt s1 = fcnt s ->
  (forall u, u <> t -> ntok s <> TPusher u /\ ntok s <> TSnap u) ->
  G2 (set_pc s1 t p') -> T2 (set_pc s1 t p') t -> Inv2 (set_pc s1 t p').
Proof.
  intros (G & HI & HT) Ep Eq Eh Er Enp Ef Hn G' T'. split; [exact G'|]. split.
  - unfold I2 in *; sset. rewrite Eq, Eh, Er, Enp, Ef. exact HI.
  - intros u. destruct (Z.eq_dec u t) as [->|Ne]; [exact T'|].
    apply (T2_frame s _ t u Ne (HT u)); sset; [rewrite Ep; apply upd_other; exact Ne|rewrite Eh; reflexivity|right; apply Hn; exact Ne].
Qed.

Lemma G2_frame s s' t : G2 s -> ntok s' = ntok s -> (nq s' = [] <-> nq s = []) -> fn (word s') = fn (word s) ->
  (forall u, u <> t -> pcs s' u = pcs s u) -> cls (pcs s t) <> 1 -> cls (pcs s t) <> 2 -> G2 s'.
Proof.
  unfold G2. intros G -> Eq -> Ep N1 N2.
  assert (X : nq s <> [] -> nq s' <> []) by (intros A B; apply A, Eq, B).
  destruct (ntok s) as [|p| |p].
  - destruct G as (A & B). split; [apply Eq; exact A|exact B].
  - destruct G as (A & B & C). repeat split; auto. rewrite Ep; [exact C|]. intros ->. contradiction.
  - destruct G as (A & B). split; auto.
  - destruct G as (A & B & C). repeat split; auto. rewrite Ep; [exact C|]. intros ->. contradiction.
Qed.

Lemma leave_eff_inv2 s t k e s1 : Inv1 s -> Inv2 s -> cls (pcs s t) = 0 ->
  (if (ea e =? word s) && negb (vzero (word s))
   then Some (if Z.land (word s) VMASK =? V1 then set_carry s (leave_word (word s))
              else set_count s (leave_word (word s)) (-1)) else None) = Some s1 ->
  Inv2 (set_pc s1 t (after_add k (ea e))).
Proof.
  intros ((W & _) & _) HI Hc Hg. crack Hg. apply andb_true_iff in C as [C _]. apply Z.eqb_eq in C.
  apply Some_inj in Hg; subst s1. rewrite C.
  pose proof (leave_word_spec (word s) W) as (W' & Fn & _).
  assert (Cl : cls (after_add k (word s)) = 0) by (apply cls_after_add; exact W').
  destruct (_ =? V1); apply (Inv2_same s); try exact HI; try reflexivity; try exact Fn; try (rewrite Hc; exact Cl);
    intros o n X; rewrite X in Cl; discriminate Cl.
Qed.

Lemma nf_step s t x : Inv2 s -> wfw x -> cls (pcs s t) = 1 ->
  Inv2 (set_pc (if is_presnap (nf_entry x) then set_tok s (TSnap t) else s) t (nf_entry x)).
Proof.
  intros HI W Hc. pose proof HI as (G & _ & HT). destruct (HT t) as (A & _ & _ & D & _). specialize (A Hc).
  rewrite nf_entry_spec. destruct (u32 x =? 0).
  - pose proof (lor_hn_spec x W) as (Wn & _ & _ & Fn & _). rewrite (wake_entry_spec _ _ Wn), Fn. cbn [Z.eqb Pos.eqb is_presnap].
    apply (Inv2_tok s); try exact HI; try reflexivity.
    + intros u Ne. rewrite A. split; intros X; [injection X as X; auto|discriminate X].
    + unfold G2 in *; sset. rewrite A in G. destruct G as (G1' & G2' & _). rewrite upd_same. repeat split; auto.
    + unfold T2; sset. rewrite upd_same. cbn [cls]. repeat split; intros; try discriminate; auto.
      apply D. rewrite Hc. discriminate.
  - cbn [is_presnap]. apply (Inv2_same s); try exact HI; try reflexivity; [rewrite Hc; reflexivity|].
    intros o n X. injection X as <- <-. reflexivity.
Qed.

Lemma step2 s t e s' : valid_tid t -> Inv1 s -> Inv2 s -> gstep s t e = Some s' -> Inv2 s'.
Proof.
  intros Vt HI1 HI Hs. unfold valid_tid in Vt. destruct (gstep_inv _ _ _ _ Hs) as (p' & s1 & Hts & Hg & ->).
  pose proof HI1 as ((W & _ & _) & HT1). pose proof (HT1 t) as Ht1. unfold T1 in Ht1.
  pose proof HI as (G & HI2 & HT). pose proof (HT t) as (TA & TB & TC & TD & TE).
  destruct (pcs s t) eqn:Hpc; cbn [tstep] in Hts; cbn [geffect] in Hg; cbn [T1p] in Ht1; cbn [cls] in TA, TB, TC, TD.
  - (* PIdle *)
    destruct (ev_kind e DVU_CALL).
    + assert (X : exists s0, s1 = s0 /\ (s0 = s \/ s0 = set_call_wait s t)).
      { destruct (ea e =? OP_WAIT); injection Hg as Hg; [exists (set_call_wait s t)|exists s]; auto. }
      destruct X as (s0 & -> & Hs0).
      assert (P : cls p' = 0 /\ forall o n, p' = PNfCas o n -> n = Z.lor o HN).
      { destruct ((ea e =? OP_ENTER) || (ea e =? OP_ASYNC)); [injection Hts as <-; split; [reflexivity|discriminate]|].
        destruct (ea e =? OP_LEAVE); [injection Hts as <-; split; [reflexivity|discriminate]|].
        destruct (ea e =? OP_WAIT); [injection Hts as <-; split; [reflexivity|discriminate]|].
        destruct (ea e =? OP_NOTIFY); [injection Hts as <-; split; [reflexivity|discriminate]|discriminate]. }
      destruct P as (P1 & P2).
      destruct Hs0 as [->| ->]; apply (Inv2_same s); try exact HI; try reflexivity; try exact P2; rewrite Hpc; exact P1.
    + destruct (is_add e).
      * injection Hts as <-. apply (leave_eff_inv2 s); try assumption. rewrite Hpc. reflexivity.
      * crack Hts. injection Hts as <-. apply Some_inj in Hg; subst s1.
        apply (Inv2_same s); try exact HI; try reflexivity; [rewrite Hpc; reflexivity|discriminate].
  - discriminate.
  - (* PEnter *)
    crack Hts. injection Hts as <-. crack Hg. apply Some_inj in Hg; subst s1.
    pose proof (enter_word_spec (word s) W) as (_ & _ & _ & Fn & _).
    apply (Inv2_same s); try exact HI; try reflexivity; try exact Fn.
    + rewrite Hpc. destruct (_ =? _); reflexivity.
    + intros o n X. destruct (_ =? _); discriminate X.
  - (* PRet *)
    crack Hts. injection Hts as <-. apply Some_inj in Hg; subst s1.
    apply (Inv2_same s); try exact HI; try reflexivity; [rewrite Hpc; reflexivity|discriminate].
  - (* PLeave *)
    crack Hts. injection Hts as <-. apply (leave_eff_inv2 s); try assumption. rewrite Hpc. reflexivity.
  - (* PLvLoop *)
    crack Hts. injection Hts as <-. crack Hg. apply andb_true_iff in C0 as [C1 C0]. apply Z.eqb_eq in C1.
    apply Some_inj in Hg; subst s1.
    pose proof (leave_new_spec old Ht1) as (_ & Wn & _ & _ & Nn & _).
    destruct (Z.eqb_spec (word s) old) as [Ew|Ew].
    + apply Z.eqb_eq in C0. rewrite C0. cbn [Z.eqb Pos.eqb]. rewrite (nz_hn old Ht1), (wake_entry_spec k old Ht1).
      destruct (Z.eqb_spec (fn old) 1) as [F|F].
      * (* the thread cleared HAS_NOTIFS: it takes the token *)
        assert (Tk : ntok s = TWord).
        { unfold G2 in G. rewrite Ew in G. destruct (ntok s); auto; [destruct G as (_ & G)|destruct G as (_ & G & _)|destruct G as (_ & G & _)]; lia. }
        apply (Inv2_tok s); try exact HI; try reflexivity.
        -- intros u Ne. rewrite Tk. split; discriminate.
        -- unfold G2 in *; sset. rewrite Tk in G. destruct G as (G & _). rewrite upd_same. repeat split; auto.
        -- unfold T2; sset. rewrite upd_same. cbn [cls]. repeat split; intros; try discriminate; auto.
           apply TD. discriminate.
      * pose proof (decomp old Ht1) as (_ & _ & _ & Bn & _).
        apply (Inv2_same s); try exact HI; try reflexivity.
        -- sset. rewrite Nn, Ew. lia.
        -- rewrite Hpc. apply cls_wake_tail.
        -- intros o n X. exfalso. exact (not_cas_wake_tail _ _ _ _ X).
    + apply Z.eqb_eq in C0. rewrite C0. cbn [Z.eqb].
      assert (Cl : cls (lv_loop_entry k (ea e)) = 0) by (apply cls_lv_loop_entry; rewrite C1; exact W).
      apply (Inv2_same s); try exact HI; try reflexivity; [rewrite Hpc; exact Cl|].
      intros o n X. rewrite X in Cl. discriminate Cl.
  - (* PSnapHead *)
    crack Hts. injection Hts as <-. apply Some_inj in Hg; subst s1.
    apply (Inv2_same s); try exact HI; try reflexivity; [rewrite Hpc; destruct (_ =? _); reflexivity|].
    intros o n X. destruct (_ =? _); discriminate X.
  - crack Hts. injection Hts as <-. apply Some_inj in Hg; subst s1.
    apply (Inv2_same s); try exact HI; try reflexivity; [rewrite Hpc; reflexivity|discriminate].
  - (* PSnapTail: the list is detached *)
    crack Hts. injection Hts as <-. crack Hg. apply Some_inj in Hg; subst s1.
    specialize (TB eq_refl). assert (Hh : held s t = []) by (apply TD; discriminate).
    unfold G2 in G. rewrite TB in G. destruct G as (Nq & Fn0 & _).
    destruct HI2 as (R0 & ND & NDh & Iq & Ih & If & Ic & Iu & Ip).
    split; [|split].
    + unfold G2; sset. auto.
    + unfold I2; sset. split; [exact R0|]. split; [constructor|]. split.
      { intros u. unfold upd. destruct (u =? t); [exact ND|apply NDh]. }
      split; [intros i []|]. split.
      { intros u i Hi. unfold upd in Hi. destruct (Z.eqb_spec u t) as [->|Ne].
        - destruct (Iq i Hi) as (A & _). split; [exact A|]. split; [|exact Vt].
          apply existsb_In in Hi. rewrite Hi. reflexivity.
        - destruct (Ih u i Hi) as (A & B & C'). split; [exact A|]. split; [|exact C'].
          destruct (existsb (Z.eqb i) (ids (nq s))) eqn:Ex; [|exact B]. apply existsb_In in Ex. destruct (Iq i Ex) as (_ & Z0). lia. }
      split.
      { intros i. rewrite If. destruct (existsb (Z.eqb i) (ids (nq s))) eqn:Ex; [|reflexivity].
        apply existsb_In in Ex. destruct (Iq i Ex) as (_ & Z0). rewrite Z0. unfold valid_tid in Vt.
        destruct (Z.eqb_spec t (-1)); [lia|reflexivity]. }
      split.
      { intros i Hi. destruct (Ic i Hi) as (A & B & C'). destruct (existsb (Z.eqb i) (ids (nq s))) eqn:Ex.
        - apply existsb_In in Ex. unfold valid_tid in Vt. split; [intros; lia|]. split; [|right; right; exact Vt].
          intros _. rewrite upd_same. exact Ex.
        - assert (Nin : ~ In i (ids (nq s))) by (intros X; apply existsb_In in X; congruence).
          split; [intros Z0; exfalso; apply Nin, A, Z0|]. split; [|exact C'].
          intros P. specialize (B P). destruct (Z.eq_dec (nplace s i) t) as [Q|Q].
          + rewrite Q, Hh in B. destruct B.
          + rewrite upd_other by exact Q. exact B. }
      split.
      { intros i Hi. destruct (existsb (Z.eqb i) (ids (nq s))) eqn:Ex; [|apply Iu; exact Hi].
        apply existsb_In in Ex. destruct (Iq i Ex) as (A & _). contradiction. }
      intros i p [].
    + intros u. destruct (Z.eq_dec u t) as [->|Ne].
      * unfold T2; sset. rewrite !upd_same. cbn [cls]. repeat split; intros; try discriminate; auto. congruence.
      * apply (T2_frame s _ t u Ne (HT u)); sset; [apply upd_other; exact Ne|apply upd_other; exact Ne|].
        right. rewrite TB. split; intros X; [discriminate X|injection X as X; auto].
  - (* PFire: one continuation is submitted *)
    crack Hts. injection Hts as <-. destruct (held s t) as [|[i ptr] rest] eqn:Hh; [discriminate|]. crack Hg.
    apply andb_true_iff in C0 as [_ C0]. apply Z.eqb_eq in C0. apply Some_inj in Hg; subst s1.
    destruct HI2 as (R0 & ND & NDh & Iq & Ih & If & Ic & Iu & Ip).
    assert (Hi : In i (ids (held s t))) by (rewrite Hh; left; reflexivity).
    destruct (Ih t i Hi) as (Ri & Pi & _).
    pose proof (NDh t) as NDt. rewrite Hh in NDt. cbn [ids map fst] in NDt. apply NoDup_cons_iff in NDt as (Nin & NDr). fold (ids rest) in Nin, NDr.
    split; [|split].
    + apply (G2_frame s _ t G); sset; try reflexivity; [intros u Ne; apply upd_other; exact Ne|rewrite Hpc; discriminate|rewrite Hpc; discriminate].
    + unfold I2; sset. split; [exact R0|]. split; [exact ND|]. split.
      { intros u. unfold upd. destruct (u =? t); [exact NDr|apply NDh]. }
      split.
      { intros j Hj. destruct (Iq j Hj) as (A & B). split; [exact A|]. rewrite upd_other; [exact B|]. intros ->. lia. }
      split.
      { intros u j Hj. unfold upd in Hj. destruct (Z.eqb_spec u t) as [->|Ne].
        - destruct (Ih t j) as (A & B & C'); [rewrite Hh; right; exact Hj|]. split; [exact A|]. split; [|exact C'].
          rewrite upd_other; [exact B|]. intros ->. contradiction.
        - destruct (Ih u j Hj) as (A & B & C'). split; [exact A|]. split; [|exact C'].
          rewrite upd_other; [exact B|]. intros ->. congruence. }
      split.
      { intros j. unfold upd. destruct (Z.eqb_spec j i) as [->|Ne]; [|apply If].
        rewrite If, Pi. unfold valid_tid in Vt. destruct (Z.eqb_spec t (-1)); [lia|reflexivity]. }
      split.
      { intros j Hj. destruct (Z.eq_dec j i) as [->|Ne].
        - rewrite upd_same. split; [intros; lia|]. split; [intros; lia|]. right; left; reflexivity.
        - rewrite upd_other by exact Ne. destruct (Ic j Hj) as (A & B & C'). split; [exact A|]. split; [|exact C'].
          intros P. specialize (B P). unfold upd. destruct (Z.eqb_spec (nplace s j) t) as [Q|Q]; [|exact B].
          rewrite Q, Hh in B. destruct B as [B|B]; [cbn in B; congruence|exact B]. }
      split.
      { intros j Hj. rewrite upd_other; [apply Iu; exact Hj|]. intros ->. contradiction. }
      exact Ip.
    + intros u. destruct (Z.eq_dec u t) as [->|Ne].
      * unfold T2; sset. rewrite !upd_same. rewrite C0. destruct rest as [|r rest'].
        -- cbn [Z.eqb Pos.eqb]. rewrite cls_wake_tail. repeat split; intros; try discriminate; auto.
           exfalso. exact (not_cas_wake_tail _ _ _ _ H).
        -- cbn [Z.eqb cls]. repeat split; intros; try discriminate; auto. exfalso; apply H; reflexivity.
      * apply (T2_frame s _ t u Ne (HT u)); sset; [apply upd_other; exact Ne|apply upd_other; exact Ne|left; reflexivity].
  - (* PWakeFutex *)
    crack Hts. injection Hts as <-. apply Some_inj in Hg; subst s1.
    apply (Inv2_same s); try exact HI; try reflexivity; [rewrite Hpc; destruct k; reflexivity|destruct k; discriminate].
  - (* PWtLoad *)
    crack Hts. injection Hts as <-. crack Hg. apply Some_inj in Hg; subst s1.
    apply (Inv2_same s); try exact HI; try reflexivity; [rewrite Hpc; apply cls_wt_entry|].
    intros o n X. pose proof (cls_wt_entry tmo (ea e)) as Cl. rewrite X in Cl. discriminate Cl.
  - (* PWtCas *)
    destruct Ht1 as (Wo & En & _).
    crack Hts. injection Hts as <-. crack Hg. apply andb_true_iff in C0 as [C1 C0]. apply Z.eqb_eq in C1.
    apply Some_inj in Hg; subst s1.
    destruct (Z.eqb_spec (eok e) 1) as [Ok|Nok].
    + cbn [negb orb] in C0. apply Z.eqb_eq in C0. pose proof (lor_hw_spec old Wo) as (_ & _ & _ & Fn & _). subst new.
      apply (Inv2_same s); try exact HI; try reflexivity; [sset; rewrite Fn, C0; reflexivity|rewrite Hpc; reflexivity|discriminate].
    + apply (Inv2_same s); try exact HI; try reflexivity; [rewrite Hpc; apply cls_wt_entry|].
      intros o n X. pose proof (cls_wt_entry tmo (ea e)) as Cl. rewrite X in Cl. discriminate Cl.
  - (* PSlow *)
    assert (X : exists s0 p0, s1 = s0 /\ p' = p0 /\ cls p0 = 0 /\ (forall o n, p0 <> PNfCas o n) /\
                (s0 = s \/ exists f, s0 = set_slp s f)).
    { destruct (ev_kind e DV_FUTEX_WAIT && (eoff e =? OFF_GEN) && (ea e =? gen)) eqn:C.
      - injection Hts as <-. apply andb_true_iff in C as [C _]. apply andb_true_iff in C as [C _]. rewrite C in Hg.
        apply Some_inj in Hg; subst s1. eexists _, _. repeat split; [discriminate|right; eexists; reflexivity].
      - crack Hts. injection Hts as <-.
        assert (Q : s1 = s \/ exists f, s1 = set_slp s f).
        { destruct (ev_kind e DV_FUTEX_WAIT); [apply Some_inj in Hg; subst s1; right; eexists; reflexivity|].
          crack Hg. apply Some_inj in Hg; subst s1. left; reflexivity. }
        eexists _, _. repeat split; [destruct (_ =? _); reflexivity|destruct (_ =? _); discriminate|exact Q]. }
    destruct X as (s0 & p0 & -> & -> & Cl & Nc & [->|(f & ->)]); apply (Inv2_same s); try exact HI; try reflexivity;
      try (rewrite Hpc; exact Cl); intros o n X; exfalso; exact (Nc _ _ X).
  - (* PSleep *)
    crack Hts. injection Hts as <-. apply Some_inj in Hg; subst s1.
    apply (Inv2_same s); try exact HI; try reflexivity; [rewrite Hpc; reflexivity|discriminate].
  - (* PSlowLoad *)
    crack Hts. injection Hts as <-. crack Hg. apply Some_inj in Hg; subst s1.
    apply (Inv2_same s); try exact HI; try reflexivity.
    + rewrite Hpc. destruct (_ =? _); [destruct (_ =? _)|]; reflexivity.
    + intros o n X. destruct (_ =? _); [destruct (_ =? _)|]; discriminate X.
  - (* PRetV *)
    crack Hts. injection Hts as <-. apply Some_inj in Hg; subst s1.
    apply (Inv2_same s); try exact HI; try reflexivity; [rewrite Hpc; reflexivity|discriminate].
  - (* PNfPush: registration *)
    crack Hts. injection Hts as <-. crack Hg. apply Z.eqb_eq in C0. apply Some_inj in Hg; subst s1.
    apply andb_true_iff in C as [_ Cp]. apply negb_true_iff in Cp. apply Z.eqb_neq in Cp.
    assert (Hh : held s t = []) by (apply TD; discriminate).
    destruct HI2 as (R0 & ND & NDh & Iq & Ih & If & Ic & Iu & Ip).
    assert (I2' : I2 (set_pc (set_push s t (eb e)) t (if ea e =? 0 then PNfHead (eb e) else PRet))).
    { unfold I2; sset. rewrite ids_app. cbn [fst]. split; [lia|]. split.
      { apply NoDup_app_snoc. - exact ND. - intros X. destruct (Iq _ X). lia. }
      split; [exact NDh|]. split.
      { intros i Hi. apply in_app_or in Hi as [Hi|[<-|[]]]; [destruct (Iq i Hi); split; [lia|assumption]|].
        split; [lia|]. apply Iu. lia. }
      split; [intros u i Hi; destruct (Ih u i Hi) as (A & B & C'); repeat split; auto; lia|].
      split; [exact If|]. split.
      { intros i Hi. destruct (Z.eq_dec i (nreg s)) as [->|Ne].
        - rewrite (Iu (nreg s)) by lia. split; [intros _; apply in_or_app; right; left; reflexivity|]. split; [intros; lia|left; reflexivity].
        - destruct (Ic i) as (A & B & C'); [lia|]. split; [intros Z0; apply in_or_app; left; apply A, Z0|]. split; assumption. }
      split; [intros i Hi; apply Iu; lia|].
      intros i p Hi. apply in_app_or in Hi as [Hi|[Hi|[]]]; [apply (Ip i p Hi)|]. injection Hi as _ <-. exact Cp. }
    destruct (nq s) as [|q0 qs] eqn:Hq.
    + (* first pusher *)
      cbn in C0. rewrite C0. cbn [Z.eqb].
      assert (Tk : ntok s = TNone).
      { unfold G2 in G. rewrite Hq in G. destruct (ntok s); auto; destruct G as (G & _); exfalso; apply G; reflexivity. }
      unfold G2 in G. rewrite Tk in G. destruct G as (_ & Fn0).
      rewrite C0 in I2'. cbn [Z.eqb] in I2'.
      split; [|split; [exact I2'|]].
      * unfold G2; sset. rewrite Hq. cbn [app]. rewrite upd_same. repeat split; auto. discriminate.
      * intros u. destruct (Z.eq_dec u t) as [->|Ne].
        -- unfold T2; sset. rewrite Hq, upd_same. cbn [cls]. repeat split; intros; try discriminate; auto.
        -- apply (T2_frame s _ t u Ne (HT u)); sset; [apply upd_other; exact Ne|reflexivity|].
           right. rewrite Tk. split; discriminate.
    + (* pushed behind others *)
      assert (Tz : tailptr (q0 :: qs) <> 0) by (apply tailptr_nz; [exact Ip|discriminate]).
      destruct (Z.eqb_spec (ea e) 0) as [E0|E0]; [congruence|].
      split; [|split; [exact I2'|]].
      * apply (G2_frame s _ t G); sset; rewrite ?Hq; try reflexivity.
        -- split; intros X; [destruct qs; discriminate X|discriminate X].
        -- intros u Ne; apply upd_other; exact Ne.
        -- rewrite Hpc; discriminate.
        -- rewrite Hpc; discriminate.
      * intros u. destruct (Z.eq_dec u t) as [->|Ne].
        -- unfold T2; sset. rewrite upd_same. cbn [cls]. repeat split; intros; try discriminate; auto.
        -- apply (T2_frame s _ t u Ne (HT u)); sset; [apply upd_other; exact Ne|reflexivity|left].
           rewrite Hq. reflexivity.
  - (* PNfHead *)
    crack Hts. injection Hts as <-. apply Some_inj in Hg; subst s1.
    apply (Inv2_same s); try exact HI; try reflexivity; [rewrite Hpc; reflexivity|discriminate].
  - (* PNfLoad *)
    crack Hts. injection Hts as <-. crack Hg. apply Z.eqb_eq in C0. apply Some_inj in Hg; subst s1.
    apply nf_step; [exact HI|rewrite C0; exact W|rewrite Hpc; reflexivity].
  - (* PNfCas *)
    destruct Ht1 as (Wo & En).
    crack Hts. injection Hts as <-. crack Hg. apply andb_true_iff in C0 as [C1 C0]. apply Z.eqb_eq in C1.
    apply Some_inj in Hg; subst s1.
    destruct (Z.eqb_spec (eok e) 1) as [Ok|Nok].
    + cbn [negb orb] in C0. apply Z.eqb_eq in C0. pose proof (lor_hn_spec old Wo) as (_ & _ & _ & Fn & _). subst new.
      specialize (TA eq_refl).
      apply (Inv2_tok s); try exact HI; try reflexivity.
      * intros u Ne. rewrite TA. split; intros X; [injection X as X; auto|discriminate X].
      * unfold G2 in *; sset. rewrite TA in G. destruct G as (G & _). split; [exact G|exact Fn].
      * unfold T2; sset. rewrite upd_same. cbn [cls]. repeat split; intros; try discriminate; auto. apply TD. discriminate.
    + apply nf_step; [exact HI|rewrite C1; exact W|rewrite Hpc; reflexivity].
Qed.

(* ================= consequences ================= *)
Theorem inv_reach s : reach s -> Inv1 s /\ Inv2 s.
Proof.
  apply (invariant_lift (fun s => s = init_state) step (fun s => Inv1 s /\ Inv2 s)).
  - intros ? ->. split; [apply Inv1_init|apply Inv2_init].
  - intros s0 [t e] s1 (H1 & H2) [Vt Hs]. cbn in *. split; [eapply step1; eauto|eapply step2; eauto].
Qed.
Lemma reach_gstep s t e s' : reach s -> valid_tid t -> gstep s t e = Some s' -> reach s'.
Proof. intros R Vt Hs. apply (reach_step _ _ s (t, e) s' R). split; assumption. Qed.
Lemma grun_reach tr : forall s s', reach s -> Forall (fun a => valid_tid (fst a)) tr -> grun s tr = Some s' -> reach s'.
Proof.
  induction tr as [|[t e] tr IH]; intros s s' R F H; cbn in H.
  - injection H as <-. exact R.
  - destruct (gstep s t e) as [s1|] eqn:Hs; [|discriminate]. inversion F; subst.
    apply (IH s1); auto. eapply reach_gstep; eauto.
Qed.

(* dispatch_group_wait returns 0 only if the count was zero at some state during the call *)
Lemma wait_zero_sound s t : reach s -> pcs s t = PRetV 0 -> wz s t = true.
Proof. intros R Hp. destruct (inv_reach s R) as ((_ & HT) & _). specialize (HT t). unfold T1 in HT. rewrite Hp in HT. apply HT. reflexivity. Qed.
(* ... and the return event of a wait that reports 0 is only accepted at such a program point *)
Lemma wait_ret_zero_pc s t e s' v : pcs s t = PRetV v -> gstep s t e = Some s' -> ea e = 0 -> v = 0.
Proof.
  intros Hp Hs E. unfold gstep in Hs. rewrite Hp in Hs. cbn [tstep] in Hs.
  destruct (ev_kind e DVU_RET && Bool.eqb (ea e =? 0) (v =? 0)) eqn:C; [|discriminate].
  apply andb_true_iff in C as [_ C]. rewrite E in C. cbn in C. destruct (Z.eqb_spec v 0); [assumption|discriminate].
Qed.

(* a non-zero result comes only from a zero timeout, from ETIMEDOUT of the futex wait, or from a deadline that had
   already passed when _dispatch_wait_on_address computed the remaining time *)
Definition isret (p : pc) : bool := match p with PRetV _ => true | _ => false end.
Lemma isret_wake_tail k x : isret (wake_tail k x) = false.
Proof. unfold wake_tail. destruct (nz _); [reflexivity|destruct k; reflexivity]. Qed.
Lemma isret_wake_entry k x : isret (wake_entry k x) = false.
Proof. unfold wake_entry. destruct (nz _); [reflexivity|apply isret_wake_tail]. Qed.
Lemma isret_lv_loop_entry k x : isret (lv_loop_entry k x) = false.
Proof. unfold lv_loop_entry. destruct (_ =? _); [apply isret_wake_entry|reflexivity]. Qed.
Lemma isret_after_add k x : isret (after_add k x) = false.
Proof. unfold after_add. cbv zeta. destruct (_ =? _); [apply isret_lv_loop_entry|]. destruct (_ =? _); [reflexivity|destruct k; reflexivity]. Qed.
Lemma isret_nf_entry x : isret (nf_entry x) = false.
Proof. rewrite nf_entry_spec. destruct (_ =? _); [apply isret_wake_entry|reflexivity]. Qed.
Lemma isret_inj p v : p = PRetV v -> isret p = true.
Proof. intros ->. reflexivity. Qed.
Ltac noret H lem := apply isret_inj in H; rewrite lem in H; discriminate H.

Lemma nonzero_only_by_timeout p e v : tstep p e = Some (PRetV v) -> v <> 0 ->
  match p with
  | PWtLoad tmo | PWtCas tmo _ _ => tmo = 0
  | PSlow tmo _ => tmo <> FOREVER /\ ev_kind e DV_FUTEX_WAIT = false
  | PSlowLoad _ _ rc => rc = ETIMEDOUT
  | _ => False
  end.
Proof.
  assert (WT : forall tmo x, wt_entry tmo x = PRetV v -> v <> 0 -> tmo = 0).
  { intros tmo x. unfold wt_entry. cbv zeta. destruct (_ =? 1); [intros X; injection X as <-; contradiction|].
    destruct (_ =? 2) eqn:C2; [|destruct (_ =? 3); [discriminate|destruct (_ =? 0); discriminate]].
    intros _ _. unfold group_wait_loop in C2. destruct (Z.land x 4294967292 =? 0); [discriminate C2|].
    destruct (Z.eqb_spec tmo 0); [assumption|]. cbn in C2. destruct (negb _); discriminate C2. }
  intros H Hv. destruct p; cbn [tstep] in H.
  - destruct (ev_kind e DVU_CALL).
    + destruct (_ || _); [discriminate H|]. destruct (_ =? _); [discriminate H|]. destruct (_ =? _); [discriminate H|].
      destruct (_ =? _); discriminate H.
    + destruct (is_add e); [|destruct (is_mark e); discriminate H]. apply Some_inj in H. noret H isret_after_add.
  - discriminate H.
  - crack H. apply Some_inj in H. destruct (Z.land (ea e) VMASK =? VMAX); discriminate H.
  - crack H. discriminate H.
  - crack H. apply Some_inj in H. noret H isret_after_add.
  - crack H. apply Some_inj in H. destruct (eok e =? 1); [noret H isret_wake_entry|noret H isret_lv_loop_entry].
  - crack H. apply Some_inj in H. destruct (ea e =? 0); discriminate H.
  - crack H. discriminate H.
  - crack H. discriminate H.
  - crack H. apply Some_inj in H. destruct (eok e =? 1); [noret H isret_wake_tail|discriminate H].
  - crack H. destruct k; discriminate H.
  - crack H. apply Some_inj in H. exact (WT _ _ H Hv).
  - crack H. apply Some_inj in H. destruct (eok e =? 1); [discriminate|]. exact (WT _ _ H Hv).
  - destruct (ev_kind e DV_FUTEX_WAIT && (eoff e =? OFF_GEN) && (ea e =? gen)) eqn:C; [discriminate|].
    crack H. apply andb_true_iff in C0 as [C0 C1]. apply andb_true_iff in C0 as [C0 _]. apply ev_is_kind in C0.
    split; [apply negb_true_iff in C1; apply Z.eqb_neq; exact C1|]. unfold ev_kind. rewrite C0. reflexivity.
  - crack H. discriminate H.
  - crack H. apply Some_inj in H. destruct (ea e =? gen); [|injection H as <-; contradiction].
    destruct (Z.eqb_spec rc ETIMEDOUT); [assumption|discriminate].
  - crack H. discriminate H.
  - crack H. apply Some_inj in H. destruct (ea e =? 0); discriminate H.
  - crack H. discriminate H.
  - crack H. apply Some_inj in H. noret H isret_nf_entry.
  - crack H. apply Some_inj in H. destruct (eok e =? 1); [discriminate H|noret H isret_nf_entry].
Qed.

(* every registered notification is submitted at most once, and only registered ones are submitted *)
Lemma exactly_once s i : reach s -> 0 <= fcnt s i <= 1 /\ (fcnt s i = 1 -> 0 <= i < nreg s).
Proof.
  intros R. destruct (inv_reach s R) as (_ & _ & (R0 & _ & _ & _ & _ & If & _ & Iu & _) & _).
  rewrite If. destruct (Z.eqb_spec (nplace s i) (-1)) as [E|E]; split; try lia; intros _.
  destruct (Z.lt_ge_cases i 0); [rewrite Iu in E by lia; discriminate|].
  destruct (Z.lt_ge_cases i (nreg s)); [lia|rewrite Iu in E by lia; discriminate].
Qed.
(* the thread that detaches the list is unique, and so is the first pusher still working on the HAS_NOTIFS bit *)
Lemma unique_detacher s t u : reach s -> cls (pcs s t) = 2 -> cls (pcs s u) = 2 -> t = u.
Proof.
  intros R A B. destruct (inv_reach s R) as (_ & _ & _ & HT). destruct (HT t) as (_ & X & _), (HT u) as (_ & Y & _).
  specialize (X A). specialize (Y B). congruence.
Qed.
(* where each registered notification is: still listed, detached by exactly one thread, or submitted once *)
Lemma notification_place s i : reach s -> 0 <= i < nreg s ->
  (In i (ids (nq s)) /\ fcnt s i = 0) \/ (exists t, In i (ids (held s t)) /\ cls (pcs s t) = 3 /\ fcnt s i = 0) \/ fcnt s i = 1.
Proof.
  intros R Hi. destruct (inv_reach s R) as (_ & _ & (R0 & _ & _ & _ & _ & If & Ic & _) & HT).
  destruct (Ic i Hi) as (A & B & [C|[C|C]]); rewrite If.
  - left. split; [auto|]. rewrite C. reflexivity.
  - right; right. rewrite C. reflexivity.
  - right; left. exists (nplace s i). specialize (B C). split; [exact B|]. split.
    + destruct (HT (nplace s i)) as (_ & _ & _ & D & _). destruct (Z.eq_dec (cls (pcs s (nplace s i))) 3); [assumption|].
      rewrite D in B by assumption. destruct B.
    + destruct (Z.eqb_spec (nplace s i) (-1)); [lia|reflexivity].
Qed.
(* when no call is in flight the list is either empty with HAS_NOTIFS clear, or non-empty with the bit set *)
Lemma idle_list_state s : reach s -> (forall t, pcs s t = PIdle) ->
  ((nq s = [] /\ fn (word s) = 0) \/ (nq s <> [] /\ fn (word s) = 1)) /\ forall t, held s t = [].
Proof.
  intros R Hq. destruct (inv_reach s R) as (_ & G & _ & HT). split.
  - unfold G2 in G. destruct (ntok s) as [|p| |p]; [left; exact G| |right; exact G|]; destruct G as (_ & _ & C);
      rewrite Hq in C; discriminate C.
  - intros t. destruct (HT t) as (_ & _ & _ & D & _). apply D. rewrite Hq. discriminate.
Qed.

(* ties *)
Lemma sites_enter : canon model_sites_enter = canon group_enter_sites. Proof. vm_compute. reflexivity. Qed.
Lemma sites_leave : canon model_sites_leave = canon group_leave_sites. Proof. vm_compute. reflexivity. Qed.
Lemma sites_wait : canon model_sites_wait = canon group_wait_sites. Proof. vm_compute. reflexivity. Qed.
Lemma sites_wait_slow : canon model_sites_wait_slow = canon group_wait_slow_sites. Proof. vm_compute. reflexivity. Qed.
Lemma sites_notify : canon model_sites_notify = canon group_notify_sites. Proof. vm_compute. reflexivity. Qed.
Lemma sites_wake : canon model_sites_wake = canon group_wake_sites. Proof. vm_compute. reflexivity. Qed.
Lemma gstep_tstep s t e s' : gstep s t e = Some s' -> tstep (pcs s t) e = Some (pcs s' t).
Proof. intros H. destruct (gstep_inv _ _ _ _ H) as (p' & s1 & Hts & _ & ->). sset. rewrite upd_same. exact Hts. Qed.
