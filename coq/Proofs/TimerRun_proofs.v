(* TimerRun_proofs.v — theorems about Model/TimerRun.v *)
From Coq Require Import ZArith List Bool Lia ZifyBool.
From Verif Require Import Word Bits Tactics Gen_consts Gen_time Gen_timer Time Time_proofs Heap TimerRun Heap_proofs.
Import ListNotations.
Local Open Scope Z_scope.

Definition T63 : Z := 9223372036854775808.
Definition T64 : Z := 18446744073709551616.

Section Missed.

Lemma div_bounds a b : 0 <= a -> 0 < b -> 0 <= a / b /\ b * (a / b) <= a < b * (a / b) + b.
Proof.
  intros. pose proof (Z.div_pos a b ltac:(lia) ltac:(lia)). pose proof (Z.mul_div_le a b ltac:(lia)).
  pose proof (Z.mul_succ_div_gt a b ltac:(lia)). lia.
Qed.

(* number of interval boundaries target + k * interval (k >= 0) that are <= now *)
Lemma boundaries target interval now k : target <= now -> 0 < interval -> 0 <= k ->
  (target + k * interval <= now <-> k < (now - target) / interval + 1).
Proof.
  intros Hn Hi Hk. destruct (div_bounds (now - target) interval ltac:(lia) Hi) as [Q0 [Q1 Q2]].
  set (q := (now - target) / interval) in *. split; intro H.
  - destruct (Z.lt_ge_cases k (q + 1)); auto. exfalso.
    assert (interval * (q + 1) <= k * interval) by (rewrite (Z.mul_comm k); apply Z.mul_le_mono_nonneg_l; lia). lia.
  - assert (k * interval <= interval * q) by (rewrite (Z.mul_comm k); apply Z.mul_le_mono_nonneg_l; lia). lia.
Qed.

Theorem missed_count target deadline interval now prev :
  1 <= target <= now -> now < T63 -> 1 <= interval < T64 -> 0 <= deadline < T64 ->
  0 <= prev -> prev + (now - target) / interval + 1 <= LONG_MAX ->
  let '(r, tg, dl) := compute_missed target deadline interval now prev in
  let k := (now - target) / interval + 1 in
  r - prev = k /\
  (forall j, 0 <= j -> (target + j * interval <= now <-> j < r - prev)) /\
  (interval < INT64_MAX ->
     tg = target + k * interval /\ now < tg /\ tg - interval <= now /\ tg < T64 /\ dl = u64 (deadline + k * interval)) /\
  (INT64_MAX <= interval -> k = 1 /\ tg = UINT64_MAX /\ dl = UINT64_MAX).
Proof.
  intros Ht Hn Hi Hd Hp Hfit. unfold compute_missed, LONG_MAX, INT64_MAX, UINT64_MAX, T63, T64 in *.
  destruct (div_bounds (now - target) interval ltac:(lia) ltac:(lia)) as [Q0 [Q1 Q2]].
  rewrite (u64_id (now - target)) by lia.
  set (q := (now - target) / interval) in *.
  assert (Qb : q <= now - target).
  { destruct (Z.eq_dec q 0); [lia|]. assert (1 * q <= interval * q) by (apply Z.mul_le_mono_nonneg_r; lia). lia. }
  rewrite (u64_id (q + 1)) by lia. rewrite (u64_id (q + 1 + prev)) by lia.
  destruct (Z.gtb_spec (q + 1 + prev) 9223372036854775807); [lia|].
  rewrite (u64_id (prev + (q + 1))) by lia.
  assert (Kb : forall j, 0 <= j -> (target + j * interval <= now <-> j < q + 1)).
  { intros j Hj. apply boundaries; lia. }
  destruct (Z.ltb_spec interval 9223372036854775807) as [Li|Li]; cbv zeta.
  - assert (M : (q + 1) * interval = interval * q + interval) by lia.
    rewrite (u64_id ((q + 1) * interval)) by lia.
    rewrite (u64_id (target + (q + 1) * interval)) by lia.
    split; [lia|]. split; [intros j Hj; replace (prev + (q + 1) - prev) with (q + 1) by lia; auto|].
    split; [intros _; repeat split; try lia|intros; lia].
  - split; [lia|]. split; [intros j Hj; replace (prev + (q + 1) - prev) with (q + 1) by lia; auto|].
    split; [intros; lia|]. intros _. split; [|auto].
    assert (q = 0); [|lia]. destruct (Z.eq_dec q 0); auto. exfalso.
    pose proof (Z.mul_le_mono_nonneg_l 1 q interval ltac:(lia) ltac:(lia)). lia.
Qed.

(* the LONG_MAX clamp: the count never exceeds LONG_MAX *)
Theorem missed_clamp target deadline interval now prev :
  0 <= target <= now -> now < T63 -> 1 <= interval < T64 ->
  0 <= prev <= LONG_MAX -> LONG_MAX < prev + (now - target) / interval + 1 ->
  fst (fst (compute_missed target deadline interval now prev)) = LONG_MAX.
Proof.
  intros Ht Hn Hi Hp Hbig. unfold compute_missed, LONG_MAX, INT64_MAX, UINT64_MAX, T63, T64 in *.
  destruct (div_bounds (now - target) interval ltac:(lia) ltac:(lia)) as [Q0 [Q1 Q2]].
  rewrite (u64_id (now - target)) by lia.
  set (q := (now - target) / interval) in *.
  assert (Qb : q <= now - target).
  { destruct (Z.eq_dec q 0); [lia|]. assert (1 * q <= interval * q) by (apply Z.mul_le_mono_nonneg_r; lia). lia. }
  rewrite (u64_id (q + 1)) by lia. rewrite (u64_id (q + 1 + prev)) by lia.
  destruct (Z.gtb_spec (q + 1 + prev) 9223372036854775807); [|lia].
  rewrite (u64_id (9223372036854775807 - prev)) by lia.
  destruct (interval <? 9223372036854775807); cbn [fst]; rewrite u64_id; lia.
Qed.
End Missed.

(* ------------------------------------------------------------------------------------------------ *)
(* _dispatch_timers_run *)
Lemma run_step_events st tidx now dr : forall e, In e (snd (run_step st tidx now dr)) ->
  exists p, e = (dr, p, now, t_target (tm st dr)).
Proof.
  intros e. unfold run_step.
  destruct (t_after (tm st dr)); [simpl; intros [<-|[]]; eauto|].
  destruct (t_cfg (tm st dr)) as [c|]; [simpl; tauto|].
  destruct (nz (t_pending (tm st dr))); [simpl; intros [<-|[]]; eauto|].
  destruct (compute_missed _ _ _ _ _) as [[cnt tg] dl].
  destruct (needs_rearm _); simpl; intros [<-|[]]; eauto.
Qed.

(* never early: whatever the population and the history, a fire event produced by the run at cached time `now`
   is for the timer in the target min slot, whose target the loop has just compared with now *)
Theorem run_never_early : forall fuel st tidx now ev st' ev' fin,
  run_loop fuel st tidx now ev = (st', ev', fin) ->
  exists new, ev' = ev ++ new /\ forall t p n tg, In (t, p, n, tg) new -> n = now /\ tg <= now.
Proof.
  induction fuel as [|fuel IH]; intros st tidx now ev st' ev' fin E; cbn [run_loop] in E.
  - inversion E; subst. exists []. rewrite app_nil_r. split; auto. intros ? ? ? ? [].
  - destruct (Z.eqb_spec (h_slot (s_heaps st tidx) DTH_TARGET_ID) 0).
    { inversion E; subst. exists []. rewrite app_nil_r. split; auto. intros ? ? ? ? []. }
    destruct (Z.gtb_spec (t_target (tm st (h_slot (s_heaps st tidx) DTH_TARGET_ID))) now) as [G|G].
    { inversion E; subst. exists []. rewrite app_nil_r. split; auto. intros ? ? ? ? []. }
    set (dr := h_slot (s_heaps st tidx) DTH_TARGET_ID) in *.
    pose proof (run_step_events st tidx now dr) as RS.
    destruct (run_step st tidx now dr) as [st1 e1]. cbn [snd] in RS.
    destruct (IH _ _ _ _ _ _ _ E) as [new [-> Hn]].
    exists (e1 ++ new). rewrite app_assoc. split; auto.
    intros t p n' tg Hin. apply in_app_or in Hin. destruct Hin as [Hin|Hin]; [|eauto].
    destruct (RS _ Hin) as [p' X]. inversion X; subst. split; auto.
Qed.

Lemma run_loop_exit : forall fuel st tidx now ev st' ev',
  run_loop fuel st tidx now ev = (st', ev', true) ->
  h_slot (s_heaps st' tidx) 0 = 0 \/ now < t_target (tm st' (h_slot (s_heaps st' tidx) 0)).
Proof.
  induction fuel as [|fuel IH]; intros st tidx now ev st' ev' E; cbn [run_loop] in E.
  - inversion E.
  - unfold DTH_TARGET_ID in E.
    destruct (Z.eqb_spec (h_slot (s_heaps st tidx) 0) 0); [inversion E; subst; auto|].
    destruct (Z.gtb_spec (t_target (tm st (h_slot (s_heaps st tidx) 0))) now) as [G|G];
      [inversion E; subst; right; lia|].
    destruct (run_step st tidx now _) as [st1 e1]. eauto.
Qed.

(* run fixpoint: when the run has left its loop, no timer stored in that heap is due *)
Theorem run_fixpoint st tidx now st' ev S :
  timers_run st tidx now = (st', ev, true) ->
  Inv (keyof (s_timers st')) S (s_heaps st' tidx) ->
  forall t, S t -> now < t_target (tm st' t).
Proof.
  intros E I t St. unfold timers_run in E.
  destruct (min_is_min _ _ _ I t St) as [S0 [K0 _]].
  destruct (run_loop_exit _ _ _ _ _ _ _ E) as [X|X].
  - rewrite X in S0. exfalso. exact (iv_null _ _ _ I S0).
  - unfold keyof in K0. simpl in K0. unfold tm in *. lia.
Qed.

(* ------------------------------------------------------------------------------------------------ *)
(* _dispatch_timers_program: the kernel timer is set to the minimum target *)
Theorem program_min st tidx now :
  0 <= now < T63 ->
  let m := h_slot (s_heaps st tidx) 0 in
  let st' := fst (program st tidx now) in
  h_np (s_heaps st' tidx) = false /\
  (m <> 0 -> now < t_target (tm st m) < INT64_MAX ->
     s_harmed st' tidx = true /\ s_ktimer st' tidx = t_target (tm st m) /\
     exists lw, snd (program st tidx now) = [(1, tidx, t_target (tm st m), lw)]) /\
  (m <> 0 -> t_target (tm st m) <= now -> s_dirty st' = true /\ s_harmed st' tidx = false) /\
  (m = 0 -> s_harmed st' tidx = false /\ (s_harmed st tidx = true -> s_ktimer st' tidx = -1)).
Proof.
  intros Hn m st'. subst st'. unfold program, get_delay, DTH_TARGET_ID, DTH_DEADLINE_ID. fold m.
  unfold INT64_MAX, T63 in *.
  destruct (Z.eqb_spec m 0) as [E0|N0].
  - cbn [fst snd]. simpl. unfold updf. rewrite Z.eqb_refl. simpl. repeat split; try tauto.
    intros Ha. rewrite Ha. simpl. unfold updf. rewrite Z.eqb_refl. reflexivity.
  - destruct (Z.leb_spec (t_target (tm st m)) now) as [L|L].
    + simpl. unfold updf. rewrite !Z.eqb_refl. simpl. repeat split; try tauto; try lia.
    + destruct (Z.ltb_spec (t_target (tm st m)) 9223372036854775807) as [B|B].
      * rewrite (u64_id (t_target (tm st m) - now)) by lia.
        rewrite Z.min_l by lia.
        destruct (Z.eqb_spec (t_target (tm st m) - now) 0); [lia|].
        destruct (Z.geb_spec (t_target (tm st m) - now) 9223372036854775807); [lia|].
        cbn [orb fst snd]. simpl. unfold updf. rewrite !Z.eqb_refl. simpl.
        replace (t_target (tm st m) - now + now) with (t_target (tm st m)) by lia.
        rewrite u64_id by lia.
        repeat split; try tauto; try lia. eexists; reflexivity.
      * assert (Z.min (u64 (t_target (tm st m) - now)) 9223372036854775807 <> 0 \/ True) by tauto.
        destruct (Z.eqb_spec (Z.min (u64 (t_target (tm st m) - now)) 9223372036854775807) 0);
        destruct (Z.geb_spec (Z.min (u64 (t_target (tm st m) - now)) 9223372036854775807) 9223372036854775807);
        cbn [orb fst snd]; simpl; unfold updf; rewrite ?Z.eqb_refl; simpl; repeat split; try tauto; try lia.
Qed.

(* ------------------------------------------------------------------------------------------------ *)
(* dispatch_source_set_timer: configure installs exactly the pending configuration and clears accumulated data *)
Definition same_vals (x y : timer) : Prop :=
  t_clock x = t_clock y /\ t_after x = t_after y /\ t_target x = t_target y /\ t_deadline x = t_deadline y /\
  t_interval x = t_interval y /\ t_pending x = t_pending y /\ t_cfg x = t_cfg y /\ t_susp x = t_susp y.

Lemma same_vals_refl x : same_vals x x. Proof. unfold same_vals; tauto. Qed.
Lemma same_vals_trans x y z : same_vals x y -> same_vals y z -> same_vals x z.
Proof. unfold same_vals; intuition congruence. Qed.

Lemma tm_set_timer_eq st t v : tm (set_timer st t v) t = v.
Proof. unfold tm, set_timer, updf; simpl. rewrite Z.eqb_refl. reflexivity. Qed.
Lemma tm_set_timer_neq st t v u : u <> t -> tm (set_timer st t v) u = tm st u.
Proof. intros. unfold tm, set_timer, updf; simpl. destruct (Z.eqb_spec u t); congruence. Qed.

Lemma disarm_vals st t u : same_vals (tm (disarm st t) u) (tm st u).
Proof.
  unfold disarm. destruct (Z.eq_dec u t) as [->|N].
  - rewrite tm_set_timer_eq. unfold same_vals; simpl. tauto.
  - rewrite tm_set_timer_neq by auto. reflexivity || apply same_vals_refl.
Qed.
Lemma tm_set_heap st i h u : tm (set_heap st i h) u = tm st u.
Proof. reflexivity. Qed.
Lemma tm_set_dirty st b u : tm (set_dirty st b) u = tm st u.
Proof. reflexivity. Qed.
Lemma arm_vals st t tidx u : same_vals (tm (arm st t tidx) u) (tm st u).
Proof.
  unfold arm. destruct (t_armed (tm st t)).
  - rewrite tm_set_dirty, tm_set_heap. apply same_vals_refl.
  - rewrite tm_set_dirty. destruct (Z.eq_dec u t) as [->|N].
    + rewrite tm_set_timer_eq, tm_set_heap, tm_set_timer_eq. unfold same_vals; simpl. tauto.
    + rewrite tm_set_timer_neq, tm_set_heap, tm_set_timer_neq by auto. apply same_vals_refl.
Qed.
Lemma resume_vals st t u : same_vals (tm (resume st t) u) (tm st u).
Proof.
  unfold resume.
  destruct (t_armed (tm st t) && _); destruct (needs_rearm (tm st t));
    repeat (eapply same_vals_trans; [apply arm_vals|]); try apply disarm_vals; apply same_vals_refl.
Qed.

Theorem configure_replaces st t c tg dl itv :
  t_cfg (tm st t) = Some (c, tg, dl, itv) ->
  let x := tm (configure st t) t in
  t_clock x = c /\ t_target x = tg /\ t_deadline x = dl /\ t_interval x = itv /\ t_pending x = 0 /\ t_cfg x = None /\
  (forall u, u <> t -> same_vals (tm (configure st t) u) (tm st u)).
Proof.
  intros E. unfold configure. rewrite E.
  set (x1 := with_pending _ 0).
  assert (V : t_clock x1 = c /\ t_target x1 = tg /\ t_deadline x1 = dl /\ t_interval x1 = itv /\ t_pending x1 = 0 /\ t_cfg x1 = None).
  { unfold x1. destruct (Z.eqb_spec c (t_clock (tm st t))) as [->|]; simpl; tauto. }
  destruct (t_armed x1).
  - cbv zeta. pose proof (resume_vals (set_timer st t x1) t t) as R. rewrite tm_set_timer_eq in R.
    unfold same_vals in R. split; [|split; [|split; [|split; [|split; [|split]]]]]; try (destruct V as [? [? [? [? [? ?]]]]]; intuition congruence).
    intros u Nu. eapply same_vals_trans; [apply resume_vals|]. rewrite tm_set_timer_neq by auto. apply same_vals_refl.
  - cbv zeta. rewrite tm_set_timer_eq. split; [|split; [|split; [|split; [|split; [|split]]]]]; try tauto.
    intros u Nu. rewrite tm_set_timer_neq by auto. apply same_vals_refl.
Qed.

(* ------------------------------------------------------------------------------------------------ *)
(* what dispatch_source_get_data reports: count bound *)
Theorem latch_count st t now :
  let x := tm st t in
  let prev := t_pending x in
  0 <= prev < T64 ->
  (* not disarmed: the count accumulated by the run *)
  (Z.land prev DISPATCH_TIMER_DISARMED_MARKER = 0 -> snd (latch st t now) = Z.shiftr prev 1) /\
  (* disarmed and due: the count is completed with the boundaries passed since *)
  (Z.land prev DISPATCH_TIMER_DISARMED_MARKER <> 0 ->
   1 <= t_target x <= now -> now < T63 -> 1 <= t_interval x < T64 -> 0 <= t_deadline x < T64 ->
   t_target x < INT64_MAX ->
   Z.shiftr prev 1 + (now - t_target x) / t_interval x + 1 <= LONG_MAX ->
   snd (latch st t now) = Z.shiftr prev 1 + ((now - t_target x) / t_interval x + 1) /\
   (t_interval x < INT64_MAX -> now < t_target (tm (fst (latch st t now)) t))) /\
  t_pending (tm (fst (latch st t now)) t) = 0.
Proof.
  intros x prev Hp. unfold latch. fold x. fold prev.
  split; [|split].
  - intros M. unfold nz. rewrite M. reflexivity.
  - intros M Ht Hn Hi Hd Hf Hfit.
    unfold nz. destruct (Z.eqb_spec (Z.land prev DISPATCH_TIMER_DISARMED_MARKER) 0); [contradiction|]. cbn [negb].
    cbn [t_target t_deadline t_interval with_pending].
    destruct (Z.ltb_spec (t_target x) INT64_MAX); [|lia]. destruct (Z.geb_spec now (t_target x)); [|lia]. cbn [andb].
    assert (P0 : 0 <= Z.shiftr prev 1) by (apply Z.shiftr_nonneg; lia).
    pose proof (missed_count (t_target x) (t_deadline x) (t_interval x) now (Z.shiftr prev 1) Ht Hn Hi Hd P0 Hfit) as MC.
    destruct (compute_missed _ _ _ _ _) as [[cnt tg'] dl']. cbv zeta in MC. destruct MC as [A [_ [B _]]].
    cbn [fst snd]. split; [lia|]. intros Li. rewrite tm_set_timer_eq. simpl. destruct (B Li) as [_ [X _]]. exact X.
  - destruct (nz _); [destruct (_ && _); [destruct (compute_missed _ _ _ _ _) as [[? ?] ?]|]|];
      cbn [fst]; rewrite tm_set_timer_eq; reflexivity.
Qed.

(* ------------------------------------------------------------------------------------------------ *)
(* dispatch_source_set_timer / dispatch_after arithmetic (src/source.c), in terms of what the dispatch_time_t denotes
   (Model/Time.v decode, shared with C12) *)
Section Cfg.
Local Ltac Zify.zify_post_hook ::= Z.div_mod_to_equations.

Definition never_armed (tg : Z) : Prop := INT64_MAX <= tg.

Theorem config_spec k start interval leeway cur_clock :
  in64 start -> in64 interval -> in64 leeway -> clocks_ok k -> 0 <= cur_clock <= 2 ->
  let '(clock, tg, dl, itv) :=
    config_create start interval leeway cur_clock (now_wall k) (now_up k) (now_mono k) in
  1 <= itv <= INT64_MAX /\ 0 <= dl <= INT64_MAX /\ 0 <= clock <= 2 /\
  match decode k start with
  | Forever => never_armed tg
  | At c v => clock = cnum c /\ tg = v /\ 1 <= tg <= MAXV /\ tg <= dl /\
              (itv < INT64_MAX -> dl - tg <= itv / 2)
  end.
Proof.
  intros Hs Hi Hl Hk Hc. unfold config_create.
  set (itv1 := if interval =? 0 then 1 else if s64 interval <? 0 then INT64_MAX else interval).
  set (lw1 := if s64 leeway <? 0 then INT64_MAX else leeway).
  assert (I1 : 1 <= itv1 <= INT64_MAX).
  { unfold itv1, in64, INT64_MAX in *. destruct (Z.eqb_spec interval 0); [lia|].
    destruct (Z.lt_ge_cases interval 9223372036854775808).
    - rewrite s64_small by lia. destruct (Z.ltb_spec interval 0); lia.
    - rewrite s64_high by lia. destruct (Z.ltb_spec (interval - 18446744073709551616) 0); lia. }
  assert (L1 : 0 <= lw1 <= INT64_MAX).
  { unfold lw1, in64, INT64_MAX in *.
    destruct (Z.lt_ge_cases leeway 9223372036854775808).
    - rewrite s64_small by lia. destruct (Z.ltb_spec leeway 0); lia.
    - rewrite s64_high by lia. destruct (Z.ltb_spec (leeway - 18446744073709551616) 0); lia. }
  clearbody itv1 lw1.
  unfold f_dispatch_time_nano2mach, DISPATCH_TIME_FOREVER, DISPATCH_TIME_NOW.
  (* the tail, for any (clock, target) *)
  assert (Tail : forall clock tg, 0 <= clock <= 2 -> (1 <= tg <= MAXV \/ never_armed tg /\ tg < 18446744073709551616) ->
    let '(c, t, dl, itv) :=
      (let '(interval0, leeway0) :=
         if negb (clock =? 2) then ((if itv1 <? 1 then 1 else itv1), lw1) else (itv1, lw1) in
       let leeway1 := if (interval0 <? INT64_MAX) && (leeway0 >? interval0 / 2) then interval0 / 2 else leeway0 in
       let deadline := if u64 (tg + leeway1) <? INT64_MAX then u64 (tg + leeway1) else INT64_MAX in
       (clock, tg, deadline, interval0)) in
    c = clock /\ t = tg /\ 1 <= itv <= INT64_MAX /\ 0 <= dl <= INT64_MAX /\
    (1 <= tg <= MAXV -> tg <= dl /\ (itv < INT64_MAX -> dl - tg <= itv / 2))).
  { intros clock tg Hcl Htg. unfold INT64_MAX, MAXV, never_armed in *.
    assert (E : (if negb (clock =? 2) then ((if itv1 <? 1 then 1 else itv1), lw1) else (itv1, lw1)) = (itv1, lw1)).
    { destruct (negb (clock =? 2)); auto. destruct (Z.ltb_spec itv1 1); [lia|auto]. }
    rewrite E. cbv zeta.
    set (lw2 := if (itv1 <? 9223372036854775807) && (lw1 >? itv1 / 2) then itv1 / 2 else lw1).
    assert (L2 : 0 <= lw2 <= 9223372036854775807 /\ (itv1 < 9223372036854775807 -> lw2 <= itv1 / 2)).
    { unfold lw2. destruct (Z.ltb_spec itv1 9223372036854775807), (Z.gtb_spec lw1 (itv1 / 2)); cbn [andb]; lia. }
    clearbody lw2.
    pose proof (u64_range (tg + lw2)) as U.
    destruct (Z.ltb_spec (u64 (tg + lw2)) 9223372036854775807) as [B|B].
    - repeat split; try lia.
      + intros. rewrite u64_id in * by lia. lia.
      + intros. rewrite u64_id in * by lia. lia.
    - repeat split; try lia; intros; rewrite u64_id in * by lia; lia. }
  destruct (Z.eqb_spec start 18446744073709551615) as [->|Ne].
  - specialize (Tail cur_clock INT64_MAX Hc ltac:(right; unfold never_armed, INT64_MAX; lia)).
    destruct (let '(interval0, leeway0) := _ in _) as [[[c t] dl] itv]. destruct Tail as (-> & -> & ? & ? & _).
    change (decode k 18446744073709551615) with Forever. unfold never_armed, INT64_MAX in *. repeat split; lia.
  - rewrite (to_clock_and_value_spec k start Hs Ne Hk).
    pose proof Hk as (Hu & Hm & Hw). unfold MAXV in *.
    destruct (decode k start) as [|c v] eqn:D.
    + set (cl := if start <? 9223372036854775808 then 0 else if start <? 13835058055282163712 then 1 else 2).
      assert (0 <= cl <= 2).
      { unfold cl. destruct (Z.ltb_spec start 9223372036854775808); [lia|]. destruct (Z.ltb_spec start 13835058055282163712); lia. }
      clearbody cl.
      change (FOREVER =? 0) with false. cbv iota.
      specialize (Tail cl FOREVER ltac:(lia) ltac:(right; unfold never_armed, INT64_MAX, FOREVER; lia)).
      destruct (let '(interval0, leeway0) := _ in _) as [[[c t] dl] itv]. destruct Tail as (-> & -> & ? & ? & _).
      unfold never_armed, FOREVER, INT64_MAX in *. repeat split; lia.
    + destruct (decode_At k start c v Hs Hk D) as (Hb & HbU & HbM & HbW). unfold MAXV, lo in Hb.
      assert (E : (let '(clock, target) :=
                     match c with Up => (0, if start =? 0 then 0 else v) | Mono => (1, if start =? 9223372036854775808 then 0 else v) | Wall => (2, v) end in
                   if target =? 0 then (clock, if clock =? 0 then now_up k else now_mono k) else (clock, target)) = (cnum c, v)).
      { destruct c; cbn [cnum].
        - destruct (HbU eq_refl) as [[-> ->]|[N ->]]; cbn; auto.
          destruct (Z.eqb_spec start 0); [lia|]. destruct (Z.eqb_spec start 0); [lia|auto].
        - destruct (HbM eq_refl) as [[-> ->]|[N ->]]; cbn; auto.
          destruct (Z.eqb_spec start 9223372036854775808); [lia|].
          destruct (Z.eqb_spec (start - 9223372036854775808) 0); [lia|auto].
        - destruct (Z.eqb_spec v 0); [lia|auto]. }
      rewrite E.
      specialize (Tail (cnum c) v ltac:(destruct c; cbn; lia) ltac:(left; unfold MAXV; destruct c; lia)).
      destruct (let '(interval0, leeway0) := _ in _) as [[[c' t] dl] itv]. destruct Tail as (-> & -> & ? & ? & T).
      destruct (T ltac:(unfold MAXV; destruct c; lia)). unfold INT64_MAX in *. repeat split; try lia; try (destruct c; cbn; lia); auto.
Qed.

Lemma leeway_clamp d :
  1000000 <= (if (if d / 10 <? 1000000 then 1000000 else d / 10) >? 60 * 1000000000 then 60 * 1000000000
              else (if d / 10 <? 1000000 then 1000000 else d / 10)) <= 60 * 1000000000.
Proof.
  destruct (Z.ltb_spec (d / 10) 1000000).
  - destruct (Z.gtb_spec 1000000 (60 * 1000000000)); lia.
  - destruct (Z.gtb_spec (d / 10) (60 * 1000000000)); lia.
Qed.

Theorem after_spec k when :
  in64 when -> clocks_ok k ->
  let r := dispatch_after_model when (now_wall k) (now_up k) (now_mono k) in
  match decode k when with
  | Forever => (when = FOREVER /\ r = AfterNever) \/
               (when <> FOREVER /\ exists c dl, r = AfterTimer c UINT64_MAX dl /\ never_armed UINT64_MAX)
  | At c v => if v <=? now k c then r = AfterNow
              else exists dl, r = AfterTimer (cnum c) v dl /\ v + NSEC_PER_MSEC <= dl <= v + 60 * NSEC_PER_SEC
  end.
Proof.
  intros Hs Hk r. subst r. unfold dispatch_after_model, DISPATCH_TIME_FOREVER, NSEC_PER_MSEC, NSEC_PER_SEC, f_dispatch_time_nano2mach.
  pose proof Hk as (Hu & Hm & Hw). unfold MAXV in *.
  destruct (Z.eqb_spec when 18446744073709551615) as [->|Ne].
  - change (decode k 18446744073709551615) with Forever. left. auto.
  - destruct (decode k when) as [|c v] eqn:D.
    + right. split; [exact Ne|].
      assert (N0 : when <> 0).
      { intros ->. unfold decode, FOREVER in D. cbn in D. discriminate. }
      unfold f_dispatch_timeout, f_dispatch_time_mach2nano.
      destruct (Z.eqb_spec when 18446744073709551615); [contradiction|]. destruct (Z.eqb_spec when 0); [contradiction|].
      rewrite (to_clock_and_value_spec k when Hs Ne Hk), D.
      set (cl := if when <? 9223372036854775808 then 0 else if when <? 13835058055282163712 then 1 else 2).
      clearbody cl. unfold FOREVER.
      assert (E : (if cl =? 2
                   then if now_wall k >=? 18446744073709551615 then 0 else u64 (18446744073709551615 - now_wall k)
                   else if (if cl =? 0 then now_up k else now_mono k) >=? 18446744073709551615 then 0
                        else u64 (18446744073709551615 - (if cl =? 0 then now_up k else now_mono k))) <> 0).
      { destruct (cl =? 2).
        - destruct (Z.geb_spec (now_wall k) 18446744073709551615); [lia|]. rewrite u64_id; lia.
        - destruct (cl =? 0).
          + destruct (Z.geb_spec (now_up k) 18446744073709551615); [lia|]. rewrite u64_id; lia.
          + destruct (Z.geb_spec (now_mono k) 18446744073709551615); [lia|]. rewrite u64_id; lia. }
      cbv zeta. match goal with |- context [if ?x =? 0 then AfterNow else _] => destruct (Z.eqb_spec x 0) as [X|_]; [contradiction|] end.
      eexists; eexists. split; [reflexivity|]. unfold never_armed, UINT64_MAX, INT64_MAX. lia.
    + destruct (decode_At k when c v Hs Hk D) as (Hb & HbU & HbM & HbW). unfold MAXV, lo in Hb.
      rewrite (timeout_spec k when c v Hs Hk D).
      destruct (Z.leb_spec v (now k c)) as [L|L].
      * rewrite Z.max_l by lia. reflexivity.
      * rewrite Z.max_r by lia. destruct (Z.eqb_spec (v - now k c) 0); [lia|].
        rewrite (to_clock_and_value_spec k when Hs Ne Hk), D.
        assert (E : match c with Up => (0, if when =? 0 then 0 else v) | Mono => (1, if when =? 9223372036854775808 then 0 else v) | Wall => (2, v) end = (cnum c, v)).
        { destruct c; cbn [cnum now] in *; auto.
          - destruct (HbU eq_refl) as [[-> ->]|[N ->]]; [lia|]. destruct (Z.eqb_spec when 0); [lia|auto].
          - destruct (HbM eq_refl) as [[-> ->]|[N ->]]; [lia|]. destruct (Z.eqb_spec when 9223372036854775808); [lia|auto]. }
        rewrite E.
        set (d := v - now k c) in *.
        assert (Hd : 0 < d < 4611686018427387904) by (unfold d; destruct c; cbn [now] in *; lia).
        pose proof (leeway_clamp d) as LC.
        set (l2 := if (if d / 10 <? 1000000 then 1000000 else d / 10) >? 60 * 1000000000 then 60 * 1000000000
                   else (if d / 10 <? 1000000 then 1000000 else d / 10)) in *.
        assert (Vb : 1 <= v <= 4611686018427387903) by (destruct c; lia).
        clearbody l2. destruct (negb (cnum c =? 2)); (eexists; split; [reflexivity|]); rewrite u64_id by lia; lia.
Qed.
End Cfg.
