(* TimerRun_proofs.v — theorems about Model/TimerRun.v *)
From Coq Require Import ZArith List Bool Lia ZifyBool.
From Verif Require Import Word Bits Tactics Gen_consts Gen_timer Heap TimerRun Heap_proofs.
Import ListNotations.
Local Open Scope Z_scope.

Definition T63 : Z := 9223372036854775808.
Definition T64 : Z := 18446744073709551616.

Section Missed.

Lemma div_bounds a b : 0 <= a -> 0 < b -> 0 <= a / b /\ b * (a / b) <= a < b * (a / b) + b.
Proof.
  intros. pose proof (Z.div_pos a b ltac:(lia) ltac:(lia)). pose proof (Z.mul_div_le a b ltac:(lia)).
  pose proof (Z.mul_succ_div_gt a b ltac:(lia)). lia.
Qed.

(* number of interval boundaries target + k * interval (k >= 0) that are <= now *)
Lemma boundaries target interval now k : target <= now -> 0 < interval -> 0 <= k ->
  (target + k * interval <= now <-> k < (now - target) / interval + 1).
Proof.
  intros Hn Hi Hk. destruct (div_bounds (now - target) interval ltac:(lia) Hi) as [Q0 [Q1 Q2]].
  set (q := (now - target) / interval) in *. split; intro H.
  - destruct (Z.lt_ge_cases k (q + 1)); auto. exfalso.
    assert (interval * (q + 1) <= k * interval) by (rewrite (Z.mul_comm k); apply Z.mul_le_mono_nonneg_l; lia). lia.
  - assert (k * interval <= interval * q) by (rewrite (Z.mul_comm k); apply Z.mul_le_mono_nonneg_l; lia). lia.
Qed.

Theorem missed_count target deadline interval now prev :
  1 <= target <= now -> now < T63 -> 1 <= interval < T64 -> 0 <= deadline < T64 ->
  0 <= prev -> prev + (now - target) / interval + 1 <= LONG_MAX ->
  let '(r, tg, dl) := compute_missed target deadline interval now prev in
  let k := (now - target) / interval + 1 in
  r - prev = k /\
  (forall j, 0 <= j -> (target + j * interval <= now <-> j < r - prev)) /\
  (interval < INT64_MAX ->
     tg = target + k * interval /\ now < tg /\ tg - interval <= now /\ tg < T64 /\ dl = u64 (deadline + k * interval)) /\
  (INT64_MAX <= interval -> k = 1 /\ tg = UINT64_MAX /\ dl = UINT64_MAX).
Proof.
  intros Ht Hn Hi Hd Hp Hfit. unfold compute_missed, LONG_MAX, INT64_MAX, UINT64_MAX, T63, T64 in *.
  destruct (div_bounds (now - target) interval ltac:(lia) ltac:(lia)) as [Q0 [Q1 Q2]].
  rewrite (u64_id (now - target)) by lia.
  set (q := (now - target) / interval) in *.
  assert (Qb : q <= now - target).
  { destruct (Z.eq_dec q 0); [lia|]. assert (1 * q <= interval * q) by (apply Z.mul_le_mono_nonneg_r; lia). lia. }
  rewrite (u64_id (q + 1)) by lia. rewrite (u64_id (q + 1 + prev)) by lia.
  destruct (Z.gtb_spec (q + 1 + prev) 9223372036854775807); [lia|].
  rewrite (u64_id (prev + (q + 1))) by lia.
  assert (Kb : forall j, 0 <= j -> (target + j * interval <= now <-> j < q + 1)).
  { intros j Hj. apply boundaries; lia. }
  destruct (Z.ltb_spec interval 9223372036854775807) as [Li|Li]; cbv zeta.
  - assert (M : (q + 1) * interval = interval * q + interval) by lia.
    rewrite (u64_id ((q + 1) * interval)) by lia.
    rewrite (u64_id (target + (q + 1) * interval)) by lia.
    split; [lia|]. split; [intros j Hj; replace (prev + (q + 1) - prev) with (q + 1) by lia; auto|].
    split; [intros _; repeat split; try lia|intros; lia].
  - split; [lia|]. split; [intros j Hj; replace (prev + (q + 1) - prev) with (q + 1) by lia; auto|].
    split; [intros; lia|]. intros _. split; [|auto].
    assert (q = 0); [|lia]. destruct (Z.eq_dec q 0); auto. exfalso.
    pose proof (Z.mul_le_mono_nonneg_l 1 q interval ltac:(lia) ltac:(lia)). lia.
Qed.

(* the LONG_MAX clamp: the count never exceeds LONG_MAX *)
Theorem missed_clamp target deadline interval now prev :
  0 <= target <= now -> now < T63 -> 1 <= interval < T64 ->
  0 <= prev <= LONG_MAX -> LONG_MAX < prev + (now - target) / interval + 1 ->
  fst (fst (compute_missed target deadline interval now prev)) = LONG_MAX.
Proof.
  intros Ht Hn Hi Hp Hbig. unfold compute_missed, LONG_MAX, INT64_MAX, UINT64_MAX, T63, T64 in *.
  destruct (div_bounds (now - target) interval ltac:(lia) ltac:(lia)) as [Q0 [Q1 Q2]].
  rewrite (u64_id (now - target)) by lia.
  set (q := (now - target) / interval) in *.
  assert (Qb : q <= now - target).
  { destruct (Z.eq_dec q 0); [lia|]. assert (1 * q <= interval * q) by (apply Z.mul_le_mono_nonneg_r; lia). lia. }
  rewrite (u64_id (q + 1)) by lia. rewrite (u64_id (q + 1 + prev)) by lia.
  destruct (Z.gtb_spec (q + 1 + prev) 9223372036854775807); [|lia].
  rewrite (u64_id (9223372036854775807 - prev)) by lia.
  destruct (interval <? 9223372036854775807); cbn [fst]; rewrite u64_id; lia.
Qed.
End Missed.

(* ------------------------------------------------------------------------------------------------ *)
(* _dispatch_timers_run *)
Lemma run_step_events st tidx now dr : forall e, In e (snd (run_step st tidx now dr)) ->
  exists p, e = (dr, p, now, t_target (tm st dr)).
Proof.
  intros e. unfold run_step.
  destruct (t_after (tm st dr)); [simpl; intros [<-|[]]; eauto|].
  destruct (t_cfg (tm st dr)) as [c|]; [simpl; tauto|].
  destruct (nz (t_pending (tm st dr))); [simpl; intros [<-|[]]; eauto|].
  destruct (compute_missed _ _ _ _ _) as [[cnt tg] dl].
  destruct (needs_rearm _); simpl; intros [<-|[]]; eauto.
Qed.

(* never early: whatever the population and the history, a fire event produced by the run at cached time `now`
   is for the timer in the target min slot, whose target the loop has just compared with now *)
Theorem run_never_early : forall fuel st tidx now ev st' ev' fin,
  run_loop fuel st tidx now ev = (st', ev', fin) ->
  exists new, ev' = ev ++ new /\ forall t p n tg, In (t, p, n, tg) new -> n = now /\ tg <= now.
Proof.
  induction fuel as [|fuel IH]; intros st tidx now ev st' ev' fin E; cbn [run_loop] in E.
  - inversion E; subst. exists []. rewrite app_nil_r. split; auto. intros ? ? ? ? [].
  - destruct (Z.eqb_spec (h_slot (s_heaps st tidx) DTH_TARGET_ID) 0).
    { inversion E; subst. exists []. rewrite app_nil_r. split; auto. intros ? ? ? ? []. }
    destruct (Z.gtb_spec (t_target (tm st (h_slot (s_heaps st tidx) DTH_TARGET_ID))) now) as [G|G].
    { inversion E; subst. exists []. rewrite app_nil_r. split; auto. intros ? ? ? ? []. }
    set (dr := h_slot (s_heaps st tidx) DTH_TARGET_ID) in *.
    pose proof (run_step_events st tidx now dr) as RS.
    destruct (run_step st tidx now dr) as [st1 e1]. cbn [snd] in RS.
    destruct (IH _ _ _ _ _ _ _ E) as [new [-> Hn]].
    exists (e1 ++ new). rewrite app_assoc. split; auto.
    intros t p n' tg Hin. apply in_app_or in Hin. destruct Hin as [Hin|Hin]; [|eauto].
    destruct (RS _ Hin) as [p' X]. inversion X; subst. split; auto.
Qed.

Lemma run_loop_exit : forall fuel st tidx now ev st' ev',
  run_loop fuel st tidx now ev = (st', ev', true) ->
  h_slot (s_heaps st' tidx) 0 = 0 \/ now < t_target (tm st' (h_slot (s_heaps st' tidx) 0)).
Proof.
  induction fuel as [|fuel IH]; intros st tidx now ev st' ev' E; cbn [run_loop] in E.
  - inversion E.
  - unfold DTH_TARGET_ID in E.
    destruct (Z.eqb_spec (h_slot (s_heaps st tidx) 0) 0); [inversion E; subst; auto|].
    destruct (Z.gtb_spec (t_target (tm st (h_slot (s_heaps st tidx) 0))) now) as [G|G];
      [inversion E; subst; right; lia|].
    destruct (run_step st tidx now _) as [st1 e1]. eauto.
Qed.

(* run fixpoint: when the run has left its loop, no timer stored in that heap is due *)
Theorem run_fixpoint st tidx now st' ev S :
  timers_run st tidx now = (st', ev, true) ->
  Inv (keyof (s_timers st')) S (s_heaps st' tidx) ->
  forall t, S t -> now < t_target (tm st' t).
Proof.
  intros E I t St. unfold timers_run in E.
  destruct (min_is_min _ _ _ I t St) as [S0 [K0 _]].
  destruct (run_loop_exit _ _ _ _ _ _ _ E) as [X|X].
  - rewrite X in S0. exfalso. exact (iv_null _ _ _ I S0).
  - unfold keyof in K0. simpl in K0. unfold tm in *. lia.
Qed.

(* ------------------------------------------------------------------------------------------------ *)
(* _dispatch_timers_program: the kernel timer is set to the minimum target *)
Theorem program_min st tidx now :
  0 <= now < T63 ->
  let m := h_slot (s_heaps st tidx) 0 in
  let st' := fst (program st tidx now) in
  h_np (s_heaps st' tidx) = false /\
  (m <> 0 -> now < t_target (tm st m) < INT64_MAX ->
     s_harmed st' tidx = true /\ s_ktimer st' tidx = t_target (tm st m) /\
     exists lw, snd (program st tidx now) = [(1, tidx, t_target (tm st m), lw)]) /\
  (m <> 0 -> t_target (tm st m) <= now -> s_dirty st' = true /\ s_harmed st' tidx = false) /\
  (m = 0 -> s_harmed st' tidx = false /\ (s_harmed st tidx = true -> s_ktimer st' tidx = -1)).
Proof.
  intros Hn m st'. subst st'. unfold program, get_delay, DTH_TARGET_ID, DTH_DEADLINE_ID. fold m.
  unfold INT64_MAX, T63 in *.
  destruct (Z.eqb_spec m 0) as [E0|N0].
  - cbn [fst snd]. simpl. unfold updf. rewrite Z.eqb_refl. simpl. repeat split; try tauto.
    intros Ha. rewrite Ha. simpl. unfold updf. rewrite Z.eqb_refl. reflexivity.
  - destruct (Z.leb_spec (t_target (tm st m)) now) as [L|L].
    + simpl. unfold updf. rewrite !Z.eqb_refl. simpl. repeat split; try tauto; try lia.
    + destruct (Z.ltb_spec (t_target (tm st m)) 9223372036854775807) as [B|B].
      * rewrite (u64_id (t_target (tm st m) - now)) by lia.
        rewrite Z.min_l by lia.
        destruct (Z.eqb_spec (t_target (tm st m) - now) 0); [lia|].
        destruct (Z.geb_spec (t_target (tm st m) - now) 9223372036854775807); [lia|].
        cbn [orb fst snd]. simpl. unfold updf. rewrite !Z.eqb_refl. simpl.
        replace (t_target (tm st m) - now + now) with (t_target (tm st m)) by lia.
        rewrite u64_id by lia.
        repeat split; try tauto; try lia. eexists; reflexivity.
      * assert (Z.min (u64 (t_target (tm st m) - now)) 9223372036854775807 <> 0 \/ True) by tauto.
        destruct (Z.eqb_spec (Z.min (u64 (t_target (tm st m) - now)) 9223372036854775807) 0);
        destruct (Z.geb_spec (Z.min (u64 (t_target (tm st m) - now)) 9223372036854775807) 9223372036854775807);
        cbn [orb fst snd]; simpl; unfold updf; rewrite ?Z.eqb_refl; simpl; repeat split; try tauto; try lia.
Qed.

(* ------------------------------------------------------------------------------------------------ *)
(* dispatch_source_set_timer: configure installs exactly the pending configuration and clears accumulated data *)
Definition same_vals (x y : timer) : Prop :=
  t_clock x = t_clock y /\ t_after x = t_after y /\ t_target x = t_target y /\ t_deadline x = t_deadline y /\
  t_interval x = t_interval y /\ t_pending x = t_pending y /\ t_cfg x = t_cfg y /\ t_susp x = t_susp y.

Lemma same_vals_refl x : same_vals x x. Proof. unfold same_vals; tauto. Qed.
Lemma same_vals_trans x y z : same_vals x y -> same_vals y z -> same_vals x z.
Proof. unfold same_vals; intuition congruence. Qed.

Lemma tm_set_timer_eq st t v : tm (set_timer st t v) t = v.
Proof. unfold tm, set_timer, updf; simpl. rewrite Z.eqb_refl. reflexivity. Qed.
Lemma tm_set_timer_neq st t v u : u <> t -> tm (set_timer st t v) u = tm st u.
Proof. intros. unfold tm, set_timer, updf; simpl. destruct (Z.eqb_spec u t); congruence. Qed.

Lemma disarm_vals st t u : same_vals (tm (disarm st t) u) (tm st u).
Proof.
  unfold disarm. destruct (Z.eq_dec u t) as [->|N].
  - rewrite tm_set_timer_eq. unfold same_vals; simpl. tauto.
  - rewrite tm_set_timer_neq by auto. reflexivity || apply same_vals_refl.
Qed.
Lemma tm_set_heap st i h u : tm (set_heap st i h) u = tm st u.
Proof. reflexivity. Qed.
Lemma tm_set_dirty st b u : tm (set_dirty st b) u = tm st u.
Proof. reflexivity. Qed.
Lemma arm_vals st t tidx u : same_vals (tm (arm st t tidx) u) (tm st u).
Proof.
  unfold arm. destruct (t_armed (tm st t)).
  - rewrite tm_set_dirty, tm_set_heap. apply same_vals_refl.
  - rewrite tm_set_dirty. destruct (Z.eq_dec u t) as [->|N].
    + rewrite tm_set_timer_eq, tm_set_heap, tm_set_timer_eq. unfold same_vals; simpl. tauto.
    + rewrite tm_set_timer_neq, tm_set_heap, tm_set_timer_neq by auto. apply same_vals_refl.
Qed.
Lemma resume_vals st t u : same_vals (tm (resume st t) u) (tm st u).
Proof.
  unfold resume.
  destruct (t_armed (tm st t) && _); destruct (needs_rearm (tm st t));
    repeat (eapply same_vals_trans; [apply arm_vals|]); try apply disarm_vals; apply same_vals_refl.
Qed.

Theorem configure_replaces st t c tg dl itv :
  t_cfg (tm st t) = Some (c, tg, dl, itv) ->
  let x := tm (configure st t) t in
  t_clock x = c /\ t_target x = tg /\ t_deadline x = dl /\ t_interval x = itv /\ t_pending x = 0 /\ t_cfg x = None /\
  (forall u, u <> t -> same_vals (tm (configure st t) u) (tm st u)).
Proof.
  intros E. unfold configure. rewrite E.
  set (x1 := with_pending _ 0).
  assert (V : t_clock x1 = c /\ t_target x1 = tg /\ t_deadline x1 = dl /\ t_interval x1 = itv /\ t_pending x1 = 0 /\ t_cfg x1 = None).
  { unfold x1. destruct (Z.eqb_spec c (t_clock (tm st t))) as [->|]; simpl; tauto. }
  destruct (t_armed x1).
  - cbv zeta. pose proof (resume_vals (set_timer st t x1) t t) as R. rewrite tm_set_timer_eq in R.
    unfold same_vals in R. split; [|split; [|split; [|split; [|split; [|split]]]]]; try (destruct V as [? [? [? [? [? ?]]]]]; intuition congruence).
    intros u Nu. eapply same_vals_trans; [apply resume_vals|]. rewrite tm_set_timer_neq by auto. apply same_vals_refl.
  - cbv zeta. rewrite tm_set_timer_eq. split; [|split; [|split; [|split; [|split; [|split]]]]]; try tauto.
    intros u Nu. rewrite tm_set_timer_neq by auto. apply same_vals_refl.
Qed.

(* ------------------------------------------------------------------------------------------------ *)
(* what dispatch_source_get_data reports: count bound *)
Theorem latch_count st t now :
  let x := tm st t in
  let prev := t_pending x in
  0 <= prev < T64 ->
  (* not disarmed: the count accumulated by the run *)
  (Z.land prev DISPATCH_TIMER_DISARMED_MARKER = 0 -> snd (latch st t now) = Z.shiftr prev 1) /\
  (* disarmed and due: the count is completed with the boundaries passed since *)
  (Z.land prev DISPATCH_TIMER_DISARMED_MARKER <> 0 ->
   1 <= t_target x <= now -> now < T63 -> 1 <= t_interval x < T64 -> 0 <= t_deadline x < T64 ->
   t_target x < INT64_MAX ->
   Z.shiftr prev 1 + (now - t_target x) / t_interval x + 1 <= LONG_MAX ->
   snd (latch st t now) = Z.shiftr prev 1 + ((now - t_target x) / t_interval x + 1) /\
   (t_interval x < INT64_MAX -> now < t_target (tm (fst (latch st t now)) t))) /\
  t_pending (tm (fst (latch st t now)) t) = 0.
Proof.
  intros x prev Hp. unfold latch. fold x. fold prev.
  split; [|split].
  - intros M. unfold nz. rewrite M. reflexivity.
  - intros M Ht Hn Hi Hd Hf Hfit.
    unfold nz. destruct (Z.eqb_spec (Z.land prev DISPATCH_TIMER_DISARMED_MARKER) 0); [contradiction|]. cbn [negb].
    cbn [t_target t_deadline t_interval with_pending].
    destruct (Z.ltb_spec (t_target x) INT64_MAX); [|lia]. destruct (Z.geb_spec now (t_target x)); [|lia]. cbn [andb].
    assert (P0 : 0 <= Z.shiftr prev 1) by (apply Z.shiftr_nonneg; lia).
    pose proof (missed_count (t_target x) (t_deadline x) (t_interval x) now (Z.shiftr prev 1) Ht Hn Hi Hd P0 Hfit) as MC.
    destruct (compute_missed _ _ _ _ _) as [[cnt tg'] dl']. cbv zeta in MC. destruct MC as [A [_ [B _]]].
    cbn [fst snd]. split; [lia|]. intros Li. rewrite tm_set_timer_eq. simpl. destruct (B Li) as [_ [X _]]. exact X.
  - destruct (nz _); [destruct (_ && _); [destruct (compute_missed _ _ _ _ _) as [[? ?] ?]|]|];
      cbn [fst]; rewrite tm_set_timer_eq; reflexivity.
Qed.
