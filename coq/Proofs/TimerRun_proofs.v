(* TimerRun_proofs.v — theorems about Model/TimerRun.v *)
From Coq Require Import ZArith List Bool Lia ZifyBool Znumtheory.
From Verif Require Import Word Bits Tactics Gen_consts Gen_time Gen_timer Time Time_proofs Heap TimerRun Heap_proofs.
Import ListNotations.
Local Open Scope Z_scope.

Definition T63 : Z := 9223372036854775808.
Definition T64 : Z := 18446744073709551616.

Section Missed.

Lemma div_bounds a b : 0 <= a -> 0 < b -> 0 <= a / b /\ b * (a / b) <= a < b * (a / b) + b.
Proof.
  intros. pose proof (Z.div_pos a b ltac:(lia) ltac:(lia)). pose proof (Z.mul_div_le a b ltac:(lia)).
  pose proof (Z.mul_succ_div_gt a b ltac:(lia)). lia.
Qed.

(* number of interval boundaries target + k * interval (k >= 0) that are <= now *)
Lemma boundaries target interval now k : target <= now -> 0 < interval -> 0 <= k ->
  (target + k * interval <= now <-> k < (now - target) / interval + 1).
Proof.
  intros Hn Hi Hk. destruct (div_bounds (now - target) interval ltac:(lia) Hi) as [Q0 [Q1 Q2]].
  set (q := (now - target) / interval) in *. split; intro H.
  - destruct (Z.lt_ge_cases k (q + 1)); auto. exfalso.
    assert (interval * (q + 1) <= k * interval) by (rewrite (Z.mul_comm k); apply Z.mul_le_mono_nonneg_l; lia). lia.
  - assert (k * interval <= interval * q) by (rewrite (Z.mul_comm k); apply Z.mul_le_mono_nonneg_l; lia). lia.
Qed.

Theorem missed_count target deadline interval now prev :
  1 <= target <= now -> now < T63 -> 1 <= interval < T64 -> 0 <= deadline < T64 ->
  0 <= prev -> prev + (now - target) / interval + 1 <= LONG_MAX ->
  let '(r, tg, dl) := compute_missed target deadline interval now prev in
  let k := (now - target) / interval + 1 in
  r - prev = k /\
  (forall j, 0 <= j -> (target + j * interval <= now <-> j < r - prev)) /\
  (interval < INT64_MAX ->
     tg = target + k * interval /\ now < tg /\ tg - interval <= now /\ tg < T64 /\ dl = u64 (deadline + k * interval)) /\
  (INT64_MAX <= interval -> k = 1 /\ tg = UINT64_MAX /\ dl = UINT64_MAX).
Proof.
  intros Ht Hn Hi Hd Hp Hfit. unfold compute_missed, LONG_MAX, INT64_MAX, UINT64_MAX, T63, T64 in *.
  destruct (div_bounds (now - target) interval ltac:(lia) ltac:(lia)) as [Q0 [Q1 Q2]].
  rewrite (u64_id (now - target)) by lia.
  set (q := (now - target) / interval) in *.
  assert (Qb : q <= now - target).
  { destruct (Z.eq_dec q 0); [lia|]. assert (1 * q <= interval * q) by (apply Z.mul_le_mono_nonneg_r; lia). lia. }
  rewrite (u64_id (q + 1)) by lia. rewrite (u64_id (q + 1 + prev)) by lia.
  destruct (Z.gtb_spec (q + 1 + prev) 9223372036854775807); [lia|].
  rewrite (u64_id (prev + (q + 1))) by lia.
  assert (Kb : forall j, 0 <= j -> (target + j * interval <= now <-> j < q + 1)).
  { intros j Hj. apply boundaries; lia. }
  destruct (Z.ltb_spec interval 9223372036854775807) as [Li|Li]; cbv zeta.
  - assert (M : (q + 1) * interval = interval * q + interval) by lia.
    rewrite (u64_id ((q + 1) * interval)) by lia.
    rewrite (u64_id (target + (q + 1) * interval)) by lia.
    split; [lia|]. split; [intros j Hj; replace (prev + (q + 1) - prev) with (q + 1) by lia; auto|].
    split; [intros _; repeat split; try lia|intros; lia].
  - split; [lia|]. split; [intros j Hj; replace (prev + (q + 1) - prev) with (q + 1) by lia; auto|].
    split; [intros; lia|]. intros _. split; [|auto].
    assert (q = 0); [|lia]. destruct (Z.eq_dec q 0); auto. exfalso.
    pose proof (Z.mul_le_mono_nonneg_l 1 q interval ltac:(lia) ltac:(lia)). lia.
Qed.

(* the LONG_MAX clamp: the count never exceeds LONG_MAX *)
Theorem missed_clamp target deadline interval now prev :
  0 <= target <= now -> now < T63 -> 1 <= interval < T64 ->
  0 <= prev <= LONG_MAX -> LONG_MAX < prev + (now - target) / interval + 1 ->
  fst (fst (compute_missed target deadline interval now prev)) = LONG_MAX.
Proof.
  intros Ht Hn Hi Hp Hbig. unfold compute_missed, LONG_MAX, INT64_MAX, UINT64_MAX, T63, T64 in *.
  destruct (div_bounds (now - target) interval ltac:(lia) ltac:(lia)) as [Q0 [Q1 Q2]].
  rewrite (u64_id (now - target)) by lia.
  set (q := (now - target) / interval) in *.
  assert (Qb : q <= now - target).
  { destruct (Z.eq_dec q 0); [lia|]. assert (1 * q <= interval * q) by (apply Z.mul_le_mono_nonneg_r; lia). lia. }
  rewrite (u64_id (q + 1)) by lia. rewrite (u64_id (q + 1 + prev)) by lia.
  destruct (Z.gtb_spec (q + 1 + prev) 9223372036854775807); [|lia].
  rewrite (u64_id (9223372036854775807 - prev)) by lia.
  destruct (interval <? 9223372036854775807); cbn [fst]; rewrite u64_id; lia.
Qed.
End Missed.

(* ------------------------------------------------------------------------------------------------ *)
(* _dispatch_timers_run *)
Lemma run_step_events st tidx now dr : forall e, In e (snd (run_step st tidx now dr)) ->
  exists p, e = (dr, p, now, t_target (tm st dr)).
Proof.
  intros e. unfold run_step.
  destruct (t_after (tm st dr)); [simpl; intros [<-|[]]; eauto|].
  destruct (t_cfg (tm st dr)) as [c|]; [simpl; tauto|].
  destruct (nz (t_pending (tm st dr))); [simpl; intros [<-|[]]; eauto|].
  destruct (compute_missed _ _ _ _ _) as [[cnt tg] dl].
  destruct (needs_rearm _); simpl; intros [<-|[]]; eauto.
Qed.

(* never early: whatever the population and the history, a fire event produced by the run at cached time `now`
   is for the timer in the target min slot, whose target the loop has just compared with now *)
Theorem run_never_early : forall fuel st tidx now ev st' ev' fin,
  run_loop fuel st tidx now ev = (st', ev', fin) ->
  exists new, ev' = ev ++ new /\ forall t p n tg, In (t, p, n, tg) new -> n = now /\ tg <= now.
Proof.
  induction fuel as [|fuel IH]; intros st tidx now ev st' ev' fin E; cbn [run_loop] in E.
  - inversion E; subst. exists []. rewrite app_nil_r. split; auto. intros ? ? ? ? [].
  - destruct (Z.eqb_spec (h_slot (s_heaps st tidx) DTH_TARGET_ID) 0).
    { inversion E; subst. exists []. rewrite app_nil_r. split; auto. intros ? ? ? ? []. }
    destruct (Z.gtb_spec (t_target (tm st (h_slot (s_heaps st tidx) DTH_TARGET_ID))) now) as [G|G].
    { inversion E; subst. exists []. rewrite app_nil_r. split; auto. intros ? ? ? ? []. }
    set (dr := h_slot (s_heaps st tidx) DTH_TARGET_ID) in *.
    pose proof (run_step_events st tidx now dr) as RS.
    destruct (run_step st tidx now dr) as [st1 e1]. cbn [snd] in RS.
    destruct (IH _ _ _ _ _ _ _ E) as [new [-> Hn]].
    exists (e1 ++ new). rewrite app_assoc. split; auto.
    intros t p n' tg Hin. apply in_app_or in Hin. destruct Hin as [Hin|Hin]; [|eauto].
    destruct (RS _ Hin) as [p' X]. inversion X; subst. split; auto.
Qed.

Lemma run_loop_exit : forall fuel st tidx now ev st' ev',
  run_loop fuel st tidx now ev = (st', ev', true) ->
  h_slot (s_heaps st' tidx) 0 = 0 \/ now < t_target (tm st' (h_slot (s_heaps st' tidx) 0)).
Proof.
  induction fuel as [|fuel IH]; intros st tidx now ev st' ev' E; cbn [run_loop] in E.
  - inversion E.
  - unfold DTH_TARGET_ID in E.
    destruct (Z.eqb_spec (h_slot (s_heaps st tidx) 0) 0); [inversion E; subst; auto|].
    destruct (Z.gtb_spec (t_target (tm st (h_slot (s_heaps st tidx) 0))) now) as [G|G];
      [inversion E; subst; right; lia|].
    destruct (run_step st tidx now _) as [st1 e1]. eauto.
Qed.

(* run fixpoint: when the run has left its loop, no timer stored in that heap is due *)
Theorem run_fixpoint st tidx now st' ev S :
  timers_run st tidx now = (st', ev, true) ->
  Inv (keyof (s_timers st')) S (s_heaps st' tidx) ->
  forall t, S t -> now < t_target (tm st' t).
Proof.
  intros E I t St. unfold timers_run in E.
  destruct (min_is_min _ _ _ I t St) as [S0 [K0 _]].
  destruct (run_loop_exit _ _ _ _ _ _ _ E) as [X|X].
  - rewrite X in S0. exfalso. exact (iv_null _ _ _ I S0).
  - unfold keyof in K0. simpl in K0. unfold tm in *. lia.
Qed.

(* ------------------------------------------------------------------------------------------------ *)
(* _dispatch_timers_program: the kernel timer is set to the minimum target *)
Theorem program_min st tidx now :
  0 <= now < T63 ->
  let m := h_slot (s_heaps st tidx) 0 in
  let st' := fst (program st tidx now) in
  h_np (s_heaps st' tidx) = false /\
  (m <> 0 -> now < t_target (tm st m) < INT64_MAX ->
     s_harmed st' tidx = true /\ s_ktimer st' tidx = t_target (tm st m) /\
     exists lw, snd (program st tidx now) = [(1, tidx, t_target (tm st m), lw)]) /\
  (m <> 0 -> t_target (tm st m) <= now -> s_dirty st' = true /\ s_harmed st' tidx = false) /\
  (m = 0 -> s_harmed st' tidx = false /\ (s_harmed st tidx = true -> s_ktimer st' tidx = -1)).
Proof.
  intros Hn m st'. subst st'. unfold program, get_delay, DTH_TARGET_ID, DTH_DEADLINE_ID. fold m.
  unfold INT64_MAX, T63 in *.
  destruct (Z.eqb_spec m 0) as [E0|N0].
  - cbn [fst snd]. simpl. unfold updf. rewrite Z.eqb_refl. simpl. repeat split; try tauto.
    intros Ha. rewrite Ha. simpl. unfold updf. rewrite Z.eqb_refl. reflexivity.
  - destruct (Z.leb_spec (t_target (tm st m)) now) as [L|L].
    + simpl. unfold updf. rewrite !Z.eqb_refl. simpl. repeat split; try tauto; try lia.
    + destruct (Z.ltb_spec (t_target (tm st m)) 9223372036854775807) as [B|B].
      * rewrite (u64_id (t_target (tm st m) - now)) by lia.
        rewrite Z.min_l by lia.
        destruct (Z.eqb_spec (t_target (tm st m) - now) 0); [lia|].
        destruct (Z.geb_spec (t_target (tm st m) - now) 9223372036854775807); [lia|].
        cbn [orb fst snd]. simpl. unfold updf. rewrite !Z.eqb_refl. simpl.
        replace (t_target (tm st m) - now + now) with (t_target (tm st m)) by lia.
        rewrite u64_id by lia.
        repeat split; try tauto; try lia. eexists; reflexivity.
      * assert (Z.min (u64 (t_target (tm st m) - now)) 9223372036854775807 <> 0 \/ True) by tauto.
        destruct (Z.eqb_spec (Z.min (u64 (t_target (tm st m) - now)) 9223372036854775807) 0);
        destruct (Z.geb_spec (Z.min (u64 (t_target (tm st m) - now)) 9223372036854775807) 9223372036854775807);
        cbn [orb fst snd]; simpl; unfold updf; rewrite ?Z.eqb_refl; simpl; repeat split; try tauto; try lia.
Qed.

(* ------------------------------------------------------------------------------------------------ *)
(* dispatch_source_set_timer: configure installs exactly the pending configuration and clears accumulated data *)
Definition same_vals (x y : timer) : Prop :=
  t_clock x = t_clock y /\ t_after x = t_after y /\ t_target x = t_target y /\ t_deadline x = t_deadline y /\
  t_interval x = t_interval y /\ t_pending x = t_pending y /\ t_cfg x = t_cfg y /\ t_susp x = t_susp y.

Lemma same_vals_refl x : same_vals x x. Proof. unfold same_vals; tauto. Qed.
Lemma same_vals_trans x y z : same_vals x y -> same_vals y z -> same_vals x z.
Proof. unfold same_vals; intuition congruence. Qed.

Lemma tm_set_timer_eq st t v : tm (set_timer st t v) t = v.
Proof. unfold tm, set_timer, updf; simpl. rewrite Z.eqb_refl. reflexivity. Qed.
Lemma tm_set_timer_neq st t v u : u <> t -> tm (set_timer st t v) u = tm st u.
Proof. intros. unfold tm, set_timer, updf; simpl. destruct (Z.eqb_spec u t); congruence. Qed.

Lemma disarm_vals st t u : same_vals (tm (disarm st t) u) (tm st u).
Proof.
  unfold disarm. destruct (Z.eq_dec u t) as [->|N].
  - rewrite tm_set_timer_eq. unfold same_vals; simpl. tauto.
  - rewrite tm_set_timer_neq by auto. reflexivity || apply same_vals_refl.
Qed.
Lemma tm_set_heap st i h u : tm (set_heap st i h) u = tm st u.
Proof. reflexivity. Qed.
Lemma tm_set_dirty st b u : tm (set_dirty st b) u = tm st u.
Proof. reflexivity. Qed.
Lemma arm_vals st t tidx u : same_vals (tm (arm st t tidx) u) (tm st u).
Proof.
  unfold arm. destruct (t_armed (tm st t)).
  - rewrite tm_set_dirty, tm_set_heap. apply same_vals_refl.
  - rewrite tm_set_dirty. destruct (Z.eq_dec u t) as [->|N].
    + rewrite tm_set_timer_eq, tm_set_heap, tm_set_timer_eq. unfold same_vals; simpl. tauto.
    + rewrite tm_set_timer_neq, tm_set_heap, tm_set_timer_neq by auto. apply same_vals_refl.
Qed.
Lemma resume_vals st t u : same_vals (tm (resume st t) u) (tm st u).
Proof.
  unfold resume.
  destruct (t_armed (tm st t) && _); destruct (needs_rearm (tm st t));
    repeat (eapply same_vals_trans; [apply arm_vals|]); try apply disarm_vals; apply same_vals_refl.
Qed.

Theorem configure_replaces st t c tg dl itv :
  t_cfg (tm st t) = Some (c, tg, dl, itv) ->
  let x := tm (configure st t) t in
  t_clock x = c /\ t_target x = tg /\ t_deadline x = dl /\ t_interval x = itv /\ t_pending x = 0 /\ t_cfg x = None /\
  (forall u, u <> t -> same_vals (tm (configure st t) u) (tm st u)).
Proof.
  intros E. unfold configure. rewrite E.
  set (x1 := with_pending _ 0).
  assert (V : t_clock x1 = c /\ t_target x1 = tg /\ t_deadline x1 = dl /\ t_interval x1 = itv /\ t_pending x1 = 0 /\ t_cfg x1 = None).
  { unfold x1. destruct (Z.eqb_spec c (t_clock (tm st t))) as [->|]; simpl; tauto. }
  destruct (t_armed x1).
  - cbv zeta. pose proof (resume_vals (set_timer st t x1) t t) as R. rewrite tm_set_timer_eq in R.
    unfold same_vals in R. split; [|split; [|split; [|split; [|split; [|split]]]]]; try (destruct V as [? [? [? [? [? ?]]]]]; intuition congruence).
    intros u Nu. eapply same_vals_trans; [apply resume_vals|]. rewrite tm_set_timer_neq by auto. apply same_vals_refl.
  - cbv zeta. rewrite tm_set_timer_eq. split; [|split; [|split; [|split; [|split; [|split]]]]]; try tauto.
    intros u Nu. rewrite tm_set_timer_neq by auto. apply same_vals_refl.
Qed.

(* ------------------------------------------------------------------------------------------------ *)
(* what dispatch_source_get_data reports: count bound *)
Theorem latch_count st t now :
  let x := tm st t in
  let prev := t_pending x in
  0 <= prev < T64 ->
  (* not disarmed: the count accumulated by the run *)
  (Z.land prev DISPATCH_TIMER_DISARMED_MARKER = 0 -> snd (latch st t now) = Z.shiftr prev 1) /\
  (* disarmed and due: the count is completed with the boundaries passed since *)
  (Z.land prev DISPATCH_TIMER_DISARMED_MARKER <> 0 ->
   1 <= t_target x <= now -> now < T63 -> 1 <= t_interval x < T64 -> 0 <= t_deadline x < T64 ->
   t_target x < INT64_MAX ->
   Z.shiftr prev 1 + (now - t_target x) / t_interval x + 1 <= LONG_MAX ->
   snd (latch st t now) = Z.shiftr prev 1 + ((now - t_target x) / t_interval x + 1) /\
   (t_interval x < INT64_MAX -> now < t_target (tm (fst (latch st t now)) t))) /\
  t_pending (tm (fst (latch st t now)) t) = 0.
Proof.
  intros x prev Hp. unfold latch. fold x. fold prev.
  split; [|split].
  - intros M. unfold nz. rewrite M. reflexivity.
  - intros M Ht Hn Hi Hd Hf Hfit.
    unfold nz. destruct (Z.eqb_spec (Z.land prev DISPATCH_TIMER_DISARMED_MARKER) 0); [contradiction|]. cbn [negb].
    cbn [t_target t_deadline t_interval with_pending].
    destruct (Z.ltb_spec (t_target x) INT64_MAX); [|lia]. destruct (Z.geb_spec now (t_target x)); [|lia]. cbn [andb].
    assert (P0 : 0 <= Z.shiftr prev 1) by (apply Z.shiftr_nonneg; lia).
    pose proof (missed_count (t_target x) (t_deadline x) (t_interval x) now (Z.shiftr prev 1) Ht Hn Hi Hd P0 Hfit) as MC.
    destruct (compute_missed _ _ _ _ _) as [[cnt tg'] dl']. cbv zeta in MC. destruct MC as [A [_ [B _]]].
    cbn [fst snd]. split; [lia|]. intros Li. rewrite tm_set_timer_eq. simpl. destruct (B Li) as [_ [X _]]. exact X.
  - destruct (nz _); [destruct (_ && _); [destruct (compute_missed _ _ _ _ _) as [[? ?] ?]|]|];
      cbn [fst]; rewrite tm_set_timer_eq; reflexivity.
Qed.

(* ------------------------------------------------------------------------------------------------ *)
(* dispatch_source_set_timer / dispatch_after arithmetic (src/source.c), in terms of what the dispatch_time_t denotes
   (Model/Time.v decode, shared with C12) *)
Section Cfg.
Local Ltac Zify.zify_post_hook ::= Z.div_mod_to_equations.

Definition never_armed (tg : Z) : Prop := INT64_MAX <= tg.

Theorem config_spec k start interval leeway cur_clock :
  in64 start -> in64 interval -> in64 leeway -> clocks_ok k -> 0 <= cur_clock <= 2 ->
  let '(clock, tg, dl, itv) :=
    config_create start interval leeway cur_clock (now_wall k) (now_up k) (now_mono k) in
  1 <= itv <= INT64_MAX /\ 0 <= dl <= INT64_MAX /\ 0 <= clock <= 2 /\
  match decode k start with
  | Forever => never_armed tg
  | At c v => clock = cnum c /\ tg = v /\ 1 <= tg <= MAXV /\ tg <= dl /\
              (itv < INT64_MAX -> dl - tg <= itv / 2)
  end.
Proof.
  intros Hs Hi Hl Hk Hc. unfold config_create.
  set (itv1 := if interval =? 0 then 1 else if s64 interval <? 0 then INT64_MAX else interval).
  set (lw1 := if s64 leeway <? 0 then INT64_MAX else leeway).
  assert (I1 : 1 <= itv1 <= INT64_MAX).
  { unfold itv1, in64, INT64_MAX in *. destruct (Z.eqb_spec interval 0); [lia|].
    destruct (Z.lt_ge_cases interval 9223372036854775808).
    - rewrite s64_small by lia. destruct (Z.ltb_spec interval 0); lia.
    - rewrite s64_high by lia. destruct (Z.ltb_spec (interval - 18446744073709551616) 0); lia. }
  assert (L1 : 0 <= lw1 <= INT64_MAX).
  { unfold lw1, in64, INT64_MAX in *.
    destruct (Z.lt_ge_cases leeway 9223372036854775808).
    - rewrite s64_small by lia. destruct (Z.ltb_spec leeway 0); lia.
    - rewrite s64_high by lia. destruct (Z.ltb_spec (leeway - 18446744073709551616) 0); lia. }
  clearbody itv1 lw1.
  unfold f_dispatch_time_nano2mach, DISPATCH_TIME_FOREVER, DISPATCH_TIME_NOW.
  (* the tail, for any (clock, target) *)
  assert (Tail : forall clock tg, 0 <= clock <= 2 -> (1 <= tg <= MAXV \/ never_armed tg /\ tg < 18446744073709551616) ->
    let '(c, t, dl, itv) :=
      (let '(interval0, leeway0) :=
         if negb (clock =? 2) then ((if itv1 <? 1 then 1 else itv1), lw1) else (itv1, lw1) in
       let leeway1 := if (interval0 <? INT64_MAX) && (leeway0 >? interval0 / 2) then interval0 / 2 else leeway0 in
       let deadline := if u64 (tg + leeway1) <? INT64_MAX then u64 (tg + leeway1) else INT64_MAX in
       (clock, tg, deadline, interval0)) in
    c = clock /\ t = tg /\ 1 <= itv <= INT64_MAX /\ 0 <= dl <= INT64_MAX /\
    (1 <= tg <= MAXV -> tg <= dl /\ (itv < INT64_MAX -> dl - tg <= itv / 2))).
  { intros clock tg Hcl Htg. unfold INT64_MAX, MAXV, never_armed in *.
    assert (E : (if negb (clock =? 2) then ((if itv1 <? 1 then 1 else itv1), lw1) else (itv1, lw1)) = (itv1, lw1)).
    { destruct (negb (clock =? 2)); auto. destruct (Z.ltb_spec itv1 1); [lia|auto]. }
    rewrite E. cbv zeta.
    set (lw2 := if (itv1 <? 9223372036854775807) && (lw1 >? itv1 / 2) then itv1 / 2 else lw1).
    assert (L2 : 0 <= lw2 <= 9223372036854775807 /\ (itv1 < 9223372036854775807 -> lw2 <= itv1 / 2)).
    { unfold lw2. destruct (Z.ltb_spec itv1 9223372036854775807), (Z.gtb_spec lw1 (itv1 / 2)); cbn [andb]; lia. }
    clearbody lw2.
    pose proof (u64_range (tg + lw2)) as U.
    destruct (Z.ltb_spec (u64 (tg + lw2)) 9223372036854775807) as [B|B].
    - repeat split; try lia.
      + intros. rewrite u64_id in * by lia. lia.
      + intros. rewrite u64_id in * by lia. lia.
    - repeat split; try lia; intros; rewrite u64_id in * by lia; lia. }
  destruct (Z.eqb_spec start 18446744073709551615) as [->|Ne].
  - specialize (Tail cur_clock INT64_MAX Hc ltac:(right; unfold never_armed, INT64_MAX; lia)).
    destruct (let '(interval0, leeway0) := _ in _) as [[[c t] dl] itv]. destruct Tail as (-> & -> & ? & ? & _).
    change (decode k 18446744073709551615) with Forever. unfold never_armed, INT64_MAX in *. repeat split; lia.
  - rewrite (to_clock_and_value_spec k start Hs Ne Hk).
    pose proof Hk as (Hu & Hm & Hw). unfold MAXV in *.
    destruct (decode k start) as [|c v] eqn:D.
    + set (cl := if start <? 9223372036854775808 then 0 else if start <? 13835058055282163712 then 1 else 2).
      assert (0 <= cl <= 2).
      { unfold cl. destruct (Z.ltb_spec start 9223372036854775808); [lia|]. destruct (Z.ltb_spec start 13835058055282163712); lia. }
      clearbody cl.
      change (FOREVER =? 0) with false. cbv iota.
      specialize (Tail cl FOREVER ltac:(lia) ltac:(right; unfold never_armed, INT64_MAX, FOREVER; lia)).
      destruct (let '(interval0, leeway0) := _ in _) as [[[c t] dl] itv]. destruct Tail as (-> & -> & ? & ? & _).
      unfold never_armed, FOREVER, INT64_MAX in *. repeat split; lia.
    + destruct (decode_At k start c v Hs Hk D) as (Hb & HbU & HbM & HbW). unfold MAXV, lo in Hb.
      assert (E : (let '(clock, target) :=
                     match c with Up => (0, if start =? 0 then 0 else v) | Mono => (1, if start =? 9223372036854775808 then 0 else v) | Wall => (2, v) end in
                   if target =? 0 then (clock, if clock =? 0 then now_up k else now_mono k) else (clock, target)) = (cnum c, v)).
      { destruct c; cbn [cnum].
        - destruct (HbU eq_refl) as [[-> ->]|[N ->]]; cbn; auto.
          destruct (Z.eqb_spec start 0); [lia|]. destruct (Z.eqb_spec start 0); [lia|auto].
        - destruct (HbM eq_refl) as [[-> ->]|[N ->]]; cbn; auto.
          destruct (Z.eqb_spec start 9223372036854775808); [lia|].
          destruct (Z.eqb_spec (start - 9223372036854775808) 0); [lia|auto].
        - destruct (Z.eqb_spec v 0); [lia|auto]. }
      rewrite E.
      specialize (Tail (cnum c) v ltac:(destruct c; cbn; lia) ltac:(left; unfold MAXV; destruct c; lia)).
      destruct (let '(interval0, leeway0) := _ in _) as [[[c' t] dl] itv]. destruct Tail as (-> & -> & ? & ? & T).
      destruct (T ltac:(unfold MAXV; destruct c; lia)). unfold INT64_MAX in *. repeat split; try lia; try (destruct c; cbn; lia); auto.
Qed.

Lemma leeway_clamp d :
  1000000 <= (if (if d / 10 <? 1000000 then 1000000 else d / 10) >? 60 * 1000000000 then 60 * 1000000000
              else (if d / 10 <? 1000000 then 1000000 else d / 10)) <= 60 * 1000000000.
Proof.
  destruct (Z.ltb_spec (d / 10) 1000000).
  - destruct (Z.gtb_spec 1000000 (60 * 1000000000)); lia.
  - destruct (Z.gtb_spec (d / 10) (60 * 1000000000)); lia.
Qed.

Theorem after_spec k when :
  in64 when -> clocks_ok k ->
  let r := dispatch_after_model when (now_wall k) (now_up k) (now_mono k) in
  match decode k when with
  | Forever => (when = FOREVER /\ r = AfterNever) \/
               (when <> FOREVER /\ exists c dl, r = AfterTimer c UINT64_MAX dl /\ never_armed UINT64_MAX)
  | At c v => if v <=? now k c then r = AfterNow
              else exists dl, r = AfterTimer (cnum c) v dl /\ v + NSEC_PER_MSEC <= dl <= v + 60 * NSEC_PER_SEC
  end.
Proof.
  intros Hs Hk r. subst r. unfold dispatch_after_model, DISPATCH_TIME_FOREVER, NSEC_PER_MSEC, NSEC_PER_SEC, f_dispatch_time_nano2mach.
  pose proof Hk as (Hu & Hm & Hw). unfold MAXV in *.
  destruct (Z.eqb_spec when 18446744073709551615) as [->|Ne].
  - change (decode k 18446744073709551615) with Forever. left. auto.
  - destruct (decode k when) as [|c v] eqn:D.
    + right. split; [exact Ne|].
      assert (N0 : when <> 0).
      { intros ->. unfold decode, FOREVER in D. cbn in D. discriminate. }
      unfold f_dispatch_timeout, f_dispatch_time_mach2nano.
      destruct (Z.eqb_spec when 18446744073709551615); [contradiction|]. destruct (Z.eqb_spec when 0); [contradiction|].
      rewrite (to_clock_and_value_spec k when Hs Ne Hk), D.
      set (cl := if when <? 9223372036854775808 then 0 else if when <? 13835058055282163712 then 1 else 2).
      clearbody cl. unfold FOREVER.
      assert (E : (if cl =? 2
                   then if now_wall k >=? 18446744073709551615 then 0 else u64 (18446744073709551615 - now_wall k)
                   else if (if cl =? 0 then now_up k else now_mono k) >=? 18446744073709551615 then 0
                        else u64 (18446744073709551615 - (if cl =? 0 then now_up k else now_mono k))) <> 0).
      { destruct (cl =? 2).
        - destruct (Z.geb_spec (now_wall k) 18446744073709551615); [lia|]. rewrite u64_id; lia.
        - destruct (cl =? 0).
          + destruct (Z.geb_spec (now_up k) 18446744073709551615); [lia|]. rewrite u64_id; lia.
          + destruct (Z.geb_spec (now_mono k) 18446744073709551615); [lia|]. rewrite u64_id; lia. }
      cbv zeta. match goal with |- context [if ?x =? 0 then AfterNow else _] => destruct (Z.eqb_spec x 0) as [X|_]; [contradiction|] end.
      eexists; eexists. split; [reflexivity|]. unfold never_armed, UINT64_MAX, INT64_MAX. lia.
    + destruct (decode_At k when c v Hs Hk D) as (Hb & HbU & HbM & HbW). unfold MAXV, lo in Hb.
      rewrite (timeout_spec k when c v Hs Hk D).
      destruct (Z.leb_spec v (now k c)) as [L|L].
      * rewrite Z.max_l by lia. reflexivity.
      * rewrite Z.max_r by lia. destruct (Z.eqb_spec (v - now k c) 0); [lia|].
        rewrite (to_clock_and_value_spec k when Hs Ne Hk), D.
        assert (E : match c with Up => (0, if when =? 0 then 0 else v) | Mono => (1, if when =? 9223372036854775808 then 0 else v) | Wall => (2, v) end = (cnum c, v)).
        { destruct c; cbn [cnum now] in *; auto.
          - destruct (HbU eq_refl) as [[-> ->]|[N ->]]; [lia|]. destruct (Z.eqb_spec when 0); [lia|auto].
          - destruct (HbM eq_refl) as [[-> ->]|[N ->]]; [lia|]. destruct (Z.eqb_spec when 9223372036854775808); [lia|auto]. }
        rewrite E.
        set (d := v - now k c) in *.
        assert (Hd : 0 < d < 4611686018427387904) by (unfold d; destruct c; cbn [now] in *; lia).
        pose proof (leeway_clamp d) as LC.
        set (l2 := if (if d / 10 <? 1000000 then 1000000 else d / 10) >? 60 * 1000000000 then 60 * 1000000000
                   else (if d / 10 <? 1000000 then 1000000 else d / 10)) in *.
        assert (Vb : 1 <= v <= 4611686018427387903) by (destruct c; lia).
        clearbody l2. destruct (negb (cnum c =? 2)); (eexists; split; [reflexivity|]); rewrite u64_id by lia; lia.
Qed.
End Cfg.

(* ================================================================================================ *)
(* whole-history composition: every heap satisfies Inv w.r.t. its armed members, in every reachable state *)

Definition member (st : state) (tidx t : Z) : Prop :=
  t <> 0 /\ t_armed (tm st t) = true /\ t_ident (tm st t) = tidx.

Definition HInvs (st : state) : Prop :=
  forall tidx, Inv (keyof (s_timers st)) (member st tidx) (s_heaps st tidx).

(* the same, except that the keys of timer t may already have been overwritten (compute_missed / configure run
   before the heap is updated) *)
Definition HInvsX (st : state) (t : Z) : Prop :=
  exists key0, (forall g u, u <> t -> key0 g u = keyof (s_timers st) g u) /\
               forall tidx, Inv key0 (member st tidx) (s_heaps st tidx).

Definition room (st : state) (k : Z) : Prop := forall tidx, h_count (s_heaps st tidx) + 2 * k <= CAPMAX.

Lemma HInvs_X st t : HInvs st -> HInvsX st t.
Proof. intros H. exists (keyof (s_timers st)). split; auto. Qed.

Lemma HInvsX_notarmed st t : HInvsX st t -> t_armed (tm st t) = false -> HInvs st.
Proof.
  intros [key0 [Hk HI]] Na tidx. apply (Inv_iff key0 _ (member st tidx) _ _ (HI tidx)); [tauto|].
  intros g u [_ [A _]]. symmetry. apply Hk. intros ->. congruence.
Qed.

(* replacing the record of t by one with the same armed bit and ident *)
Lemma member_set_timer st t v tidx u :
  t_armed v = t_armed (tm st t) -> t_ident v = t_ident (tm st t) ->
  (member (set_timer st t v) tidx u <-> member st tidx u).
Proof.
  intros Ea Ei. unfold member. destruct (Z.eq_dec u t) as [->|N].
  - rewrite tm_set_timer_eq, Ea, Ei. tauto.
  - rewrite tm_set_timer_neq by auto. tauto.
Qed.

Lemma keyof_set_timer st t v g u : u <> t -> keyof (s_timers (set_timer st t v)) g u = keyof (s_timers st) g u.
Proof.
  intros N. unfold keyof, set_timer, updf; simpl. destruct (Z.eqb_spec u t); [contradiction|reflexivity].
Qed.

Lemma HInvs_set_values st t v :
  HInvs st -> t_armed v = t_armed (tm st t) -> t_ident v = t_ident (tm st t) -> HInvsX (set_timer st t v) t.
Proof.
  intros H Ea Ei. exists (keyof (s_timers st)). split.
  - intros g u N. symmetry. apply keyof_set_timer; auto.
  - intros tidx. apply (Inv_iff _ _ _ _ _ (H tidx)); auto.
    intros u. symmetry. apply member_set_timer; auto.
Qed.

Lemma HInvsX_set_same st t v :
  HInvsX st t -> t_armed v = t_armed (tm st t) -> t_ident v = t_ident (tm st t) -> HInvsX (set_timer st t v) t.
Proof.
  intros [key0 [Hk HI]] Ea Ei. exists key0. split.
  - intros g u N. rewrite keyof_set_timer by auto. auto.
  - intros tidx. apply (Inv_iff _ _ _ _ _ (HI tidx)); auto.
    intros u. symmetry. apply member_set_timer; auto.
Qed.

(* same keys, armed bit and ident for t: nothing changes for the heaps *)
Lemma HInvs_set_same st t v :
  HInvs st -> t_armed v = t_armed (tm st t) -> t_ident v = t_ident (tm st t) ->
  t_target v = t_target (tm st t) -> t_deadline v = t_deadline (tm st t) -> HInvs (set_timer st t v).
Proof.
  intros H Ea Ei Et Ed tidx. apply (Inv_iff _ _ _ _ _ (H tidx)).
  - intros u. symmetry. apply member_set_timer; auto.
  - intros g u _. unfold keyof, set_timer, updf, tm in *; simpl. destruct (Z.eqb_spec u t) as [->|]; auto.
    destruct (g =? 0); auto.
Qed.

(* ---- accessors of disarm / arm *)
Lemma disarm_tm st t u : tm (disarm st t) u = if u =? t then with_armed (tm st t) false else tm st u.
Proof. unfold disarm, tm, set_timer, set_dirty, set_heap, updf; simpl. reflexivity. Qed.
Lemma disarm_heap st t i :
  s_heaps (disarm st t) i =
  if i =? t_ident (tm st t) then remove (keyof (s_timers st)) (s_heaps st (t_ident (tm st t))) t else s_heaps st i.
Proof. unfold disarm, tm, set_timer, set_dirty, set_heap, updf; simpl. reflexivity. Qed.
Lemma disarm_keyof st t g u : keyof (s_timers (disarm st t)) g u = keyof (s_timers st) g u.
Proof.
  unfold keyof. change (s_timers (disarm st t) u) with (tm (disarm st t) u). rewrite disarm_tm.
  destruct (Z.eqb_spec u t) as [->|]; reflexivity.
Qed.

Lemma disarm_X st t :
  HInvsX st t -> member st (t_ident (tm st t)) t -> HInvs (disarm st t) /\
  (forall k, room st k -> room (disarm st t) k).
Proof.
  intros [key0 [Hk HI]] M. set (ti := t_ident (tm st t)) in *.
  assert (Hk' : forall g u, u <> t -> keyof (s_timers st) g u = key0 g u) by (intros; symmetry; auto).
  pose proof (remove_ext key0 (keyof (s_timers st)) _ _ t (HI ti) M Hk') as RE.
  destruct (remove_inv key0 _ _ t (HI ti) M) as [RI [RC _]].
  split.
  - intros tidx. rewrite disarm_heap. fold ti. destruct (Z.eqb_spec tidx ti) as [->|N].
    + rewrite RE. apply (Inv_iff _ _ _ _ _ RI).
      * intros u. unfold member. rewrite disarm_tm. destruct (Z.eqb_spec u t) as [->|Nu]; simpl; [intuition congruence|tauto].
      * intros g u [_ Nu]. rewrite disarm_keyof. symmetry. apply Hk. exact Nu.
    + apply (Inv_iff _ _ _ _ _ (HI tidx)).
      * intros u. unfold member. rewrite disarm_tm. destruct (Z.eqb_spec u t) as [->|Nu]; simpl; [|tauto].
        unfold ti in N. intuition congruence.
      * intros g u [_ [_ Ui]]. rewrite disarm_keyof. symmetry. apply Hk. intros ->. unfold ti in N. congruence.
  - intros k R tidx. rewrite disarm_heap. fold ti. destruct (Z.eqb_spec tidx ti) as [->|N]; [|apply R].
    rewrite RE, RC. pose proof (R ti). lia.
Qed.

Lemma resift_count kk hh dd ii : h_count (resift kk hh dd ii) = h_count hh.
Proof.
  unfold resift.
  assert (SU : forall f kk hid dt hh ii su, h_count (fst (fst (sift_up f kk hid dt hh ii su))) = h_count hh).
  { induction f; intros; simpl; auto. destruct (_ >=? _); auto. destruct (_ <=? _); auto. rewrite IHf. reflexivity. }
  assert (SD : forall f kk hid dt hh ii, h_count (fst (sift_down f kk hid dt hh ii)) = h_count hh).
  { induction f; intros; simpl; auto. destruct (_ <? _); auto.
    destruct (if _ <? _ then _ else _) as [c1 d1]. destruct (_ <=? _); auto. rewrite IHf. reflexivity. }
  destruct (sift_up _ _ _ _ _ _ _) as [[h1 i1] su] eqn:E1.
  pose proof (SU (Z.to_nat ii) kk (heap_id ii) dd hh ii false) as Q. rewrite E1 in Q. simpl in Q.
  destruct su; [simpl; auto|].
  destruct (sift_down _ _ _ _ _ _) as [h2 i2] eqn:E2.
  pose proof (SD (Z.to_nat (h_count h1)) kk (heap_id ii) dd h1 i1) as Q2. rewrite E2 in Q2. simpl in Q2.
  simpl. congruence.
Qed.
Lemma update_count key h dt : h_count (update key h dt) = h_count h.
Proof. unfold update. rewrite !resift_count. reflexivity. Qed.

Lemma arm_tm st t tidx u :
  tm (arm st t tidx) u =
  if t_armed (tm st t) then tm st u
  else if u =? t then with_armed (with_ident (tm st t) tidx) true else tm st u.
Proof.
  unfold arm. destruct (t_armed (tm st t)); [reflexivity|].
  unfold tm, set_timer, set_dirty, set_heap, updf; simpl. destruct (Z.eqb_spec u t) as [->|]; [|reflexivity].
  rewrite Z.eqb_refl. reflexivity.
Qed.
Lemma arm_heap st t tidx i :
  s_heaps (arm st t tidx) i =
  if i =? tidx then
    (if t_armed (tm st t) then update (keyof (s_timers st)) (s_heaps st tidx) t
     else insert (keyof (s_timers (set_timer st t (with_ident (tm st t) tidx)))) (s_heaps st tidx) t 0)
  else s_heaps st i.
Proof.
  unfold arm. destruct (t_armed (tm st t)); unfold tm, set_timer, set_dirty, set_heap, updf; simpl;
    destruct (Z.eqb_spec i tidx); reflexivity.
Qed.
Lemma arm_keyof st t tidx g u : keyof (s_timers (arm st t tidx)) g u = keyof (s_timers st) g u.
Proof.
  unfold keyof. change (s_timers (arm st t tidx) u) with (tm (arm st t tidx) u). rewrite arm_tm.
  destruct (t_armed (tm st t)); [reflexivity|]. destruct (Z.eqb_spec u t) as [->|]; reflexivity.
Qed.

Lemma arm_X st t tidx :
  HInvsX st t -> t <> 0 -> (t_armed (tm st t) = true -> t_ident (tm st t) = tidx) -> room st 1 ->
  HInvs (arm st t tidx) /\ (forall k, room st (k + 1) -> room (arm st t tidx) k).
Proof.
  intros HX Nz Hid R1. destruct (t_armed (tm st t)) eqn:Ea.
  - (* update *)
    destruct HX as [key0 [Hk HI]]. specialize (Hid eq_refl).
    assert (M : member st tidx t) by (unfold member; auto).
    assert (Hk' : forall g u, u <> t -> keyof (s_timers st) g u = key0 g u) by (intros; symmetry; auto).
    destruct (update_inv (keyof (s_timers st)) _ _ t key0 (HI tidx) M Hk') as [UI _].
    split.
    + intros i. rewrite arm_heap, Ea. destruct (Z.eqb_spec i tidx) as [->|N].
      * apply (Inv_iff _ _ _ _ _ UI).
        -- intros u. unfold member. rewrite arm_tm, Ea. tauto.
        -- intros g u _. apply arm_keyof.
      * apply (Inv_iff _ _ _ _ _ (HI i)).
        -- intros u. unfold member. rewrite arm_tm, Ea. tauto.
        -- intros g u [_ [_ Ui]]. rewrite arm_keyof. symmetry. apply Hk. intros ->. congruence.
    + intros k R i. rewrite arm_heap, Ea. pose proof (R i). destruct (Z.eqb_spec i tidx) as [->|N]; [rewrite update_count|]; lia.
  - (* insert *)
    pose proof (HInvsX_notarmed _ _ HX Ea) as H.
    set (st1 := set_timer st t (with_ident (tm st t) tidx)).
    assert (NS : ~ member st tidx t) by (unfold member; intros [_ [A _]]; congruence).
    assert (I1 : Inv (keyof (s_timers st1)) (member st tidx) (s_heaps st tidx)).
    { apply (Inv_iff _ _ _ _ _ (H tidx)); [tauto|]. intros g u [_ [A _]]. apply keyof_set_timer. intros ->. congruence. }
    destruct (insert_inv (keyof (s_timers st1)) _ _ t 0 I1 NS Nz ltac:(pose proof (R1 tidx); lia)) as [II [IC _]].
    split.
    + intros i. rewrite arm_heap, Ea. fold st1. destruct (Z.eqb_spec i tidx) as [->|N].
      * apply (Inv_iff _ _ _ _ _ II).
        -- intros u. unfold member. rewrite arm_tm, Ea. destruct (Z.eqb_spec u t) as [->|Nu]; simpl; [tauto|].
           split; [intros [X|X]; [contradiction|exact X]|auto].
        -- intros g u _. rewrite arm_keyof. unfold st1, keyof, set_timer, updf, tm; simpl.
           destruct (Z.eqb_spec u t) as [->|]; reflexivity.
      * apply (Inv_iff _ _ _ _ _ (H i)).
        -- intros u. unfold member. rewrite arm_tm, Ea. destruct (Z.eqb_spec u t) as [->|Nu]; simpl; [|tauto].
           split; [intros [_ [A _]]; congruence|intros [_ [_ A]]; congruence].
        -- intros g u _. apply arm_keyof.
    + intros k R i. rewrite arm_heap, Ea. fold st1. pose proof (R i). destruct (Z.eqb_spec i tidx) as [->|N]; [rewrite IC|]; lia.
Qed.

Lemma room_weaken st k k' : room st k -> k' <= k -> room st k'.
Proof. intros R L i. pose proof (R i). lia. Qed.

Lemma disarm_other st t u : u <> t -> tm (disarm st t) u = tm st u.
Proof. intros. rewrite disarm_tm. destruct (Z.eqb_spec u t); congruence. Qed.
Lemma arm_other st t tidx u : u <> t -> tm (arm st t tidx) u = tm st u.
Proof. intros. rewrite arm_tm. destruct (t_armed (tm st t)); auto. destruct (Z.eqb_spec u t); congruence. Qed.
Lemma resume_other st t u : u <> t -> tm (resume st t) u = tm st u.
Proof.
  intros N. unfold resume.
  destruct (t_armed (tm st t) && _); destruct (needs_rearm (tm st t));
    rewrite ?arm_other, ?disarm_other by auto; reflexivity.
Qed.

Lemma resume_armed st t :
  t_armed (tm (resume st t) t) = needs_rearm (tm st t) /\
  (needs_rearm (tm st t) = true -> t_ident (tm (resume st t) t) = unote_idx (tm st t)).
Proof.
  unfold resume. set (x := tm st t). set (tidx := unote_idx x).
  destruct (needs_rearm x) eqn:W; destruct (t_armed x) eqn:A; cbn [andb negb orb].
  - destruct (Z.eqb_spec (t_ident x) tidx) as [E|E]; cbn [negb].
    + rewrite arm_tm. fold x. rewrite A. fold x. rewrite A. auto.
    + rewrite arm_tm, !disarm_tm, Z.eqb_refl. fold x. simpl. auto.
  - rewrite arm_tm. fold x. rewrite A, Z.eqb_refl. simpl. auto.
  - rewrite disarm_tm, Z.eqb_refl. fold x. simpl. split; [auto|discriminate].
  - fold x. rewrite A. split; [auto|discriminate].
Qed.

Lemma resume_X st t :
  HInvsX st t -> t <> 0 -> room st 1 ->
  HInvs (resume st t) /\ (forall k, room st (k + 1) -> room (resume st t) k).
Proof.
  intros HX Nz R1. unfold resume. set (x := tm st t). set (tidx := unote_idx x).
  destruct (t_armed x) eqn:A; cbn [andb].
  - assert (M : member st (t_ident x) t) by (unfold member; auto).
    destruct (needs_rearm x) eqn:W; cbn [negb orb].
    + destruct (Z.eqb_spec (t_ident x) tidx) as [E|E]; cbn [negb].
      * apply arm_X; auto.
      * destruct (disarm_X st t HX M) as [D DR].
        assert (P1 : t_armed (tm (disarm st t) t) = true -> t_ident (tm (disarm st t) t) = tidx).
        { rewrite disarm_tm, Z.eqb_refl. simpl. discriminate. }
        destruct (arm_X (disarm st t) t tidx (HInvs_X _ _ D) Nz P1 (DR _ R1)) as [AI AR].
        split; auto.
    + destruct (disarm_X st t HX M) as [D DR]. split; auto. intros k R. apply DR. eapply room_weaken; eauto. lia.
  - destruct (needs_rearm x) eqn:W.
    + apply arm_X; auto. fold x. rewrite A. discriminate.
    + split; [eapply HInvsX_notarmed; eauto|]. intros k R. eapply room_weaken; eauto. lia.
Qed.

Lemma HInvs_set_notarmed st t v :
  HInvs st -> t_armed (tm st t) = false -> t_armed v = false -> HInvs (set_timer st t v).
Proof.
  intros H A Av tidx. apply (Inv_iff _ _ _ _ _ (H tidx)).
  - intros u. unfold member. destruct (Z.eq_dec u t) as [->|N].
    + rewrite tm_set_timer_eq. split; intros [_ [X _]]; congruence.
    + rewrite tm_set_timer_neq by auto. tauto.
  - intros g u [_ [X _]]. apply keyof_set_timer. intros ->. congruence.
Qed.

Section Parity.
Local Ltac Zify.zify_post_hook ::= Z.div_mod_to_equations.
Lemma land1_mod x : Z.land x 1 = x mod 2.
Proof. change 1 with (2 ^ 1 - 1). rewrite land_low by lia. reflexivity. Qed.
Lemma even_pending c : Z.land (u64 (Z.shiftl c 1)) 1 = 0.
Proof.
  rewrite land1_mod, Z.shiftl_mul_pow2 by lia. change (2 ^ 1) with 2. unfold u64.
  rewrite <- (Zmod_div_mod 2 18446744073709551616 (c * 2)) by (try lia; exists 9223372036854775808; reflexivity).
  apply Z_mod_mult.
Qed.
End Parity.

Lemma needs_rearm_tgt x : needs_rearm x = true -> t_target x < INT64_MAX.
Proof. unfold needs_rearm. destruct (t_susp x); [discriminate|]. intros H. apply andb_true_iff in H. lia. Qed.

Lemma Inv_set_np key S h b : Inv key S h -> Inv key S (set_np h b).
Proof. intros I. eapply Inv_ext; eauto. Qed.

(* ---- the full state invariant, for a system with timer records 1..N (N <= 2^30 - 12: the heaps can hold them all) *)
Section Sys.
Variable N : Z.
Hypothesis HN : 0 <= N /\ 2 * N + 2 <= CAPMAX.

Record GInv (st : state) : Prop := {
  gi_heaps : HInvs st;
  gi_ids : forall t, t_armed (tm st t) = true -> 1 <= t <= N;
  gi_marker : forall t, t_armed (tm st t) = true -> Z.land (t_pending (tm st t)) 1 = 0;
  gi_tgt : forall t, t_armed (tm st t) = true -> t_target (tm st t) < INT64_MAX
}.

Lemma HInvs_room st : HInvs st -> (forall t, t_armed (tm st t) = true -> 1 <= t <= N) -> room st 1.
Proof.
  intros H Hid i. pose proof (count_bound _ _ _ N (proj1 HN) (H i)) as B.
  specialize (B ltac:(intros t [_ [A _]]; auto)). lia.
Qed.
Lemma GInv_room st : GInv st -> room st 1.
Proof. intros G. apply HInvs_room; apply G. Qed.

(* a generic way to re-establish the per-timer clauses: only timer t changed *)
Lemma GInv_intro st st' t :
  GInv st -> HInvs st' -> 1 <= t <= N -> (forall u, u <> t -> tm st' u = tm st u) ->
  (t_armed (tm st' t) = true -> Z.land (t_pending (tm st' t)) 1 = 0 /\ t_target (tm st' t) < INT64_MAX) ->
  GInv st'.
Proof.
  intros G H Ht Ho Hp. constructor; auto.
  - intros u A. destruct (Z.eq_dec u t) as [->|Nu]; auto. rewrite Ho in A by auto. apply G; auto.
  - intros u A. destruct (Z.eq_dec u t) as [->|Nu]; [apply Hp; auto|]. rewrite Ho in * by auto. apply G; auto.
  - intros u A. destruct (Z.eq_dec u t) as [->|Nu]; [apply Hp; auto|]. rewrite Ho in * by auto. apply G; auto.
Qed.

Lemma resume_G st t :
  GInv st -> 1 <= t <= N -> Z.land (t_pending (tm st t)) 1 = 0 -> GInv (resume st t).
Proof.
  intros G Ht Hp. assert (Nz : t <> 0) by lia.
  destruct (resume_X st t (HInvs_X _ _ (gi_heaps _ G)) Nz (GInv_room _ G)) as [H _].
  apply (GInv_intro st _ t G H Ht (fun u Nu => resume_other st t u Nu)).
  intros A. destruct (resume_armed st t) as [Ea _]. rewrite Ea in A.
  destruct (resume_vals st t t) as (_ & _ & Et & _ & _ & Ep & _). rewrite Et, Ep. split; auto. apply needs_rearm_tgt; auto.
Qed.

Lemma disarm_G st t : GInv st -> t_armed (tm st t) = true -> GInv (disarm st t).
Proof.
  intros G A. pose proof (gi_ids _ G t A) as Ht. assert (Nz : t <> 0) by lia.
  assert (M : member st (t_ident (tm st t)) t) by (unfold member; auto).
  destruct (disarm_X st t (HInvs_X _ _ (gi_heaps _ G)) M) as [H _].
  apply (GInv_intro st _ t G H Ht (fun u Nu => disarm_other st t u Nu)).
  rewrite disarm_tm, Z.eqb_refl. simpl. discriminate.
Qed.

Lemma set_same_G st t v :
  GInv st -> 1 <= t <= N -> t_armed v = t_armed (tm st t) -> t_ident v = t_ident (tm st t) ->
  t_target v = t_target (tm st t) -> t_deadline v = t_deadline (tm st t) ->
  (t_armed v = true -> Z.land (t_pending v) 1 = 0) -> GInv (set_timer st t v).
Proof.
  intros G Ht Ea Ei Et Ed Hp. apply (GInv_intro st _ t G); auto.
  - apply HInvs_set_same; auto. apply G.
  - intros u Nu. apply tm_set_timer_neq; auto.
  - rewrite tm_set_timer_eq. intros A. split; auto. rewrite Et. apply G. congruence.
Qed.

Lemma set_notarmed_G st t v :
  GInv st -> 1 <= t <= N -> t_armed (tm st t) = false -> t_armed v = false -> GInv (set_timer st t v).
Proof.
  intros G Ht A Av. apply (GInv_intro st _ t G); auto.
  - apply HInvs_set_notarmed; auto. apply G.
  - intros u Nu. apply tm_set_timer_neq; auto.
  - rewrite tm_set_timer_eq. congruence.
Qed.

Lemma unregister_G st t : GInv st -> 1 <= t <= N -> GInv (unregister st t).
Proof.
  intros G Ht. unfold unregister.
  assert (G1 : GInv (if t_armed (tm st t) then disarm st t else st) /\
               t_armed (tm (if t_armed (tm st t) then disarm st t else st) t) = false).
  { destruct (t_armed (tm st t)) eqn:A; [split; [apply disarm_G; auto|rewrite disarm_tm, Z.eqb_refl; reflexivity]|auto]. }
  destruct G1 as [G1 A1]. apply set_notarmed_G; auto.
Qed.

Lemma configure_G st t : GInv st -> 1 <= t <= N -> GInv (configure st t).
Proof.
  intros G Ht. assert (Nz : t <> 0) by lia.
  unfold configure. destruct (t_cfg (tm st t)) as [[[[c tg] dl] itv]|]; auto.
  set (x1 := with_pending _ 0).
  assert (Ea : t_armed x1 = t_armed (tm st t) /\ t_ident x1 = t_ident (tm st t) /\ t_pending x1 = 0).
  { unfold x1. destruct (negb (c =? t_clock (tm st t))); simpl; auto. }
  destruct Ea as [Ea [Ei Ep]].
  pose proof (HInvs_set_values st t x1 (gi_heaps _ G) Ea Ei) as HX.
  set (st1 := set_timer st t x1) in *.
  assert (R1 : room st1 1) by exact (GInv_room _ G).
  destruct (t_armed x1) eqn:A.
  - destruct (resume_X st1 t HX Nz R1) as [H _].
    apply (GInv_intro st _ t G H Ht).
    + intros u Nu. rewrite resume_other by auto. apply tm_set_timer_neq; auto.
    + intros A'. destruct (resume_armed st1 t) as [E1 _]. rewrite E1 in A'.
      destruct (resume_vals st1 t t) as (_ & _ & Et & _ & _ & Ep' & _). rewrite Et, Ep'.
      unfold st1 in *. rewrite tm_set_timer_eq in *. rewrite Ep. split; [reflexivity|]. apply needs_rearm_tgt; auto.
  - apply (GInv_intro st _ t G); auto.
    + eapply HInvsX_notarmed; eauto. unfold st1. rewrite tm_set_timer_eq. auto.
    + intros u Nu. apply tm_set_timer_neq; auto.
    + unfold st1. rewrite tm_set_timer_eq. congruence.
Qed.

Lemma min_member st tidx : GInv st -> h_slot (s_heaps st tidx) 0 <> 0 -> member st tidx (h_slot (s_heaps st tidx) 0).
Proof.
  intros G Nm. pose proof (gi_heaps _ G tidx) as I.
  destruct (Z.eq_dec (h_count (s_heaps st tidx)) 0) as [E|E].
  - exfalso. apply Nm. apply (iv_zero _ _ _ I). lia.
  - destruct (iv_cnt _ _ _ I) as [C _]. apply (hi_fwd _ _ _ _ (iv_h0 _ _ _ I) 0); [lia|reflexivity].
Qed.

Lemma run_step_G st tidx now :
  GInv st -> h_slot (s_heaps st tidx) 0 <> 0 ->
  GInv (fst (run_step st tidx now (h_slot (s_heaps st tidx) 0))).
Proof.
  intros G Nm. set (dr := h_slot (s_heaps st tidx) 0) in *.
  destruct (min_member st tidx G Nm) as [Nz [A Id]]. fold dr in Nz, A, Id.
  pose proof (gi_ids _ G dr A) as Ht.
  unfold run_step. destruct (t_after (tm st dr)).
  - cbn [fst]. pose proof (disarm_G st dr G A) as G1.
    assert (A1 : t_armed (tm (disarm st dr) dr) = false) by (rewrite disarm_tm, Z.eqb_refl; reflexivity).
    apply set_notarmed_G; auto.
  - destruct (t_cfg (tm st dr)) as [cf|] eqn:Cf.
    + cbn [fst]. apply configure_G; auto.
    + destruct (nz (t_pending (tm st dr))).
      * cbn [fst]. pose proof (disarm_G st dr G A) as G1.
        assert (A1 : t_armed (tm (disarm st dr) dr) = false) by (rewrite disarm_tm, Z.eqb_refl; reflexivity).
        apply set_notarmed_G; auto.
      * destruct (compute_missed _ _ _ _ _) as [[cnt tg] dl].
        set (x1 := with_values (tm st dr) tg dl (t_interval (tm st dr))).
        set (st1 := set_timer st dr x1).
        assert (HX : HInvsX st1 dr) by (apply HInvs_set_values; [apply G|reflexivity|reflexivity]).
        assert (T1 : tm st1 dr = x1) by apply tm_set_timer_eq.
        rewrite T1.
        destruct (needs_rearm x1) eqn:W; cbn [fst].
        -- assert (Hid : t_armed (tm st1 dr) = true -> t_ident (tm st1 dr) = tidx) by (rewrite T1; intros _; exact Id).
           destruct (arm_X st1 dr tidx HX Nz Hid (GInv_room _ G)) as [H2 _].
           set (st2 := arm st1 dr tidx) in *.
           assert (T2 : tm st2 dr = x1).
           { unfold st2. rewrite arm_tm, T1. unfold x1 at 1. simpl. rewrite A. reflexivity. }
           apply (GInv_intro st _ dr G); auto.
           ++ apply HInvs_set_same; auto.
           ++ intros u Nu. rewrite tm_set_timer_neq by auto. unfold st2. rewrite arm_other by auto.
              apply tm_set_timer_neq; auto.
           ++ intros _. rewrite tm_set_timer_eq, T2. simpl. split; [apply even_pending|].
              apply (needs_rearm_tgt x1 W).
        -- assert (M1 : member st1 (t_ident (tm st1 dr)) dr).
           { rewrite T1. unfold member. rewrite T1. unfold x1; simpl. auto. }
           destruct (disarm_X st1 dr HX M1) as [H2 _].
           set (st2 := disarm st1 dr) in *.
           assert (A2 : t_armed (tm st2 dr) = false) by (unfold st2; rewrite disarm_tm, Z.eqb_refl; reflexivity).
           apply (GInv_intro st _ dr G); auto.
           ++ apply HInvs_set_notarmed; auto.
           ++ intros u Nu. rewrite tm_set_timer_neq by auto. unfold st2. rewrite disarm_other by auto.
              apply tm_set_timer_neq; auto.
           ++ rewrite tm_set_timer_eq. cbn [t_armed with_pending]. rewrite A2. discriminate.
Qed.

Theorem run_loop_G : forall fuel st tidx now ev st' ev' fin,
  GInv st -> run_loop fuel st tidx now ev = (st', ev', fin) -> GInv st'.
Proof.
  induction fuel as [|fuel IH]; intros st tidx now ev st' ev' fin G E; cbn [run_loop] in E.
  - inversion E; subst; auto.
  - unfold DTH_TARGET_ID in E.
    destruct (Z.eqb_spec (h_slot (s_heaps st tidx) 0) 0) as [Z0|Nm]; [inversion E; subst; auto|].
    destruct (t_target (tm st (h_slot (s_heaps st tidx) 0)) >? now); [inversion E; subst; auto|].
    pose proof (run_step_G st tidx now G Nm) as G1.
    destruct (run_step st tidx now _) as [st1 e1]. cbn [fst] in *. eapply IH; eauto.
Qed.

(* run fixpoint, with no hypothesis about the final heap *)
Theorem run_fixpoint_G st tidx now st' ev :
  GInv st -> timers_run st tidx now = (st', ev, true) ->
  GInv st' /\ forall t, member st' tidx t -> now < t_target (tm st' t).
Proof.
  intros G E. unfold timers_run in E.
  assert (G' : GInv st') by (eapply run_loop_G; eauto).
  split; auto. eapply run_fixpoint; eauto. apply G'.
Qed.

Lemma HInvs_heaps_np st hs' (hm : Z -> bool) (kt : Z -> Z) d :
  HInvs st -> (forall i, exists b, hs' i = set_np (s_heaps st i) b \/ hs' i = s_heaps st i) ->
  HInvs (mkS hs' hm kt d (s_timers st)).
Proof.
  intros H E i. specialize (H i). destruct (E i) as [b [X|X]]; unfold member, tm in *; simpl; rewrite X; auto.
  apply Inv_set_np; auto.
Qed.
Lemma GInv_heaps_np st hs' hm kt d :
  GInv st -> (forall i, exists b, hs' i = set_np (s_heaps st i) b \/ hs' i = s_heaps st i) ->
  GInv (mkS hs' hm kt d (s_timers st)).
Proof. intros G E. constructor; try apply G. apply HInvs_heaps_np; auto. apply G. Qed.
Lemma updf_np_cases (hs : Z -> heap) tidx b :
  forall i, exists b', updf hs tidx (set_np (hs tidx) b) i = set_np (hs i) b' \/ updf hs tidx (set_np (hs tidx) b) i = hs i.
Proof. intros i. exists b. unfold updf. destruct (Z.eqb_spec i tidx) as [->|]; auto. Qed.

Lemma set_dirty_G st b : GInv st -> GInv (set_dirty st b).
Proof. intros G. constructor; apply G. Qed.

Lemma program_G st tidx now : GInv st -> GInv (fst (program st tidx now)).
Proof.
  intros G. unfold program. destruct (get_delay st tidx now) as [delay leeway].
  assert (G1 : GInv (if delay =? 0 then set_dirty st true else st)) by (destruct (delay =? 0); auto using set_dirty_G).
  set (st1 := if delay =? 0 then set_dirty st true else st) in *.
  destruct ((delay =? 0) || (delay >=? INT64_MAX)); cbn [fst];
    apply GInv_heaps_np; auto; apply updf_np_cases.
Qed.
Lemma program_if_needed_G st tidx now : GInv st -> GInv (fst (program_if_needed st tidx now)).
Proof. intros G. unfold program_if_needed. destruct (h_np _); auto. apply program_G; auto. Qed.

Lemma kernel_expired_G st tidx : GInv st -> GInv (kernel_expired st tidx).
Proof. intros G. unfold kernel_expired. apply GInv_heaps_np; auto. apply updf_np_cases. Qed.

Lemma latch_G st t now : GInv st -> 1 <= t <= N -> GInv (fst (latch st t now)).
Proof.
  intros G Ht. unfold latch. set (x := tm st t).
  destruct (t_armed x) eqn:A.
  - pose proof (gi_marker _ G t A) as M. fold x in M. unfold DISPATCH_TIMER_DISARMED_MARKER. rewrite M.
    cbn [nz Z.eqb negb fst]. apply set_same_G; auto.
  - destruct (nz _); [destruct (_ && _); [destruct (compute_missed _ _ _ _ _) as [[cnt tg] dl]|]|];
      cbn [fst]; apply set_notarmed_G; auto.
Qed.

(* the manager's timer pass *)
Lemma timers_run_G st tidx now : GInv st -> GInv (fst (fst (timers_run st tidx now))).
Proof.
  intros G. destruct (timers_run st tidx now) as [[st' ev] fin] eqn:E. cbn [fst].
  unfold timers_run in E. eapply run_loop_G; eauto.
Qed.
Lemma drain_pass_G st nows : GInv st -> GInv (fst (fst (fst (drain_pass st nows)))).
Proof.
  intros G. unfold drain_pass, run_all, program_all.
  pose proof (timers_run_G st 0 (nows 0) G) as G0. destruct (timers_run st 0 (nows 0)) as [[s0 e0] f0]. cbn [fst] in G0.
  pose proof (timers_run_G s0 1 (nows 1) G0) as G1. destruct (timers_run s0 1 (nows 1)) as [[s1 e1] f1]. cbn [fst] in G1.
  pose proof (timers_run_G s1 2 (nows 2) G1) as G2. destruct (timers_run s1 2 (nows 2)) as [[s2 e2] f2]. cbn [fst] in G2.
  pose proof (set_dirty_G s2 false G2) as G3.
  pose proof (program_if_needed_G _ 0 (nows 0) G3) as P0. destruct (program_if_needed (set_dirty s2 false) 0 (nows 0)) as [p0 c0]. cbn [fst] in P0.
  pose proof (program_if_needed_G _ 1 (nows 1) P0) as P1. destruct (program_if_needed p0 1 (nows 1)) as [p1 c1]. cbn [fst] in P1.
  pose proof (program_if_needed_G _ 2 (nows 2) P1) as P2. destruct (program_if_needed p1 2 (nows 2)) as [p2 c2]. cbn [fst] in P2.
  exact P2.
Qed.
Lemma drain_G : forall fuel st nows ev calls, GInv st -> GInv (fst (fst (fst (drain fuel st nows ev calls)))).
Proof.
  induction fuel as [|fuel IH]; intros st nows ev calls G; cbn [drain]; auto.
  pose proof (drain_pass_G st nows G) as G1.
  destruct (drain_pass st nows) as [[[st' e] c] fin]. cbn [fst] in G1.
  destruct (negb fin); auto. destruct (s_dirty st'); auto.
Qed.

(* what the callers of each operation guarantee (src/source.c, src/event/event.c) *)
Definition guard (st : state) (o : top) : Prop :=
  match o with
  | TNew t _ => 1 <= t <= N
  | TAfter t _ _ => 1 <= t <= N /\ t_armed (tm st t) = false      (* _dispatch_after sets the values before activation *)
  | TCfg t _ _ _ _ => 1 <= t <= N
  | TReg t => 1 <= t <= N /\ t_reg (tm st t) = 0 /\ t_armed (tm st t) = false
      (* _dispatch_source_install, once per source (ds_is_installed); a never registered unote is not armed *)
  | TConfigure t => 1 <= t <= N
  | TResume t => 1 <= t <= N /\ Z.land (t_pending (tm st t)) 1 = 0 /\ t_reg (tm st t) = 1
      (* _dispatch_source_invoke2: only when no data is pending, and _dispatch_unote_needs_rearm demands a
         registered unote (event_internal.h:_du_state_needs_rearm) *)
  | TUnreg t => 1 <= t <= N
  | TSusp t _ => 1 <= t <= N
  | TPend _ _ => False                                              (* test-only command *)
  | TLatch t _ => 1 <= t <= N
  | TRun _ _ | TProg _ _ | TDrain _ _ _ | TObs => True
  end.

Theorem tstep_G n st o : GInv st -> guard st o -> GInv (fst (tstep n st o)).
Proof.
  intros G Gd. destruct o; cbn [tstep guard fst] in *.
  - assert (G1 : GInv (if t_armed (tm st t) then unregister st t else st) /\
                 t_armed (tm (if t_armed (tm st t) then unregister st t else st) t) = false).
    { destruct (t_armed (tm st t)) eqn:A; [|auto]. split; [apply unregister_G; auto|].
      unfold unregister. rewrite A, tm_set_timer_eq. cbn [t_armed with_ident]. rewrite disarm_tm, Z.eqb_refl. reflexivity. }
    destruct G1 as [G1 A1]. apply set_notarmed_G; auto.
  - destruct Gd as [Ht A]. apply set_notarmed_G; auto.
  - unfold set_cfg. apply set_same_G; auto. intros A. apply G. exact A.
  - destruct Gd as (Ht & R0 & A0). unfold register. rewrite R0. change (0 =? 1) with false. cbv iota.
    assert (G1 : GInv (set_timer st t (with_armed (with_reg (tm st t) 1) false))) by (apply set_notarmed_G; auto).
    destruct (t_cfg _); auto. apply configure_G; auto.
  - apply configure_G; auto.
  - destruct Gd as (Ht & P & _). apply resume_G; auto.
  - apply unregister_G; auto.
  - apply set_same_G; auto. intros A. apply G. exact A.
  - contradiction.
  - destruct (latch st t now) as [st' d] eqn:E. cbn [fst]. change st' with (fst (st', d)). rewrite <- E. apply latch_G; auto.
  - pose proof (timers_run_G st tidx now G) as G1. destruct (timers_run st tidx now) as [[st' ev] fin]. exact G1.
  - pose proof (program_if_needed_G st tidx now G) as G1. destruct (program_if_needed st tidx now) as [st' c]. exact G1.
  - set (nows := fun c : Z => if c =? 0 then n0 else if c =? 1 then n1 else n2).
    pose proof (drain_G (Z.to_nat n + 1) st nows [] [] G) as G1. destruct (drain (Z.to_nat n + 1) st nows [] []) as [[[st' ev] calls] fin]. exact G1.
  - auto.
Qed.

Lemma GInv_init : GInv init_state.
Proof.
  constructor; try (intros t A; discriminate).
  intros tidx. apply (Inv_iff (keyof (s_timers init_state)) _ (fun _ => False) _ _ (Inv_empty _)); [|tauto].
  intros u. unfold member. split; [tauto|]. intros [_ [A _]]. discriminate.
Qed.

(* every history: any sequence of operations issued under the callers' guards, starting from the initial state *)
Fixpoint valid_run (n : Z) (st : state) (ops : list top) : Prop :=
  match ops with
  | [] => True
  | o :: r => guard st o /\ valid_run n (fst (tstep n st o)) r
  end.
Definition run_ops (n : Z) (st : state) (ops : list top) : state := fold_left (fun s o => fst (tstep n s o)) ops st.

Theorem GInv_reachable n : forall ops st, GInv st -> valid_run n st ops -> GInv (run_ops n st ops).
Proof.
  induction ops as [|o r IH]; intros st G V; cbn [run_ops fold_left valid_run] in *; auto.
  destruct V as [Gd V]. apply IH; auto. apply tstep_G; auto.
Qed.
End Sys.

Theorem state_invariant_reachable : forall N n ops,
  0 <= N /\ 2 * N + 2 <= CAPMAX ->
  valid_run N n init_state ops -> GInv N (run_ops n init_state ops).
Proof. intros N n ops HN V. apply (GInv_reachable N HN n ops init_state (GInv_init N HN) V). Qed.

Theorem run_fixpoint_sys : forall N st tidx now st' ev,
  0 <= N /\ 2 * N + 2 <= CAPMAX ->
  GInv N st -> timers_run st tidx now = (st', ev, true) ->
  GInv N st' /\ forall t, member st' tidx t -> now < t_target (tm st' t).
Proof. intros N st tidx now st' ev HN. exact (run_fixpoint_G N HN st tidx now st' ev). Qed.

(* ------------------------------------------------------------------------------------------------ *)
(* DISPATCH_SOURCE_TYPE_INTERVAL: _dispatch_interval_config_create *)
Section ICfg.
Local Ltac Zify.zify_post_hook ::= Z.div_mod_to_equations.

(* DISPATCH_SOURCE_TYPE_INTERVAL: for every interval count and leeway that does not make the library crash the client:
   interval between one unit and one year, the first target is the first multiple of the interval after now on the
   uptime clock, target <= deadline <= target + interval (also when interval * leeway wraps in 64 bits, which it does for
   intervals above 213 days: the leeway is then smaller than asked, never larger than the interval) *)
Theorem interval_config_spec start interval leeway animation now_up c tg dl itv :
  in64 interval -> in64 leeway -> 1 <= now_up < MAXV ->
  interval_config_create start interval leeway animation now_up = Some (c, tg, dl, itv) ->
  c = 0 /\
  (start = FOREVER -> tg = INT64_MAX /\ dl = INT64_MAX /\ itv = INT64_MAX) /\
  (start <> FOREVER ->
     start = 0 /\ 1 <= interval /\
     (if animation then NSEC_PER_FRAME else 1000000) <= itv <= FOREVER_NSEC /\
     tg mod itv = 0 /\ now_up < tg <= now_up + itv /\ 1 <= tg < INT64_MAX /\ tg <= dl <= tg + itv).
Proof.
  unfold in64, MAXV, interval_config_create, DISPATCH_TIME_FOREVER, DISPATCH_TIME_NOW, FOREVER, f_dispatch_time_nano2mach,
    NSEC_PER_FRAME, FOREVER_NSEC, INT64_MAX, UINT64_MAX.
  intros Hi Hl Hn.
  destruct (Z.eqb_spec start 18446744073709551615) as [->|Ns].
  { intros E. inversion E; subst. repeat split; auto; try lia. }
  destruct (Z.eqb_spec start 0) as [->|N0]; cbn [negb]; [|discriminate].
  destruct (Z.eqb_spec interval 0) as [I0|I0]; [discriminate|].
  set (unit := if animation then 16666666 else 1000000).
  assert (Hu : unit = 16666666 \/ unit = 1000000) by (unfold unit; destruct animation; auto).
  set (i1 := if interval <=? 31536000000000000 / unit then u64 (interval * unit) else 31536000000000000).
  assert (Hi1 : unit <= i1 <= 31536000000000000).
  { unfold i1. destruct (Z.leb_spec interval (31536000000000000 / unit)) as [L|L].
    - assert (interval * unit <= 31536000000000000) by (destruct Hu as [-> | ->]; lia).
      assert (unit <= interval * unit) by (destruct Hu as [-> | ->]; lia).
      rewrite u64_id by lia. lia.
    - destruct Hu as [-> | ->]; lia. }
  clearbody i1.
  set (s1 := u64 (now_up + i1)). assert (Es1 : s1 = now_up + i1) by (unfold s1; rewrite u64_id; lia).
  set (s2 := u64 (s1 - s1 mod i1)).
  assert (Es2 : s2 = s1 - s1 mod i1) by (unfold s2; rewrite u64_id; lia).
  assert (Hs2 : s2 mod i1 = 0 /\ now_up < s2 <= now_up + i1).
  { rewrite Es2, Es1. split; [|lia].
    rewrite Zminus_mod, Z.mod_mod, Z.sub_diag by lia. apply Z.mod_0_l. lia. }
  set (lw := if leeway <=? 1000 then Some (u64 (i1 * leeway) / 1000)
             else if negb (leeway =? 18446744073709551615) then None
             else if animation then Some 16666666 else Some (i1 / 2)).
  assert (Hlw : forall l, lw = Some l -> 0 <= l <= i1).
  { intros l. unfold lw. destruct (Z.leb_spec leeway 1000) as [L|L].
    - intros E. inversion E; subst l. pose proof (u64_range (i1 * leeway)).
      assert (u64 (i1 * leeway) <= i1 * leeway) by (unfold u64; apply Z.mod_le; nia).
      assert (i1 * leeway <= i1 * 1000) by nia.
      split; [lia|]. apply Z.div_le_upper_bound; lia.
    - destruct (negb (leeway =? 18446744073709551615)); [discriminate|].
      destruct animation; intros E; inversion E; subst l; unfold unit in *; lia. }
  destruct lw as [l|] eqn:El; [|discriminate].
  specialize (Hlw l eq_refl).
  intros E. inversion E; subst c tg dl itv.
  rewrite (u64_id (s2 + l)) by lia.
  split; [reflexivity|]. split; [intros X; contradiction|]. intros _.
  fold unit. repeat split; try lia.
Qed.
End ICfg.
