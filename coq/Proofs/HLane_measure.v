(* HLane_measure.v — termination of the hierarchy model: a potential function on the states of Model/HLane.v that every
   step of a thread inside a call or a drain and every worker pick-up strictly decreases, and that a new dispatch_async
   raises by a constant depending on the depth of its lane.  Hence an execution with given submissions has a bounded
   number of other steps: no livelock.  What has to be paid for:
     the DIRTY retry of a bottom and the invoke_finish re-enqueue of an inner lane (release of the lock, push of the lane
       on its target again, possibly a MAKE_DIRTY wakeup of the target — which the same thread holds —, later a second
       nested invoke): by the MAKE_DIRTY wakeup that set DIRTY while the lane was locked (weight T l on DIRTY of a LOCKED
       lane: DIRTY on an unlocked lane is cleared by the next lock for free);
     the chain of pushes a wakeup can trigger (lane on its target, target on its own target, ... root queue): by the push
       itself, whose potential 2 * T l dominates the potentials one level down: T l = 24 * 3 ^ depth l;
     the try_lock restart: by the distance of the override floor to its maximum;
     nested frames: an entry `Lane c` in a list weighs 18, enough for pop, nested lock, tail, unlock and return.
   Together with no_stuck_thread / quiescent_all_done: a state in which nothing is enabled and no bottom sits in a root
   queue has run every submitted item of every lane exactly once, in order. *)
From Coq Require Import ZArith Bool List Lia.
From Verif Require Import Word Bits Fields DqFields Conc Gen_consts Gen_dqstate Lane_fields HLane_fields HLane HLane_inv HLane_proofs HLane_progress.
Import ListNotations.
Local Open Scope Z_scope.

Definition EI := 8.     (* an item in a list *)
Definition EL := 18.    (* a lane object in its target's list *)
Definition RR := 20.    (* a bottom in its root queue *)

Definition fl_pot (fl : Z) : Z := 8 - Z.max (-1) (Z.min fl 8).

Fixpoint sumL {A} (f : A -> Z) (L : list A) : Z := match L with [] => 0 | t :: L' => f t + sumL f L' end.

Lemma sumL_ext {A} (f g : A -> Z) L : (forall t, In t L -> f t = g t) -> sumL f L = sumL g L.
Proof. induction L as [|a L IH]; cbn [sumL]; intros H; [reflexivity|]. rewrite (H a (or_introl eq_refl)), IH; [reflexivity|]. intros t Ht. apply H. right. exact Ht. Qed.

Lemma sumL_nonneg {A} (f : A -> Z) L : (forall t, 0 <= f t) -> 0 <= sumL f L.
Proof. intros H. induction L as [|a L IH]; cbn [sumL]; [lia|]. specialize (H a). lia. Qed.

Lemma sumL_change (f g : Z -> Z) t L : NoDup L -> In t L -> (forall u, u <> t -> g u = f u) ->
  sumL g L = sumL f L - f t + g t.
Proof.
  induction L as [|a L IH]; intros ND Hin H; [contradiction|]. inversion ND as [|x l Hx Hl]; subst. cbn [sumL].
  destruct (Z.eq_dec a t) as [->|N].
  - rewrite (sumL_ext g f L); [lia|]. intros u Hu. apply H. intros ->. contradiction.
  - destruct Hin as [E|Hin]; [congruence|]. rewrite (IH Hl Hin H), (H a N). lia.
Qed.

Section Measure.
  Variable F : forest.
  Hypothesis FOK : forest_ok F.

  Definition pw (l : Z) : Z := 3 ^ Z.of_nat (depth F l).
  Definition Tc (l : Z) : Z := 24 * pw l.

  Lemma pw_pos l : 1 <= pw l.
  Proof. unfold pw. assert (0 < 3 ^ Z.of_nat (depth F l)) by (apply Z.pow_pos_nonneg; lia). lia. Qed.

  Lemma pw_target l p : target F l = Some p -> 3 * pw p <= pw l.
  Proof.
    intros E. destruct FOK as (A & _). destruct (A l p E) as [H _]. unfold pw.
    replace (Z.of_nat (depth F l)) with (Z.of_nat (depth F p) + 1 + (Z.of_nat (depth F l) - Z.of_nat (depth F p) - 1)) by lia.
    rewrite !Z.pow_add_r by lia. change (3 ^ 1) with 3.
    assert (1 <= 3 ^ (Z.of_nat (depth F l) - Z.of_nat (depth F p) - 1)).
    { assert (0 < 3 ^ (Z.of_nat (depth F l) - Z.of_nat (depth F p) - 1)) by (apply Z.pow_pos_nonneg; lia). lia. }
    assert (0 < 3 ^ Z.of_nat (depth F p)) by (apply Z.pow_pos_nonneg; lia). nia.
  Qed.

  Definition phi (f : frame) : Z :=
    let '(l, p) := f in
    match p with
    | PA_xchg w _ => (match w with WItem => EI | WLane _ => EL end) + 2 * Tc l + 5
    | PA_link _ _ _ => 2 * Tc l + 4
    | PA_probe _ _ => 2 * Tc l + 3
    | PA_wake _ _ => 2 * Tc l + 2
    | PA_tpush _ => Tc l
    | PW_lock fl => 6 + fl_pot fl
    | PW_tail _ => 5
    | PW_head _ => 4
    | PW_pop _ => 3
    | PW_run _ (Item _) _ => 7
    | PW_run _ (Lane _) _ => 20
    | PW_incall _ _ _ => 6
    | PW_invoking _ _ _ => 5
    | PW_next _ _ => 5
    | PW_unlock _ => 3
    | PW_xor _ => 2
    | PW_finish _ => Tc l + 1
    end.

  Lemma fl_pot_range fl : 0 <= fl_pot fl <= 9.
  Proof. unfold fl_pot. lia. Qed.

  Lemma phi_nonneg f : 0 <= phi f.
  Proof.
    destruct f as [l p]. pose proof (pw_pos l). unfold phi, Tc, EI, EL. destruct p; try lia.
    - destruct w; lia.
    - pose proof (fl_pot_range floor). lia.
    - destruct e; lia.
  Qed.

  Definition fsum (k : list frame) : Z := sumL phi k.
  Lemma fsum_nonneg k : 0 <= fsum k.
  Proof. apply sumL_nonneg. apply phi_nonneg. Qed.
  Lemma fsum_cons f k : fsum (f :: k) = phi f + fsum k.
  Proof. reflexivity. Qed.
  Lemma fsum_ret k : fsum (ret k) = fsum k.
  Proof. destruct k as [|[x q] r]; [reflexivity|]. destruct q; reflexivity. Qed.

  Definition ew (e : entry) : Z := match e_ent e with Item _ => EI | Lane _ => EL end.
  Definition lw (k : list entry) : Z := sumL ew k.
  Lemma lw_app a b : lw (a ++ b) = lw a + lw b.
  Proof. unfold lw. induction a as [|x a IH]; cbn [app sumL]; [lia|]. rewrite IH. lia. Qed.
  Lemma lw_snoc a e : lw (a ++ [e]) = lw a + ew e.
  Proof. rewrite lw_app. unfold lw. cbn [sumL]. lia. Qed.
  Lemma lw_link k e : lw (link_ent k e) = lw k.
  Proof.
    unfold lw. induction k as [|x k IH]; cbn [link_ent]; [reflexivity|].
    destruct (ent_eqb (e_ent x) e && negb (e_linked x)) eqn:C; cbn [sumL]; [|rewrite IH; reflexivity].
    apply andb_true_iff in C. destruct C as [C _]. f_equal. unfold ew. cbn [e_ent].
    destruct (e_ent x) as [i|a], e as [j|b]; cbn [ent_eqb] in C; try discriminate; reflexivity.
  Qed.
  Lemma lw_nonneg k : 0 <= lw k.
  Proof. apply sumL_nonneg. intros e. unfold ew, EI, EL. destruct (e_ent e); lia. Qed.

  (* DIRTY weighs only while the lane is locked *)
  Definition dterm (s : gst) (l : Z) : Z :=
    let r := dec (st s l) in if f_owner r =? 0 then 0 else Tc l * f_d r.
  Definition lane_pot (s : gst) (l : Z) : Z := lw (lst s l) + dterm s l + RR * rootq s l.

  Definition Phi (Ls L : list Z) (s : gst) : Z := sumL (fun t => fsum (stk s t)) L + sumL (lane_pot s) Ls.

  Lemma dterm_enc s l r : st s l = enc r -> wfr r -> dterm s l = if f_owner r =? 0 then 0 else Tc l * f_d r.
  Proof. intros E W. unfold dterm. rewrite E, dec_enc by exact W. reflexivity. Qed.

  Lemma dterm_nonneg s l : 0 <= dterm s l.
  Proof.
    unfold dterm. pose proof (wfr_dec (st s l)) as W. unfold wfr in W. pose proof (pw_pos l). unfold Tc.
    destruct (f_owner (dec (st s l)) =? 0); [lia | nia].
  Qed.

  (* what a step of t on lane l does to the potential *)
  Lemma Phi_step Ls L s s' t l k' :
    NoDup L -> NoDup Ls -> In t L -> In l Ls ->
    stk s' = upd (stk s) t k' ->
    (forall x, x <> l -> lst s' x = lst s x /\ st s' x = st s x /\ rootq s' x = rootq s x) ->
    Phi Ls L s' = Phi Ls L s - fsum (stk s t) + fsum k' - lane_pot s l + lane_pot s' l.
  Proof.
    intros NDL NDs Ht Hl Ek Ho. unfold Phi.
    rewrite (sumL_change (fun u => fsum (stk s u)) (fun u => fsum (stk s' u)) t L NDL Ht).
    - rewrite (sumL_change (lane_pot s) (lane_pot s') l Ls NDs Hl).
      + rewrite Ek, upd_same. lia.
      + intros x N. destruct (Ho x N) as (A & B & C). unfold lane_pot, dterm. rewrite A, B, C. reflexivity.
    - intros u N. rewrite Ek, upd_other by exact N. reflexivity.
  Qed.

  Ltac sproj := cbn [st lst rootq stk nextid started token wakers set_st set_lst set_rootq set_stk set_nextid set_started set_token set_wakers].
  Ltac sproj_in H := cbn [st lst rootq stk nextid started token wakers set_st set_lst set_rootq set_stk set_nextid set_started set_token set_wakers] in H.

  (* the word after a wakeup: same owner, DIRTY only ever set *)
  Lemma wake_word r0 q d new rv :
    wfr r0 -> 0 <= q < 8 -> w_wake q d (enc r0) = Commit new rv ->
    exists r', new = enc r' /\ wfr r' /\ f_owner r' = f_owner r0 /\ f_d r0 <= f_d r' <= 1.
  Proof.
    intros W Q H. pose proof W as W0. unfold wfr in W0. unfold w_wake, ENQUEUED in H.
    pose proof (merged_wf r0 q W Q) as Wm. unfold wfr in Wm.
    destruct (merged_same r0 q) as (M1 & M2 & M3 & M4 & M5 & M6 & M7 & M8 & M9 & M10).
    destruct d.
    - rewrite (wakeup_fields r0 q 3 1 W Q eq_refl) in H. cbv zeta in H. injection H as <- _.
      eexists. split; [reflexivity|]. split; [apply wfr_mk'; destruct (can_enqueue r0); lia|].
      unfold mk; cbn [f_owner f_d]. split; [exact M1 | lia].
    - rewrite (wakeup_fields_nodirty r0 q 1 1 W Q eq_refl) in H. cbv zeta in H.
      destruct (can_enqueue r0).
      + injection H as <- _. eexists. split; [reflexivity|]. split; [apply wfr_mk'; lia|].
        unfold mk; cbn [f_owner f_d]. split; [exact M1 | lia].
      + destruct (f_mq r0 <? q); [|discriminate]. injection H as <- _. exists (merged r0 q).
        split; [reflexivity|]. split; [apply merged_wf; assumption|]. split; [exact M1 | lia].
  Qed.

  Definition dbit (s : gst) (l : Z) : Z := f_d (dec (st s l)).
  (* the acquire-xor is only reached with DIRTY set, and nobody can clear it meanwhile *)
  Definition XD (s : gst) : Prop := forall t l o r, stk s t = (l, PW_xor o) :: r -> dbit s l = 1.
  Definition Inv3 (s : gst) : Prop := Inv F s /\ XD s.

  Section Step.
    Variable Ls L : list Z.
    Hypothesis NDs : NoDup Ls.
    Hypothesis NDL : NoDup L.

    Lemma begin_async_raises s t l q s' :
      In t L -> begin F s t (CAsync l q) = Some s' -> Phi Ls L s' = Phi Ls L s + phi (l, PA_xchg WItem 0).
    Proof.
      intros Ht B. cbn [begin] in B. destruct ((0 <=? q) && (q <? 8) && in_callout (stk s t)); [|discriminate]. injection B as <-.
      unfold Phi. rewrite (sumL_change (fun u => fsum (stk s u)) (fun u => fsum (stk (set_stk s t ((l, PA_xchg WItem (push_qos F l q)) :: stk s t)) u)) t L NDL Ht).
      - sproj. rewrite upd_same, fsum_cons. cbn [phi]. cbn [lane_pot]. unfold lane_pot, dterm. sproj. lia.
      - intros u N. sproj. rewrite upd_other by exact N. reflexivity.
    Qed.

    Lemma begin_worker_decreases s t b fl s' :
      Inv F s -> In t L -> In b Ls -> begin F s t (CWorker b fl) = Some s' -> Phi Ls L s' + 5 <= Phi Ls L s.
    Proof.
      intros I Ht Hb B. cbn [begin] in B. destruct (stk s t) eqn:E; [|discriminate]. destruct (target F b); [discriminate|].
      destruct (0 <? rootq s b); [|discriminate]. injection B as <-.
      rewrite (Phi_step Ls L s _ t b [(b, PW_lock fl)] NDL NDs Ht Hb); [| sproj; reflexivity | intros x N; sproj; rewrite ?upd_other by exact N; auto].
      rewrite E. unfold lane_pot, dterm. sproj. rewrite upd_same. unfold fsum; cbn [sumL phi]. pose proof (fl_pot_range fl). unfold RR. lia.
    Qed.

    Lemma step_decreases s t o s' :
      Inv3 s -> In t L -> (forall l p, In (l, p) (stk s t) -> In l Ls) -> gstep F s t o = Some s' ->
      Phi Ls L s' + 1 <= Phi Ls L s.
    Proof.
      intros [I X] Ht Hfr B. pose proof I as [Li T]. unfold gstep in B.
      destruct (stk s t) as [|[l p] r] eqn:E; [discriminate|].
      assert (Hl : In l Ls) by (apply (Hfr l p); left; reflexivity).
      destruct (Li l) as [rl G]. pose proof (g_enc F s l rl G) as Genc. pose proof (g_wf F s l rl G) as Gwf.
      pose proof Gwf as W0. unfold wfr in W0.
      pose proof (pw_pos l) as Pl. pose proof (fsum_nonneg r) as Fr.
      pose proof (dterm_nonneg s l) as Dn.
      destruct p.
      - (* PA_xchg *)
        destruct w as [|c]; injection B as <-.
        + rewrite (Phi_step Ls L s _ t l ((l, PA_link (Item (nextid s l)) (match lst s l with [] => true | _ => false end) qos) :: r) NDL NDs Ht Hl);
            [| sproj; reflexivity | intros x N; sproj; rewrite ?upd_other by exact N; auto].
          rewrite E, !fsum_cons. unfold lane_pot, dterm. sproj. rewrite upd_same, lw_snoc. unfold ew. cbn [e_ent phi]. unfold Tc, EI, EL. lia.
        + rewrite (Phi_step Ls L s _ t l ((l, PA_link (Lane c) (match lst s l with [] => true | _ => false end) qos) :: r) NDL NDs Ht Hl);
            [| sproj; reflexivity | intros x N; sproj; rewrite ?upd_other by exact N; auto].
          rewrite E, !fsum_cons. unfold lane_pot, dterm. sproj. rewrite upd_same, lw_snoc. unfold ew. cbn [e_ent phi]. unfold Tc, EI, EL. lia.
      - (* PA_link *)
        destruct was_empty; [|destruct o]; injection B as <-.
        + rewrite (Phi_step Ls L s _ t l ((l, PA_probe qos true) :: r) NDL NDs Ht Hl); [| sproj; reflexivity | intros x N; sproj; rewrite ?upd_other by exact N; auto].
          rewrite E, !fsum_cons. unfold lane_pot, dterm. sproj. rewrite upd_same, lw_link. cbn [phi]. lia.
        + rewrite (Phi_step Ls L s _ t l ((l, PA_probe qos false) :: r) NDL NDs Ht Hl); [| sproj; reflexivity | intros x N; sproj; rewrite ?upd_other by exact N; auto].
          rewrite E, !fsum_cons. unfold lane_pot, dterm. sproj. rewrite upd_same, lw_link. cbn [phi]. lia.
        + rewrite (Phi_step Ls L s _ t l (ret r) NDL NDs Ht Hl); [| sproj; reflexivity | intros x N; sproj; rewrite ?upd_other by exact N; auto].
          rewrite E, fsum_cons, fsum_ret. unfold lane_pot, dterm. sproj. rewrite upd_same, lw_link. cbn [phi]. unfold Tc. lia.
      - (* PA_probe *)
        injection B as <-. destruct (lst s l) eqn:Ll.
        + rewrite (Phi_step Ls L s _ t l (ret r) NDL NDs Ht Hl); [| sproj; reflexivity | intros x N; sproj; rewrite ?upd_other by exact N; auto].
          rewrite E, fsum_cons, fsum_ret. unfold lane_pot, dterm. sproj. rewrite Ll. cbn [phi]. unfold Tc. lia.
        + rewrite (Phi_step Ls L s _ t l ((l, PA_wake (wakeup_qos F l qos) dirty) :: r) NDL NDs Ht Hl); [| sproj; reflexivity | intros x N; sproj; rewrite ?upd_other by exact N; auto].
          rewrite E, !fsum_cons. unfold lane_pot, dterm. sproj. cbn [phi]. lia.
      - (* PA_wake *)
        destruct (tinv_top F s t l _ r (T t) E) as (_ & _ & _ & _ & (_ & Bq & _) & _). pose proof (Bq qos eq_refl) as Q.
        rewrite Genc in B. destruct (w_wake qos dirty (enc rl)) as [new rv|rv2 ops2|ops|tg] eqn:Ww; try discriminate.
        + destruct (wake_word rl qos dirty new rv Gwf Q Ww) as (r' & -> & W' & O' & D').
          assert (Dt : forall s1, st s1 l = enc r' -> dterm s1 l <= dterm s l + Tc l).
          { intros s1 E1. rewrite (dterm_enc s1 l r' E1 W'), (dterm_enc s l rl Genc Gwf), O'. unfold Tc. destruct (f_owner rl =? 0); nia. }
          injection B as <-. destruct (enq_flipped (enc rl) (enc r')).
          * rewrite (Phi_step Ls L s _ t l ((l, PA_tpush (f_dq_state_max_qos (enc r'))) :: r) NDL NDs Ht Hl); [| sproj; reflexivity | intros x N; sproj; rewrite ?upd_other by exact N; auto].
            rewrite E, !fsum_cons. unfold lane_pot. sproj.
            match goal with |- context [dterm ?s1 l] => match s1 with s => fail 1 | _ => pose proof (Dt s1 ltac:(sproj; apply upd_same)) end end.
            cbn [phi]. unfold Tc in *. lia.
          * rewrite (Phi_step Ls L s _ t l (ret r) NDL NDs Ht Hl); [| sproj; reflexivity | intros x N; sproj; rewrite ?upd_other by exact N; auto].
            rewrite E, fsum_cons, fsum_ret. unfold lane_pot. sproj.
            match goal with |- context [dterm ?s1 l] => match s1 with s => fail 1 | _ => pose proof (Dt s1 ltac:(sproj; apply upd_same)) end end.
            cbn [phi]. unfold Tc in *. lia.
        + destruct dirty; [discriminate|]. injection B as <-.
          rewrite (Phi_step Ls L s _ t l (ret r) NDL NDs Ht Hl); [| sproj; reflexivity | intros x N; sproj; rewrite ?upd_other by exact N; auto].
          rewrite E, fsum_cons, fsum_ret. unfold lane_pot, dterm. sproj. cbn [phi]. unfold Tc. lia.
      - (* PA_tpush *)
        injection B as <-. destruct (target F l) as [p0|] eqn:Tg.
        + rewrite (Phi_step Ls L s _ t l ((p0, PA_xchg (WLane l) (push_qos F p0 qos)) :: r) NDL NDs Ht Hl); [| sproj; reflexivity | intros x N; sproj; auto].
          rewrite E, !fsum_cons. unfold lane_pot, dterm. sproj. cbn [phi]. pose proof (pw_target l p0 Tg). pose proof (pw_pos p0). unfold Tc, EL. lia.
        + rewrite (Phi_step Ls L s _ t l (ret r) NDL NDs Ht Hl); [| sproj; reflexivity | intros x N; sproj; rewrite ?upd_other by exact N; auto].
          rewrite E, fsum_cons, fsum_ret. unfold lane_pot, dterm. sproj. rewrite upd_same. cbn [phi]. unfold Tc, RR. lia.
      - (* PW_lock *)
        destruct (top_drain_facts F s t l _ r rl I E eq_refl G) as (K & Vt & Fl & En). cbn [locked_pc] in Fl. destruct Fl as (O & Ib & Wq).
        unfold w_lock in B. rewrite Genc, (lock_fields rl t floor 0 Gwf Vt) in B.
        assert (LF : lock_free rl = true) by (unfold lock_free; rewrite O, (g_em F s l rl G), Ib, (g_hi F s l rl G), Wq; reflexivity).
        rewrite LF in B. destruct ((f_role rl mod 2 =? 1) && (floor <? f_mq rl)) eqn:OV.
        + injection B as <-. apply andb_true_iff in OV. destruct OV as [_ OV]. apply Z.ltb_lt in OV.
          rewrite (Phi_step Ls L s _ t l ((l, PW_lock (f_dq_state_max_qos (enc rl))) :: r) NDL NDs Ht Hl); [| sproj; reflexivity | intros x N; sproj; auto].
          rewrite E, !fsum_cons. unfold lane_pot, dterm. sproj. cbn [phi]. rewrite (max_qos_f rl Gwf). unfold fl_pot. lia.
        + rewrite En, Wq, OWN_from_lock in B. change (OWN =? 0) with false in B. cbv iota in B. injection B as <-.
          rewrite (Phi_step Ls L s _ t l ((l, PW_tail OWN) :: r) NDL NDs Ht Hl); [| sproj; reflexivity | intros x N; sproj; rewrite ?upd_other by exact N; auto].
          rewrite E, !fsum_cons. unfold lane_pot. sproj.
          rewrite (dterm_enc s l rl Genc Gwf), O.
          match goal with |- context [dterm ?s1 l] => rewrite (dterm_enc s1 l (mk t 0 1 (f_mq rl) 0 (f_role rl) 0 0 0 4096 1 0)) end;
            [| sproj; apply upd_same | apply wfr_mk'; unfold valid_tid in Vt; lia].
          unfold mk; cbn [f_owner f_d phi]. change (0 =? 0) with true. cbv iota. rewrite Z.mul_0_r. pose proof (fl_pot_range floor). destruct (t =? 0); lia.
      - (* PW_tail *)
        injection B as <-.
        rewrite (Phi_step Ls L s _ t l ((l, match lst s l with [] => PW_unlock (Z.lor (Z.land owned ENQUEUED) SERIAL_OWNED) | _ => PW_head owned end) :: r) NDL NDs Ht Hl); [| sproj; reflexivity | intros x N; sproj; auto].
        rewrite E, !fsum_cons. unfold lane_pot, dterm. sproj. destruct (lst s l); cbn [phi]; lia.
      - (* PW_head *)
        destruct (lst s l) as [|e0 l0]; [discriminate|]. destruct (e_linked e0); [|discriminate]. injection B as <-.
        rewrite (Phi_step Ls L s _ t l ((l, PW_pop owned) :: r) NDL NDs Ht Hl); [| sproj; reflexivity | intros x N; sproj; auto].
        rewrite E, !fsum_cons. unfold lane_pot, dterm. sproj. cbn [phi]. lia.
      - (* PW_pop *)
        assert (Pop : forall e0 rest more, lst s l = e0 :: rest ->
                  Phi Ls L (set_stk (match e_ent e0 with Lane l' => set_token (set_lst s l rest) l' (Some (Some t)) | Item _ => set_lst s l rest end) t
                                    ((l, PW_run owned (e_ent e0) more) :: r)) + 1 <= Phi Ls L s).
        { intros e0 rest more Ll.
          rewrite (Phi_step Ls L s _ t l ((l, PW_run owned (e_ent e0) more) :: r) NDL NDs Ht Hl);
            [| destruct (e_ent e0); sproj; reflexivity | intros x N; destruct (e_ent e0); sproj; rewrite ?upd_other by exact N; auto].
          rewrite E, !fsum_cons. unfold lane_pot, dterm. rewrite Ll. unfold lw at 1. cbn [sumL]. fold (lw rest). unfold ew.
          destruct (e_ent e0); sproj; rewrite upd_same; cbn [phi]; unfold EI, EL; lia. }
        destruct (lst s l) as [|e0 [|e2 l0]] eqn:Ll; [discriminate| |].
        + injection B as <-. apply (Pop e0 [] false eq_refl).
        + destruct (e_linked e2); [|discriminate]. injection B as <-. apply (Pop e0 (e2 :: l0) true eq_refl).
      - (* PW_run *)
        injection B as <-. destruct e as [i|c].
        + rewrite (Phi_step Ls L s _ t l ((l, PW_incall owned i more) :: r) NDL NDs Ht Hl); [| sproj; reflexivity | intros x N; sproj; auto].
          rewrite E, !fsum_cons. unfold lane_pot, dterm. sproj. cbn [phi]. lia.
        + rewrite (Phi_step Ls L s _ t l ((c, PW_lock 0) :: (l, PW_invoking owned c more) :: r) NDL NDs Ht Hl); [| sproj; reflexivity | intros x N; sproj; auto].
          rewrite E, !fsum_cons. unfold lane_pot, dterm. sproj. cbn [phi]. unfold fl_pot. lia.
      - (* PW_incall *)
        injection B as <-.
        rewrite (Phi_step Ls L s _ t l ((l, PW_next owned more) :: r) NDL NDs Ht Hl); [| sproj; reflexivity | intros x N; sproj; auto].
        rewrite E, !fsum_cons. unfold lane_pot, dterm. sproj. cbn [phi]. lia.
      - discriminate.
      - (* PW_next *)
        destruct more; injection B as <-.
        + rewrite (Phi_step Ls L s _ t l ((l, PW_pop owned) :: r) NDL NDs Ht Hl); [| sproj; reflexivity | intros x N; sproj; auto].
          rewrite E, !fsum_cons. unfold lane_pot, dterm. sproj. cbn [phi]. lia.
        + rewrite (Phi_step Ls L s _ t l ((l, match lst s l with [] => PW_unlock (Z.lor (Z.land owned ENQUEUED) SERIAL_OWNED) | _ => PW_head owned end) :: r) NDL NDs Ht Hl); [| sproj; reflexivity | intros x N; sproj; auto].
          rewrite E, !fsum_cons. unfold lane_pot, dterm. sproj. destruct (lst s l); cbn [phi]; lia.
      - (* PW_unlock *)
        assert (owned = OWN) by (apply (owned_top F s t l _ r owned (T t) E); reflexivity). subst owned.
        destruct (top_drain_facts F s t l _ r rl I E eq_refl G) as (K & Vt & Fl & En). cbn [locked_pc] in Fl. destruct Fl as (O & Ib & Wq).
        unfold w_unlock in B. rewrite Genc in B. change OWN with (18014398509481984 + 2199023255552 + 2147483648 * 1) in B.
        rewrite (unlock_fields rl 1 Gwf (g_hi F s l rl G) Ib Wq) in B by lia.
        destruct (Z.eqb_spec (f_d rl) 1) as [D|D]; injection B as <-.
        + rewrite (Phi_step Ls L s _ t l ((l, PW_xor (18014398509481984 + 2199023255552 + 2147483648 * 1)) :: r) NDL NDs Ht Hl); [| sproj; reflexivity | intros x N; sproj; auto].
          rewrite E, !fsum_cons. unfold lane_pot, dterm. sproj. cbn [phi]. lia.
        + rewrite (Phi_step Ls L s _ t l (ret r) NDL NDs Ht Hl); [| sproj; reflexivity | intros x N; sproj; rewrite ?upd_other by exact N; auto].
          rewrite E, fsum_cons, fsum_ret. unfold lane_pot. sproj.
          match goal with |- context [dterm ?s1 l] => match s1 with s => fail 1 | _ =>
            rewrite (dterm_enc s1 l (mk 0 0 (f_enq rl - 1) 0 0 (f_role rl) (f_em rl) 0 (f_pb rl) 4095 0 0)) end end;
            [| sproj; apply upd_same | apply wfr_mk'; lia].
          unfold mk; cbn [f_owner f_d phi]. change (0 =? 0) with true. cbv iota. lia.
      - (* PW_xor *)
        injection B as <-.
        destruct (top_drain_facts F s t l _ r rl I E eq_refl G) as (K & Vt & Fl & En). cbn [locked_pc] in Fl. destruct Fl as (O & Ib & Wq).
        assert (Dl : f_d rl = 1) by (pose proof (X t l owned r E) as H; unfold dbit in H; rewrite Genc, dec_enc in H by exact Gwf; exact H).
        unfold w_xor, DIRTY. rewrite Genc, (xor_dirty_fields rl Gwf).
        set (r' := mk (f_owner rl) (f_tr rl) (f_enq rl) (f_mq rl) (f_ov rl) (f_role rl) (f_em rl) (1 - f_d rl) (f_pb rl) (f_wq rl) (f_ib rl) (f_hi rl)).
        assert (W' : wfr r') by (subst r'; apply wfr_mk'; lia).
        rewrite (Phi_step Ls L s _ t l ((l, match target F l with None => PW_tail owned | Some _ => PW_finish owned end) :: r) NDL NDs Ht Hl); [| sproj; reflexivity | intros x N; sproj; rewrite ?upd_other by exact N; auto].
        rewrite E, !fsum_cons. unfold lane_pot. sproj.
        rewrite (dterm_enc s l rl Genc Gwf).
        match goal with |- context [dterm ?s1 l] => rewrite (dterm_enc s1 l r') end; [| sproj; apply upd_same | exact W'].
        subst r'. unfold mk; cbn [f_owner f_d]. rewrite O, Dl. unfold valid_tid in Vt.
        replace (t =? 0) with false by (symmetry; apply Z.eqb_neq; lia).
        destruct (target F l); cbn [phi]; unfold Tc; lia.
      - (* PW_finish *)
        assert (owned = OWN) by (apply (owned_top F s t l _ r owned (T t) E); reflexivity). subst owned.
        destruct (top_drain_facts F s t l _ r rl I E eq_refl G) as (K & Vt & Fl & En). cbn [locked_pc] in Fl. destruct Fl as (O & Ib & Wq).
        unfold w_finish, ENQUEUED in B. rewrite Genc in B. change OWN with (18014398509481984 + 2199023255552 + 2147483648 * 1) in B.
        rewrite (finish_fields rl Gwf (g_hi F s l rl G) Ib Wq En (g_em F s l rl G)) in B.
        set (r' := mk 0 0 1 (f_mq rl) 0 (f_role rl) 0 1 (f_pb rl) 4095 0 0) in *.
        assert (W' : wfr r') by (subst r'; apply wfr_mk'; lia).
        injection B as <-.
        match goal with |- context [if ?c then _ else _] => destruct c end.
        + rewrite (Phi_step Ls L s _ t l ((l, PA_tpush (f_dq_state_max_qos (enc r'))) :: r) NDL NDs Ht Hl); [| sproj; reflexivity | intros x N; sproj; rewrite ?upd_other by exact N; auto].
          rewrite E, !fsum_cons. unfold lane_pot. sproj.
          match goal with |- context [dterm ?s1 l] => match s1 with s => fail 1 | _ => rewrite (dterm_enc s1 l r') end end; [| sproj; apply upd_same | exact W'].
          subst r'. unfold mk; cbn [f_owner phi]. change (0 =? 0) with true. cbv iota. lia.
        + rewrite (Phi_step Ls L s _ t l (ret r) NDL NDs Ht Hl); [| sproj; reflexivity | intros x N; sproj; rewrite ?upd_other by exact N; auto].
          rewrite E, fsum_cons, fsum_ret. unfold lane_pot. sproj.
          match goal with |- context [dterm ?s1 l] => match s1 with s => fail 1 | _ => rewrite (dterm_enc s1 l r') end end; [| sproj; apply upd_same | exact W'].
          subst r'. unfold mk; cbn [f_owner phi]. change (0 =? 0) with true. cbv iota. unfold Tc. lia.
    Qed.
  End Step.

  (* ---------------------------------------------------------------- the extra invariant *)
  Lemma gstep_st s u o s' l p r x :
    gstep F s u o = Some s' -> stk s u = (l, p) :: r ->
    x <> l \/ (is_drain p = false /\ forall q d, p <> PA_wake q d) -> st s' x = st s x.
  Proof.
    intros B E H. unfold gstep in B. rewrite E in B.
    destruct p; try discriminate;
      try (destruct H as [H|[H _]]; [|discriminate]);
      repeat match type of B with
             | context [match ?y with _ => _ end] => destruct y; try discriminate
             end;
      try (injection B as <-; sproj; rewrite ?upd_other by exact H; reflexivity).
    all: destruct H as [H|[_ H]]; [|exfalso; eapply H; reflexivity].
    all: injection B as <-; sproj; rewrite ?upd_other by exact H; reflexivity.
  Qed.

  Lemma ret_not_xor l p r x ow k : shape F ((l, p) :: r) -> ret r <> (x, PW_xor ow) :: k.
  Proof.
    intros S H. destruct r as [|[y q] r']; [discriminate|].
    assert (Q : (exists o i m, q = PW_incall o i m) \/ (exists o c m, q = PW_invoking o c m)).
    { cbn [shape] in S. destruct (is_drain p).
      - destruct S as [C _]. cbn [chain] in C. destruct C as (_ & _ & _ & (_ & o & m & ->) & _). right. eauto.
      - destruct S as [_ S]. exact S. }
    destruct Q as [(o & i & m & ->)|(o & c & m & ->)]; cbn [ret] in H; discriminate.
  Qed.

  Lemma gstep_top_xor s u o s' x ow k :
    Inv F s -> gstep F s u o = Some s' -> stk s' u = (x, PW_xor ow) :: k -> dbit s' x = 1.
  Proof.
    intros I B H. pose proof I as [Li T]. unfold gstep in B.
    destruct (stk s u) as [|[l p] r] eqn:E; [discriminate|].
    destruct (T u) as (_ & _ & _ & Sh & _). rewrite E in Sh. pose proof (ret_not_xor l p r x ow k Sh) as NR.
    destruct p; try discriminate;
      repeat match type of B with
             | context [match ?y with _ => _ end] => destruct y eqn:?; try discriminate
             end;
      try (injection B as <-; sproj_in H; rewrite upd_same in H; first [ discriminate | contradiction ]).
    (* what is left: the refused unlock *)
    injection B as <-. sproj_in H. rewrite upd_same in H. injection H as <- <- <-.
    destruct (Li l) as [rl G]. pose proof (g_enc F s l rl G) as Genc. pose proof (g_wf F s l rl G) as Gwf.
    assert (owned = OWN) by (apply (owned_top F s u l _ r owned (T u) E); reflexivity). subst owned.
    destruct (top_drain_facts F s u l _ r rl I E eq_refl G) as (K & Vt & Fl & En). cbn [locked_pc] in Fl. destruct Fl as (O & Ib & Wq).
    match goal with Hw : w_unlock _ _ = NoCommit _ _ |- _ => unfold w_unlock in Hw; rewrite Genc in Hw;
      change OWN with (18014398509481984 + 2199023255552 + 2147483648 * 1) in Hw;
      rewrite (unlock_fields rl 1 Gwf (g_hi F s l rl G) Ib Wq) in Hw by (pose proof Gwf as W0; unfold wfr in W0; lia);
      destruct (Z.eqb_spec (f_d rl) 1) as [D|D]; [|discriminate] end.
    unfold dbit. sproj. rewrite Genc, dec_enc by exact Gwf. exact D.
  Qed.

  Lemma XD_step s u o s' : Inv3 s -> valid_tid u -> gstep F s u o = Some s' -> XD s'.
  Proof.
    intros [I X] Vu B t x ow k H. destruct (Z.eq_dec t u) as [->|N]; [exact (gstep_top_xor s u o s' x ow k I B H)|].
    rewrite (gstep_frame F s u o s' t B N) in H. pose proof (X t x ow k H) as D. unfold dbit in *.
    pose proof I as [Li T].
    destruct (stk s u) as [|[l p] r] eqn:E; [unfold gstep in B; rewrite E in B; discriminate|].
    destruct (Z.eq_dec x l) as [->|Nx]; [|rewrite (gstep_st s u o s' l p r x B E (or_introl Nx)); exact D].
    (* u moves on the lane t is about to xor: u does not hold it, so it is in a push; only a wakeup writes the word *)
    assert (Dp : is_drain p = false).
    { destruct (is_drain p) eqn:Dp; [|reflexivity]. exfalso. apply N.
      apply (top_holder_unique F s u t l p r (PW_xor ow) I E Dp); [rewrite H; left; reflexivity | reflexivity]. }
    destruct p; try discriminate; try (rewrite (gstep_st s u o s' l _ r l B E); [exact D | right; split; [reflexivity | intros; discriminate]]).
    destruct (Li l) as [rl G]. pose proof (g_enc F s l rl G) as Genc. pose proof (g_wf F s l rl G) as Gwf.
    destruct (tinv_top F s u l _ r (T u) E) as (_ & _ & _ & _ & (_ & Bq & _) & _). pose proof (Bq qos eq_refl) as Q.
    unfold gstep in B. rewrite E in B. rewrite Genc in B, D. rewrite dec_enc in D by exact Gwf.
    destruct (w_wake qos dirty (enc rl)) as [new rv|rv2 ops2|ops|tg] eqn:Ww; try discriminate.
    - destruct (wake_word rl qos dirty new rv Gwf Q Ww) as (r' & -> & W' & _ & D').
      injection B as <-. assert (E' : forall s1, st s1 l = enc r' -> f_d (dec (st s1 l)) = 1) by (intros s1 ->; rewrite dec_enc by exact W'; lia).
      destruct (enq_flipped (enc rl) (enc r')); apply E'; sproj; apply upd_same.
    - destruct dirty; [discriminate|]. injection B as <-. sproj. rewrite Genc, dec_enc by exact Gwf. exact D.
  Qed.

  Lemma XD_begin s t c s' : Inv3 s -> begin F s t c = Some s' -> XD s'.
  Proof.
    intros [I X] B u x ow k H. destruct c as [l q|b fl]; cbn [begin] in B.
    - destruct ((0 <=? q) && (q <? 8) && in_callout (stk s t)); [|discriminate]. injection B as <-. unfold dbit. sproj. sproj_in H.
      destruct (Z.eq_dec u t) as [->|N]; [rewrite upd_same in H; discriminate | rewrite upd_other in H by exact N; exact (X u x ow k H)].
    - destruct (stk s t); [|discriminate]. destruct (target F b); [discriminate|]. destruct (0 <? rootq s b); [|discriminate].
      injection B as <-. unfold dbit. sproj. sproj_in H.
      destruct (Z.eq_dec u t) as [->|N]; [rewrite upd_same in H; discriminate | rewrite upd_other in H by exact N; exact (X u x ow k H)].
  Qed.

  Theorem step3_preserves s a s' : Inv3 s -> step F s a s' -> Inv3 s'.
  Proof.
    intros I3 St. split; [exact (step_preserves F FOK s a s' (proj1 I3) St)|].
    destruct a as [t c|t o]; destruct St as [V B]; [exact (XD_begin s t c s' I3 B) | exact (XD_step s t o s' I3 V B)].
  Qed.

  Theorem Inv3_reachable s : reach F s -> Inv3 s.
  Proof.
    apply invariant_lift.
    - intros s0 ->. split; [apply Inv_init; exact FOK|]. intros t l o r H. unfold init_state in H; cbn [stk] in H. discriminate.
    - intros s1 a s2 I H. exact (step3_preserves s1 a s2 I H).
  Qed.

  (* ---------------------------------------------------------------- executions confined to a finite set of lanes *)
  Section Confined.
    Variable Ls : list Z.
    Hypothesis closed : forall l p, In l Ls -> target F l = Some p -> In p Ls.

    Definition fr_ok (f : frame) : Prop :=
      In (fst f) Ls /\ match snd f with PA_xchg (WLane c) _ => In c Ls | PW_run _ (Lane c) _ => In c Ls | _ => True end.
    Definition ent_ok (e : entry) : Prop := match e_ent e with Lane c => In c Ls | Item _ => True end.
    Definition conf (s : gst) : Prop := (forall t, Forall fr_ok (stk s t)) /\ (forall l, Forall ent_ok (lst s l)).

    Lemma fr_ok_ret r : Forall fr_ok r -> Forall fr_ok (ret r).
    Proof.
      destruct r as [|[x q] r']; [auto|]. intros H. destruct q; try exact H.
      inversion H as [|f k Hf Hk]; subst. constructor; [|exact Hk]. destruct Hf as [A _]. split; [exact A | exact Logic.I].
    Qed.

    Lemma ent_ok_link k e : Forall ent_ok k -> Forall ent_ok (link_ent k e).
    Proof.
      induction k as [|x k IH]; cbn [link_ent]; intros H; [constructor|]. inversion H as [|a b Ha Hb]; subst.
      destruct (ent_eqb (e_ent x) e && negb (e_linked x)) eqn:C; constructor; auto.
      apply andb_true_iff in C. destruct C as [C _]. unfold ent_ok in *. cbn [e_ent].
      destruct (e_ent x) as [i|a], e as [j|b0]; cbn [ent_eqb] in C; try discriminate; try exact Logic.I.
      apply Z.eqb_eq in C. subst. exact Ha.
    Qed.

    Lemma conf_init : conf (init_state F).
    Proof. split; intros x; unfold init_state; cbn [stk lst]; constructor. Qed.

    Lemma conf_begin s t c s' :
      conf s -> match c with CAsync l _ => In l Ls | CWorker b _ => In b Ls end -> begin F s t c = Some s' -> conf s'.
    Proof.
      intros [C1 C2] Hc B. destruct c as [l q|b fl]; cbn [begin] in B.
      - destruct ((0 <=? q) && (q <? 8) && in_callout (stk s t)); [|discriminate]. injection B as <-. split; [|exact C2].
        intros u. sproj. destruct (Z.eq_dec u t) as [->|N]; [rewrite upd_same | rewrite upd_other by exact N; apply C1].
        constructor; [split; [exact Hc | exact Logic.I] | apply C1].
      - destruct (stk s t); [|discriminate]. destruct (target F b); [discriminate|]. destruct (0 <? rootq s b); [|discriminate].
        injection B as <-. split; [|exact C2].
        intros u. sproj. destruct (Z.eq_dec u t) as [->|N]; [rewrite upd_same | rewrite upd_other by exact N; apply C1].
        constructor; [split; [exact Hc | exact Logic.I] | constructor].
    Qed.

    Lemma conf_gstep s t o s' : conf s -> gstep F s t o = Some s' -> conf s'.
    Proof.
      intros [C1 C2] B. pose proof (fun u => gstep_frame F s t o s' u B) as Fr. unfold gstep in B.
      destruct (stk s t) as [|[l p] r] eqn:E; [discriminate|].
      assert (Ctop : fr_ok (l, p)) by (specialize (C1 t); rewrite E in C1; inversion C1; assumption).
      assert (Cr : Forall fr_ok r) by (specialize (C1 t); rewrite E in C1; inversion C1; assumption).
      destruct Ctop as [Hl Hc]. cbn [fst snd] in Hl, Hc.
      assert (St : forall k', stk s' t = k' -> Forall fr_ok k' -> forall u, Forall fr_ok (stk s' u)).
      { intros k' Ek Hk u. destruct (Z.eq_dec u t) as [->|N]; [rewrite Ek; exact Hk | rewrite (Fr u N); apply C1]. }
      assert (G : forall p', fr_ok (l, p') -> Forall fr_ok ((l, p') :: r)) by (intros p' H; constructor; assumption).
      assert (T0 : forall p', match p' with PA_xchg (WLane _) _ | PW_run _ (Lane _) _ => False | _ => True end -> fr_ok (l, p')).
      { intros p' H. split; [exact Hl|]. cbn [snd]. destruct p'; try exact Logic.I; try contradiction. destruct w; [exact Logic.I | contradiction]. destruct e; [exact Logic.I | contradiction]. }
      destruct p.
      - (* PA_xchg *)
        destruct w as [|c]; injection B as <-; (split;
          [ eapply St; [sproj; apply upd_same | apply G; apply T0; exact Logic.I]
          | intros x; sproj; destruct (Z.eq_dec x l) as [->|N]; [rewrite upd_same | rewrite upd_other by exact N; apply C2];
            apply Forall_app; split; [apply C2 | constructor; [|constructor]]; unfold ent_ok; cbn [e_ent]; auto ]).
      - (* PA_link *)
        assert (Cl : forall x, Forall ent_ok (upd (lst s) l (link_ent (lst s l) e) x)).
        { intros x. destruct (Z.eq_dec x l) as [->|N]; [rewrite upd_same; apply ent_ok_link; apply C2 | rewrite upd_other by exact N; apply C2]. }
        destruct was_empty; [|destruct o]; injection B as <-; (split; [|exact Cl]).
        + apply (St ((l, PA_probe qos true) :: r)); [sproj; apply upd_same | apply G; apply T0; exact Logic.I].
        + apply (St ((l, PA_probe qos false) :: r)); [sproj; apply upd_same | apply G; apply T0; exact Logic.I].
        + apply (St (ret r)); [sproj; apply upd_same | apply fr_ok_ret; exact Cr].
      - (* PA_probe *)
        injection B as <-. destruct (lst s l); (split; [|exact C2]).
        + apply (St (ret r)); [sproj; apply upd_same | apply fr_ok_ret; exact Cr].
        + apply (St ((l, PA_wake (wakeup_qos F l qos) dirty) :: r)); [sproj; apply upd_same | apply G; apply T0; exact Logic.I].
      - (* PA_wake *)
        destruct (w_wake qos dirty (st s l)) as [new rv|rv2 ops2|ops|tg]; try discriminate.
        + injection B as <-. destruct (enq_flipped (st s l) new); (split; [|exact C2]).
          * apply (St ((l, PA_tpush (f_dq_state_max_qos new)) :: r)); [sproj; apply upd_same | apply G; apply T0; exact Logic.I].
          * apply (St (ret r)); [sproj; apply upd_same | apply fr_ok_ret; exact Cr].
        + destruct dirty; [discriminate|]. injection B as <-. split; [|exact C2].
          apply (St (ret r)); [sproj; apply upd_same | apply fr_ok_ret; exact Cr].
      - (* PA_tpush *)
        injection B as <-. destruct (target F l) as [p0|] eqn:Tg; (split; [|exact C2]).
        + apply (St ((p0, PA_xchg (WLane l) (push_qos F p0 qos)) :: r)); [sproj; apply upd_same|].
          constructor; [|exact Cr]. split; [apply (closed l p0 Hl Tg) | exact Hl].
        + apply (St (ret r)); [sproj; apply upd_same | apply fr_ok_ret; exact Cr].
      - (* PW_lock *)
        destruct (w_lock t floor (st s l)) as [nw ow|rv ops|ops|tg]; try discriminate.
        + injection B as <-. destruct (ow =? 0); (split; [|exact C2]).
          * apply (St (ret r)); [sproj; apply upd_same | apply fr_ok_ret; exact Cr].
          * apply (St ((l, PW_tail ow) :: r)); [sproj; apply upd_same | apply G; apply T0; exact Logic.I].
        + injection B as <-. split; [|exact C2].
          apply (St ((l, PW_lock (f_dq_state_max_qos (st s l))) :: r)); [sproj; apply upd_same | apply G; apply T0; exact Logic.I].
      - (* PW_tail *)
        injection B as <-. split; [|exact C2].
        apply (St ((l, match lst s l with [] => PW_unlock (Z.lor (Z.land owned ENQUEUED) SERIAL_OWNED) | _ => PW_head owned end) :: r)); [sproj; apply upd_same|].
        apply G. apply T0. destruct (lst s l); exact Logic.I.
      - (* PW_head *)
        destruct (lst s l) as [|e0 l0]; [discriminate|]. destruct (e_linked e0); [|discriminate]. injection B as <-. split; [|exact C2].
        apply (St ((l, PW_pop owned) :: r)); [sproj; apply upd_same | apply G; apply T0; exact Logic.I].
      - (* PW_pop *)
        assert (Pop : forall e0 rest more, lst s l = e0 :: rest ->
                  conf (set_stk (match e_ent e0 with Lane l' => set_token (set_lst s l rest) l' (Some (Some t)) | Item _ => set_lst s l rest end) t
                                ((l, PW_run owned (e_ent e0) more) :: r))).
        { intros e0 rest more Ll. pose proof (C2 l) as Cl. rewrite Ll in Cl. inversion Cl as [|a b Ha Hb]; subst. split.
          - intros u. destruct (e_ent e0) eqn:Ee; sproj; (destruct (Z.eq_dec u t) as [->|N]; [rewrite upd_same | rewrite upd_other by exact N; apply C1]);
              (constructor; [|exact Cr]); split; try exact Hl; cbn [snd]; try exact Logic.I.
            unfold ent_ok in Ha. rewrite Ee in Ha. exact Ha.
          - intros x. destruct (e_ent e0); sproj; (destruct (Z.eq_dec x l) as [->|N]; [rewrite upd_same; exact Hb | rewrite upd_other by exact N; apply C2]). }
        destruct (lst s l) as [|e0 [|e2 l0]] eqn:Ll; [discriminate| |].
        + injection B as <-. apply (Pop e0 [] false eq_refl).
        + destruct (e_linked e2); [|discriminate]. injection B as <-. apply (Pop e0 (e2 :: l0) true eq_refl).
      - (* PW_run *)
        injection B as <-. destruct e as [i|c]; (split; [|exact C2]).
        + apply (St ((l, PW_incall owned i more) :: r)); [sproj; apply upd_same | apply G; apply T0; exact Logic.I].
        + apply (St ((c, PW_lock 0) :: (l, PW_invoking owned c more) :: r)); [sproj; apply upd_same|].
          constructor; [split; [exact Hc | exact Logic.I]|]. apply G. apply T0. exact Logic.I.
      - (* PW_incall *)
        injection B as <-. split; [|exact C2].
        apply (St ((l, PW_next owned more) :: r)); [sproj; apply upd_same | apply G; apply T0; exact Logic.I].
      - discriminate.
      - (* PW_next *)
        destruct more; injection B as <-; (split; [|exact C2]).
        + apply (St ((l, PW_pop owned) :: r)); [sproj; apply upd_same | apply G; apply T0; exact Logic.I].
        + apply (St ((l, match lst s l with [] => PW_unlock (Z.lor (Z.land owned ENQUEUED) SERIAL_OWNED) | _ => PW_head owned end) :: r)); [sproj; apply upd_same|].
          apply G. apply T0. destruct (lst s l); exact Logic.I.
      - (* PW_unlock *)
        destruct (w_unlock owned (st s l)) as [nw ow|rv ops|ops|tg]; try discriminate; injection B as <-; (split; [|exact C2]).
        + apply (St (ret r)); [sproj; apply upd_same | apply fr_ok_ret; exact Cr].
        + apply (St ((l, PW_xor owned) :: r)); [sproj; apply upd_same | apply G; apply T0; exact Logic.I].
      - (* PW_xor *)
        injection B as <-. split; [|exact C2].
        apply (St ((l, match target F l with None => PW_tail owned | Some _ => PW_finish owned end) :: r)); [sproj; apply upd_same|].
        apply G. apply T0. destruct (target F l); exact Logic.I.
      - (* PW_finish *)
        destruct (w_finish owned (st s l)) as [nw ow|rv ops|ops|tg]; try discriminate. injection B as <-.
        destruct (enq_flipped (u64 (st s l - owned)) nw); (split; [|exact C2]).
        + apply (St ((l, PA_tpush (f_dq_state_max_qos nw)) :: r)); [sproj; apply upd_same | apply G; apply T0; exact Logic.I].
        + apply (St (ret r)); [sproj; apply upd_same | apply fr_ok_ret; exact Cr].
    Qed.
  End Confined.

  (* ---------------------------------------------------------------- executions *)
  Lemma Phi_nonneg Ls L s : Inv F s -> 0 <= Phi Ls L s.
  Proof.
    intros [Li _]. unfold Phi.
    pose proof (sumL_nonneg (fun t => fsum (stk s t)) L (fun t => fsum_nonneg (stk s t))).
    assert (0 <= sumL (lane_pot s) Ls); [|lia].
    apply sumL_nonneg. intros l. unfold lane_pot. pose proof (lw_nonneg (lst s l)). pose proof (dterm_nonneg s l).
    destruct (Li l) as [r G]. pose proof (g_rootq F s l r G) as Rq.
    assert (0 <= rootq s l) by (destruct (token s l) as [[w|]|]; destruct (target F l); lia). unfold RR. lia.
  Qed.

  Definition is_async_begin (a : action) : bool := match a with ABegin _ (CAsync _ _) => true | _ => false end.
  Fixpoint n_other (acts : list action) : Z :=
    match acts with [] => 0 | a :: r => (if is_async_begin a then 0 else 1) + n_other r end.
  (* what the submissions of an execution add to the potential: 2 * T l + 13 for a dispatch_async on lane l *)
  Fixpoint raised (acts : list action) : Z :=
    match acts with
    | [] => 0
    | ABegin _ (CAsync l _) :: r => phi (l, PA_xchg WItem 0) + raised r
    | _ :: r => raised r
    end.
  Definition begin_lane_in (Ls : list Z) (a : action) : Prop :=
    match a with ABegin _ (CAsync l _) => In l Ls | ABegin _ (CWorker b _) => In b Ls | AStep _ _ => True end.

  (* every action other than a new dispatch_async costs at least one unit of potential *)
  Theorem execution_bound Ls L :
    NoDup Ls -> NoDup L -> (forall l p, In l Ls -> target F l = Some p -> In p Ls) ->
    forall acts s s',
    Inv3 s -> conf Ls s -> forallb act_valid acts = true -> (forall a, In a acts -> In (act_tid a) L /\ begin_lane_in Ls a) ->
    run F s acts = Some s' ->
    Inv3 s' /\ conf Ls s' /\ n_other acts <= Phi Ls L s - Phi Ls L s' + raised acts.
  Proof.
    intros NDs NDL Cl. induction acts as [|a acts IH]; intros s s' I3 C V Hin E.
    - cbn [run] in E. injection E as <-. cbn [n_other raised]. split; [exact I3|]. split; [exact C | lia].
    - cbn [forallb] in V. apply andb_true_iff in V. destruct V as [Va V].
      assert (Vt : valid_tid (act_tid a)).
      { destruct a; cbn [act_valid act_tid] in *; apply andb_true_iff in Va; destruct Va as [A B]; apply Z.ltb_lt in A; apply Z.ltb_lt in B; split; assumption. }
      destruct (Hin a (or_introl eq_refl)) as [HinA HlA].
      cbn [run] in E. cbn [n_other].
      destruct a as [t c|t o]; cbn [act_tid] in *.
      + destruct (begin F s t c) as [s1|] eqn:B; [|discriminate].
        assert (St : step F s (ABegin t c) s1) by (split; assumption).
        pose proof (step3_preserves s _ s1 I3 St) as I31.
        assert (C1 : conf Ls s1) by (apply (conf_begin Ls s t c s1 C); [destruct c; exact HlA | exact B]).
        destruct (IH s1 s' I31 C1 V (fun a Ha => Hin a (or_intror Ha)) E) as (I3' & C' & Hb). split; [exact I3'|]. split; [exact C'|].
        destruct c as [l q|b f]; cbn [is_async_begin raised].
        * pose proof (begin_async_raises Ls L NDL s t l q s1 HinA B). lia.
        * pose proof (begin_worker_decreases Ls L NDs NDL s t b f s1 (proj1 I3) HinA HlA B). lia.
      + destruct (gstep F s t o) as [s1|] eqn:B; [|discriminate].
        assert (St : step F s (AStep t o) s1) by (split; assumption).
        pose proof (step3_preserves s _ s1 I3 St) as I31.
        pose proof (conf_gstep Ls Cl s t o s1 C B) as C1.
        destruct (IH s1 s' I31 C1 V (fun a Ha => Hin a (or_intror Ha)) E) as (I3' & C' & Hb). split; [exact I3'|]. split; [exact C'|].
        cbn [is_async_begin raised].
        assert (Hfr : forall l p, In (l, p) (stk s t) -> In l Ls).
        { intros l p H. destruct C as [C0 _]. specialize (C0 t). rewrite Forall_forall in C0. destruct (C0 _ H) as [A _]. exact A. }
        pose proof (step_decreases Ls L NDs NDL s t o s1 I3 HinA Hfr B). lia.
  Qed.

  (* in particular from the initial state: the number of steps that are not new submissions is bounded by what the
     submissions paid in: no livelock, whatever the schedule *)
  Corollary no_livelock Ls L acts s' :
    NoDup Ls -> NoDup L -> (forall l p, In l Ls -> target F l = Some p -> In p Ls) ->
    forallb act_valid acts = true -> (forall a, In a acts -> In (act_tid a) L /\ begin_lane_in Ls a) ->
    run F (init_state F) acts = Some s' -> n_other acts <= raised acts.
  Proof.
    intros NDs NDL Cl V Hin E.
    assert (R0 : reach F (init_state F)) by (apply reach_init; reflexivity).
    destruct (execution_bound Ls L NDs NDL Cl acts (init_state F) s' (Inv3_reachable _ R0) (conf_init Ls) V Hin E) as (I3' & _ & Hb).
    pose proof (Phi_nonneg Ls L s' (proj1 I3')).
    assert (Z0 : Phi Ls L (init_state F) = 0).
    { unfold Phi. rewrite (sumL_ext (fun t => fsum (stk (init_state F) t)) (fun _ => 0) L) by (intros; reflexivity).
      rewrite (sumL_ext (lane_pot (init_state F)) (fun _ => 0) Ls).
      - assert (Hz : forall (K : list Z), sumL (fun _ : Z => 0) K = 0) by (induction K; cbn [sumL]; lia). rewrite !Hz. reflexivity.
      - intros l _. unfold lane_pot, dterm, init_state. cbn [lst st rootq]. unfold lw. cbn [sumL].
        pose proof (role_range F FOK l) as Rl. rewrite (init_enc F l) by lia. rewrite dec_enc by (apply wfr_mk'; lia).
        unfold mk; cbn [f_owner]. change (0 =? 0) with true. cbv iota. lia. }
    lia.
  Qed.

  (* ---------------------------------------------------------------- the end of every maximal execution *)
  Lemma nonidle_valid s : reach F s -> forall t, stk s t <> [] -> valid_tid t.
  Proof.
    apply (invariant_lift (fun s0 => s0 = init_state F) (step F) (fun s0 => forall t, stk s0 t <> [] -> valid_tid t)).
    - intros s0 -> t H. unfold init_state in H; cbn [stk] in H. congruence.
    - intros s1 a s2 IH St t H. destruct a as [u c|u o]; destruct St as [V B]; destruct (Z.eq_dec t u) as [->|N]; try exact V.
      + rewrite (begin_frame F s1 u c s2 t B N) in H. apply IH. exact H.
      + rewrite (gstep_frame F s1 u o s2 t B N) in H. apply IH. exact H.
  Qed.

  (* a state in which no thread can step and no bottom sits in a root queue: everything submitted to every lane has
     run, exactly once, in order *)
  Theorem nothing_enabled_all_done s :
    reach F s -> (forall t o, valid_tid t -> gstep F s t o = None) -> (forall b, rootq s b = 0) ->
    forall l, lst s l = [] /\ rev (started s l) = zrange (nextid s l) /\ token s l = None.
  Proof.
    intros R Hn Z0. apply (quiescent_all_done F FOK s R); [|exact Z0].
    intros t. destruct (stk s t) eqn:Hk; [reflexivity|]. exfalso.
    assert (NI : stk s t <> []) by (rewrite Hk; discriminate).
    pose proof (nonidle_valid s R t NI) as Vt.
    destruct (no_stuck_thread F FOK s t R Vt NI) as [(o & s1 & E)|(u & _ & (o & s1 & E))].
    - rewrite (Hn t o Vt) in E. discriminate.
    - assert (NIu : stk s u <> []) by (intros Hu; unfold gstep in E; rewrite Hu in E; discriminate).
      rewrite (Hn u o (nonidle_valid s R u NIu)) in E. discriminate.
  Qed.

  (* ... and if a bottom does sit there, an idle worker can pick it up *)
  Theorem worker_can_begin s t b f : stk s t = [] -> target F b = None -> rootq s b = 1 -> exists s', begin F s t (CWorker b f) = Some s'.
  Proof. intros H Tb R. cbn [begin]. rewrite H, Tb, R. cbn. eexists. reflexivity. Qed.
End Measure.
