(* TimerSys_proofs.v — the timer machinery as a whole (Model/TimerRun.v): needs_program / kernel timer programming
   invariant, the manager's pass _dispatch_event_loop_drain_timers, and the composed always-fires invariant over every
   reachable state. *)
From Coq Require Import ZArith List Bool Lia ZifyBool Znumtheory.
From Verif Require Import Word Bits Tactics Gen_consts Gen_time Gen_timer Time Time_proofs Heap TimerRun Heap_proofs TimerRun_proofs.
Import ListNotations.
Local Open Scope Z_scope.

(* ================================================================================================ *)
(* programming: needs_program is set whenever the minimum (or its key) changes, and cleared only by programming the
   kernel timer to the minimum *)
Section Prog.
Variable N : Z.
Hypothesis HN : 0 <= N /\ 2 * N + 2 <= CAPMAX.
Notation GInv := (GInv N).

Definition npb (st : state) (i : Z) : bool := h_np (s_heaps st i).
Definition min0 (st : state) (i : Z) : Z := h_slot (s_heaps st i) 0.
Definition kernel_ok (st : state) (i : Z) : Prop :=
  min0 st i <> 0 -> s_harmed st i = true /\ s_ktimer st i = t_target (tm st (min0 st i)).

(* st1 differs from st only in the values (not the armed bit / ident) of timer t *)
Record same_but (st st1 : state) (t : Z) : Prop := {
  sb_heaps : s_heaps st1 = s_heaps st;
  sb_harmed : s_harmed st1 = s_harmed st;
  sb_ktimer : s_ktimer st1 = s_ktimer st;
  sb_other : forall u, u <> t -> tm st1 u = tm st u;
  sb_armed : t_armed (tm st1 t) = t_armed (tm st t);
  sb_ident : t_ident (tm st1 t) = t_ident (tm st t)
}.
Lemma same_but_refl st t : same_but st st t.
Proof. constructor; auto. Qed.
Lemma same_but_set st t v :
  t_armed v = t_armed (tm st t) -> t_ident v = t_ident (tm st t) -> same_but st (set_timer st t v) t.
Proof.
  intros A I. constructor; auto.
  - intros u Nu. apply tm_set_timer_neq; auto.
  - rewrite tm_set_timer_eq; auto.
  - rewrite tm_set_timer_eq; auto.
Qed.

Lemma same_but_member st st1 t j u : same_but st st1 t -> (member st1 j u <-> member st j u).
Proof.
  intros [_ _ _ Ho Ea Ei]. unfold member. destruct (Z.eq_dec u t) as [->|Nu].
  - rewrite Ea, Ei. tauto.
  - rewrite Ho by auto. tauto.
Qed.
Lemma same_but_key st st1 t g u : same_but st st1 t -> u <> t -> keyof (s_timers st1) g u = keyof (s_timers st) g u.
Proof.
  intros [_ _ _ Ho _ _] Nu. unfold keyof. change (s_timers st1 u) with (tm st1 u). rewrite Ho by auto. reflexivity.
Qed.
Lemma same_but_X st st1 t : GInv st -> same_but st st1 t -> HInvsX st1 t.
Proof.
  intros G SB. exists (keyof (s_timers st)). split.
  - intros g u Nu. symmetry. eapply same_but_key; eauto.
  - intros i. rewrite (sb_heaps _ _ _ SB). apply (Inv_iff _ _ _ _ _ (gi_heaps _ _ G i)); auto.
    intros u. symmetry. eapply same_but_member; eauto.
Qed.

(* what one heap operation on timer t in heap i does, seen from a state st satisfying the invariant *)
Record frame (st st' : state) (t i : Z) : Prop := {
  f_tm : forall u, u <> t -> tm st' u = tm st u;
  f_harmed : s_harmed st' = s_harmed st;
  f_ktimer : s_ktimer st' = s_ktimer st;
  f_heaps : forall j, j <> i -> s_heaps st' j = s_heaps st j;
  f_np : npb st i = true -> npb st' i = true;
  f_touch : npb st' i = true \/ (min0 st' i = min0 st i /\ min0 st' i <> t);
  f_mem : forall j u, member st' j u -> member st j u \/ (u = t /\ j = i);
  f_notin : forall j, j <> i -> ~ member st j t
}.

Lemma disarm_frame st st1 t :
  GInv st -> same_but st st1 t -> t_armed (tm st t) = true ->
  frame st (disarm st1 t) t (t_ident (tm st t)).
Proof.
  intros G SB A. pose proof (gi_ids _ _ G t A) as Ht.
  set (i := t_ident (tm st t)).
  assert (M : member st i t) by (unfold member; repeat split; auto; lia).
  pose proof (gi_heaps _ _ G i) as I.
  assert (Hk : forall g u, u <> t -> keyof (s_timers st1) g u = keyof (s_timers st) g u)
    by (intros; eapply same_but_key; eauto).
  pose proof (remove_ext _ (keyof (s_timers st1)) _ _ t I M Hk) as RE.
  destruct (remove_inv _ _ _ t I M) as [RI [_ [_ [_ [[NPm _] _]]]]].
  pose proof (remove_touch _ _ _ t I M) as RT.
  assert (Hh : s_heaps (disarm st1 t) i = remove (keyof (s_timers st)) (s_heaps st i) t).
  { rewrite disarm_heap, (sb_ident _ _ _ SB). fold i. rewrite Z.eqb_refl, (sb_heaps _ _ _ SB). exact RE. }
  constructor.
  - intros u Nu. rewrite disarm_other by auto. apply (sb_other _ _ _ SB); auto.
  - unfold disarm; simpl. apply SB.
  - unfold disarm; simpl. apply SB.
  - intros j Nj. rewrite disarm_heap, (sb_ident _ _ _ SB). fold i. destruct (Z.eqb_spec j i); [contradiction|].
    rewrite (sb_heaps _ _ _ SB). reflexivity.
  - unfold npb. rewrite Hh. exact NPm.
  - unfold npb, min0. rewrite Hh. exact RT.
  - intros j u Mu. unfold member in Mu. rewrite disarm_tm in Mu. destruct (Z.eqb_spec u t) as [E|Nu].
    + destruct Mu as [_ [X _]]. discriminate.
    + left. apply (same_but_member _ _ _ j u SB). exact Mu.
  - intros j Nj [_ [_ X]]. apply Nj. symmetry. exact X.
Qed.

Lemma arm_frame st st1 t i :
  GInv st -> same_but st st1 t -> 1 <= t <= N -> (t_armed (tm st t) = true -> t_ident (tm st t) = i) ->
  frame st (arm st1 t i) t i.
Proof.
  intros G SB Ht Hid. assert (Nz : t <> 0) by lia.
  pose proof (gi_heaps _ _ G i) as I.
  assert (Hk : forall g u, u <> t -> keyof (s_timers st1) g u = keyof (s_timers st) g u)
    by (intros; eapply same_but_key; eauto).
  destruct (t_armed (tm st t)) eqn:A.
  - specialize (Hid eq_refl).
    assert (M : member st i t) by (unfold member; auto).
    destruct (update_inv (keyof (s_timers st1)) _ _ t _ I M Hk) as [_ [[NPm _] [_ UT]]].
    assert (Hh : s_heaps (arm st1 t i) i = update (keyof (s_timers st1)) (s_heaps st i) t).
    { rewrite arm_heap, Z.eqb_refl, (sb_armed _ _ _ SB), A, (sb_heaps _ _ _ SB). reflexivity. }
    constructor.
    + intros u Nu. rewrite arm_other by auto. apply (sb_other _ _ _ SB); auto.
    + unfold arm. rewrite (sb_armed _ _ _ SB), A. simpl. apply SB.
    + unfold arm. rewrite (sb_armed _ _ _ SB), A. simpl. apply SB.
    + intros j Nj. rewrite arm_heap. destruct (Z.eqb_spec j i); [contradiction|]. rewrite (sb_heaps _ _ _ SB). reflexivity.
    + unfold npb. rewrite Hh. exact NPm.
    + unfold npb, min0. rewrite Hh. exact UT.
    + intros j u Mu. unfold member in Mu. rewrite arm_tm, (sb_armed _ _ _ SB), A in Mu.
      left. apply (same_but_member _ _ _ j u SB). exact Mu.
    + intros j Nj [_ [_ X]]. apply Nj. congruence.
  - assert (NS : ~ member st i t) by (unfold member; intros [_ [X _]]; congruence).
    set (st1' := set_timer st1 t (with_ident (tm st1 t) i)).
    assert (I1 : Inv (keyof (s_timers st1')) (member st i) (s_heaps st i)).
    { apply (Inv_iff _ _ _ _ _ I); [tauto|]. intros g u [_ [X _]].
      assert (u <> t) by (intros ->; congruence).
      unfold st1'. rewrite keyof_set_timer by auto. apply Hk; auto. }
    pose proof (GInv_room N HN _ G i) as R.
    destruct (insert_inv (keyof (s_timers st1')) _ _ t 0 I1 NS Nz ltac:(lia)) as [_ [_ [[NPm _] [_ IT]]]].
    assert (Hh : s_heaps (arm st1 t i) i = insert (keyof (s_timers st1')) (s_heaps st i) t 0).
    { rewrite arm_heap, Z.eqb_refl, (sb_armed _ _ _ SB), A, (sb_heaps _ _ _ SB). reflexivity. }
    constructor.
    + intros u Nu. rewrite arm_other by auto. apply (sb_other _ _ _ SB); auto.
    + unfold arm. rewrite (sb_armed _ _ _ SB), A. simpl. apply SB.
    + unfold arm. rewrite (sb_armed _ _ _ SB), A. simpl. apply SB.
    + intros j Nj. rewrite arm_heap. destruct (Z.eqb_spec j i); [contradiction|]. rewrite (sb_heaps _ _ _ SB). reflexivity.
    + unfold npb. rewrite Hh. exact NPm.
    + unfold npb, min0. rewrite Hh. exact IT.
    + intros j u Mu. unfold member in Mu. rewrite arm_tm, (sb_armed _ _ _ SB), A in Mu.
      destruct (Z.eqb_spec u t) as [E|Nu].
      * right. split; auto. destruct Mu as [_ [_ X]]. simpl in X. auto.
      * left. apply (same_but_member _ _ _ j u SB). exact Mu.
    + intros j Nj [_ [X _]]. congruence.
Qed.

(* ---- invariant-level versions of disarm / arm applied after the values of t were overwritten *)
Lemma disarm_G' st st1 t :
  GInv st -> same_but st st1 t -> t_armed (tm st t) = true -> GInv (disarm st1 t).
Proof.
  intros G SB A. pose proof (gi_ids _ _ G t A) as Ht.
  assert (M : member st1 (t_ident (tm st1 t)) t).
  { unfold member. rewrite (sb_armed _ _ _ SB). repeat split; auto. lia. }
  destruct (disarm_X st1 t (same_but_X _ _ _ G SB) M) as [H _].
  apply (GInv_intro N st _ t G H Ht).
  - intros u Nu. rewrite disarm_other by auto. apply (sb_other _ _ _ SB); auto.
  - rewrite disarm_tm, Z.eqb_refl. simpl. discriminate.
Qed.

Lemma arm_G' st st1 t i :
  GInv st -> same_but st st1 t -> 1 <= t <= N -> (t_armed (tm st t) = true -> t_ident (tm st t) = i) ->
  t_target (tm st1 t) < INT64_MAX -> Z.land (t_pending (tm st1 t)) 1 = 0 -> GInv (arm st1 t i).
Proof.
  intros G SB Ht Hid Tg Pm. assert (Nz : t <> 0) by lia.
  assert (Hid1 : t_armed (tm st1 t) = true -> t_ident (tm st1 t) = i).
  { rewrite (sb_armed _ _ _ SB), (sb_ident _ _ _ SB). exact Hid. }
  assert (R : room st1 1).
  { intros j. rewrite (sb_heaps _ _ _ SB). apply (GInv_room N HN _ G). }
  destruct (arm_X st1 t i (same_but_X _ _ _ G SB) Nz Hid1 R) as [H _].
  apply (GInv_intro N st _ t G H Ht).
  - intros u Nu. rewrite arm_other by auto. apply (sb_other _ _ _ SB); auto.
  - intros _. rewrite arm_tm. destruct (t_armed (tm st1 t)); [auto|]. rewrite Z.eqb_refl. simpl. auto.
Qed.

(* ---- status of the heaps during the manager's pass with cached clock readings nows *)
Variable nows : Z -> Z.
Definition Fix (st : state) (i : Z) : Prop := forall t, member st i t -> nows i < t_target (tm st t).
Definition due (st : state) (i : Z) : Prop := min0 st i <> 0 /\ t_target (tm st (min0 st i)) <= nows i.
(* before heap i was run in this pass / after it was run *)
Definition L0 (st : state) (i : Z) : Prop := npb st i = true \/ kernel_ok st i \/ due st i.
Definition Ranp (st : state) (i : Z) : Prop := npb st i = true \/ (kernel_ok st i /\ Fix st i).
Definition Stat (ran : Z -> bool) (st : state) : Prop := forall j, 0 <= j < 3 -> if ran j then Ranp st j else L0 st j.
(* between passes *)
Definition QInv (st : state) : Prop := forall j, 0 <= j < 3 -> npb st j = true \/ kernel_ok st j.

Lemma min0_member st i : GInv st -> min0 st i <> 0 -> member st i (min0 st i).
Proof. intros G Nm. apply (min_member N); auto. Qed.

Lemma member_nonempty st i t : GInv st -> member st i t -> min0 st i <> 0 /\
  t_target (tm st (min0 st i)) <= t_target (tm st t).
Proof.
  intros G M. destruct (min_is_min _ _ _ (gi_heaps _ _ G i) t M) as [S0 [K0 _]].
  split; [intros E; unfold min0 in E; rewrite E in S0; exact (iv_null _ _ _ (gi_heaps _ _ G i) S0)|exact K0].
Qed.

Lemma frame_other st st' t i j :
  GInv st -> frame st st' t i -> j <> i ->
  npb st' j = npb st j /\ min0 st' j = min0 st j /\
  (min0 st j <> 0 -> t_target (tm st' (min0 st j)) = t_target (tm st (min0 st j))) /\
  (forall u, member st' j u -> member st j u /\ t_target (tm st' u) = t_target (tm st u)).
Proof.
  intros G Fr Nj. unfold npb, min0. rewrite (f_heaps _ _ _ _ Fr j Nj).
  split; [reflexivity|]. split; [reflexivity|]. split.
  - intros Nm. rewrite (f_tm _ _ _ _ Fr); auto. intros E.
    apply (f_notin _ _ _ _ Fr j Nj). rewrite <- E. apply min0_member; auto.
  - intros u Mu. destruct (f_mem _ _ _ _ Fr j u Mu) as [M|[_ E]]; [|contradiction].
    split; [exact M|]. rewrite (f_tm _ _ _ _ Fr); auto. intros E. subst u. exact (f_notin _ _ _ _ Fr j Nj M).
Qed.

Lemma kernel_ok_same st st' i :
  s_harmed st' = s_harmed st -> s_ktimer st' = s_ktimer st -> min0 st' i = min0 st i ->
  (min0 st i <> 0 -> t_target (tm st' (min0 st i)) = t_target (tm st (min0 st i))) ->
  kernel_ok st i -> kernel_ok st' i.
Proof.
  intros Eh Ek Em Et K Nm. unfold kernel_ok in *. rewrite Em in *. rewrite Eh, Ek, Et by auto. auto.
Qed.

Lemma Stat_frame ran st st' t i :
  GInv st -> GInv st' -> frame st st' t i -> Stat ran st -> Stat ran st'.
Proof.
  intros G G' Fr S j Hj. specialize (S j Hj). destruct (Z.eq_dec j i) as [->|Nj].
  - destruct (f_touch _ _ _ _ Fr) as [Np|[Em Nt]]; [destruct (ran i); left; exact Np|].
    assert (Et : min0 st i <> 0 -> t_target (tm st' (min0 st i)) = t_target (tm st (min0 st i))).
    { intros _. apply f_equal. apply (f_tm _ _ _ _ Fr). congruence. }
    assert (Np0 : npb st i = true -> npb st' i = true) by apply Fr.
    destruct (ran i).
    + destruct S as [Np|[K Fx]]; [left; auto|]. right. split.
      * apply (kernel_ok_same st st' i (f_harmed _ _ _ _ Fr) (f_ktimer _ _ _ _ Fr) Em Et K).
      * intros u Mu. destruct (Z.eq_dec u t) as [->|Nu].
        -- destruct (member_nonempty st' i t G' Mu) as [Nm' Le]. rewrite Em in Le, Nm'.
           rewrite (Et Nm') in Le. pose proof (Fx _ (min0_member st i G Nm')). lia.
        -- destruct (f_mem _ _ _ _ Fr i u Mu) as [M|[E _]]; [|contradiction].
           rewrite (f_tm _ _ _ _ Fr) by auto. apply Fx; auto.
    + destruct S as [Np|[K|[Nm D]]]; [left; auto| |].
      * right; left. apply (kernel_ok_same st st' i (f_harmed _ _ _ _ Fr) (f_ktimer _ _ _ _ Fr) Em Et K).
      * right; right. unfold due. rewrite Em. split; auto. rewrite Et; auto.
  - destruct (frame_other st st' t i j G Fr Nj) as [En [Em [Et Hm]]].
    destruct (ran j).
    + destruct S as [Np|[K Fx]]; [left; congruence|]. right. split.
      * apply (kernel_ok_same st st' j (f_harmed _ _ _ _ Fr) (f_ktimer _ _ _ _ Fr) Em Et K).
      * intros u Mu. destruct (Hm u Mu) as [M E]. rewrite E. apply Fx; auto.
    + destruct S as [Np|[K|[Nm D]]]; [left; congruence| |].
      * right; left. apply (kernel_ok_same st st' j (f_harmed _ _ _ _ Fr) (f_ktimer _ _ _ _ Fr) Em Et K).
      * right; right. unfold due. rewrite Em. split; auto. rewrite Et; auto.
Qed.

Lemma QInv_frame st st' t i : GInv st -> frame st st' t i -> QInv st -> QInv st'.
Proof.
  intros G Fr Q j Hj. specialize (Q j Hj). destruct (Z.eq_dec j i) as [->|Nj].
  - destruct (f_touch _ _ _ _ Fr) as [Np|[Em Nt]]; [left; exact Np|].
    destruct Q as [Np|K]; [left; apply Fr; auto|]. right.
    apply (kernel_ok_same st st' i (f_harmed _ _ _ _ Fr) (f_ktimer _ _ _ _ Fr) Em); auto.
    intros _. apply f_equal. apply (f_tm _ _ _ _ Fr). congruence.
  - destruct (frame_other st st' t i j G Fr Nj) as [En [Em [Et Hm]]].
    destruct Q as [Np|K]; [left; congruence|]. right.
    apply (kernel_ok_same st st' j (f_harmed _ _ _ _ Fr) (f_ktimer _ _ _ _ Fr) Em Et K).
Qed.

(* after a heap operation on the timer that was in the target min slot, needs_program is set *)
Lemma frame_min_np st st' i : frame st st' (min0 st i) i -> npb st' i = true.
Proof. intros Fr. destruct (f_touch _ _ _ _ Fr) as [Np|[Em Nt]]; auto; congruence. Qed.

(* replacing the record of t without touching armed / ident / target (pending data, configuration, suspension) *)
Lemma Stat_set ran st t v :
  t_armed v = t_armed (tm st t) -> t_ident v = t_ident (tm st t) -> t_target v = t_target (tm st t) ->
  Stat ran st -> Stat ran (set_timer st t v).
Proof.
  intros Ea Ei Et S j Hj. specialize (S j Hj).
  assert (Tg : forall u, t_target (tm (set_timer st t v) u) = t_target (tm st u)).
  { intros u. destruct (Z.eq_dec u t) as [->|Nu]; [rewrite tm_set_timer_eq; auto|rewrite tm_set_timer_neq; auto]. }
  assert (K : kernel_ok st j -> kernel_ok (set_timer st t v) j).
  { unfold kernel_ok. change (min0 (set_timer st t v) j) with (min0 st j).
    change (s_harmed (set_timer st t v)) with (s_harmed st). change (s_ktimer (set_timer st t v)) with (s_ktimer st).
    rewrite Tg. auto. }
  assert (Fx : Fix st j -> Fix (set_timer st t v) j).
  { intros Fx u Mu. rewrite Tg. apply Fx. apply (member_set_timer st t v j u Ea Ei). exact Mu. }
  assert (D : due st j -> due (set_timer st t v) j).
  { unfold due. change (min0 (set_timer st t v) j) with (min0 st j). rewrite Tg. auto. }
  unfold Ranp, L0 in *. change (npb (set_timer st t v) j) with (npb st j). destruct (ran j); tauto.
Qed.
Lemma QInv_set st t v :
  t_target v = t_target (tm st t) -> QInv st -> QInv (set_timer st t v).
Proof.
  intros Et Q j Hj. specialize (Q j Hj).
  assert (Tg : forall u, t_target (tm (set_timer st t v) u) = t_target (tm st u)).
  { intros u. destruct (Z.eq_dec u t) as [->|Nu]; [rewrite tm_set_timer_eq; auto|rewrite tm_set_timer_neq; auto]. }
  unfold kernel_ok in *. change (min0 (set_timer st t v) j) with (min0 st j). change (npb (set_timer st t v) j) with (npb st j).
  change (s_harmed (set_timer st t v)) with (s_harmed st). change (s_ktimer (set_timer st t v)) with (s_ktimer st).
  rewrite Tg. auto.
Qed.
(* ... or of a timer that is in no heap *)
Lemma Stat_set_notarmed ran st t v :
  GInv st -> t_armed (tm st t) = false -> t_armed v = false -> Stat ran st -> Stat ran (set_timer st t v).
Proof.
  intros G A Av S j Hj. specialize (S j Hj).
  assert (Tg : forall u, t_armed (tm st u) = true -> tm (set_timer st t v) u = tm st u).
  { intros u Au. apply tm_set_timer_neq. intros ->. congruence. }
  assert (Mm : min0 st j <> 0 -> tm (set_timer st t v) (min0 st j) = tm st (min0 st j)).
  { intros Nm. apply Tg. apply (min0_member st j G Nm). }
  assert (K : kernel_ok st j -> kernel_ok (set_timer st t v) j).
  { unfold kernel_ok. change (min0 (set_timer st t v) j) with (min0 st j).
    change (s_harmed (set_timer st t v)) with (s_harmed st). change (s_ktimer (set_timer st t v)) with (s_ktimer st).
    intros K Nm. rewrite Mm by auto. apply K; auto. }
  assert (Fx : Fix st j -> Fix (set_timer st t v) j).
  { intros Fx u Mu. assert (Mu' : member st j u).
    { unfold member in *. destruct (Z.eq_dec u t) as [->|Nu]; [rewrite tm_set_timer_eq in Mu; destruct Mu as [_ [X _]]; congruence|].
      rewrite tm_set_timer_neq in Mu by auto. exact Mu. }
    rewrite Tg by apply Mu'. apply Fx; auto. }
  assert (D : due st j -> due (set_timer st t v) j).
  { unfold due. change (min0 (set_timer st t v) j) with (min0 st j). intros [Nm L]. rewrite Mm by auto. auto. }
  unfold Ranp, L0 in *. change (npb (set_timer st t v) j) with (npb st j). destruct (ran j); tauto.
Qed.

(* ---- resume of a timer that is in a heap, after its values were overwritten (configure) *)
Lemma resume_S ran st st1 t :
  GInv st -> same_but st st1 t -> t_armed (tm st t) = true -> Z.land (t_pending (tm st1 t)) 1 = 0 ->
  Stat ran st -> GInv (resume st1 t) /\ Stat ran (resume st1 t).
Proof.
  intros G SB A Pm S. pose proof (gi_ids _ _ G t A) as Ht.
  unfold resume. set (x1 := tm st1 t). set (tidx := unote_idx x1).
  assert (A1 : t_armed x1 = true) by (unfold x1; rewrite (sb_armed _ _ _ SB); auto).
  assert (I1 : t_ident x1 = t_ident (tm st t)) by (unfold x1; apply SB).
  rewrite A1. cbn [andb].
  destruct (needs_rearm x1) eqn:W; cbn [negb orb].
  - pose proof (needs_rearm_tgt _ W) as Tg.
    destruct (Z.eqb_spec (t_ident x1) tidx) as [E|E]; cbn [negb].
    + assert (Hid : t_armed (tm st t) = true -> t_ident (tm st t) = tidx) by (intros _; congruence).
      pose proof (arm_G' st st1 t tidx G SB Ht Hid Tg Pm) as G2.
      split; auto. apply (Stat_frame ran st _ t tidx G G2 (arm_frame st st1 t tidx G SB Ht Hid) S).
    + pose proof (disarm_G' st st1 t G SB A) as G2.
      pose proof (Stat_frame ran st _ t _ G G2 (disarm_frame st st1 t G SB A) S) as S2.
      set (st2 := disarm st1 t) in *.
      assert (A2 : t_armed (tm st2 t) = false) by (unfold st2; rewrite disarm_tm, Z.eqb_refl; reflexivity).
      assert (Hid : t_armed (tm st2 t) = true -> t_ident (tm st2 t) = tidx) by (rewrite A2; discriminate).
      assert (V2 : t_target (tm st2 t) = t_target x1 /\ t_pending (tm st2 t) = t_pending x1).
      { unfold st2. rewrite disarm_tm, Z.eqb_refl. simpl. auto. }
      destruct V2 as [V2 V3].
      pose proof (arm_G' st2 st2 t tidx G2 (same_but_refl _ _) Ht Hid ltac:(rewrite V2; exact Tg) ltac:(rewrite V3; exact Pm)) as G3.
      split; auto. apply (Stat_frame ran st2 _ t tidx G2 G3 (arm_frame st2 st2 t tidx G2 (same_but_refl _ _) Ht Hid) S2).
  - pose proof (disarm_G' st st1 t G SB A) as G2.
    split; auto. apply (Stat_frame ran st _ t _ G G2 (disarm_frame st st1 t G SB A) S).
Qed.

Lemma run_step_S ran st cur now :
  GInv st -> Stat ran st -> min0 st cur <> 0 ->
  GInv (fst (run_step st cur now (min0 st cur))) /\ Stat ran (fst (run_step st cur now (min0 st cur))).
Proof.
  intros G S Nm. set (dr := min0 st cur) in *.
  destruct (min0_member st cur G Nm) as [Nz [A Id]]. fold dr in Nz, A, Id.
  pose proof (gi_ids _ _ G dr A) as Ht.
  assert (DisPend : forall st1 v, same_but st st1 dr -> t_armed v = false ->
            GInv (set_timer (disarm st1 dr) dr v) /\
            Stat ran (set_timer (disarm st1 dr) dr v)).
  { intros st1 v SB Av. pose proof (disarm_G' st st1 dr G SB A) as G1.
    pose proof (Stat_frame ran st _ dr _ G G1 (disarm_frame st st1 dr G SB A) S) as S1.
    assert (A1 : t_armed (tm (disarm st1 dr) dr) = false) by (rewrite disarm_tm, Z.eqb_refl; reflexivity).
    split; [apply (set_notarmed_G N); auto|apply Stat_set_notarmed; auto]. }
  unfold run_step. destruct (t_after (tm st dr)).
  - cbn [fst]. apply DisPend; [apply same_but_refl|]. cbn [t_armed with_pending with_reg]. rewrite disarm_tm, Z.eqb_refl; reflexivity.
  - destruct (t_cfg (tm st dr)) as [[[[c tg] dl] itv]|] eqn:Cf.
    + cbn [fst]. unfold configure. rewrite Cf.
      set (x1 := with_pending _ 0).
      assert (Ea : t_armed x1 = t_armed (tm st dr) /\ t_ident x1 = t_ident (tm st dr) /\ t_pending x1 = 0).
      { unfold x1. destruct (negb (c =? t_clock (tm st dr))); simpl; auto. }
      destruct Ea as [Ea [Ei Ep]]. rewrite Ea, A.
      apply (resume_S ran st (set_timer st dr x1) dr G (same_but_set st dr x1 Ea Ei) A); auto.
      rewrite tm_set_timer_eq, Ep. reflexivity.
    + destruct (nz (t_pending (tm st dr))).
      * cbn [fst]. apply DisPend; [apply same_but_refl|]. cbn [t_armed with_pending with_reg]. rewrite disarm_tm, Z.eqb_refl; reflexivity.
      * destruct (compute_missed _ _ _ _ _) as [[cnt tg] dl].
        set (x1 := with_values (tm st dr) tg dl (t_interval (tm st dr))).
        assert (SB : same_but st (set_timer st dr x1) dr) by (apply same_but_set; reflexivity).
        set (st1 := set_timer st dr x1) in *.
        assert (T1 : tm st1 dr = x1) by apply tm_set_timer_eq.
        rewrite T1.
        destruct (needs_rearm x1) eqn:W; cbn [fst].
        -- assert (Hid : t_armed (tm st dr) = true -> t_ident (tm st dr) = cur) by auto.
           assert (Pm : Z.land (t_pending (tm st1 dr)) 1 = 0).
           { rewrite T1. unfold x1. simpl. apply (gi_marker _ _ G dr A). }
           pose proof (arm_G' st st1 dr cur G SB Ht Hid ltac:(rewrite T1; apply needs_rearm_tgt; auto) Pm) as G2.
           pose proof (Stat_frame ran st _ dr cur G G2 (arm_frame st st1 dr cur G SB Ht Hid) S) as S2.
           set (st2 := arm st1 dr cur) in *.
           assert (T2 : tm st2 dr = x1).
           { unfold st2. rewrite arm_tm, T1. unfold x1 at 1. simpl. rewrite A. reflexivity. }
           split.
           ++ apply (set_same_G N); auto. intros _. simpl. apply even_pending.
           ++ apply Stat_set; auto.
        -- apply DisPend; [exact SB|]. cbn [t_armed with_pending with_reg]. rewrite disarm_tm, Z.eqb_refl; reflexivity.
Qed.

Definition mark (ran : Z -> bool) (i : Z) : Z -> bool := fun j => if j =? i then true else ran j.

Theorem run_loop_S ran cur : forall fuel st ev st' ev',
  GInv st -> Stat ran st -> run_loop fuel st cur (nows cur) ev = (st', ev', true) ->
  GInv st' /\ Stat (mark ran cur) st'.
Proof.
  induction fuel as [|fuel IH]; intros st ev st' ev' G S E; cbn [run_loop] in E; [inversion E|].
  unfold DTH_TARGET_ID in E. change (h_slot (s_heaps st cur) 0) with (min0 st cur) in E.
  assert (Exit : (min0 st cur = 0 \/ nows cur < t_target (tm st (min0 st cur))) -> GInv st /\ Stat (mark ran cur) st).
  { intros X. split; auto. intros j Hj. unfold mark. specialize (S j Hj). destruct (Z.eqb_spec j cur) as [->|Nj]; [|exact S].
    assert (Fx : Fix st cur).
    { intros u Mu. destruct (member_nonempty st cur u G Mu) as [Nm Le]. destruct X as [X|X]; [contradiction|lia]. }
    assert (Q : npb st cur = true \/ kernel_ok st cur).
    { destruct (ran cur); [destruct S as [|[K _]]; auto|]. destruct S as [|[K|[Nm D]]]; auto.
      exfalso. destruct X as [X|X]; [contradiction|lia]. }
    destruct Q; [left; auto|right; auto]. }
  destruct (Z.eqb_spec (min0 st cur) 0) as [Z0|Nm].
  { inversion E; subst. apply Exit. auto. }
  destruct (Z.gtb_spec (t_target (tm st (min0 st cur))) (nows cur)) as [Gt|Le].
  { inversion E; subst. apply Exit. right. lia. }
  destruct (run_step_S ran st cur (nows cur) G S Nm) as [G1 S1].
  destruct (run_step st cur (nows cur) (min0 st cur)) as [st1 e1]. cbn [fst] in *. eapply IH; eauto.
Qed.

(* ---- the programming phase of a pass *)
Definition Fin (st : state) (i : Z) : Prop := npb st i = false /\ kernel_ok st i /\ Fix st i.

Lemma status_same st st' j :
  s_timers st' = s_timers st -> min0 st' j = min0 st j -> npb st' j = npb st j ->
  s_harmed st' j = s_harmed st j -> s_ktimer st' j = s_ktimer st j ->
  (Ranp st j -> Ranp st' j) /\ (L0 st j -> L0 st' j) /\ (Fin st j -> Fin st' j).
Proof.
  intros Et Em En Eh Ek.
  assert (Tm : forall u, tm st' u = tm st u) by (intros u; unfold tm; rewrite Et; reflexivity).
  assert (K : kernel_ok st j -> kernel_ok st' j).
  { unfold kernel_ok. rewrite Em, Eh, Ek, Tm. auto. }
  assert (Fx : Fix st j -> Fix st' j).
  { intros Fx u Mu. rewrite Tm. apply Fx. unfold member in *. rewrite Tm in Mu. exact Mu. }
  assert (D : due st j -> due st' j).
  { unfold due. rewrite Em, Tm. auto. }
  unfold Ranp, L0, Fin. rewrite En. tauto.
Qed.

Lemma program_if_needed_facts st i :
  GInv st -> 0 <= nows i < T63 ->
  let st' := fst (program_if_needed st i (nows i)) in
  s_timers st' = s_timers st /\ (forall j, min0 st' j = min0 st j) /\
  (forall j, j <> i -> npb st' j = npb st j /\ s_harmed st' j = s_harmed st j /\ s_ktimer st' j = s_ktimer st j) /\
  (s_dirty st = true -> s_dirty st' = true) /\
  (Ranp st i -> L0 st' i /\ (Fin st' i \/ s_dirty st' = true)).
Proof.
  intros G Hn. unfold program_if_needed. fold (npb st i).
  destruct (npb st i) eqn:Np; cbn [fst].
  - (* programmed *)
    pose proof (program_min st i (nows i) Hn) as PM. cbv zeta in PM. fold (min0 st i) in PM.
    destruct PM as [Np' [Pfut [Pdue Pemp]]].
    assert (Str : s_timers (fst (program st i (nows i))) = s_timers st /\
                  (forall j, h_slot (s_heaps (fst (program st i (nows i))) j) = h_slot (s_heaps st j)) /\
                  (forall j, j <> i -> s_heaps (fst (program st i (nows i))) j = s_heaps st j /\
                                       s_harmed (fst (program st i (nows i))) j = s_harmed st j /\
                                       s_ktimer (fst (program st i (nows i))) j = s_ktimer st j) /\
                  (s_dirty st = true -> s_dirty (fst (program st i (nows i))) = true)).
    { unfold program. destruct (get_delay st i (nows i)) as [delay leeway].
      set (st1 := if delay =? 0 then set_dirty st true else st).
      assert (E1 : s_timers st1 = s_timers st /\ s_heaps st1 = s_heaps st /\ s_harmed st1 = s_harmed st /\
                   s_ktimer st1 = s_ktimer st /\ (s_dirty st = true -> s_dirty st1 = true)).
      { unfold st1. destruct (delay =? 0); simpl; auto. }
      destruct E1 as [T1 [H1 [A1 [K1 D1]]]].
      destruct ((delay =? 0) || (delay >=? INT64_MAX)); cbn [fst]; simpl; rewrite ?T1, ?H1, ?A1, ?K1;
        (split; [reflexivity|]); (split; [intros j; unfold updf; destruct (Z.eqb_spec j i) as [->|]; reflexivity|]);
        (split; [|exact D1]); intros j Nj; unfold updf; destruct (Z.eqb_spec j i); try contradiction; auto.
      destruct (s_harmed st i); unfold updf; destruct (Z.eqb_spec j i); try contradiction; auto. }
    destruct Str as [Et [Es [Eo Ed]]].
    set (st' := fst (program st i (nows i))) in *.
    split; [exact Et|]. split; [intros j; unfold min0; rewrite Es; reflexivity|]. split.
    { intros j Nj. destruct (Eo j Nj) as [Eh [Ea Ek]]. unfold npb. rewrite Eh. auto. }
    split; [exact Ed|].
    intros _. assert (Tm : forall u, tm st' u = tm st u) by (intros u; unfold tm; rewrite Et; reflexivity).
    assert (Em : min0 st' i = min0 st i) by (unfold min0; rewrite Es; reflexivity).
    assert (Mem : forall u, member st' i u <-> member st i u) by (intros u; unfold member; rewrite Tm; tauto).
    destruct (Z.eq_dec (min0 st i) 0) as [Z0|Nm].
    + (* empty heap *)
      assert (Fn : Fin st' i).
      { split; [exact Np'|]. split; [unfold kernel_ok; rewrite Em; intros X; contradiction|].
        intros u Mu. apply Mem in Mu. destruct (member_nonempty st i u G Mu) as [X _]. contradiction. }
      split; [right; left; apply Fn|left; exact Fn].
    + destruct (min0_member st i G Nm) as [_ [Am _]].
      pose proof (gi_tgt _ _ G _ Am) as Tg.
      destruct (Z.le_gt_cases (t_target (tm st (min0 st i))) (nows i)) as [Le|Gt].
      * destruct (Pdue Nm Le) as [Dy _]. split; [|right; exact Dy].
        right; right. unfold due. rewrite Em, Tm. auto.
      * destruct (Pfut Nm ltac:(lia)) as [Ha [Hk _]].
        assert (Fn : Fin st' i).
        { split; [exact Np'|]. split; [unfold kernel_ok; rewrite Em, Tm; auto|].
          intros u Mu. apply Mem in Mu. destruct (member_nonempty st i u G Mu) as [_ Le]. rewrite Tm. lia. }
        split; [right; left; apply Fn|left; exact Fn].
  - (* nothing to do *)
    split; [reflexivity|]. split; [reflexivity|]. split; [auto|]. split; [auto|].
    intros [X|[K Fx]]; [congruence|]. split; [right; left; exact K|left; split; auto].
Qed.

Lemma program_step st i :
  GInv st -> 0 <= nows i < T63 -> 0 <= i < 3 ->
  let st' := fst (program_if_needed st i (nows i)) in
  GInv st' /\ (s_dirty st = true -> s_dirty st' = true) /\
  (Ranp st i -> L0 st' i /\ (Fin st' i \/ s_dirty st' = true)) /\
  (forall j, j <> i -> (Ranp st j -> Ranp st' j) /\ (L0 st j -> L0 st' j) /\ (Fin st j -> Fin st' j)).
Proof.
  intros G Hn Hi. destruct (program_if_needed_facts st i G Hn) as [Et [Em [Eo [Ed Ea]]]].
  split; [apply (program_if_needed_G N); auto|]. split; [exact Ed|]. split; [exact Ea|].
  intros j Nj. destruct (Eo j Nj) as [En [Eh Ek]]. apply status_same; auto.
Qed.

Definition nows_ok : Prop := forall i, 0 <= i < 3 -> 0 <= nows i < T63.
Definition none : Z -> bool := fun _ => false.

(* one pass: run every heap, clear the dirty bits, program *)
Theorem drain_pass_S st st' ev calls :
  nows_ok -> GInv st -> (forall j, 0 <= j < 3 -> L0 st j) ->
  drain_pass st nows = (st', ev, calls, true) ->
  GInv st' /\ (forall j, 0 <= j < 3 -> L0 st' j) /\
  (s_dirty st' = false -> forall j, 0 <= j < 3 -> Fin st' j).
Proof.
  intros Hn G L E. unfold drain_pass, run_all, program_all in E.
  assert (S0 : Stat none st) by (intros j Hj; apply L; auto).
  destruct (timers_run st 0 (nows 0)) as [[s0 e0] f0] eqn:R0.
  destruct (timers_run s0 1 (nows 1)) as [[s1 e1] f1] eqn:R1.
  destruct (timers_run s1 2 (nows 2)) as [[s2 e2] f2] eqn:R2.
  destruct (program_if_needed (set_dirty s2 false) 0 (nows 0)) as [p0 c0] eqn:P0.
  destruct (program_if_needed p0 1 (nows 1)) as [p1 c1] eqn:P1.
  destruct (program_if_needed p1 2 (nows 2)) as [p2 c2] eqn:P2.
  inversion E; subst st' ev calls. clear E.
  match goal with H : _ && _ && _ = true |- _ => apply andb_true_iff in H; destruct H as [H01 ->]; apply andb_true_iff in H01; destruct H01 as [-> ->] end.
  unfold timers_run in R0, R1, R2.
  destruct (run_loop_S none 0 _ _ _ _ _ G S0 R0) as [G0 T0].
  destruct (run_loop_S _ 1 _ _ _ _ _ G0 T0 R1) as [G1 T1].
  destruct (run_loop_S _ 2 _ _ _ _ _ G1 T1 R2) as [G2 T2].
  assert (A2 : forall j, 0 <= j < 3 -> Ranp (set_dirty s2 false) j).
  { intros j Hj. specialize (T2 j Hj). unfold mark, none in T2.
    assert (X : Ranp s2 j).
    { destruct (Z.eqb_spec j 2); auto. destruct (Z.eqb_spec j 1); auto. destruct (Z.eqb_spec j 0); auto. lia. }
    exact X. }
  pose proof (set_dirty_G N s2 false G2) as G3.
  destruct (program_step (set_dirty s2 false) 0 G3 (Hn 0 ltac:(lia)) ltac:(lia)) as [Gp0 [D0 [Q0 O0]]].
  rewrite P0 in *. cbn [fst] in *.
  destruct (program_step p0 1 Gp0 (Hn 1 ltac:(lia)) ltac:(lia)) as [Gp1 [D1 [Q1 O1]]].
  rewrite P1 in *. cbn [fst] in *.
  destruct (program_step p1 2 Gp1 (Hn 2 ltac:(lia)) ltac:(lia)) as [Gp2 [D2 [Q2 O2]]].
  rewrite P2 in *. cbn [fst] in *.
  destruct (Q0 (A2 0 ltac:(lia))) as [L00 F00].
  destruct (Q1 (proj1 (O0 1 ltac:(lia)) (A2 1 ltac:(lia)))) as [L11 F11].
  destruct (Q2 (proj1 (O1 2 ltac:(lia)) (proj1 (O0 2 ltac:(lia)) (A2 2 ltac:(lia))))) as [L22 F22].
  split; [exact Gp2|]. split.
  - intros j Hj. assert (j = 0 \/ j = 1 \/ j = 2) as [->|[->| ->]] by lia.
    + apply (proj1 (proj2 (O2 0 ltac:(lia)))). apply (proj1 (proj2 (O1 0 ltac:(lia)))). exact L00.
    + apply (proj1 (proj2 (O2 1 ltac:(lia)))). exact L11.
    + exact L22.
  - intros Dn j Hj.
    assert (Dp1 : s_dirty p1 = false) by (destruct (s_dirty p1) eqn:X; auto; rewrite D2 in Dn; auto).
    assert (Dp0 : s_dirty p0 = false) by (destruct (s_dirty p0) eqn:X; auto; rewrite D1 in Dp1; auto).
    assert (j = 0 \/ j = 1 \/ j = 2) as [->|[->| ->]] by lia.
    + destruct F00 as [F|X]; [|congruence]. apply (proj2 (proj2 (O2 0 ltac:(lia)))). apply (proj2 (proj2 (O1 0 ltac:(lia)))). exact F.
    + destruct F11 as [F|X]; [|congruence]. apply (proj2 (proj2 (O2 1 ltac:(lia)))). exact F.
    + destruct F22 as [F|X]; [exact F|congruence].
Qed.

(* the manager's whole timer pass: when it returns (the loop `while (dirty)` is left), for every clock: needs_program is
   clear, the kernel timer is armed at exactly the minimum target of the armed timers of that clock, and no armed timer is
   due at the cached clock reading *)
Theorem drain_S : forall fuel st ev calls st' ev' calls',
  nows_ok -> GInv st -> (forall j, 0 <= j < 3 -> L0 st j) ->
  drain fuel st nows ev calls = (st', ev', calls', true) ->
  GInv st' /\ s_dirty st' = false /\ forall j, 0 <= j < 3 -> Fin st' j.
Proof.
  induction fuel as [|fuel IH]; intros st ev calls st' ev' calls' Hn G L E; cbn [drain] in E; [inversion E|].
  destruct (drain_pass st nows) as [[[s1 e1] c1] fin] eqn:P.
  destruct fin; cbn [negb] in E; [|inversion E].
  destruct (drain_pass_S st s1 e1 c1 Hn G L P) as [G1 [L1 F1]].
  destruct (s_dirty s1) eqn:D.
  - eapply IH; eauto.
  - inversion E; subst. auto.
Qed.
End Prog.

(* ================================================================================================ *)
(* between the manager's passes: every external operation keeps "needs_program or kernel timer = minimum" *)
Section Sys2.
Variable N : Z.
Hypothesis HN : 0 <= N /\ 2 * N + 2 <= CAPMAX.
Notation GInv := (GInv N).

Definition DInv (st : state) : Prop := forall i, 0 <= i < 3 -> npb st i = true -> s_dirty st = true.
Definition SInv (st : state) : Prop := GInv st /\ QInv st /\ DInv st.

Lemma QInv_set_notarmed st t v :
  GInv st -> t_armed (tm st t) = false -> QInv st -> QInv (set_timer st t v).
Proof.
  intros G A Q j Hj. specialize (Q j Hj).
  assert (Mm : min0 st j <> 0 -> tm (set_timer st t v) (min0 st j) = tm st (min0 st j)).
  { intros Nm. apply tm_set_timer_neq. intros E. destruct (min0_member N st j G Nm) as [_ [X _]]. congruence. }
  unfold kernel_ok in *. change (min0 (set_timer st t v) j) with (min0 st j). change (npb (set_timer st t v) j) with (npb st j).
  change (s_harmed (set_timer st t v)) with (s_harmed st). change (s_ktimer (set_timer st t v)) with (s_ktimer st).
  destruct Q as [Q|Q]; [left; auto|right]. intros Nm. rewrite Mm by auto. auto.
Qed.

Lemma dirty_arm st t i : s_dirty (arm st t i) = true.
Proof. unfold arm. destruct (t_armed (tm st t)); reflexivity. Qed.
Lemma dirty_disarm st t : s_dirty (disarm st t) = true.
Proof. reflexivity. Qed.
Lemma DInv_dirty st : s_dirty st = true -> DInv st.
Proof. intros D i _ _. exact D. Qed.
Lemma DInv_same st st' : (forall i, npb st' i = npb st i) -> s_dirty st' = s_dirty st -> DInv st -> DInv st'.
Proof. intros En Ed D i Hi Np. rewrite Ed. apply (D i Hi). rewrite <- En. exact Np. Qed.

Lemma resume_dirty st t :
  s_dirty (resume st t) = true \/ resume st t = st.
Proof.
  unfold resume. destruct (t_armed (tm st t) && _); destruct (needs_rearm (tm st t));
    rewrite ?dirty_arm, ?dirty_disarm; auto.
Qed.

Lemma resume_Q st st1 t :
  GInv st -> same_but st st1 t -> t_armed (tm st t) = true -> Z.land (t_pending (tm st1 t)) 1 = 0 ->
  QInv st -> QInv (resume st1 t) /\ s_dirty (resume st1 t) = true.
Proof.
  intros G SB A Pm Q. pose proof (gi_ids _ _ G t A) as Ht.
  unfold resume. set (x1 := tm st1 t). set (tidx := unote_idx x1).
  assert (A1 : t_armed x1 = true) by (unfold x1; rewrite (sb_armed _ _ _ SB); auto).
  assert (I1 : t_ident x1 = t_ident (tm st t)) by (unfold x1; apply SB).
  rewrite A1. cbn [andb].
  destruct (needs_rearm x1) eqn:W; cbn [negb orb].
  - pose proof (needs_rearm_tgt _ W) as Tg.
    destruct (Z.eqb_spec (t_ident x1) tidx) as [E|E]; cbn [negb].
    + assert (Hid : t_armed (tm st t) = true -> t_ident (tm st t) = tidx) by (intros _; congruence).
      split; [|apply dirty_arm]. apply (QInv_frame N st _ t tidx G (arm_frame N HN st st1 t tidx G SB Ht Hid) Q).
    + pose proof (disarm_G' N HN st st1 t G SB A) as G2.
      pose proof (QInv_frame N st _ t _ G (disarm_frame N HN st st1 t G SB A) Q) as Q2.
      set (st2 := disarm st1 t) in *.
      assert (A2 : t_armed (tm st2 t) = false) by (unfold st2; rewrite disarm_tm, Z.eqb_refl; reflexivity).
      assert (Hid : t_armed (tm st2 t) = true -> t_ident (tm st2 t) = tidx) by (rewrite A2; discriminate).
      split; [|apply dirty_arm].
      apply (QInv_frame N st2 _ t tidx G2 (arm_frame N HN st2 st2 t tidx G2 (same_but_refl _ _) Ht Hid) Q2).
  - split; [|apply dirty_disarm]. apply (QInv_frame N st _ t _ G (disarm_frame N HN st st1 t G SB A) Q).
Qed.

Lemma resume_Q0 st t :
  GInv st -> t_armed (tm st t) = false -> 1 <= t <= N -> QInv st -> DInv st ->
  QInv (resume st t) /\ DInv (resume st t).
Proof.
  intros G A Ht Q D. unfold resume. rewrite A. cbn [andb].
  destruct (needs_rearm (tm st t)); [|auto].
  assert (Hid : t_armed (tm st t) = true -> t_ident (tm st t) = unote_idx (tm st t)) by (rewrite A; discriminate).
  split; [|apply DInv_dirty; apply dirty_arm].
  apply (QInv_frame N st _ t _ G (arm_frame N HN st st t _ G (same_but_refl _ _) Ht Hid) Q).
Qed.

Lemma configure_Q st t :
  GInv st -> 1 <= t <= N -> QInv st -> DInv st -> QInv (configure st t) /\ DInv (configure st t).
Proof.
  intros G Ht Q D. unfold configure. destruct (t_cfg (tm st t)) as [[[[c tg] dl] itv]|]; auto.
  set (x1 := with_pending _ 0).
  assert (Ea : t_armed x1 = t_armed (tm st t) /\ t_ident x1 = t_ident (tm st t) /\ t_pending x1 = 0).
  { unfold x1. destruct (negb (c =? t_clock (tm st t))); simpl; auto. }
  destruct Ea as [Ea [Ei Ep]].
  destruct (t_armed (tm st t)) eqn:A; rewrite Ea.
  - destruct (resume_Q st (set_timer st t x1) t G (same_but_set st t x1 ltac:(congruence) Ei) A) as [Q1 D1]; auto.
    + rewrite tm_set_timer_eq, Ep. reflexivity.
    + split; auto. apply DInv_dirty; auto.
  - split; [apply QInv_set_notarmed; auto|]. eapply DInv_same; eauto; reflexivity.
Qed.

Lemma unregister_Q st t :
  GInv st -> 1 <= t <= N -> QInv st -> DInv st -> QInv (unregister st t) /\ DInv (unregister st t).
Proof.
  intros G Ht Q D. unfold unregister. destruct (t_armed (tm st t)) eqn:A.
  - pose proof (disarm_G N st t G A) as G1.
    pose proof (QInv_frame N st _ t _ G (disarm_frame N HN st st t G (same_but_refl _ _) A) Q) as Q1.
    assert (A1 : t_armed (tm (disarm st t) t) = false) by (rewrite disarm_tm, Z.eqb_refl; reflexivity).
    split; [apply QInv_set_notarmed; auto|]. apply DInv_dirty. reflexivity.
  - split; [apply QInv_set_notarmed; auto|]. eapply DInv_same; eauto; reflexivity.
Qed.

Lemma latch_Q st t now :
  GInv st -> 1 <= t <= N -> QInv st -> DInv st -> QInv (fst (latch st t now)) /\ DInv (fst (latch st t now)).
Proof.
  intros G Ht Q D. unfold latch. set (x := tm st t).
  destruct (t_armed x) eqn:A.
  - pose proof (gi_marker _ _ G t A) as M. fold x in M. unfold DISPATCH_TIMER_DISARMED_MARKER. rewrite M.
    cbn [nz Z.eqb negb fst]. split; [apply QInv_set; auto|]. eapply DInv_same; eauto; reflexivity.
  - destruct (nz _); [destruct (_ && _); [destruct (compute_missed _ _ _ _ _) as [[cnt tg] dl]|]|];
      cbn [fst]; (split; [apply QInv_set_notarmed; auto|eapply DInv_same; eauto; reflexivity]).
Qed.

Lemma kernel_expired_S st i : SInv st -> SInv (kernel_expired st i).
Proof.
  intros [G [Q D]]. split; [apply (kernel_expired_G N); auto|]. split.
  - intros j Hj. specialize (Q j Hj). unfold kernel_expired, npb, kernel_ok, min0 in *; simpl. unfold updf.
    destruct (Z.eqb_spec j i) as [->|Nj]; [left; reflexivity|]. exact Q.
  - apply DInv_dirty. reflexivity.
Qed.

(* operations issued between the manager's passes (run and program only happen inside a pass) *)
Definition external (o : top) : Prop :=
  match o with TRun _ _ | TProg _ _ | TDrain _ _ _ | TPend _ _ => False | _ => True end.

Theorem tstep_S n st o : SInv st -> guard N st o -> external o -> SInv (fst (tstep n st o)).
Proof.
  intros [G [Q D]] Gd Ex. split; [apply (tstep_G N HN); auto|].
  destruct o; cbn [tstep guard external fst] in *; try contradiction.
  - (* TNew *)
    destruct (t_armed (tm st t)) eqn:A.
    + destruct (unregister_Q st t G Gd Q D) as [Q1 D1].
      assert (A1 : t_armed (tm (unregister st t) t) = false).
      { unfold unregister. rewrite A, tm_set_timer_eq. cbn [t_armed with_ident]. rewrite disarm_tm, Z.eqb_refl. reflexivity. }
      split; [apply QInv_set_notarmed; auto; apply (unregister_G N); auto|]. eapply DInv_same; eauto; reflexivity.
    + split; [apply QInv_set_notarmed; auto|]. eapply DInv_same; eauto; reflexivity.
  - destruct Gd as [Ht A]. split; [apply QInv_set_notarmed; auto|]. eapply DInv_same; eauto; reflexivity.
  - unfold set_cfg. split; [apply QInv_set; auto|]. eapply DInv_same; eauto; reflexivity.
  - destruct Gd as (Ht & R0 & A0). unfold register. rewrite R0. change (0 =? 1) with false. cbv iota.
    assert (G1 : GInv (set_timer st t (with_armed (with_reg (tm st t) 1) false))) by (apply (set_notarmed_G N); auto).
    assert (Q1 : QInv (set_timer st t (with_armed (with_reg (tm st t) 1) false))) by (apply QInv_set_notarmed; auto).
    assert (D1 : DInv (set_timer st t (with_armed (with_reg (tm st t) 1) false))) by (eapply DInv_same; eauto; reflexivity).
    destruct (t_cfg _); auto. apply configure_Q; auto.
  - apply configure_Q; auto.
  - destruct Gd as (Ht & P & _). destruct (t_armed (tm st t)) eqn:A.
    + destruct (resume_Q st st t G (same_but_refl _ _) A P Q) as [Q1 D1]. split; auto. apply DInv_dirty; auto.
    + apply resume_Q0; auto.
  - apply unregister_Q; auto.
  - split; [apply QInv_set; auto|]. eapply DInv_same; eauto; reflexivity.
  - destruct (latch_Q st t now G Gd Q D) as [Q1 D1]. destruct (latch st t now) as [st' d]. auto.
  - auto.
Qed.

(* the manager's pass as a step of the system *)
Theorem drain_Sys fuel st nows st' ev calls :
  (forall i, 0 <= i < 3 -> 0 <= nows i < T63) -> SInv st ->
  drain fuel st nows [] [] = (st', ev, calls, true) ->
  SInv st' /\ s_dirty st' = false /\
  forall i, 0 <= i < 3 ->
    npb st' i = false /\ kernel_ok st' i /\ forall t, member st' i t -> nows i < t_target (tm st' t).
Proof.
  intros Hn [G [Q D]] E.
  assert (L : forall j, 0 <= j < 3 -> L0 nows st j).
  { intros j Hj. destruct (Q j Hj); [left; auto|right; left; auto]. }
  destruct (drain_S N HN nows fuel st [] [] st' ev calls Hn G L E) as [G' [Dy Fn]].
  split; [|split; [exact Dy|]].
  - split; [exact G'|]. split.
    + intros j Hj. destruct (Fn j Hj) as [_ [K _]]. right; exact K.
    + intros j Hj Np. destruct (Fn j Hj) as [X _]. congruence.
  - intros i Hi. destruct (Fn i Hi) as [A [B C]]. auto.
Qed.

(* always fires, as the invariant it is: in every state of the system an armed timer is covered either by a pending
   manager pass (dirty bits set: the manager runs _dispatch_event_loop_drain_timers before it sleeps) or by the kernel
   timer of its clock, armed at an expiry that is not later than the timer's target *)
Theorem always_fires st i t :
  SInv st -> 0 <= i < 3 -> member st i t ->
  s_dirty st = true \/ (s_harmed st i = true /\ s_ktimer st i <= t_target (tm st t)).
Proof.
  intros [G [Q D]] Hi M. destruct (Q i Hi) as [Np|K]; [left; apply (D i Hi Np)|right].
  destruct (member_nonempty N st i t G M) as [Nm Le]. destruct (K Nm) as [A E]. split; auto. lia.
Qed.

Lemma SInv_init : SInv init_state.
Proof.
  split; [apply (GInv_init N HN)|]. split.
  - intros j Hj. right. intros X. exfalso. apply X. reflexivity.
  - intros j Hj X. discriminate.
Qed.
End Sys2.

(* ================================================================================================ *)
(* the system as a whole: client / source-side operations, kernel timer expiry, manager passes, in any order *)
Inductive sop :=
| SOp (o : top)                              (* one operation of the timer machinery, issued under its caller's guard *)
| SDrain (fuel : nat) (nows : Z -> Z)        (* the manager runs _dispatch_event_loop_drain_timers with these clock readings *)
| SExpire (i : Z).                           (* the kernel timer of clock i expires (or is reported spuriously) *)

Definition sstep (n : Z) (st : state) (s : sop) : state :=
  match s with
  | SOp o => fst (tstep n st o)
  | SDrain fuel nows => fst (fst (fst (drain fuel st nows [] [])))
  | SExpire i => kernel_expired st i
  end.
Definition sguard (N n : Z) (st : state) (s : sop) : Prop :=
  match s with
  | SOp o => guard N st o /\ external o
  | SDrain fuel nows => (forall i, 0 <= i < 3 -> 0 <= nows i < T63) /\ snd (drain fuel st nows [] []) = true
  | SExpire i => True
  end.
Fixpoint svalid (N n : Z) (st : state) (l : list sop) : Prop :=
  match l with [] => True | s :: r => sguard N n st s /\ svalid N n (sstep n st s) r end.

Theorem SInv_step N n st s :
  0 <= N /\ 2 * N + 2 <= CAPMAX -> SInv N st -> sguard N n st s -> SInv N (sstep n st s).
Proof.
  intros HN S Gd. destruct s as [o|fuel nows|i]; cbn [sstep sguard] in *.
  - destruct Gd. apply tstep_S; auto.
  - destruct Gd as [Hn Fin]. destruct (drain fuel st nows [] []) as [[[st' ev] calls] fin] eqn:E. cbn [fst snd] in *. subst fin.
    destruct (drain_Sys N HN fuel st nows st' ev calls Hn S E) as [S' _]. exact S'.
  - apply kernel_expired_S; auto.
Qed.

Theorem SInv_reachable N n : 0 <= N /\ 2 * N + 2 <= CAPMAX ->
  forall l st, SInv N st -> svalid N n st l -> SInv N (fold_left (sstep n) l st).
Proof.
  intros HN. induction l as [|s r IH]; intros st S V; cbn [fold_left svalid] in *; auto.
  destruct V as [Gd V]. apply IH; auto. apply SInv_step; auto.
Qed.

(* a timer IN ITS HEAP is covered: in EVERY state the system can reach from boot, whatever the population and the history
   of set_timer / suspend / resume / cancel / latch / expiry / manager passes, every member of a heap (armed: hence
   uncancelled and with a target below INT64_MAX; armed does not imply "source not suspended") is covered by a pending
   manager pass or by the kernel timer of its clock armed at or before the timer's target.  Nothing is said here about a
   timer that is not armed: that it gets (re-)armed is the source side, TimerSrc_proofs.rearm_pending *)
Theorem always_fires_reachable N n l t i :
  0 <= N /\ 2 * N + 2 <= CAPMAX -> svalid N n init_state l -> 0 <= i < 3 ->
  let st := fold_left (sstep n) l init_state in
  member st i t ->
  s_dirty st = true \/ (s_harmed st i = true /\ s_ktimer st i <= t_target (tm st t)).
Proof.
  intros HN V Hi st M. apply (always_fires N st i t); auto.
  apply SInv_reachable; auto. apply SInv_init; auto.
Qed.

(* ================================================================================================ *)
(* count bound over several fires: the sum of what dispatch_source_get_data reported so far never exceeds the number
   of interval boundaries start + k * interval that have passed *)
Definition vals := (Z * Z * Z * Z)%type.       (* target deadline interval ds_pending_data *)
Definition vals_of (x : timer) : vals := (t_target x, t_deadline x, t_interval x, t_pending x).

(* what _dispatch_timers_run does to the values of a (non-AFTER, not reconfigured) timer it fires at `now`;
   rearm = whether the timer stays armed (else the DISARMED marker is added) *)
Definition fire_v (v : vals) (now : Z) (rearm : bool) : vals :=
  let '(tg, dl, itv, p) := v in
  if nz p then (tg, dl, itv, Z.lor p DISPATCH_TIMER_DISARMED_MARKER)
  else
    let '(cnt, tg', dl') := compute_missed tg dl itv now 0 in
    let pending := u64 (Z.shiftl cnt 1) in
    (tg', dl', itv, if rearm then pending else Z.lor pending DISPATCH_TIMER_DISARMED_MARKER).
(* what the latch does: new values and the count handed to the handler *)
Definition latch_v (v : vals) (now : Z) : vals * Z :=
  let '(tg, dl, itv, p) := v in
  let data := Z.shiftr p 1 in
  if nz (Z.land p DISPATCH_TIMER_DISARMED_MARKER) then
    if (tg <? INT64_MAX) && (now >=? tg) then
      let '(cnt, tg', dl') := compute_missed tg dl itv now data in ((tg', dl', itv, 0), cnt)
    else ((tg, dl, itv, 0), data)
  else ((tg, dl, itv, 0), data).

Lemma latch_vals st t now :
  vals_of (tm (fst (latch st t now)) t) = fst (latch_v (vals_of (tm st t)) now) /\
  snd (latch st t now) = snd (latch_v (vals_of (tm st t)) now).
Proof.
  unfold latch, latch_v, vals_of. set (x := tm st t). cbn [t_target t_deadline t_interval t_pending with_pending].
  destruct (nz _); [destruct (_ && _); [destruct (compute_missed _ _ _ _ _) as [[cnt tg] dl]|]|];
    cbn [fst snd]; rewrite tm_set_timer_eq; simpl; auto.
Qed.

Lemma run_step_vals st tidx now dr :
  t_after (tm st dr) = false -> t_cfg (tm st dr) = None ->
  exists b, vals_of (tm (fst (run_step st tidx now dr)) dr) = fire_v (vals_of (tm st dr)) now b.
Proof.
  intros Af Cf. unfold run_step, fire_v, vals_of. rewrite Af, Cf.
  destruct (nz (t_pending (tm st dr))).
  - exists true. cbn [fst]. rewrite tm_set_timer_eq. destruct (disarm_vals st dr dr) as (_ & _ & Et & Ed & Ei & _).
    cbn [t_target t_deadline t_interval t_pending with_pending]. rewrite Et, Ed, Ei. reflexivity.
  - destruct (compute_missed _ _ _ _ _) as [[cnt tg] dl].
    set (x1 := with_values (tm st dr) tg dl (t_interval (tm st dr))).
    rewrite tm_set_timer_eq.
    destruct (needs_rearm x1); [exists true|exists false]; cbn [fst]; rewrite tm_set_timer_eq;
      cbn [t_target t_deadline t_interval t_pending with_pending].
    + destruct (arm_vals (set_timer st dr x1) dr tidx dr) as (_ & _ & Et & Ed & Ei & _).
      rewrite Et, Ed, Ei, tm_set_timer_eq. reflexivity.
    + destruct (disarm_vals (set_timer st dr x1) dr dr) as (_ & _ & Et & Ed & Ei & _).
      rewrite Et, Ed, Ei, tm_set_timer_eq. reflexivity.
Qed.

Inductive tev := EFire (now : Z) (rearm : bool) | ELatch (now : Z).
Definition tev_now (e : tev) : Z := match e with EFire n _ => n | ELatch n => n end.
(* the run fires a timer only when its target has been reached (C11_never_early) *)
Definition tev_ok (v : vals) (e : tev) : Prop :=
  0 <= tev_now e < T63 /\ match e with EFire n _ => fst (fst (fst v)) <= n | ELatch _ => True end.
Definition play1 (s : vals * Z * Z) (e : tev) : vals * Z * Z :=     (* values, total reported, latest clock reading *)
  let '(v, total, m) := s in
  match e with
  | EFire n b => (fire_v v n b, total, Z.max m n)
  | ELatch n => let '(v', d) := latch_v v n in (v', total + d, Z.max m n)
  end.
Fixpoint tevs_ok (s : vals * Z * Z) (l : list tev) : Prop :=
  match l with [] => True | e :: r => tev_ok (fst (fst s)) e /\ tevs_ok (play1 s e) r end.

Section Count.
Local Ltac Zify.zify_post_hook ::= Z.div_mod_to_equations.
Variables start itv : Z.
Hypothesis Hstart : 1 <= start.
Hypothesis Hitv : 1 <= itv < INT64_MAX.

Definition cnt_inv (s : vals * Z * Z) : Prop :=
  let '(tg, dl, i, p, total, m) := s in
  i = itv /\ 0 <= dl < T64 /\ 0 <= p < T64 /\ 0 <= total /\ m < T63 /\
  tg = start + (total + Z.shiftr p 1) * itv /\
  (total + Z.shiftr p 1 = 0 \/ tg - itv <= m).

Lemma shiftr1 p : 0 <= p -> Z.shiftr p 1 = p / 2.
Proof. intros. rewrite Z.shiftr_div_pow2 by lia. reflexivity. Qed.
Lemma lor1 p : 0 <= p -> Z.lor p 1 = p + 1 - p mod 2.
Proof.
  intros Hp. assert (R : p mod 2 = 0 \/ p mod 2 = 1) by lia. change 1 with (2 ^ 0) at 1.
  destruct R as [R|R]; rewrite R.
  - rewrite lor_bit_clear; try lia; change (2 ^ 0) with 1; rewrite ?Z.div_1_r; lia.
  - rewrite lor_bit_set; try lia; change (2 ^ 0) with 1; rewrite ?Z.div_1_r; lia.
Qed.

Lemma boundaries_bound tg m K : tg = start + K * itv -> 0 <= K -> (K = 0 \/ tg - itv <= m) ->
  K <= Z.max 0 ((m - start) / itv + 1).
Proof.
  intros E HK [->|L]; [lia|].
  destruct (Z.eq_dec K 0) as [->|NK]; [lia|].
  assert (H : (K - 1) * itv <= m - start) by lia.
  assert (K - 1 <= (m - start) / itv) by (apply Z.div_le_lower_bound; lia).
  lia.
Qed.

Lemma div_le_self a b : 0 <= a -> 1 <= b -> a / b <= a.
Proof. intros. apply Z.div_le_upper_bound; nia. Qed.

Lemma pending_of_count k : 0 <= k < T63 ->
  u64 (Z.shiftl k 1) = 2 * k /\ Z.shiftr (2 * k) 1 = k /\ Z.shiftr (Z.lor (2 * k) 1) 1 = k /\ Z.lor (2 * k) 1 = 2 * k + 1.
Proof.
  unfold T63. intros Hk. rewrite Z.shiftl_mul_pow2 by lia. change (2 ^ 1) with 2.
  rewrite u64_id by lia. rewrite lor1 by lia. rewrite !shiftr1 by lia. repeat split; lia.
Qed.

Lemma play1_inv s e : cnt_inv s -> tev_ok (fst (fst s)) e -> cnt_inv (play1 s e).
Proof.
  destruct s as [[[[[tg dl] i] p] total] m]. unfold cnt_inv, tev_ok. cbn [fst].
  intros (-> & Hdl & Hp & Ht & Hm & Etg & Hd) [Hn He].
  unfold T63, T64, INT64_MAX in *.
  set (c := Z.shiftr p 1) in *.
  assert (Hc : 0 <= c /\ 2 * c <= p) by (unfold c; rewrite shiftr1 by lia; lia).
  assert (HK : 0 <= (total + c) * itv) by nia.
  assert (Tg1 : 1 <= tg) by lia.
  destruct e as [n b|n]; cbn [tev_now play1 fire_v latch_v] in *; unfold DISPATCH_TIMER_DISARMED_MARKER, INT64_MAX.
  - (* fire *)
    unfold nz. destruct (Z.eqb_spec p 0) as [P0|P0]; cbn [negb].
    + (* no unconsumed data: compute the missed intervals *)
      assert (C0 : c = 0) by (unfold c; rewrite P0; reflexivity).
      pose proof (div_le_self (n - tg) itv ltac:(lia) ltac:(lia)) as DL.
      pose proof (missed_count tg dl itv n 0 ltac:(lia) ltac:(unfold T63; lia) ltac:(unfold T64; lia)
                    ltac:(unfold T64; lia) ltac:(lia) ltac:(unfold LONG_MAX; lia)) as MC.
      destruct (compute_missed tg dl itv n 0) as [[r tg'] dl']. cbv zeta in MC.
      destruct MC as [Er [_ [B _]]]. destruct (B ltac:(unfold INT64_MAX; lia)) as [Etg' [Lt [Ge [_ Edl]]]].
      set (k := (n - tg) / itv + 1) in *. assert (Hk : 1 <= k <= n) by (unfold k; pose proof (Z.div_pos (n - tg) itv); lia).
      assert (r = k) by lia. subst r.
      destruct (pending_of_count k ltac:(unfold T63; lia)) as [E1 [E2 [E3 E4]]].
      assert (Ek : (total + k) * itv = (total + c) * itv + k * itv) by (rewrite C0; ring).
      assert (Dl' : 0 <= dl' < 18446744073709551616) by (rewrite Edl; apply u64_range).
      rewrite E1. destruct b.
      * rewrite E2. repeat split; try lia.
      * rewrite E3, E4. repeat split; try lia.
    + (* the handler has not consumed the previous data: marker only *)
      rewrite lor1 by lia.
      assert (Z.shiftr (p + 1 - p mod 2) 1 = c) by (unfold c; rewrite !shiftr1 by lia; lia).
      rewrite H. repeat split; try lia.
  - (* latch *)
    rewrite land1_mod.
    assert (Keep : cnt_inv (tg, dl, itv, 0, total + c, Z.max m n)).
    { unfold cnt_inv, T63, T64. change (Z.shiftr 0 1) with 0. rewrite Z.add_0_r. repeat split; try lia. }
    unfold nz. destruct (Z.eqb_spec (p mod 2) 0) as [Ev|Od]; cbn [negb]; [exact Keep|].
    destruct (Z.ltb_spec tg 9223372036854775807) as [Lt|Ge]; cbn [andb]; [|exact Keep].
    destruct (Z.geb_spec n tg) as [Due|Nd]; [|exact Keep].
    assert (Cb : c * itv <= tg - start) by nia.
    assert (Cc : c <= tg - 1) by nia.
    pose proof (div_le_self (n - tg) itv ltac:(lia) ltac:(lia)) as DL.
    pose proof (missed_count tg dl itv n c ltac:(lia) ltac:(unfold T63; lia) ltac:(unfold T64; lia)
                  ltac:(unfold T64; lia) ltac:(lia) ltac:(unfold LONG_MAX; lia)) as MC.
    fold c. destruct (compute_missed tg dl itv n c) as [[r tg'] dl']. cbv zeta in MC.
    destruct MC as [Er [_ [B _]]]. destruct (B ltac:(unfold INT64_MAX; lia)) as [Etg' [Ltn [Gen [_ Edl]]]].
    set (k := (n - tg) / itv + 1) in *. assert (Hk : 1 <= k) by (unfold k; pose proof (Z.div_pos (n - tg) itv); lia).
    assert (Ek : (total + r) * itv = (total + c) * itv + k * itv) by (replace r with (c + k) by lia; ring).
    assert (Dl' : 0 <= dl' < 18446744073709551616) by (rewrite Edl; apply u64_range).
    unfold cnt_inv, T63, T64. change (Z.shiftr 0 1) with 0. rewrite Z.add_0_r. repeat split; try lia.
Qed.

Fixpoint play (s : vals * Z * Z) (l : list tev) : vals * Z * Z :=
  match l with [] => s | e :: r => play (play1 s e) r end.

Lemma play_inv : forall l s, cnt_inv s -> tevs_ok s l -> cnt_inv (play s l).
Proof.
  induction l as [|e r IH]; intros s I V; cbn [play tevs_ok] in *; auto.
  destruct V as [V1 V2]. apply IH; auto. apply play1_inv; auto.
Qed.

(* for EVERY history of fires and handler invocations of a repeating timer configured with (start, interval), with
   arbitrary clock readings below 2^63, handler invocations lagging arbitrarily behind the fires: the sum of the counts
   handed to the handler so far is at most the number of boundaries start + k * interval <= the latest clock reading *)
Theorem count_bound_multi dl0 l :
  0 <= dl0 < T64 -> tevs_ok (start, dl0, itv, 0, 0, 0) l ->
  let '(_, total, m) := play (start, dl0, itv, 0, 0, 0) l in
  0 <= total <= Z.max 0 ((m - start) / itv + 1).
Proof.
  intros Hd V.
  assert (I0 : cnt_inv (start, dl0, itv, 0, 0, 0)).
  { unfold cnt_inv, T63, T64 in *. change (Z.shiftr 0 1) with 0. repeat split; try lia. }
  pose proof (play_inv l _ I0 V) as I.
  destruct (play (start, dl0, itv, 0, 0, 0) l) as [[[[[tg dl] i] p] total] m].
  destruct I as (-> & Hdl & Hp & Ht & Hm & Etg & Hd').
  assert (Hc : 0 <= Z.shiftr p 1) by (apply Z.shiftr_nonneg; lia).
  pose proof (boundaries_bound tg m (total + Z.shiftr p 1) Etg ltac:(lia) Hd'). lia.
Qed.
End Count.

(* ================================================================================================ *)
(* termination: the fuel of the model functions always suffices *)

(* sum of f over the timer records 1..n *)
Fixpoint sumN (f : Z -> Z) (n : nat) : Z :=
  match n with O => 0 | S k => sumN f k + f (Z.of_nat (S k)) end.

Lemma sumN_ext f g n : (forall t, 1 <= t <= Z.of_nat n -> f t = g t) -> sumN f n = sumN g n.
Proof.
  induction n as [|n IH]; intros H; cbn [sumN]; auto.
  rewrite IH by (intros; apply H; lia). rewrite H by lia. reflexivity.
Qed.
Lemma sumN_le f g n : (forall t, 1 <= t <= Z.of_nat n -> f t <= g t) -> sumN f n <= sumN g n.
Proof.
  induction n as [|n IH]; intros H; cbn [sumN]; [lia|].
  pose proof (IH ltac:(intros; apply H; lia)). pose proof (H (Z.of_nat (S n)) ltac:(lia)). lia.
Qed.
Lemma sumN_nonneg f n : (forall t, 1 <= t <= Z.of_nat n -> 0 <= f t) -> 0 <= sumN f n.
Proof.
  induction n as [|n IH]; intros H; cbn [sumN]; [lia|].
  pose proof (IH ltac:(intros; apply H; lia)). pose proof (H (Z.of_nat (S n)) ltac:(lia)). lia.
Qed.
(* f and g agree except at d *)
Lemma sumN_change f g n d : 1 <= d <= Z.of_nat n -> (forall t, t <> d -> f t = g t) ->
  sumN g n = sumN f n - f d + g d.
Proof.
  induction n as [|n IH]; intros Hd H; [lia|]. cbn [sumN].
  destruct (Z.eq_dec d (Z.of_nat (S n))) as [E|E].
  - rewrite <- E. rewrite (sumN_ext g f n) by (intros; symmetry; apply H; lia). lia.
  - rewrite IH by (auto; lia). rewrite (H (Z.of_nat (S n))) by auto. lia.
Qed.
Lemma sumN_scale f n c : (forall t, 1 <= t <= Z.of_nat n -> f t <= c) -> sumN f n <= c * Z.of_nat n.
Proof.
  induction n as [|n IH]; intros H; cbn [sumN]; [lia|].
  pose proof (IH ltac:(intros; apply H; lia)). pose proof (H (Z.of_nat (S n)) ltac:(lia)). lia.
Qed.

(* number of records 1..n satisfying b, as the length of the filtered list *)
Definition ids (n : nat) : list Z := map Z.of_nat (seq 1 n).
Lemma ids_In n t : In t (ids n) <-> 1 <= t <= Z.of_nat n.
Proof.
  unfold ids. rewrite in_map_iff. split.
  - intros [k [<- Hk]]. apply in_seq in Hk. lia.
  - intros H. exists (Z.to_nat t). split; [lia|]. apply in_seq. lia.
Qed.
Lemma ids_NoDup n : NoDup (ids n).
Proof. unfold ids. apply NoDup_map_inj; [apply seq_NoDup|]. intros; lia. Qed.
Lemma ids_S n : ids (S n) = ids n ++ [Z.of_nat (S n)].
Proof. unfold ids. rewrite seq_S, map_app. reflexivity. Qed.
Lemma sumN_count (b : Z -> bool) n :
  sumN (fun t => if b t then 1 else 0) n = Z.of_nat (length (filter b (ids n))).
Proof.
  induction n as [|n IH]; [reflexivity|]. cbn [sumN]. rewrite IH, ids_S, filter_app, app_length. cbn [filter].
  destruct (b (Z.of_nat (S n))); cbn [length]; lia.
Qed.

Section CountMembers.
Local Ltac Zify.zify_post_hook ::= Z.div_mod_to_equations.
(* the stored timers among the records 1..n are at most count/2 *)
Lemma members_le_count key S h (b : Z -> bool) n :
  Inv key S h -> (forall t, b t = true -> S t) ->
  2 * sumN (fun t => if b t then 1 else 0) n <= h_count h.
Proof.
  intros I Hb. rewrite sumN_count.
  destruct (iv_cnt _ _ _ I) as [[C0 _] Cev].
  set (l := filter b (ids n)).
  assert (ND : NoDup (map (h_ent h 0) l)).
  { apply NoDup_map_inj; [apply NoDup_filter; apply ids_NoDup|].
    intros x y Hx Hy E. apply filter_In in Hx. apply filter_In in Hy.
    destruct (hi_bwd _ _ _ _ (iv_h0 _ _ _ I) x (Hb _ (proj2 Hx))) as [_ [_ Ex]].
    destruct (hi_bwd _ _ _ _ (iv_h0 _ _ _ I) y (Hb _ (proj2 Hy))) as [_ [_ Ey]].
    rewrite E in Ex. congruence. }
  set (m := h_count h / 2).
  assert (INC : incl (map (h_ent h 0) l) (map (fun k => 2 * k) (zrange m))).
  { intros e He. apply in_map_iff in He. destruct He as [t [<- Ht]]. apply filter_In in Ht.
    destruct (hi_bwd _ _ _ _ (iv_h0 _ _ _ I) t (Hb _ (proj2 Ht))) as [R [P _]].
    apply in_map_iff. exists (h_ent h 0 t / 2). split; [lia|]. apply zrange_In. unfold m. lia. }
  pose proof (NoDup_incl_length ND INC) as L. rewrite !map_length in L.
  assert (0 <= m) by (unfold m; lia).
  pose proof (zrange_length m ltac:(lia)). unfold m in *. lia.
Qed.
End CountMembers.

(* ---- value ranges kept by every operation *)
Definition vok (x : timer) : Prop :=
  1 <= t_target x < T64 /\ 1 <= t_interval x < T64 /\ 0 <= t_pending x < T64 /\
  match t_cfg x with Some (_, tg, _, itv) => 1 <= tg < T64 /\ 1 <= itv < T64 | None => True end.
Definition VInv (st : state) : Prop := forall t, vok (tm st t).

Lemma vok_same_vals x y : same_vals x y -> vok y -> vok x.
Proof. unfold same_vals, vok. intros (_ & _ & -> & _ & -> & -> & -> & _). auto. Qed.

Lemma compute_missed_dl tg dl dl2 itv now prev :
  fst (fst (compute_missed tg dl itv now prev)) = fst (fst (compute_missed tg dl2 itv now prev)) /\
  snd (fst (compute_missed tg dl itv now prev)) = snd (fst (compute_missed tg dl2 itv now prev)).
Proof. unfold compute_missed. destruct (_ >? _); destruct (_ <? _); cbn [fst snd]; auto. Qed.

Section MissedRanges.
(* fired by the run (prev = 0): the target is pushed strictly beyond now, or the timer becomes a spent one-shot *)
Lemma missed_push tg dl itv now :
  1 <= tg <= now -> now < T63 -> 1 <= itv < T64 ->
  let '(cnt, tg', dl') := compute_missed tg dl itv now 0 in
  0 <= cnt < T63 /\ (itv < INT64_MAX -> now < tg' < T64) /\ (INT64_MAX <= itv -> tg' = UINT64_MAX).
Proof.
  intros Ht Hn Hi.
  destruct (compute_missed_dl tg dl 0 itv now 0) as [E1 E2].
  assert (Q : (now - tg) / itv <= now - tg) by (apply Z.div_le_upper_bound; unfold T63, T64 in *; nia).
  pose proof (missed_count tg 0 itv now 0 Ht Hn Hi ltac:(unfold T64; lia) ltac:(lia)
                ltac:(unfold LONG_MAX, T63 in *; lia)) as MC.
  destruct (compute_missed tg dl itv now 0) as [[cnt tg'] dl'].
  destruct (compute_missed tg 0 itv now 0) as [[cnt0 tg0] dl0]. cbn [fst snd] in *. subst cnt0 tg0.
  cbv zeta in MC. destruct MC as [Er [_ [B C]]].
  assert (0 <= (now - tg) / itv) by (apply Z.div_pos; unfold T64 in *; lia).
  split; [unfold T63 in *; lia|]. split.
  - intros L. destruct (B L) as [_ [X [_ [Y _]]]]. lia.
  - intros L. destruct (C L) as [_ [X _]]. exact X.
Qed.

(* completed by the latch (any accumulated count): the target stays a valid one *)
Lemma missed_latch_range tg dl itv now prev :
  1 <= tg <= now -> now < T63 -> 1 <= itv < T64 -> 0 <= prev < T63 ->
  let '(cnt, tg', dl') := compute_missed tg dl itv now prev in
  1 <= tg' < T64.
Proof.
  intros Ht Hn Hi Hp. unfold compute_missed, LONG_MAX, INT64_MAX, UINT64_MAX, T63, T64 in *.
  destruct (div_bounds (now - tg) itv ltac:(lia) ltac:(lia)) as [Q0 [Q1 Q2]].
  rewrite (u64_id (now - tg)) by lia.
  set (q := (now - tg) / itv) in *.
  assert (Qb : q <= now - tg) by (apply Z.div_le_upper_bound; nia).
  rewrite (u64_id (q + 1)) by lia. rewrite (u64_id (q + 1 + prev)) by lia.
  set (m := if q + 1 + prev >? 9223372036854775807 then u64 (9223372036854775807 - prev) else q + 1).
  assert (Hm : 0 <= m <= q + 1).
  { unfold m. destruct (Z.gtb_spec (q + 1 + prev) 9223372036854775807); [rewrite u64_id by lia|]; lia. }
  clearbody m.
  destruct (Z.ltb_spec itv 9223372036854775807) as [L|L]; cbv zeta; [|lia].
  assert (0 <= m * itv <= (q + 1) * itv) by nia.
  assert ((q + 1) * itv = itv * q + itv) by ring.
  rewrite (u64_id (m * itv)) by lia. rewrite (u64_id (tg + m * itv)) by lia. lia.
Qed.
End MissedRanges.

Lemma lor1_range p : 0 <= p < T64 -> 0 <= Z.lor p 1 < T64.
Proof.
  unfold T64. intros H. rewrite lor1 by lia.
  assert (R : p mod 2 = 0 \/ p mod 2 = 1) by (pose proof (Z.mod_pos_bound p 2); lia).
  assert (p = 2 * (p / 2) + p mod 2) by (apply Z.div_mod; lia). lia.
Qed.

Section Term.
Variable N : Z.
Hypothesis HN : 0 <= N /\ 2 * N + 2 <= CAPMAX.
Notation GInv := (GInv N).

Lemma VInv_set st t v : VInv st -> vok v -> VInv (set_timer st t v).
Proof.
  intros V Hv u. destruct (Z.eq_dec u t) as [->|Nu]; [rewrite tm_set_timer_eq; auto|rewrite tm_set_timer_neq; auto].
Qed.
Lemma VInv_same st st' : (forall u, same_vals (tm st' u) (tm st u)) -> VInv st -> VInv st'.
Proof. intros H V u. eapply vok_same_vals; eauto. Qed.
Lemma VInv_disarm st t : VInv st -> VInv (disarm st t).
Proof. apply VInv_same. intros u. apply disarm_vals. Qed.
Lemma VInv_arm st t i : VInv st -> VInv (arm st t i).
Proof. apply VInv_same. intros u. apply arm_vals. Qed.
Lemma VInv_resume st t : VInv st -> VInv (resume st t).
Proof. apply VInv_same. intros u. apply resume_vals. Qed.

Lemma configure_other st t u : u <> t -> tm (configure st t) u = tm st u.
Proof.
  intros Nu. unfold configure. destruct (t_cfg (tm st t)) as [[[[c tg] dl] itv]|]; auto.
  destruct (t_armed _); [rewrite resume_other by auto|]; apply tm_set_timer_neq; auto.
Qed.

Lemma VInv_configure st t : VInv st -> VInv (configure st t).
Proof.
  intros V. unfold configure. pose proof (V t) as Vt. unfold vok in Vt.
  destruct (t_cfg (tm st t)) as [[[[c tg] dl] itv]|]; auto.
  set (x1 := with_pending _ 0).
  assert (Hx : vok x1).
  { unfold x1, vok. destruct (negb (c =? t_clock (tm st t))); simpl; unfold T64 in *; intuition lia. }
  destruct (t_armed x1); [apply VInv_resume|]; apply VInv_set; auto.
Qed.

(* ---- the measures *)
Definition wgt (cur now : Z) (st : state) (t : Z) : Z :=
  let x := tm st t in
  if t_armed x && (t_ident x =? cur) then
    (match t_cfg x with Some _ => 1 | None => 0 end) + (if t_target x <=? now then 1 else 0)
  else 0.
Definition Phi (cur now : Z) (st : state) : Z := sumN (wgt cur now st) (Z.to_nat N).
Definition psi (st : state) (t : Z) : Z := match t_cfg (tm st t) with Some _ => 1 | None => 0 end.
Definition Psi (st : state) : Z := sumN (psi st) (Z.to_nat N).

Lemma wgt_range cur now st t : 0 <= wgt cur now st t <= 2.
Proof. unfold wgt. destruct (_ && _); [destruct (t_cfg _); destruct (_ <=? _)|]; lia. Qed.
Lemma psi_range st t : 0 <= psi st t <= 1.
Proof. unfold psi. destruct (t_cfg _); lia. Qed.
Lemma Phi_nonneg cur now st : 0 <= Phi cur now st.
Proof. apply sumN_nonneg. intros. apply wgt_range. Qed.
Lemma Psi_range st : 0 <= Psi st <= N.
Proof.
  split; [apply sumN_nonneg; intros; apply psi_range|].
  pose proof (sumN_scale (psi st) (Z.to_nat N) 1 ltac:(intros; apply psi_range)). unfold Psi. lia.
Qed.

Lemma sumN_double f n : sumN (fun t => 2 * f t) n = 2 * sumN f n.
Proof. induction n as [|n IH]; cbn [sumN]; lia. Qed.

Lemma Phi_le_count cur now st : GInv st -> Phi cur now st <= h_count (s_heaps st cur).
Proof.
  intros G. set (b := fun t => t_armed (tm st t) && (t_ident (tm st t) =? cur)).
  assert (Hb : forall t, b t = true -> member st cur t).
  { intros t E. unfold b in E. apply andb_true_iff in E. destruct E as [A I]. apply Z.eqb_eq in I.
    pose proof (gi_ids _ _ G t A). unfold member. repeat split; auto. lia. }
  pose proof (members_le_count _ _ _ b (Z.to_nat N) (gi_heaps _ _ G cur) Hb) as L.
  assert (Phi cur now st <= sumN (fun t => 2 * (if b t then 1 else 0)) (Z.to_nat N)).
  { apply sumN_le. intros t _. unfold wgt. fold (b t). pose proof (wgt_range cur now st t) as R. unfold wgt in R. fold (b t) in R.
    destruct (b t); lia. }
  rewrite sumN_double in H. lia.
Qed.

Lemma vok_pending x p : vok x -> 0 <= p < T64 -> vok (with_pending x p).
Proof. unfold vok. simpl. tauto. Qed.

Lemma wgt_notarmed cur now st t : t_armed (tm st t) = false -> wgt cur now st t = 0.
Proof. intros A. unfold wgt. rewrite A. reflexivity. Qed.

(* one iteration of the run loop: what it does to the measures *)
Lemma run_step_T st cur now :
  GInv st -> VInv st -> h_slot (s_heaps st cur) 0 <> 0 ->
  t_target (tm st (h_slot (s_heaps st cur) 0)) <= now -> 0 <= now < T63 ->
  let dr := h_slot (s_heaps st cur) 0 in
  let st' := fst (run_step st cur now dr) in
  (forall u, u <> dr -> tm st' u = tm st u) /\ VInv st' /\
  wgt cur now st' dr < wgt cur now st dr /\
  psi st' dr <= psi st dr /\
  (t_after (tm st dr) = false -> t_cfg (tm st dr) <> None -> psi st' dr < psi st dr) /\
  (t_cfg (tm st dr) = None -> t_armed (tm st' dr) = true ->
     t_ident (tm st' dr) = cur /\ now < t_target (tm st' dr)).
Proof.
  intros G V Nm Le Hn. cbv zeta. set (dr := h_slot (s_heaps st cur) 0) in *.
  destruct (min_member N st cur G Nm) as [Nz [A Id]]. fold dr in Nz, A, Id.
  pose proof (V dr) as Vd. destruct Vd as (Vt & Vi & Vp & Vc).
  assert (W0 : wgt cur now st dr = psi st dr + 1).
  { unfold wgt, psi. rewrite A, Id, Z.eqb_refl. cbn [andb]. destruct (Z.leb_spec (t_target (tm st dr)) now); [reflexivity|lia]. }
  pose proof (psi_range st dr) as Pr.
  (* the two shapes of "leaves the heap with pending data p" *)
  assert (Leave : forall st1 v, (forall u, u <> dr -> tm st1 u = tm st u) ->
            vok v -> t_cfg v = t_cfg (tm st dr) -> t_armed v = false ->
            let st' := set_timer (disarm st1 dr) dr v in
            (forall u, u <> dr -> tm st' u = tm st u) /\ (VInv st1 -> VInv st') /\
            wgt cur now st' dr = 0 /\ psi st' dr = psi st dr /\ t_armed (tm st' dr) = false).
  { intros st1 v Ho V1 C1 Av. cbv zeta.
    assert (T' : tm (set_timer (disarm st1 dr) dr v) dr = v) by apply tm_set_timer_eq.
    split; [intros u Nu; rewrite tm_set_timer_neq, disarm_other by auto; auto|].
    split; [intros VV; apply VInv_set; [apply VInv_disarm; auto|auto]|].
    split; [apply wgt_notarmed; rewrite T'; exact Av|].
    split; [unfold psi; rewrite T'; rewrite C1; reflexivity|rewrite T'; exact Av]. }
  assert (LeaveP : forall st1 p, vok (tm st1 dr) -> 0 <= p < T64 ->
            vok (with_pending (tm (disarm st1 dr) dr) p) /\ vok (with_pending (with_reg (tm (disarm st1 dr) dr) 2) p) /\
            t_cfg (with_pending (tm (disarm st1 dr) dr) p) = t_cfg (tm st1 dr) /\
            t_cfg (with_pending (with_reg (tm (disarm st1 dr) dr) 2) p) = t_cfg (tm st1 dr) /\
            t_armed (with_pending (tm (disarm st1 dr) dr) p) = false /\
            t_armed (with_pending (with_reg (tm (disarm st1 dr) dr) 2) p) = false).
  { intros st1 p V1 Hp. rewrite disarm_tm, Z.eqb_refl. unfold vok in *. simpl. tauto. }
  unfold run_step. fold dr. destruct (t_after (tm st dr)) eqn:Af.
  - (* dispatch_after *)
    cbn [fst]. destruct (LeaveP st 2 (V dr) ltac:(unfold T64; lia)) as (_ & L1 & _ & L2 & _ & L3).
    destruct (Leave st _ ltac:(auto) L1 L2 L3) as (Ho & Vv & Wz & Ps & Ar).
    split; [exact Ho|]. split; [apply Vv; auto|]. split; [lia|]. split; [lia|].
    split; [intros ? X; try congruence; try lia|intros ? X; congruence].
  - destruct (t_cfg (tm st dr)) as [[[[c tg] dl] itv]|] eqn:Cf.
    + (* configure *)
      cbn [fst]. destruct (configure_replaces st dr c tg dl itv Cf) as (_ & _ & _ & _ & _ & Cn & _).
      split; [intros u Nu; apply configure_other; auto|]. split; [apply VInv_configure; auto|].
      assert (P' : psi (configure st dr) dr = 0) by (unfold psi; rewrite Cn; reflexivity).
      assert (Ps : psi st dr = 1) by (unfold psi; rewrite Cf; reflexivity).
      split; [|split; [lia|split; [intros; lia|intros X; discriminate]]].
      rewrite W0, Ps. unfold wgt. rewrite Cn. destruct (_ && _); [destruct (_ <=? _)|]; lia.
    + assert (Ps : psi st dr = 0) by (unfold psi; rewrite Cf; reflexivity).
      destruct (nz (t_pending (tm st dr))).
      * cbn [fst]. destruct (LeaveP st (Z.lor (t_pending (tm st dr)) DISPATCH_TIMER_DISARMED_MARKER) (V dr)
                               ltac:(apply lor1_range; auto)) as (L1 & _ & L2 & _ & L3 & _).
        rewrite Cf in L2.
        destruct (Leave st _ ltac:(auto) L1 L2 L3) as (Ho & Vv & Wz & Ps' & Ar).
        split; [exact Ho|]. split; [apply Vv; auto|]. split; [lia|]. split; [lia|].
    split; [intros ? X; try congruence; try lia|intros ? X; congruence].
      * pose proof (missed_push (t_target (tm st dr)) (t_deadline (tm st dr)) (t_interval (tm st dr)) now
                      ltac:(lia) ltac:(lia) Vi) as MP.
        destruct (compute_missed _ _ _ _ _) as [[cnt tg] dl]. destruct MP as (Hc & Hlt & Hge).
        set (x1 := with_values (tm st dr) tg dl (t_interval (tm st dr))).
        set (st1 := set_timer st dr x1).
        assert (T1 : tm st1 dr = x1) by apply tm_set_timer_eq.
        assert (O1 : forall u, u <> dr -> tm st1 u = tm st u) by (intros; apply tm_set_timer_neq; auto).
        assert (Tg1 : 1 <= tg < T64).
        { destruct (Z.lt_ge_cases (t_interval (tm st dr)) INT64_MAX) as [L|L];
            [specialize (Hlt L)|rewrite (Hge L)]; unfold UINT64_MAX, T64, T63 in *; lia. }
        assert (Vx1 : vok x1) by (unfold vok, x1; simpl; rewrite Cf; auto).
        assert (V1 : VInv st1) by (apply VInv_set; auto).
        assert (Pp : 0 <= u64 (Z.shiftl cnt 1) < T64) by apply u64_range.
        rewrite T1. destruct (needs_rearm x1) eqn:W; cbn [fst].
        -- (* re-armed: the new target is beyond now *)
           pose proof (needs_rearm_tgt _ W) as Tl. unfold x1 in Tl. simpl in Tl.
           assert (Li : t_interval (tm st dr) < INT64_MAX).
           { destruct (Z.lt_ge_cases (t_interval (tm st dr)) INT64_MAX) as [L|L]; auto.
             rewrite (Hge L) in Tl. unfold UINT64_MAX, INT64_MAX in Tl. lia. }
           specialize (Hlt Li).
           set (st2 := arm st1 dr cur).
           assert (T2 : tm st2 dr = x1).
           { unfold st2. rewrite arm_tm, T1. unfold x1 at 1. simpl. rewrite A. reflexivity. }
           assert (T' : tm (set_timer st2 dr (with_pending (tm st2 dr) (u64 (Z.shiftl cnt 1)))) dr
                        = with_pending x1 (u64 (Z.shiftl cnt 1))) by (rewrite tm_set_timer_eq, T2; reflexivity).
           split; [intros u Nu; rewrite tm_set_timer_neq by auto; unfold st2; rewrite arm_other by auto; auto|].
           split; [apply VInv_set; [apply VInv_arm; auto|rewrite T2; apply vok_pending; auto]|].
           split; [|split; [|split; [intros _ X; congruence|]]].
           ++ rewrite W0, Ps. unfold wgt. rewrite T'. unfold x1. simpl. rewrite A, Id, Z.eqb_refl, Cf. cbn [andb].
              destruct (Z.leb_spec tg now); lia.
           ++ unfold psi at 1. rewrite T'. unfold x1. simpl. rewrite Cf. lia.
           ++ intros _ _. rewrite T'. unfold x1. simpl. split; [exact Id|lia].
        -- destruct (LeaveP st1 (Z.lor (u64 (Z.shiftl cnt 1)) DISPATCH_TIMER_DISARMED_MARKER)
                       ltac:(rewrite T1; auto) ltac:(apply lor1_range; auto)) as (L1 & _ & L2 & _ & L3 & _).
           rewrite T1 in L2. change (t_cfg x1) with (t_cfg (tm st dr)) in L2. rewrite Cf in L2.
           destruct (Leave st1 _ O1 L1 L2 L3) as (Ho & Vv & Wz & Ps' & Ar).
           split; [exact Ho|]. split; [apply Vv; auto|]. split; [lia|]. split; [lia|].
    split; [intros ? X; try congruence; try lia|intros ? X; congruence].
Qed.

Lemma Phi_step cur now st st' dr :
  1 <= dr <= N -> (forall u, u <> dr -> tm st' u = tm st u) ->
  Phi cur now st' = Phi cur now st - wgt cur now st dr + wgt cur now st' dr.
Proof.
  intros Hd Ho. unfold Phi. apply sumN_change; [lia|].
  intros t Nt. unfold wgt. rewrite Ho by auto. reflexivity.
Qed.
Lemma Psi_step st st' dr :
  1 <= dr <= N -> (forall u, u <> dr -> tm st' u = tm st u) ->
  Psi st' = Psi st - psi st dr + psi st' dr.
Proof.
  intros Hd Ho. unfold Psi. apply sumN_change; [lia|].
  intros t Nt. unfold psi. rewrite Ho by auto. reflexivity.
Qed.

(* _dispatch_timers_run always leaves its loop: the fuel of the model (two iterations per stored timer) suffices.
   The clock reading is the cached one: constant during the call, below 2^63. *)
Lemma run_loop_term cur now : 0 <= now < T63 ->
  forall fuel st ev, GInv st -> VInv st -> Phi cur now st < Z.of_nat fuel ->
  exists st' ev', run_loop fuel st cur now ev = (st', ev', true) /\ VInv st'.
Proof.
  intros Hn. induction fuel as [|fuel IH]; intros st ev G V Hf.
  - pose proof (Phi_nonneg cur now st). lia.
  - cbn [run_loop]. unfold DTH_TARGET_ID.
    destruct (Z.eqb_spec (h_slot (s_heaps st cur) 0) 0) as [Z0|Nm]; [eauto|].
    destruct (Z.gtb_spec (t_target (tm st (h_slot (s_heaps st cur) 0))) now) as [Gt|Le]; [eauto|].
    destruct (run_step_T st cur now G V Nm Le Hn) as (Ho & V1 & Wd & _).
    pose proof (run_step_G N HN st cur now G Nm) as G1.
    destruct (min_member N st cur G Nm) as [_ [A _]].
    pose proof (Phi_step cur now st _ _ (gi_ids _ _ G _ A) Ho) as Ps.
    destruct (run_step st cur now (h_slot (s_heaps st cur) 0)) as [st1 e1]. cbn [fst] in *.
    apply IH; auto. lia.
Qed.

Theorem timers_run_terminates st cur now :
  GInv st -> VInv st -> 0 <= now < T63 ->
  exists st' ev, timers_run st cur now = (st', ev, true) /\ VInv st'.
Proof.
  intros G V Hn. unfold timers_run. apply run_loop_term; auto.
  pose proof (Phi_le_count cur now st G).
  assert (0 <= h_count (s_heaps st cur)) by (destruct (iv_cnt _ _ _ (gi_heaps _ _ G cur)); lia).
  rewrite Nat2Z.inj_add, Z2Nat.id by lia. simpl. lia.
Qed.

(* ---- the manager's pass: a pass can leave the dirty bits set only if a pending configuration was consumed *)
Variable nows : Z -> Z.
Hypothesis Hnows : forall i, 0 <= i < 3 -> 0 <= nows i < T63.

Definition Rok (P0 : Z) (st : state) (j : Z) : Prop := Fix nows st j \/ Psi st < P0.

Lemma run_loop_R cur P0 (ran : Z -> bool) : 0 <= cur < 3 ->
  forall fuel st ev st' ev',
  GInv st -> VInv st -> Psi st <= P0 -> (forall j, ran j = true -> Rok P0 st j) ->
  run_loop fuel st cur (nows cur) ev = (st', ev', true) ->
  GInv st' /\ VInv st' /\ Psi st' <= P0 /\ (forall j, mark ran cur j = true -> Rok P0 st' j).
Proof.
  intros Hc. induction fuel as [|fuel IH]; intros st ev st' ev' G V HP HR E; cbn [run_loop] in E; [inversion E|].
  unfold DTH_TARGET_ID in E.
  assert (Exit : (h_slot (s_heaps st cur) 0 = 0 \/ nows cur < t_target (tm st (h_slot (s_heaps st cur) 0))) ->
                 forall j, mark ran cur j = true -> Rok P0 st j).
  { intros X j Hj. unfold mark in Hj. destruct (Z.eqb_spec j cur) as [Ej|Nj]; [rewrite Ej|auto].
    left. intros u Mu. destruct (member_nonempty N st cur u G Mu) as [Nm L]. unfold min0 in *. destruct X; [contradiction|lia]. }
  destruct (Z.eqb_spec (h_slot (s_heaps st cur) 0) 0) as [Z0|Nm];
    [inversion E; subst st' ev'; split; [auto|split; [auto|split; [auto|apply Exit; left; auto]]]|].
  destruct (Z.gtb_spec (t_target (tm st (h_slot (s_heaps st cur) 0))) (nows cur)) as [Gt|Le];
    [inversion E; subst st' ev'; split; [auto|split; [auto|split; [auto|apply Exit; right; lia]]]|].
  set (dr := h_slot (s_heaps st cur) 0) in *.
  destruct (run_step_T st cur (nows cur) G V Nm Le (Hnows cur Hc)) as (Ho & V1 & _ & Pd & Pc & Pe). fold dr in Ho, V1, Pd, Pc, Pe.
  pose proof (run_step_G N HN st cur (nows cur) G Nm) as G1. fold dr in G1.
  destruct (min_member N st cur G Nm) as [_ [A _]]. fold dr in A.
  pose proof (Psi_step st _ dr (gi_ids _ _ G _ A) Ho) as Ps.
  assert (Af : t_after (tm st dr) = false \/ t_after (tm st dr) = true) by (destruct (t_after (tm st dr)); auto).
  destruct (run_step st cur (nows cur) dr) as [st1 e1] eqn:RS. cbn [fst] in *.
  apply (IH st1 (ev ++ e1) st' ev'); auto; try lia.
  intros j Hj. destruct (HR j Hj) as [Fx|Lt]; [|right; lia].
  destruct (t_cfg (tm st dr)) eqn:Cf.
  - (* a configuration was pending *)
    destruct Af as [Af|Af].
    + right. specialize (Pc Af ltac:(discriminate)). lia.
    + (* dispatch_after timer: it leaves the heap *)
      left. intros u Mu. destruct (Z.eq_dec u dr) as [->|Nu].
      * exfalso. unfold run_step in RS. fold dr in RS. rewrite Af in RS. inversion RS; subst st1.
        destruct Mu as [_ [X _]]. rewrite tm_set_timer_eq in X.
        change (t_armed (tm (disarm st dr) dr) = true) in X.
        rewrite disarm_tm, Z.eqb_refl in X. discriminate.
      * assert (Mu' : member st j u) by (unfold member in *; rewrite Ho in Mu by auto; exact Mu).
        rewrite Ho by auto. apply Fx; auto.
  - left. intros u Mu. destruct (Z.eq_dec u dr) as [->|Nu].
    + destruct Mu as [_ [Au Iu]]. destruct (Pe eq_refl Au) as [Ic Tg]. rewrite <- Iu, Ic. exact Tg.
    + assert (Mu' : member st j u) by (unfold member in *; rewrite Ho in Mu by auto; exact Mu).
      rewrite Ho by auto. apply Fx; auto.
Qed.

Lemma Fix_same st st' j : s_timers st' = s_timers st -> Fix nows st j -> Fix nows st' j.
Proof.
  intros E Fx u Mu. assert (Tm : forall v, tm st' v = tm st v) by (intros; unfold tm; rewrite E; reflexivity).
  rewrite Tm. apply Fx. unfold member in *. rewrite Tm in Mu. exact Mu.
Qed.
Lemma Psi_same st st' : s_timers st' = s_timers st -> Psi st' = Psi st.
Proof. intros E. unfold Psi. apply sumN_ext. intros t _. unfold psi, tm. rewrite E. reflexivity. Qed.
Lemma VInv_same_timers st st' : s_timers st' = s_timers st -> VInv st -> VInv st'.
Proof. intros E V t. unfold tm. rewrite E. apply V. Qed.

(* programming sets the dirty bits only for a heap whose minimum is due *)
Lemma program_dirty_cause st i now :
  VInv st -> 0 <= now < T63 ->
  s_dirty (fst (program_if_needed st i now)) = true ->
  s_dirty st = true \/ (min0 st i <> 0 /\ t_target (tm st (min0 st i)) <= now).
Proof.
  intros V Hn. unfold program_if_needed. destruct (h_np (s_heaps st i)); [|auto].
  unfold program, get_delay, DTH_TARGET_ID, DTH_DEADLINE_ID. fold (min0 st i).
  destruct (Z.eqb_spec (min0 st i) 0) as [Z0|Nm].
  - unfold INT64_MAX. cbn. auto.
  - destruct (Z.leb_spec (t_target (tm st (min0 st i))) now) as [L|L]; [auto|].
    destruct (V (min0 st i)) as (Vt & _). unfold T63, T64, INT64_MAX in *.
    rewrite (u64_id (t_target (tm st (min0 st i)) - now)) by lia.
    set (d := Z.min (t_target (tm st (min0 st i)) - now) 9223372036854775807).
    assert (d <> 0) by (unfold d; lia).
    destruct (Z.eqb_spec d 0); [contradiction|]. cbn [orb].
    destruct (d >=? 9223372036854775807); cbn [fst]; simpl; auto.
Qed.

Theorem drain_pass_term st :
  GInv st -> VInv st ->
  exists st' ev calls, drain_pass st nows = (st', ev, calls, true) /\
    GInv st' /\ VInv st' /\ Psi st' <= Psi st /\ (s_dirty st' = true -> Psi st' < Psi st).
Proof.
  intros G V. unfold drain_pass, run_all, program_all.
  destruct (timers_run_terminates st 0 (nows 0) G V (Hnows 0 ltac:(lia))) as (s0 & e0 & R0 & V0).
  rewrite R0. unfold timers_run in R0.
  destruct (run_loop_R 0 (Psi st) none ltac:(lia) _ _ _ _ _ G V ltac:(lia) ltac:(intros j X; discriminate) R0) as (G0 & _ & P0 & K0).
  destruct (timers_run_terminates s0 1 (nows 1) G0 V0 (Hnows 1 ltac:(lia))) as (s1 & e1 & R1 & V1).
  rewrite R1. unfold timers_run in R1.
  destruct (run_loop_R 1 (Psi st) _ ltac:(lia) _ _ _ _ _ G0 V0 P0 K0 R1) as (G1 & _ & P1 & K1).
  destruct (timers_run_terminates s1 2 (nows 2) G1 V1 (Hnows 2 ltac:(lia))) as (s2 & e2 & R2 & V2).
  rewrite R2. unfold timers_run in R2.
  destruct (run_loop_R 2 (Psi st) _ ltac:(lia) _ _ _ _ _ G1 V1 P1 K1 R2) as (G2 & _ & P2 & K2).
  cbn [andb].
  assert (K : forall j, 0 <= j < 3 -> Rok (Psi st) s2 j).
  { intros j Hj. apply K2. unfold mark, none. destruct (Z.eqb_spec j 2); auto. destruct (Z.eqb_spec j 1); auto.
    destruct (Z.eqb_spec j 0); auto. lia. }
  set (d0 := set_dirty s2 false).
  assert (Gd : GInv d0) by (apply (set_dirty_G N); auto).
  assert (Td : s_timers d0 = s_timers s2) by reflexivity.
  destruct (program_if_needed_facts N HN nows d0 0 Gd (Hnows 0 ltac:(lia))) as (T0 & M0 & _ & D0 & _).
  pose proof (program_if_needed_G N d0 0 (nows 0) Gd) as Gp0.
  pose proof (program_dirty_cause d0 0 (nows 0) (VInv_same_timers _ _ Td V2) (Hnows 0 ltac:(lia))) as C0.
  destruct (program_if_needed d0 0 (nows 0)) as [p0 c0]. cbn [fst] in *.
  destruct (program_if_needed_facts N HN nows p0 1 Gp0 (Hnows 1 ltac:(lia))) as (T1 & M1 & _ & D1 & _).
  pose proof (program_if_needed_G N p0 1 (nows 1) Gp0) as Gp1.
  assert (Tp0 : s_timers p0 = s_timers s2) by congruence.
  pose proof (program_dirty_cause p0 1 (nows 1) (VInv_same_timers _ _ Tp0 V2) (Hnows 1 ltac:(lia))) as C1.
  destruct (program_if_needed p0 1 (nows 1)) as [p1 c1]. cbn [fst] in *.
  destruct (program_if_needed_facts N HN nows p1 2 Gp1 (Hnows 2 ltac:(lia))) as (T2 & M2 & _ & D2 & _).
  pose proof (program_if_needed_G N p1 2 (nows 2) Gp1) as Gp2.
  assert (Tp1 : s_timers p1 = s_timers s2) by congruence.
  pose proof (program_dirty_cause p1 2 (nows 2) (VInv_same_timers _ _ Tp1 V2) (Hnows 2 ltac:(lia))) as C2.
  destruct (program_if_needed p1 2 (nows 2)) as [p2 c2]. cbn [fst] in *.
  assert (Tp2 : s_timers p2 = s_timers s2) by congruence.
  exists p2, (e0 ++ e1 ++ e2), (c0 ++ c1 ++ c2). split; [reflexivity|].
  split; [exact Gp2|]. split; [apply (VInv_same_timers _ _ Tp2 V2)|].
  rewrite (Psi_same _ _ Tp2). split; [exact P2|].
  (* a due minimum at programming time contradicts the fixpoint of that heap, unless a configuration was consumed *)
  assert (Due : forall p j, 0 <= j < 3 -> GInv p -> s_timers p = s_timers s2 ->
            min0 p j <> 0 /\ t_target (tm p (min0 p j)) <= nows j -> Psi s2 < Psi st).
  { intros p j Hj Gp Tp [Nm L]. destruct (K j Hj) as [Fx|Lt]; [|exact Lt]. exfalso.
    pose proof (Fix_same _ _ j Tp Fx (min0 p j) (min0_member N p j Gp Nm)). lia. }
  intros Dy. destruct (C2 Dy) as [Dy1|X2]; [|apply (Due p1 2); auto; lia].
  destruct (C1 Dy1) as [Dy0|X1]; [|apply (Due p0 1); auto; lia].
  destruct (C0 Dy0) as [X|X0]; [discriminate|apply (Due d0 0); auto; lia].
Qed.

(* _dispatch_event_loop_drain_timers always leaves its loop: more passes than pending configurations are never needed *)
Theorem drain_term : forall fuel st ev calls,
  GInv st -> VInv st -> Psi st < Z.of_nat fuel ->
  exists st' ev' calls', drain fuel st nows ev calls = (st', ev', calls', true) /\ VInv st'.
Proof.
  induction fuel as [|fuel IH]; intros st ev calls G V Hf.
  - pose proof (Psi_range st). lia.
  - cbn [drain]. destruct (drain_pass_term st G V) as (s1 & e1 & c1 & E & G1 & V1 & P1 & D1).
    rewrite E. cbn [negb]. destruct (s_dirty s1) eqn:Dy; [|eauto].
    apply IH; auto. specialize (D1 eq_refl). lia.
Qed.
End Term.

(* ================================================================================================ *)
(* the system without termination flags *)
Definition guardV (st : state) (o : top) : Prop :=
  match o with
  | TAfter _ tg _ => 1 <= tg < T64
  | TCfg _ _ tg _ itv => 1 <= tg < T64 /\ 1 <= itv < T64          (* C11_config_ranges / C11_interval_config_ranges *)
  | TLatch _ now => 0 <= now < T63
  | TRun _ now => 0 <= now < T63
  | TDrain n0 n1 n2 => 0 <= n0 < T63 /\ 0 <= n1 < T63 /\ 0 <= n2 < T63
  | _ => True
  end.

Lemma vok_fresh flags : vok (fresh_timer flags).
Proof. unfold vok, fresh_timer, UINT64_MAX, T64. simpl. lia. Qed.

Section SysV.
Variable N : Z.
Hypothesis HN : 0 <= N /\ 2 * N + 2 <= CAPMAX.

Lemma VInv_unregister st t : VInv st -> VInv (unregister st t).
Proof.
  intros V. unfold unregister.
  assert (V1 : VInv (if t_armed (tm st t) then disarm st t else st)) by (destruct (t_armed _); auto using VInv_disarm).
  apply VInv_set; auto. specialize (V1 t). unfold vok in *. simpl. exact V1.
Qed.

Lemma VInv_latch st t now : VInv st -> 0 <= now < T63 -> VInv (fst (latch st t now)).
Proof.
  intros V Hn. unfold latch. destruct (V t) as (Vt & Vi & Vp & Vc).
  assert (K : vok (with_pending (tm st t) 0)) by (apply (vok_pending N HN); [apply V|unfold T64; lia]).
  destruct (nz _); [|cbn [fst]; apply VInv_set; auto].
  cbn [t_target t_deadline t_interval with_pending].
  destruct (Z.ltb_spec (t_target (tm st t)) INT64_MAX); cbn [andb]; [|cbn [fst]; apply VInv_set; auto].
  destruct (Z.geb_spec now (t_target (tm st t))); [|cbn [fst]; apply VInv_set; auto].
  assert (Hp : 0 <= Z.shiftr (t_pending (tm st t)) 1 < T63).
  { rewrite shiftr1 by lia. unfold T63, T64 in *. split; [apply Z.div_pos; lia|apply Z.div_lt_upper_bound; lia]. }
  pose proof (missed_latch_range (t_target (tm st t)) (t_deadline (tm st t)) (t_interval (tm st t)) now _
                ltac:(lia) ltac:(lia) Vi Hp) as MR.
  destruct (compute_missed _ _ _ _ _) as [[cnt tg] dl]. cbn [fst]. apply VInv_set; auto.
  unfold vok in *. simpl. repeat split; try tauto; try lia; unfold T64; lia.
Qed.

Lemma VInv_program st i now : VInv st -> VInv (fst (program_if_needed st i now)).
Proof.
  intros V. unfold program_if_needed. destruct (h_np _); auto. unfold program.
  destruct (get_delay st i now) as [d l]. destruct (d =? 0); destruct (_ || _); cbn [fst]; intros t; apply V.
Qed.

Theorem tstep_V n st o :
  N <= n -> GInv N st -> VInv st -> guard N st o -> guardV st o -> VInv (fst (tstep n st o)).
Proof.
  intros Hnn G V Gd Gv. destruct o; cbn [tstep guard guardV fst] in *.
  - apply VInv_set; [destruct (t_armed _); auto using VInv_unregister|apply vok_fresh].
  - apply VInv_set; auto. destruct (V t) as (Vt & Vi & Vp & Vc). unfold vok. simpl. unfold UINT64_MAX, T64 in *. repeat split; auto; lia.
  - unfold set_cfg. apply VInv_set; auto. destruct (V t) as (Vt & Vi & Vp & Vc). unfold vok. simpl. tauto.
  - unfold register.
    assert (V1 : VInv (if t_reg (tm st t) =? 1 then st else set_timer st t (with_armed (with_reg (tm st t) 1) false))).
    { destruct (_ =? 1); auto. apply VInv_set; auto. pose proof (V t) as Vt. unfold vok in *. simpl. exact Vt. }
    destruct (t_cfg _); auto. apply (VInv_configure N HN); auto.
  - apply (VInv_configure N HN); auto.
  - apply VInv_resume; auto.
  - apply VInv_unregister; auto.
  - apply VInv_set; auto. apply (V t).
  - contradiction.
  - pose proof (VInv_latch st t now V Gv) as X. destruct (latch st t now). exact X.
  - destruct (timers_run_terminates N HN st tidx now G V Gv) as (st' & ev & E & V'). rewrite E. exact V'.
  - pose proof (VInv_program st tidx now V) as X. destruct (program_if_needed st tidx now). exact X.
  - set (nows := fun c : Z => if c =? 0 then n0 else if c =? 1 then n1 else n2).
    assert (Hn : forall i, 0 <= i < 3 -> 0 <= nows i < T63).
    { intros i Hi. unfold nows. destruct (i =? 0); [tauto|]. destruct (i =? 1); tauto. }
    destruct (drain_term N HN nows Hn (Z.to_nat n + 1) st [] [] G V) as (st' & ev & calls & E & V').
    { pose proof (Psi_range N HN st). rewrite Nat2Z.inj_add, Z2Nat.id by lia. simpl. lia. }
    rewrite E. exact V'.
  - auto.
Qed.

(* ---- the whole system, no termination hypothesis *)
Definition SVInv (st : state) : Prop := SInv N st /\ VInv st.

Definition sguard2 (n : Z) (st : state) (s : sop) : Prop :=
  match s with
  | SOp o => guard N st o /\ guardV st o /\ external o
  | SDrain fuel nows => (forall i, 0 <= i < 3 -> 0 <= nows i < T63) /\ N < Z.of_nat fuel
  | SExpire i => True
  end.
Fixpoint svalid2 (n : Z) (st : state) (l : list sop) : Prop :=
  match l with [] => True | s :: r => sguard2 n st s /\ svalid2 n (sstep n st s) r end.

(* the manager's pass, total: it returns, and then needs_program is clear, the kernel timer is at the minimum, nothing is due *)
Theorem manager_pass_total fuel st nows :
  (forall i, 0 <= i < 3 -> 0 <= nows i < T63) -> SVInv st -> N < Z.of_nat fuel ->
  exists st' ev calls, drain fuel st nows [] [] = (st', ev, calls, true) /\
    SVInv st' /\ s_dirty st' = false /\
    forall i, 0 <= i < 3 ->
      npb st' i = false /\ kernel_ok st' i /\ forall t, member st' i t -> nows i < t_target (tm st' t).
Proof.
  intros Hn [S V] Hf. destruct S as [G QD].
  destruct (drain_term N HN nows Hn fuel st [] [] G V) as (st' & ev & calls & E & V').
  { pose proof (Psi_range N HN st). lia. }
  exists st', ev, calls. split; [exact E|].
  destruct (drain_Sys N HN fuel st nows st' ev calls Hn (conj G QD) E) as (S' & Dy & Fn).
  split; [split; auto|]. split; auto.
Qed.

Theorem SVInv_step n st s : N <= n -> SVInv st -> sguard2 n st s -> SVInv (sstep n st s).
Proof.
  intros Hnn [S V] Gd. destruct s as [o|fuel nows|i]; cbn [sstep sguard2] in *.
  - destruct Gd as (G1 & G2 & G3). split; [apply tstep_S; auto|]. destruct S as [G _]. apply tstep_V; auto.
  - destruct Gd as [Hn Hf]. destruct (manager_pass_total fuel st nows Hn (conj S V) Hf) as (st' & ev & calls & E & S' & _).
    rewrite E. exact S'.
  - split; [apply kernel_expired_S; auto|]. intros t. apply V.
Qed.

Theorem SVInv_reachable n : N <= n ->
  forall l st, SVInv st -> svalid2 n st l -> SVInv (fold_left (sstep n) l st).
Proof.
  intros Hnn. induction l as [|s r IH]; intros st S Vl; cbn [fold_left svalid2] in *; auto.
  destruct Vl as [Gd Vl]. apply IH; auto. apply SVInv_step; auto.
Qed.

Lemma SVInv_init : SVInv init_state.
Proof. split; [apply SInv_init; auto|]. intros t. apply vok_fresh. Qed.

Theorem always_fires_total n l t i :
  N <= n -> svalid2 n init_state l -> 0 <= i < 3 ->
  let st := fold_left (sstep n) l init_state in
  member st i t ->
  s_dirty st = true \/ (s_harmed st i = true /\ s_ktimer st i <= t_target (tm st t)).
Proof.
  intros Hnn Vl Hi st M. apply (always_fires N st i t); auto.
  apply (SVInv_reachable n Hnn l init_state SVInv_init Vl).
Qed.

(* _dispatch_timers_run, total: it returns, and then no armed timer of that heap is due *)
Theorem run_total st tidx now :
  GInv N st -> VInv st -> 0 <= now < T63 ->
  exists st' ev, timers_run st tidx now = (st', ev, true) /\
    GInv N st' /\ VInv st' /\ forall t, member st' tidx t -> now < t_target (tm st' t).
Proof.
  intros G V Hn. destruct (timers_run_terminates N HN st tidx now G V Hn) as (st' & ev & E & V').
  exists st', ev. split; [exact E|]. destruct (run_fixpoint_G N HN st tidx now st' ev G E) as [G' Fx]. auto.
Qed.
End SysV.

(* ================================================================================================ *)
(* the abstract kernel timer (s_harmed, s_ktimer) is refined by the timerfd / epoll state machine of event_epoll.c *)
Lemma timeout_program_arm k target : 0 <= target < INT64_MAX ->
  let '(k', c) := timeout_program k target in
  k_registered k' = true /\ k_armed k' = true /\ k_value k' = target /\ In (KSettime target) c.
Proof.
  intros H. unfold timeout_program. destruct (Z.geb_spec target INT64_MAX); [lia|]. cbn [andb].
  destruct (Z.ltb_spec target INT64_MAX); [|lia].
  destruct (k_registered k) eqn:R; cbn [negb]; [destruct (k_armed k) eqn:A; cbn [negb]|]; cbn [k_registered k_armed k_value];
    repeat split; auto; apply in_or_app; right; simpl; auto.
Qed.

Definition apply_kcalls (ks : Z -> ktimer) (calls : list kcall) : Z -> ktimer :=
  fold_left (fun ks '(kind, i, tg, _) =>
               updf ks i (fst (if kind =? 1 then timeout_program (ks i) tg else loop_timer_delete (ks i)))) calls ks.

Definition Kref (st : state) (ks : Z -> ktimer) : Prop :=
  forall i, s_harmed st i = true -> k_armed (ks i) = true /\ k_registered (ks i) = true /\ k_value (ks i) = s_ktimer st i.

Theorem program_refines N st i now ks :
  GInv N st -> Kref st ks -> 0 <= now < T63 ->
  Kref (fst (program st i now)) (apply_kcalls ks (snd (program st i now))).
Proof.
  intros G K Hn. unfold program, get_delay, DTH_TARGET_ID, DTH_DEADLINE_ID. fold (min0 st i).
  assert (Other : forall (st1 : state) (hm : Z -> bool) kt hs ks' ,
            (forall j, j <> i -> hm j = s_harmed st j /\ kt j = s_ktimer st j /\ ks' j = ks j) ->
            (hm i = true -> k_armed (ks' i) = true /\ k_registered (ks' i) = true /\ k_value (ks' i) = kt i) ->
            Kref (mkS hs hm kt (s_dirty st1) (s_timers st1)) ks').
  { intros st1 hm kt hs ks' Ho Hi j Hj. cbn [s_harmed s_ktimer] in *. destruct (Z.eq_dec j i) as [->|Nj]; auto.
    destruct (Ho j Nj) as (E1 & E2 & E3). rewrite E1 in Hj. rewrite E2, E3. apply K; auto. }
  assert (Del : forall (st1 : state) hs, s_harmed st1 = s_harmed st -> s_ktimer st1 = s_ktimer st ->
            Kref (mkS hs (updf (s_harmed st1) i false)
                      (if s_harmed st1 i then updf (s_ktimer st1) i (-1) else s_ktimer st1) (s_dirty st1) (s_timers st1))
                 (apply_kcalls ks (if s_harmed st1 i then [(0, i, 0, 0)] else []))).
  { intros st1 hs E1 E2. apply Other.
    - intros j Nj. unfold updf. destruct (Z.eqb_spec j i); [contradiction|]. rewrite E1, E2.
      split; auto. split; [destruct (s_harmed st i); unfold updf; destruct (Z.eqb_spec j i); try contradiction; auto|].
      destruct (s_harmed st i); cbn [apply_kcalls fold_left]; unfold updf; destruct (Z.eqb_spec j i); try contradiction; auto.
    - unfold updf. rewrite Z.eqb_refl. discriminate. }
  destruct (Z.eqb_spec (min0 st i) 0) as [Z0|Nm].
  - change ((INT64_MAX =? 0) || (INT64_MAX >=? INT64_MAX)) with true. cbv iota beta. cbn [fst snd]. apply (Del st); auto.
  - destruct (Z.leb_spec (t_target (tm st (min0 st i))) now) as [L|L].
    + cbn [Z.eqb orb fst snd]. apply (Del (set_dirty st true)); auto.
    + destruct (min0_member N st i G Nm) as [_ [Am _]]. pose proof (gi_tgt _ _ G _ Am) as Tg.
      unfold T63, INT64_MAX in *. rewrite (u64_id (t_target (tm st (min0 st i)) - now)) by lia.
      rewrite Z.min_l by lia.
      destruct (Z.eqb_spec (t_target (tm st (min0 st i)) - now) 0); [lia|].
      destruct (Z.geb_spec (t_target (tm st (min0 st i)) - now) 9223372036854775807); [lia|].
      cbn [orb fst snd]. replace (t_target (tm st (min0 st i)) - now + now) with (t_target (tm st (min0 st i))) by lia.
      rewrite u64_id by lia.
      apply Other.
      * intros j Nj. unfold updf. destruct (Z.eqb_spec j i); [contradiction|]. repeat split; auto.
        cbn [apply_kcalls fold_left]. unfold updf. destruct (Z.eqb_spec j i); [contradiction|]. reflexivity.
      * intros _. cbn [apply_kcalls fold_left]. unfold updf. rewrite !Z.eqb_refl. cbn [Z.eqb Pos.eqb].
        pose proof (timeout_program_arm (ks i) (t_target (tm st (min0 st i))) ltac:(unfold INT64_MAX; lia)) as TA.
        destruct (timeout_program (ks i) (t_target (tm st (min0 st i)))) as [k' c]. cbn [fst]. tauto.
Qed.

(* the expiry: both sides drop the registration *)
Lemma kernel_expired_refines st i ks : Kref st ks -> Kref (kernel_expired st i) (updf ks i (merge_timer_k (ks i))).
Proof.
  intros K j Hj. unfold kernel_expired in *. cbn [s_harmed s_ktimer] in *. unfold updf in *.
  destruct (Z.eqb_spec j i); [discriminate|]. apply K; auto.
Qed.
