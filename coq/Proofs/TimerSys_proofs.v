(* TimerSys_proofs.v — the timer machinery as a whole (Model/TimerRun.v): needs_program / kernel timer programming
   invariant, the manager's pass _dispatch_event_loop_drain_timers, and the composed always-fires invariant over every
   reachable state. *)
From Coq Require Import ZArith List Bool Lia ZifyBool Znumtheory.
From Verif Require Import Word Bits Tactics Gen_consts Gen_time Gen_timer Time Time_proofs Heap TimerRun Heap_proofs TimerRun_proofs.
Import ListNotations.
Local Open Scope Z_scope.

(* ================================================================================================ *)
(* programming: needs_program is set whenever the minimum (or its key) changes, and cleared only by programming the
   kernel timer to the minimum *)
Section Prog.
Variable N : Z.
Hypothesis HN : 0 <= N /\ 2 * N + 2 <= CAPMAX.
Notation GInv := (GInv N).

Definition npb (st : state) (i : Z) : bool := h_np (s_heaps st i).
Definition min0 (st : state) (i : Z) : Z := h_slot (s_heaps st i) 0.
Definition kernel_ok (st : state) (i : Z) : Prop :=
  min0 st i <> 0 -> s_harmed st i = true /\ s_ktimer st i = t_target (tm st (min0 st i)).

(* st1 differs from st only in the values (not the armed bit / ident) of timer t *)
Record same_but (st st1 : state) (t : Z) : Prop := {
  sb_heaps : s_heaps st1 = s_heaps st;
  sb_harmed : s_harmed st1 = s_harmed st;
  sb_ktimer : s_ktimer st1 = s_ktimer st;
  sb_other : forall u, u <> t -> tm st1 u = tm st u;
  sb_armed : t_armed (tm st1 t) = t_armed (tm st t);
  sb_ident : t_ident (tm st1 t) = t_ident (tm st t)
}.
Lemma same_but_refl st t : same_but st st t.
Proof. constructor; auto. Qed.
Lemma same_but_set st t v :
  t_armed v = t_armed (tm st t) -> t_ident v = t_ident (tm st t) -> same_but st (set_timer st t v) t.
Proof.
  intros A I. constructor; auto.
  - intros u Nu. apply tm_set_timer_neq; auto.
  - rewrite tm_set_timer_eq; auto.
  - rewrite tm_set_timer_eq; auto.
Qed.

Lemma same_but_member st st1 t j u : same_but st st1 t -> (member st1 j u <-> member st j u).
Proof.
  intros [_ _ _ Ho Ea Ei]. unfold member. destruct (Z.eq_dec u t) as [->|Nu].
  - rewrite Ea, Ei. tauto.
  - rewrite Ho by auto. tauto.
Qed.
Lemma same_but_key st st1 t g u : same_but st st1 t -> u <> t -> keyof (s_timers st1) g u = keyof (s_timers st) g u.
Proof.
  intros [_ _ _ Ho _ _] Nu. unfold keyof. change (s_timers st1 u) with (tm st1 u). rewrite Ho by auto. reflexivity.
Qed.
Lemma same_but_X st st1 t : GInv st -> same_but st st1 t -> HInvsX st1 t.
Proof.
  intros G SB. exists (keyof (s_timers st)). split.
  - intros g u Nu. symmetry. eapply same_but_key; eauto.
  - intros i. rewrite (sb_heaps _ _ _ SB). apply (Inv_iff _ _ _ _ _ (gi_heaps _ _ G i)); auto.
    intros u. symmetry. eapply same_but_member; eauto.
Qed.

(* what one heap operation on timer t in heap i does, seen from a state st satisfying the invariant *)
Record frame (st st' : state) (t i : Z) : Prop := {
  f_tm : forall u, u <> t -> tm st' u = tm st u;
  f_harmed : s_harmed st' = s_harmed st;
  f_ktimer : s_ktimer st' = s_ktimer st;
  f_heaps : forall j, j <> i -> s_heaps st' j = s_heaps st j;
  f_np : npb st i = true -> npb st' i = true;
  f_touch : npb st' i = true \/ (min0 st' i = min0 st i /\ min0 st' i <> t);
  f_mem : forall j u, member st' j u -> member st j u \/ (u = t /\ j = i);
  f_notin : forall j, j <> i -> ~ member st j t
}.

Lemma disarm_frame st st1 t :
  GInv st -> same_but st st1 t -> t_armed (tm st t) = true ->
  frame st (disarm st1 t) t (t_ident (tm st t)).
Proof.
  intros G SB A. pose proof (gi_ids _ _ G t A) as Ht.
  set (i := t_ident (tm st t)).
  assert (M : member st i t) by (unfold member; repeat split; auto; lia).
  pose proof (gi_heaps _ _ G i) as I.
  assert (Hk : forall g u, u <> t -> keyof (s_timers st1) g u = keyof (s_timers st) g u)
    by (intros; eapply same_but_key; eauto).
  pose proof (remove_ext _ (keyof (s_timers st1)) _ _ t I M Hk) as RE.
  destruct (remove_inv _ _ _ t I M) as [RI [_ [_ [_ [[NPm _] _]]]]].
  pose proof (remove_touch _ _ _ t I M) as RT.
  assert (Hh : s_heaps (disarm st1 t) i = remove (keyof (s_timers st)) (s_heaps st i) t).
  { rewrite disarm_heap, (sb_ident _ _ _ SB). fold i. rewrite Z.eqb_refl, (sb_heaps _ _ _ SB). exact RE. }
  constructor.
  - intros u Nu. rewrite disarm_other by auto. apply (sb_other _ _ _ SB); auto.
  - unfold disarm; simpl. apply SB.
  - unfold disarm; simpl. apply SB.
  - intros j Nj. rewrite disarm_heap, (sb_ident _ _ _ SB). fold i. destruct (Z.eqb_spec j i); [contradiction|].
    rewrite (sb_heaps _ _ _ SB). reflexivity.
  - unfold npb. rewrite Hh. exact NPm.
  - unfold npb, min0. rewrite Hh. exact RT.
  - intros j u Mu. unfold member in Mu. rewrite disarm_tm in Mu. destruct (Z.eqb_spec u t) as [E|Nu].
    + destruct Mu as [_ [X _]]. discriminate.
    + left. apply (same_but_member _ _ _ j u SB). exact Mu.
  - intros j Nj [_ [_ X]]. apply Nj. symmetry. exact X.
Qed.

Lemma arm_frame st st1 t i :
  GInv st -> same_but st st1 t -> 1 <= t <= N -> (t_armed (tm st t) = true -> t_ident (tm st t) = i) ->
  frame st (arm st1 t i) t i.
Proof.
  intros G SB Ht Hid. assert (Nz : t <> 0) by lia.
  pose proof (gi_heaps _ _ G i) as I.
  assert (Hk : forall g u, u <> t -> keyof (s_timers st1) g u = keyof (s_timers st) g u)
    by (intros; eapply same_but_key; eauto).
  destruct (t_armed (tm st t)) eqn:A.
  - specialize (Hid eq_refl).
    assert (M : member st i t) by (unfold member; auto).
    destruct (update_inv (keyof (s_timers st1)) _ _ t _ I M Hk) as [_ [[NPm _] [_ UT]]].
    assert (Hh : s_heaps (arm st1 t i) i = update (keyof (s_timers st1)) (s_heaps st i) t).
    { rewrite arm_heap, Z.eqb_refl, (sb_armed _ _ _ SB), A, (sb_heaps _ _ _ SB). reflexivity. }
    constructor.
    + intros u Nu. rewrite arm_other by auto. apply (sb_other _ _ _ SB); auto.
    + unfold arm. rewrite (sb_armed _ _ _ SB), A. simpl. apply SB.
    + unfold arm. rewrite (sb_armed _ _ _ SB), A. simpl. apply SB.
    + intros j Nj. rewrite arm_heap. destruct (Z.eqb_spec j i); [contradiction|]. rewrite (sb_heaps _ _ _ SB). reflexivity.
    + unfold npb. rewrite Hh. exact NPm.
    + unfold npb, min0. rewrite Hh. exact UT.
    + intros j u Mu. unfold member in Mu. rewrite arm_tm, (sb_armed _ _ _ SB), A in Mu.
      left. apply (same_but_member _ _ _ j u SB). exact Mu.
    + intros j Nj [_ [_ X]]. apply Nj. congruence.
  - assert (NS : ~ member st i t) by (unfold member; intros [_ [X _]]; congruence).
    set (st1' := set_timer st1 t (with_ident (tm st1 t) i)).
    assert (I1 : Inv (keyof (s_timers st1')) (member st i) (s_heaps st i)).
    { apply (Inv_iff _ _ _ _ _ I); [tauto|]. intros g u [_ [X _]].
      assert (u <> t) by (intros ->; congruence).
      unfold st1'. rewrite keyof_set_timer by auto. apply Hk; auto. }
    pose proof (GInv_room N HN _ G i) as R.
    destruct (insert_inv (keyof (s_timers st1')) _ _ t 0 I1 NS Nz ltac:(lia)) as [_ [_ [[NPm _] [_ IT]]]].
    assert (Hh : s_heaps (arm st1 t i) i = insert (keyof (s_timers st1')) (s_heaps st i) t 0).
    { rewrite arm_heap, Z.eqb_refl, (sb_armed _ _ _ SB), A, (sb_heaps _ _ _ SB). reflexivity. }
    constructor.
    + intros u Nu. rewrite arm_other by auto. apply (sb_other _ _ _ SB); auto.
    + unfold arm. rewrite (sb_armed _ _ _ SB), A. simpl. apply SB.
    + unfold arm. rewrite (sb_armed _ _ _ SB), A. simpl. apply SB.
    + intros j Nj. rewrite arm_heap. destruct (Z.eqb_spec j i); [contradiction|]. rewrite (sb_heaps _ _ _ SB). reflexivity.
    + unfold npb. rewrite Hh. exact NPm.
    + unfold npb, min0. rewrite Hh. exact IT.
    + intros j u Mu. unfold member in Mu. rewrite arm_tm, (sb_armed _ _ _ SB), A in Mu.
      destruct (Z.eqb_spec u t) as [E|Nu].
      * right. split; auto. destruct Mu as [_ [_ X]]. simpl in X. auto.
      * left. apply (same_but_member _ _ _ j u SB). exact Mu.
    + intros j Nj [_ [X _]]. congruence.
Qed.

(* ---- invariant-level versions of disarm / arm applied after the values of t were overwritten *)
Lemma disarm_G' st st1 t :
  GInv st -> same_but st st1 t -> t_armed (tm st t) = true -> GInv (disarm st1 t).
Proof.
  intros G SB A. pose proof (gi_ids _ _ G t A) as Ht.
  assert (M : member st1 (t_ident (tm st1 t)) t).
  { unfold member. rewrite (sb_armed _ _ _ SB). repeat split; auto. lia. }
  destruct (disarm_X st1 t (same_but_X _ _ _ G SB) M) as [H _].
  apply (GInv_intro N st _ t G H Ht).
  - intros u Nu. rewrite disarm_other by auto. apply (sb_other _ _ _ SB); auto.
  - rewrite disarm_tm, Z.eqb_refl. simpl. discriminate.
Qed.

Lemma arm_G' st st1 t i :
  GInv st -> same_but st st1 t -> 1 <= t <= N -> (t_armed (tm st t) = true -> t_ident (tm st t) = i) ->
  t_target (tm st1 t) < INT64_MAX -> Z.land (t_pending (tm st1 t)) 1 = 0 -> GInv (arm st1 t i).
Proof.
  intros G SB Ht Hid Tg Pm. assert (Nz : t <> 0) by lia.
  assert (Hid1 : t_armed (tm st1 t) = true -> t_ident (tm st1 t) = i).
  { rewrite (sb_armed _ _ _ SB), (sb_ident _ _ _ SB). exact Hid. }
  assert (R : room st1 1).
  { intros j. rewrite (sb_heaps _ _ _ SB). apply (GInv_room N HN _ G). }
  destruct (arm_X st1 t i (same_but_X _ _ _ G SB) Nz Hid1 R) as [H _].
  apply (GInv_intro N st _ t G H Ht).
  - intros u Nu. rewrite arm_other by auto. apply (sb_other _ _ _ SB); auto.
  - intros _. rewrite arm_tm. destruct (t_armed (tm st1 t)); [auto|]. rewrite Z.eqb_refl. simpl. auto.
Qed.

(* ---- status of the heaps during the manager's pass with cached clock readings nows *)
Variable nows : Z -> Z.
Definition Fix (st : state) (i : Z) : Prop := forall t, member st i t -> nows i < t_target (tm st t).
Definition due (st : state) (i : Z) : Prop := min0 st i <> 0 /\ t_target (tm st (min0 st i)) <= nows i.
(* before heap i was run in this pass / after it was run *)
Definition L0 (st : state) (i : Z) : Prop := npb st i = true \/ kernel_ok st i \/ due st i.
Definition Ranp (st : state) (i : Z) : Prop := npb st i = true \/ (kernel_ok st i /\ Fix st i).
Definition Stat (ran : Z -> bool) (st : state) : Prop := forall j, 0 <= j < 3 -> if ran j then Ranp st j else L0 st j.
(* between passes *)
Definition QInv (st : state) : Prop := forall j, 0 <= j < 3 -> npb st j = true \/ kernel_ok st j.

Lemma min0_member st i : GInv st -> min0 st i <> 0 -> member st i (min0 st i).
Proof. intros G Nm. apply (min_member N); auto. Qed.

Lemma member_nonempty st i t : GInv st -> member st i t -> min0 st i <> 0 /\
  t_target (tm st (min0 st i)) <= t_target (tm st t).
Proof.
  intros G M. destruct (min_is_min _ _ _ (gi_heaps _ _ G i) t M) as [S0 [K0 _]].
  split; [intros E; unfold min0 in E; rewrite E in S0; exact (iv_null _ _ _ (gi_heaps _ _ G i) S0)|exact K0].
Qed.

Lemma frame_other st st' t i j :
  GInv st -> frame st st' t i -> j <> i ->
  npb st' j = npb st j /\ min0 st' j = min0 st j /\
  (min0 st j <> 0 -> t_target (tm st' (min0 st j)) = t_target (tm st (min0 st j))) /\
  (forall u, member st' j u -> member st j u /\ t_target (tm st' u) = t_target (tm st u)).
Proof.
  intros G Fr Nj. unfold npb, min0. rewrite (f_heaps _ _ _ _ Fr j Nj).
  split; [reflexivity|]. split; [reflexivity|]. split.
  - intros Nm. rewrite (f_tm _ _ _ _ Fr); auto. intros E.
    apply (f_notin _ _ _ _ Fr j Nj). rewrite <- E. apply min0_member; auto.
  - intros u Mu. destruct (f_mem _ _ _ _ Fr j u Mu) as [M|[_ E]]; [|contradiction].
    split; [exact M|]. rewrite (f_tm _ _ _ _ Fr); auto. intros E. subst u. exact (f_notin _ _ _ _ Fr j Nj M).
Qed.

Lemma kernel_ok_same st st' i :
  s_harmed st' = s_harmed st -> s_ktimer st' = s_ktimer st -> min0 st' i = min0 st i ->
  (min0 st i <> 0 -> t_target (tm st' (min0 st i)) = t_target (tm st (min0 st i))) ->
  kernel_ok st i -> kernel_ok st' i.
Proof.
  intros Eh Ek Em Et K Nm. unfold kernel_ok in *. rewrite Em in *. rewrite Eh, Ek, Et by auto. auto.
Qed.

Lemma Stat_frame ran st st' t i :
  GInv st -> GInv st' -> frame st st' t i -> Stat ran st -> Stat ran st'.
Proof.
  intros G G' Fr S j Hj. specialize (S j Hj). destruct (Z.eq_dec j i) as [->|Nj].
  - destruct (f_touch _ _ _ _ Fr) as [Np|[Em Nt]]; [destruct (ran i); left; exact Np|].
    assert (Et : min0 st i <> 0 -> t_target (tm st' (min0 st i)) = t_target (tm st (min0 st i))).
    { intros _. apply f_equal. apply (f_tm _ _ _ _ Fr). congruence. }
    assert (Np0 : npb st i = true -> npb st' i = true) by apply Fr.
    destruct (ran i).
    + destruct S as [Np|[K Fx]]; [left; auto|]. right. split.
      * apply (kernel_ok_same st st' i (f_harmed _ _ _ _ Fr) (f_ktimer _ _ _ _ Fr) Em Et K).
      * intros u Mu. destruct (Z.eq_dec u t) as [->|Nu].
        -- destruct (member_nonempty st' i t G' Mu) as [Nm' Le]. rewrite Em in Le, Nm'.
           rewrite (Et Nm') in Le. pose proof (Fx _ (min0_member st i G Nm')). lia.
        -- destruct (f_mem _ _ _ _ Fr i u Mu) as [M|[E _]]; [|contradiction].
           rewrite (f_tm _ _ _ _ Fr) by auto. apply Fx; auto.
    + destruct S as [Np|[K|[Nm D]]]; [left; auto| |].
      * right; left. apply (kernel_ok_same st st' i (f_harmed _ _ _ _ Fr) (f_ktimer _ _ _ _ Fr) Em Et K).
      * right; right. unfold due. rewrite Em. split; auto. rewrite Et; auto.
  - destruct (frame_other st st' t i j G Fr Nj) as [En [Em [Et Hm]]].
    destruct (ran j).
    + destruct S as [Np|[K Fx]]; [left; congruence|]. right. split.
      * apply (kernel_ok_same st st' j (f_harmed _ _ _ _ Fr) (f_ktimer _ _ _ _ Fr) Em Et K).
      * intros u Mu. destruct (Hm u Mu) as [M E]. rewrite E. apply Fx; auto.
    + destruct S as [Np|[K|[Nm D]]]; [left; congruence| |].
      * right; left. apply (kernel_ok_same st st' j (f_harmed _ _ _ _ Fr) (f_ktimer _ _ _ _ Fr) Em Et K).
      * right; right. unfold due. rewrite Em. split; auto. rewrite Et; auto.
Qed.

Lemma QInv_frame st st' t i : GInv st -> frame st st' t i -> QInv st -> QInv st'.
Proof.
  intros G Fr Q j Hj. specialize (Q j Hj). destruct (Z.eq_dec j i) as [->|Nj].
  - destruct (f_touch _ _ _ _ Fr) as [Np|[Em Nt]]; [left; exact Np|].
    destruct Q as [Np|K]; [left; apply Fr; auto|]. right.
    apply (kernel_ok_same st st' i (f_harmed _ _ _ _ Fr) (f_ktimer _ _ _ _ Fr) Em); auto.
    intros _. apply f_equal. apply (f_tm _ _ _ _ Fr). congruence.
  - destruct (frame_other st st' t i j G Fr Nj) as [En [Em [Et Hm]]].
    destruct Q as [Np|K]; [left; congruence|]. right.
    apply (kernel_ok_same st st' j (f_harmed _ _ _ _ Fr) (f_ktimer _ _ _ _ Fr) Em Et K).
Qed.

(* after a heap operation on the timer that was in the target min slot, needs_program is set *)
Lemma frame_min_np st st' i : frame st st' (min0 st i) i -> npb st' i = true.
Proof. intros Fr. destruct (f_touch _ _ _ _ Fr) as [Np|[Em Nt]]; auto; congruence. Qed.

(* replacing the record of t without touching armed / ident / target (pending data, configuration, suspension) *)
Lemma Stat_set ran st t v :
  t_armed v = t_armed (tm st t) -> t_ident v = t_ident (tm st t) -> t_target v = t_target (tm st t) ->
  Stat ran st -> Stat ran (set_timer st t v).
Proof.
  intros Ea Ei Et S j Hj. specialize (S j Hj).
  assert (Tg : forall u, t_target (tm (set_timer st t v) u) = t_target (tm st u)).
  { intros u. destruct (Z.eq_dec u t) as [->|Nu]; [rewrite tm_set_timer_eq; auto|rewrite tm_set_timer_neq; auto]. }
  assert (K : kernel_ok st j -> kernel_ok (set_timer st t v) j).
  { unfold kernel_ok. change (min0 (set_timer st t v) j) with (min0 st j).
    change (s_harmed (set_timer st t v)) with (s_harmed st). change (s_ktimer (set_timer st t v)) with (s_ktimer st).
    rewrite Tg. auto. }
  assert (Fx : Fix st j -> Fix (set_timer st t v) j).
  { intros Fx u Mu. rewrite Tg. apply Fx. apply (member_set_timer st t v j u Ea Ei). exact Mu. }
  assert (D : due st j -> due (set_timer st t v) j).
  { unfold due. change (min0 (set_timer st t v) j) with (min0 st j). rewrite Tg. auto. }
  unfold Ranp, L0 in *. change (npb (set_timer st t v) j) with (npb st j). destruct (ran j); tauto.
Qed.
Lemma QInv_set st t v :
  t_target v = t_target (tm st t) -> QInv st -> QInv (set_timer st t v).
Proof.
  intros Et Q j Hj. specialize (Q j Hj).
  assert (Tg : forall u, t_target (tm (set_timer st t v) u) = t_target (tm st u)).
  { intros u. destruct (Z.eq_dec u t) as [->|Nu]; [rewrite tm_set_timer_eq; auto|rewrite tm_set_timer_neq; auto]. }
  unfold kernel_ok in *. change (min0 (set_timer st t v) j) with (min0 st j). change (npb (set_timer st t v) j) with (npb st j).
  change (s_harmed (set_timer st t v)) with (s_harmed st). change (s_ktimer (set_timer st t v)) with (s_ktimer st).
  rewrite Tg. auto.
Qed.
(* ... or of a timer that is in no heap *)
Lemma Stat_set_notarmed ran st t v :
  GInv st -> t_armed (tm st t) = false -> t_armed v = false -> Stat ran st -> Stat ran (set_timer st t v).
Proof.
  intros G A Av S j Hj. specialize (S j Hj).
  assert (Tg : forall u, t_armed (tm st u) = true -> tm (set_timer st t v) u = tm st u).
  { intros u Au. apply tm_set_timer_neq. intros ->. congruence. }
  assert (Mm : min0 st j <> 0 -> tm (set_timer st t v) (min0 st j) = tm st (min0 st j)).
  { intros Nm. apply Tg. apply (min0_member st j G Nm). }
  assert (K : kernel_ok st j -> kernel_ok (set_timer st t v) j).
  { unfold kernel_ok. change (min0 (set_timer st t v) j) with (min0 st j).
    change (s_harmed (set_timer st t v)) with (s_harmed st). change (s_ktimer (set_timer st t v)) with (s_ktimer st).
    intros K Nm. rewrite Mm by auto. apply K; auto. }
  assert (Fx : Fix st j -> Fix (set_timer st t v) j).
  { intros Fx u Mu. assert (Mu' : member st j u).
    { unfold member in *. destruct (Z.eq_dec u t) as [->|Nu]; [rewrite tm_set_timer_eq in Mu; destruct Mu as [_ [X _]]; congruence|].
      rewrite tm_set_timer_neq in Mu by auto. exact Mu. }
    rewrite Tg by apply Mu'. apply Fx; auto. }
  assert (D : due st j -> due (set_timer st t v) j).
  { unfold due. change (min0 (set_timer st t v) j) with (min0 st j). intros [Nm L]. rewrite Mm by auto. auto. }
  unfold Ranp, L0 in *. change (npb (set_timer st t v) j) with (npb st j). destruct (ran j); tauto.
Qed.

(* ---- resume of a timer that is in a heap, after its values were overwritten (configure) *)
Lemma resume_S ran st st1 t :
  GInv st -> same_but st st1 t -> t_armed (tm st t) = true -> Z.land (t_pending (tm st1 t)) 1 = 0 ->
  Stat ran st -> GInv (resume st1 t) /\ Stat ran (resume st1 t).
Proof.
  intros G SB A Pm S. pose proof (gi_ids _ _ G t A) as Ht.
  unfold resume. set (x1 := tm st1 t). set (tidx := unote_idx x1).
  assert (A1 : t_armed x1 = true) by (unfold x1; rewrite (sb_armed _ _ _ SB); auto).
  assert (I1 : t_ident x1 = t_ident (tm st t)) by (unfold x1; apply SB).
  rewrite A1. cbn [andb].
  destruct (needs_rearm x1) eqn:W; cbn [negb orb].
  - pose proof (needs_rearm_tgt _ W) as Tg.
    destruct (Z.eqb_spec (t_ident x1) tidx) as [E|E]; cbn [negb].
    + assert (Hid : t_armed (tm st t) = true -> t_ident (tm st t) = tidx) by (intros _; congruence).
      pose proof (arm_G' st st1 t tidx G SB Ht Hid Tg Pm) as G2.
      split; auto. apply (Stat_frame ran st _ t tidx G G2 (arm_frame st st1 t tidx G SB Ht Hid) S).
    + pose proof (disarm_G' st st1 t G SB A) as G2.
      pose proof (Stat_frame ran st _ t _ G G2 (disarm_frame st st1 t G SB A) S) as S2.
      set (st2 := disarm st1 t) in *.
      assert (A2 : t_armed (tm st2 t) = false) by (unfold st2; rewrite disarm_tm, Z.eqb_refl; reflexivity).
      assert (Hid : t_armed (tm st2 t) = true -> t_ident (tm st2 t) = tidx) by (rewrite A2; discriminate).
      assert (V2 : t_target (tm st2 t) = t_target x1 /\ t_pending (tm st2 t) = t_pending x1).
      { unfold st2. rewrite disarm_tm, Z.eqb_refl. simpl. auto. }
      destruct V2 as [V2 V3].
      pose proof (arm_G' st2 st2 t tidx G2 (same_but_refl _ _) Ht Hid ltac:(rewrite V2; exact Tg) ltac:(rewrite V3; exact Pm)) as G3.
      split; auto. apply (Stat_frame ran st2 _ t tidx G2 G3 (arm_frame st2 st2 t tidx G2 (same_but_refl _ _) Ht Hid) S2).
  - pose proof (disarm_G' st st1 t G SB A) as G2.
    split; auto. apply (Stat_frame ran st _ t _ G G2 (disarm_frame st st1 t G SB A) S).
Qed.

Lemma run_step_S ran st cur now :
  GInv st -> Stat ran st -> min0 st cur <> 0 ->
  GInv (fst (run_step st cur now (min0 st cur))) /\ Stat ran (fst (run_step st cur now (min0 st cur))).
Proof.
  intros G S Nm. set (dr := min0 st cur) in *.
  destruct (min0_member st cur G Nm) as [Nz [A Id]]. fold dr in Nz, A, Id.
  pose proof (gi_ids _ _ G dr A) as Ht.
  assert (DisPend : forall st1 p, same_but st st1 dr ->
            GInv (set_timer (disarm st1 dr) dr (with_pending (tm (disarm st1 dr) dr) p)) /\
            Stat ran (set_timer (disarm st1 dr) dr (with_pending (tm (disarm st1 dr) dr) p))).
  { intros st1 p SB. pose proof (disarm_G' st st1 dr G SB A) as G1.
    pose proof (Stat_frame ran st _ dr _ G G1 (disarm_frame st st1 dr G SB A) S) as S1.
    assert (A1 : t_armed (tm (disarm st1 dr) dr) = false) by (rewrite disarm_tm, Z.eqb_refl; reflexivity).
    split; [apply (set_notarmed_G N); auto|apply Stat_set_notarmed; auto]. }
  unfold run_step. destruct (t_after (tm st dr)).
  - cbn [fst]. apply DisPend. apply same_but_refl.
  - destruct (t_cfg (tm st dr)) as [[[[c tg] dl] itv]|] eqn:Cf.
    + cbn [fst]. unfold configure. rewrite Cf.
      set (x1 := with_pending _ 0).
      assert (Ea : t_armed x1 = t_armed (tm st dr) /\ t_ident x1 = t_ident (tm st dr) /\ t_pending x1 = 0).
      { unfold x1. destruct (negb (c =? t_clock (tm st dr))); simpl; auto. }
      destruct Ea as [Ea [Ei Ep]]. rewrite Ea, A.
      apply (resume_S ran st (set_timer st dr x1) dr G (same_but_set st dr x1 Ea Ei) A); auto.
      rewrite tm_set_timer_eq, Ep. reflexivity.
    + destruct (nz (t_pending (tm st dr))).
      * cbn [fst]. apply DisPend. apply same_but_refl.
      * destruct (compute_missed _ _ _ _ _) as [[cnt tg] dl].
        set (x1 := with_values (tm st dr) tg dl (t_interval (tm st dr))).
        assert (SB : same_but st (set_timer st dr x1) dr) by (apply same_but_set; reflexivity).
        set (st1 := set_timer st dr x1) in *.
        assert (T1 : tm st1 dr = x1) by apply tm_set_timer_eq.
        rewrite T1.
        destruct (needs_rearm x1) eqn:W; cbn [fst].
        -- assert (Hid : t_armed (tm st dr) = true -> t_ident (tm st dr) = cur) by auto.
           assert (Pm : Z.land (t_pending (tm st1 dr)) 1 = 0).
           { rewrite T1. unfold x1. simpl. apply (gi_marker _ _ G dr A). }
           pose proof (arm_G' st st1 dr cur G SB Ht Hid ltac:(rewrite T1; apply needs_rearm_tgt; auto) Pm) as G2.
           pose proof (Stat_frame ran st _ dr cur G G2 (arm_frame st st1 dr cur G SB Ht Hid) S) as S2.
           set (st2 := arm st1 dr cur) in *.
           assert (T2 : tm st2 dr = x1).
           { unfold st2. rewrite arm_tm, T1. unfold x1 at 1. simpl. rewrite A. reflexivity. }
           split.
           ++ apply (set_same_G N); auto. intros _. simpl. apply even_pending.
           ++ apply Stat_set; auto.
        -- apply DisPend. exact SB.
Qed.

Definition mark (ran : Z -> bool) (i : Z) : Z -> bool := fun j => if j =? i then true else ran j.

Theorem run_loop_S ran cur : forall fuel st ev st' ev',
  GInv st -> Stat ran st -> run_loop fuel st cur (nows cur) ev = (st', ev', true) ->
  GInv st' /\ Stat (mark ran cur) st'.
Proof.
  induction fuel as [|fuel IH]; intros st ev st' ev' G S E; cbn [run_loop] in E; [inversion E|].
  unfold DTH_TARGET_ID in E. change (h_slot (s_heaps st cur) 0) with (min0 st cur) in E.
  assert (Exit : (min0 st cur = 0 \/ nows cur < t_target (tm st (min0 st cur))) -> GInv st /\ Stat (mark ran cur) st).
  { intros X. split; auto. intros j Hj. unfold mark. specialize (S j Hj). destruct (Z.eqb_spec j cur) as [->|Nj]; [|exact S].
    assert (Fx : Fix st cur).
    { intros u Mu. destruct (member_nonempty st cur u G Mu) as [Nm Le]. destruct X as [X|X]; [contradiction|lia]. }
    assert (Q : npb st cur = true \/ kernel_ok st cur).
    { destruct (ran cur); [destruct S as [|[K _]]; auto|]. destruct S as [|[K|[Nm D]]]; auto.
      exfalso. destruct X as [X|X]; [contradiction|lia]. }
    destruct Q; [left; auto|right; auto]. }
  destruct (Z.eqb_spec (min0 st cur) 0) as [Z0|Nm].
  { inversion E; subst. apply Exit. auto. }
  destruct (Z.gtb_spec (t_target (tm st (min0 st cur))) (nows cur)) as [Gt|Le].
  { inversion E; subst. apply Exit. right. lia. }
  destruct (run_step_S ran st cur (nows cur) G S Nm) as [G1 S1].
  destruct (run_step st cur (nows cur) (min0 st cur)) as [st1 e1]. cbn [fst] in *. eapply IH; eauto.
Qed.

(* ---- the programming phase of a pass *)
Definition Fin (st : state) (i : Z) : Prop := npb st i = false /\ kernel_ok st i /\ Fix st i.

Lemma status_same st st' j :
  s_timers st' = s_timers st -> min0 st' j = min0 st j -> npb st' j = npb st j ->
  s_harmed st' j = s_harmed st j -> s_ktimer st' j = s_ktimer st j ->
  (Ranp st j -> Ranp st' j) /\ (L0 st j -> L0 st' j) /\ (Fin st j -> Fin st' j).
Proof.
  intros Et Em En Eh Ek.
  assert (Tm : forall u, tm st' u = tm st u) by (intros u; unfold tm; rewrite Et; reflexivity).
  assert (K : kernel_ok st j -> kernel_ok st' j).
  { unfold kernel_ok. rewrite Em, Eh, Ek, Tm. auto. }
  assert (Fx : Fix st j -> Fix st' j).
  { intros Fx u Mu. rewrite Tm. apply Fx. unfold member in *. rewrite Tm in Mu. exact Mu. }
  assert (D : due st j -> due st' j).
  { unfold due. rewrite Em, Tm. auto. }
  unfold Ranp, L0, Fin. rewrite En. tauto.
Qed.

Lemma program_if_needed_facts st i :
  GInv st -> 0 <= nows i < T63 ->
  let st' := fst (program_if_needed st i (nows i)) in
  s_timers st' = s_timers st /\ (forall j, min0 st' j = min0 st j) /\
  (forall j, j <> i -> npb st' j = npb st j /\ s_harmed st' j = s_harmed st j /\ s_ktimer st' j = s_ktimer st j) /\
  (s_dirty st = true -> s_dirty st' = true) /\
  (Ranp st i -> L0 st' i /\ (Fin st' i \/ s_dirty st' = true)).
Proof.
  intros G Hn. unfold program_if_needed. fold (npb st i).
  destruct (npb st i) eqn:Np; cbn [fst].
  - (* programmed *)
    pose proof (program_min st i (nows i) Hn) as PM. cbv zeta in PM. fold (min0 st i) in PM.
    destruct PM as [Np' [Pfut [Pdue Pemp]]].
    assert (Str : s_timers (fst (program st i (nows i))) = s_timers st /\
                  (forall j, h_slot (s_heaps (fst (program st i (nows i))) j) = h_slot (s_heaps st j)) /\
                  (forall j, j <> i -> s_heaps (fst (program st i (nows i))) j = s_heaps st j /\
                                       s_harmed (fst (program st i (nows i))) j = s_harmed st j /\
                                       s_ktimer (fst (program st i (nows i))) j = s_ktimer st j) /\
                  (s_dirty st = true -> s_dirty (fst (program st i (nows i))) = true)).
    { unfold program. destruct (get_delay st i (nows i)) as [delay leeway].
      set (st1 := if delay =? 0 then set_dirty st true else st).
      assert (E1 : s_timers st1 = s_timers st /\ s_heaps st1 = s_heaps st /\ s_harmed st1 = s_harmed st /\
                   s_ktimer st1 = s_ktimer st /\ (s_dirty st = true -> s_dirty st1 = true)).
      { unfold st1. destruct (delay =? 0); simpl; auto. }
      destruct E1 as [T1 [H1 [A1 [K1 D1]]]].
      destruct ((delay =? 0) || (delay >=? INT64_MAX)); cbn [fst]; simpl; rewrite ?T1, ?H1, ?A1, ?K1;
        (split; [reflexivity|]); (split; [intros j; unfold updf; destruct (Z.eqb_spec j i) as [->|]; reflexivity|]);
        (split; [|exact D1]); intros j Nj; unfold updf; destruct (Z.eqb_spec j i); try contradiction; auto.
      destruct (s_harmed st i); unfold updf; destruct (Z.eqb_spec j i); try contradiction; auto. }
    destruct Str as [Et [Es [Eo Ed]]].
    set (st' := fst (program st i (nows i))) in *.
    split; [exact Et|]. split; [intros j; unfold min0; rewrite Es; reflexivity|]. split.
    { intros j Nj. destruct (Eo j Nj) as [Eh [Ea Ek]]. unfold npb. rewrite Eh. auto. }
    split; [exact Ed|].
    intros _. assert (Tm : forall u, tm st' u = tm st u) by (intros u; unfold tm; rewrite Et; reflexivity).
    assert (Em : min0 st' i = min0 st i) by (unfold min0; rewrite Es; reflexivity).
    assert (Mem : forall u, member st' i u <-> member st i u) by (intros u; unfold member; rewrite Tm; tauto).
    destruct (Z.eq_dec (min0 st i) 0) as [Z0|Nm].
    + (* empty heap *)
      assert (Fn : Fin st' i).
      { split; [exact Np'|]. split; [unfold kernel_ok; rewrite Em; intros X; contradiction|].
        intros u Mu. apply Mem in Mu. destruct (member_nonempty st i u G Mu) as [X _]. contradiction. }
      split; [right; left; apply Fn|left; exact Fn].
    + destruct (min0_member st i G Nm) as [_ [Am _]].
      pose proof (gi_tgt _ _ G _ Am) as Tg.
      destruct (Z.le_gt_cases (t_target (tm st (min0 st i))) (nows i)) as [Le|Gt].
      * destruct (Pdue Nm Le) as [Dy _]. split; [|right; exact Dy].
        right; right. unfold due. rewrite Em, Tm. auto.
      * destruct (Pfut Nm ltac:(lia)) as [Ha [Hk _]].
        assert (Fn : Fin st' i).
        { split; [exact Np'|]. split; [unfold kernel_ok; rewrite Em, Tm; auto|].
          intros u Mu. apply Mem in Mu. destruct (member_nonempty st i u G Mu) as [_ Le]. rewrite Tm. lia. }
        split; [right; left; apply Fn|left; exact Fn].
  - (* nothing to do *)
    split; [reflexivity|]. split; [reflexivity|]. split; [auto|]. split; [auto|].
    intros [X|[K Fx]]; [congruence|]. split; [right; left; exact K|left; split; auto].
Qed.

Lemma program_step st i :
  GInv st -> 0 <= nows i < T63 -> 0 <= i < 3 ->
  let st' := fst (program_if_needed st i (nows i)) in
  GInv st' /\ (s_dirty st = true -> s_dirty st' = true) /\
  (Ranp st i -> L0 st' i /\ (Fin st' i \/ s_dirty st' = true)) /\
  (forall j, j <> i -> (Ranp st j -> Ranp st' j) /\ (L0 st j -> L0 st' j) /\ (Fin st j -> Fin st' j)).
Proof.
  intros G Hn Hi. destruct (program_if_needed_facts st i G Hn) as [Et [Em [Eo [Ed Ea]]]].
  split; [apply (program_if_needed_G N); auto|]. split; [exact Ed|]. split; [exact Ea|].
  intros j Nj. destruct (Eo j Nj) as [En [Eh Ek]]. apply status_same; auto.
Qed.

Definition nows_ok : Prop := forall i, 0 <= i < 3 -> 0 <= nows i < T63.
Definition none : Z -> bool := fun _ => false.

(* one pass: run every heap, clear the dirty bits, program *)
Theorem drain_pass_S st st' ev calls :
  nows_ok -> GInv st -> (forall j, 0 <= j < 3 -> L0 st j) ->
  drain_pass st nows = (st', ev, calls, true) ->
  GInv st' /\ (forall j, 0 <= j < 3 -> L0 st' j) /\
  (s_dirty st' = false -> forall j, 0 <= j < 3 -> Fin st' j).
Proof.
  intros Hn G L E. unfold drain_pass, run_all, program_all in E.
  assert (S0 : Stat none st) by (intros j Hj; apply L; auto).
  destruct (timers_run st 0 (nows 0)) as [[s0 e0] f0] eqn:R0.
  destruct (timers_run s0 1 (nows 1)) as [[s1 e1] f1] eqn:R1.
  destruct (timers_run s1 2 (nows 2)) as [[s2 e2] f2] eqn:R2.
  destruct (program_if_needed (set_dirty s2 false) 0 (nows 0)) as [p0 c0] eqn:P0.
  destruct (program_if_needed p0 1 (nows 1)) as [p1 c1] eqn:P1.
  destruct (program_if_needed p1 2 (nows 2)) as [p2 c2] eqn:P2.
  inversion E; subst st' ev calls. clear E.
  match goal with H : _ && _ && _ = true |- _ => apply andb_true_iff in H; destruct H as [H01 ->]; apply andb_true_iff in H01; destruct H01 as [-> ->] end.
  unfold timers_run in R0, R1, R2.
  destruct (run_loop_S none 0 _ _ _ _ _ G S0 R0) as [G0 T0].
  destruct (run_loop_S _ 1 _ _ _ _ _ G0 T0 R1) as [G1 T1].
  destruct (run_loop_S _ 2 _ _ _ _ _ G1 T1 R2) as [G2 T2].
  assert (A2 : forall j, 0 <= j < 3 -> Ranp (set_dirty s2 false) j).
  { intros j Hj. specialize (T2 j Hj). unfold mark, none in T2.
    assert (X : Ranp s2 j).
    { destruct (Z.eqb_spec j 2); auto. destruct (Z.eqb_spec j 1); auto. destruct (Z.eqb_spec j 0); auto. lia. }
    exact X. }
  pose proof (set_dirty_G N s2 false G2) as G3.
  destruct (program_step (set_dirty s2 false) 0 G3 (Hn 0 ltac:(lia)) ltac:(lia)) as [Gp0 [D0 [Q0 O0]]].
  rewrite P0 in *. cbn [fst] in *.
  destruct (program_step p0 1 Gp0 (Hn 1 ltac:(lia)) ltac:(lia)) as [Gp1 [D1 [Q1 O1]]].
  rewrite P1 in *. cbn [fst] in *.
  destruct (program_step p1 2 Gp1 (Hn 2 ltac:(lia)) ltac:(lia)) as [Gp2 [D2 [Q2 O2]]].
  rewrite P2 in *. cbn [fst] in *.
  destruct (Q0 (A2 0 ltac:(lia))) as [L00 F00].
  destruct (Q1 (proj1 (O0 1 ltac:(lia)) (A2 1 ltac:(lia)))) as [L11 F11].
  destruct (Q2 (proj1 (O1 2 ltac:(lia)) (proj1 (O0 2 ltac:(lia)) (A2 2 ltac:(lia))))) as [L22 F22].
  split; [exact Gp2|]. split.
  - intros j Hj. assert (j = 0 \/ j = 1 \/ j = 2) as [->|[->| ->]] by lia.
    + apply (proj1 (proj2 (O2 0 ltac:(lia)))). apply (proj1 (proj2 (O1 0 ltac:(lia)))). exact L00.
    + apply (proj1 (proj2 (O2 1 ltac:(lia)))). exact L11.
    + exact L22.
  - intros Dn j Hj.
    assert (Dp1 : s_dirty p1 = false) by (destruct (s_dirty p1) eqn:X; auto; rewrite D2 in Dn; auto).
    assert (Dp0 : s_dirty p0 = false) by (destruct (s_dirty p0) eqn:X; auto; rewrite D1 in Dp1; auto).
    assert (j = 0 \/ j = 1 \/ j = 2) as [->|[->| ->]] by lia.
    + destruct F00 as [F|X]; [|congruence]. apply (proj2 (proj2 (O2 0 ltac:(lia)))). apply (proj2 (proj2 (O1 0 ltac:(lia)))). exact F.
    + destruct F11 as [F|X]; [|congruence]. apply (proj2 (proj2 (O2 1 ltac:(lia)))). exact F.
    + destruct F22 as [F|X]; [exact F|congruence].
Qed.

(* the manager's whole timer pass: when it returns (the loop `while (dirty)` is left), for every clock: needs_program is
   clear, the kernel timer is armed at exactly the minimum target of the armed timers of that clock, and no armed timer is
   due at the cached clock reading *)
Theorem drain_S : forall fuel st ev calls st' ev' calls',
  nows_ok -> GInv st -> (forall j, 0 <= j < 3 -> L0 st j) ->
  drain fuel st nows ev calls = (st', ev', calls', true) ->
  GInv st' /\ s_dirty st' = false /\ forall j, 0 <= j < 3 -> Fin st' j.
Proof.
  induction fuel as [|fuel IH]; intros st ev calls st' ev' calls' Hn G L E; cbn [drain] in E; [inversion E|].
  destruct (drain_pass st nows) as [[[s1 e1] c1] fin] eqn:P.
  destruct fin; cbn [negb] in E; [|inversion E].
  destruct (drain_pass_S st s1 e1 c1 Hn G L P) as [G1 [L1 F1]].
  destruct (s_dirty s1) eqn:D.
  - eapply IH; eauto.
  - inversion E; subst. auto.
Qed.
End Prog.

(* ================================================================================================ *)
(* between the manager's passes: every external operation keeps "needs_program or kernel timer = minimum" *)
Section Sys2.
Variable N : Z.
Hypothesis HN : 0 <= N /\ 2 * N + 2 <= CAPMAX.
Notation GInv := (GInv N).

Definition DInv (st : state) : Prop := forall i, 0 <= i < 3 -> npb st i = true -> s_dirty st = true.
Definition SInv (st : state) : Prop := GInv st /\ QInv st /\ DInv st.

Lemma QInv_set_notarmed st t v :
  GInv st -> t_armed (tm st t) = false -> QInv st -> QInv (set_timer st t v).
Proof.
  intros G A Q j Hj. specialize (Q j Hj).
  assert (Mm : min0 st j <> 0 -> tm (set_timer st t v) (min0 st j) = tm st (min0 st j)).
  { intros Nm. apply tm_set_timer_neq. intros E. destruct (min0_member N st j G Nm) as [_ [X _]]. congruence. }
  unfold kernel_ok in *. change (min0 (set_timer st t v) j) with (min0 st j). change (npb (set_timer st t v) j) with (npb st j).
  change (s_harmed (set_timer st t v)) with (s_harmed st). change (s_ktimer (set_timer st t v)) with (s_ktimer st).
  destruct Q as [Q|Q]; [left; auto|right]. intros Nm. rewrite Mm by auto. auto.
Qed.

Lemma dirty_arm st t i : s_dirty (arm st t i) = true.
Proof. unfold arm. destruct (t_armed (tm st t)); reflexivity. Qed.
Lemma dirty_disarm st t : s_dirty (disarm st t) = true.
Proof. reflexivity. Qed.
Lemma DInv_dirty st : s_dirty st = true -> DInv st.
Proof. intros D i _ _. exact D. Qed.
Lemma DInv_same st st' : (forall i, npb st' i = npb st i) -> s_dirty st' = s_dirty st -> DInv st -> DInv st'.
Proof. intros En Ed D i Hi Np. rewrite Ed. apply (D i Hi). rewrite <- En. exact Np. Qed.

Lemma resume_dirty st t :
  s_dirty (resume st t) = true \/ resume st t = st.
Proof.
  unfold resume. destruct (t_armed (tm st t) && _); destruct (needs_rearm (tm st t));
    rewrite ?dirty_arm, ?dirty_disarm; auto.
Qed.

Lemma resume_Q st st1 t :
  GInv st -> same_but st st1 t -> t_armed (tm st t) = true -> Z.land (t_pending (tm st1 t)) 1 = 0 ->
  QInv st -> QInv (resume st1 t) /\ s_dirty (resume st1 t) = true.
Proof.
  intros G SB A Pm Q. pose proof (gi_ids _ _ G t A) as Ht.
  unfold resume. set (x1 := tm st1 t). set (tidx := unote_idx x1).
  assert (A1 : t_armed x1 = true) by (unfold x1; rewrite (sb_armed _ _ _ SB); auto).
  assert (I1 : t_ident x1 = t_ident (tm st t)) by (unfold x1; apply SB).
  rewrite A1. cbn [andb].
  destruct (needs_rearm x1) eqn:W; cbn [negb orb].
  - pose proof (needs_rearm_tgt _ W) as Tg.
    destruct (Z.eqb_spec (t_ident x1) tidx) as [E|E]; cbn [negb].
    + assert (Hid : t_armed (tm st t) = true -> t_ident (tm st t) = tidx) by (intros _; congruence).
      split; [|apply dirty_arm]. apply (QInv_frame N st _ t tidx G (arm_frame N HN st st1 t tidx G SB Ht Hid) Q).
    + pose proof (disarm_G' N HN st st1 t G SB A) as G2.
      pose proof (QInv_frame N st _ t _ G (disarm_frame N HN st st1 t G SB A) Q) as Q2.
      set (st2 := disarm st1 t) in *.
      assert (A2 : t_armed (tm st2 t) = false) by (unfold st2; rewrite disarm_tm, Z.eqb_refl; reflexivity).
      assert (Hid : t_armed (tm st2 t) = true -> t_ident (tm st2 t) = tidx) by (rewrite A2; discriminate).
      split; [|apply dirty_arm].
      apply (QInv_frame N st2 _ t tidx G2 (arm_frame N HN st2 st2 t tidx G2 (same_but_refl _ _) Ht Hid) Q2).
  - split; [|apply dirty_disarm]. apply (QInv_frame N st _ t _ G (disarm_frame N HN st st1 t G SB A) Q).
Qed.

Lemma resume_Q0 st t :
  GInv st -> t_armed (tm st t) = false -> 1 <= t <= N -> QInv st -> DInv st ->
  QInv (resume st t) /\ DInv (resume st t).
Proof.
  intros G A Ht Q D. unfold resume. rewrite A. cbn [andb].
  destruct (needs_rearm (tm st t)); [|auto].
  assert (Hid : t_armed (tm st t) = true -> t_ident (tm st t) = unote_idx (tm st t)) by (rewrite A; discriminate).
  split; [|apply DInv_dirty; apply dirty_arm].
  apply (QInv_frame N st _ t _ G (arm_frame N HN st st t _ G (same_but_refl _ _) Ht Hid) Q).
Qed.

Lemma configure_Q st t :
  GInv st -> 1 <= t <= N -> QInv st -> DInv st -> QInv (configure st t) /\ DInv (configure st t).
Proof.
  intros G Ht Q D. unfold configure. destruct (t_cfg (tm st t)) as [[[[c tg] dl] itv]|]; auto.
  set (x1 := with_pending _ 0).
  assert (Ea : t_armed x1 = t_armed (tm st t) /\ t_ident x1 = t_ident (tm st t) /\ t_pending x1 = 0).
  { unfold x1. destruct (negb (c =? t_clock (tm st t))); simpl; auto. }
  destruct Ea as [Ea [Ei Ep]].
  destruct (t_armed (tm st t)) eqn:A; rewrite Ea.
  - destruct (resume_Q st (set_timer st t x1) t G (same_but_set st t x1 ltac:(congruence) Ei) A) as [Q1 D1]; auto.
    + rewrite tm_set_timer_eq, Ep. reflexivity.
    + split; auto. apply DInv_dirty; auto.
  - split; [apply QInv_set_notarmed; auto|]. eapply DInv_same; eauto; reflexivity.
Qed.

Lemma unregister_Q st t :
  GInv st -> 1 <= t <= N -> QInv st -> DInv st -> QInv (unregister st t) /\ DInv (unregister st t).
Proof.
  intros G Ht Q D. unfold unregister. destruct (t_armed (tm st t)) eqn:A.
  - pose proof (disarm_G N st t G A) as G1.
    pose proof (QInv_frame N st _ t _ G (disarm_frame N HN st st t G (same_but_refl _ _) A) Q) as Q1.
    assert (A1 : t_armed (tm (disarm st t) t) = false) by (rewrite disarm_tm, Z.eqb_refl; reflexivity).
    split; [apply QInv_set_notarmed; auto|]. apply DInv_dirty. reflexivity.
  - split; [apply QInv_set_notarmed; auto|]. eapply DInv_same; eauto; reflexivity.
Qed.

Lemma latch_Q st t now :
  GInv st -> 1 <= t <= N -> QInv st -> DInv st -> QInv (fst (latch st t now)) /\ DInv (fst (latch st t now)).
Proof.
  intros G Ht Q D. unfold latch. set (x := tm st t).
  destruct (t_armed x) eqn:A.
  - pose proof (gi_marker _ _ G t A) as M. fold x in M. unfold DISPATCH_TIMER_DISARMED_MARKER. rewrite M.
    cbn [nz Z.eqb negb fst]. split; [apply QInv_set; auto|]. eapply DInv_same; eauto; reflexivity.
  - destruct (nz _); [destruct (_ && _); [destruct (compute_missed _ _ _ _ _) as [[cnt tg] dl]|]|];
      cbn [fst]; (split; [apply QInv_set_notarmed; auto|eapply DInv_same; eauto; reflexivity]).
Qed.

Lemma kernel_expired_S st i : SInv st -> SInv (kernel_expired st i).
Proof.
  intros [G [Q D]]. split; [apply (kernel_expired_G N); auto|]. split.
  - intros j Hj. specialize (Q j Hj). unfold kernel_expired, npb, kernel_ok, min0 in *; simpl. unfold updf.
    destruct (Z.eqb_spec j i) as [->|Nj]; [left; reflexivity|]. exact Q.
  - apply DInv_dirty. reflexivity.
Qed.

(* operations issued between the manager's passes (run and program only happen inside a pass) *)
Definition external (o : top) : Prop :=
  match o with TRun _ _ | TProg _ _ | TDrain _ _ _ | TPend _ _ => False | _ => True end.

Theorem tstep_S n st o : SInv st -> guard N st o -> external o -> SInv (fst (tstep n st o)).
Proof.
  intros [G [Q D]] Gd Ex. split; [apply (tstep_G N HN); auto|].
  destruct o; cbn [tstep guard external fst] in *; try contradiction.
  - (* TNew *)
    destruct (t_armed (tm st t)) eqn:A.
    + destruct (unregister_Q st t G Gd Q D) as [Q1 D1].
      assert (A1 : t_armed (tm (unregister st t) t) = false).
      { unfold unregister. rewrite A, tm_set_timer_eq. cbn [t_armed with_ident]. rewrite disarm_tm, Z.eqb_refl. reflexivity. }
      split; [apply QInv_set_notarmed; auto; apply (unregister_G N); auto|]. eapply DInv_same; eauto; reflexivity.
    + split; [apply QInv_set_notarmed; auto|]. eapply DInv_same; eauto; reflexivity.
  - destruct Gd as [Ht A]. split; [apply QInv_set_notarmed; auto|]. eapply DInv_same; eauto; reflexivity.
  - unfold set_cfg. split; [apply QInv_set; auto|]. eapply DInv_same; eauto; reflexivity.
  - unfold register. destruct (t_cfg (tm st t)); auto. apply configure_Q; auto.
  - apply configure_Q; auto.
  - destruct Gd as [Ht P]. destruct (t_armed (tm st t)) eqn:A.
    + destruct (resume_Q st st t G (same_but_refl _ _) A P Q) as [Q1 D1]. split; auto. apply DInv_dirty; auto.
    + apply resume_Q0; auto.
  - apply unregister_Q; auto.
  - split; [apply QInv_set; auto|]. eapply DInv_same; eauto; reflexivity.
  - destruct (latch_Q st t now G Gd Q D) as [Q1 D1]. destruct (latch st t now) as [st' d]. auto.
  - auto.
Qed.

(* the manager's pass as a step of the system *)
Theorem drain_Sys fuel st nows st' ev calls :
  (forall i, 0 <= i < 3 -> 0 <= nows i < T63) -> SInv st ->
  drain fuel st nows [] [] = (st', ev, calls, true) ->
  SInv st' /\ s_dirty st' = false /\
  forall i, 0 <= i < 3 ->
    npb st' i = false /\ kernel_ok st' i /\ forall t, member st' i t -> nows i < t_target (tm st' t).
Proof.
  intros Hn [G [Q D]] E.
  assert (L : forall j, 0 <= j < 3 -> L0 nows st j).
  { intros j Hj. destruct (Q j Hj); [left; auto|right; left; auto]. }
  destruct (drain_S N HN nows fuel st [] [] st' ev calls Hn G L E) as [G' [Dy Fn]].
  split; [|split; [exact Dy|]].
  - split; [exact G'|]. split.
    + intros j Hj. destruct (Fn j Hj) as [_ [K _]]. right; exact K.
    + intros j Hj Np. destruct (Fn j Hj) as [X _]. congruence.
  - intros i Hi. destruct (Fn i Hi) as [A [B C]]. auto.
Qed.

(* always fires, as the invariant it is: in every state of the system an armed timer is covered either by a pending
   manager pass (dirty bits set: the manager runs _dispatch_event_loop_drain_timers before it sleeps) or by the kernel
   timer of its clock, armed at an expiry that is not later than the timer's target *)
Theorem always_fires st i t :
  SInv st -> 0 <= i < 3 -> member st i t ->
  s_dirty st = true \/ (s_harmed st i = true /\ s_ktimer st i <= t_target (tm st t)).
Proof.
  intros [G [Q D]] Hi M. destruct (Q i Hi) as [Np|K]; [left; apply (D i Hi Np)|right].
  destruct (member_nonempty N st i t G M) as [Nm Le]. destruct (K Nm) as [A E]. split; auto. lia.
Qed.

Lemma SInv_init : SInv init_state.
Proof.
  split; [apply (GInv_init N HN)|]. split.
  - intros j Hj. right. intros X. exfalso. apply X. reflexivity.
  - intros j Hj X. discriminate.
Qed.
End Sys2.

(* ================================================================================================ *)
(* the system as a whole: client / source-side operations, kernel timer expiry, manager passes, in any order *)
Inductive sop :=
| SOp (o : top)                              (* one operation of the timer machinery, issued under its caller's guard *)
| SDrain (fuel : nat) (nows : Z -> Z)        (* the manager runs _dispatch_event_loop_drain_timers with these clock readings *)
| SExpire (i : Z).                           (* the kernel timer of clock i expires (or is reported spuriously) *)

Definition sstep (n : Z) (st : state) (s : sop) : state :=
  match s with
  | SOp o => fst (tstep n st o)
  | SDrain fuel nows => fst (fst (fst (drain fuel st nows [] [])))
  | SExpire i => kernel_expired st i
  end.
Definition sguard (N n : Z) (st : state) (s : sop) : Prop :=
  match s with
  | SOp o => guard N st o /\ external o
  | SDrain fuel nows => (forall i, 0 <= i < 3 -> 0 <= nows i < T63) /\ snd (drain fuel st nows [] []) = true
  | SExpire i => True
  end.
Fixpoint svalid (N n : Z) (st : state) (l : list sop) : Prop :=
  match l with [] => True | s :: r => sguard N n st s /\ svalid N n (sstep n st s) r end.

Theorem SInv_step N n st s :
  0 <= N /\ 2 * N + 2 <= CAPMAX -> SInv N st -> sguard N n st s -> SInv N (sstep n st s).
Proof.
  intros HN S Gd. destruct s as [o|fuel nows|i]; cbn [sstep sguard] in *.
  - destruct Gd. apply tstep_S; auto.
  - destruct Gd as [Hn Fin]. destruct (drain fuel st nows [] []) as [[[st' ev] calls] fin] eqn:E. cbn [fst snd] in *. subst fin.
    destruct (drain_Sys N HN fuel st nows st' ev calls Hn S E) as [S' _]. exact S'.
  - apply kernel_expired_S; auto.
Qed.

Theorem SInv_reachable N n : 0 <= N /\ 2 * N + 2 <= CAPMAX ->
  forall l st, SInv N st -> svalid N n st l -> SInv N (fold_left (sstep n) l st).
Proof.
  intros HN. induction l as [|s r IH]; intros st S V; cbn [fold_left svalid] in *; auto.
  destruct V as [Gd V]. apply IH; auto. apply SInv_step; auto.
Qed.

(* always fires: in EVERY state the system can reach from boot, whatever the population and the history of set_timer /
   suspend / resume / cancel / latch / expiry / manager passes, every armed timer (uncancelled, not held back by a
   suspended source: those are not armed) is covered by a pending manager pass or by the kernel timer of its clock armed
   at or before the timer's target *)
Theorem always_fires_reachable N n l t i :
  0 <= N /\ 2 * N + 2 <= CAPMAX -> svalid N n init_state l -> 0 <= i < 3 ->
  let st := fold_left (sstep n) l init_state in
  member st i t ->
  s_dirty st = true \/ (s_harmed st i = true /\ s_ktimer st i <= t_target (tm st t)).
Proof.
  intros HN V Hi st M. apply (always_fires N st i t); auto.
  apply SInv_reachable; auto. apply SInv_init; auto.
Qed.

(* ================================================================================================ *)
(* count bound over several fires: the sum of what dispatch_source_get_data reported so far never exceeds the number
   of interval boundaries start + k * interval that have passed *)
Definition vals := (Z * Z * Z * Z)%type.       (* target deadline interval ds_pending_data *)
Definition vals_of (x : timer) : vals := (t_target x, t_deadline x, t_interval x, t_pending x).

(* what _dispatch_timers_run does to the values of a (non-AFTER, not reconfigured) timer it fires at `now`;
   rearm = whether the timer stays armed (else the DISARMED marker is added) *)
Definition fire_v (v : vals) (now : Z) (rearm : bool) : vals :=
  let '(tg, dl, itv, p) := v in
  if nz p then (tg, dl, itv, Z.lor p DISPATCH_TIMER_DISARMED_MARKER)
  else
    let '(cnt, tg', dl') := compute_missed tg dl itv now 0 in
    let pending := u64 (Z.shiftl cnt 1) in
    (tg', dl', itv, if rearm then pending else Z.lor pending DISPATCH_TIMER_DISARMED_MARKER).
(* what the latch does: new values and the count handed to the handler *)
Definition latch_v (v : vals) (now : Z) : vals * Z :=
  let '(tg, dl, itv, p) := v in
  let data := Z.shiftr p 1 in
  if nz (Z.land p DISPATCH_TIMER_DISARMED_MARKER) then
    if (tg <? INT64_MAX) && (now >=? tg) then
      let '(cnt, tg', dl') := compute_missed tg dl itv now data in ((tg', dl', itv, 0), cnt)
    else ((tg, dl, itv, 0), data)
  else ((tg, dl, itv, 0), data).

Lemma latch_vals st t now :
  vals_of (tm (fst (latch st t now)) t) = fst (latch_v (vals_of (tm st t)) now) /\
  snd (latch st t now) = snd (latch_v (vals_of (tm st t)) now).
Proof.
  unfold latch, latch_v, vals_of. set (x := tm st t). cbn [t_target t_deadline t_interval t_pending with_pending].
  destruct (nz _); [destruct (_ && _); [destruct (compute_missed _ _ _ _ _) as [[cnt tg] dl]|]|];
    cbn [fst snd]; rewrite tm_set_timer_eq; simpl; auto.
Qed.

Lemma run_step_vals st tidx now dr :
  t_after (tm st dr) = false -> t_cfg (tm st dr) = None ->
  exists b, vals_of (tm (fst (run_step st tidx now dr)) dr) = fire_v (vals_of (tm st dr)) now b.
Proof.
  intros Af Cf. unfold run_step, fire_v, vals_of. rewrite Af, Cf.
  destruct (nz (t_pending (tm st dr))).
  - exists true. cbn [fst]. rewrite tm_set_timer_eq. destruct (disarm_vals st dr dr) as (_ & _ & Et & Ed & Ei & _).
    cbn [t_target t_deadline t_interval t_pending with_pending]. rewrite Et, Ed, Ei. reflexivity.
  - destruct (compute_missed _ _ _ _ _) as [[cnt tg] dl].
    set (x1 := with_values (tm st dr) tg dl (t_interval (tm st dr))).
    rewrite tm_set_timer_eq.
    destruct (needs_rearm x1); [exists true|exists false]; cbn [fst]; rewrite tm_set_timer_eq;
      cbn [t_target t_deadline t_interval t_pending with_pending].
    + destruct (arm_vals (set_timer st dr x1) dr tidx dr) as (_ & _ & Et & Ed & Ei & _).
      rewrite Et, Ed, Ei, tm_set_timer_eq. reflexivity.
    + destruct (disarm_vals (set_timer st dr x1) dr dr) as (_ & _ & Et & Ed & Ei & _).
      rewrite Et, Ed, Ei, tm_set_timer_eq. reflexivity.
Qed.

Inductive tev := EFire (now : Z) (rearm : bool) | ELatch (now : Z).
Definition tev_now (e : tev) : Z := match e with EFire n _ => n | ELatch n => n end.
(* the run fires a timer only when its target has been reached (C11_never_early) *)
Definition tev_ok (v : vals) (e : tev) : Prop :=
  0 <= tev_now e < T63 /\ match e with EFire n _ => fst (fst (fst v)) <= n | ELatch _ => True end.
Definition play1 (s : vals * Z * Z) (e : tev) : vals * Z * Z :=     (* values, total reported, latest clock reading *)
  let '(v, total, m) := s in
  match e with
  | EFire n b => (fire_v v n b, total, Z.max m n)
  | ELatch n => let '(v', d) := latch_v v n in (v', total + d, Z.max m n)
  end.
Fixpoint tevs_ok (s : vals * Z * Z) (l : list tev) : Prop :=
  match l with [] => True | e :: r => tev_ok (fst (fst s)) e /\ tevs_ok (play1 s e) r end.

Section Count.
Local Ltac Zify.zify_post_hook ::= Z.div_mod_to_equations.
Variables start itv : Z.
Hypothesis Hstart : 1 <= start.
Hypothesis Hitv : 1 <= itv < INT64_MAX.

Definition cnt_inv (s : vals * Z * Z) : Prop :=
  let '(tg, dl, i, p, total, m) := s in
  i = itv /\ 0 <= dl < T64 /\ 0 <= p < T64 /\ 0 <= total /\ m < T63 /\
  tg = start + (total + Z.shiftr p 1) * itv /\
  (total + Z.shiftr p 1 = 0 \/ tg - itv <= m).

Lemma shiftr1 p : 0 <= p -> Z.shiftr p 1 = p / 2.
Proof. intros. rewrite Z.shiftr_div_pow2 by lia. reflexivity. Qed.
Lemma lor1 p : 0 <= p -> Z.lor p 1 = p + 1 - p mod 2.
Proof.
  intros Hp. assert (R : p mod 2 = 0 \/ p mod 2 = 1) by lia. change 1 with (2 ^ 0) at 1.
  destruct R as [R|R]; rewrite R.
  - rewrite lor_bit_clear; try lia; change (2 ^ 0) with 1; rewrite ?Z.div_1_r; lia.
  - rewrite lor_bit_set; try lia; change (2 ^ 0) with 1; rewrite ?Z.div_1_r; lia.
Qed.

Lemma boundaries_bound tg m K : tg = start + K * itv -> 0 <= K -> (K = 0 \/ tg - itv <= m) ->
  K <= Z.max 0 ((m - start) / itv + 1).
Proof.
  intros E HK [->|L]; [lia|].
  destruct (Z.eq_dec K 0) as [->|NK]; [lia|].
  assert (H : (K - 1) * itv <= m - start) by lia.
  assert (K - 1 <= (m - start) / itv) by (apply Z.div_le_lower_bound; lia).
  lia.
Qed.

Lemma div_le_self a b : 0 <= a -> 1 <= b -> a / b <= a.
Proof. intros. apply Z.div_le_upper_bound; nia. Qed.

Lemma pending_of_count k : 0 <= k < T63 ->
  u64 (Z.shiftl k 1) = 2 * k /\ Z.shiftr (2 * k) 1 = k /\ Z.shiftr (Z.lor (2 * k) 1) 1 = k /\ Z.lor (2 * k) 1 = 2 * k + 1.
Proof.
  unfold T63. intros Hk. rewrite Z.shiftl_mul_pow2 by lia. change (2 ^ 1) with 2.
  rewrite u64_id by lia. rewrite lor1 by lia. rewrite !shiftr1 by lia. repeat split; lia.
Qed.

Lemma play1_inv s e : cnt_inv s -> tev_ok (fst (fst s)) e -> cnt_inv (play1 s e).
Proof.
  destruct s as [[[[[tg dl] i] p] total] m]. unfold cnt_inv, tev_ok. cbn [fst].
  intros (-> & Hdl & Hp & Ht & Hm & Etg & Hd) [Hn He].
  unfold T63, T64, INT64_MAX in *.
  set (c := Z.shiftr p 1) in *.
  assert (Hc : 0 <= c /\ 2 * c <= p) by (unfold c; rewrite shiftr1 by lia; lia).
  assert (HK : 0 <= (total + c) * itv) by nia.
  assert (Tg1 : 1 <= tg) by lia.
  destruct e as [n b|n]; cbn [tev_now play1 fire_v latch_v] in *; unfold DISPATCH_TIMER_DISARMED_MARKER, INT64_MAX.
  - (* fire *)
    unfold nz. destruct (Z.eqb_spec p 0) as [P0|P0]; cbn [negb].
    + (* no unconsumed data: compute the missed intervals *)
      assert (C0 : c = 0) by (unfold c; rewrite P0; reflexivity).
      pose proof (div_le_self (n - tg) itv ltac:(lia) ltac:(lia)) as DL.
      pose proof (missed_count tg dl itv n 0 ltac:(lia) ltac:(unfold T63; lia) ltac:(unfold T64; lia)
                    ltac:(unfold T64; lia) ltac:(lia) ltac:(unfold LONG_MAX; lia)) as MC.
      destruct (compute_missed tg dl itv n 0) as [[r tg'] dl']. cbv zeta in MC.
      destruct MC as [Er [_ [B _]]]. destruct (B ltac:(unfold INT64_MAX; lia)) as [Etg' [Lt [Ge [_ Edl]]]].
      set (k := (n - tg) / itv + 1) in *. assert (Hk : 1 <= k <= n) by (unfold k; pose proof (Z.div_pos (n - tg) itv); lia).
      assert (r = k) by lia. subst r.
      destruct (pending_of_count k ltac:(unfold T63; lia)) as [E1 [E2 [E3 E4]]].
      assert (Ek : (total + k) * itv = (total + c) * itv + k * itv) by (rewrite C0; ring).
      assert (Dl' : 0 <= dl' < 18446744073709551616) by (rewrite Edl; apply u64_range).
      rewrite E1. destruct b.
      * rewrite E2. repeat split; try lia.
      * rewrite E3, E4. repeat split; try lia.
    + (* the handler has not consumed the previous data: marker only *)
      rewrite lor1 by lia.
      assert (Z.shiftr (p + 1 - p mod 2) 1 = c) by (unfold c; rewrite !shiftr1 by lia; lia).
      rewrite H. repeat split; try lia.
  - (* latch *)
    rewrite land1_mod.
    assert (Keep : cnt_inv (tg, dl, itv, 0, total + c, Z.max m n)).
    { unfold cnt_inv, T63, T64. change (Z.shiftr 0 1) with 0. rewrite Z.add_0_r. repeat split; try lia. }
    unfold nz. destruct (Z.eqb_spec (p mod 2) 0) as [Ev|Od]; cbn [negb]; [exact Keep|].
    destruct (Z.ltb_spec tg 9223372036854775807) as [Lt|Ge]; cbn [andb]; [|exact Keep].
    destruct (Z.geb_spec n tg) as [Due|Nd]; [|exact Keep].
    assert (Cb : c * itv <= tg - start) by nia.
    assert (Cc : c <= tg - 1) by nia.
    pose proof (div_le_self (n - tg) itv ltac:(lia) ltac:(lia)) as DL.
    pose proof (missed_count tg dl itv n c ltac:(lia) ltac:(unfold T63; lia) ltac:(unfold T64; lia)
                  ltac:(unfold T64; lia) ltac:(lia) ltac:(unfold LONG_MAX; lia)) as MC.
    fold c. destruct (compute_missed tg dl itv n c) as [[r tg'] dl']. cbv zeta in MC.
    destruct MC as [Er [_ [B _]]]. destruct (B ltac:(unfold INT64_MAX; lia)) as [Etg' [Ltn [Gen [_ Edl]]]].
    set (k := (n - tg) / itv + 1) in *. assert (Hk : 1 <= k) by (unfold k; pose proof (Z.div_pos (n - tg) itv); lia).
    assert (Ek : (total + r) * itv = (total + c) * itv + k * itv) by (replace r with (c + k) by lia; ring).
    assert (Dl' : 0 <= dl' < 18446744073709551616) by (rewrite Edl; apply u64_range).
    unfold cnt_inv, T63, T64. change (Z.shiftr 0 1) with 0. rewrite Z.add_0_r. repeat split; try lia.
Qed.

Fixpoint play (s : vals * Z * Z) (l : list tev) : vals * Z * Z :=
  match l with [] => s | e :: r => play (play1 s e) r end.

Lemma play_inv : forall l s, cnt_inv s -> tevs_ok s l -> cnt_inv (play s l).
Proof.
  induction l as [|e r IH]; intros s I V; cbn [play tevs_ok] in *; auto.
  destruct V as [V1 V2]. apply IH; auto. apply play1_inv; auto.
Qed.

(* for EVERY history of fires and handler invocations of a repeating timer configured with (start, interval), with
   arbitrary clock readings below 2^63, handler invocations lagging arbitrarily behind the fires: the sum of the counts
   handed to the handler so far is at most the number of boundaries start + k * interval <= the latest clock reading *)
Theorem count_bound_multi dl0 l :
  0 <= dl0 < T64 -> tevs_ok (start, dl0, itv, 0, 0, 0) l ->
  let '(_, total, m) := play (start, dl0, itv, 0, 0, 0) l in
  0 <= total <= Z.max 0 ((m - start) / itv + 1).
Proof.
  intros Hd V.
  assert (I0 : cnt_inv (start, dl0, itv, 0, 0, 0)).
  { unfold cnt_inv, T63, T64 in *. change (Z.shiftr 0 1) with 0. repeat split; try lia. }
  pose proof (play_inv l _ I0 V) as I.
  destruct (play (start, dl0, itv, 0, 0, 0) l) as [[[[[tg dl] i] p] total] m].
  destruct I as (-> & Hdl & Hp & Ht & Hm & Etg & Hd').
  assert (Hc : 0 <= Z.shiftr p 1) by (apply Z.shiftr_nonneg; lia).
  pose proof (boundaries_bound tg m (total + Z.shiftr p 1) Etg ltac:(lia) Hd'). lia.
Qed.
End Count.
