(* HLane_proofs.v — invariants of the target-queue hierarchy model (Model/HLane.v): any forest of serial lanes, any
   number of submitters and workers, any interleaving.  The invariant and the frame lemmas are in HLane_inv.v, the
   word-level facts in Lane_fields.v / HLane_fields.v (specifications of the generated bodies). *)
From Coq Require Import ZArith Bool List Lia FinFun Permutation.
From Verif Require Import Word Bits Fields DqFields Conc Gen_consts Gen_dqstate Lane_fields HLane_fields HLane HLane_inv.
Import ListNotations.
Local Open Scope Z_scope.

Ltac sproj := cbn [st lst rootq stk nextid started token wakers set_st set_lst set_rootq set_stk set_nextid set_started set_token set_wakers].
Ltac dG G := destruct G as [Genc Gwf Gtr Gem Gpb Ghi Grole Genq Grootq Gwhere Glock Gnostrand Gdirty Gnodup Gnextid Gorder].
Ltac sproj_in H := cbn [st lst rootq stk nextid started token wakers set_st set_lst set_rootq set_stk set_nextid set_started set_token set_wakers] in H.

Section Proofs.
  Variable F : forest.
  Hypothesis FOK : forest_ok F.

  Lemma init_enc l : 0 <= rolebits F l < 4 -> Z.shiftl (4096 - 1) 41 + 68719476736 * rolebits F l = enc (mk 0 0 0 0 0 (rolebits F l) 0 0 0 4095 0 0).
  Proof.
    intros H. rewrite enc_linear; unfold mk; cbn [f_owner f_tr f_enq f_mq f_ov f_role f_em f_d f_pb f_wq f_ib f_hi].
    rewrite Z.shiftl_mul_pow2 by lia. change (2^41) with 2199023255552. lia.
  Qed.

  Lemma role_range l : 0 <= rolebits F l < 2.
  Proof.
    destruct FOK as (A & B & _). destruct (target F l) as [p|] eqn:E.
    - destruct (A l p E) as [_ ->]. lia.
    - apply B. exact E.
  Qed.

  Lemma Inv_init : Inv F (init_state F).
  Proof.
    split.
    - intros l. exists (mk 0 0 0 0 0 (rolebits F l) 0 0 0 4095 0 0). pose proof (role_range l) as R.
      constructor; unfold init_state, hpc; cbn [st lst rootq stk nextid started token wakers].
      all: first [ apply init_enc; lia
                 | apply wfr_mk'; lia
                 | reflexivity
                 | split; [discriminate | congruence]
                 | unfold free; cbn; auto; fail
                 | intros; discriminate
                 | constructor; fail
                 | congruence
                 | lia
                 | intros; reflexivity ].
    - intros t. unfold tinv, init_state; cbn [stk token wakers holds flat_map topwaker shape].
      repeat split; try constructor; intros; try contradiction; try discriminate.
  Qed.

  (* ---------------------------------------------------------------- facts read off the invariant *)
  Lemma tinv_top s t l p r : tinv F s t -> stk s t = (l, p) :: r ->
    NoDup (frame_tokens (l, p) ++ holds r) /\
    (forall x, In x (frame_tokens (l, p) ++ holds r) <-> token s x = Some (Some t)) /\
    (forall x, In t (wakers s x) <-> (if waker_pc p then Some l else None) = Some x) /\
    shape F ((l, p) :: r) /\ frame_ok F (l, p) /\ Forall (frame_ok F) r.
  Proof.
    intros (T1 & T2 & T3 & T4 & T5) E. rewrite E in *. rewrite holds_cons in *. cbn [topwaker] in T3.
    inversion T5 as [|f k H1 H2]; subst. exact (conj T1 (conj T2 (conj T3 (conj T4 (conj H1 H2))))).
  Qed.

  Lemma holder_of_top s t l p r : tinv F s t -> stk s t = (l, p) :: r -> is_drain p = true -> token s l = Some (Some t).
  Proof.
    intros T E D. destruct (tinv_top s t l p r T E) as (_ & K & _). apply K. apply in_or_app. left.
    unfold frame_tokens. destruct p; cbn in D |- *; try discriminate; try (left; reflexivity). destruct e; left; reflexivity.
  Qed.

  Lemma not_holder_pa s t l p r : tinv F s t -> stk s t = (l, p) :: r -> frame_tokens (l, p) = [] -> ~ In l (holds r) ->
    token s l <> Some (Some t).
  Proof.
    intros T E Ft N K. destruct (tinv_top s t l p r T E) as (_ & K' & _). apply K' in K. rewrite Ft in K. contradiction.
  Qed.

  (* the drain frame of lane x in the stack of a thread that holds x *)
  Lemma other_thread_stack s t k u : u <> t -> stk (set_stk s t k) u = stk s u.
  Proof. intros N. sproj. apply upd_other. exact N. Qed.

  (* ---------------------------------------------------------------- generic moves *)
  (* for every lane: if only the stack of t changed, and the drain frame of every lane t holds is similar *)
  Lemma lanes_after_stack_change s t k :
    (forall l, exists r, linv F s l r) ->
    (forall x, token s x = Some (Some t) -> dsim s x (dpc k x) (dpc (stk s t) x)) ->
    forall l, exists r, linv F (set_stk s t k) l r.
  Proof.
    intros L D x. destruct (L x) as [r G]. exists r.
    apply (linv_frame F s _ x r G); sproj; try reflexivity.
    intros w K. destruct (Z.eq_dec w t) as [->|N]; [rewrite upd_same; apply D; exact K | rewrite upd_other by exact N; apply dsim_refl].
  Qed.

  Lemma threads_after_stack_change s t k :
    (forall u, tinv F s u) -> tinv F (set_stk s t k) t -> forall u, tinv F (set_stk s t k) u.
  Proof.
    intros T Tt u. destruct (Z.eq_dec u t) as [->|N]; [exact Tt|].
    apply (tinv_other F s _ u (T u)); sproj; [apply upd_other; exact N | tauto | tauto].
  Qed.

  Lemma chain_weaken c k : chain F c k -> chain F None k.
  Proof. destruct k as [|[l p] r]; cbn [chain]; [intros _; exact I|]. intros (A & _ & B). auto. Qed.

  (* the top frame moves to another program point of the same kind on the same lane; nothing else changes *)
  Lemma Inv_goto s t l p p' r :
    Inv F s -> stk s t = (l, p) :: r ->
    frame_tokens (l, p') = frame_tokens (l, p) -> waker_pc p' = waker_pc p -> is_drain p' = is_drain p ->
    (is_drain p = true -> locked_pc p' = locked_pc p /\ inflight_pc (Some p') = inflight_pc (Some p) /\
                          (unlocking_pc p' = true -> unlocking_pc p = true \/ lst s l = []) /\ not_invoking p') ->
    frame_ok F (l, p') ->
    Inv F (set_stk s t ((l, p') :: r)).
  Proof.
    intros [L T] E Ft Wk Dr Dc Fo. destruct (tinv_top s t l p r (T t) E) as (T1 & T2 & T3 & T4 & T5 & T6). split.
    - apply lanes_after_stack_change; [exact L|]. intros x K. rewrite E.
      destruct (Z.eq_dec x l) as [->|N]; [|rewrite !dpc_cons_other by exact N; apply dsim_refl].
      destruct (is_drain p) eqn:D.
      + rewrite !dpc_cons_same by congruence. destruct (Dc eq_refl) as (D1 & D2 & D3 & _).
        repeat split; auto. intros q Eq U. injection Eq as <-. destruct (D3 U) as [U'|U']; [left; exists p; auto | right; exact U'].
      + rewrite !dpc_cons_pa by congruence. apply dsim_refl.
    - apply threads_after_stack_change; [exact T|]. unfold tinv. sproj. rewrite upd_same, holds_cons, Ft.
      repeat split; auto; try apply T2.
      + cbn [topwaker]. rewrite Wk. apply T3.
      + cbn [topwaker]. rewrite Wk. apply T3.
      + cbn [shape] in T4 |- *. rewrite Dr. destruct (is_drain p) eqn:D.
        * destruct T4 as [C _]. destruct (Dc eq_refl) as (_ & _ & _ & NI). split; [|exact NI].
          cbn [chain] in C |- *. destruct C as (_ & _ & C). rewrite Dr. auto.
        * exact T4.
  Qed.

  (* publishing a link changes no fact of the invariant *)
  Lemma Inv_relink s l e : Inv F s -> Inv F (set_lst s l (link_ent (lst s l) e)).
  Proof.
    intros [L T]. split.
    - intros x. destruct (L x) as [r G]. exists r. destruct (Z.eq_dec x l) as [->|N].
      + dG G. unfold hpc in *. constructor; sproj; rewrite ?upd_same; auto.
        * intros p. destruct (Z.eq_dec p l) as [->|Np]; [rewrite upd_same, count_link | rewrite upd_other by exact Np]; apply Gwhere.
        * rewrite link_nil_iff. exact Gnostrand.
        * intros w p K Hp U. rewrite link_nil_iff. apply (Gdirty w p); assumption.
        * rewrite items_link. exact Gorder.
      + apply (linv_frame F s _ x r G); sproj; rewrite ?upd_other by exact N; try reflexivity.
        * intros p. destruct (Z.eq_dec p l) as [->|Np]; [rewrite upd_same, count_link | rewrite upd_other by exact Np]; reflexivity.
        * intros w K. apply dsim_refl.
    - intros u. apply (tinv_other F s _ u (T u)); sproj; tauto.
  Qed.

  Lemma shape_ret l p r : shape F ((l, p) :: r) -> shape F (ret r).
  Proof.
    cbn [shape]. destruct (is_drain p) eqn:D.
    - intros [C _]. cbn [chain] in C. destruct C as (_ & _ & C).
      destruct r as [|[x q] r']; [exact I|]. cbn [chain] in C. destruct C as (Dq & (Tg & o & m & ->) & C').
      cbn [ret shape is_drain chain]. repeat split; auto. intros o' c' m' Eq. discriminate.
    - intros [C H]. destruct r as [|[x q] r']; [exact I|].
      destruct H as [(o & i & m & ->)|(o & c & m & ->)].
      + cbn [ret shape is_drain]. split; [exact C|]. intros o' c' m' Eq. discriminate.
      + cbn [ret shape is_drain]. cbn [chain] in C |- *. destruct C as (_ & _ & C). repeat split; auto. intros o' c' m' Eq. discriminate.
  Qed.

  Lemma frame_ok_ret r : Forall (frame_ok F) r -> Forall (frame_ok F) (ret r).
  Proof.
    destruct r as [|[x q] r']; [auto|]. intros H. destruct q; try exact H.
    inversion H as [|f k Hf Hk]; subst. constructor; [|exact Hk]. unfold frame_ok in *. destruct Hf as (A & B & _).
    split; [exact A|]. split; [|exact I]. intros q Hq. discriminate.
  Qed.

  Lemma below_is_drain l p r y q r' : shape F ((l, p) :: r) -> r = (y, q) :: r' -> is_drain q = true.
  Proof.
    intros S ->. cbn [shape] in S. destruct (is_drain p).
    - destruct S as [C _]. cbn [chain] in C. tauto.
    - destruct S as [C _]. cbn [chain] in C. tauto.
  Qed.

  Lemma topwaker_ret l p r : shape F ((l, p) :: r) -> topwaker (ret r) = None.
  Proof.
    intros S. destruct r as [|[y q] r']; [reflexivity|].
    pose proof (below_is_drain l p _ y q r' S eq_refl) as D.
    destruct q; cbn in D |- *; try discriminate; reflexivity.
  Qed.

  Lemma nodup_app_r {A} (l1 l2 : list A) : NoDup (l1 ++ l2) -> NoDup l2.
  Proof. induction l1 as [|a l1 IH]; cbn [app]; intros H; [exact H|]. inversion H; subst. apply IH. assumption. Qed.

  Lemma nodup_app_l {A} (l1 l2 : list A) : NoDup (l1 ++ l2) -> NoDup l1.
  Proof.
    induction l1 as [|a l1 IH]; cbn [app]; intros H; [constructor|].
    inversion H as [|x l' Hx Hl]; subst. constructor; [|apply IH; exact Hl].
    intros Hin. apply Hx. apply in_or_app. left. exact Hin.
  Qed.

  Lemma nodup_app_disj {A} (l1 l2 : list A) x : NoDup (l1 ++ l2) -> In x l1 -> ~ In x l2.
  Proof.
    induction l1 as [|a l1 IH]; cbn [app In]; intros H; [contradiction|].
    inversion H as [|y l' Hy Hl]; subst. intros [->|Hin] H2; [apply Hy; apply in_or_app; right; exact H2 | exact (IH Hl Hin H2)].
  Qed.

  Lemma target_neq l p : target F l = Some p -> l <> p.
  Proof. intros E ->. destruct FOK as (A & _). destruct (A p p E) as [H _]. lia. Qed.

  Lemma dsim_pop s x l p r : x <> l \/ is_drain p = false -> dsim s x (dpc (ret r) x) (dpc ((l, p) :: r) x).
  Proof.
    intros [N|N]; [rewrite dpc_cons_other by exact N | rewrite dpc_cons_pa by exact N]; apply dpc_ret_sim.
  Qed.

  (* the thread invariant of the moving thread after its top frame returned *)
  Lemma tinv_pop s s' t l p r :
    tinv F s t -> stk s t = (l, p) :: r -> stk s' t = ret r ->
    (forall x, token s' x = Some (Some t) <-> In x (holds r)) -> (forall x, ~ In t (wakers s' x)) ->
    tinv F s' t.
  Proof.
    intros T E E' K W. destruct (tinv_top s t l p r T E) as (T1 & T2 & T3 & T4 & T5 & T6).
    unfold tinv. rewrite E', holds_ret. split; [|split; [|split; [|split]]].
    - apply nodup_app_r in T1. exact T1.
    - intros x. symmetry. apply K.
    - intros x. rewrite (topwaker_ret l p r T4). split; [intros H; exfalso; apply (W x H) | discriminate].
    - apply (shape_ret l p r T4).
    - apply frame_ok_ret. exact T6.
  Qed.

  Lemma in_callout_drain k : in_callout k = true -> match k with [] => True | (_, q) :: _ => exists o i m, q = PW_incall o i m end.
  Proof. destruct k as [|[x q] k]; [auto|]. destruct q; cbn; try discriminate. intros _. eauto. Qed.

  (* ---------------------------------------------------------------- begin *)
  Lemma begin_preserves s t c s' : Inv F s -> valid_tid t -> begin F s t c = Some s' -> Inv F s'.
  Proof.
    intros [L T] V B. destruct c as [l q|b fl]; cbn [begin] in B.
    - destruct ((0 <=? q) && (q <? 8) && in_callout (stk s t)) eqn:C; [|discriminate]. injection B as <-.
      apply andb_true_iff in C. destruct C as [C IC]. apply andb_true_iff in C. destruct C as [Q1 Q2].
      apply Z.leb_le in Q1. apply Z.ltb_lt in Q2. apply in_callout_drain in IC.
      destruct (T t) as (T1 & T2 & T3 & T4 & T5). split.
      + apply lanes_after_stack_change; [exact L|]. intros x K. rewrite dpc_cons_pa by reflexivity. apply dsim_refl.
      + apply threads_after_stack_change; [exact T|]. unfold tinv. sproj. rewrite upd_same, holds_cons.
        cbn [frame_tokens app topwaker waker_pc]. split; [exact T1|]. split; [exact T2|]. split; [|split].
        * intros x. rewrite T3. destruct (stk s t) as [|[y p] k]; [tauto|]. destruct IC as (o & i & m & ->). cbn. tauto.
        * cbn [shape is_drain]. destruct (stk s t) as [|[y p] k] eqn:E; [split; exact I|].
          destruct IC as (o & i & m & ->). cbn [shape is_drain] in T4. destruct T4 as [C _]. split; [exact C|]. left. eauto.
        * constructor; [|exact T5]. unfold frame_ok. split; [discriminate|]. split; [|exact I].
          intros q0 E. injection E as <-. unfold push_qos, push_qos_of. destruct (prio F l <? q); lia.
    - destruct (stk s t) as [|f k] eqn:E; [|discriminate]. destruct (target F b) as [p|] eqn:Tb; [discriminate|].
      destruct (0 <? rootq s b) eqn:R; [|discriminate]. injection B as <-. apply Z.ltb_lt in R.
      destruct (L b) as [rb Gb]. pose proof Gb as Gb'. dG Gb'.
      assert (Kb : token s b = Some None).
      { rewrite Tb in Grootq. destruct (token s b) as [[w|]|]; try lia. reflexivity. }
      split.
      + intros x. destruct (Z.eq_dec x b) as [->|N].
        * exists rb. unfold hpc in *. rewrite Kb in *. rewrite Tb in *.
          constructor; sproj; rewrite ?upd_same; auto.
          -- split; [intros _; discriminate | intros _; apply Genq; discriminate].
          -- lia.
          -- cbn [dpc is_drain lockedb locked_pc]. rewrite Z.eqb_refl. cbn. auto.
          -- intros _. left. discriminate.
          -- intros w p K. injection K as <-. rewrite upd_same. cbn [dpc is_drain]. rewrite Z.eqb_refl. cbn [andb].
             intros Hp. injection Hp as <-. discriminate.
          -- unfold hpc; sproj. rewrite !upd_same. cbn [dpc is_drain]. rewrite Z.eqb_refl. exact Gorder.
        * destruct (L x) as [r G]. exists r.
          apply (linv_frame F s _ x r G); sproj; rewrite ?upd_other by exact N; try reflexivity.
          intros w K. destruct (Z.eq_dec w t) as [->|Nw]; [|rewrite upd_other by exact Nw; apply dsim_refl].
          rewrite upd_same, E. rewrite dpc_cons_other by exact N. apply dsim_refl.
      + intros u. destruct (Z.eq_dec u t) as [->|N].
        * destruct (T t) as (T1 & T2 & T3 & T4 & T5). rewrite E in *. unfold tinv. sproj. rewrite upd_same.
          cbn [holds flat_map frame_tokens is_drain app topwaker waker_pc]. split; [|split; [|split; [|split]]].
          -- constructor; [intros []|constructor].
          -- intros x. destruct (Z.eq_dec x b) as [->|Nx].
             ++ rewrite upd_same. split; [reflexivity | intros _; left; reflexivity].
             ++ rewrite upd_other by exact Nx. split; [intros [H|[]]; congruence|]. intros H. apply T2 in H. destruct H.
          -- intros x. rewrite T3. cbn. tauto.
          -- cbn [shape is_drain chain]. repeat split; auto. intros o c m H. discriminate.
          -- constructor; [|constructor]. unfold frame_ok. split; [discriminate|]. split; [discriminate|exact I].
        * apply (tinv_other F s _ u (T u)); sproj; [apply upd_other; exact N | | tauto].
          intros x. destruct (Z.eq_dec x b) as [->|Nx]; [rewrite upd_same, Kb | rewrite upd_other by exact Nx; tauto].
          split; intros H; [injection H as H; congruence | discriminate].
  Qed.

  (* ---------------------------------------------------------------- the steps of the submission path *)
  Lemma qos_ok_top s t l p r q : tinv F s t -> stk s t = (l, p) :: r -> qos_of p = Some q -> 0 <= q < 8.
  Proof. intros T E Q. destruct (tinv_top s t l p r T E) as (_ & _ & _ & _ & (_ & B & _) & _). apply B. exact Q. Qed.

  Lemma not_waker_top s t l p r x : tinv F s t -> stk s t = (l, p) :: r -> waker_pc p = false -> ~ In t (wakers s x).
  Proof. intros T E W H. destruct (tinv_top s t l p r T E) as (_ & _ & T3 & _). apply T3 in H. rewrite W in H. discriminate. Qed.

  (* the drain frame of a lane in the stack of t does not change when t's top frame is a push frame before and after *)
  Lemma dpc_top_pa s t l p p' l' r x w0 :
    stk s t = (l, p) :: r -> is_drain p = false -> is_drain p' = false ->
    dpc (upd (stk s) t ((l', p') :: r) w0) x = dpc (stk s w0) x.
  Proof.
    intros E D D'. destruct (Z.eq_dec w0 t) as [->|N]; [|rewrite upd_other by exact N; reflexivity].
    rewrite upd_same, E, !dpc_cons_pa by assumption. reflexivity.
  Qed.

  Lemma step_xchg_item s t l q r o s' :
    Inv F s -> stk s t = (l, PA_xchg WItem q) :: r -> gstep F s t o = Some s' -> Inv F s'.
  Proof.
    intros [L T] E B. unfold gstep in B. rewrite E in B. injection B as <-.
    destruct (tinv_top s t l _ r (T t) E) as (T1 & T2 & T3 & T4 & T5 & T6).
    pose proof (fun x => not_waker_top s t l _ r x (T t) E eq_refl) as NW.
    set (we := match lst s l with [] => true | _ => false end).
    assert (Fo' : frame_ok F (l, PA_link (Item (nextid s l)) we q)).
    { destruct T5 as (A & B & _). split; [discriminate|]. split; [|exact I]. intros q0 Hq. injection Hq as <-. apply B. reflexivity. }
    pose proof (fun x w0 => dpc_top_pa s t l _ (PA_link (Item (nextid s l)) we q) l r x w0 E eq_refl eq_refl) as Dp.
    split.
    - intros x. destruct (L x) as [rx G]. exists rx. destruct (Z.eq_dec x l) as [->|Nl].
      + dG G. unfold hpc in *. constructor; sproj; rewrite ?upd_same; auto.
        * intros p. destruct (Z.eq_dec p l) as [->|Np]; [rewrite upd_same, count_app; cbn [count_lane e_ent]; rewrite Nat.add_0_r | rewrite upd_other by exact Np]; apply Gwhere.
        * destruct (token s l) as [[w0|]|]; auto. rewrite Dp. exact Glock.
        * intros _. subst we. destruct (lst s l) eqn:Ll; [right; discriminate|]. destruct Gnostrand as [H|H]; [discriminate|left; exact H|right; exact H].
        * intros w0 p K. rewrite Dp. intros Hp U _ Hw. subst we. destruct (lst s l) eqn:Ll; [discriminate|].
          apply (Gdirty w0 p K Hp U); [discriminate | exact Hw].
        * subst we. destruct (lst s l); [constructor; [apply NW | exact Gnodup] | exact Gnodup].
        * lia.
        * unfold hpc; sproj. rewrite items_app. cbn [items flat_map e_ent app]. rewrite zrange_succ by exact Gnextid.
          rewrite <- Gorder. destruct (token s l) as [[w0|]|]; rewrite ?Dp; rewrite !app_assoc; reflexivity.
      + apply (linv_frame F s _ x rx G); sproj; rewrite ?upd_other by exact Nl; try reflexivity.
        * intros p. destruct (Z.eq_dec p l) as [->|Np]; [rewrite upd_same, count_app; cbn [count_lane e_ent]; lia | rewrite upd_other by exact Np; reflexivity].
        * intros w0 K. rewrite Dp. apply dsim_refl.
    - intros u. destruct (Z.eq_dec u t) as [->|N].
      + unfold tinv. sproj. rewrite upd_same, holds_cons. cbn [frame_tokens is_drain app topwaker] in *.
        split; [exact T1|]. split; [exact T2|]. split; [|split; [exact T4 | constructor; assumption]].
        intros x. destruct (Z.eq_dec x l) as [->|Nx].
        * rewrite upd_same. subst we. destruct (lst s l); cbn [waker_pc In].
          -- split; [reflexivity | left; reflexivity].
          -- split; [intros H; exfalso; exact (NW l H) | discriminate].
        * rewrite upd_other by exact Nx. split; [intros H; exfalso; exact (NW x H) | destruct (waker_pc (PA_link (Item (nextid s l)) we q)); congruence].
      + apply (tinv_other F s _ u (T u)); sproj; [apply upd_other; exact N | tauto |].
        intros x. destruct (Z.eq_dec x l) as [->|Nx]; [rewrite upd_same | rewrite upd_other by exact Nx; tauto].
        destruct we; cbn [In]; [split; [intros [H|H]; [congruence | exact H] | auto] | tauto].
  Qed.

  Lemma step_xchg_lane s t l l' q r o s' :
    Inv F s -> stk s t = (l, PA_xchg (WLane l') q) :: r -> gstep F s t o = Some s' -> Inv F s'.
  Proof.
    intros [L T] E B. unfold gstep in B. rewrite E in B. injection B as <-.
    destruct (tinv_top s t l _ r (T t) E) as (T1 & T2 & T3 & T4 & T5 & T6).
    pose proof (fun x => not_waker_top s t l _ r x (T t) E eq_refl) as NW.
    set (we := match lst s l with [] => true | _ => false end).
    assert (Fo' : frame_ok F (l, PA_link (Lane l') we q)).
    { destruct T5 as (A & B & _). split; [discriminate|]. split; [|exact I]. intros q0 Hq. injection Hq as <-. apply B. reflexivity. }
    pose proof (fun x w0 => dpc_top_pa s t l _ (PA_link (Lane l') we q) l r x w0 E eq_refl eq_refl) as Dp.
    assert (Tg : target F l' = Some l) by (destruct T5 as (_ & _ & Tg); exact Tg).
    pose proof (target_neq l' l Tg) as N1.
    assert (Kl' : token s l' = Some (Some t)) by (apply T2; left; reflexivity).
    assert (NH : ~ In l' (holds r)) by (cbn [frame_tokens app] in T1; inversion T1; assumption).
    split.
    - intros x. destruct (L x) as [rx G]. exists rx. destruct (Z.eq_dec x l) as [->|Nl]; [|destruct (Z.eq_dec x l') as [->|Nl']].
      + (* the lane pushed on *)
        dG G. unfold hpc in *. constructor; sproj; rewrite ?upd_same; rewrite ?(upd_other _ l' _ l) by congruence; auto.
        * intros p. destruct (Z.eq_dec p l) as [->|Np]; [rewrite upd_same, count_app; cbn [count_lane e_ent] | rewrite upd_other by exact Np]; [|apply Gwhere].
          destruct (Z.eqb_spec l' l); [congruence|]. rewrite Nat.add_0_r. apply Gwhere.
        * destruct (token s l) as [[w0|]|]; auto. rewrite Dp. exact Glock.
        * intros _. subst we. destruct (lst s l) eqn:Ll; [right; discriminate|]. destruct Gnostrand as [H|H]; [discriminate|left; exact H|right; exact H].
        * intros w0 p K. rewrite Dp. intros Hp U _ Hw. subst we. destruct (lst s l) eqn:Ll; [discriminate|].
          apply (Gdirty w0 p K Hp U); [discriminate | exact Hw].
        * subst we. destruct (lst s l); [constructor; [apply NW | exact Gnodup] | exact Gnodup].
        * unfold hpc; sproj. rewrite (upd_other _ l' _ l) by congruence. rewrite items_app. cbn [items flat_map e_ent app]. rewrite app_nil_r.
          rewrite <- Gorder. destruct (token s l) as [[w0|]|]; rewrite ?Dp; reflexivity.
      + (* the lane that now sits in l's list *)
        dG G. unfold hpc in *. rewrite Kl' in *.
        assert (Dn : dpc (stk s t) l' = None).
        { rewrite E, dpc_cons_pa by reflexivity. apply dpc_none_not_holds_drain. exact NH. }
        rewrite Dn in *. cbn [lockedb inflight_pc] in *.
        constructor; sproj; rewrite ?upd_same; rewrite ?(upd_other _ l _ l') by exact Nl; auto.
        * split; [intros _; discriminate | intros _; apply Genq; discriminate].
        * rewrite Tg. exact Grootq.
        * rewrite Tg. intros p. destruct (Z.eq_dec p l) as [->|Np].
          -- rewrite upd_same, Z.eqb_refl, count_app. cbn [count_lane e_ent]. rewrite Z.eqb_refl. specialize (Gwhere l). lia.
          -- rewrite upd_other by exact Np. destruct (Z.eqb_spec l p); [congruence|]. apply Gwhere.
        * tauto.
        * intros _. left. discriminate.
        * intros w0 p K. discriminate.
        * unfold hpc; sproj. rewrite ?upd_same. exact Gorder.
      + apply (linv_frame F s _ x rx G); sproj; rewrite ?upd_other by assumption; try reflexivity.
        * intros p. destruct (Z.eq_dec p l) as [->|Np]; [rewrite upd_same, count_app; cbn [count_lane e_ent] | rewrite upd_other by exact Np; reflexivity].
          destruct (Z.eqb_spec l' x); [congruence|]. lia.
        * intros w0 K. rewrite Dp. apply dsim_refl.
    - intros u. destruct (Z.eq_dec u t) as [->|N].
      + unfold tinv. sproj. rewrite upd_same, holds_cons. cbn [frame_tokens is_drain app topwaker] in *.
        split; [apply nodup_app_r with (l1 := [l']); exact T1|]. split; [|split; [|split; [exact T4 | constructor; assumption]]].
        * intros x. destruct (Z.eq_dec x l') as [->|Nx].
          -- rewrite upd_same. split; [intros H; contradiction | discriminate].
          -- rewrite upd_other by exact Nx. rewrite <- T2. cbn [In]. split; [auto | intros [H|H]; [congruence | exact H]].
        * intros x. destruct (Z.eq_dec x l) as [->|Nx].
          -- rewrite upd_same. subst we. destruct (lst s l); cbn [waker_pc In].
             ++ split; [reflexivity | left; reflexivity].
             ++ split; [intros H; exfalso; exact (NW l H) | discriminate].
          -- rewrite upd_other by exact Nx. split; [intros H; exfalso; exact (NW x H) | destruct (waker_pc (PA_link (Lane l') we q)); congruence].
      + apply (tinv_other F s _ u (T u)); sproj; [apply upd_other; exact N | |].
        * intros x. destruct (Z.eq_dec x l') as [->|Nx]; [rewrite upd_same, Kl' | rewrite upd_other by exact Nx; tauto].
          split; intros H; [discriminate | injection H as H; congruence].
        * intros x. destruct (Z.eq_dec x l) as [->|Nx]; [rewrite upd_same | rewrite upd_other by exact Nx; tauto].
          destruct we; cbn [In]; [split; [intros [H|H]; [congruence | exact H] | auto] | tauto].
  Qed.

  (* a push frame that holds no token and owes no wakeup returns; nothing else changes *)
  Lemma Inv_leave s t l p r :
    Inv F s -> stk s t = (l, p) :: r -> frame_tokens (l, p) = [] -> waker_pc p = false -> is_drain p = false ->
    Inv F (set_stk s t (ret r)).
  Proof.
    intros [L T] E Ft Wk Dr. destruct (tinv_top s t l p r (T t) E) as (T1 & T2 & T3 & T4 & T5 & T6). split.
    - apply lanes_after_stack_change; [exact L|]. intros x K. rewrite E. apply dsim_pop. right. exact Dr.
    - apply threads_after_stack_change; [exact T|].
      apply (tinv_pop s _ t l p r (T t) E); sproj; [apply upd_same | |].
      + intros x. rewrite <- T2, Ft. reflexivity.
      + intros x. apply (not_waker_top s t l p r x (T t) E Wk).
  Qed.

  Lemma step_link s t l e we q r o s' :
    Inv F s -> stk s t = (l, PA_link e we q) :: r -> gstep F s t o = Some s' -> Inv F s'.
  Proof.
    intros I E B. unfold gstep in B. rewrite E in B. injection B as <-.
    pose proof (Inv_relink s l e I) as I1.
    assert (E1 : stk (set_lst s l (link_ent (lst s l) e)) t = (l, PA_link e we q) :: r) by exact E.
    destruct I as [_ T]. destruct (tinv_top s t l _ r (T t) E) as (_ & _ & _ & _ & (A & Bq & _) & _).
    assert (Fo : forall d, frame_ok F (l, PA_probe q d)).
    { intros d. split; [discriminate|]. split; [|exact I]. intros q0 Hq. injection Hq as <-. apply Bq. reflexivity. }
    destruct we; [|destruct o].
    - apply (Inv_goto _ t l _ _ r I1 E1); try reflexivity; [discriminate | apply Fo].
    - apply (Inv_goto _ t l _ _ r I1 E1); try reflexivity; [discriminate | apply Fo].
    - apply (Inv_leave _ t l _ r I1 E1); reflexivity.
  Qed.

  Lemma step_probe s t l q d r o s' :
    Inv F s -> stk s t = (l, PA_probe q d) :: r -> gstep F s t o = Some s' -> Inv F s'.
  Proof.
    intros I E B. unfold gstep in B. rewrite E in B. injection B as <-.
    destruct (lst s l) as [|e0 l0] eqn:Ll.
    - (* the drainer already took the item: nothing to wake *)
      destruct I as [L T]. destruct (tinv_top s t l _ r (T t) E) as (T1 & T2 & T3 & T4 & T5 & T6).
      split.
      + intros x. destruct (L x) as [rx G]. exists rx. destruct (Z.eq_dec x l) as [->|Nl].
        * dG G. unfold hpc in *.
          assert (Dp : forall w0, dsim s l (dpc (upd (stk s) t (ret r) w0) l) (dpc (stk s w0) l)).
          { intros w0. destruct (Z.eq_dec w0 t) as [->|N]; [|rewrite upd_other by exact N; apply dsim_refl].
            rewrite upd_same, E. apply dsim_pop. right. reflexivity. }
          constructor; sproj; rewrite ?upd_same; auto.
          -- destruct (token s l) as [[w0|]|]; auto. destruct (Dp w0) as (D1 & _). rewrite D1. exact Glock.
          -- intros _ _ _ _ _ H. congruence.
          -- destruct d; [apply nodup_remove_z|]; exact Gnodup.
          -- unfold hpc; sproj. destruct (token s l) as [[w0|]|]; auto. destruct (Dp w0) as (_ & D2 & _). rewrite D2. exact Gorder.
        * apply (linv_frame F s _ x rx G); sproj; rewrite ?upd_other by exact Nl; try reflexivity.
          intros w0 K. destruct (Z.eq_dec w0 t) as [->|N]; [|rewrite upd_other by exact N; apply dsim_refl].
          rewrite upd_same, E. apply dsim_pop. right. reflexivity.
      + intros u. destruct (Z.eq_dec u t) as [->|N].
        * apply (tinv_pop s _ t l _ r (T t) E); sproj; [apply upd_same | |].
          -- intros x. rewrite <- T2. reflexivity.
          -- intros x. destruct (Z.eq_dec x l) as [->|Nx]; [rewrite upd_same | rewrite upd_other by exact Nx].
             ++ destruct d; [rewrite in_remove_z; tauto|]. apply (not_waker_top s t l _ r l (T t) E eq_refl).
             ++ intros H. apply T3 in H. destruct (waker_pc (PA_probe q d)); congruence.
        * apply (tinv_other F s _ u (T u)); sproj; [apply upd_other; exact N | tauto |].
          intros x. destruct (Z.eq_dec x l) as [->|Nx]; [rewrite upd_same | rewrite upd_other by exact Nx; tauto].
          destruct d; [rewrite in_remove_z|]; tauto.
    - destruct I as [L T]. destruct (tinv_top s t l _ r (T t) E) as (_ & _ & _ & _ & (A & Bq & _) & _).
      apply (Inv_goto s t l _ _ r (conj L T) E); try reflexivity; [discriminate|].
      split; [discriminate|]. split; [|exact I]. intros q0 Hq. injection Hq as <-.
      pose proof (Bq q eq_refl) as Q. destruct FOK as (_ & _ & P). destruct (P l) as [P1 P2].
      unfold wakeup_qos, wakeup_qos_of. destruct (q =? 0); lia.
  Qed.

  Lemma merged_same r q :
    f_owner (merged r q) = f_owner r /\ f_tr (merged r q) = f_tr r /\ f_enq (merged r q) = f_enq r /\
    f_role (merged r q) = f_role r /\ f_em (merged r q) = f_em r /\ f_d (merged r q) = f_d r /\
    f_pb (merged r q) = f_pb r /\ f_wq (merged r q) = f_wq r /\ f_ib (merged r q) = f_ib r /\ f_hi (merged r q) = f_hi r.
  Proof. unfold merged. destruct (f_mq r <? q); cbn; repeat split; reflexivity. Qed.

  Lemma enq_changed r1 r2 : wfr r1 -> wfr r2 ->
    (Z.land (Z.lxor (enc r1) (enc r2)) 2147483648 =? 0) = (f_enq r1 =? f_enq r2).
  Proof.
    intros W1 W2. pose proof W1 as W1'. pose proof W2 as W2'. unfold wfr in W1', W2'.
    rewrite (enc_vec r1), (enc_vec r2). rewrite encode_lxor by wfv_tac. cbn [map2].
    assert (Hb : forall a b, 0 <= a < 2 -> 0 <= b < 2 -> 0 <= Z.lxor a b < 2).
    { intros a b Ha Hb. assert (a = 0 \/ a = 1) as [->| ->] by lia; assert (b = 0 \/ b = 1) as [->| ->] by lia; cbn; lia. }
    assert (Hx : 0 <= Z.lxor (f_enq r1) (f_enq r2) < 2) by (apply Hb; lia).
    assert (WV : wfv LAY [Z.lxor (f_owner r1) (f_owner r2); Z.lxor (f_tr r1) (f_tr r2); Z.lxor (f_enq r1) (f_enq r2);
                          Z.lxor (f_mq r1) (f_mq r2); Z.lxor (f_ov r1) (f_ov r2); Z.lxor (f_role r1) (f_role r2);
                          Z.lxor (f_em r1) (f_em r2); Z.lxor (f_d r1) (f_d r2); Z.lxor (f_pb r1) (f_pb r2);
                          Z.lxor (f_wq r1) (f_wq r2); Z.lxor (f_ib r1) (f_ib r2); Z.lxor (f_hi r1) (f_hi r2)]).
    { apply wfv12;
        [apply (lxor_small _ _ 30) | apply (lxor_small _ _ 1) | apply (lxor_small _ _ 1) | apply (lxor_small _ _ 3)
        | apply (lxor_small _ _ 1) | apply (lxor_small _ _ 2) | apply (lxor_small _ _ 1) | apply (lxor_small _ _ 1)
        | apply (lxor_small _ _ 1) | apply (lxor_small _ _ 13) | apply (lxor_small _ _ 1) | apply (lxor_small _ _ 9)];
        (change (2 ^ 30) with 1073741824 || change (2 ^ 1) with 2 || change (2 ^ 3) with 8 || change (2 ^ 2) with 4
         || change (2 ^ 13) with 8192 || change (2 ^ 9) with 512 || idtac); lia. }
    rewrite (land_vec_const _ 2147483648) by (exact WV || lia).
    let d := eval vm_compute in (decode LAY 2147483648) in change (decode LAY 2147483648) with d. cbn [map2].
    fsimp. rewrite vec_linear.
    assert (f_enq r1 = 0 \/ f_enq r1 = 1) as [E1|E1] by lia; assert (f_enq r2 = 0 \/ f_enq r2 = 1) as [E2|E2] by lia;
      rewrite E1, E2; reflexivity.
  Qed.

  Lemma enq_flipped_fields r1 r2 : wfr r1 -> wfr r2 -> enq_flipped (enc r1) (enc r2) = negb (f_enq r1 =? f_enq r2).
  Proof. intros W1 W2. unfold enq_flipped, ENQUEUED. rewrite (enq_changed r1 r2 W1 W2). reflexivity. Qed.

  (* the state after a wakeup's compare-and-swap committed the word of r' on lane l (whose word was that of r0) *)
  Definition after_wake (s : gst) (t l : Z) (d : bool) (r : list frame) (r0 r' : dqf) (qq : Z) : gst :=
    let s1 := set_st s l (enc r') in
    let s2 := set_wakers s1 l (if d then remove_z t (wakers s l) else wakers s l) in
    if can_enqueue r0 then set_stk (set_token s2 l (Some (Some t))) t ((l, PA_tpush qq) :: r) else set_stk s2 t (ret r).

  Lemma wake_commit s t l q d r r0 r' qq :
    Inv F s -> valid_tid t -> stk s t = (l, PA_wake q d) :: r -> linv F s l r0 ->
    wfr r' -> f_owner r' = f_owner r0 -> f_ib r' = f_ib r0 -> f_wq r' = f_wq r0 -> f_tr r' = 0 -> f_em r' = 0 -> f_pb r' = 0 ->
    f_hi r' = 0 -> f_role r' = f_role r0 -> f_enq r' = (if can_enqueue r0 then 1 else f_enq r0) ->
    f_d r' = (if d then 1 else f_d r0) -> 0 <= qq < 8 ->
    Inv F (after_wake s t l d r r0 r' qq).
  Proof.
    intros [L T] Vt E G0 W' F1 F2 F3 F4 F5 F6 F7 F8 F9 F10 Qq.
    destruct (tinv_top s t l _ r (T t) E) as (T1 & T2 & T3 & T4 & T5 & T6).
    cbn [frame_tokens is_drain app] in T1, T2.
    assert (NWx : forall x, x <> l -> ~ In t (wakers s x)).
    { intros x Nx H. apply T3 in H. destruct (waker_pc (PA_wake q d)); congruence. }
    assert (NWl : d = false -> ~ In t (wakers s l)).
    { intros -> H. apply T3 in H. discriminate. }
    pose proof G0 as G0'. dG G0'. pose proof Gwf as W0. unfold wfr in W0.
    assert (Lk : forall x, (match x with Some (Some w) => valid_tid w /\ (if lockedb (dpc (stk s w) l) then held r0 w else free r0) | _ => free r0 end) ->
                           (match x with Some (Some w) => valid_tid w /\ (if lockedb (dpc (stk s w) l) then held r' w else free r') | _ => free r' end)).
    { intros x. unfold held, free. rewrite F1, F2, F3. auto. }
    unfold after_wake. destruct (can_enqueue r0) eqn:CE.
    - (* this wakeup takes the enqueued token and will push the lane on its target *)
      unfold can_enqueue in CE. rewrite !andb_true_iff in CE. destruct CE as [[[C1 C2] C3] C4]. apply Z.eqb_eq in C2.
      assert (Tk : token s l = None).
      { destruct (token s l) eqn:K; [|reflexivity]. assert (f_enq r0 = 1) by (apply Genq; congruence). lia. }
      assert (NHl : ~ In l (holds r)) by (intros H; apply T2 in H; congruence).
      split.
      + intros x. destruct (Z.eq_dec x l) as [->|Nl].
        * exists r'. unfold hpc in *. rewrite Tk in *.
          constructor; sproj; rewrite ?upd_same; try assumption; try lia; try congruence.
          -- rewrite F9. split; [discriminate | reflexivity].
          -- rewrite dpc_cons_pa by reflexivity. rewrite (dpc_none_not_holds_drain r l NHl). cbn [lockedb].
             split; [exact Vt|]. unfold free in *. rewrite F1, F2, F3. exact Glock.
          -- intros _. left. discriminate.
          -- intros w0 p K. injection K as <-. rewrite upd_same, dpc_cons_pa by reflexivity.
             rewrite (dpc_none_not_holds_drain r l NHl). discriminate.
          -- destruct d; [apply nodup_remove_z|]; exact Gnodup.
          -- unfold hpc; sproj. rewrite !upd_same, dpc_cons_pa by reflexivity. rewrite (dpc_none_not_holds_drain r l NHl). exact Gorder.
        * destruct (L x) as [rx G]. exists rx. apply (linv_frame F s _ x rx G); sproj; rewrite ?upd_other by exact Nl; try reflexivity.
          intros w0 K. rewrite (dpc_top_pa s t l _ (PA_tpush qq) l r x w0 E eq_refl eq_refl). apply dsim_refl.
      + intros u. destruct (Z.eq_dec u t) as [->|N].
        * unfold tinv. sproj. rewrite upd_same, holds_cons. cbn [frame_tokens is_drain app topwaker waker_pc].
          split; [constructor; assumption|]. split; [|split; [|split; [exact T4|]]].
          -- intros x. destruct (Z.eq_dec x l) as [->|Nx]; [rewrite upd_same; cbn [In]; tauto|].
             rewrite upd_other by exact Nx. rewrite <- T2. cbn [In]. split; [intros [H|H]; [congruence|exact H] | auto].
          -- intros x. split; [|discriminate]. destruct (Z.eq_dec x l) as [->|Nx]; [rewrite upd_same | rewrite upd_other by exact Nx; intros H; exfalso; exact (NWx x Nx H)].
             destruct d; [rewrite in_remove_z; tauto | intros H; exfalso; exact (NWl eq_refl H)].
          -- constructor; [|exact T6]. split; [discriminate|]. split; [|exact I]. intros q0 Hq. injection Hq as <-. exact Qq.
        * apply (tinv_other F s _ u (T u)); sproj; [apply upd_other; exact N | |].
          -- intros x. destruct (Z.eq_dec x l) as [->|Nx]; [rewrite upd_same, Tk | rewrite upd_other by exact Nx; tauto].
             split; intros H; [injection H as H; congruence | discriminate].
          -- intros x. destruct (Z.eq_dec x l) as [->|Nx]; [rewrite upd_same | rewrite upd_other by exact Nx; tauto].
             destruct d; [rewrite in_remove_z|]; tauto.
    - (* already enqueued, or locked: DIRTY (if asked for) alone tells the drainer *)
      assert (Resp : token s l <> None).
      { unfold can_enqueue in CE. rewrite Ghi, Gem in CE. cbn [Z.eqb andb] in CE.
        destruct (Z.eqb_spec (f_enq r0) 0) as [E0|E0]; cbn [andb] in CE.
        - apply orb_false_iff in CE. destruct CE as [CE _].
          destruct (token s l) as [[w|]|]; try discriminate.
          unfold free in Glock. destruct Glock as (O & _). rewrite O in CE. discriminate.
        - apply Genq. lia. }
      assert (Dp : forall x w0, dsim s x (dpc (upd (stk s) t (ret r) w0) x) (dpc (stk s w0) x)).
      { intros x w0. destruct (Z.eq_dec w0 t) as [->|N]; [|rewrite upd_other by exact N; apply dsim_refl].
        rewrite upd_same, E. apply dsim_pop. right. reflexivity. }
      split.
      + intros x. destruct (Z.eq_dec x l) as [->|Nl].
        * exists r'. unfold hpc in *.
          constructor; sproj; rewrite ?upd_same; try assumption; try lia; try congruence.
          -- specialize (Lk (token s l) Glock). destruct (token s l) as [[w0|]|]; auto.
             destruct (Dp l w0) as (D1 & _). rewrite D1. exact Lk.
          -- intros _. left. exact Resp.
          -- intros w0 p K Hp U Ll Wk. rewrite F10. destruct d; [reflexivity|].
             destruct (Dp l w0) as (_ & _ & D3). destruct (D3 p Hp U) as [(p0 & Hp0 & U0)|L0]; [|contradiction].
             apply (Gdirty w0 p0 K Hp0 U0 Ll Wk).
          -- destruct d; [apply nodup_remove_z|]; exact Gnodup.
          -- unfold hpc; sproj. destruct (token s l) as [[w0|]|]; auto. destruct (Dp l w0) as (_ & D2 & _). rewrite D2. exact Gorder.
        * destruct (L x) as [rx G]. exists rx. apply (linv_frame F s _ x rx G); sproj; rewrite ?upd_other by exact Nl; try reflexivity.
          intros w0 K. apply Dp.
      + intros u. destruct (Z.eq_dec u t) as [->|N].
        * apply (tinv_pop s _ t l _ r (T t) E); sproj; [apply upd_same | |].
          -- intros x. rewrite <- T2. reflexivity.
          -- intros x. destruct (Z.eq_dec x l) as [->|Nx]; [rewrite upd_same | rewrite upd_other by exact Nx; apply NWx; exact Nx].
             destruct d; [rewrite in_remove_z; tauto | apply NWl; reflexivity].
        * apply (tinv_other F s _ u (T u)); sproj; [apply upd_other; exact N | tauto |].
          intros x. destruct (Z.eq_dec x l) as [->|Nx]; [rewrite upd_same | rewrite upd_other by exact Nx; tauto].
          destruct d; [rewrite in_remove_z|]; tauto.
  Qed.

  Lemma step_wake s t l q d r o s' :
    Inv F s -> valid_tid t -> stk s t = (l, PA_wake q d) :: r -> gstep F s t o = Some s' -> Inv F s'.
  Proof.
    intros I Vt E B. unfold gstep in B. rewrite E in B. pose proof I as [L T]. destruct (L l) as [r0 G0].
    destruct (tinv_top s t l _ r (T t) E) as (_ & _ & _ & _ & (_ & Bq & _) & _). pose proof (Bq q eq_refl) as Q.
    pose proof G0 as G0'. dG G0'. pose proof Gwf as W0. unfold wfr in W0.
    rewrite Genc in B. unfold w_wake, ENQUEUED in B.
    pose proof (merged_wf r0 q Gwf Q) as Wm. unfold wfr in Wm.
    destruct (merged_same r0 q) as (M1 & M2 & M3 & M4 & M5 & M6 & M7 & M8 & M9 & M10).
    destruct d.
    - rewrite (wakeup_fields r0 q 3 1 Gwf Q eq_refl) in B. cbv zeta in B.
      set (m := merged r0 q) in *.
      set (e' := if can_enqueue r0 then 1 else f_enq m) in *.
      assert (He' : 0 <= e' < 2) by (subst e'; destruct (can_enqueue r0); lia).
      set (r' := mk (f_owner m) (f_tr m) e' (f_mq m) (f_ov m) (f_role m) (f_em m) 1 (f_pb m) (f_wq m) (f_ib m) (f_hi m)) in *.
      assert (W' : wfr r') by (subst r'; apply wfr_mk'; lia).
      cbv iota beta in B. rewrite (enq_flipped_fields r0 r' Gwf W'), (max_qos_f r' W') in B.
      pose proof (wake_commit s t l q true r r0 r' (f_mq r') I Vt E G0 W') as WC.
      unfold after_wake in WC. subst r'. unfold mk in WC, B; cbn [f_owner f_tr f_enq f_mq f_ov f_role f_em f_d f_pb f_wq f_ib f_hi] in WC, B.
      subst e'. destruct (can_enqueue r0) eqn:CE.
      + assert (f_enq r0 = 0).
        { unfold can_enqueue in CE. rewrite !andb_true_iff in CE. destruct CE as [[[_ C2] _] _]. apply Z.eqb_eq in C2. exact C2. }
        replace (f_enq r0 =? 1) with false in B by (symmetry; apply Z.eqb_neq; lia). cbn [negb] in B. injection B as <-.
        apply WC; try congruence; try reflexivity; lia.
      + replace (f_enq r0 =? f_enq m) with true in B by (rewrite M3; symmetry; apply Z.eqb_refl). cbn [negb] in B. injection B as <-.
        apply WC; try congruence; try reflexivity; lia.
    - rewrite (wakeup_fields_nodirty r0 q 1 1 Gwf Q eq_refl) in B. cbv zeta in B.
      set (m := merged r0 q) in *.
      destruct (can_enqueue r0) eqn:CE.
      + set (r' := mk (f_owner m) (f_tr m) 1 (f_mq m) (f_ov m) (f_role m) (f_em m) (f_d m) (f_pb m) (f_wq m) (f_ib m) (f_hi m)) in *.
        assert (W' : wfr r') by (subst r'; apply wfr_mk'; lia).
        rewrite (enq_flipped_fields r0 r' Gwf W'), (max_qos_f r' W') in B.
        pose proof (wake_commit s t l q false r r0 r' (f_mq r') I Vt E G0 W') as WC.
        unfold after_wake in WC. rewrite CE in WC. subst r'. unfold mk in WC, B; cbn [f_owner f_tr f_enq f_mq f_ov f_role f_em f_d f_pb f_wq f_ib f_hi] in WC, B.
        assert (f_enq r0 = 0).
        { unfold can_enqueue in CE. rewrite !andb_true_iff in CE. destruct CE as [[[_ C2] _] _]. apply Z.eqb_eq in C2. exact C2. }
        replace (f_enq r0 =? 1) with false in B by (symmetry; apply Z.eqb_neq; lia). cbn [negb] in B. injection B as <-.
        apply WC; try congruence; try reflexivity; lia.
      + destruct (f_mq r0 <? q) eqn:Lt.
        * rewrite (enq_flipped_fields r0 m Gwf (merged_wf r0 q Gwf Q)), (max_qos_f m (merged_wf r0 q Gwf Q)) in B.
          replace (f_enq r0 =? f_enq m) with true in B by (rewrite M3; symmetry; apply Z.eqb_refl). cbn [negb] in B. injection B as <-.
          pose proof (wake_commit s t l q false r r0 m (f_mq m) I Vt E G0 (merged_wf r0 q Gwf Q)) as WC.
          unfold after_wake in WC. rewrite CE in WC.
          apply WC; try congruence; try reflexivity; lia.
        * injection B as <-. apply (Inv_leave s t l _ r I E); reflexivity.
  Qed.

  Lemma step_tpush s t l q r o s' :
    Inv F s -> stk s t = (l, PA_tpush q) :: r -> gstep F s t o = Some s' -> Inv F s'.
  Proof.
    intros [L T] E B. unfold gstep in B. rewrite E in B. injection B as <-.
    destruct (tinv_top s t l _ r (T t) E) as (T1 & T2 & T3 & T4 & T5 & T6).
    cbn [frame_tokens app] in T1, T2.
    assert (Kl : token s l = Some (Some t)) by (apply T2; left; reflexivity).
    assert (NHl : ~ In l (holds r)) by (inversion T1; assumption).
    pose proof (fun x => not_waker_top s t l _ r x (T t) E eq_refl) as NW.
    destruct (target F l) as [p|] eqn:Tg.
    - (* a tail call into _dispatch_lane_push on the target *)
      assert (Fo' : frame_ok F (p, PA_xchg (WLane l) (push_qos F p q))).
      { destruct T5 as (_ & Bq & _). pose proof (Bq q eq_refl) as Q. split; [discriminate|]. split; [|exact Tg].
        intros q0 Hq. injection Hq as <-. unfold push_qos, push_qos_of. destruct (prio F p <? q); lia. }
      split.
      + apply lanes_after_stack_change; [exact L|]. intros x K. rewrite E, !dpc_cons_pa by reflexivity. apply dsim_refl.
      + apply threads_after_stack_change; [exact T|]. unfold tinv. sproj. rewrite upd_same, holds_cons.
        cbn [frame_tokens app topwaker waker_pc]. split; [exact T1|]. split; [exact T2|]. split; [|split; [exact T4 | constructor; assumption]].
        intros x. split; [intros H; exfalso; exact (NW x H) | discriminate].
    - (* the bottom goes to its root queue *)
      split.
      + intros x. destruct (L x) as [rx G]. destruct (Z.eq_dec x l) as [->|Nl].
        * exists rx. dG G. unfold hpc in *. rewrite Kl in *.
          assert (Dn : dpc (stk s t) l = None) by (rewrite E, dpc_cons_pa by reflexivity; apply dpc_none_not_holds_drain; exact NHl).
          rewrite Dn in *. cbn [lockedb inflight_pc] in *.
          constructor; sproj; rewrite ?upd_same; auto.
          -- split; [intros _; discriminate | intros _; apply Genq; discriminate].
          -- rewrite Tg. lia.
          -- rewrite Tg. exact Gwhere.
          -- tauto.
          -- intros _. left. discriminate.
          -- intros w0 p K. discriminate.
          -- unfold hpc; sproj. rewrite ?upd_same. exact Gorder.
        * exists rx. apply (linv_frame F s _ x rx G); sproj; rewrite ?upd_other by exact Nl; try reflexivity.
          intros w0 K. destruct (Z.eq_dec w0 t) as [->|N]; [|rewrite upd_other by exact N; apply dsim_refl].
          rewrite upd_same, E. apply dsim_pop. right. reflexivity.
      + intros u. destruct (Z.eq_dec u t) as [->|N].
        * apply (tinv_pop s _ t l _ r (T t) E); sproj; [apply upd_same | | exact NW].
          intros x. destruct (Z.eq_dec x l) as [->|Nx]; [rewrite upd_same | rewrite upd_other by exact Nx].
          -- split; [discriminate | intros H; contradiction].
          -- rewrite <- T2. cbn [In]. split; [intros [H|H]; [congruence | exact H] | intros H; right; exact H].
        * apply (tinv_other F s _ u (T u)); sproj; [apply upd_other; exact N | | tauto].
          intros x. destruct (Z.eq_dec x l) as [->|Nx]; [rewrite upd_same, Kl | rewrite upd_other by exact Nx; tauto].
          split; intros H; [discriminate | injection H as H; congruence].
  Qed.

  (* ---------------------------------------------------------------- the steps of the drain path *)
  (* the top frame moves and the word of its lane changes: only the lane's own invariant is left to show *)
  Lemma Inv_top_word s t l p p' r v :
    Inv F s -> stk s t = (l, p) :: r ->
    frame_tokens (l, p') = frame_tokens (l, p) -> waker_pc p = false -> waker_pc p' = false ->
    shape F ((l, p') :: r) -> frame_ok F (l, p') ->
    (exists r', linv F (set_stk (set_st s l v) t ((l, p') :: r)) l r') ->
    Inv F (set_stk (set_st s l v) t ((l, p') :: r)).
  Proof.
    intros [L T] E Ft Wk Wk' Sh Fo Gl. destruct (tinv_top s t l p r (T t) E) as (T1 & T2 & T3 & T4 & T5 & T6). split.
    - intros x. destruct (Z.eq_dec x l) as [->|Nl]; [exact Gl|].
      destruct (L x) as [rx G]. exists rx. apply (linv_frame F s _ x rx G); sproj; rewrite ?upd_other by exact Nl; try reflexivity.
      intros w0 K. destruct (Z.eq_dec w0 t) as [->|N]; [|rewrite upd_other by exact N; apply dsim_refl].
      rewrite upd_same, E, !dpc_cons_other by exact Nl. apply dsim_refl.
    - intros u. destruct (Z.eq_dec u t) as [->|N].
      + unfold tinv. sproj. rewrite upd_same, holds_cons, Ft. split; [exact T1|]. split; [exact T2|].
        split; [|split; [exact Sh | constructor; assumption]].
        intros x. cbn [topwaker]. rewrite Wk'. rewrite Wk in T3. apply T3.
      + apply (tinv_other F s _ u (T u)); sproj; [apply upd_other; exact N | tauto | tauto].
  Qed.

  (* the top frame gives the token of its lane back (ENQUEUED cleared) and returns *)
  Lemma Inv_top_release s t l p r v :
    Inv F s -> stk s t = (l, p) :: r -> frame_tokens (l, p) = [l] -> waker_pc p = false ->
    (exists r', linv F (set_stk (set_token (set_st s l v) l None) t (ret r)) l r') ->
    Inv F (set_stk (set_token (set_st s l v) l None) t (ret r)).
  Proof.
    intros [L T] E Ft Wk Gl. destruct (tinv_top s t l p r (T t) E) as (T1 & T2 & T3 & T4 & T5 & T6).
    rewrite Ft in T1, T2. cbn [app] in T1, T2.
    assert (Kl : token s l = Some (Some t)) by (apply T2; left; reflexivity).
    assert (NHl : ~ In l (holds r)) by (inversion T1; assumption).
    split.
    - intros x. destruct (Z.eq_dec x l) as [->|Nl]; [exact Gl|].
      destruct (L x) as [rx G]. exists rx. apply (linv_frame F s _ x rx G); sproj; rewrite ?upd_other by exact Nl; try reflexivity.
      intros w0 K. destruct (Z.eq_dec w0 t) as [->|N]; [|rewrite upd_other by exact N; apply dsim_refl].
      rewrite upd_same, E. apply dsim_pop. left. exact Nl.
    - intros u. destruct (Z.eq_dec u t) as [->|N].
      + apply (tinv_pop s _ t l p r (T t) E); sproj; [apply upd_same | |].
        * intros x. destruct (Z.eq_dec x l) as [->|Nx]; [rewrite upd_same | rewrite upd_other by exact Nx].
          -- split; [discriminate | intros H; contradiction].
          -- rewrite <- T2. cbn [In]. split; [intros [H|H]; [congruence | exact H] | intros H; right; exact H].
        * intros x. apply (not_waker_top s t l p r x (T t) E Wk).
      + apply (tinv_other F s _ u (T u)); sproj; [apply upd_other; exact N | | tauto].
        intros x. destruct (Z.eq_dec x l) as [->|Nx]; [rewrite upd_same, Kl | rewrite upd_other by exact Nx; tauto].
        split; intros H; [discriminate | injection H as H; congruence].
  Qed.

  Lemma shape_drain_move l p p' r : shape F ((l, p) :: r) -> is_drain p = true -> is_drain p' = true -> not_invoking p' -> shape F ((l, p') :: r).
  Proof.
    cbn [shape]. intros S D D' NI. rewrite D in S. rewrite D'. destruct S as [C _]. split; [|exact NI].
    cbn [chain] in C |- *. destruct C as (_ & _ & C). auto.
  Qed.

  Lemma OWN_from_lock : 18014398509481984 + 9007199254740992 + 2147483648 * 1 - 2199023255552 * 4095 = OWN.
  Proof. reflexivity. Qed.
  Lemma OWN_unlock : Z.lor (Z.land OWN ENQUEUED) SERIAL_OWNED = OWN.
  Proof. reflexivity. Qed.

  Lemma owned_top s t l p r o : tinv F s t -> stk s t = (l, p) :: r -> owned_of p = Some o -> o = OWN.
  Proof. intros T E H. destruct (tinv_top s t l p r T E) as (_ & _ & _ & _ & (A & _) & _). apply A. exact H. Qed.

  Lemma frame_ok_own l p : owned_of p = Some OWN -> qos_of p = None ->
    match p with PW_run _ (Lane _) _ | PW_invoking _ _ _ | PW_finish _ => False | _ => True end -> frame_ok F (l, p).
  Proof.
    intros O Q M. split; [intros o H; congruence|]. split; [intros q H; congruence|].
    destruct p; try exact I; try contradiction; try discriminate. match goal with x : ent |- _ => destruct x end; [exact I | contradiction].
  Qed.

  (* facts about the lane of a thread's top drain frame *)
  Lemma top_drain_facts s t l p r rl :
    Inv F s -> stk s t = (l, p) :: r -> is_drain p = true -> linv F s l rl ->
    token s l = Some (Some t) /\ valid_tid t /\ (if locked_pc p then held rl t else free rl) /\ f_enq rl = 1.
  Proof.
    intros [L T] E D G. pose proof (holder_of_top s t l p r (T t) E D) as K. dG G. rewrite K in Glock.
    rewrite E, dpc_cons_same in Glock by exact D. cbn [lockedb] in Glock. destruct Glock as [V H].
    split; [exact K|]. split; [exact V|]. split; [exact H|]. apply Genq. rewrite K. discriminate.
  Qed.

  Lemma step_lock s t l fl r o s' :
    Inv F s -> stk s t = (l, PW_lock fl) :: r -> gstep F s t o = Some s' -> Inv F s'.
  Proof.
    intros I E B. unfold gstep in B. rewrite E in B. pose proof I as [L T]. destruct (L l) as [rl G].
    destruct (top_drain_facts s t l _ r rl I E eq_refl G) as (K & Vt & Fr & En). cbn [locked_pc] in Fr.
    destruct Fr as (O & Ib & Wq). pose proof G as G'. dG G'. pose proof Gwf as W. unfold wfr in W.
    destruct (tinv_top s t l _ r (T t) E) as (T1 & T2 & T3 & T4 & T5 & T6).
    unfold w_lock in B. rewrite Genc in B. rewrite (lock_fields rl t fl 0 Gwf Vt) in B.
    assert (LF : lock_free rl = true) by (unfold lock_free; rewrite O, Gem, Ib, Ghi, Wq; reflexivity).
    rewrite LF in B.
    destruct ((f_role rl mod 2 =? 1) && (fl <? f_mq rl)) eqn:OV.
    - (* the lock would need a QoS override first: retry with the queue's max QoS as floor *)
      injection B as <-. apply (Inv_goto s t l _ _ r I E); try reflexivity.
      + intros _. repeat split; try discriminate.
      + split; [discriminate|]. split; [discriminate | exact Logic.I].
    - rewrite En, Wq in B. rewrite OWN_from_lock in B. change (OWN =? 0) with false in B. cbv iota in B. injection B as <-.
      apply (Inv_top_word s t l _ _ r _ I E); try reflexivity.
      + apply (shape_drain_move l _ _ r T4); try reflexivity. intros o0 c m H. discriminate.
      + apply frame_ok_own; [reflexivity | reflexivity | exact Logic.I].
      + exists (mk t 0 1 (f_mq rl) 0 (f_role rl) 0 0 0 4096 1 0). unfold hpc in *. rewrite K in *. rewrite E in *.
        rewrite dpc_cons_same in * by reflexivity.
        constructor; sproj; rewrite ?upd_same, ?K; rewrite ?upd_same, ?dpc_cons_same by reflexivity; unfold mk; cbn [f_tr f_em f_pb f_hi f_role f_enq f_d];
          try assumption; try lia; try reflexivity.
        * apply wfr_mk'; unfold valid_tid in Vt; lia.
        * split; [discriminate | reflexivity].
        * cbn [lockedb locked_pc]. split; [exact Vt | unfold held; cbn; auto].
        * intros w0 p K0. injection K0 as <-. rewrite upd_same, dpc_cons_same by reflexivity. intros Hp. injection Hp as <-. discriminate.
        * unfold hpc; sproj. rewrite K, upd_same, dpc_cons_same by reflexivity. exact Gorder.
  Qed.

  Ltac own_top I E :=
    match type of E with stk ?s ?t = (?l, ?p) :: ?r =>
      let H := fresh "Ho" in
      assert (H : forall o, owned_of p = Some o -> o = OWN)
        by (intros o0 Hq; destruct I as [_ T0]; exact (owned_top s t l p r o0 (T0 t) E Hq))
    end.

  Lemma step_tail s t l ow r o s' :
    Inv F s -> stk s t = (l, PW_tail ow) :: r -> gstep F s t o = Some s' -> Inv F s'.
  Proof.
    intros I E B. unfold gstep in B. rewrite E in B. injection B as <-.
    own_top I E. specialize (Ho ow eq_refl). subst ow.
    destruct (lst s l) eqn:Ll.
    - rewrite OWN_unlock. apply (Inv_goto s t l _ _ r I E); try reflexivity.
      + intros _. repeat split; try discriminate. intros _. right. exact Ll.
      + apply frame_ok_own; [reflexivity | reflexivity | exact Logic.I].
    - apply (Inv_goto s t l _ _ r I E); try reflexivity.
      + intros _. repeat split; try discriminate.
      + apply frame_ok_own; [reflexivity | reflexivity | exact Logic.I].
  Qed.

  Lemma step_head s t l ow r o s' :
    Inv F s -> stk s t = (l, PW_head ow) :: r -> gstep F s t o = Some s' -> Inv F s'.
  Proof.
    intros I E B. unfold gstep in B. rewrite E in B.
    own_top I E. specialize (Ho ow eq_refl). subst ow.
    destruct (lst s l) as [|e l0]; [discriminate|]. destruct (e_linked e); [|discriminate]. injection B as <-.
    apply (Inv_goto s t l _ _ r I E); try reflexivity.
    - intros _. repeat split; try discriminate.
    - apply frame_ok_own; [reflexivity | reflexivity | exact Logic.I].
  Qed.

  Lemma step_next s t l ow m r o s' :
    Inv F s -> stk s t = (l, PW_next ow m) :: r -> gstep F s t o = Some s' -> Inv F s'.
  Proof.
    intros I E B. unfold gstep in B. rewrite E in B.
    own_top I E. specialize (Ho ow eq_refl). subst ow.
    destruct m; injection B as <-.
    - apply (Inv_goto s t l _ _ r I E); try reflexivity.
      + intros _. repeat split; try discriminate.
      + apply frame_ok_own; [reflexivity | reflexivity | exact Logic.I].
    - destruct (lst s l) eqn:Ll.
      + change 18016599680221184 with OWN. apply (Inv_goto s t l _ _ r I E); try reflexivity.
        * intros _. repeat split; try discriminate. intros _. right. exact Ll.
        * apply frame_ok_own; [reflexivity | reflexivity | exact Logic.I].
      + apply (Inv_goto s t l _ _ r I E); try reflexivity.
        * intros _. repeat split; try discriminate.
        * apply frame_ok_own; [reflexivity | reflexivity | exact Logic.I].
  Qed.

  Lemma step_incall s t l ow i m r o s' :
    Inv F s -> stk s t = (l, PW_incall ow i m) :: r -> gstep F s t o = Some s' -> Inv F s'.
  Proof.
    intros I E B. unfold gstep in B. rewrite E in B. injection B as <-.
    own_top I E. specialize (Ho ow eq_refl). subst ow.
    apply (Inv_goto s t l _ _ r I E); try reflexivity.
    - intros _. repeat split; try discriminate.
    - apply frame_ok_own; [reflexivity | reflexivity | exact Logic.I].
  Qed.

  Lemma step_xor s t l ow r o s' :
    Inv F s -> stk s t = (l, PW_xor ow) :: r -> gstep F s t o = Some s' -> Inv F s'.
  Proof.
    intros I E B. unfold gstep in B. rewrite E in B. injection B as <-.
    own_top I E. specialize (Ho ow eq_refl). subst ow.
    pose proof I as [L T]. destruct (L l) as [rl G].
    destruct (top_drain_facts s t l _ r rl I E eq_refl G) as (K & Vt & Fr & En). cbn [locked_pc] in Fr.
    destruct (tinv_top s t l _ r (T t) E) as (T1 & T2 & T3 & T4 & T5 & T6).
    pose proof G as G'. dG G'. pose proof Gwf as W. unfold wfr in W.
    unfold w_xor, DIRTY. rewrite Genc, (xor_dirty_fields rl Gwf).
    set (r' := mk (f_owner rl) (f_tr rl) (f_enq rl) (f_mq rl) (f_ov rl) (f_role rl) (f_em rl) (1 - f_d rl) (f_pb rl) (f_wq rl) (f_ib rl) (f_hi rl)).
    set (p' := match target F l with None => PW_tail OWN | Some _ => PW_finish OWN end).
    assert (P1 : frame_tokens (l, p') = [l]) by (subst p'; destruct (target F l); reflexivity).
    assert (P2 : is_drain p' = true /\ locked_pc p' = true /\ unlocking_pc p' = false /\ inflight_pc (Some p') = [] /\ waker_pc p' = false /\ not_invoking p').
    { subst p'; destruct (target F l); repeat split; intros o0 c m H; discriminate. }
    destruct P2 as (P2 & P3 & P4 & P5 & P6 & P7).
    apply (Inv_top_word s t l _ p' r _ I E); try assumption; try reflexivity.
    - apply (shape_drain_move l _ _ r T4); auto.
    - subst p'. destruct (target F l) eqn:Tg.
      + split; [intros o0 H; injection H as <-; reflexivity|]. split; [discriminate|]. rewrite Tg. discriminate.
      + apply frame_ok_own; [reflexivity | reflexivity | exact Logic.I].
    - exists r'. unfold hpc in *. rewrite K in *. rewrite E in *. rewrite dpc_cons_same in * by reflexivity.
      constructor; sproj; rewrite ?upd_same, ?K; rewrite ?upd_same, ?dpc_cons_same by exact P2; subst r'; unfold mk; cbn [f_tr f_em f_pb f_hi f_role f_enq f_d];
        try assumption; try lia; try reflexivity.
      + apply wfr_mk'; lia.
      + cbn [lockedb]. rewrite P3. exact Glock.
      + intros w0 p K0. injection K0 as <-. rewrite upd_same, dpc_cons_same by exact P2. intros Hp. injection Hp as <-. congruence.
      + unfold hpc; sproj. rewrite K, upd_same, dpc_cons_same by exact P2. rewrite P5. exact Gorder.
  Qed.

  Lemma step_unlock s t l ow r o s' :
    Inv F s -> stk s t = (l, PW_unlock ow) :: r -> gstep F s t o = Some s' -> Inv F s'.
  Proof.
    intros I E B. unfold gstep in B. rewrite E in B.
    own_top I E. specialize (Ho ow eq_refl). subst ow.
    pose proof I as [L T]. destruct (L l) as [rl G].
    destruct (top_drain_facts s t l _ r rl I E eq_refl G) as (K & Vt & Fr & En). cbn [locked_pc] in Fr.
    destruct Fr as (O & Ib & Wq).
    destruct (tinv_top s t l _ r (T t) E) as (T1 & T2 & T3 & T4 & T5 & T6).
    pose proof G as G'. dG G'. pose proof Gwf as W. unfold wfr in W.
    unfold w_unlock in B. rewrite Genc in B.
    change OWN with (18014398509481984 + 2199023255552 + 2147483648 * 1) in B.
    rewrite (unlock_fields rl 1 Gwf Ghi Ib Wq) in B by lia.
    destruct (Z.eqb_spec (f_d rl) 1) as [D|D].
    - (* refused: somebody made the queue dirty; clear the bit and look again *)
      injection B as <-. change (18014398509481984 + 2199023255552 + 2147483648 * 1) with OWN.
      apply (Inv_goto s t l _ _ r I E); try reflexivity.
      + intros _. repeat split; try discriminate. intros _. left. reflexivity.
      + apply frame_ok_own; [reflexivity | reflexivity | exact Logic.I].
    - injection B as <-.
      apply (Inv_top_release s t l _ r _ I E); try reflexivity.
      exists (mk 0 0 (f_enq rl - 1) 0 0 (f_role rl) (f_em rl) 0 (f_pb rl) 4095 0 0).
      unfold hpc in *. rewrite K in *. rewrite E in *. rewrite dpc_cons_same in * by reflexivity. cbn [inflight_pc] in Gorder.
      constructor; sproj; rewrite ?upd_same; unfold mk; cbn [f_tr f_em f_pb f_hi f_role f_enq f_d];
        try assumption; try lia; try reflexivity.
      + apply wfr_mk'; lia.
      + rewrite En. split; [discriminate | congruence].
      + unfold free; cbn; auto.
      + intros Hl. right. intros Hw. apply D. apply (Gdirty t (PW_unlock OWN)); auto. rewrite E. apply dpc_cons_same. reflexivity.
      + intros w0 p K0. discriminate.
      + unfold hpc; sproj. rewrite upd_same. exact Gorder.
  Qed.

  Lemma step_finish s t l ow r o s' :
    Inv F s -> stk s t = (l, PW_finish ow) :: r -> gstep F s t o = Some s' -> Inv F s'.
  Proof.
    intros I E B. unfold gstep in B. rewrite E in B.
    own_top I E. specialize (Ho ow eq_refl). subst ow.
    pose proof I as [L T]. destruct (L l) as [rl G].
    destruct (top_drain_facts s t l _ r rl I E eq_refl G) as (K & Vt & Fr & En). cbn [locked_pc] in Fr.
    destruct Fr as (O & Ib & Wq).
    destruct (tinv_top s t l _ r (T t) E) as (T1 & T2 & T3 & T4 & T5 & T6).
    cbn [frame_tokens is_drain app] in T1, T2.
    assert (NHl : ~ In l (holds r)) by (inversion T1; assumption).
    pose proof G as G'. dG G'. pose proof Gwf as W. unfold wfr in W.
    unfold w_finish, ENQUEUED in B. rewrite Genc in B.
    change OWN with (18014398509481984 + 2199023255552 + 2147483648 * 1) in B.
    rewrite (finish_fields rl Gwf Ghi Ib Wq En Gem) in B.
    rewrite (sub_owned rl 1 Gwf Ghi Ib Wq) in B by lia.
    set (r1 := mk (f_owner rl) (f_tr rl) (f_enq rl - 1) (f_mq rl) (f_ov rl) (f_role rl) (f_em rl) (f_d rl) (f_pb rl) 4095 0 0) in *.
    set (r' := mk 0 0 1 (f_mq rl) 0 (f_role rl) 0 1 (f_pb rl) 4095 0 0) in *.
    assert (W1 : wfr r1) by (subst r1; apply wfr_mk'; lia).
    assert (W' : wfr r') by (subst r'; apply wfr_mk'; lia).
    rewrite (enq_flipped_fields r1 r' W1 W'), (max_qos_f r' W') in B.
    replace (f_enq r1 =? f_enq r') with false in B by (subst r1 r'; unfold mk; cbn [f_enq]; rewrite En; reflexivity).
    cbn [negb] in B. injection B as <-.
    apply (Inv_top_word s t l _ _ r _ I E); try reflexivity.
    - cbn [shape is_drain] in T4 |- *. destruct T4 as [C _]. cbn [chain] in C. destruct C as (_ & _ & C).
      destruct r as [|[y qy] r0]; [split; exact Logic.I|]. cbn [chain] in C. destruct C as (Dq & (Tg & o0 & m & ->) & C').
      split; [cbn [chain]; auto|]. right. eauto.
    - split; [discriminate|]. split; [|exact Logic.I]. intros q0 Hq. injection Hq as <-. subst r'. unfold mk; cbn [f_mq]. lia.
    - exists r'. unfold hpc in *. rewrite K in *. rewrite E in *. rewrite dpc_cons_same in * by reflexivity. cbn [inflight_pc] in Gorder.
      constructor; sproj; rewrite ?upd_same, ?K; rewrite ?upd_same, ?dpc_cons_pa by reflexivity; rewrite ?(dpc_none_not_holds_drain r l NHl);
        subst r' r1; unfold mk; cbn [f_tr f_em f_pb f_hi f_role f_enq f_d]; try assumption; try lia; try reflexivity.
      + split; [discriminate | reflexivity].
      + cbn [lockedb]. split; [exact Vt | unfold free; cbn; auto].
      + unfold hpc; sproj. rewrite K, upd_same, dpc_cons_pa by reflexivity. rewrite (dpc_none_not_holds_drain r l NHl). exact Gorder.
  Qed.

  (* the state after the drainer of l took the head entry e off l's list (rest remains) *)
  Definition after_pop (s : gst) (t l : Z) (e : entry) (rest : list entry) (more : bool) (r : list frame) : gst :=
    set_stk (match e_ent e with Lane l' => set_token (set_lst s l rest) l' (Some (Some t)) | Item _ => set_lst s l rest end)
            t ((l, PW_run OWN (e_ent e) more) :: r).

  Lemma pop_commit s t l e rest more r :
    Inv F s -> stk s t = (l, PW_pop OWN) :: r -> lst s l = e :: rest -> Inv F (after_pop s t l e rest more r).
  Proof.
    intros I E Ll. pose proof I as [L T]. destruct (L l) as [rl G].
    destruct (top_drain_facts s t l _ r rl I E eq_refl G) as (K & Vt & Fr & En). cbn [locked_pc] in Fr.
    destruct (tinv_top s t l _ r (T t) E) as (T1 & T2 & T3 & T4 & T5 & T6).
    cbn [frame_tokens is_drain app] in T1, T2.
    pose proof (fun x => not_waker_top s t l _ r x (T t) E eq_refl) as NW.
    unfold after_pop. destruct (e_ent e) as [i|l'] eqn:Ee.
    - (* a work item *)
      assert (Cnt : forall x, count_lane x rest = count_lane x (lst s l)) by (intros x; rewrite Ll; cbn [count_lane]; rewrite Ee; reflexivity).
      split.
      + intros x. destruct (L x) as [rx Gx]. exists rx. destruct (Z.eq_dec x l) as [->|Nl].
        * dG Gx. unfold hpc in *. rewrite K in *. rewrite E in *. rewrite dpc_cons_same in * by reflexivity.
          constructor; sproj; rewrite ?upd_same, ?K; rewrite ?upd_same, ?dpc_cons_same by reflexivity; auto.
          -- intros p. destruct (Z.eq_dec p l) as [->|Np]; [rewrite upd_same, Cnt | rewrite upd_other by exact Np]; apply Gwhere.
          -- intros _. left. discriminate.
          -- intros w0 p K0. injection K0 as <-. rewrite upd_same, dpc_cons_same by reflexivity. intros Hp. injection Hp as <-. discriminate.
          -- unfold hpc; sproj. rewrite K, upd_same, dpc_cons_same by reflexivity. cbn [inflight_pc].
             rewrite Ll in Gorder. unfold items in Gorder. cbn [flat_map inflight_pc] in Gorder. rewrite Ee in Gorder. exact Gorder.
        * apply (linv_frame F s _ x rx Gx); sproj; rewrite ?upd_other by exact Nl; try reflexivity.
          -- intros p. destruct (Z.eq_dec p l) as [->|Np]; [rewrite upd_same, Cnt | rewrite upd_other by exact Np]; reflexivity.
          -- intros w0 K0. destruct (Z.eq_dec w0 t) as [->|N]; [|rewrite upd_other by exact N; apply dsim_refl].
             rewrite upd_same, E, !dpc_cons_other by exact Nl. apply dsim_refl.
      + intros u. destruct (Z.eq_dec u t) as [->|N].
        * unfold tinv. sproj. rewrite upd_same, holds_cons. cbn [frame_tokens is_drain app topwaker waker_pc].
          split; [exact T1|]. split; [exact T2|]. split; [|split].
          -- intros x. split; [intros H; exfalso; exact (NW x H) | discriminate].
          -- apply (shape_drain_move l _ _ r T4); try reflexivity. intros o0 c m H. discriminate.
          -- constructor; [|exact T6]. apply frame_ok_own; [reflexivity | reflexivity | exact Logic.I].
        * apply (tinv_other F s _ u (T u)); sproj; [apply upd_other; exact N | tauto | tauto].
    - (* a lane: the thread takes its token out of the list *)
      destruct (L l') as [r' G'].
      assert (Cl' : (0 < count_lane l' (lst s l))%nat) by (rewrite Ll; cbn [count_lane]; rewrite Ee, Z.eqb_refl; lia).
      assert (HK : token s l' = Some None /\ target F l' = Some l).
      { pose proof (g_where F s l' r' G' l) as H. destruct (token s l') as [[w|]|]; try lia. destruct (target F l') as [p'|]; try lia.
        destruct (Z.eqb_spec p' l); [subst; auto | lia]. }
      destruct HK as [K' Tg]. pose proof (target_neq l' l Tg) as N1.
      assert (NH' : ~ In l' (l :: holds r)) by (intros H; apply T2 in H; congruence).
      assert (Cnt : forall x, x <> l' -> count_lane x rest = count_lane x (lst s l)).
      { intros x Nx. rewrite Ll. cbn [count_lane]. rewrite Ee. destruct (Z.eqb_spec l' x); [congruence | reflexivity]. }
      split.
      + intros x. destruct (L x) as [rx Gx]. destruct (Z.eq_dec x l) as [->|Nl]; [|destruct (Z.eq_dec x l') as [->|Nl']].
        * exists rx. dG Gx. unfold hpc in *. rewrite K in *. rewrite E in *. rewrite dpc_cons_same in * by reflexivity.
          constructor; sproj; rewrite ?upd_same; rewrite ?(upd_other _ l' _ l) by congruence; rewrite ?K; rewrite ?upd_same, ?dpc_cons_same by reflexivity; auto.
          -- intros p. destruct (Z.eq_dec p l) as [->|Np]; [rewrite upd_same, Cnt by congruence | rewrite upd_other by exact Np]; apply Gwhere.
          -- intros _. left. discriminate.
          -- intros w0 p K0. injection K0 as <-. rewrite upd_same, dpc_cons_same by reflexivity. intros Hp. injection Hp as <-. discriminate.
          -- unfold hpc; sproj. rewrite (upd_other _ l' _ l) by congruence. rewrite K, upd_same, dpc_cons_same by reflexivity. cbn [inflight_pc].
             rewrite Ll in Gorder. unfold items in Gorder. cbn [flat_map inflight_pc] in Gorder. rewrite Ee in Gorder. exact Gorder.
        * (* the popped lane: its token is now held by t, which has no drain frame for it yet *)
          exists rx. dG Gx. unfold hpc in *. rewrite K' in *.
          assert (Dn : dpc ((l, PW_run OWN (Lane l') more) :: r) l' = None).
          { rewrite dpc_cons_other by exact Nl. apply dpc_none_not_holds_drain. intros H. apply NH'. right. exact H. }
          constructor; sproj; rewrite ?upd_same; rewrite ?(upd_other _ l _ l') by exact Nl; rewrite ?upd_same, ?Dn; auto.
          -- split; [intros _; discriminate | intros _; apply Genq; discriminate].
          -- rewrite Tg in Grootq. exact Grootq.
          -- rewrite Tg in Gwhere. intros p. destruct (Z.eq_dec p l) as [->|Np].
             ++ rewrite upd_same. specialize (Gwhere l). rewrite Z.eqb_refl, Ll in Gwhere. cbn [count_lane] in Gwhere. rewrite Ee, Z.eqb_refl in Gwhere. lia.
             ++ rewrite upd_other by exact Np. specialize (Gwhere p). destruct (Z.eqb_spec l p); [congruence | exact Gwhere].
          -- intros _. left. discriminate.
          -- intros w0 p K0. injection K0 as <-. rewrite upd_same, Dn. discriminate.
          -- unfold hpc; sproj. rewrite !upd_same, Dn. exact Gorder.
        * exists rx. apply (linv_frame F s _ x rx Gx); sproj; rewrite ?upd_other by assumption; try reflexivity.
          -- intros p. destruct (Z.eq_dec p l) as [->|Np]; [rewrite upd_same, Cnt by exact Nl' | rewrite upd_other by exact Np]; reflexivity.
          -- intros w0 K0. destruct (Z.eq_dec w0 t) as [->|N]; [|rewrite upd_other by exact N; apply dsim_refl].
             rewrite upd_same, E, !dpc_cons_other by exact Nl. apply dsim_refl.
      + intros u. destruct (Z.eq_dec u t) as [->|N].
        * unfold tinv. sproj. rewrite upd_same, holds_cons. cbn [frame_tokens is_drain app topwaker waker_pc].
          split; [|split; [|split; [|split]]].
          -- inversion T1 as [|y k Hy Hk]; subst. constructor; [|constructor; [|exact Hk]].
             ++ intros [H|H]; [congruence | exact (Hy H)].
             ++ intros H. apply NH'. right. exact H.
          -- intros x. destruct (Z.eq_dec x l') as [->|Nx]; [rewrite upd_same; cbn [In]; tauto|].
             rewrite upd_other by exact Nx. rewrite <- T2. cbn [In]. split; [intros [H|[H|H]]; [auto | congruence | auto] | intros [H|H]; auto].
          -- intros x. split; [intros H; exfalso; exact (NW x H) | discriminate].
          -- apply (shape_drain_move l _ _ r T4); try reflexivity. intros o0 c m H. discriminate.
          -- constructor; [|exact T6]. split; [intros o0 H; injection H as <-; reflexivity|]. split; [discriminate | exact Tg].
        * apply (tinv_other F s _ u (T u)); sproj; [apply upd_other; exact N | | tauto].
          intros x. destruct (Z.eq_dec x l') as [->|Nx]; [rewrite upd_same, K' | rewrite upd_other by exact Nx; tauto].
          split; intros H; [injection H as H; congruence | discriminate].
  Qed.

  Lemma step_pop s t l ow r o s' :
    Inv F s -> stk s t = (l, PW_pop ow) :: r -> gstep F s t o = Some s' -> Inv F s'.
  Proof.
    intros I E B. unfold gstep in B. rewrite E in B.
    own_top I E. specialize (Ho ow eq_refl). subst ow.
    destruct (lst s l) as [|e [|e2 l0]] eqn:Ll; [discriminate| |].
    - injection B as <-. exact (pop_commit s t l e [] false r I E Ll).
    - destruct (e_linked e2); [|discriminate]. injection B as <-. exact (pop_commit s t l e (e2 :: l0) true r I E Ll).
  Qed.

  Lemma step_run_item s t l ow i m r o s' :
    Inv F s -> stk s t = (l, PW_run ow (Item i) m) :: r -> gstep F s t o = Some s' -> Inv F s'.
  Proof.
    intros I E B. unfold gstep in B. rewrite E in B. injection B as <-.
    own_top I E. specialize (Ho ow eq_refl). subst ow.
    pose proof I as [L T]. destruct (L l) as [rl G].
    destruct (top_drain_facts s t l _ r rl I E eq_refl G) as (K & Vt & Fr & En). cbn [locked_pc] in Fr.
    destruct (tinv_top s t l _ r (T t) E) as (T1 & T2 & T3 & T4 & T5 & T6).
    pose proof (fun x => not_waker_top s t l _ r x (T t) E eq_refl) as NW.
    split.
    - intros x. destruct (L x) as [rx Gx]. exists rx. destruct (Z.eq_dec x l) as [->|Nl].
      + dG Gx. unfold hpc in *. rewrite K in *. rewrite E in *. rewrite dpc_cons_same in * by reflexivity.
        constructor; sproj; rewrite ?upd_same, ?K; rewrite ?upd_same, ?dpc_cons_same by reflexivity; auto.
        * intros w0 p K0. injection K0 as <-. rewrite upd_same, dpc_cons_same by reflexivity. intros Hp. injection Hp as <-. discriminate.
        * unfold hpc; sproj. rewrite K, upd_same, dpc_cons_same by reflexivity. cbn [inflight_pc rev app] in *.
          rewrite <- app_assoc. exact Gorder.
      + apply (linv_frame F s _ x rx Gx); sproj; rewrite ?upd_other by exact Nl; try reflexivity.
        intros w0 K0. destruct (Z.eq_dec w0 t) as [->|N]; [|rewrite upd_other by exact N; apply dsim_refl].
        rewrite upd_same, E, !dpc_cons_other by exact Nl. apply dsim_refl.
    - intros u. destruct (Z.eq_dec u t) as [->|N].
      + unfold tinv. sproj. rewrite upd_same, holds_cons. cbn [frame_tokens is_drain app topwaker waker_pc] in *.
        split; [exact T1|]. split; [exact T2|]. split; [|split].
        * intros x. split; [intros H; exfalso; exact (NW x H) | discriminate].
        * apply (shape_drain_move l _ _ r T4); try reflexivity. intros o0 c m0 H. discriminate.
        * constructor; [|exact T6]. apply frame_ok_own; [reflexivity | reflexivity | exact Logic.I].
      + apply (tinv_other F s _ u (T u)); sproj; [apply upd_other; exact N | tauto | tauto].
  Qed.

  (* dx_invoke of an inner lane: a new frame on the stack *)
  Lemma step_run_lane s t l ow l' m r o s' :
    Inv F s -> stk s t = (l, PW_run ow (Lane l') m) :: r -> gstep F s t o = Some s' -> Inv F s'.
  Proof.
    intros I E B. unfold gstep in B. rewrite E in B. injection B as <-.
    own_top I E. specialize (Ho ow eq_refl). subst ow.
    pose proof I as [L T].
    destruct (tinv_top s t l _ r (T t) E) as (T1 & T2 & T3 & T4 & T5 & T6).
    cbn [frame_tokens app] in T1, T2.
    pose proof (fun x => not_waker_top s t l _ r x (T t) E eq_refl) as NW.
    assert (Tg : target F l' = Some l) by (destruct T5 as (_ & _ & Tg); exact Tg).
    pose proof (target_neq l' l Tg) as N1.
    assert (NH' : ~ In l' (holds r)).
    { inversion T1 as [|y k Hy Hk]; subst. inversion Hk as [|y' k' Hy' Hk']; subst. exact Hy'. }
    split.
    - apply lanes_after_stack_change; [exact L|]. intros x K. rewrite E.
      destruct (Z.eq_dec x l) as [->|Nl]; [|destruct (Z.eq_dec x l') as [->|Nl']].
      + rewrite (dpc_cons_other l' _ _ l) by congruence. rewrite !dpc_cons_same by reflexivity.
        repeat split. intros p' Hp U. injection Hp as <-. discriminate.
      + rewrite dpc_cons_same by reflexivity. rewrite (dpc_cons_other l _ _ l') by exact N1.
        rewrite (dpc_none_not_holds_drain r l' NH'). repeat split. intros p' Hp U. injection Hp as <-. discriminate.
      + rewrite !dpc_cons_other by assumption. apply dsim_refl.
    - apply threads_after_stack_change; [exact T|]. unfold tinv. sproj. rewrite upd_same, !holds_cons.
      cbn [frame_tokens is_drain app topwaker waker_pc].
      split; [|split; [|split; [|split]]].
      + inversion T1 as [|y k Hy Hk]; subst. inversion Hk as [|y' k' Hy' Hk']; subst.
        constructor; [|constructor; [|exact Hk']].
        * intros [H|H]; [congruence | exact (Hy' H)].
        * intros H. apply Hy. right. exact H.
      + intros x. rewrite <- T2. cbn [In]. tauto.
      + intros x. split; [intros H; exfalso; exact (NW x H) | discriminate].
      + cbn [shape is_drain chain]. cbn [shape is_drain chain] in T4. destruct T4 as [(_ & _ & C) _].
        split; [|intros o0 c m0 H; discriminate]. repeat split; eauto.
      + constructor; [|constructor; [|exact T6]].
        * split; [discriminate|]. split; [discriminate | exact Logic.I].
        * split; [intros o0 H; injection H as <-; reflexivity|]. split; [discriminate | exact Tg].
  Qed.

  Theorem step_preserves s a s' : Inv F s -> step F s a s' -> Inv F s'.
  Proof.
    intros I H. destruct a as [t c|t o]; destruct H as [V B].
    - exact (begin_preserves s t c s' I V B).
    - destruct (stk s t) as [|[l p] r] eqn:E; [unfold gstep in B; rewrite E in B; discriminate|].
      destruct p.
      + destruct w; [eapply step_xchg_item | eapply step_xchg_lane]; eauto.
      + eapply step_link; eauto.
      + eapply step_probe; eauto.
      + eapply step_wake; eauto.
      + eapply step_tpush; eauto.
      + eapply step_lock; eauto.
      + eapply step_tail; eauto.
      + eapply step_head; eauto.
      + eapply step_pop; eauto.
      + destruct e; [eapply step_run_item | eapply step_run_lane]; eauto.
      + eapply step_incall; eauto.
      + unfold gstep in B. rewrite E in B. discriminate.
      + eapply step_next; eauto.
      + eapply step_unlock; eauto.
      + eapply step_xor; eauto.
      + eapply step_finish; eauto.
  Qed.

  Theorem Inv_reachable s : reach F s -> Inv F s.
  Proof.
    apply invariant_lift.
    - intros s0 ->. apply Inv_init.
    - intros s1 a s2 I H. exact (step_preserves s1 a s2 I H).
  Qed.

  (* ---------------------------------------------------------------- the forest *)
  Lemma bottom_n_stable n : forall m l, (depth F l <= n)%nat -> (depth F l <= m)%nat -> bottom_n F n l = bottom_n F m l.
  Proof.
    induction n as [|n IH]; intros m l Hn Hm.
    - destruct m as [|m]; [reflexivity|]. cbn [bottom_n]. destruct (target F l) as [p|] eqn:E; [|reflexivity].
      destruct FOK as (A & _). destruct (A l p E) as [H _]. lia.
    - cbn [bottom_n]. destruct (target F l) as [p|] eqn:E.
      + destruct FOK as (A & _). destruct (A l p E) as [H _]. destruct m as [|m]; [lia|]. cbn [bottom_n]. rewrite E. apply IH; lia.
      + destruct m as [|m]; [reflexivity|]. cbn [bottom_n]. rewrite E. reflexivity.
  Qed.

  Lemma bottom_root l : target F l = None -> bottom F l = l.
  Proof. intros E. unfold bottom. destruct (depth F l); cbn [bottom_n]; [reflexivity|]. rewrite E. reflexivity. Qed.

  Lemma bottom_step l p : target F l = Some p -> bottom F l = bottom F p.
  Proof.
    intros E. unfold bottom. destruct FOK as (A & _). destruct (A l p E) as [H _].
    destruct (depth F l) as [|n] eqn:D; [lia|]. cbn [bottom_n]. rewrite E. apply bottom_n_stable; lia.
  Qed.

  Lemma bottom_is_bottom l : target F (bottom F l) = None.
  Proof.
    remember (depth F l) as n eqn:D. revert l D. induction n as [n IH] using lt_wf_ind. intros l D.
    destruct (target F l) as [p|] eqn:E.
    - rewrite (bottom_step l p E). destruct FOK as (A & _). destruct (A l p E) as [H _]. apply (IH (depth F p)); [lia | reflexivity].
    - rewrite (bottom_root l E). exact E.
  Qed.

  (* ---------------------------------------------------------------- what the invariant says to a client *)
  (* 1. stack discipline: the drain frames of a thread's stack are a path of the forest down to a bottom, and the thread
        holds the enqueued token of every lane on it and the drain lock of every lane it is past PW_lock on *)
  Definition dframes (k : list frame) : list frame := filter (fun f => is_drain (snd f)) k.
  Fixpoint path (ls : list Z) : Prop :=
    match ls with
    | [] => True
    | l :: r => match r with [] => target F l = None | p :: _ => target F l = Some p end /\ path r
    end.

  Lemma chain_all_drain c k : chain F c k -> dframes k = k.
  Proof.
    revert c. induction k as [|[l p] r IH]; intros c; cbn [chain]; [reflexivity|]. intros (D & _ & C).
    unfold dframes in *. cbn [filter snd]. rewrite D. f_equal. exact (IH _ C).
  Qed.

  Lemma chain_path c k : chain F c k -> path (map fst k) /\ match c, k with Some x, (l, _) :: _ => target F x = Some l | Some x, [] => target F x = None | None, _ => True end.
  Proof.
    revert c. induction k as [|[l p] r IH]; intros c; cbn [chain].
    - intros H. split; [exact Logic.I|]. destruct c; auto.
    - intros (D & Hc & C). destruct (IH _ C) as [P Q]. split.
      + cbn [map fst path]. split; [|exact P]. destruct r as [|[y q] r']; exact Q.
      + destruct c; [tauto | exact Logic.I].
  Qed.

  Lemma shape_drain_part k : shape F k -> exists kd, chain F None kd /\ dframes k = kd /\ (forall f, In f kd -> In f k).
  Proof.
    destruct k as [|[l p] r]; cbn [shape]; [intros _; exists []; repeat split; auto|].
    destruct (is_drain p) eqn:D.
    - intros [C _]. exists ((l, p) :: r). split; [exact C|]. split; [apply (chain_all_drain None); exact C | auto].
    - intros [C _]. exists r. split; [exact C|]. split.
      + unfold dframes. cbn [filter snd]. rewrite D. apply (chain_all_drain None). exact C.
      + intros f H. right. exact H.
  Qed.

  Lemma drain_frame_token s t l p : tinv F s t -> In (l, p) (stk s t) -> is_drain p = true -> token s l = Some (Some t).
  Proof.
    intros (_ & T2 & _) H D. apply T2. unfold holds. apply in_flat_map. exists (l, p). split; [exact H|].
    unfold frame_tokens. destruct p; cbn in D |- *; try discriminate; try (left; reflexivity). destruct e; left; reflexivity.
  Qed.

  Lemma nodup_holds_dpc k l p : NoDup (holds k) -> In (l, p) k -> is_drain p = true -> dpc k l = Some p.
  Proof.
    induction k as [|[x q] k IH]; cbn [In]; [contradiction|]. intros ND [H|H] D.
    - injection H as -> ->. apply dpc_cons_same. exact D.
    - rewrite holds_cons in ND. pose proof (nodup_app_r _ _ ND) as ND'.
      cbn [dpc]. destruct ((x =? l) && is_drain q) eqn:C; [|apply IH; assumption].
      exfalso. apply andb_true_iff in C. destruct C as [C1 C2]. apply Z.eqb_eq in C1. subst x.
      apply (nodup_app_disj _ _ l ND).
      + unfold frame_tokens. destruct q; cbn in C2 |- *; try discriminate; try (left; reflexivity). destruct e; left; reflexivity.
      + unfold holds. apply in_flat_map. exists (l, p). split; [exact H|].
        unfold frame_tokens. destruct p; cbn in D |- *; try discriminate; try (left; reflexivity). destruct e; left; reflexivity.
  Qed.

  Theorem stack_discipline s t :
    reach F s ->
    path (map fst (dframes (stk s t))) /\
    (forall l p, In (l, p) (dframes (stk s t)) ->
       token s l = Some (Some t) /\ (locked_pc p = true -> exists r, st s l = enc r /\ wfr r /\ held r t)).
  Proof.
    intros R. destruct (Inv_reachable s R) as [L T]. pose proof (T t) as Tt. destruct Tt as (T1 & T2 & T3 & T4 & T5).
    destruct (shape_drain_part _ T4) as (kd & C & Ed & Sub). rewrite Ed. split.
    - apply (chain_path None kd C).
    - intros l p H. rewrite <- Ed in H. unfold dframes in H. apply filter_In in H. destruct H as [H D]. cbn [snd] in D.
      pose proof (drain_frame_token s t l p (T t) H D) as K. split; [exact K|].
      intros Lk. destruct (L l) as [r G]. exists r. dG G. split; [exact Genc|]. split; [exact Gwf|].
      rewrite K in Glock. rewrite (nodup_holds_dpc _ l p T1 H D) in Glock. cbn [lockedb] in Glock. rewrite Lk in Glock. tauto.
  Qed.

  (* the drain lock of a lane is exclusive *)
  Theorem lock_exclusive s t1 t2 l p1 p2 :
    reach F s -> In (l, p1) (stk s t1) -> is_drain p1 = true -> In (l, p2) (stk s t2) -> is_drain p2 = true -> t1 = t2.
  Proof.
    intros R H1 D1 H2 D2. destruct (Inv_reachable s R) as [L T].
    pose proof (drain_frame_token s t1 l p1 (T t1) H1 D1). pose proof (drain_frame_token s t2 l p2 (T t2) H2 D2). congruence.
  Qed.

  (* 2. global exclusion *)
  Lemma chain_below_invoking c k : chain F (Some c) k -> forall f, In f k -> exists o c' m, snd f = PW_invoking o c' m.
  Proof.
    revert c. induction k as [|[l p] r IH]; intros c; cbn [chain In]; [contradiction|].
    intros (_ & (_ & o & m & ->) & C) f [<-|H]; [cbn; eauto|]. exact (IH l C f H).
  Qed.

  Lemma chain_bottom c k l p :
    chain F c k -> In (l, p) k -> exists b pb, In (b, pb) k /\ target F b = None /\ bottom F l = b /\ (locked_pc p = true -> locked_pc pb = true).
  Proof.
    revert c l p. induction k as [|[x q] r IH]; intros c l p; cbn [chain In]; [contradiction|].
    intros (D & _ & C) H. destruct r as [|[y q'] r'].
    - destruct H as [H|[]]. injection H as -> ->. cbn [chain] in C. exists l, p. split; [left; reflexivity|].
      split; [exact C|]. split; [apply bottom_root; exact C | auto].
    - pose proof C as C0. cbn [chain] in C0. destruct C0 as (_ & (Tg & o & m & ->) & _).
      destruct H as [H|H].
      + injection H as -> ->. destruct (IH (Some l) y (PW_invoking o l m) C) as (b & pb & Hb & Tb & Bb & Lb); [left; reflexivity|].
        exists b, pb. split; [right; exact Hb|]. split; [exact Tb|]. split; [rewrite (bottom_step l y Tg); exact Bb|].
        intros _. apply Lb. reflexivity.
      + destruct (IH (Some x) l p C H) as (b & pb & Hb & Tb & Bb & Lb). exists b, pb. split; [right; exact Hb | auto].
  Qed.

  (* the whole hierarchy below a serial bottom is drained by at most one thread at a time: two threads inside the drain
     regions of lanes whose target chains end in the same bottom are the same thread *)
  Theorem hierarchy_drain_exclusive s t1 t2 l1 l2 p1 p2 :
    reach F s -> In (l1, p1) (stk s t1) -> locked_pc p1 = true -> In (l2, p2) (stk s t2) -> locked_pc p2 = true ->
    bottom F l1 = bottom F l2 -> t1 = t2.
  Proof.
    intros R H1 K1 H2 K2 B. destruct (Inv_reachable s R) as [L T].
    assert (Dp : forall p, locked_pc p = true -> is_drain p = true) by (intros p; destruct p; cbn; congruence).
    assert (Dr : forall t l p, In (l, p) (stk s t) -> locked_pc p = true ->
                 exists pb, In (bottom F l, pb) (stk s t) /\ locked_pc pb = true).
    { intros t l p H K. destruct (T t) as (_ & _ & _ & T4 & _). destruct (shape_drain_part _ T4) as (kd & C & Ed & Sub).
      assert (Hk : In (l, p) kd) by (rewrite <- Ed; unfold dframes; apply filter_In; split; [exact H | apply Dp; exact K]).
      destruct (chain_bottom None kd l p C Hk) as (b & pb & Hb & _ & Bb & Lb). subst b.
      exists pb. split; [apply Sub; exact Hb | apply Lb; exact K]. }
    destruct (Dr t1 l1 p1 H1 K1) as (q1 & Hq1 & Kq1). destruct (Dr t2 l2 p2 H2 K2) as (q2 & Hq2 & Kq2).
    rewrite B in Hq1. apply (lock_exclusive s t1 t2 (bottom F l2) q1 q2 R); auto.
  Qed.

  Theorem global_exclusion s t1 t2 l1 l2 o1 i1 m1 o2 i2 m2 :
    reach F s -> In (l1, PW_incall o1 i1 m1) (stk s t1) -> In (l2, PW_incall o2 i2 m2) (stk s t2) ->
    bottom F l1 = bottom F l2 -> t1 = t2 /\ (l1, PW_incall o1 i1 m1) = (l2, PW_incall o2 i2 m2).
  Proof.
    intros R H1 H2 B. destruct (Inv_reachable s R) as [L T].
    assert (Dr : forall t l o i m, In (l, PW_incall o i m) (stk s t) ->
                 exists kd, chain F None kd /\ In (l, PW_incall o i m) kd /\ (forall f, In f kd -> In f (stk s t))).
    { intros t l o i m H. destruct (T t) as (_ & _ & _ & T4 & _). destruct (shape_drain_part _ T4) as (kd & C & Ed & Sub).
      exists kd. split; [exact C|]. split; [|exact Sub]. rewrite <- Ed. unfold dframes. apply filter_In. split; [exact H | reflexivity]. }
    destruct (Dr t1 l1 o1 i1 m1 H1) as (k1 & C1 & I1 & S1). destruct (Dr t2 l2 o2 i2 m2 H2) as (k2 & C2 & I2 & S2).
    destruct (chain_bottom None k1 l1 _ C1 I1) as (b1 & p1 & Hb1 & _ & Bb1 & Lb1).
    destruct (chain_bottom None k2 l2 _ C2 I2) as (b2 & p2 & Hb2 & _ & Bb2 & Lb2).
    assert (Eb : b2 = b1) by congruence. rewrite Eb in Hb2.
    assert (Dp : forall p, locked_pc p = true -> is_drain p = true) by (intros p; destruct p; cbn; congruence).
    assert (Et : t1 = t2).
    { apply (lock_exclusive s t1 t2 b1 p1 p2 R); [apply S1; exact Hb1 | apply Dp, Lb1; reflexivity | apply S2; exact Hb2 | apply Dp, Lb2; reflexivity]. }
    subst t2. split; [reflexivity|].
    (* one stack: a callout frame is the topmost drain frame *)
    destruct (T t1) as (_ & _ & _ & T4 & _). destruct (shape_drain_part _ T4) as (kd & C & Ed & Sub).
    assert (Top : forall l o i m, In (l, PW_incall o i m) (stk s t1) -> exists r, kd = (l, PW_incall o i m) :: r).
    { intros l o i m H. assert (Hk : In (l, PW_incall o i m) kd) by (rewrite <- Ed; unfold dframes; apply filter_In; split; [exact H | reflexivity]).
      destruct kd as [|[x q] r]; [contradiction|]. destruct Hk as [Hk|Hk]; [exists r; rewrite Hk; reflexivity|].
      cbn [chain] in C. destruct C as (_ & _ & C). destruct (chain_below_invoking x r C _ Hk) as (o' & c' & m' & E). discriminate. }
    destruct (Top _ _ _ _ H1) as (r1 & E1). destruct (Top _ _ _ _ H2) as (r2 & E2). congruence.
  Qed.

  (* 3. per lane: callouts begin in tail-exchange (= submission) order, each item at most once, only submitted items *)
  Lemma prefix_nodup {A} (l1 l2 l : list A) : l1 ++ l2 = l -> NoDup l -> NoDup l1.
  Proof. intros <- H. apply (nodup_app_l _ _ H). Qed.

  Theorem started_in_order s l :
    reach F s ->
    exists rest, zrange (nextid s l) = rev (started s l) ++ rest /\ NoDup (started s l) /\
                 (forall i, In i (started s l) -> 0 <= i < nextid s l).
  Proof.
    intros R. destruct (Inv_reachable s R) as [L T]. destruct (L l) as [r G]. dG G.
    exists (inflight_pc (hpc s l) ++ items (lst s l)). split; [symmetry; exact Gorder|].
    assert (ND : NoDup (rev (started s l))) by (apply (prefix_nodup _ _ _ Gorder), zrange_nodup).
    split.
    - apply NoDup_rev in ND. rewrite rev_involutive in ND. exact ND.
    - intros i Hi. apply in_zrange. rewrite <- Gorder. apply in_or_app. left. apply in_rev in Hi. exact Hi.
  Qed.

  Corollary kth_started_is_k s l k :
    reach F s -> (k < length (started s l))%nat -> nth k (rev (started s l)) (-1) = Z.of_nat k.
  Proof.
    intros R Hk. destruct (started_in_order s l R) as (rest & E & _ & _).
    assert (Hk' : (k < length (rev (started s l)))%nat) by (rewrite rev_length; exact Hk).
    rewrite <- (app_nth1 (rev (started s l)) rest (-1) Hk'). rewrite <- E. unfold zrange.
    assert (Hlen : (length (rev (started s l)) <= length (zrange (nextid s l)))%nat) by (rewrite E, app_length; lia).
    unfold zrange in Hlen. rewrite map_length, seq_length in Hlen.
    rewrite (nth_indep _ (-1) (Z.of_nat 0)) by (rewrite map_length, seq_length; lia).
    rewrite map_nth. rewrite seq_nth by lia. reflexivity.
  Qed.

  (* 4. nothing is stranded *)
  Definition quiescent (s : gst) : Prop := forall t, stk s t = [].

  Lemma quiescent_no_holder s l w : Inv F s -> quiescent s -> token s l <> Some (Some w).
  Proof. intros [_ T] Q K. destruct (T w) as (_ & T2 & _). apply T2 in K. rewrite Q in K. contradiction. Qed.

  Lemma quiescent_no_wakers s l : Inv F s -> quiescent s -> wakers s l = [].
  Proof.
    intros [_ T] Q. destruct (wakers s l) as [|w k] eqn:E; [reflexivity|]. destruct (T w) as (_ & _ & T3 & _).
    assert (In w (wakers s l)) by (rewrite E; left; reflexivity). apply T3 in H. rewrite Q in H. discriminate.
  Qed.

  (* with no thread inside a call or a drain, a non-empty lane sits in its target: in the target lane's list, or in the
     root queue (a worker of that root queue can pick it up: `begin (CWorker _)` is enabled) *)
  Theorem not_stranded s l :
    reach F s -> quiescent s -> lst s l <> [] ->
    token s l = Some None /\
    match target F l with
    | Some p => exists e, In e (lst s p) /\ e_ent e = Lane l
    | None => rootq s l = 1
    end.
  Proof.
    intros R Q Ll. pose proof (Inv_reachable s R) as I. pose proof I as [L T]. destruct (L l) as [r G]. dG G.
    assert (K : token s l = Some None).
    { destruct (Gnostrand Ll) as [H|H]; [|rewrite (quiescent_no_wakers s l I Q) in H; congruence].
      destruct (token s l) as [[w|]|] eqn:K; [|reflexivity|congruence]. exfalso. exact (quiescent_no_holder s l w I Q K). }
    split; [exact K|]. rewrite K in *. destruct (target F l) as [p|] eqn:Tg.
    - specialize (Gwhere p). rewrite Z.eqb_refl in Gwhere. apply count_pos_in. lia.
    - exact Grootq.
  Qed.

  (* ... hence, by induction along the target chain, the serial bottom of a non-empty lane sits in the root queue *)
  Theorem bottom_in_root s l : reach F s -> quiescent s -> lst s l <> [] -> rootq s (bottom F l) = 1.
  Proof.
    intros R Q. remember (depth F l) as n eqn:D. revert l D. induction n as [n IH] using lt_wf_ind. intros l D Ll.
    destruct (not_stranded s l R Q Ll) as [_ H]. destruct (target F l) as [p|] eqn:Tg.
    - destruct H as (e & He & _). rewrite (bottom_step l p Tg). destruct FOK as (A & _). destruct (A l p Tg) as [Hd _].
      apply (IH (depth F p)); [lia | reflexivity |]. intros E. rewrite E in He. contradiction.
    - rewrite (bottom_root l Tg). exact H.
  Qed.

  (* ... and when nothing sits in a root queue either, every submitted item of every lane has run, in order *)
  Theorem quiescent_all_done s :
    reach F s -> quiescent s -> (forall b, rootq s b = 0) ->
    forall l, lst s l = [] /\ rev (started s l) = zrange (nextid s l) /\ token s l = None.
  Proof.
    intros R Q Z0 l. pose proof (Inv_reachable s R) as I.
    assert (E : forall x, lst s x = []).
    { intros x. destruct (lst s x) eqn:Ex; [reflexivity|]. assert (Hx : lst s x <> []) by congruence.
      pose proof (bottom_in_root s x R Q Hx) as H. rewrite Z0 in H. discriminate. }
    split; [apply E|]. pose proof I as [L T]. destruct (L l) as [r G]. dG G.
    assert (K : token s l = None).
    { destruct (token s l) as [[w|]|] eqn:K; [exfalso; exact (quiescent_no_holder s l w I Q K) | | reflexivity].
      destruct (target F l) as [p|] eqn:Tg.
      - specialize (Gwhere p). rewrite Z.eqb_refl, E in Gwhere. cbn in Gwhere. lia.
      - rewrite Z0 in Grootq. lia. }
    split; [|exact K]. rewrite <- Gorder, E. unfold hpc. rewrite K. cbn [inflight_pc items flat_map app]. rewrite app_nil_r. reflexivity.
  Qed.

  (* the failure branch of drain_try_lock (somebody else holds the lane: the ENQUEUED bit is toggled off and the invoke
     returns) is unreachable here: only the holder of a lane's enqueued token invokes it, and then the lane is free *)
  Theorem lock_never_fails s t l fl r :
    reach F s -> stk s t = (l, PW_lock fl) :: r ->
    w_lock t fl (st s l) = Restart [] \/ exists new, w_lock t fl (st s l) = Commit new OWN.
  Proof.
    intros R E. pose proof (Inv_reachable s R) as I. pose proof I as [L T]. destruct (L l) as [rl G].
    destruct (top_drain_facts s t l _ r rl I E eq_refl G) as (K & Vt & Fr & En). cbn [locked_pc] in Fr.
    destruct Fr as (O & Ib & Wq). dG G.
    unfold w_lock. rewrite Genc, (lock_fields rl t fl 0 Gwf Vt).
    assert (LF : lock_free rl = true) by (unfold lock_free; rewrite O, Gem, Ib, Ghi, Wq; reflexivity).
    rewrite LF. destruct ((f_role rl mod 2 =? 1) && (fl <? f_mq rl)); [left; reflexivity|].
    right. rewrite En, Wq, OWN_from_lock. eauto.
  Qed.

  (* ... and an inner lane never needs the override retry: its lock is taken at the first attempt *)
  Theorem inner_lock_succeeds s t l fl r :
    reach F s -> stk s t = (l, PW_lock fl) :: r -> target F l <> None -> exists new, w_lock t fl (st s l) = Commit new OWN.
  Proof.
    intros R E Tg. pose proof (Inv_reachable s R) as I. pose proof I as [L T]. destruct (L l) as [rl G].
    destruct (lock_never_fails s t l fl r R E) as [H|H]; [|exact H]. exfalso.
    destruct (top_drain_facts s t l _ r rl I E eq_refl G) as (K & Vt & Fr & En). dG G.
    unfold w_lock in H. rewrite Genc, (lock_fields rl t fl 0 Gwf Vt) in H.
    destruct (target F l) as [p|] eqn:Tp; [|congruence]. destruct FOK as (A & _). destruct (A l p Tp) as [_ Rl].
    rewrite Grole, Rl in H. change (0 mod 2 =? 1) with false in H. cbn [andb] in H.
    destruct (lock_free rl); discriminate.
  Qed.
End Proofs.
