(* SrcLife_proofs.v — invariants of the source life-cycle model (Model/SrcLife.v) for every reachable state: any number of
   cancelling threads, any interleaving of cancel / cancel_and_wait / events / phases of the lock owner.
   Owicki-Gries style: Inv g := GInv g /\ forall t, TInv g t; the per-phase lemmas are in SrcLife_phase_proofs.v. *)
From Coq Require Import ZArith Bool List Lia.
From Verif Require Import Word Bits Conc Gen_consts Gen_srclife SrcLife SrcLife_phase_proofs.
Import ListNotations.
Local Open Scope Z_scope.

(* convergence: when _dispatch_source_wakeup has nothing left to ask for on a cancelled source, the source is in the one
   final state, or it is parked waiting for the kernel's delete event (DSF_NEEDS_EVENT) *)
Lemma wakeup_final k s :
  Sinv k s -> canceled (fl s) = true -> (forall o, wakeup_target k o false false s = RNone) ->
  final_src s \/ (needs_event (fl s) = true /\ deleted (fl s) = false).
Proof.
  intros HS Hc Hw. specialize (Hw (mkO false false false false false false false false)).
  destruct s as [f inst w ar nd he hc hr pe kr ka]; destruct f as [fc fw fn fd fr]; destruct k as [kt kd kre].
  cbn in Hc. subst fc. unfold wakeup_target, canc_or_rel, refs_needs_rearm, needs_rearm_du, registered, dkq, retq_of in Hw.
  unfold Sinv, final_src, registered in *. cbn in *.
  destruct inst, hr, nd, fd, fn, kt, kd, ar, he, hc; cbn in *; try discriminate; try (right; split; reflexivity);
    try (left; intuition congruence); try (right; intuition congruence).
Qed.

(* ------------------------------------------------------------------ small facts about the one-line transitions *)
Ltac open_s s := destruct s as [f0' inst w ar nd he hc hr pe kr ka]; destruct f0' as [fc fw fn fd fr].
Ltac sfin := unfold Sinv, registered in *; cbn in *; intuition (try discriminate; try congruence).

Lemma flags_eqb_eq a b : flags_eqb a b = true -> a = b.
Proof.
  destruct a as [a1 a2 a3 a4 a5], b as [b1 b2 b3 b4 b5]. unfold flags_eqb. cbn.
  destruct a1, b1, a2, b2, a3, b3, a4, b4, a5, b5; cbn; intros; try discriminate; reflexivity.
Qed.

Lemma Sinv_fl_keep k s f :
  deleted f = deleted (fl s) -> (deleted f = true -> waiter f = false /\ needs_event f = false) -> Sinv k s -> Sinv k (with_fl s f).
Proof. open_s s. destruct f as [c1 w1 n1 d1 r1]. cbn. intros E1 E2 H. subst d1. destruct fd; sfin. Qed.
Lemma Sinv_pending k s p : Sinv k s -> Sinv k (with_pending s p).
Proof. open_s s. intros. sfin. Qed.
Lemma Sinv_finalize_fresh k s : Sinv k s -> installed s = false -> Sinv k (fst (finalize (with_installed s))).
Proof. open_s s. intros H E. cbn in E. subst inst. destruct w, ar, nd, kr; sfin. Qed.
Lemma Sinv_install k o s : Sinv k s -> installed s = false -> Sinv k (fst (install k o s)).
Proof.
  open_s s. destruct k as [kt kd kre]. intros H E. cbn in E. subst inst. unfold install. cbn.
  destruct (c_reg_ok o || kt || kd && negb kre); cbn; destruct kt, w, ar, nd, kr, kd; cbn; sfin.
Qed.
Lemma Sinv_evdu k s a b : Sinv k s -> kreg s = true -> Sinv k (with_du s (du_wlh s) a (du_nd s) (kreg s) b).
Proof. open_s s. intros H E. cbn in E. subst kr. destruct w, ar, nd, a; sfin. Qed.
Lemma Sinv_hangup k s : Sinv k s -> kreg s = true -> k_timer k = false ->
  Sinv k (with_du s (du_wlh s) false true (kreg s) false).
Proof. open_s s. intros H E Et. cbn in E. subst kr. destruct w, ar, nd; sfin. Qed.

Lemma event_du_facts k stay s : Sinv k s -> kreg s = true ->
  let s1 := event_du k stay s in
  registered s1 = true /\ Sinv k s1 /\ fl s1 = fl s /\ h_ca s1 = h_ca s /\ installed s1 = installed s /\ registered s = true.
Proof.
  intros HS Kr. pose proof HS as (_ & S2 & _). pose proof (S2 Kr) as W. unfold event_du.
  assert (R : registered s = true) by (unfold registered; rewrite W; reflexivity).
  destruct (k_rearm k); [|destruct (k_timer k)]; cbv zeta.
  - split; [unfold registered; cbn; rewrite W; reflexivity|]. split; [apply Sinv_evdu; assumption|]. repeat split. exact R.
  - split; [unfold registered; cbn; rewrite W; reflexivity|]. split; [apply Sinv_evdu; assumption|]. repeat split. exact R.
  - split; [exact R|]. split; [exact HS|]. repeat split. exact R.
Qed.

Lemma activate_src_cases k o s :
  activate_src k o s = finalize (with_installed s) /\ canceled (fl s) = true \/
  activate_src k o s = install k o s /\ installed s = false /\ canceled (fl s) = false \/
  activate_src k o s = (s, []) /\ canceled (fl s) = false.
Proof.
  unfold activate_src. destruct (canceled (fl s)); [left; auto|]. right.
  destruct ((k_direct k || k_timer k) && negb (installed s) && c_ovc o) eqn:E; [left | right; auto].
  split; [reflexivity|]. split; [|reflexivity].
  apply andb_true_iff in E as [E _]. apply andb_true_iff in E as [_ E]. apply negb_true_iff in E. exact E.
Qed.

Lemma install_acts k o s : let a := snd (install k o s) in
  count AChBegin a = 0 /\ count AChDispose a = 0 /\ count AEhBegin a = 0 /\
  (existsb is_fin_twice a = true -> deleted (fl s) = true).
Proof. unfold install. destruct (c_reg_ok o || k_timer k || k_direct k && negb (k_rearm k)); cbn; repeat split; try discriminate.
  destruct (deleted (fl s)); auto. Qed.
Lemma install_flags k o s : let s' := fst (install k o s) in
  canceled (fl s') = canceled (fl s) /\ released (fl s') = released (fl s) /\ h_ca s' = h_ca s /\
  (deleted (fl s) = true -> deleted (fl s') = true) /\ installed s' = true /\
  (waiter (fl s') = true -> waiter (fl s) = true) /\
  ((waiter (fl s') = waiter (fl s) /\ deleted (fl s') = deleted (fl s)) \/ woke (snd (install k o s)) = true \/ waiter (fl s) = false).
Proof.
  unfold install. destruct (c_reg_ok o || k_timer k || k_direct k && negb (k_rearm k)); cbn; repeat split; auto; try discriminate.
  destruct (waiter (fl s)); auto.
Qed.
Lemma finalize_flags s : let s' := fst (finalize s) in
  canceled (fl s') = canceled (fl s) /\ released (fl s') = released (fl s) /\ h_ca s' = h_ca s /\ deleted (fl s') = true /\
  installed s' = installed s /\ waiter (fl s') = false /\ woke (snd (finalize s)) = waiter (fl s).
Proof. cbn. repeat split. destruct (waiter (fl s)); reflexivity. Qed.

(* ------------------------------------------------------------------ the invariant *)
Definition AInv (g : gst) : Prop :=
  let s := g_s g in
  Sinv (g_k g) s /\
  (installed s = true -> activated g = true) /\
  (owner g <> None -> activated g = true) /\
  (owner g = None <-> o_pc g = OIdle) /\
  (waiter (fl s) = true -> canceled (fl s) = true) /\
  (past_install (o_pc g) = true -> installed s = true) /\
  (in_cd (o_pc g) = true -> h_ca s = false /\ canceled (fl s) = true).

(* cancel handler accounting: the slot is the token *)
Definition BInv (g : gst) : Prop :=
  let s := g_s g in let f := fl s in
  (0 <= ch_count g <= 1) /\
  (h_ca s = true -> ch_count g = 0 /\ ch_disposed g = false) /\
  (h_ca s = false -> ch_set g = true -> ch_count g = 1 \/ ch_disposed g = true) /\
  (ch_set g = false -> h_ca s = false /\ ch_count g = 0) /\
  (1 <= ch_count g -> canceled f = true /\ deleted f = true) /\
  (ch_disposed g = true -> released f = true /\ canceled f = false).

(* event handler invocations that start after CANCELED was set *)
Definition CInv (g : gst) : Prop :=
  let f := fl (g_s g) in
  (0 <= late_starts g <= 1) /\
  (1 <= late_starts g -> canceled f = true /\ origin g = Some CxThread) /\
  (o_pc g = OLatch -> late_starts g = 0 /\ ch_count g = 0 /\ o_q g = QTarget /\ (canceled f = true -> origin g = Some CxThread)).

(* the lock owner's copy of the flags is stale only in the monotone direction; DELETED is the owner's to set *)
Definition DInv (g : gst) : Prop :=
  let f := fl (g_s g) in
  (canceled (o_dqf g) = true -> canceled f = true) /\ (deleted (o_dqf g) = true -> deleted f = true) /\
  (released (o_dqf g) = true -> released f = true) /\
  (o_pc g = OP3 -> deleted (o_dqf g) = deleted f).

Definition GInv (g : gst) : Prop := AInv g /\ BInv g /\ CInv g /\ DInv g /\ caw_early g = false.

Definition TInv (g : gst) (t : Z) : Prop :=
  let s := g_s g in let f := fl s in
  (cpc g t <> CIdle -> h_ca s = false /\ canceled f = true) /\
  (forall o n, cpc g t = CDecide o n -> deleted o = true -> deleted f = true) /\
  (forall d, cpc g t = CWTest d -> deleted d = true -> deleted f = true) /\
  (forall d, cpc g t = CWFutex d -> waiter d = true /\ deleted d = false) /\
  (cpc g t = CRet -> deleted f = true) /\
  (slp g t = true -> cpc g t = CWSleep /\ waiter f = true /\ deleted f = false).

Definition Inv (g : gst) : Prop := GInv g /\ forall t, TInv g t.

Lemma Inv_init k ev ca rg : Inv (init_state k ev ca rg).
Proof.
  split.
  - unfold GInv, AInv, BInv, CInv, DInv, Sinv, init_state, registered; cbn.
    repeat split; intros; try discriminate; try lia; try tauto; auto; try (destruct ca; auto; discriminate).
    all: try (match goal with H : _ \/ _ |- _ => destruct H; discriminate end).
  - intros t. unfold TInv, init_state; cbn. repeat split; intros; try discriminate; try congruence.
Qed.

(* a thread that does not move: its obligations survive any step under which the shared part moves monotonically *)
Lemma other_thread g g' u :
  TInv g u -> cpc g' u = cpc g u ->
  (h_ca (g_s g) = false -> h_ca (g_s g') = false) ->
  (canceled (fl (g_s g)) = true -> canceled (fl (g_s g')) = true) ->
  (deleted (fl (g_s g)) = true -> deleted (fl (g_s g')) = true) ->
  (slp g' u = true -> slp g u = true /\ waiter (fl (g_s g')) = waiter (fl (g_s g)) /\ deleted (fl (g_s g')) = deleted (fl (g_s g))) ->
  TInv g' u.
Proof.
  intros (T1 & T2 & T3 & T4 & T5 & T6) Ec Hh Hc Hd Hs. unfold TInv. rewrite Ec.
  split; [|split; [|split; [|split; [|split]]]].
  - intros H. destruct (T1 H). auto.
  - intros o n H D. eauto.
  - intros d H D. eauto.
  - exact T4.
  - intros H. auto.
  - intros H. destruct (Hs H) as (S1 & S2 & S3). destruct (T6 S1) as (X1 & X2 & X3). rewrite S2, S3. auto.
Qed.

(* ------------------------------------------------------------------ shape of the owner's step *)
Lemma gstep_phase g t o g' acts :
  gstep g t (GPhase o) = Some (g', acts) ->
  let p := phase (g_k g) (o_q g) o (mkI (g_s g) (o_pc g) (o_dqf g) (o_retq g) (o_avoid g)) in
  owner g = Some t /\
  acts = res_acts p /\ g_s g' = res_src p /\ o_pc g' = res_pc p /\ o_dqf g' = res_dqf' p /\ g_k g' = g_k g /\
  activated g' = activated g /\ o_q g' = o_q g /\
  owner g' = (match p with Cont _ _ => owner g | Ret _ _ _ => None end) /\
  ch_count g' = ch_count g + count AChBegin acts /\ ch_disposed g' = (ch_disposed g || (0 <? count AChDispose acts)) /\
  ch_set g' = ch_set g /\
  late_starts g' = late_starts g + (if canceled (fl (g_s g)) then count AEhBegin acts else 0) /\
  origin g' = origin g /\ caw_early g' = caw_early g /\
  slp g' = (if woke acts then (fun _ => false) else slp g) /\
  (forall u, u <> t -> cpc g' u = cpc g u) /\
  (cpc g' t = cpc g t \/ (cpc g t = CDirect /\ cpc g' t = CWLoad)).
Proof.
  unfold gstep. intros H. destruct (is_owner g t) eqn:Eo; [|discriminate]. cbn [negb] in H.
  assert (Ow : owner g = Some t).
  { unfold is_owner in Eo. destruct (owner g) as [x|]; [|discriminate]. apply Z.eqb_eq in Eo. congruence. }
  cbv zeta.
  destruct (phase (g_k g) (o_q g) o {| i_src := g_s g; i_pc := o_pc g; i_dqf := o_dqf g; i_retq := o_retq g; i_avoid := o_avoid g |})
    as [i' a'|s1 a1 r1] eqn:Hp.
  - injection H as <- <-. cbn. repeat split; auto.
  - injection H as <- <-.
    destruct (cpc g t) eqn:Ec; cbn; repeat split; auto; try (intros u Hu; apply upd_other; exact Hu).
    right. split; [reflexivity|]. apply upd_same.
Qed.

Lemma count_nonneg a l : 0 <= count a l.
Proof. unfold count. lia. Qed.

Section PhaseStep.
  Variables (g g' : gst) (t : Z) (o : orc) (acts : list action).
  Hypothesis HI : Inv g.
  Hypothesis Hstep : gstep g t (GPhase o) = Some (g', acts).

  Let i0 := mkI (g_s g) (o_pc g) (o_dqf g) (o_retq g) (o_avoid g).
  Let p := phase (g_k g) (o_q g) o i0.

  Lemma phase_G : GInv g'.
  Proof.
    destruct HI as [(HA & HB & HC & HD & HE) HT].
    destruct HA as (HA1 & HA2 & HA3 & HA4 & HA5 & HA6 & HA7).
    destruct HB as (HB1 & HB2 & HB3 & HB4 & HB5 & HB6).
    destruct HC as (HC1 & HC2 & HC3).
    destruct HD as (HD1 & HD2 & HD3 & HD4).
    pose proof (gstep_phase g t o g' acts Hstep) as S. cbv zeta in S. fold i0 in S. fold p in S.
    destruct S as (Ow & Ea & Es & Epc & Edqf & Ek & Eact & Eq & Eow & Ech & Edis & Eset & Elate & Eorg & Eearly & Eslp & Ecpo & Ecpt).
    pose proof (phase_facts (g_k g) (o_q g) o i0) as F. cbv zeta in F. fold p in F. cbn [i_src i_pc i_dqf i0] in F.
    destruct F as (F1 & (F2c & F2r & F2d) & F3 & F4 & F5 & F6 & F7 & F8).
    pose proof (phase_facts2 (g_k g) (o_q g) o i0) as K. cbv zeta in K. fold p in K. cbn [i_src i_pc i_dqf i0] in K.
    destruct K as (K1 & K2 & K3 & K4 & K5 & K6 & K7 & K8 & K9 & K10).
    assert (PI : Pinv (g_k g) (res_src p) (res_pc p)).
    { apply (phase_Pinv (g_k g) (o_q g) o i0). split; [exact HA1|exact HA6]. }
    destruct PI as [PI1 PI2].
    assert (Act : activated g = true) by (apply HA3; congruence).
    rewrite <- Ea in F3, F4, F6, F8, K4, K5, K9, K10.
    pose proof (count_nonneg AChBegin acts) as N1. pose proof (count_nonneg AChDispose acts) as N2.
    pose proof (count_nonneg AEhBegin acts) as N3.
    unfold GInv, AInv, BInv, CInv, DInv. rewrite Es, Epc, Edqf, Ek, Eact, Eq, Ech, Edis, Eset, Elate, Eorg, Eearly.
    split; [|split; [|split; [|split]]].
    - (* AInv *)
      split; [exact PI1|]. split; [intros _; exact Act|]. split; [intros _; exact Act|].
      split; [|split; [|split]].
      + rewrite Eow. destruct p as [i' a'|s1 a1 r1] eqn:Ep; cbn [res_pc].
        * split; [intros X; congruence | intros X; contradiction (K7 X)].
        * split; reflexivity.
      + intros W. rewrite F2c. apply HA5. apply K6. exact W.
      + exact PI2.
      + intros C. destruct (HA7 (K8 C)) as [X1 X2]. split; [apply F1; exact X1 | rewrite F2c; exact X2].
    - (* BInv *)
      split; [|split; [|split; [|split; [|split]]]].
      + destruct F3 as [Z0|(Z1 & Hh & _)]; [lia|]. destruct (HB2 Hh) as [X _]. lia.
      + intros Hh'. assert (Hh : h_ca (g_s g) = true).
        { destruct (h_ca (g_s g)) eqn:E; [reflexivity|]. rewrite (F1 eq_refl) in Hh'. discriminate. }
        destruct (HB2 Hh) as [X1 X2].
        assert (C0 : count AChBegin acts = 0) by (destruct F3 as [Z0|(_ & _ & Hx & _)]; [exact Z0 | congruence]).
        assert (D0 : count AChDispose acts = 0) by (destruct F8 as [Z0|(_ & _ & Hx & _)]; [exact Z0 | congruence]).
        rewrite C0, D0, X2. split; [lia | reflexivity].
      + intros Hh' Hs. destruct (h_ca (g_s g)) eqn:Hh.
        * pose proof (K10 eq_refl Hh') as Sum. destruct (HB2 eq_refl) as [X1 X2].
          destruct F3 as [Z0|(Z1 & _)].
          -- right. assert (count AChDispose acts = 1) by lia. rewrite H. apply orb_true_r.
          -- left. lia.
        * destruct (HB3 eq_refl Hs) as [X|X].
          -- left. destruct F3 as [Z0|(_ & Hx & _)]; [lia | congruence].
          -- right. rewrite X. reflexivity.
      + intros Hs. destruct (HB4 Hs) as [X1 X2]. split; [apply F1; exact X1|].
        destruct F3 as [Z0|(_ & Hx & _)]; [lia | congruence].
      + intros Hc. destruct F3 as [Z0|(Z1 & _ & _ & Hcan & Hwhere)].
        * assert (1 <= ch_count g) by lia. destruct (HB5 H) as [X1 X2]. split; [rewrite F2c; exact X1 | apply F2d; exact X2].
        * split; [rewrite F2c; exact Hcan|]. apply F2d.
          destruct Hwhere as [(_ & _ & Dd)|(_ & Dd)]; [apply HD2; exact Dd | exact Dd].
      + intros Hd. rewrite F2r, F2c. apply orb_true_iff in Hd as [Hd|Hd]; [apply HB6; exact Hd|].
        apply Z.ltb_lt in Hd. destruct F8 as [Z0|(Z1 & _ & _ & Hnc)]; [lia|]. split; [|exact Hnc].
        destruct (K9 Z1) as [(_ & Hcr)|Hcd].
        * unfold canc_or_rel in Hcr. apply orb_true_iff in Hcr as [Hcr|Hcr]; [rewrite (HD1 Hcr) in Hnc; discriminate | apply HD3; exact Hcr].
        * assert (X : in_cd (o_pc g) = true) by (rewrite Hcd; reflexivity). destruct (HA7 X) as [_ X2]. congruence.
    - (* CInv *)
      split; [|split].
      + destruct (canceled (fl (g_s g))); [|lia].
        destruct F4 as [Z0|(Z1 & Hpc & _)]; [lia|]. destruct (HC3 Hpc) as (X & _). lia.
      + intros Hl. rewrite F2c. destruct (canceled (fl (g_s g))) eqn:Ec.
        * destruct F4 as [Z0|(Z1 & Hpc & _)].
          -- assert (1 <= late_starts g) by lia. destruct (HC2 H) as [_ X]. split; [reflexivity | exact X].
          -- destruct (HC3 Hpc) as (_ & _ & _ & X). split; [reflexivity | apply X; reflexivity].
        * assert (1 <= late_starts g) by lia. destruct (HC2 H) as [X _]. discriminate.
      + intros Hpc'. destruct (F5 Hpc') as (P1 & Q1 & Cn & _).
        assert (L0 : late_starts g = 0).
        { destruct (Z.eq_dec (late_starts g) 0) as [|Ne]; [assumption|]. assert (1 <= late_starts g) by lia.
          destruct (HC2 H) as [X _]. congruence. }
        assert (C0 : ch_count g = 0).
        { destruct (Z.eq_dec (ch_count g) 0) as [|Ne]; [assumption|]. assert (1 <= ch_count g) by lia.
          destruct (HB5 H) as [X _]. congruence. }
        rewrite Cn. split; [lia|]. split.
        * destruct F3 as [Z0|(_ & _ & _ & Hx & _)]; [lia | congruence].
        * split; [exact Q1|]. rewrite F2c, Cn. intros X; discriminate.
    - (* DInv *)
      split; [|split; [|split]].
      + intros X. rewrite F2c. destruct (K1 X) as [Y|Y]; [apply HD1; exact Y | exact Y].
      + intros X. apply F2d. destruct (F7 X) as [Y|Y]; [apply HD2; exact Y | exact Y].
      + intros X. rewrite F2r. destruct (K2 X) as [Y|Y]; [apply HD3; exact Y | exact Y].
      + exact K3.
    - exact HE.
  Qed.

  Lemma phase_T : forall u, TInv g' u.
  Proof.
    destruct HI as [(HA & HB & HC & HD & HE) HT].
    pose proof (gstep_phase g t o g' acts Hstep) as S. cbv zeta in S. fold i0 in S. fold p in S.
    destruct S as (Ow & Ea & Es & Epc & Edqf & Ek & Eact & Eq & Eow & Ech & Edis & Eset & Elate & Eorg & Eearly & Eslp & Ecpo & Ecpt).
    pose proof (phase_facts (g_k g) (o_q g) o i0) as F. cbv zeta in F. fold p in F. cbn [i_src i_pc i_dqf i0] in F.
    destruct F as (F1 & (F2c & F2r & F2d) & _).
    pose proof (phase_facts2 (g_k g) (o_q g) o i0) as K. cbv zeta in K. fold p in K. cbn [i_src i_pc i_dqf i0] in K.
    destruct K as (_ & _ & _ & _ & K5 & _).
    rewrite <- Ea in K5. rewrite <- Es in F1, F2c, F2d, K5.
    assert (Sl : forall u, slp g' u = true -> slp g u = true /\ waiter (fl (g_s g')) = waiter (fl (g_s g)) /\
                                            deleted (fl (g_s g')) = deleted (fl (g_s g))).
    { intros u Hu. rewrite Eslp in Hu. destruct (woke acts) eqn:Ew; [discriminate|]. split; [exact Hu|].
      destruct K5 as [[X1 X2]|[X|X]]; [auto | discriminate |].
      destruct (HT u) as (_ & _ & _ & _ & _ & T6). destruct (T6 Hu) as (_ & Y & _). congruence. }
    intros u.
    assert (Same : cpc g' u = cpc g u -> TInv g' u).
    { intros Ec. apply (other_thread g g' u (HT u) Ec); auto. intros X. rewrite F2c. exact X. }
    destruct (Z.eq_dec u t) as [->|Ne]; [|apply Same, Ecpo, Ne].
    destruct Ecpt as [Ec|[Ec1 Ec2]]; [apply Same, Ec|].
    destruct (HT t) as (T1 & _ & _ & _ & _ & T6).
    unfold TInv. rewrite Ec2. split; [|split; [|split; [|split; [|split]]]]; try (intros; discriminate).
    - intros _. assert (X : cpc g t <> CIdle) by (rewrite Ec1; discriminate). destruct (T1 X) as [Y1 Y2].
      split; [apply F1; exact Y1 | rewrite F2c; exact Y2].
    - intros Hs. destruct (Sl t Hs) as [X _]. destruct (T6 X) as [Y _]. congruence.
  Qed.
End PhaseStep.

(* ------------------------------------------------------------------ frames *)
Lemma GInv_cpc g t p : GInv (set_cpc g t p) <-> GInv g.
Proof. unfold GInv, AInv, BInv, CInv, DInv. cbn. tauto. Qed.
Lemma GInv_slp g t b : GInv (set_slp g t b) <-> GInv g.
Proof. unfold GInv, AInv, BInv, CInv, DInv. cbn. tauto. Qed.

Lemma TInv_frame g g' u :
  g_s g' = g_s g -> cpc g' u = cpc g u -> slp g' u = slp g u -> TInv g u -> TInv g' u.
Proof. unfold TInv. intros -> -> ->. tauto. Qed.

Lemma if_same (b : bool) (x : Z) : (if b then x else x) = x.
Proof. destruct b; reflexivity. Qed.

(* a step that only rewrites the source (no callout, no finalize), keeps the cancel-handler slot and DELETED, and may set
   the ghost origin to `og` *)
Lemma G_src_nil g s1 og :
  GInv g ->
  Sinv (g_k g) s1 -> installed s1 = installed (g_s g) -> h_ca s1 = h_ca (g_s g) ->
  deleted (fl s1) = deleted (fl (g_s g)) ->
  (canceled (fl (g_s g)) = true -> canceled (fl s1) = true) ->
  (released (fl (g_s g)) = true -> released (fl s1) = true) ->
  (waiter (fl s1) = true -> canceled (fl s1) = true) ->
  (1 <= late_starts g -> og = Some CxThread) ->
  (o_pc g = OLatch -> canceled (fl s1) = true -> og = Some CxThread) ->
  (ch_disposed g = true -> canceled (fl s1) = false) ->
  GInv (set_origin (set_src g s1 []) og).
Proof.
  intros (HA & HB & HC & HD & HE) S1 Ei Eh Ed Mc Mr Wc R1 R2 Dc.
  destruct HA as (HA1 & HA2 & HA3 & HA4 & HA5 & HA6 & HA7).
  destruct HB as (HB1 & HB2 & HB3 & HB4 & HB5 & HB6).
  destruct HC as (HC1 & HC2 & HC3).
  destruct HD as (HD1 & HD2 & HD3 & HD4).
  unfold GInv, AInv, BInv, CInv, DInv. cbn. rewrite ?Z.add_0_r, ?orb_false_r, ?if_same, ?Z.add_0_r.
  rewrite Ei, Eh, Ed.
  split; [|split; [|split; [|split]]].
  - split; [exact S1|]. split; [exact HA2|]. split; [exact HA3|]. split; [exact HA4|]. split; [exact Wc|]. split; [exact HA6|].
    intros X. destruct (HA7 X). auto.
  - split; [exact HB1|]. split; [exact HB2|]. split; [exact HB3|]. split; [exact HB4|]. split.
    + intros X. destruct (HB5 X). auto.
    + intros X. destruct (HB6 X). auto.
  - split; [exact HC1|]. split.
    + intros X. destruct (HC2 X). auto.
    + intros X. destruct (HC3 X) as (Y1 & Y2 & Y3 & Y4). auto.
  - split; [auto|]. split; [exact HD2|]. split; [auto|]. exact HD4.
  - exact HE.
Qed.

Lemma T_src_nil g s1 og u :
  TInv g u ->
  h_ca s1 = h_ca (g_s g) -> deleted (fl s1) = deleted (fl (g_s g)) ->
  (canceled (fl (g_s g)) = true -> canceled (fl s1) = true) ->
  (waiter (fl (g_s g)) = true -> waiter (fl s1) = true) ->
  TInv (set_origin (set_src g s1 []) og) u.
Proof.
  intros T Eh Ed Mc Mw. apply (other_thread g _ u T); cbn; auto.
  - rewrite Eh. auto.
  - rewrite Ed. auto.
  - intros Hs. destruct T as (_ & _ & _ & _ & _ & T6). destruct (T6 Hs) as (_ & W & _).
    split; [exact Hs|]. split; [rewrite W; apply Mw; exact W | exact Ed].
Qed.

Lemma set_origin_same g : set_origin g (origin g) = g.
Proof. destruct g; reflexivity. Qed.

(* _dispatch_source_activate on a source that was never installed *)
Lemma activate_src_eff k o s :
  Sinv k s -> installed s = false ->
  let s1 := fst (activate_src k o s) in let a := snd (activate_src k o s) in
  Sinv k s1 /\ h_ca s1 = h_ca s /\ canceled (fl s1) = canceled (fl s) /\ released (fl s1) = released (fl s) /\
  (deleted (fl s) = true -> deleted (fl s1) = true) /\
  count AChBegin a = 0 /\ count AChDispose a = 0 /\ count AEhBegin a = 0 /\
  (fl s1 = fl s /\ woke a = false \/ (woke a = waiter (fl s) /\ waiter (fl s1) = false /\ deleted (fl s1) = true)) /\
  (canceled (fl s) = true -> deleted (fl s1) = true) /\
  (existsb is_fin_twice a = true -> deleted (fl s) = true).
Proof.
  intros HS Hi. cbv zeta.
  destruct (activate_src_cases k o s) as [[E C]|[[E [I C]]|[E C]]]; rewrite E.
  - split; [apply Sinv_finalize_fresh; assumption|]. cbn. repeat split; auto; try discriminate.
    + right. repeat split. destruct (waiter (fl s)); reflexivity.
    + destruct (deleted (fl s)); auto.
  - split; [apply Sinv_install; assumption|].
    unfold install. destruct (c_reg_ok o || k_timer k || k_direct k && negb (k_rearm k)); cbn; repeat split; auto; try discriminate.
    all: try (rewrite C; discriminate).
    all: try (right; repeat split; destruct (waiter (fl s)); reflexivity).
    all: try (destruct (deleted (fl s)); auto; fail).
  - split; [exact HS|]. cbn. repeat split; auto; try discriminate.
    all: try (rewrite C; discriminate).
Qed.

Lemma G_activate g o :
  GInv g -> activated g = false ->
  GInv (set_activated (set_src g (fst (activate_src (g_k g) o (g_s g))) (snd (activate_src (g_k g) o (g_s g))))).
Proof.
  intros (HA & HB & HC & HD & HE) Na.
  destruct HA as (HA1 & HA2 & HA3 & HA4 & HA5 & HA6 & HA7).
  destruct HB as (HB1 & HB2 & HB3 & HB4 & HB5 & HB6).
  destruct HC as (HC1 & HC2 & HC3).
  destruct HD as (HD1 & HD2 & HD3 & HD4).
  assert (Ni : installed (g_s g) = false).
  { destruct (installed (g_s g)) eqn:E; [|reflexivity]. rewrite (HA2 eq_refl) in Na. discriminate. }
  assert (No : owner g = None).
  { destruct (owner g) eqn:E; [|reflexivity]. assert (X : Some z <> None) by discriminate.
    rewrite (HA3 X) in Na. discriminate. }
  assert (Pc : o_pc g = OIdle) by (apply HA4; exact No).
  pose proof (activate_src_eff (g_k g) o (g_s g) HA1 Ni) as E. cbv zeta in E.
  set (s1 := fst (activate_src (g_k g) o (g_s g))) in *. set (a := snd (activate_src (g_k g) o (g_s g))) in *.
  destruct E as (E1 & E2 & E3 & E4 & E5 & E6 & E7 & E8 & E9 & E10 & E11).
  unfold GInv, AInv, BInv, CInv, DInv. cbn. rewrite E6, E7, E8, ?Z.add_0_r, ?orb_false_r, ?if_same, ?Z.add_0_r, E2, E3, E4, Pc.
  split; [|split; [|split; [|split]]].
  - split; [exact E1|]. split; [reflexivity|]. split; [reflexivity|]. split; [split; [reflexivity | intros _; exact No]|]. split.
    + intros W. destruct E9 as [[X _]|(_ & X & _)]; [rewrite X in W; auto | congruence].
    + split; intros X; discriminate.
  - split; [exact HB1|]. split; [exact HB2|]. split; [exact HB3|]. split; [exact HB4|]. split.
    + intros X. destruct (HB5 X). auto.
    + exact HB6.
  - split; [exact HC1|]. split; [exact HC2|]. intros X; discriminate.
  - split; [exact HD1|]. split; [auto|]. split; [exact HD3|]. intros X; discriminate.
  - exact HE.
Qed.

Lemma T_activate g o u :
  GInv g -> TInv g u -> activated g = false ->
  TInv (set_activated (set_src g (fst (activate_src (g_k g) o (g_s g))) (snd (activate_src (g_k g) o (g_s g))))) u.
Proof.
  intros (HA & _) T Na. destruct HA as (HA1 & HA2 & _).
  assert (Ni : installed (g_s g) = false).
  { destruct (installed (g_s g)) eqn:E; [|reflexivity]. rewrite (HA2 eq_refl) in Na. discriminate. }
  pose proof (activate_src_eff (g_k g) o (g_s g) HA1 Ni) as E. cbv zeta in E.
  set (s1 := fst (activate_src (g_k g) o (g_s g))) in *. set (a := snd (activate_src (g_k g) o (g_s g))) in *.
  destruct E as (E1 & E2 & E3 & E4 & E5 & E6 & E7 & E8 & E9 & E10 & E11).
  apply (other_thread g _ u T); cbn; auto.
  - rewrite E2. auto.
  - rewrite E3. auto.
  - intros Hs. destruct E9 as [[X Y]|(X & _ & _)].
    + rewrite Y in Hs. rewrite X. auto.
    + destruct T as (_ & _ & _ & _ & _ & T6). destruct (woke a) eqn:W; [discriminate|].
      destruct (T6 Hs) as (_ & Z1 & _). congruence.
Qed.

(* ------------------------------------------------------------------ the other steps, one lemma each *)
Lemma G_src_nil' g s1 :
  GInv g ->
  Sinv (g_k g) s1 -> installed s1 = installed (g_s g) -> h_ca s1 = h_ca (g_s g) ->
  deleted (fl s1) = deleted (fl (g_s g)) -> canceled (fl s1) = canceled (fl (g_s g)) ->
  (released (fl (g_s g)) = true -> released (fl s1) = true) ->
  waiter (fl s1) = waiter (fl (g_s g)) ->
  GInv (set_src g s1 []).
Proof.
  intros HG S1 Ei Eh Ed Ec Mr Ew.
  rewrite <- (set_origin_same (set_src g s1 [])). change (origin (set_src g s1 [])) with (origin g).
  pose proof HG as (HA & HB & HC & HD & HE).
  apply G_src_nil; auto.
  - rewrite Ec. auto.
  - rewrite Ew, Ec. apply HA.
  - intros X. destruct HC as (_ & HC2 & _). destruct (HC2 X). assumption.
  - rewrite Ec. intros X Y. destruct HC as (_ & _ & HC3). destruct (HC3 X) as (_ & _ & _ & Z1). auto.
  - rewrite Ec. intros X. destruct HB as (_ & _ & _ & _ & _ & HB6). apply HB6. exact X.
Qed.
Lemma T_src_nil' g s1 u :
  TInv g u -> h_ca s1 = h_ca (g_s g) -> deleted (fl s1) = deleted (fl (g_s g)) ->
  canceled (fl s1) = canceled (fl (g_s g)) -> waiter (fl s1) = waiter (fl (g_s g)) -> TInv (set_src g s1 []) u.
Proof.
  intros T Eh Ed Ec Ew. rewrite <- (set_origin_same (set_src g s1 [])). change (origin (set_src g s1 [])) with (origin g).
  apply T_src_nil; auto; [rewrite Ec | rewrite Ew]; auto.
Qed.

Lemma Sinv_set_canceled k s : Sinv k s -> Sinv k (with_fl s (set_canceled (fl s))).
Proof. open_s s. intros. destruct fd; sfin. Qed.
Lemma Sinv_set_released k s : Sinv k s -> Sinv k (with_fl s (set_released (fl s))).
Proof. open_s s. intros. destruct fd; sfin. Qed.

Lemma step_activate g t o g' acts : Inv g -> gstep g t (GActivate o) = Some (g', acts) -> Inv g'.
Proof.
  intros [HG HT] H. unfold gstep in H.
  destruct (activated g || released (fl (g_s g))) eqn:E; [discriminate|]. apply orb_false_iff in E as [Na Nr].
  destruct (activate_src (g_k g) o (g_s g)) as [s1 a] eqn:Ea. injection H as <- <-.
  change s1 with (fst (s1, a)). change a with (snd (s1, a)) at 2. rewrite <- Ea.
  split; [apply G_activate; assumption | intros u; apply T_activate; auto].
Qed.

Lemma step_cancel g t cx g' acts : Inv g -> gstep g t (GCancel cx) = Some (g', acts) -> Inv g'.
Proof.
  intros [HG HT] H. unfold gstep in H. destruct (released (fl (g_s g))) eqn:Nr; [discriminate|].
  match type of H with (if negb ?al then _ else _) = _ => destruct al eqn:Al end; [|discriminate].
  cbn [negb] in H. injection H as <- <-.
  pose proof HG as ((HA1 & _ & _ & HA4 & _) & _ & (_ & HC2 & HC3) & _).
  split.
  - apply G_src_nil.
    + exact HG.
    + apply Sinv_set_canceled. exact HA1.
    + reflexivity.
    + reflexivity.
    + reflexivity.
    + intros _. reflexivity.
    + cbn. auto.
    + intros _. reflexivity.
    + intros X. destruct (HC2 X) as [Y1 Y2]. rewrite Y1. exact Y2.
    + intros Pc _. destruct (HC3 Pc) as (_ & _ & Q & Org). destruct (canceled (fl (g_s g))); [auto|].
      destruct cx; [reflexivity| |].
      * rewrite Pc in Al. rewrite andb_false_r in Al. discriminate.
      * destruct (owner g) eqn:Ow.
        -- rewrite Q in Al. discriminate.
        -- destruct HA4 as [X _]. rewrite (X eq_refl) in Pc. discriminate.
    + intros X. destruct HG as (_ & (_ & _ & _ & _ & _ & HB6) & _). destruct (HB6 X) as [Y _]. congruence.
  - intros u. apply T_src_nil; cbn; auto.
Qed.

Lemma step_release g t g' acts : Inv g -> gstep g t GRelease = Some (g', acts) -> Inv g'.
Proof.
  intros [HG HT] H. unfold gstep in H. destruct (released (fl (g_s g))) eqn:Nr; [discriminate|]. injection H as <- <-.
  pose proof HG as ((HA1 & _) & _).
  split; [apply G_src_nil'; cbn; auto; apply Sinv_set_released; exact HA1 | intros u; apply T_src_nil'; cbn; auto].
Qed.

Lemma step_merge g t g' acts : Inv g -> gstep g t GMergeData = Some (g', acts) -> Inv g'.
Proof.
  intros [HG HT] H. unfold gstep in H. destruct (released (fl (g_s g))) eqn:Nr; [discriminate|]. injection H as <- <-.
  pose proof HG as ((HA1 & _) & _).
  split; [apply G_src_nil'; cbn; auto; apply Sinv_pending; exact HA1 | intros u; apply T_src_nil'; cbn; auto].
Qed.

Lemma GInv_hup g b : GInv (set_hup g b) <-> GInv g.
Proof. unfold GInv, AInv, BInv, CInv, DInv. cbn. tauto. Qed.

Lemma step_event g t st g' acts : Inv g -> gstep g t (GEvent st) = Some (g', acts) -> Inv g'.
Proof.
  intros [HG HT] H. unfold gstep in H.
  destruct (kreg (g_s g) && karm (g_s g) && negb (k_direct (g_k g)) && mgr_free g) eqn:E; [|discriminate].
  apply andb_true_iff in E as [E _]. apply andb_true_iff in E as [E _]. apply andb_true_iff in E as [Kr _]. injection H as <- <-.
  pose proof HG as ((HA1 & _) & _).
  destruct (event_du_facts (g_k g) st (g_s g) HA1 Kr) as (R & S1 & E1 & E2 & E3 & _).
  split.
  - apply GInv_hup. apply G_src_nil'; auto; rewrite E1; auto.
  - intros u. assert (T : TInv (set_src g (event_du (g_k g) st (g_s g)) []) u) by (apply T_src_nil'; auto; rewrite E1; auto).
    revert T. apply TInv_frame; reflexivity.
Qed.

Lemma step_hangup g t g' acts : Inv g -> gstep g t GHangup = Some (g', acts) -> Inv g'.
Proof.
  intros [HG HT] H. unfold gstep in H.
  destruct (kreg (g_s g) && registered (g_s g) && negb (k_timer (g_k g)) && negb (k_direct (g_k g)) && mgr_free g) eqn:E; [|discriminate].
  apply andb_true_iff in E as [E _]. apply andb_true_iff in E as [E _]. apply andb_true_iff in E as [E Kt].
  apply andb_true_iff in E as [Kr _]. apply negb_true_iff in Kt. injection H as <- <-.
  pose proof HG as ((HA1 & _) & _).
  split.
  - apply GInv_hup. apply G_src_nil'; cbn; auto. apply Sinv_hangup; assumption.
  - intros u. assert (T : TInv (set_src g (with_du (g_s g) (du_wlh (g_s g)) false true (kreg (g_s g)) false) []) u)
      by (apply T_src_nil'; cbn; auto).
    revert T. apply TInv_frame; reflexivity.
Qed.

Lemma G_take_lock g t q pc :
  GInv g -> owner g = None -> activated g = true -> past_install pc = false -> pc <> OIdle -> pc <> OLatch -> pc <> OP3 ->
  (in_cd pc = true -> h_ca (g_s g) = false /\ canceled (fl (g_s g)) = true) ->
  GInv (set_owner g (Some t) q pc f0 RNone false).
Proof.
  intros (HA & HB & HC & HD & HE) No Act Pp N1 N2 N3 Cd.
  destruct HA as (HA1 & HA2 & HA3 & HA4 & HA5 & HA6 & HA7).
  destruct HC as (HC1 & HC2 & HC3).
  unfold GInv, AInv, BInv, CInv, DInv. cbn.
  split; [|split; [|split; [|split]]].
  - split; [exact HA1|]. split; [exact HA2|]. split; [intros _; exact Act|]. split; [split; [discriminate | intros X; contradiction]|].
    split; [exact HA5|]. split; [rewrite Pp; discriminate | exact Cd].
  - exact HB.
  - split; [exact HC1|]. split; [exact HC2|]. intros X. contradiction.
  - repeat split; intros X; try discriminate. contradiction.
  - exact HE.
Qed.

Lemma step_invoke g t q g' acts : Inv g -> gstep g t (GInvoke q) = Some (g', acts) -> Inv g'.
Proof.
  intros [HG HT] H. unfold gstep in H. destruct (owner g) eqn:Ow; [discriminate|].
  destruct (activated g) eqn:Act; [|discriminate]. cbn [andb] in H.
  destruct (negb (queue_eqb q QMgr && m_hup g)); [|discriminate]. injection H as <- <-.
  split.
  - apply G_take_lock; auto; try discriminate.
  - intros u. apply (TInv_frame g _ u); auto.
Qed.

Lemma step_futex_ret g t g' acts : Inv g -> gstep g t GFutexRet = Some (g', acts) -> Inv g'.
Proof.
  intros [HG HT] H. unfold gstep in H. destruct (cpc g t) eqn:Ec; try discriminate. injection H as <- <-.
  split; [apply GInv_cpc, GInv_slp; exact HG|].
  intros u. destruct (Z.eq_dec u t) as [->|Ne].
  - destruct (HT t) as (T1 & _). unfold TInv. cbn. rewrite !upd_same.
    split; [intros _; apply T1; rewrite Ec; discriminate|]. repeat split; intros; discriminate.
  - apply (TInv_frame g _ u); cbn; auto; apply upd_other; exact Ne.
Qed.

(* ------------------------------------------------------------------ dispatch_source_cancel_and_wait *)
Lemma caw_loop_some k f f' : m_caw_loop k f = Some f' ->
  waiter f = false /\ canceled f' = true /\ deleted f' = deleted f /\ released f' = released f /\ needs_event f' = needs_event f /\
  (deleted f = true -> waiter f' = false).
Proof.
  unfold m_caw_loop. destruct (waiter f) eqn:W; [discriminate|]. intros H. injection H as <-. cbn.
  repeat split. intros D. rewrite D. reflexivity.
Qed.
Lemma caw_loop_none k f : m_caw_loop k f = None -> waiter f = true.
Proof. unfold m_caw_loop. destruct (waiter f); [reflexivity | discriminate]. Qed.

Lemma Sinv_caw k s f' : Sinv k s -> m_caw_loop k (fl s) = Some f' -> Sinv k (with_fl s f').
Proof.
  intros HS H. destruct (caw_loop_some _ _ _ H) as (_ & _ & D & _ & N & W).
  apply Sinv_fl_keep; [exact D | | exact HS].
  intros X. rewrite D in X. split; [apply W; exact X|]. rewrite N. apply HS. exact X.
Qed.

Lemma T_moved_simple g g' t p :
  g_s g' = g_s g -> cpc g' t = p -> slp g' t = slp g t -> TInv g t -> cpc g t <> CWSleep -> cpc g t <> CIdle ->
  (forall o n, p = CDecide o n -> deleted o = true -> deleted (fl (g_s g)) = true) ->
  (forall d, p = CWTest d -> deleted d = true -> deleted (fl (g_s g)) = true) ->
  (forall d, p = CWFutex d -> waiter d = true /\ deleted d = false) ->
  (p = CRet -> deleted (fl (g_s g)) = true) ->
  TInv g' t.
Proof.
  intros Es Ec El (T1 & _ & _ & _ & _ & T6) Ns Ni P2 P3 P4 P5. unfold TInv. rewrite Es, Ec, El.
  split; [intros _; apply T1; exact Ni|]. split; [exact P2|]. split; [exact P3|]. split; [exact P4|]. split; [exact P5|].
  intros X. destruct (T6 X) as [Y _]. contradiction.
Qed.

Lemma GInv_origin_cpc g t p og : GInv (set_origin (set_cpc g t p) og) <-> GInv (set_origin g og).
Proof. unfold GInv, AInv, BInv, CInv, DInv. cbn. tauto. Qed.

Lemma step_caw_enter g t g' acts : Inv g -> gstep g t GCawEnter = Some (g', acts) -> Inv g'.
Proof.
  intros [HG HT] H. unfold gstep in H. destruct (cpc g t) eqn:Ec; try discriminate.
  destruct (h_ca (g_s g) || released (fl (g_s g)) || is_owner g t) eqn:E; [discriminate|].
  apply orb_false_iff in E as [E _]. apply orb_false_iff in E as [Hca Nr].
  pose proof HG as ((HA1 & _ & _ & _ & HA5 & _) & _ & (_ & HC2 & HC3) & _).
  destruct (m_caw_loop (g_k g) (fl (g_s g))) as [f'|] eqn:L; injection H as <- <-.
  - destruct (caw_loop_some _ _ _ L) as (W0 & C1 & D1 & R1 & N1 & W1).
    split.
    + apply GInv_origin_cpc. apply G_src_nil.
      * exact HG.
      * apply Sinv_caw; assumption.
      * reflexivity.
      * reflexivity.
      * exact D1.
      * intros _. exact C1.
      * cbn. rewrite R1. auto.
      * intros _. exact C1.
      * intros X. destruct (HC2 X) as [Y1 Y2]. rewrite Y1. exact Y2.
      * intros Pc _. destruct (HC3 Pc) as (_ & _ & _ & Org). destruct (canceled (fl (g_s g))); auto.
      * intros X. destruct HG as (_ & (_ & _ & _ & _ & _ & HB6) & _). destruct (HB6 X) as [Y _]. congruence.
    + intros u. destruct (Z.eq_dec u t) as [->|Ne].
      * destruct (HT t) as (_ & _ & _ & _ & _ & T6).
        unfold TInv. cbn. rewrite upd_same.
        split; [intros _; split; [exact Hca | exact C1]|].
        split; [intros o n X D; injection X as <- <-; rewrite D1; exact D|].
        split; [intros d X; discriminate|]. split; [intros d X; discriminate|]. split; [intros X; discriminate|].
        intros X. destruct (T6 X) as [Y _]. rewrite Ec in Y. discriminate.
      * assert (T : TInv (set_origin (set_src g (with_fl (g_s g) f') []) (if canceled (fl (g_s g)) then origin g else Some CxThread)) u).
        { apply T_src_nil; [exact (HT u) | reflexivity | exact D1 | intros _; exact C1 | rewrite W0; discriminate]. }
        revert T. apply TInv_frame; cbn; auto. apply upd_other. exact Ne.
  - pose proof (caw_loop_none _ _ L) as W.
    split; [apply GInv_cpc; exact HG|].
    intros u. destruct (Z.eq_dec u t) as [->|Ne].
    + destruct (HT t) as (_ & _ & _ & _ & _ & T6).
      unfold TInv. cbn. rewrite upd_same.
      split; [intros _; split; [exact Hca | apply HA5; exact W]|].
      split; [intros o n X D; injection X as <- _; exact D|].
      split; [intros d X; discriminate|]. split; [intros d X; discriminate|]. split; [intros X; discriminate|].
      intros X. destruct (T6 X) as [Y _]. rewrite Ec in Y. discriminate.
    + apply (TInv_frame g _ u); cbn; auto. apply upd_other. exact Ne.
Qed.

Lemma Inv_set_cpc g t p :
  Inv g -> cpc g t <> CWSleep -> cpc g t <> CIdle ->
  (forall o n, p = CDecide o n -> deleted o = true -> deleted (fl (g_s g)) = true) ->
  (forall d, p = CWTest d -> deleted d = true -> deleted (fl (g_s g)) = true) ->
  (forall d, p = CWFutex d -> waiter d = true /\ deleted d = false) ->
  (p = CRet -> deleted (fl (g_s g)) = true) ->
  Inv (set_cpc g t p).
Proof.
  intros [HG HT] N1 N2 P2 P3 P4 P5. split; [apply GInv_cpc; exact HG|].
  intros u. destruct (Z.eq_dec u t) as [->|Ne].
  - apply (T_moved_simple g _ t p); auto; cbn; auto. apply upd_same.
  - apply (TInv_frame g _ u); cbn; auto. apply upd_other. exact Ne.
Qed.

Lemma GInv_early g : GInv g -> GInv (set_caw_early g false).
Proof. unfold GInv, AInv, BInv, CInv, DInv. cbn. tauto. Qed.

Lemma G_set_waiter g :
  GInv g -> deleted (fl (g_s g)) = false -> canceled (fl (g_s g)) = true ->
  GInv (set_src g (with_fl (g_s g) (set_waiter (fl (g_s g)))) []).
Proof.
  intros HG Nd Cc. pose proof HG as ((HA1 & _) & _ & (_ & HC2 & HC3) & _).
  rewrite <- (set_origin_same (set_src g _ [])). change (origin (set_src g _ [])) with (origin g).
  apply G_src_nil.
  - exact HG.
  - apply Sinv_fl_keep; [reflexivity | | exact HA1]. cbn. rewrite Nd. discriminate.
  - reflexivity.
  - reflexivity.
  - reflexivity.
  - cbn. auto.
  - cbn. auto.
  - cbn. intros _. exact Cc.
  - intros X. destruct (HC2 X). assumption.
  - cbn. intros X Y. destruct (HC3 X) as (_ & _ & _ & Z1). auto.
  - cbn. intros X. destruct HG as (_ & (_ & _ & _ & _ & _ & HB6) & _). apply HB6. exact X.
Qed.

Lemma step_caw_step g t lock o g' acts : Inv g -> gstep g t (GCawStep lock o) = Some (g', acts) -> Inv g'.
Proof.
  intros HI H. pose proof HI as [HG HT]. unfold gstep in H.
  pose proof (HT t) as (T1 & T2 & T3 & T4 & T5 & T6).
  destruct (cpc g t) as [ | oldf newf | | | d | d | | ] eqn:Ec; try discriminate.
  - (* CDecide *)
    assert (NI : CDecide oldf newf <> CIdle) by discriminate. destruct (T1 NI) as [Hca Cc].
    destruct (deleted oldf) eqn:Do.
    { injection H as <- <-. apply Inv_set_cpc; auto; try (rewrite Ec; discriminate); try (intros; discriminate).
      intros _. apply (T2 oldf newf eq_refl Do). }
    destruct (waiter newf) eqn:Wn.
    { injection H as <- <-. apply Inv_set_cpc; auto; try (rewrite Ec; discriminate); intros; discriminate. }
    destruct (activated g) eqn:Act; cbn [negb] in H.
    + destruct lock.
      * destruct (owner g) eqn:Ow; [discriminate|]. injection H as <- <-.
        split.
        -- apply GInv_cpc. apply G_take_lock; auto; try discriminate.
        -- intros u. destruct (Z.eq_dec u t) as [->|Ne].
           ++ apply (T_moved_simple g _ t CDirect); auto; cbn; try (rewrite Ec; discriminate); try (intros; discriminate).
              apply upd_same.
           ++ apply (TInv_frame g _ u); cbn; auto. apply upd_other. exact Ne.
      * injection H as <- <-. apply Inv_set_cpc; auto; try (rewrite Ec; discriminate); intros; discriminate.
    + rewrite Cc in H. destruct (activate_src (g_k g) o (g_s g)) as [s1 a] eqn:Ea. injection H as <- <-.
      assert (E1 : s1 = fst (activate_src (g_k g) o (g_s g))) by (rewrite Ea; reflexivity).
      assert (E2 : a = snd (activate_src (g_k g) o (g_s g))) by (rewrite Ea; reflexivity).
      rewrite E1, E2.
      pose proof (G_activate g o HG Act) as G1.
      split; [apply GInv_cpc; exact G1|].
      intros u. pose proof (T_activate g o u HG (HT u) Act) as Tu.
      destruct (Z.eq_dec u t) as [->|Ne].
      * revert Tu. set (g1 := set_activated _). intros Tu.
        apply (T_moved_simple g1 _ t CRet); auto; cbn; try (rewrite Ec; discriminate); try (intros; discriminate).
        -- apply upd_same.
        -- intros _. destruct HG as ((HA1 & HA2 & _) & _).
           assert (Ni : installed (g_s g) = false).
           { destruct (installed (g_s g)) eqn:E; [|reflexivity]. rewrite (HA2 eq_refl) in Act. discriminate. }
           apply (activate_src_eff (g_k g) o (g_s g) HA1 Ni). exact Cc.
      * revert Tu. apply TInv_frame; cbn; auto. apply upd_other. exact Ne.
  - (* CWLoad *)
    injection H as <- <-. apply Inv_set_cpc; auto; try (rewrite Ec; discriminate); try (intros; discriminate).
    intros d X D. injection X as <-. exact D.
  - (* CWTest *)
    assert (NI : CWTest d <> CIdle) by discriminate. destruct (T1 NI) as [Hca Cc].
    destruct (deleted d) eqn:Dd.
    { injection H as <- <-. apply Inv_set_cpc; auto; try (rewrite Ec; discriminate); try (intros; discriminate).
      intros _. apply (T3 d eq_refl Dd). }
    destruct (waiter d) eqn:Wd; cbn [negb] in H.
    { injection H as <- <-. apply Inv_set_cpc; auto; try (rewrite Ec; discriminate); try (intros; discriminate).
      intros d' X. injection X as <-. auto. }
    destruct (flags_eqb (fl (g_s g)) d) eqn:Fe.
    + apply flags_eqb_eq in Fe. subst d. injection H as <- <-.
      split; [apply GInv_cpc; apply G_set_waiter; assumption|].
      intros u. destruct (Z.eq_dec u t) as [->|Ne].
      * unfold TInv. cbn. rewrite upd_same.
        split; [intros _; split; assumption|]. split; [intros; discriminate|]. split; [intros; discriminate|].
        split; [intros d X; injection X as <-; cbn; auto|]. split; [intros; discriminate|].
        intros X. destruct (T6 X) as [Y _]. discriminate.
      * assert (T : TInv (set_src g (with_fl (g_s g) (set_waiter (fl (g_s g)))) []) u).
        { rewrite <- (set_origin_same (set_src g _ [])). change (origin (set_src g _ [])) with (origin g).
          apply T_src_nil; [exact (HT u) | reflexivity | reflexivity | cbn; auto | cbn; auto]. }
        revert T. apply TInv_frame; cbn; auto. apply upd_other. exact Ne.
    + injection H as <- <-. apply Inv_set_cpc; auto; try (rewrite Ec; discriminate); try (intros; discriminate).
      intros d' X D. injection X as <-. exact D.
  - (* CWFutex *)
    destruct (T4 d eq_refl) as [Wd Dd]. assert (NI : CWFutex d <> CIdle) by discriminate.
    destruct (flags_eqb (fl (g_s g)) d && lock) eqn:Fe.
    + apply andb_true_iff in Fe as [Fe _]. apply flags_eqb_eq in Fe. injection H as <- <-.
      split; [apply GInv_slp, GInv_cpc; exact HG|].
      intros u. destruct (Z.eq_dec u t) as [->|Ne].
      * unfold TInv. cbn. rewrite !upd_same.
        split; [intros _; apply T1; exact NI|]. split; [intros; discriminate|]. split; [intros; discriminate|].
        split; [intros; discriminate|]. split; [intros; discriminate|].
        intros _. rewrite Fe. auto.
      * apply (TInv_frame g _ u); cbn; auto; apply upd_other; exact Ne.
    + injection H as <- <-. apply Inv_set_cpc; auto; try (rewrite Ec; discriminate); intros; discriminate.
  - (* CRet *)
    injection H as <- <-. rewrite (T5 eq_refl). cbn [negb]. rewrite orb_false_r.
    pose proof HG as (_ & _ & _ & _ & HE). rewrite HE.
    split; [apply GInv_early, GInv_cpc; exact HG|].
    intros u. destruct (Z.eq_dec u t) as [->|Ne].
    + unfold TInv. cbn. rewrite upd_same.
      split; [intros X; contradiction|]. split; [intros; discriminate|]. split; [intros; discriminate|].
      split; [intros; discriminate|]. split; [intros; discriminate|].
      intros X. destruct (T6 X) as [Y _]. discriminate.
    + apply (TInv_frame g _ u); cbn; auto. apply upd_other. exact Ne.
Qed.

(* ------------------------------------------------------------------ every reachable state *)
(* ------------------------------------------------------------------ the hang-up delivery in two halves
   While the manager is between its update of du_state and _dispatch_source_merge_evt's second read of it, nobody
   unregisters a muxed unote: it is unregistered on the manager queue only (source.c:788 as fixed, :832) and the manager
   thread is busy; cancel_and_wait's locked path exists for direct unotes only.  (Timers may be unregistered on the target
   queue meanwhile; _dispatch_source_merge_evt does not finalize timers.) *)
Definition HInv (g : gst) : Prop :=
  (m_hup g = true ->
     match owner g with Some _ => queue_eqb (o_q g) QMgr = false | None => True end /\
     (k_timer (g_k g) = true \/ (registered (g_s g) = true /\ k_direct (g_k g) = false))) /\
  (in_cd (o_pc g) = true -> k_direct (g_k g) = true) /\
  (forall t o n, cpc g t = CDecide o n -> deleted o = false -> k_direct (g_k g) = false -> waiter n = true) /\
  (m_hup g = true -> activated g = true).

Lemma HInv_init k ev ca rg : HInv (init_state k ev ca rg).
Proof. unfold HInv, init_state. cbn. repeat split; intros; discriminate. Qed.

(* steps that keep the kind, the hang-up flag, the lock owner and every cancel_and_wait caller where they are *)
Lemma H_frame g g' :
  HInv g -> g_k g' = g_k g -> m_hup g' = m_hup g -> owner g' = owner g -> o_q g' = o_q g -> o_pc g' = o_pc g ->
  (forall u, cpc g' u = cpc g u) -> (m_hup g = true -> registered (g_s g) = true -> registered (g_s g') = true) ->
  (activated g = true -> activated g' = true) -> HInv g'.
Proof.
  intros (H1 & H2 & H3 & H4) Ek Em Eo Eq Ep Ec Er Ea. unfold HInv. rewrite Ek, Em, Eo, Eq, Ep.
  split; [|split; [|split]].
  - intros M. destruct (H1 M) as (X & [Y|[R Y]]); (split; [exact X|]); [left; exact Y | right; split; [apply Er; assumption | exact Y]].
  - exact H2.
  - intros t o n. rewrite Ec. apply H3.
  - intros M. auto.
Qed.

Lemma kreg_active g : Inv g -> kreg (g_s g) = true -> activated g = true.
Proof.
  intros [((HA1 & HA2 & _) & _) _] Kr. destruct HA1 as (_ & S2 & _ & S4 & _). apply HA2, S4, S2, Kr.
Qed.

Lemma step_hmerge g t g' acts : Inv g -> HInv g -> gstep g t GEvMerge = Some (g', acts) -> Inv g' /\ acts = [].
Proof.
  intros [HG HT] (H1 & _) H. unfold gstep in H. destruct (m_hup g) eqn:M; [|discriminate]. cbv zeta in H.
  assert (D : negb (registered (with_pending (g_s g) true)) && negb (k_timer (g_k g)) = false).
  { destruct (H1 eq_refl) as (_ & [Kt|[R _]]); [rewrite Kt; apply andb_false_r|].
    change (registered (with_pending (g_s g) true)) with (registered (g_s g)). rewrite R. reflexivity. }
  rewrite D in H. injection H as <- <-. split; [|reflexivity].
  pose proof HG as ((HA1 & _) & _).
  split.
  - apply GInv_hup. apply G_src_nil'; try reflexivity; auto.
  - intros u. assert (T : TInv (set_src g (with_pending (g_s g) true) []) u) by (apply T_src_nil'; cbn; auto).
    revert T. apply TInv_frame; reflexivity.
Qed.

Lemma step_H g t a g' acts : Inv g -> HInv g -> gstep g t a = Some (g', acts) -> HInv g'.
Proof.
  intros HI HH H. pose proof HI as [HG HT]. pose proof HH as (H1 & H2 & H3 & H4).
  assert (NoHup : activated g = false -> m_hup g = false).
  { intros Na. destruct (m_hup g) eqn:M; [|reflexivity]. rewrite (H4 eq_refl) in Na. discriminate. }
  destruct a; unfold gstep in H.
  - (* GActivate *)
    destruct (activated g || released (fl (g_s g))) eqn:E; [discriminate|]. apply orb_false_iff in E as [Na _].
    destruct (activate_src (g_k g) o (g_s g)) as [s1 a] eqn:Ea. injection H as <- _.
    apply (H_frame g); auto. intros M. rewrite (NoHup Na) in M. discriminate.
  - destruct (released (fl (g_s g))); [discriminate|].
    match type of H with (if ?c then _ else _) = _ => destruct c end; [discriminate|]. injection H as <- _.
    apply (H_frame g); auto.
  - destruct (released (fl (g_s g))); [discriminate|]. injection H as <- _. apply (H_frame g); auto.
  - destruct (released (fl (g_s g))); [discriminate|]. injection H as <- _. apply (H_frame g); auto.
  - (* GEvent: first half *)
    destruct (kreg (g_s g) && karm (g_s g) && negb (k_direct (g_k g)) && mgr_free g) eqn:E; [|discriminate].
    apply andb_true_iff in E as [E Mf]. apply andb_true_iff in E as [E Kd]. apply andb_true_iff in E as [Kr _].
    apply negb_true_iff in Kd. injection H as <- _.
    pose proof HG as ((HA1 & _) & _).
    destruct (event_du_facts (g_k g) stay_armed (g_s g) HA1 Kr) as (R & _).
    unfold HInv. cbn. split; [|split; [|split]].
    + intros _. split.
      * unfold mgr_free in Mf. apply andb_true_iff in Mf as [_ Mf]. destruct (owner g); [apply negb_true_iff in Mf; exact Mf | exact I].
      * right. split; [exact R | exact Kd].
    + exact H2.
    + exact H3.
    + intros _. apply (kreg_active g HI Kr).
  - (* GHangup: first half *)
    destruct (kreg (g_s g) && registered (g_s g) && negb (k_timer (g_k g)) && negb (k_direct (g_k g)) && mgr_free g) eqn:E; [|discriminate].
    apply andb_true_iff in E as [E Mf]. apply andb_true_iff in E as [E Kd]. apply andb_true_iff in E as [E Kt].
    apply andb_true_iff in E as [Kr _]. apply negb_true_iff in Kt, Kd. injection H as <- _.
    destruct HG as ((HA1 & _) & _). destruct HA1 as (_ & S2 & _).
    unfold HInv. cbn. split; [|split; [|split]].
    + intros _. split.
      * unfold mgr_free in Mf. apply andb_true_iff in Mf as [_ Mf]. destruct (owner g); [apply negb_true_iff in Mf; exact Mf | exact I].
      * right. split; [unfold registered; cbn; rewrite (S2 Kr); reflexivity | exact Kd].
    + exact H2.
    + exact H3.
    + intros _. apply (kreg_active g HI Kr).
  - (* GEvMerge: second half *)
    destruct (m_hup g) eqn:M; [|discriminate]. cbv zeta in H.
    assert (D : negb (registered (with_pending (g_s g) true)) && negb (k_timer (g_k g)) = false).
    { destruct (H1 eq_refl) as (_ & [Kt|[R _]]); [rewrite Kt; apply andb_false_r|].
      change (registered (with_pending (g_s g) true)) with (registered (g_s g)). rewrite R. reflexivity. }
    rewrite D in H. injection H as <- _.
    unfold HInv. cbn. split; [intros X; discriminate|]. split; [exact H2|]. split; [exact H3|]. intros X; discriminate.
  - (* GInvoke *)
    destruct (owner g) eqn:Ow; [discriminate|]. destruct (activated g) eqn:Act; [|discriminate]. cbn [andb] in H.
    destruct (negb (queue_eqb q QMgr && m_hup g)) eqn:Q; [|discriminate]. injection H as <- _.
    unfold HInv. cbn. split; [|split; [|split]].
    + intros M. destruct (H1 M) as (_ & X). split; [|exact X]. rewrite M, andb_true_r in Q. apply negb_true_iff in Q. exact Q.
    + intros X; discriminate.
    + exact H3.
    + intros _. exact Act.
  - (* GPhase *)
    pose proof (gstep_phase g t o g' acts H) as S. cbv zeta in S.
    set (i0 := mkI (g_s g) (o_pc g) (o_dqf g) (o_retq g) (o_avoid g)) in *. set (p := phase (g_k g) (o_q g) o i0) in *.
    destruct S as (Ow & Ea & Es & Epc & Edqf & Ek & Eact & Eq & Eow & _ & _ & _ & _ & _ & _ & _ & Ecpo & Ecpt).
    assert (Em : m_hup g' = m_hup g).
    { unfold gstep in H. destruct (negb (is_owner g t)); [discriminate|]. fold i0 in H. fold p in H.
      destruct p; injection H as <- _; [reflexivity|]. destruct (cpc g t); reflexivity. }
    pose proof (phase_facts2 (g_k g) (o_q g) o i0) as K. cbv zeta in K. fold p in K. cbn [i_src i_pc i_dqf i0] in K.
    destruct K as (_ & _ & _ & _ & _ & _ & _ & K8 & _).
    unfold HInv. rewrite Ek, Em, Es, Epc, Eq, Eact. split; [|split; [|split]].
    + intros M. destruct (H1 M) as (Oq & X). rewrite Ow in Oq. split.
      * rewrite Eow. destruct p; [rewrite Ow; exact Oq | exact I].
      * destruct X as [Kt|[R Kd]]; [left; exact Kt|].
        destruct (k_timer (g_k g)) eqn:Kt; [left; reflexivity|]. right. split; [|exact Kd].
        destruct (registered (res_src p)) eqn:R'; [reflexivity|]. exfalso.
        destruct (phase_unreg (g_k g) (o_q g) o i0 R R') as [X|[X|[X|X]]].
        -- unfold dkq in X. rewrite Kd in X. congruence.
        -- congruence.
        -- congruence.
        -- cbn [i_pc i0] in X. rewrite (H2 X) in Kd. discriminate.
    + intros X. apply H2. apply K8. exact X.
    + intros u o' n Hc. destruct (Z.eq_dec u t) as [->|Ne].
      * destruct Ecpt as [Ec|[_ Ec]]; [rewrite Ec in Hc; apply (H3 t o' n Hc) | rewrite Ec in Hc; discriminate].
      * rewrite (Ecpo u Ne) in Hc. apply (H3 u o' n Hc).
    + exact H4.
  - (* GCawEnter *)
    destruct (cpc g t) eqn:Ec; try discriminate.
    match type of H with (if ?c then _ else _) = _ => destruct c end; [discriminate|].
    destruct (m_caw_loop (g_k g) (fl (g_s g))) as [f'|] eqn:L; injection H as <- _.
    + unfold HInv. cbn. split; [exact H1|]. split; [exact H2|]. split; [|exact H4].
      intros u o' n Hc Dl Kd. destruct (Z.eq_dec u t) as [->|Ne].
      * rewrite upd_same in Hc. injection Hc as <- <-. unfold m_caw_loop in L. destruct (waiter (fl (g_s g))); [discriminate|].
        injection L as <-. cbn. rewrite Dl, Kd. cbn. apply orb_true_r.
      * rewrite upd_other in Hc by exact Ne. apply (H3 u o' n Hc Dl Kd).
    + unfold HInv. cbn. split; [exact H1|]. split; [exact H2|]. split; [|exact H4].
      intros u o' n Hc Dl Kd. destruct (Z.eq_dec u t) as [->|Ne].
      * rewrite upd_same in Hc. injection Hc as <- <-. cbn. apply (caw_loop_none _ _ L).
      * rewrite upd_other in Hc by exact Ne. apply (H3 u o' n Hc Dl Kd).
  - (* GCawStep *)
    assert (Cp : forall g1 p, (forall o' n, p <> CDecide o' n) -> g_k g1 = g_k g -> m_hup g1 = m_hup g -> owner g1 = owner g ->
                  o_q g1 = o_q g -> o_pc g1 = o_pc g -> (forall u, cpc g1 u = cpc g u) ->
                  (m_hup g = true -> registered (g_s g) = true -> registered (g_s g1) = true) ->
                  (activated g = true -> activated g1 = true) -> HInv (set_cpc g1 t p)).
    { intros g1 p Np Ek Em Eo Eq Ep Ec Er Ea. pose proof (H_frame g g1 HH Ek Em Eo Eq Ep Ec Er Ea) as (X1 & X2 & X3 & X4).
      unfold HInv. cbn. split; [exact X1|]. split; [exact X2|]. split; [|exact X4].
      intros u o' n Hc. destruct (Z.eq_dec u t) as [->|Ne].
      - rewrite upd_same in Hc. contradiction (Np o' n Hc).
      - rewrite upd_other in Hc by exact Ne. apply (X3 u o' n Hc). }
    destruct (cpc g t) as [ | oldf newf | | | d | d | | ] eqn:Ec; try discriminate.
    + destruct (deleted oldf) eqn:Do; [injection H as <- _; apply Cp; auto; discriminate|].
      destruct (waiter newf) eqn:Wn; [injection H as <- _; apply Cp; auto; discriminate|].
      destruct (activated g) eqn:Na; cbn [negb] in H.
      * destruct lock.
        -- destruct (owner g) eqn:Ow; [discriminate|]. injection H as <- _.
           assert (Kd : k_direct (g_k g) = true).
           { destruct (k_direct (g_k g)) eqn:X; [reflexivity|]. rewrite (H3 t oldf newf Ec Do eq_refl) in Wn. discriminate. }
           unfold HInv. cbn. split; [|split; [|split]].
           ++ intros M. destruct (H1 M) as (_ & X). split; [reflexivity | exact X].
           ++ intros _. exact Kd.
           ++ intros u o' n Hc. destruct (Z.eq_dec u t) as [->|Ne]; [rewrite upd_same in Hc; discriminate|].
              rewrite upd_other in Hc by exact Ne. apply (H3 u o' n Hc).
           ++ intros _. exact Na.
        -- injection H as <- _. apply Cp; auto; discriminate.
      * destruct (canceled (fl (g_s g))); [|discriminate].
        destruct (activate_src (g_k g) o (g_s g)) as [s1 a] eqn:Ea. injection H as <- _.
        apply Cp; auto; try discriminate. intros M. rewrite (NoHup eq_refl) in M. discriminate.
    + injection H as <- _. apply Cp; auto; discriminate.
    + destruct (deleted d); [injection H as <- _; apply Cp; auto; discriminate|].
      destruct (negb (waiter d)); [|injection H as <- _; apply Cp; auto; discriminate].
      destruct (flags_eqb (fl (g_s g)) d); injection H as <- _; apply Cp; auto; discriminate.
    + destruct (flags_eqb (fl (g_s g)) d && lock); injection H as <- _.
      * assert (X : HInv (set_cpc g t CWSleep)) by (apply Cp; auto; discriminate). exact X.
      * apply Cp; auto; discriminate.
    + injection H as <- _. assert (X : HInv (set_cpc g t CIdle)) by (apply Cp; auto; discriminate). exact X.
  - (* GFutexRet *)
    destruct (cpc g t) eqn:Ec; try discriminate. injection H as <- _.
    assert (X : HInv (set_cpc g t CWLoad)).
    { pose proof (H_frame g g HH eq_refl eq_refl eq_refl eq_refl eq_refl (fun _ => eq_refl) (fun _ r => r) (fun a => a)) as (X1 & X2 & X3 & X4).
      unfold HInv. cbn. split; [exact X1|]. split; [exact X2|]. split; [|exact X4]. intros u o' n Hc. destruct (Z.eq_dec u t) as [->|Ne].
      - rewrite upd_same in Hc. discriminate.
      - rewrite upd_other in Hc by exact Ne. apply (X3 u o' n Hc). }
    exact X.
Qed.

Definition Inv2 (g : gst) : Prop := Inv g /\ HInv g.

Lemma step_preserves g t a g' acts : Inv2 g -> gstep g t a = Some (g', acts) -> Inv2 g'.
Proof.
  intros [HI HH] H. split; [|eapply step_H; eassumption].
  destruct a.
  - eapply step_activate; eassumption.
  - eapply step_cancel; eassumption.
  - eapply step_release; eassumption.
  - eapply step_merge; eassumption.
  - eapply step_event; eassumption.
  - eapply step_hangup; eassumption.
  - eapply step_hmerge; eassumption.
  - eapply step_invoke; eassumption.
  - split; [eapply phase_G; eassumption | eapply phase_T; eassumption].
  - eapply step_caw_enter; eassumption.
  - eapply step_caw_step; eassumption.
  - eapply step_futex_ret; eassumption.
Qed.

Theorem Inv2_reach k ev ca rg g : reach k ev ca rg g -> Inv2 g.
Proof.
  unfold reach. apply invariant_lift.
  - intros s ->. split; [apply Inv_init | apply HInv_init].
  - intros s [t a] s' HI [acts H]. eapply step_preserves; eassumption.
Qed.
Theorem Inv_reach k ev ca rg g : reach k ev ca rg g -> Inv g.
Proof. intros R. apply (Inv2_reach k ev ca rg g R). Qed.

Theorem event_delivery_never_finalizes k ev ca rg g t g' acts :
  reach k ev ca rg g -> gstep g t GEvMerge = Some (g', acts) -> acts = [].
Proof.
  intros R H. destruct (Inv2_reach k ev ca rg g R) as [HI HH]. exact (proj2 (step_hmerge g t g' acts HI HH H)).
Qed.

(* ------------------------------------------------------------------ consequences *)
Lemma activate_acts g o :
  Inv g -> activated g = false ->
  let a := snd (activate_src (g_k g) o (g_s g)) in
  count AEhBegin a = 0 /\ count AChBegin a = 0 /\ existsb is_fin_twice a = false.
Proof.
  intros [((HA1 & HA2 & _) & _) _] Na. cbv zeta.
  assert (Ni : installed (g_s g) = false).
  { destruct (installed (g_s g)) eqn:E; [|reflexivity]. rewrite (HA2 eq_refl) in Na. discriminate. }
  destruct (activate_src_eff (g_k g) o (g_s g) HA1 Ni) as (_ & _ & _ & _ & _ & E6 & _ & E8 & _ & _ & E11).
  split; [exact E8|]. split; [exact E6|].
  destruct (existsb is_fin_twice (snd (activate_src (g_k g) o (g_s g)))) eqn:X; [|reflexivity].
  destruct HA1 as (S1 & _). destruct (S1 (E11 eq_refl)) as (_ & _ & I & _). congruence.
Qed.

(* the only steps that perform callouts or finalize twice could be phases of the lock owner *)
Lemma nonphase_acts g t a g' acts :
  Inv2 g -> gstep g t a = Some (g', acts) -> (forall o, a <> GPhase o) ->
  count AEhBegin acts = 0 /\ count AChBegin acts = 0 /\ existsb is_fin_twice acts = false.
Proof.
  intros [HI HH] H Np. pose proof HI as [HG HT].
  assert (Nil : acts = [] -> count AEhBegin acts = 0 /\ count AChBegin acts = 0 /\ existsb is_fin_twice acts = false)
    by (intros ->; repeat split).
  destruct a; unfold gstep in H.
  - destruct (activated g || released (fl (g_s g))) eqn:E; [discriminate|]. apply orb_false_iff in E as [Na _].
    destruct (activate_src (g_k g) o (g_s g)) as [s1 a] eqn:Ea. injection H as _ <-.
    change a with (snd (s1, a)). rewrite <- Ea. apply activate_acts; assumption.
  - destruct (released (fl (g_s g))); [discriminate|].
    match type of H with (if ?c then _ else _) = _ => destruct c end; [discriminate|]. injection H as _ <-. auto.
  - destruct (released (fl (g_s g))); [discriminate|]. injection H as _ <-. auto.
  - destruct (released (fl (g_s g))); [discriminate|]. injection H as _ <-. auto.
  - match type of H with (if ?c then _ else _) = _ => destruct c end; [|discriminate]. injection H as _ <-. auto.
  - match type of H with (if ?c then _ else _) = _ => destruct c end; [|discriminate]. injection H as _ <-. auto.
  - apply Nil. destruct (step_hmerge g t g' acts HI HH H) as [_ X]. exact X.
  - destruct (owner g); [discriminate|]. destruct (activated g); [|discriminate]. cbn [andb] in H.
    match type of H with (if ?c then _ else _) = _ => destruct c end; [|discriminate]. injection H as _ <-. auto.
  - exfalso. apply (Np o). reflexivity.
  - destruct (cpc g t); try discriminate.
    match type of H with (if ?c then _ else _) = _ => destruct c end; [discriminate|].
    destruct (m_caw_loop (g_k g) (fl (g_s g))); injection H as _ <-; auto.
  - destruct (cpc g t) as [ | oldf newf | | | d | d | | ] eqn:Ec; try discriminate.
    + destruct (deleted oldf); [injection H as _ <-; auto|].
      destruct (waiter newf); [injection H as _ <-; auto|].
      destruct (activated g) eqn:Act; cbn [negb] in H.
      * destruct lock; [destruct (owner g); [discriminate|]|]; injection H as _ <-; auto.
      * destruct (canceled (fl (g_s g))); [|discriminate].
        destruct (activate_src (g_k g) o (g_s g)) as [s1 a] eqn:Ea. injection H as _ <-.
        change a with (snd (s1, a)). rewrite <- Ea. apply activate_acts; assumption.
    + injection H as _ <-. auto.
    + destruct (deleted d); [injection H as _ <-; auto|].
      destruct (negb (waiter d)); [|injection H as _ <-; auto].
      destruct (flags_eqb (fl (g_s g)) d); injection H as _ <-; auto.
    + destruct (flags_eqb (fl (g_s g)) d && lock); injection H as _ <-; auto.
    + injection H as _ <-. auto.
  - destruct (cpc g t); try discriminate. injection H as _ <-. auto.
Qed.

Section Consequences.
  Variables (k : kind) (ev ca rg : bool).
  Notation R := (reach k ev ca rg).

  (* the cancel handler runs at most once, ever; once its slot has been released on a cancelled source it has run exactly
     once, whether or not the last reference has been dropped meanwhile (cancel; release is the client idiom); it is disposed
     of without a call only on a source whose last reference was dropped and that was never cancelled (and never will be) *)
  Theorem cancel_handler_exactly_once g : R g ->
    0 <= ch_count g <= 1 /\ (h_ca (g_s g) = true -> ch_count g = 0) /\
    (h_ca (g_s g) = false -> ch_set g = true -> canceled (fl (g_s g)) = true -> ch_count g = 1) /\
    (ch_disposed g = true -> released (fl (g_s g)) = true /\ canceled (fl (g_s g)) = false /\ ch_count g = 0) /\
    (ch_set g = false -> ch_count g = 0).
  Proof.
    intros Hr. destruct (Inv_reach _ _ _ _ _ Hr) as [(_ & HB & _) _].
    destruct HB as (HB1 & HB2 & HB3 & HB4 & HB5 & HB6).
    split; [exact HB1|]. split; [intros X; apply HB2; exact X|]. split; [|split].
    - intros X Y Z. destruct (HB3 X Y) as [W|W]; [exact W|]. destruct (HB6 W) as [_ V]. congruence.
    - intros X. destruct (HB6 X) as [A B]. split; [exact A|]. split; [exact B|].
      destruct (Z.eq_dec (ch_count g) 0) as [|Ne]; [assumption|]. assert (Y : 1 <= ch_count g) by lia.
      destruct (HB5 Y) as [C _]. congruence.
    - intros X. apply HB4. exact X.
  Qed.

  (* "Source finalized twice" is unreachable *)
  Theorem finalized_once g t a g' acts : R g -> gstep g t a = Some (g', acts) -> existsb is_fin_twice acts = false.
  Proof.
    intros Hr H. pose proof (Inv2_reach _ _ _ _ _ Hr) as HI2. pose proof (proj1 HI2) as HI.
    assert (D : (exists o, a = GPhase o) \/ forall o, a <> GPhase o).
    { destruct a; try (right; intros o' X; discriminate). left. eexists; reflexivity. }
    destruct D as [[o ->]|Np]; [|apply (nonphase_acts g t a g' acts HI2 H Np)].
    destruct HI as [(HA & _ & _ & HD & _) _]. destruct HA as (HA1 & _ & _ & _ & _ & HA6 & _). destruct HD as (_ & _ & _ & HD4).
    pose proof (gstep_phase g t o g' acts H) as S. cbv zeta in S. destruct S as (_ & Ea & _).
    pose proof (phase_facts2 (g_k g) (o_q g) o (mkI (g_s g) (o_pc g) (o_dqf g) (o_retq g) (o_avoid g))) as K.
    cbv zeta in K. cbn [i_src i_pc i_dqf] in K. destruct K as (_ & _ & _ & K4 & _). rewrite <- Ea in K4.
    destruct (existsb is_fin_twice acts) eqn:X; [|reflexivity]. exfalso.
    destruct (K4 eq_refl) as (Dl & W). destruct HA1 as (S1 & _ & _ & _ & S5 & _).
    destruct (S1 Dl) as (_ & Kr & In & _).
    destruct W as [(Pc & Ni)|[(Pc & Nd)|(Pc & Dq)]].
    - congruence.
    - rewrite (S5 Nd) in Kr. discriminate.
    - rewrite (HD4 Pc) in Dq. congruence.
  Qed.

  (* every event handler invocation starts from the committed point, on the target queue, by the lock owner, and never
     once the cancel handler has run *)
  Theorem event_handler_start g t a g' acts : R g -> gstep g t a = Some (g', acts) -> count AEhBegin acts <> 0 ->
    ch_count g = 0 /\ o_pc g = OLatch /\ o_q g = QTarget /\ owner g = Some t /\ late_starts g = 0 /\
    (canceled (fl (g_s g)) = true -> origin g = Some CxThread).
  Proof.
    intros Hr H Nz. pose proof (Inv2_reach _ _ _ _ _ Hr) as HI2. pose proof (proj1 HI2) as HI.
    assert (D : (exists o, a = GPhase o) \/ forall o, a <> GPhase o).
    { destruct a; try (right; intros o' X; discriminate). left. eexists; reflexivity. }
    destruct D as [[o ->]|Np]; [|destruct (nonphase_acts g t a g' acts HI2 H Np) as [X _]; contradiction].
    destruct HI as [(_ & _ & HC & _) _]. destruct HC as (_ & _ & HC3).
    pose proof (gstep_phase g t o g' acts H) as S. cbv zeta in S. destruct S as (Ow & Ea & _).
    pose proof (phase_facts (g_k g) (o_q g) o (mkI (g_s g) (o_pc g) (o_dqf g) (o_retq g) (o_avoid g))) as F.
    cbv zeta in F. cbn [i_src i_pc i_dqf] in F. destruct F as (_ & _ & _ & F4 & _). rewrite <- Ea in F4.
    destruct F4 as [Z0|(_ & Pc & _)]; [contradiction|]. destruct (HC3 Pc) as (L0 & C0 & Q & Org).
    repeat split; auto.
  Qed.

  (* the cancel handler starts only from a phase of the lock owner running on the target queue, with CANCELED and DELETED
     set and nothing registered with the event system any more *)
  Theorem cancel_handler_start g t a g' acts : R g -> gstep g t a = Some (g', acts) -> count AChBegin acts <> 0 ->
    o_q g = QTarget /\ owner g = Some t /\ o_pc g = OP4 /\ canceled (fl (g_s g)) = true /\ deleted (fl (g_s g)) = true /\
    kreg (g_s g) = false /\ registered (g_s g) = false /\ ch_count g = 0.
  Proof.
    intros Hr H Nz. pose proof (Inv2_reach _ _ _ _ _ Hr) as HI2. pose proof (proj1 HI2) as HI.
    assert (D : (exists o, a = GPhase o) \/ forall o, a <> GPhase o).
    { destruct a; try (right; intros o' X; discriminate). left. eexists; reflexivity. }
    destruct D as [[o ->]|Np]; [|destruct (nonphase_acts g t a g' acts HI2 H Np) as (_ & X & _); contradiction].
    destruct HI as [(HA & HB & _ & HD & _) _]. destruct HA as (HA1 & _ & _ & _ & _ & _ & HA7).
    destruct HB as (_ & HB2 & _). destruct HD as (_ & HD2 & _).
    pose proof (gstep_phase g t o g' acts H) as S. cbv zeta in S. destruct S as (Ow & Ea & _).
    pose proof (phase_facts (g_k g) (o_q g) o (mkI (g_s g) (o_pc g) (o_dqf g) (o_retq g) (o_avoid g))) as F.
    cbv zeta in F. cbn [i_src i_pc i_dqf] in F. destruct F as (_ & _ & F3 & _). rewrite <- Ea in F3.
    destruct F3 as [Z0|(_ & Hh & _ & Cc & W)]; [contradiction|].
    destruct W as [(Pc & Q & Dd)|(Pc & _)].
    - pose proof (HD2 Dd) as Dl. destruct HA1 as (S1 & _). destruct (S1 Dl) as (Rg & Kr & _).
      destruct (HB2 Hh) as [C0 _]. repeat split; auto.
    - assert (X : in_cd (o_pc g) = true) by (rewrite Pc; reflexivity). destruct (HA7 X) as [Y _]. congruence.
  Qed.

  (* after CANCELED is set at most one event handler invocation starts, and none at all when the cancel that set the flag
     was issued from the source's handler or from an item on the serial target queue *)
  Theorem at_most_one_late_start g : R g ->
    0 <= late_starts g <= 1 /\ (1 <= late_starts g -> origin g = Some CxThread) /\
    (origin g = Some CxHandler \/ origin g = Some CxTqItem -> late_starts g = 0).
  Proof.
    intros Hr. destruct (Inv_reach _ _ _ _ _ Hr) as [(_ & _ & HC & _) _]. destruct HC as (HC1 & HC2 & _).
    split; [exact HC1|]. split; [intros X; apply HC2; exact X|].
    intros X. destruct (Z.eq_dec (late_starts g) 0) as [|Ne]; [assumption|].
    assert (Y : 1 <= late_starts g) by lia. destruct (HC2 Y) as [_ Z1]. destruct X as [X|X]; congruence.
  Qed.

  (* cancel_and_wait: a sleeping caller implies the waiter bit is set and DELETED is not, so the finalize that sets DELETED
     sees the bit and wakes; a step that sets DELETED leaves nobody asleep; no call returns before DELETED is set *)
  Theorem sleepers_woken g : R g ->
    (forall u, slp g u = true -> cpc g u = CWSleep /\ waiter (fl (g_s g)) = true /\ deleted (fl (g_s g)) = false) /\
    caw_early g = false.
  Proof.
    intros Hr. destruct (Inv_reach _ _ _ _ _ Hr) as [(_ & _ & _ & _ & HE) HT]. split; [|exact HE].
    intros u. apply HT.
  Qed.
  Theorem deletion_wakes_everyone g t a g' acts : R g -> gstep g t a = Some (g', acts) ->
    deleted (fl (g_s g')) = true -> forall u, slp g' u = false.
  Proof.
    intros Hr H D u. pose proof (Inv_reach _ _ _ _ _ Hr) as HI.
    destruct (step_preserves g t a g' acts (Inv2_reach _ _ _ _ _ Hr) H) as [[_ HT] _].
    destruct (slp g' u) eqn:E; [|reflexivity]. destruct (HT u) as (_ & _ & _ & _ & _ & T6).
    destruct (T6 E) as (_ & _ & X). congruence.
  Qed.

  (* structure: DELETED means unregistered *)
  Theorem deleted_means_unregistered g : R g -> Sinv (g_k g) (g_s g).
  Proof. intros Hr. destruct (Inv_reach _ _ _ _ _ Hr) as [((HA1 & _) & _) _]. exact HA1. Qed.

  (* convergence: whatever the history, a cancelled source for which _dispatch_source_wakeup has nothing more to ask is in the
     one final state, or parked on DSF_NEEDS_EVENT *)
  Theorem converges_any_backend g : R g -> canceled (fl (g_s g)) = true ->
    (forall o, wakeup_target (g_k g) o false false (g_s g) = RNone) ->
    final_src (g_s g) \/ (needs_event (fl (g_s g)) = true /\ deleted (fl (g_s g)) = false).
  Proof. intros Hr. apply wakeup_final. apply deleted_means_unregistered. exact Hr. Qed.
End Consequences.

(* ------------------------------------------------------------------ this platform: no deferred deletion *)
Lemma nonphase_needs_event g t a g' acts :
  Inv2 g -> gstep g t a = Some (g', acts) -> (forall o, a <> GPhase o) ->
  needs_event (fl (g_s g')) = true -> needs_event (fl (g_s g)) = true.
Proof.
  intros [HI HH] H Np. pose proof HI as [HG HT].
  assert (Act : forall o, activated g = false ->
            needs_event (fl (fst (activate_src (g_k g) o (g_s g)))) = true -> needs_event (fl (g_s g)) = true).
  { intros o Na X. destruct HG as ((HA1 & HA2 & _) & _).
    assert (Ni : installed (g_s g) = false).
    { destruct (installed (g_s g)) eqn:E; [|reflexivity]. rewrite (HA2 eq_refl) in Na. discriminate. }
    destruct (activate_src_eff (g_k g) o (g_s g) HA1 Ni) as (E1 & _ & _ & _ & _ & _ & _ & _ & E9 & _).
    destruct E9 as [[Y _]|(_ & _ & Y)]; [rewrite <- Y; exact X|].
    destruct E1 as (S1 & _). destruct (S1 Y) as (_ & _ & _ & _ & Z1). congruence. }
  destruct a; unfold gstep in H.
  - destruct (activated g || released (fl (g_s g))) eqn:E; [discriminate|]. apply orb_false_iff in E as [Na _].
    destruct (activate_src (g_k g) o (g_s g)) as [s1 a] eqn:Ea. injection H as <- _. cbn.
    change s1 with (fst (s1, a)). rewrite <- Ea. apply Act. exact Na.
  - destruct (released (fl (g_s g))); [discriminate|].
    match type of H with (if ?c then _ else _) = _ => destruct c end; [discriminate|]. injection H as <- _. cbn. auto.
  - destruct (released (fl (g_s g))); [discriminate|]. injection H as <- _. cbn. auto.
  - destruct (released (fl (g_s g))); [discriminate|]. injection H as <- _. cbn. auto.
  - destruct (kreg (g_s g) && karm (g_s g) && negb (k_direct (g_k g)) && mgr_free g) eqn:E; [|discriminate].
    apply andb_true_iff in E as [E _]. apply andb_true_iff in E as [E _]. apply andb_true_iff in E as [Kr _].
    destruct HG as ((HA1 & _) & _).
    destruct (event_du_facts (g_k g) stay_armed (g_s g) HA1 Kr) as (_ & _ & E1 & _).
    injection H as <- _. cbn. rewrite E1. auto.
  - match type of H with (if ?c then _ else _) = _ => destruct c end; [|discriminate]. injection H as <- _. cbn. auto.
  - destruct HH as (H1 & _). destruct (m_hup g) eqn:M; [|discriminate]. cbv zeta in H.
    assert (D : negb (registered (with_pending (g_s g) true)) && negb (k_timer (g_k g)) = false).
    { destruct (H1 eq_refl) as (_ & [Kt|[R _]]); [rewrite Kt; apply andb_false_r|].
      change (registered (with_pending (g_s g) true)) with (registered (g_s g)). rewrite R. reflexivity. }
    rewrite D in H. injection H as <- _. cbn. auto.
  - destruct (owner g); [discriminate|]. destruct (activated g); [|discriminate]. cbn [andb] in H.
    match type of H with (if ?c then _ else _) = _ => destruct c end; [|discriminate]. injection H as <- _. cbn. auto.
  - exfalso. apply (Np o). reflexivity.
  - destruct (cpc g t); try discriminate.
    match type of H with (if ?c then _ else _) = _ => destruct c end; [discriminate|].
    destruct (m_caw_loop (g_k g) (fl (g_s g))) as [f'|] eqn:L; injection H as <- _; cbn; auto.
    destruct (caw_loop_some _ _ _ L) as (_ & _ & _ & _ & N & _). rewrite N. auto.
  - destruct (cpc g t) as [ | oldf newf | | | d | d | | ] eqn:Ec; try discriminate.
    + destruct (deleted oldf); [injection H as <- _; cbn; auto|].
      destruct (waiter newf); [injection H as <- _; cbn; auto|].
      destruct (activated g) eqn:Na; cbn [negb] in H.
      * destruct lock; [destruct (owner g); [discriminate|]|]; injection H as <- _; cbn; auto.
      * destruct (canceled (fl (g_s g))); [|discriminate].
        destruct (activate_src (g_k g) o (g_s g)) as [s1 a] eqn:Ea. injection H as <- _. cbn.
        change s1 with (fst (s1, a)). rewrite <- Ea. apply Act. reflexivity.
    + injection H as <- _. cbn. auto.
    + destruct (deleted d); [injection H as <- _; cbn; auto|].
      destruct (negb (waiter d)); [|injection H as <- _; cbn; auto].
      destruct (flags_eqb (fl (g_s g)) d) eqn:Fe; injection H as <- _; cbn; auto.
      apply flags_eqb_eq in Fe. subst d. auto.
    + destruct (flags_eqb (fl (g_s g)) d && lock); injection H as <- _; cbn; auto.
    + injection H as <- _. cbn. auto.
  - destruct (cpc g t); try discriminate. injection H as <- _. cbn. auto.
Qed.

Lemma reachL_reach k ev ca rg g : reachL k ev ca rg g -> reach k ev ca rg g.
Proof.
  intros Hr. induction Hr as [s Hi | s a s' Hr IH [Hs _]].
  - apply reach_init. exact Hi.
  - eapply reach_step; eassumption.
Qed.

Theorem no_deferred_deletion k ev ca rg g : reachL k ev ca rg g -> needs_event (fl (g_s g)) = false.
Proof.
  intros Hr. induction Hr as [s Hi | s [t a] s' Hr IH [[acts Hs] Hl]].
  - subst s. reflexivity.
  - cbn in Hs, Hl. pose proof (Inv2_reach _ _ _ _ _ (reachL_reach _ _ _ _ _ Hr)) as HI.
    destruct (needs_event (fl (g_s s'))) eqn:X; [|reflexivity].
    assert (D : (exists o, a = GPhase o) \/ forall o, a <> GPhase o).
    { destruct a; try (right; intros o' Y; discriminate). left. eexists; reflexivity. }
    destruct D as [[o ->]|Np].
    + pose proof (gstep_phase s t o s' acts Hs) as S. cbv zeta in S. destruct S as (_ & _ & Es & _).
      rewrite Es in X. apply phase_needs_event in X. cbn [i_src] in X. cbn in Hl. destruct X; congruence.
    + rewrite (nonphase_needs_event s t a s' acts HI Hs Np X) in IH. discriminate.
Qed.

(* C16_converges on this platform: one final state, whatever the history *)
Theorem converges k ev ca rg g : reachL k ev ca rg g -> canceled (fl (g_s g)) = true ->
  (forall o, wakeup_target (g_k g) o false false (g_s g) = RNone) -> final_src (g_s g).
Proof.
  intros Hr Hc Hw. destruct (converges_any_backend k ev ca rg g (reachL_reach _ _ _ _ _ Hr) Hc Hw) as [F|[N _]]; [exact F|].
  rewrite (no_deferred_deletion _ _ _ _ _ Hr) in N. discriminate.
Qed.
