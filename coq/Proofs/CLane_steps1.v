(* CLane_steps1.v — preservation of the invariant by the reader paths and the asynchronous submissions. *)
From Coq Require Import ZArith Bool List Lia.
From Verif Require Import Word Bits Fields DqFields Conc Gen_consts Gen_dqstate Lane_fields CLane_fields CLane CLane_inv CLane_proofs.
Import ListNotations.
Local Open Scope Z_scope.

Ltac ginv_go Bm0 Gwt Hpc :=
  constructor; unfold U in *; gcbn; fcbn; cbn [length]; try assumption; try lia; try reflexivity;
  try (rewrite Bm0; discriminate);
  try (apply g_wt_setpc; [exact Gwt | rewrite Hpc; discriminate]);
  try (intros _ P; nia).

Lemma step_S_rsv W s t tl s' : Inv W s -> valid_tid t -> pcs s t = S_rsv tl -> gstep W s t = Some s' -> Inv W s'.
Proof.
  intros HI Vt Hpc Hs. unfold gstep in Hs. rewrite Hpc in Hs.
  pose proof HI as (HW & (r & G) & T). pose proof (g_wf _ _ _ G) as Wf.
  rewrite (g_enc _ _ _ G) in Hs. rewrite reserve_sync_fields in Hs by (assumption || lia).
  destruct (nz tl).
  { injection Hs as <-. pc_only_tac HI Hpc. }
  destruct (sync_ok r W) eqn:OK.
  2:{ injection Hs as <-. pc_only_tac HI Hpc. }
  injection Hs as <-.
  unfold sync_ok in OK. rewrite !andb_true_iff in OK. destruct OK as [[[[O1 O2] O3] O4] O5].
  apply Z.eqb_eq in O1, O2. apply negb_true_iff in O3, O4. apply Z.eqb_neq in O3, O4. apply Z.ltb_lt in O5.
  pose proof Wf as Wf'. unfold wfr in Wf'.
  pose proof (T t) as Tt. pose proof (not_waiting_grant W s t Tt) as Gt. rewrite Hpc in Gt. specialize (Gt eq_refl).
  destruct Tt as [T1 T2 T3 T4 T5 T6]. rewrite Hpc, Gt in *. cbn [holds owns toks waitpc] in *.
  assert (NIn : ~ In t (holders s)) by (intros X; apply T1 in X; destruct X; discriminate).
  assert (Bm : bmode s = false) by (pose proof (g_ib _ _ _ G) as X; rewrite O2 in X; destruct (bmode s); [discriminate|reflexivity]).
  assert (P0 : f_pb r = 0) by lia.
  pose proof (g_wq _ _ _ G) as Hwq. rewrite P0 in Hwq.
  assert (Wn : wfr (set_wq r (f_wq r + 1))) by (apply set_wq_wf; [assumption|lia]).
  pose proof (g_dw _ _ _ G) as [D0 _].
  split; [exact HW|]. split.
  - exists (set_wq r (f_wq r + 1)). pose proof (g_wt _ _ _ G) as Gwt. destruct G.
    constructor; unfold U in *; gcbn; fcbn; cbn [length]; try assumption; try lia.
    + rewrite Bm. discriminate.
    + constructor; assumption.
    + apply g_wt_setpc; [exact Gwt | rewrite Hpc; discriminate].
  - intros u. destruct (Z.eq_dec u t) as [->|Ne].
    + constructor; gcbn; rewrite ?upd_same; cbn [holds owns toks waitpc In]; rewrite ?Gt.
      * split; auto.
      * exact T2.
      * exact T3.
      * intros X; contradiction.
      * intros X; discriminate.
      * intros X; discriminate.
    + apply (other_thread W s _ t u Ne T); gcbn; try reflexivity.
      * apply upd_other; exact Ne.
      * apply in_cons_other; exact Ne.
      * intros v Lv Nv. unfold stable_for_owner; gcbn. split; [reflexivity|]. split; [reflexivity|].
        split; [eapply pb_eq; [exact (g_enc _ _ _ G)|exact Wf|gcbn; reflexivity|exact Wn|reflexivity]|].
        split; [right; unfold U in *; gcbn; cbn [length]; lia|].
        split; [left; reflexivity|].
        split; [intros v' Nv'; split; [apply upd_other; exact Nv'|reflexivity]|].
        split; [intros _ X; rewrite Hpc in X; discriminate X|].
        split; [intros X; left; exact X|].
        right. split; [unfold U in *; gcbn; cbn [length]; lia|].
        eapply dirty_eq; [exact (g_enc _ _ _ G)|exact Wf|gcbn; reflexivity|exact Wn|reflexivity].
Qed.


(* a reader gives its width interval back *)
Lemma step_NBC W s t s' : Inv W s -> valid_tid t -> pcs s t = NBC -> gstep W s t = Some s' -> Inv W s'.
Proof.
  intros HI Vt Hpc Hs. unfold gstep in Hs. rewrite Hpc in Hs.
  pose proof HI as (HW & (r & G) & T). pose proof (g_wf _ _ _ G) as Wf. pose proof Wf as Wf'. unfold wfr in Wf'.
  pose proof (T t) as Tt. pose proof (not_waiting_grant W s t Tt) as Gt. rewrite Hpc in Gt. specialize (Gt eq_refl).
  destruct Tt as [T1 T2 T3 T4 T5 T6]. rewrite Hpc, Gt in *. cbn [holds owns toks waitpc] in *.
  assert (Hin : In t (holders s)) by (apply T1; auto).
  assert (NL : lockh s <> Some t) by (intros X; apply T2 in X; destruct X; discriminate).
  assert (NK : tokh s <> Some t) by (intros X; apply T3 in X; discriminate).
  pose proof (g_nodup _ _ _ G) as Nd. destruct (remove_z_nodup t _ Nd) as [Nd' NIn'].
  assert (U1 : 1 <= Z.of_nat (length (holders s))) by (destruct (holders s); [destruct Hin | cbn [length]; lia]).
  assert (UL : Z.of_nat (length (remove_z t (holders s))) = Z.of_nat (length (holders s)) - 1) by (apply remove_z_length; exact Hin).
  pose proof (g_dw _ _ _ G) as [D0 DN]. pose proof (g_wq _ _ _ G) as Hwq. pose proof (g_bound _ _ _ G) as Hbd.
  pose proof (g_ib _ _ _ G) as Hib. pose proof (g_owner _ _ _ G) as Hown. pose proof (g_hi _ _ _ G) as Hhi.
  pose proof (g_enq _ _ _ G) as [Henq Hrq]. pose proof (g_pbU _ _ _ G) as HpU. pose proof (g_wt _ _ _ G) as Gwt.
  assert (Hq1 : 1 <= f_wq r) by (unfold U in Hwq; nia).
  rewrite (g_enc _ _ _ G) in Hs. rewrite nbc_fields in Hs by (assumption || lia).
  assert (W1 : wfr (set_wq r (f_wq r - 1))) by (apply set_wq_wf; [assumption|lia]).
  (* the threads that do not move: the same argument in every case *)
  assert (Others : forall s2 r2 p2,
             st s2 = enc r2 -> wfr r2 -> (lockh s <> None -> f_pb r2 = f_pb r /\ f_d r2 = 1) ->
             lst s2 = lst s -> pcs s2 = upd (pcs s) t p2 -> grant s2 = grant s ->
             holders s2 = remove_z t (holders s) -> rq s2 = rq s ->
             (lockh s2 = lockh s /\ bmode s2 = bmode s /\ dw s2 = dw s \/ lockh s = None /\ lockh s2 = Some t) ->
             (tokh s2 = tokh s \/ tokh s = None /\ tokh s2 = Some t) ->
             forall u, u <> t -> thread_inv W s2 u).
  { intros s2 r2 p2 E2 W2 Pb2 L2 P2 G2 H2 R2 Lk Tk u Ne.
    apply (other_thread W s s2 t u Ne T).
    - rewrite P2. apply upd_other; exact Ne.
    - rewrite G2. reflexivity.
    - rewrite H2. apply remove_z_in_other; exact Ne.
    - destruct Lk as [(-> & _)|(E0 & ->)]; [reflexivity|]. rewrite E0. split; [intros X; congruence|discriminate].
    - destruct Tk as [->|(E0 & ->)]; [reflexivity|]. rewrite E0. split; [intros X; congruence|discriminate].
    - intros v Lv Nv. destruct Lk as [(E3 & E4 & E5)|(E0 & E3)]; [|congruence].
      unfold stable_for_owner. rewrite E4, E5, L2, P2, G2. split; [reflexivity|]. split; [reflexivity|].
      assert (LS : lockh s <> None) by congruence. destruct (Pb2 LS) as [Pb3 Pd3].
      split; [eapply pb_eq; [exact (g_enc _ _ _ G)|exact Wf|exact E2|exact W2|exact Pb3]|].
      split; [left; unfold U; rewrite H2, R2; lia|]. split; [left; reflexivity|].
      split; [intros v' Nv'; split; [apply upd_other; exact Nv'|reflexivity]|].
      split; [intros _ X; rewrite Hpc in X; discriminate X|]. split; [intros X; left; exact X|].
      left. rewrite (dirty_st s2 r2 E2 W2). exact Pd3. }
  (* the moving thread, when it ends up outside *)
  assert (Self : forall s2 p2, holds p2 = false -> owns p2 = false -> waitpc p2 = false ->
             pcs s2 = upd (pcs s) t p2 -> grant s2 = grant s -> holders s2 = remove_z t (holders s) ->
             lockh s2 = lockh s -> (tokh s2 = Some t <-> toks p2 = true) -> thread_inv W s2 t).
  { intros s2 p2 Hh Ho Hw P2 G2 H2 L2 K2. constructor; rewrite ?P2, ?G2, ?H2, ?L2, ?upd_same, ?Gt, ?Hh, ?Ho, ?Hw.
    - split; [intros X; contradiction | intros [X|X]; discriminate].
    - exact T2.
    - exact K2.
    - intros X; contradiction.
    - intros X; discriminate.
    - intros X; discriminate. }
  unfold nbc_rec in Hs. cbv zeta in Hs.
  destruct (Z.eqb_spec (f_owner r) 0) as [Ho|Ho]; cbn [negb] in Hs.
  - (* the lock is free *)
    assert (LN : lockh s = None) by (destruct (lockh s) as [o|] eqn:E; [pose proof (g_ownv _ _ _ G o E) as V; unfold valid_tid in V; lia | reflexivity]).
    destruct (DN LN) as [Dw0 Bm0]. rewrite Bm0 in Hib. rewrite Hhi, Hib in Hs. cbn [Z.eqb andb] in Hs.
    rewrite Dw0 in Hwq.
    destruct (Z.ltb_spec (f_wq r - 1) 4096) as [Hq|Hq].
    + (* the queue becomes runnable: try to take the lock *)
      unfold tl_rec, tl_take in Hs. fcbn_in Hs.
      assert (Take : (if f_pb r =? 1 then f_wq r - 1 + 1 =? 4096 else f_wq r - 1 + W =? 4096) = (U s =? 1)).
      { destruct (Z.eqb_spec (f_pb r) 1) as [P|P].
        - rewrite P in Hwq. destruct (Z.eqb_spec (f_wq r - 1 + 1) 4096); destruct (Z.eqb_spec (U s) 1); try reflexivity; lia.
        - assert (P0 : f_pb r = 0) by lia. rewrite P0 in Hwq.
          destruct (Z.eqb_spec (f_wq r - 1 + W) 4096); destruct (Z.eqb_spec (U s) 1); try reflexivity; lia. }
      rewrite Take in Hs.
      destruct (Z.eqb_spec (U s) 1) as [U1'|U1'].
      * (* last reader: takes the lock as a barrier owner *)
        assert (Wl : wfr (locked_bar (set_wq r (f_wq r - 1)) t)) by (unfold locked_bar; fcbn; unfold valid_tid in Vt; wf_mk).
        unfold changed, IN_BARRIER in Hs. rewrite changed_ib_f in Hs by assumption. fcbn_in Hs. rewrite Hib in Hs.
        cbn [Z.eqb negb] in Hs. injection Hs as <-.
        split; [exact HW|]. split.
        -- exists (locked_bar (set_wq r (f_wq r - 1)) t). destruct G. ginv_go Bm0 Gwt Hpc.
           ++ intros t0 X. injection X as <-. exact Vt.
           ++ intros _. split; [discriminate|]. split; [reflexivity|]. split; [lia|reflexivity].
           ++ split; [lia|]. discriminate.
        -- intros u. destruct (Z.eq_dec u t) as [->|Ne].
           ++ constructor; gcbn; rewrite ?upd_same, ?Gt; cbn [holds owns toks waitpc pcinv ret_waits].
              ** split; [intros X; contradiction | intros [X|X]; discriminate].
              ** split; auto.
              ** split; [intros X; congruence | discriminate].
              ** intros X; contradiction.
              ** intros X; discriminate.
              ** intros _. reflexivity.
           ++ eapply (Others _ _ (BC_tail RIdle)); gcbn; try reflexivity; try eassumption; auto; try (intros X; contradiction).
      * (* not the last one *)
        destruct (Z.eqb_spec (f_d r) 1) as [Hd|Hd].
        -- (* DIRTY: re-enqueue the lane *)
           assert (We : wfr (set_enq1 (set_wq r (f_wq r - 1)))) by (unfold set_enq1; fcbn; wf_mk).
           unfold changed, IN_BARRIER, ENQUEUED in Hs. rewrite changed_ib_f, changed_enq_f in Hs by assumption. fcbn_in Hs.
           rewrite Z.eqb_refl in Hs. cbn [negb] in Hs.
           destruct (Z.eqb_spec (f_enq r) 1) as [He|He]; cbn [negb] in Hs; injection Hs as <-.
           ++ split; [exact HW|]. split.
              ** exists (set_enq1 (set_wq r (f_wq r - 1))). destruct G. ginv_go Bm0 Gwt Hpc.
              ** intros u. destruct (Z.eq_dec u t) as [->|Ne].
                 --- eapply (Self _ Idle); gcbn; try reflexivity. split; [intros X; congruence|discriminate].
                 --- eapply (Others _ _ Idle); gcbn; try reflexivity; try eassumption; auto; try (intros X; contradiction).
           ++ assert (E0 : f_enq r = 0) by lia. rewrite E0 in Henq.
              assert (TN : tokh s = None) by (destruct (tokh s); [lia|reflexivity]). rewrite TN in Henq.
              split; [exact HW|]. split.
              ** exists (set_enq1 (set_wq r (f_wq r - 1))). destruct G. ginv_go Bm0 Gwt Hpc.
              ** intros u. destruct (Z.eq_dec u t) as [->|Ne].
                 --- constructor; gcbn; rewrite ?upd_same, ?Gt; cbn [holds owns toks waitpc pcinv ret_waits].
                     +++ split; [intros X; contradiction | intros [X|X]; discriminate].
                     +++ exact T2.
                     +++ split; auto.
                     +++ intros X; contradiction.
                     +++ intros X; discriminate.
                     +++ intros X; discriminate.
                 --- eapply (Others _ _ (X_rootpush RIdle)); gcbn; try reflexivity; try eassumption; auto; try (intros X; contradiction).
        -- unfold changed, IN_BARRIER, ENQUEUED in Hs. rewrite changed_ib_f, changed_enq_f in Hs by assumption. fcbn_in Hs.
           rewrite !Z.eqb_refl in Hs. cbn [negb] in Hs. injection Hs as <-.
           split; [exact HW|]. split.
           ++ exists (set_wq r (f_wq r - 1)). destruct G. ginv_go Bm0 Gwt Hpc.
           ++ intros u. destruct (Z.eq_dec u t) as [->|Ne].
              ** eapply (Self _ Idle); gcbn; try reflexivity. split; [intros X; congruence|discriminate].
              ** eapply (Others _ _ Idle); gcbn; try reflexivity; try eassumption; auto; try (intros X; contradiction).
    + (* still over-committed *)
      unfold changed, IN_BARRIER, ENQUEUED in Hs. rewrite changed_ib_f, changed_enq_f in Hs by assumption. fcbn_in Hs.
      rewrite !Z.eqb_refl in Hs. cbn [negb] in Hs. injection Hs as <-.
      split; [exact HW|]. split.
      * exists (set_wq r (f_wq r - 1)). destruct G. ginv_go Bm0 Gwt Hpc.
      * intros u. destruct (Z.eq_dec u t) as [->|Ne].
        -- eapply (Self _ Idle); gcbn; try reflexivity. split; [intros X; congruence|discriminate].
        -- eapply (Others _ _ Idle); gcbn; try reflexivity; try eassumption; auto; try (intros X; contradiction).
  - (* somebody holds the drain lock: leave DIRTY behind *)
    assert (Wd : wfr (set_d (set_wq r (f_wq r - 1)) 1)) by (unfold set_d; fcbn; wf_mk).
    unfold changed, IN_BARRIER, ENQUEUED in Hs. rewrite changed_ib_f, changed_enq_f in Hs by assumption. fcbn_in Hs.
    rewrite !Z.eqb_refl in Hs. cbn [negb] in Hs. injection Hs as <-.
    assert (LS : lockh s <> None) by (intros X; rewrite X in Hown; contradiction).
    split; [exact HW|]. split.
    + exists (set_d (set_wq r (f_wq r - 1)) 1). pose proof (g_bm _ _ _ G) as Hbm. destruct G. ginv_go Hpc Gwt Hpc.
      * intros X. destruct (Hbm X) as (_ & _ & X2 & _). lia.
      * intros X. contradiction.
    + intros u. destruct (Z.eq_dec u t) as [->|Ne].
      * eapply (Self _ Idle); gcbn; try reflexivity. split; [intros X; congruence|discriminate].
      * eapply (Others _ _ Idle); gcbn; try reflexivity; try eassumption; auto; try (intros X; contradiction).
Qed.

(* generic tail of a step by a thread that neither owns the lock nor holds width, before and after *)
Lemma self_plain W s s2 t p2 :
  thread_inv W s t -> holds (pcs s t) = false -> owns (pcs s t) = false -> waitpc (pcs s t) = false ->
  holds p2 = false -> owns p2 = false -> waitpc p2 = false ->
  pcs s2 t = p2 -> grant s2 t = grant s t -> (In t (holders s2) <-> In t (holders s)) -> lockh s2 = lockh s ->
  (tokh s2 = Some t <-> toks p2 = true) -> thread_inv W s2 t.
Proof.
  intros Tt H1 O1 W1 H2 O2 W2 P2 G2 Hh L2 K2.
  pose proof (not_waiting_grant W s t Tt W1) as Gt. destruct Tt as [T1 T2 T3 T4 T5 T6].
  rewrite H1, Gt in T1. rewrite O1, Gt in T2.
  constructor; rewrite ?P2, ?G2, ?Hh, ?L2, ?Gt, ?H2, ?O2, ?W2.
  - exact T1.
  - exact T2.
  - exact K2.
  - intros X; contradiction.
  - intros X; discriminate.
  - intros X; discriminate.
Qed.

Lemma step_X_rootpush W s t k s' : Inv W s -> valid_tid t -> pcs s t = X_rootpush k -> gstep W s t = Some s' -> Inv W s'.
Proof.
  intros HI Vt Hpc Hs. unfold gstep in Hs. rewrite Hpc in Hs. injection Hs as <-.
  pose proof HI as (HW & (r & G) & T). pose proof (g_wt _ _ _ G) as Gwt.
  destruct (T t) as [T1 T2 T3 T4 T5 T6]. rewrite Hpc in *. cbn [holds owns toks waitpc] in *.
  assert (Tk : tokh s = Some t) by (apply T3; reflexivity).
  pose proof (g_enq _ _ _ G) as [Henq Hrq]. rewrite Tk in Henq.
  split; [exact HW|]. split.
  - exists r. destruct G. constructor; unfold U in *; gcbn; try assumption; try lia.
    apply g_wt_setpc; [exact Gwt | rewrite Hpc; destruct k; cbn; auto].
  - intros u. destruct (Z.eq_dec u t) as [->|Ne].
    + constructor; gcbn; rewrite ?upd_same.
      * rewrite T1. destruct k; cbn; tauto.
      * rewrite T2. destruct k; cbn; tauto.
      * destruct k; cbn; split; discriminate.
      * intros X. specialize (T4 X). destruct k; cbn in *; auto.
      * intros X. destruct (T5 X) as [_ Bm]. split; [destruct k; reflexivity | exact Bm].
      * destruct k; cbn; discriminate.
    + apply (other_thread W s _ t u Ne T); gcbn; try reflexivity.
      * apply upd_other; exact Ne.
      * rewrite Tk. split; [discriminate | intros X; congruence].
      * intros v Lv Nv. unfold stable_for_owner; gcbn. unfold U, pb; gcbn.
        split; [reflexivity|]. split; [reflexivity|]. split; [reflexivity|]. split; [left; lia|]. split; [left; reflexivity|].
        split; [intros v' Nv'; split; [apply upd_other; exact Nv'|reflexivity]|].
        split; [intros Gn Wp; split; [exact Gn|]; rewrite upd_same; rewrite Hpc in Wp; destruct k; cbn in *; auto|].
        split; [intros X; left; exact X|]. right. split; [lia|reflexivity].
Qed.

Lemma step_A_acq W s t q ovr s' : Inv W s -> valid_tid t -> pcs s t = A_acq q ovr -> gstep W s t = Some s' -> Inv W s'.
Proof.
  intros HI Vt Hpc Hs. unfold gstep in Hs. rewrite Hpc in Hs.
  pose proof HI as (HW & (r & G) & T). pose proof (g_wf _ _ _ G) as Wf.
  rewrite (g_enc _ _ _ G) in Hs. rewrite acquire_async_fields in Hs by assumption.
  destruct (async_ok r) eqn:OK.
  2:{ injection Hs as <-. pc_only_tac HI Hpc. }
  injection Hs as <-.
  unfold async_ok in OK. rewrite !andb_true_iff in OK. destruct OK as [[[[O1 O2] O3] O4] O5].
  apply Z.eqb_eq in O1, O2. apply Z.ltb_lt in O3. apply negb_true_iff in O4, O5. apply Z.eqb_neq in O4, O5.
  pose proof Wf as Wf'. unfold wfr in Wf'.
  assert (Bm0 : bmode s = false) by (pose proof (g_ib _ _ _ G) as X; rewrite O2 in X; destruct (bmode s); [discriminate|reflexivity]).
  assert (P0 : f_pb r = 0) by lia.
  pose proof (g_wq _ _ _ G) as Hwq. rewrite P0 in Hwq. pose proof (g_wt _ _ _ G) as Gwt.
  assert (Wn : wfr (set_wq r (f_wq r + 1))) by (apply set_wq_wf; [assumption|lia]).
  pose proof (g_dw _ _ _ G) as [D0 _].
  split; [exact HW|]. split.
  - exists (set_wq r (f_wq r + 1)). destruct G. ginv_go Bm0 Gwt Hpc.
  - intros u. destruct (Z.eq_dec u t) as [->|Ne].
    + eapply (self_plain W s _ t Idle (T t)); rewrite ?Hpc; gcbn; rewrite ?upd_same; try reflexivity.
      destruct (T t) as [_ _ T3 _ _ _]. rewrite Hpc in T3. cbn [toks] in *. exact T3.
    + apply (other_thread W s _ t u Ne T); gcbn; try reflexivity.
      * apply upd_other; exact Ne.
      * intros v Lv Nv. unfold stable_for_owner; gcbn. split; [reflexivity|]. split; [reflexivity|].
        split; [eapply pb_eq; [exact (g_enc _ _ _ G)|exact Wf|gcbn; reflexivity|exact Wn|reflexivity]|].
        split; [right; unfold U in *; gcbn; cbn [length]; lia|].
        split; [left; reflexivity|].
        split; [intros v' Nv'; split; [apply upd_other; exact Nv'|reflexivity]|].
        split; [intros _ X; rewrite Hpc in X; discriminate X|].
        split; [intros X; left; exact X|].
        right. split; [unfold U in *; gcbn; cbn [length]; lia|].
        eapply dirty_eq; [exact (g_enc _ _ _ G)|exact Wf|gcbn; reflexivity|exact Wn|reflexivity].
Qed.

Lemma head_bar_app s l x : lst s = l -> forall s2, lst s2 = l ++ [x] -> head_bar s -> head_bar s2.
Proof. intros E s2 E2. unfold head_bar. rewrite E, E2. destruct l; cbn; tauto. Qed.

Lemma step_A_xchg W s t b q ovr s' : Inv W s -> valid_tid t -> pcs s t = A_xchg b q ovr -> gstep W s t = Some s' -> Inv W s'.
Proof.
  intros HI Vt Hpc Hs. unfold gstep in Hs. rewrite Hpc in Hs. injection Hs as <-.
  pose proof HI as (HW & (r & G) & T). pose proof (g_wt _ _ _ G) as Gwt.
  set (p2 := if is_nil (lst s) then A_probe q 3 else if ovr then A_probe q 1 else Idle).
  assert (P2 : holds p2 = false /\ owns p2 = false /\ waitpc p2 = false /\ toks p2 = false)
    by (subst p2; destruct (is_nil (lst s)); [|destruct ovr]; repeat split; reflexivity).
  destruct P2 as (P2h & P2o & P2w & P2k).
  split; [exact HW|]. split.
  - exists r. pose proof (g_pbh _ _ _ G) as Gph. pose proof (g_wtnd _ _ _ G) as Gnd. destruct G.
    constructor; unfold U in *; gcbn; try assumption; try lia.
    + intros x Hx Nx. apply in_app_or in Hx as [Hx|[<-|[]]]; [|cbn in Nx; congruence].
      destruct (Gwt x Hx Nx) as (V & Gn & Wp). split; [exact V|]. split; [exact Gn|].
      unfold upd. destruct (Z.eqb_spec (i_wt x) t) as [E|]; [rewrite E, Hpc in Wp; discriminate | exact Wp].
    + rewrite waiters_app. cbn [i_wt Z.eqb]. rewrite app_nil_r. exact Gnd.
    + intros X. eapply head_bar_app; [reflexivity| |apply Gph; exact X]. reflexivity.
  - intros u. destruct (Z.eq_dec u t) as [->|Ne].
    + eapply (self_plain W s _ t p2 (T t)); rewrite ?Hpc; gcbn; rewrite ?upd_same; try reflexivity; try assumption.
      destruct (T t) as [_ _ T3 _ _ _]. rewrite Hpc in T3. cbn [toks] in *. rewrite P2k. exact T3.
    + apply (other_thread W s _ t u Ne T); gcbn; try reflexivity.
      * apply upd_other; exact Ne.
      * intros v Lv Nv. unfold stable_for_owner, U, pb; gcbn. split; [reflexivity|]. split; [reflexivity|].
        split; [reflexivity|]. split; [left; lia|].
        split; [right; eexists; split; [reflexivity|left; reflexivity]|].
        split; [intros v' Nv'; split; [apply upd_other; exact Nv'|reflexivity]|].
        split; [intros _ X; rewrite Hpc in X; discriminate X|].
        split; [intros X; rewrite waiters_app in X; cbn [i_wt Z.eqb] in X; rewrite app_nil_r in X; left; exact X|].
        right. split; [lia|reflexivity].
Qed.

Lemma step_A_wake W s t q fl s' : Inv W s -> valid_tid t -> pcs s t = A_wake q fl -> gstep W s t = Some s' -> Inv W s'.
Proof.
  intros HI Vt Hpc Hs. unfold gstep in Hs. rewrite Hpc in Hs.
  destruct ((0 <=? q) && (q <? 8)) eqn:Q; [|discriminate].
  apply andb_true_iff in Q as [Q1 Q2]. apply Z.leb_le in Q1. apply Z.ltb_lt in Q2.
  pose proof HI as (HW & (r & G) & T). pose proof (g_wf _ _ _ G) as Wf. pose proof Wf as Wf'. unfold wfr in Wf'.
  pose proof (g_wt _ _ _ G) as Gwt. pose proof (g_enq _ _ _ G) as [Henq Hrq].
  pose proof (g_hi _ _ _ G) as Hhi. pose proof (g_em _ _ _ G) as Hem. pose proof (g_role _ _ _ G) as Hro.
  pose proof (g_owner _ _ _ G) as Hown.
  rewrite (g_enc _ _ _ G) in Hs.
  pose proof (merged_wf r q Wf (conj Q1 Q2)) as Wm. pose proof Wm as Wm'. unfold wfr in Wm'.
  assert (Same : f_owner (merged r q) = f_owner r /\ f_tr (merged r q) = f_tr r /\ f_enq (merged r q) = f_enq r /\
                 f_em (merged r q) = f_em r /\ f_hi (merged r q) = f_hi r /\ f_d (merged r q) = f_d r /\
                 f_pb (merged r q) = f_pb r /\ f_wq (merged r q) = f_wq r /\ f_ib (merged r q) = f_ib r /\
                 f_role (merged r q) = f_role r).
  { unfold merged. destruct (f_mq r <? q); cbn; repeat split; reflexivity. }
  destruct Same as (S1 & S2 & S3 & S4 & S5 & S6 & S7 & S8 & S9 & S10).
  assert (CE : can_enqueue r = true -> f_enq r = 0 /\ lockh s = None /\ tokh s = None /\ rootq s = 0).
  { unfold can_enqueue. rewrite !andb_true_iff. intros [[[C1 C2] C3] C4]. apply Z.eqb_eq in C1, C2, C3.
    rewrite Hro in C4. cbn [Z.leb Z.compare orb] in C4. rewrite orb_false_r in C4. apply Z.eqb_eq in C4.
    split; [exact C2|]. rewrite C2 in Henq. rewrite C4 in Hown.
    split; [destruct (lockh s) as [o|] eqn:E; [pose proof (g_ownv _ _ _ G o E) as V; unfold valid_tid in V; lia | reflexivity]|].
    destruct (tokh s); [lia|]. split; [reflexivity|lia]. }
  (* the state after the wakeup, whichever flags it had *)
  assert (Main : forall e' d',
     (e' = f_enq r \/ (e' = 1 /\ f_enq r = 0 /\ lockh s = None /\ tokh s = None /\ rootq s = 0)) ->
     (d' = f_d r \/ d' = 1) ->
     let r' := mk (f_owner r) (f_tr r) e' (f_mq (merged r q)) (f_ov (merged r q)) (f_role r) (f_em r) d' (f_pb r) (f_wq r)
                  (f_ib r) (f_hi r) in
     Inv W (if changed (enc r) (enc r') ENQUEUED
            then set_pc (set_tokh (set_st s (enc r')) (Some t)) t (X_rootpush RIdle)
            else set_pc (set_st s (enc r')) t Idle)).
  { intros e' d' He' Hd' r'.
    assert (Wr' : wfr r') by (subst r'; destruct He' as [->|(-> & _)]; wf_mk).
    unfold changed, ENQUEUED. rewrite changed_enq_f by assumption. subst r'. fcbn.
    destruct He' as [->|(-> & E0 & LN & TN & R0)].
    - rewrite Z.eqb_refl. cbn [negb].
      split; [exact HW|]. split.
      + eexists. destruct G. constructor; try reflexivity; try exact Wr'; unfold U in *; gcbn; fcbn; try assumption; try lia.
        apply g_wt_setpc; [exact Gwt | rewrite Hpc; discriminate].
      + intros u. destruct (Z.eq_dec u t) as [->|Ne].
        * eapply (self_plain W s _ t Idle (T t)); rewrite ?Hpc; gcbn; rewrite ?upd_same; try reflexivity.
          destruct (T t) as [_ _ T3 _ _ _]. rewrite Hpc in T3. cbn [toks] in *. exact T3.
        * apply (other_thread W s _ t u Ne T); gcbn; try reflexivity.
          -- apply upd_other; exact Ne.
          -- intros v Lv Nv. unfold stable_for_owner; gcbn. split; [reflexivity|]. split; [reflexivity|].
             split; [eapply pb_eq; [exact (g_enc _ _ _ G)|exact Wf|gcbn; reflexivity|exact Wr'|reflexivity]|].
             split; [left; unfold U; gcbn; lia|]. split; [left; reflexivity|].
             split; [intros v' Nv'; split; [apply upd_other; exact Nv'|reflexivity]|].
             split; [intros _ X; rewrite Hpc in X; discriminate X|]. split; [intros X; left; exact X|].
             destruct Hd' as [Hd'|Hd'].
             ++ right. split; [unfold U; gcbn; lia|].
                eapply dirty_eq; [exact (g_enc _ _ _ G)|exact Wf|gcbn; reflexivity|exact Wr'|exact Hd'].
             ++ left. match goal with |- dirty ?s2 = 1 => rewrite (dirty_st s2 _ eq_refl Wr') end. exact Hd'.
    - rewrite E0. cbn [Z.eqb negb].
      split; [exact HW|]. split.
      + eexists. destruct G. constructor; try reflexivity; try exact Wr'; unfold U in *; gcbn; fcbn; try assumption; try lia.
        apply g_wt_setpc; [exact Gwt | rewrite Hpc; discriminate].
      + intros u. destruct (Z.eq_dec u t) as [->|Ne].
        * destruct (T t) as [T1 T2 T3 T4 T5 T6]. rewrite Hpc in *. cbn [holds owns toks waitpc] in *.
          pose proof (not_waiting_grant W s t (T t)) as Gt. rewrite Hpc in Gt. specialize (Gt eq_refl). rewrite Gt in *.
          constructor; gcbn; rewrite ?upd_same, ?Gt; cbn [holds owns toks waitpc ret_waits].
          -- exact T1.
          -- exact T2.
          -- split; auto.
          -- intros X; contradiction.
          -- intros X; discriminate.
          -- intros X; discriminate.
        * apply (other_thread W s _ t u Ne T); gcbn; try reflexivity.
          -- apply upd_other; exact Ne.
          -- rewrite TN. split; [intros X; congruence | discriminate].
          -- intros v Lv Nv. congruence. }
  assert (He' : (if can_enqueue r then 1 else f_enq r) = f_enq r \/
                ((if can_enqueue r then 1 else f_enq r) = 1 /\ f_enq r = 0 /\ lockh s = None /\ tokh s = None /\ rootq s = 0)).
  { destruct (can_enqueue r) eqn:C; [right; split; [reflexivity|apply CE; reflexivity] | left; reflexivity]. }
  pose proof (conj Q1 Q2) as Q.
  destruct (nz (Z.land fl 2)) eqn:F.
  - rewrite wakeup_fields in Hs by assumption. cbv zeta in Hs.
    rewrite S1, S2, S3, S4, S5, S7, S8, S9, S10 in Hs.
    specialize (Main _ 1 He' (or_intror eq_refl)). cbv zeta in Main.
    destruct (changed (enc r) _ ENQUEUED); injection Hs as <-; exact Main.
  - rewrite wakeup_nodirty_fields in Hs by assumption. cbv zeta in Hs.
    rewrite S1, S2, S3, S4, S5, S6, S7, S8, S9, S10 in Hs.
    specialize (Main _ (f_d r) He' (or_introl eq_refl)). cbv zeta in Main.
    match type of Hs with context [if ?c then NoCommit _ _ else _] => destruct c end.
    + injection Hs as <-. pc_only_tac HI Hpc.
    + destruct (changed (enc r) _ ENQUEUED); injection Hs as <-; exact Main.
Qed.

(* ---- a call begins on an idle thread ---- *)
Lemma begin_preserves W s t c s' : Inv W s -> valid_tid t -> begin s t c = Some s' -> Inv W s'.
Proof.
  intros HI Vt Hs. unfold begin in Hs. destruct (pcs s t) eqn:Hpc; try discriminate.
  pose proof HI as (HW & (r & G) & T). pose proof (g_wt _ _ _ G) as Gwt.
  pose proof (g_wf _ _ _ G) as Wf. pose proof Wf as Wf'. unfold wfr in Wf'.
  destruct c as [| |b q ovr|floor|i].
  - injection Hs as <-. pc_only_tac HI Hpc.
  - injection Hs as <-. pc_only_tac HI Hpc.
  - destruct ((0 <=? q) && (q <? 8)); [|discriminate]. injection Hs as <-. pc_only_tac HI Hpc.
  - destruct (Z.ltb_spec 0 (rootq s)) as [R|R]; [|discriminate]. injection Hs as <-.
    pose proof (g_enq _ _ _ G) as [Henq Hrq].
    assert (TN : tokh s = None) by (destruct (tokh s); [lia|reflexivity]). rewrite TN in Henq.
    split; [exact HW|]. split.
    + exists r. destruct G. constructor; unfold U in *; gcbn; try assumption; try lia.
      apply g_wt_setpc; [exact Gwt | rewrite Hpc; discriminate].
    + intros u. destruct (Z.eq_dec u t) as [->|Ne].
      * eapply (self_plain W s _ t (W_lock floor) (T t)); rewrite ?Hpc; gcbn; rewrite ?upd_same; try reflexivity.
        split; reflexivity.
      * apply (other_thread W s _ t u Ne T); gcbn; try reflexivity.
        -- apply upd_other; exact Ne.
        -- rewrite TN. split; [intros X; congruence | discriminate].
        -- intros v Lv Nv. unfold stable_for_owner, U, pb; gcbn. split; [reflexivity|]. split; [reflexivity|].
           split; [reflexivity|]. split; [left; lia|]. split; [left; reflexivity|].
           split; [intros v' Nv'; split; [apply upd_other; exact Nv'|reflexivity]|].
           split; [intros _ X; rewrite Hpc in X; discriminate X|]. split; [intros X; left; exact X|].
           right. split; [lia|reflexivity].
  - destruct (mem_z i (rq s)) eqn:M; [|discriminate]. injection Hs as <-. apply mem_z_in in M.
    pose proof (remove_z_length i _ M) as RL.
    pose proof (not_waiting_grant W s t (T t)) as Gt. rewrite Hpc in Gt. specialize (Gt eq_refl).
    destruct (T t) as [T1 T2 T3 T4 T5 T6]. rewrite Hpc, Gt in *. cbn [holds owns toks waitpc] in *.
    assert (NIn : ~ In t (holders s)) by (intros X; apply T1 in X; destruct X; discriminate).
    split; [exact HW|]. split.
    + exists r. pose proof (g_bm _ _ _ G) as Hbm. destruct G. constructor; unfold U in *; gcbn; cbn [length]; try assumption; try lia.
      * intros X. destruct (Hbm X) as (_ & _ & X2 & _). exfalso.
        assert (1 <= Z.of_nat (length (rq s))) by (destruct (rq s); [destruct M | cbn [length]; lia]). lia.
      * constructor; assumption.
      * apply g_wt_setpc; [exact Gwt | rewrite Hpc; discriminate].
    + intros u. destruct (Z.eq_dec u t) as [->|Ne].
      * constructor; gcbn; rewrite ?upd_same, ?Gt; cbn [holds owns toks waitpc In].
        -- split; auto.
        -- exact T2.
        -- exact T3.
        -- intros X; contradiction.
        -- intros X; discriminate.
        -- intros X; discriminate.
      * apply (other_thread W s _ t u Ne T); gcbn; try reflexivity.
        -- apply upd_other; exact Ne.
        -- apply in_cons_other; exact Ne.
        -- intros v Lv Nv. unfold stable_for_owner, U, pb; gcbn; cbn [length]. split; [reflexivity|]. split; [reflexivity|].
           split; [reflexivity|]. split; [left; lia|]. split; [left; reflexivity|].
           split; [intros v' Nv'; split; [apply upd_other; exact Nv'|reflexivity]|].
           split; [intros _ X; rewrite Hpc in X; discriminate X|]. split; [intros X; left; exact X|].
           right. split; [lia|reflexivity].
Qed.
