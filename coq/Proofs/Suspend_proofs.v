(* Suspend_proofs.v — counting theorems for dispatch_suspend / dispatch_resume (any nesting depth, including the
   spill of the 6-bit inline count into the side counter and the refill), and the interface lemmas showing that
   every way of starting work refuses a suspended or inactive state word.  All about generated bodies. *)
From Coq Require Import ZArith Bool List Lia ZifyBool.
From Verif Require Import Word Bits Gen_consts Gen_dqstate Suspend.
Import ListNotations.
Local Open Scope Z_scope.

Definition wf (s : Z) := 0 <= s < 18446744073709551616.
Definition hi (s : Z) := s / 36028797018963968.          (* bits 55..63: sc(6) ssc i na *)
Definition bit57 (s : Z) := (s / 144115188075855872) mod 2.

Section Arith.
Local Ltac Zify.zify_post_hook ::= Z.div_mod_to_equations.

Lemma u64_id' x : 0 <= x < 18446744073709551616 -> u64 x = x.
Proof. unfold u64; intros; lia. Qed.
Lemma u64_neq_neg x : -18446744073709551616 <= x < 0 -> u64 x <> x.
Proof. unfold u64; intros; lia. Qed.
Lemma u64_neq_big x : 18446744073709551616 <= x < 36893488147419103232 -> u64 x <> x.
Proof. unfold u64; intros; lia. Qed.

(* ---- dispatch_suspend ---- *)
Lemma suspend_loop_spec s : wf s ->
  suspend_loop 0 s = if s + 288230376151711744 <? 18446744073709551616
                     then Commit (s + 288230376151711744) 0 else NoCommit 1 [].
Proof.
  unfold wf, suspend_loop. intros H. cbv zeta.
  destruct (Z.ltb_spec (s + 288230376151711744) 18446744073709551616).
  - rewrite u64_id' by lia. rewrite Z.eqb_refl. reflexivity.
  - destruct (Z.eqb_spec (u64 (s + 288230376151711744)) (s + 288230376151711744)) as [E|]; [|reflexivity].
    exfalso. apply (u64_neq_big (s + 288230376151711744)); [lia | exact E].
Qed.

Lemma slow_loop_sub s delta : wf s -> 0 <= delta <= s -> suspend_slow_loop 0 s delta = Commit (s - delta) 0.
Proof.
  unfold wf, suspend_slow_loop. intros H D. cbv zeta. rewrite u64_id' by lia. rewrite Z.eqb_refl. reflexivity.
Qed.
Lemma slow_loop_add s delta : wf s -> 0 <= delta -> s + delta < 18446744073709551616 ->
  resume_slow_loop 0 s delta = Commit (s + delta) 0.
Proof.
  unfold wf, resume_slow_loop. intros H D B. cbv zeta. rewrite u64_id' by lia. rewrite Z.eqb_refl. reflexivity.
Qed.

(* state of the counters: inline count sc (6 bits), side-count bit, side counter (a multiple of 32) *)
Definition SInv (q : sq) : Prop :=
  wf (st q) /\ 0 <= side q /\ side q mod 32 = 0 /\ (bit57 (st q) = 1 <-> 0 < side q).

Theorem suspend_spec q : SInv q -> side q < 4294967296 - 32 ->
  exists q', suspend q = ROk q' /\ total q' = total q + 1 /\ SInv q' /\
             st q' mod 144115188075855872 = st q mod 144115188075855872.
Proof.
  intros (W & S0 & S32 & Sb) Hb. unfold suspend. rewrite (suspend_loop_spec _ W).
  unfold wf, bit57, total, sc, INTERVAL in *.
  destruct (Z.ltb_spec (st q + 288230376151711744) 18446744073709551616) as [Hf|Hf].
  - eexists. split; [reflexivity|]. unfold with_st, SInv, wf, bit57; cbn [st side].
    repeat split; try lia.
  - unfold suspend_slow, HALF, INTERVAL, HAS_SIDE.
    change (u64 (u64 (32 * 288230376151711744) - 288230376151711744)) with 8935141660703064064.
    destruct (Z.eqb_spec (side q) 0) as [E0|N0].
    + change (u64 (8935141660703064064 - 144115188075855872)) with 8791026472627208192.
      rewrite slow_loop_sub by (unfold wf; lia).
      destruct (Z.leb_spec 4294967296 (side q + 32)); [lia|].
      eexists. split; [reflexivity|]. unfold with_side, SInv, wf, bit57; cbn [st side].
      assert (Hb57 : (st q / 144115188075855872) mod 2 = 0).
      { destruct Sb as [Sb1 Sb2]. pose proof (Z.mod_pos_bound (st q / 144115188075855872) 2). lia. }
      repeat split; try lia.
    + rewrite slow_loop_sub by (unfold wf; lia).
      destruct (Z.leb_spec 4294967296 (side q + 32)); [lia|].
      eexists. split; [reflexivity|]. unfold with_side, SInv, wf, bit57; cbn [st side].
      assert (Hb57 : (st q / 144115188075855872) mod 2 = 1) by (apply Sb; lia).
      repeat split; try lia.
Qed.
End Arith.

(* ---- dispatch_resume ---- *)
Lemma land_suspend_bits s : wf s -> Z.land s 18410715276690587648 = hi s * 36028797018963968.
Proof.
  intros W. unfold hi.
  rewrite (land_mask s 18410715276690587648 9 55) by (try lia; reflexivity).
  change (2 ^ 55) with 36028797018963968. change (2 ^ 9) with 512.
  f_equal. apply Z.mod_small. unfold wf in W. split; [apply Z.div_pos; lia|].
  apply Z.div_lt_upper_bound; lia.
Qed.

Lemma hi_small x : 0 <= x < 36028797018963968 -> hi x = 0.
Proof. intros. unfold hi. apply Z.div_small. lia. Qed.

Lemma runnable_spec x : nz (f_dq_state_is_runnable x) = (x <? 9007199254740992).
Proof. unfold f_dq_state_is_runnable, nz, b2z. destruct (x <? 9007199254740992); reflexivity. Qed.

Lemma resume_loop_commit s pbw lb :
  wf s -> 288230376151711744 <= s -> hi s <> 9 -> 0 <= lb < 36028797018963968 ->
  exists new, resume_loop 0 0 s 0 pbw lb = Commit new 0 /\ wf new /\ hi new = hi s - 8.
Proof.
  intros W Hge H9 Hlb. unfold resume_loop. rewrite (land_suspend_bits s W).
  destruct (Z.eqb_spec (hi s * 36028797018963968) 324259173170675712) as [E|_]; [exfalso; lia|].
  change (nz 0) with false. cbn [andb negb]. cbv zeta.
  assert (E1 : u64 (s - 288230376151711744) = s - 288230376151711744) by (apply u64_id'; unfold wf in W; lia).
  rewrite E1, Z.eqb_refl. cbn [negb b2z nz Z.eqb].
  set (n2 := s - 288230376151711744) in *.
  assert (W2 : wf n2) by (unfold wf in *; lia).
  assert (Hhi : hi n2 = hi s - 8).
  { unfold hi, n2. replace (s - 288230376151711744) with (s + (-8) * 36028797018963968) by lia.
    rewrite Z.div_add by lia. lia. }
  assert (DIRTY_hi : hi (Z.lor n2 549755813888) = hi n2 /\ wf (Z.lor n2 549755813888)).
  { split; [apply (lor_low_keeps_high n2 549755813888 55); lia|].
    unfold wf in *. change 18446744073709551616 with (2 ^ 64). apply lor_lt_pow2; lia. }
  rewrite runnable_spec.
  destruct (Z.ltb_spec n2 9007199254740992) as [Hrun|Hnr]; cbn [negb].
  2:{ eexists. split; [reflexivity|]. destruct DIRTY_hi. split; [assumption|congruence]. }
  destruct (nz (f_dq_state_drain_locked n2)).
  { eexists. split; [reflexivity|]. destruct DIRTY_hi. split; [assumption|congruence]. }
  assert (H0 : hi n2 = 0) by (apply hi_small; unfold wf in W2; lia).
  match goal with |- context [if ?c then _ else _] => destruct c end.
  - eexists. split; [reflexivity|].
    assert (B : 0 <= Z.lor (Z.land n2 513248591872) lb < 2 ^ 55).
    { apply lor_lt_pow2; [lia| |change (2^55) with 36028797018963968; lia].
      split; [apply Z.land_nonneg; left; unfold wf in W2; lia|].
      pose proof (land_le n2 513248591872 ltac:(unfold wf in W2; lia)). change (2 ^ 55) with 36028797018963968. lia. }
    change (2 ^ 55) with 36028797018963968 in B.
    split; [unfold wf; lia|]. rewrite hi_small by lia. lia.
  - eexists. split; [reflexivity|].
    assert (B : 0 <= Z.land (Z.land n2 18446744037202329600) 18446744043644780543 <= n2).
    { assert (0 <= Z.land n2 18446744037202329600 <= n2).
      { split; [apply Z.land_nonneg; left; unfold wf in W2; lia | apply land_le; unfold wf in W2; lia]. }
      split; [apply Z.land_nonneg; left; lia|]. pose proof (land_le (Z.land n2 18446744037202329600) 18446744043644780543 ltac:(lia)). lia. }
    split; [unfold wf in *; lia|]. rewrite hi_small by lia. lia.
Qed.

Lemma resume_loop_underflow s pbw lb :
  wf s -> s < 288230376151711744 -> hi s <> 9 ->
  exists xs, resume_loop 0 0 s 0 pbw lb = NoCommit 2 xs.
Proof.
  intros W Hlt H9. unfold resume_loop. rewrite (land_suspend_bits s W).
  destruct (Z.eqb_spec (hi s * 36028797018963968) 324259173170675712) as [E|_]; [exfalso; lia|].
  change (nz 0) with false. cbn [andb negb]. cbv zeta.
  destruct (Z.eqb_spec (u64 (s - 288230376151711744)) (s - 288230376151711744)) as [E|_].
  - exfalso. apply (u64_neq_neg (s - 288230376151711744)); [unfold wf in W; lia | exact E].
  - cbn. eexists. reflexivity.
Qed.

Definition active_bits (s : Z) := hi s mod 4 = 0.     (* i = 0 and na = 0 *)

Section Arith2.
Local Ltac Zify.zify_post_hook ::= Z.div_mod_to_equations.

Lemma hi_sc s : wf s -> hi s = 8 * sc s + (hi s) mod 8.
Proof. unfold hi, sc, INTERVAL, wf. intros. lia. Qed.

Theorem resume_spec q :
  SInv q -> active_bits (st q) -> 0 < total q -> 0 <= self q < 1073741824 ->
  exists q', resume_word q = Some q' /\ total q' = total q - 1 /\ SInv q' /\ active_bits (st q').
Proof.
  intros (W & S0 & S32 & Sb) Ha Ht Hself. unfold resume_word.
  set (pbw := u64 (u32 (width q - 1) * WIDTH_INTERVAL)).
  set (lb := Z.lor (Z.lor (self q) WIDTH_FULL_BIT) IN_BARRIER).
  assert (Hlb : 0 <= lb < 36028797018963968).
  { unfold lb, WIDTH_FULL_BIT, IN_BARRIER. change 36028797018963968 with (2 ^ 55).
    apply lor_lt_pow2; [lia| |lia]. apply lor_lt_pow2; [lia| |lia].
    change (2 ^ 55) with 36028797018963968. lia. }
  assert (H9 : hi (st q) <> 9) by (unfold active_bits in Ha; intros E; rewrite E in Ha; discriminate).
  destruct (Z.le_gt_cases 288230376151711744 (st q)) as [Hge|Hlt].
  - (* the inline count is positive *)
    destruct (resume_loop_commit (st q) pbw lb W Hge H9 Hlb) as (new & E & Wn & Hn). rewrite E.
    eexists. split; [reflexivity|]. unfold with_st; cbn [st side].
    unfold total, SInv, active_bits, bit57, sc, hi, INTERVAL, wf in *. cbn [st side].
    repeat split; try lia.
  - (* inline count exhausted: the side counter must be non-empty *)
    destruct (resume_loop_underflow (st q) pbw lb W Hlt H9) as (xs & E). rewrite E.
    assert (Hside : 0 < side q) by (unfold total, sc, INTERVAL, wf in *; lia).
    assert (Hb57 : bit57 (st q) = 1) by (apply Sb; exact Hside).
    assert (Hnz : nz (Z.land (st q) HAS_SIDE) = true).
    { unfold HAS_SIDE. change 144115188075855872 with (2 ^ 57). rewrite land_bit by lia.
      unfold bit57 in Hb57. change (2 ^ 57) with 144115188075855872. rewrite Hb57. reflexivity. }
    rewrite Hnz. destruct (Z.eqb_spec (side q) 0); [lia|].
    unfold HALF, INTERVAL, HAS_SIDE.
    change (u64 (u64 (32 * 288230376151711744) - 288230376151711744)) with 8935141660703064064.
    destruct (Z.eqb_spec (side q) 32) as [E32|N32].
    + change (u64 (8935141660703064064 - 144115188075855872)) with 8791026472627208192.
      rewrite slow_loop_add by (unfold wf in *; lia).
      eexists. split; [reflexivity|]. unfold with_side; cbn [st side].
      unfold total, SInv, active_bits, bit57, sc, hi, INTERVAL, wf in *. cbn [st side].
      repeat split; try lia.
    + rewrite slow_loop_add by (unfold wf in *; lia).
      eexists. split; [reflexivity|]. unfold with_side; cbn [st side].
      unfold total, SInv, active_bits, bit57, sc, hi, INTERVAL, wf in *. cbn [st side].
      repeat split; try lia.
Qed.

(* suspended <-> some suspension outstanding (for an activated queue) *)
Theorem suspended_iff_total q : SInv q -> active_bits (st q) ->
  (nz (f_dq_state_is_suspended (st q)) = true <-> 0 < total q).
Proof.
  intros (W & S0 & S32 & Sb) Ha. unfold f_dq_state_is_suspended, nz, b2z.
  unfold total, active_bits, bit57, sc, hi, INTERVAL, wf in *.
  destruct (Z.geb_spec (st q) 36028797018963968); cbn; split; intros; try lia; try discriminate.
Qed.
End Arith2.

(* ---- arbitrary nesting: any history of suspends and resumes that never resumes below zero ---- *)
Definition apply_word (q : sq) (is_suspend : bool) : option sq :=
  if is_suspend then suspend_word q else resume_word q.
Fixpoint run_words (q : sq) (ops : list bool) : option sq :=
  match ops with
  | [] => Some q
  | o :: ops' => match apply_word q o with Some q' => run_words q' ops' | None => None end
  end.
(* the history is legal from n outstanding suspensions: no resume at zero *)
Fixpoint legal (n : Z) (ops : list bool) : bool :=
  match ops with
  | [] => true
  | true :: ops' => legal (n + 1) ops'
  | false :: ops' => (0 <? n) && legal (n - 1) ops'
  end.
Fixpoint delta (ops : list bool) : Z :=
  match ops with [] => 0 | true :: o => 1 + delta o | false :: o => delta o - 1 end.

Section Arith3.
Local Ltac Zify.zify_post_hook ::= Z.div_mod_to_equations.
Lemma active_preserved s s' : wf s -> wf s' -> s' mod 144115188075855872 = s mod 144115188075855872 ->
  active_bits s -> active_bits s'.
Proof. unfold active_bits, hi, wf. intros. lia. Qed.
End Arith3.

Theorem nesting_any_depth : forall ops q,
  SInv q -> active_bits (st q) -> 0 <= self q < 1073741824 ->
  side q + 32 * Z.of_nat (length ops) < 4294967296 - 32 ->
  legal (total q) ops = true ->
  exists q', run_words q ops = Some q' /\ total q' = total q + delta ops /\ SInv q' /\ active_bits (st q') /\
             (nz (f_dq_state_is_suspended (st q')) = true <-> 0 < total q + delta ops).
Proof.
  induction ops as [|o ops IH]; intros q HI Ha Hs Hb Hl.
  - exists q. cbn. replace (total q + 0) with (total q) by lia.
    split; [reflexivity|]. split; [reflexivity|]. split; [exact HI|]. split; [exact Ha|].
    apply (suspended_iff_total q HI Ha).
  - cbn [length] in Hb. rewrite Nat2Z.inj_succ in Hb. destruct o; cbn [legal delta run_words apply_word] in *.
    + destruct (suspend_spec q HI ltac:(lia)) as (q1 & E & T & I1 & M).
      unfold suspend_word. rewrite E.
      assert (A1 : active_bits (st q1)).
      { pose proof HI as (W & _). pose proof I1 as (W1 & _). exact (active_preserved (st q) (st q1) W W1 M Ha). }
      assert (S1 : self q1 = self q /\ side q1 <= side q + 32).
      { unfold suspend in E. destruct (suspend_loop 0 (st q)); try discriminate.
        - injection E as <-. cbn. lia.
        - unfold suspend_slow in E. destruct (suspend_slow_loop _ _ _); try discriminate.
          destruct (4294967296 <=? side q + HALF); [discriminate|]. injection E as <-. cbn. unfold HALF. lia. }
      destruct (IH q1 I1 A1) as (q' & R & T' & I' & A' & Sx); try lia.
      { rewrite T. exact Hl. }
      exists q'. rewrite T in T', Sx.
      split; [exact R|]. split; [lia|]. split; [exact I'|]. split; [exact A'|].
      replace (total q + (1 + delta ops)) with (total q + 1 + delta ops) by lia. exact Sx.
    + apply andb_true_iff in Hl as [Hp Hl]. apply Z.ltb_lt in Hp.
      destruct (resume_spec q HI Ha Hp Hs) as (q1 & E & T & I1 & A1). rewrite E.
      assert (S1 : self q1 = self q /\ side q1 <= side q).
      { unfold resume_word in E. destruct (resume_loop _ _ _ _ _ _); try discriminate.
        - injection E as <-. cbn. lia.
        - destruct (nz _); [|discriminate]. destruct (side q =? 0); [discriminate|].
          destruct (resume_slow_loop _ _ _); try discriminate. injection E as <-. cbn. unfold HALF. lia. }
      destruct (IH q1 I1 A1) as (q' & R & T' & I' & A' & Sx); try lia.
      { rewrite T. exact Hl. }
      exists q'. rewrite T in T', Sx.
      split; [exact R|]. split; [lia|]. split; [exact I'|]. split; [exact A'|].
      replace (total q + (delta ops - 1)) with (total q - 1 + delta ops) by lia. exact Sx.
Qed.

(* ---- every way of starting work refuses a suspended or inactive word (s >= 2^55) ---- *)
Definition blocked (s : Z) := wf s /\ 36028797018963968 <= s.

Lemma refuse_barrier_sync_fastpath s tid k w : blocked s -> 1 <= w <= 4095 ->
  f_dispatch_queue_try_acquire_barrier_sync_and_suspend 0 tid k w s = NoCommit 0 [].
Proof.
  intros (W & Hs) Hw. unfold f_dispatch_queue_try_acquire_barrier_sync_and_suspend. cbv zeta.
  assert (B : 0 <= Z.lor (u64 (Z.shiftl (u64 (4096 - w)) 41)) (Z.land s 206158430208) < 2 ^ 53).
  { apply lor_lt_pow2; [lia| |].
    - rewrite (u64_id' (4096 - w)) by lia. rewrite Z.shiftl_mul_pow2 by lia.
      rewrite u64_id' by (change (2^41) with 2199023255552; lia). change (2^41) with 2199023255552. change (2 ^ 53) with 9007199254740992. lia.
    - split; [apply Z.land_nonneg; right; lia|].
      rewrite Z.land_comm. pose proof (land_le 206158430208 s ltac:(lia)). change (2 ^ 53) with 9007199254740992. lia. }
  change (2 ^ 53) with 9007199254740992 in B.
  destruct (Z.eqb_spec s (Z.lor (u64 (Z.shiftl (u64 (4096 - w)) 41)) (Z.land s 206158430208))); [lia|]. reflexivity.
Qed.

Lemma refuse_sync_width s tail w : blocked s -> exists r, f_dispatch_queue_try_reserve_sync_width 0 tail s w = NoCommit r [].
Proof.
  intros (W & Hs). unfold f_dispatch_queue_try_reserve_sync_width.
  destruct (nz tail); cbn [negb]; [eexists; reflexivity|].
  unfold f_dq_state_is_sync_runnable. destruct (Z.ltb_spec s 18014398509481984); [lia|]. cbn. eexists; reflexivity.
Qed.

Lemma refuse_acquire_async s : blocked s -> exists r, f_dispatch_queue_try_acquire_async 0 s = NoCommit r [].
Proof.
  intros (W & Hs). unfold f_dispatch_queue_try_acquire_async, f_dq_state_is_runnable.
  destruct (Z.ltb_spec s 9007199254740992); [lia|]. cbn. eexists; reflexivity.
Qed.

(* wakeup never sets the ENQUEUED bit of a suspended queue: the `|= enqueue` arm is dead *)
Lemma wakeup_does_not_enqueue_suspended s qos flags target enqueue : blocked s ->
  wakeup_loop 0 qos flags target s enqueue =
    if nz (Z.land flags 2) then Commit (Z.lor (f_dq_state_merge_qos s qos) 549755813888) 0
    else if f_dq_state_merge_qos s qos =? s then NoCommit 2 [] else Commit (f_dq_state_merge_qos s qos) 0.
Proof.
  intros (W & Hs). unfold wakeup_loop. cbv zeta.
  assert (E : nz (f_dq_state_is_suspended s) = true).
  { unfold f_dq_state_is_suspended. destruct (Z.geb_spec s 36028797018963968); [reflexivity|lia]. }
  rewrite E. cbn [negb andb]. reflexivity.
Qed.

(* the drain lock cannot be taken on a suspended word: whatever the flags, no owner is installed and the caller
   is told it owns nothing (at most the dequeue bit is flipped) *)
Lemma land_high_nonzero s m : wf s -> 9007199254740992 <= s -> m / 9007199254740992 = 2047 -> 0 <= m ->
  Z.land s m <> 0.
Proof.
  intros W Hs Hm M0 E.
  assert (X : Z.shiftr (Z.land s m) 53 = 0) by (rewrite E; reflexivity).
  rewrite Z.shiftr_land, !Z.shiftr_div_pow2 in X by lia. change (2 ^ 53) with 9007199254740992 in X.
  rewrite Hm in X. change 2047 with (Z.ones 11) in X. rewrite Z.land_ones in X by lia.
  unfold wf in W. rewrite Z.mod_small in X.
  - assert (1 <= s / 9007199254740992) by (apply Z.div_le_lower_bound; lia). lia.
  - split; [apply Z.div_pos; lia|]. apply Z.div_lt_upper_bound; lia.
Qed.

Lemma refuse_drain_lock s flags w self floor ov : blocked s ->
  (exists r, f_dispatch_queue_drain_try_lock 0 flags w self floor s ov = NoCommit r [] /\ r = 0) \/
  (exists m, f_dispatch_queue_drain_try_lock 0 flags w self floor s ov = Commit (Z.lxor s m) 0 /\
             (m = 2147483648 \/ m = 274877906944)).
Proof.
  intros (W & Hs). unfold f_dispatch_queue_drain_try_lock. cbv zeta.
  change (Z.lor 18437736874454810624 1073741823) with 18437736875528552447.
  destruct (nz (Z.land flags 1)) eqn:F1.
  - change (Z.lor 18437736875528552447 274877906944) with 18437737150406459391.
    assert (N : Z.land s 18437737150406459391 <> 0) by (apply land_high_nonzero; try assumption; try lia; reflexivity).
    unfold nz at 1. destruct (Z.eqb_spec (Z.land s 18437737150406459391) 0); [contradiction|]. cbn [negb].
    change (nz 0) with false. cbv iota.
    unfold nz. destruct (Z.eqb_spec (Z.land s 18437737150406459391) 0); [contradiction|]. cbn [negb].
    left. eexists. split; reflexivity.
  - destruct (nz (Z.land flags 262144)) eqn:F2.
    + assert (N : Z.land s 18437736875528552447 <> 0) by (apply land_high_nonzero; try assumption; try lia; reflexivity).
      unfold nz at 1. destruct (Z.eqb_spec (Z.land s 18437736875528552447) 0); [contradiction|]. cbn [negb].
      change (nz 274877906944) with true. cbv iota.
      unfold nz. destruct (Z.eqb_spec (Z.land s 18437736875528552447) 0); [contradiction|]. cbn [negb].
      right. exists 274877906944. split; [reflexivity|auto].
    + change (Z.lor 18437736875528552447 274877906944) with 18437737150406459391.
      assert (N : Z.land s 18437737150406459391 <> 0) by (apply land_high_nonzero; try assumption; try lia; reflexivity).
      unfold nz at 1. destruct (Z.eqb_spec (Z.land s 18437737150406459391) 0); [contradiction|]. cbn [negb].
      change (nz 2147483648) with true. cbv iota.
      unfold nz. destruct (Z.eqb_spec (Z.land s 18437737150406459391) 0); [contradiction|]. cbn [negb].
      right. exists 2147483648. split; [reflexivity|auto].
Qed.
