(* HLane_progress.v — executable runs of the hierarchy model are reachable states (non-vacuity of the theorems of
   HLane_proofs.v), and no reachable state is stuck: a thread inside a call or a drain has an enabled step, or waits for
   an enqueuer's link and that enqueuer is one step from publishing it. *)
From Coq Require Import ZArith Bool List Lia.
From Verif Require Import Word Bits Fields DqFields Conc Gen_consts Gen_dqstate Lane_fields HLane_fields HLane HLane_inv HLane_proofs.
Import ListNotations.
Local Open Scope Z_scope.

(* ---------------------------------------------------------------- executable runs are reachable states *)
Definition act_valid (a : action) : bool :=
  match a with ABegin t _ | AStep t _ => (0 <? t) && (t <? 1073741824) end.
Definition act_tid (a : action) : Z := match a with ABegin t _ | AStep t _ => t end.

Lemma run_reach F acts : forall s s', reach F s -> forallb act_valid acts = true -> run F s acts = Some s' -> reach F s'.
Proof.
  induction acts as [|a acts IH]; cbn [run forallb]; intros s s' R V E.
  - injection E as <-. exact R.
  - apply andb_true_iff in V. destruct V as [Va V].
    assert (Vt : forall t, (0 <? t) && (t <? 1073741824) = true -> valid_tid t).
    { intros t Ht. apply andb_true_iff in Ht. destruct Ht as [A B]. apply Z.ltb_lt in A. apply Z.ltb_lt in B. split; assumption. }
    destruct a as [t c|t o]; cbn [act_valid] in Va.
    + destruct (begin F s t c) as [s1|] eqn:B; [|discriminate].
      apply (IH s1 s'); [|exact V|exact E]. apply (reach_step _ _ s (ABegin t c) s1 R). split; [apply Vt; exact Va | exact B].
    + destruct (gstep F s t o) as [s1|] eqn:B; [|discriminate].
      apply (IH s1 s'); [|exact V|exact E]. apply (reach_step _ _ s (AStep t o) s1 R). split; [apply Vt; exact Va | exact B].
Qed.

Ltac sproj := cbn [st lst rootq stk nextid started token wakers set_st set_lst set_rootq set_stk set_nextid set_started set_token set_wakers].

Lemma gstep_frame F s t o s' u : gstep F s t o = Some s' -> u <> t -> stk s' u = stk s u.
Proof.
  intros B N. unfold gstep in B.
  destruct (stk s t) as [|[l p] r]; [discriminate|].
  destruct p; try discriminate;
    repeat match type of B with
           | context [match ?x with _ => _ end] => destruct x; try discriminate
           end;
    injection B as <-; sproj; try apply upd_other; try exact N; reflexivity.
Qed.

Lemma begin_frame F s t c s' u : begin F s t c = Some s' -> u <> t -> stk s' u = stk s u.
Proof.
  intros B N. unfold begin in B. destruct c.
  - destruct ((0 <=? qos) && (qos <? 8) && in_callout (stk s t)); [|discriminate]. injection B as <-. sproj. apply upd_other. exact N.
  - destruct (stk s t); [|discriminate]. destruct (target F b); [discriminate|]. destruct (0 <? rootq s b); [|discriminate].
    injection B as <-. sproj. apply upd_other. exact N.
Qed.

Lemma run_frame F acts u : forall s s', run F s acts = Some s' -> forallb (fun a => negb (act_tid a =? u)) acts = true -> stk s' u = stk s u.
Proof.
  induction acts as [|a acts IH]; cbn [run forallb]; intros s s' E V.
  - injection E as <-. reflexivity.
  - apply andb_true_iff in V. destruct V as [Va V]. apply negb_true_iff in Va. apply Z.eqb_neq in Va.
    destruct a as [t c|t o]; cbn [act_tid] in Va.
    + destruct (begin F s t c) as [s1|] eqn:B; [|discriminate]. rewrite (IH s1 s' E V). apply (begin_frame F s t c s1 u B). congruence.
    + destruct (gstep F s t o) as [s1|] eqn:B; [|discriminate]. rewrite (IH s1 s' E V). apply (gstep_frame F s t o s1 u B). congruence.
Qed.

(* ---------------------------------------------------------------- a concrete hierarchy and a concrete run *)
(* lanes 1 and 2 target the serial bottom 0 (role BASE_ANON, fallback qos DEFAULT = 4 as the library sets it for a
   queue without a QoS attribute on the default root queue); every other number is a lane of its own *)
Definition F2 : forest :=
  {| target := fun l => if (l =? 1) || (l =? 2) then Some 0 else None;
     depth := fun l => if (l =? 1) || (l =? 2) then 1%nat else 0%nat;
     rolebits := fun l => if (l =? 1) || (l =? 2) then 0 else 1;
     prio := fun _ => 0; fallback := fun l => if l =? 0 then 4 else 0 |}.

Lemma F2_ok : forest_ok F2.
Proof.
  unfold forest_ok, F2; cbn [target depth rolebits prio fallback]. split; [|split].
  - intros l p. destruct ((l =? 1) || (l =? 2)) eqn:E; [|discriminate]. intros H. injection H as <-. cbn. split; [lia | reflexivity].
  - intros l. destruct ((l =? 1) || (l =? 2)); [discriminate | lia].
  - intros l. destruct (l =? 0); lia.
Qed.

Definition S t := AStep t false.
Definition So t := AStep t true.

(* three submitters (5, 6, 7) and two workers (8, 9) *)
Definition demo_acts : list action :=
  [ABegin 5 (CAsync 1 0); S 5; S 5; S 5; S 5;       (* item 0 of lane 1: xchg, link, probe, wakeup sets ENQUEUED of lane 1 *)
   S 5;                                             (* tpush: a push of Lane 1 on its target, lane 0 *)
   S 5; S 5; S 5; S 5; S 5;                         (* xchg on lane 0, link, probe, wakeup sets ENQUEUED of lane 0, tpush: root queue *)
   ABegin 8 (CWorker 0 0); S 8; S 8;                (* worker 8 pops bottom 0: the lock wants the override floor first (Restart), then locks *)
   S 8; S 8; S 8; S 8;                              (* tail, head, pop (Lane 1), run: nested invoke of lane 1 *)
   S 8; S 8; S 8; S 8; S 8;                         (* lock 1, tail, head, pop, run item 0 of lane 1: inside the callout *)
   ABegin 6 (CAsync 2 0); S 6; S 6; S 6; S 6; S 6;  (* item 0 of lane 2, lane 2 enqueued, tpush *)
   S 6; S 6; S 6; S 6;                              (* Lane 2 pushed on lane 0 (list empty: MAKE_DIRTY wakeup; lane 0 is locked by 8: DIRTY only) *)
   ABegin 7 (CAsync 1 0); S 7; S 7; S 7; S 7;       (* item 1 of lane 1 while 8 runs item 0: DIRTY only *)
   S 8; S 8;                                        (* the callout ends; next: list non-empty -> head *)
   S 8; S 8; S 8; S 8;                              (* pop, run item 1, inside the callout, next *)
   S 8; S 8; S 8;                                   (* unlock of lane 1 refused (DIRTY), xor, and - an inner lane - invoke_finish *)
   S 8; S 8;                                        (* invoke_finish: lock released, ENQUEUED kept, DIRTY; tpush: push of Lane 1 on lane 0 *)
   S 8; So 8; S 8; S 8;                             (* xchg behind Lane 2, link (need_override: yes), probe, wakeup without MAKE_DIRTY: gives up *)
   S 8; S 8; S 8; S 8;                              (* back in lane 0's drain loop: next, head, pop (Lane 2, more), run: nested invoke of lane 2 *)
   S 8; S 8; S 8; S 8; S 8; S 8; S 8; S 8;          (* lock 2, tail, head, pop, run item 0 of lane 2, inside the callout, next, unlock *)
   S 8; S 8; S 8;                                   (* next (more), pop Lane 1, run: nested invoke of lane 1 again *)
   S 8; S 8; S 8;                                   (* lock 1, tail (empty), unlock *)
   S 8; S 8; S 8; S 8; S 8;                         (* next, unlock of lane 0 refused (6's DIRTY), xor, tail (a bottom loops), unlock: 8 is idle *)
   ABegin 7 (CAsync 2 0); S 7; S 7; S 7; S 7; S 7;  (* item 1 of lane 2, lane 2 enqueued, tpush *)
   S 7; S 7; S 7; S 7; S 7;                         (* Lane 2 on lane 0, lane 0 in the root queue *)
   ABegin 9 (CWorker 0 0); S 9; S 9; S 9; S 9; S 9; S 9;   (* worker 9: lock (Restart), lock, tail, head, pop, run: invoke of lane 2 *)
   S 9; S 9; S 9; S 9; S 9; S 9; S 9; S 9;          (* lock 2, tail, head, pop, run item 1, the callout returns, next, unlock: back in lane 0 *)
   S 9; S 9].                                       (* next, unlock of lane 0 (its lock had cleared 7's DIRTY): 9 is idle *)

(* a notation, not a definition: the kernel must never be asked to convert the name with the (expensive) run *)
Notation demo_final := (run F2 (init_state F2) demo_acts).

(* the state holds functions (per lane, per thread): facts about the final state are computed pointwise *)
Definition at_final {A} (f : gst -> A) (d : A) : A := match demo_final with Some s => f s | None => d end.

Lemma demo_final_some : exists s, demo_final = Some s.
Proof.
  assert (H : at_final (fun _ => true) false = true) by (vm_compute; reflexivity).
  unfold at_final in H. destruct demo_final as [s|]; [exists s; reflexivity | discriminate].
Qed.

Lemma at_final_eq {A} (f : gst -> A) (d v : A) s : demo_final = Some s -> at_final f d = v -> f s = v.
Proof. unfold at_final. intros ->. auto. Qed.

Lemma demo_reach :
  exists s, demo_final = Some s /\ reach F2 s /\ quiescent s /\ rootq s 0 = 0 /\
            started s 1 = [1; 0] /\ nextid s 1 = 2 /\ started s 2 = [1; 0] /\ nextid s 2 = 2 /\
            lst s 0 = [] /\ lst s 1 = [] /\ lst s 2 = [] /\ token s 0 = None.
Proof.
  destruct demo_final_some as [s E]. exists s. split; [exact E|].
  assert (K : forall t, In t [5; 6; 7; 8; 9] -> stk s t = []).
  { intros t [<-|[<-|[<-|[<-|[<-|[]]]]]]; apply (at_final_eq (fun s => stk s _) [(0, PW_lock 0)] [] s E); vm_compute; reflexivity. }
  pose proof (at_final_eq (fun s => (rootq s 0, started s 1, nextid s 1, started s 2, nextid s 2)) (1, [], 0, [], 0)
                (0, [1; 0], 2, [1; 0], 2) s E) as P1.
  pose proof (at_final_eq (fun s => (lst s 0, lst s 1, lst s 2, token s 0)) ([], [], [], Some None) ([], [], [], None) s E) as P2.
  cbv beta in P1, P2.
  pose proof E as E'.
  split.
  - apply (run_reach F2 demo_acts (init_state F2) s); [apply reach_init; reflexivity | vm_compute; reflexivity | exact E'].
  - split.
    + intros t.
      destruct (Z.eq_dec t 5) as [->|N5]; [apply K; cbn; tauto|].
      destruct (Z.eq_dec t 6) as [->|N6]; [apply K; cbn; tauto|].
      destruct (Z.eq_dec t 7) as [->|N7]; [apply K; cbn; tauto|].
      destruct (Z.eq_dec t 8) as [->|N8]; [apply K; cbn; tauto|].
      destruct (Z.eq_dec t 9) as [->|N9]; [apply K; cbn; tauto|].
      rewrite (run_frame F2 demo_acts t (init_state F2) s E'); [reflexivity|].
      unfold demo_acts, S, So. cbn [forallb act_tid].
      apply Z.eqb_neq in N5, N6, N7, N8, N9.
      rewrite (Z.eqb_sym 5 t), (Z.eqb_sym 6 t), (Z.eqb_sym 7 t), (Z.eqb_sym 8 t), (Z.eqb_sym 9 t), N5, N6, N7, N8, N9. reflexivity.
    + assert (Q1 : (rootq s 0, started s 1, nextid s 1, started s 2, nextid s 2) = (0, [1; 0], 2, [1; 0], 2)) by (apply P1; vm_compute; reflexivity).
      assert (Q2 : (lst s 0, lst s 1, lst s 2, token s 0) = ([], [], [], None)) by (apply P2; vm_compute; reflexivity).
      injection Q1 as -> -> -> -> ->. injection Q2 as -> -> -> ->. repeat split.
Qed.
