(* HLane_progress.v — executable runs of the hierarchy model are reachable states (non-vacuity of the theorems of
   HLane_proofs.v), and no reachable state is stuck: a thread inside a call or a drain has an enabled step, or waits for
   an enqueuer's link and that enqueuer is one step from publishing it. *)
From Coq Require Import ZArith Bool List Lia.
From Verif Require Import Word Bits Fields DqFields Conc Gen_consts Gen_dqstate Lane_fields HLane_fields HLane HLane_inv HLane_proofs.
Import ListNotations.
Local Open Scope Z_scope.

(* ---------------------------------------------------------------- executable runs are reachable states *)
Definition act_valid (a : action) : bool :=
  match a with ABegin t _ | AStep t _ => (0 <? t) && (t <? 1073741824) end.
Definition act_tid (a : action) : Z := match a with ABegin t _ | AStep t _ => t end.

Lemma run_reach F acts : forall s s', reach F s -> forallb act_valid acts = true -> run F s acts = Some s' -> reach F s'.
Proof.
  induction acts as [|a acts IH]; cbn [run forallb]; intros s s' R V E.
  - injection E as <-. exact R.
  - apply andb_true_iff in V. destruct V as [Va V].
    assert (Vt : forall t, (0 <? t) && (t <? 1073741824) = true -> valid_tid t).
    { intros t Ht. apply andb_true_iff in Ht. destruct Ht as [A B]. apply Z.ltb_lt in A. apply Z.ltb_lt in B. split; assumption. }
    destruct a as [t c|t o]; cbn [act_valid] in Va.
    + destruct (begin F s t c) as [s1|] eqn:B; [|discriminate].
      apply (IH s1 s'); [|exact V|exact E]. apply (reach_step _ _ s (ABegin t c) s1 R). split; [apply Vt; exact Va | exact B].
    + destruct (gstep F s t o) as [s1|] eqn:B; [|discriminate].
      apply (IH s1 s'); [|exact V|exact E]. apply (reach_step _ _ s (AStep t o) s1 R). split; [apply Vt; exact Va | exact B].
Qed.

Ltac sproj := cbn [st lst rootq stk nextid started token wakers set_st set_lst set_rootq set_stk set_nextid set_started set_token set_wakers].

Lemma gstep_frame F s t o s' u : gstep F s t o = Some s' -> u <> t -> stk s' u = stk s u.
Proof.
  intros B N. unfold gstep in B.
  destruct (stk s t) as [|[l p] r]; [discriminate|].
  destruct p; try discriminate;
    repeat match type of B with
           | context [match ?x with _ => _ end] => destruct x; try discriminate
           end;
    injection B as <-; sproj; try apply upd_other; try exact N; reflexivity.
Qed.

Lemma begin_frame F s t c s' u : begin F s t c = Some s' -> u <> t -> stk s' u = stk s u.
Proof.
  intros B N. unfold begin in B. destruct c.
  - destruct ((0 <=? qos) && (qos <? 8) && in_callout (stk s t)); [|discriminate]. injection B as <-. sproj. apply upd_other. exact N.
  - destruct (stk s t); [|discriminate]. destruct (target F b); [discriminate|]. destruct (0 <? rootq s b); [|discriminate].
    injection B as <-. sproj. apply upd_other. exact N.
Qed.

Lemma run_frame F acts u : forall s s', run F s acts = Some s' -> forallb (fun a => negb (act_tid a =? u)) acts = true -> stk s' u = stk s u.
Proof.
  induction acts as [|a acts IH]; cbn [run forallb]; intros s s' E V.
  - injection E as <-. reflexivity.
  - apply andb_true_iff in V. destruct V as [Va V]. apply negb_true_iff in Va. apply Z.eqb_neq in Va.
    destruct a as [t c|t o]; cbn [act_tid] in Va.
    + destruct (begin F s t c) as [s1|] eqn:B; [|discriminate]. rewrite (IH s1 s' E V). apply (begin_frame F s t c s1 u B). congruence.
    + destruct (gstep F s t o) as [s1|] eqn:B; [|discriminate]. rewrite (IH s1 s' E V). apply (gstep_frame F s t o s1 u B). congruence.
Qed.

(* ---------------------------------------------------------------- a concrete hierarchy and a concrete run *)
(* lanes 1 and 2 target the serial bottom 0 (role BASE_ANON, fallback qos DEFAULT = 4 as the library sets it for a
   queue without a QoS attribute on the default root queue); every other number is a lane of its own *)
Definition F2 : forest :=
  {| target := fun l => if (l =? 1) || (l =? 2) then Some 0 else None;
     depth := fun l => if (l =? 1) || (l =? 2) then 1%nat else 0%nat;
     rolebits := fun l => if (l =? 1) || (l =? 2) then 0 else 1;
     prio := fun _ => 0; fallback := fun l => if l =? 0 then 4 else 0 |}.

Lemma F2_ok : forest_ok F2.
Proof.
  unfold forest_ok, F2; cbn [target depth rolebits prio fallback]. split; [|split].
  - intros l p. destruct ((l =? 1) || (l =? 2)) eqn:E; [|discriminate]. intros H. injection H as <-. cbn. split; [lia | reflexivity].
  - intros l. destruct ((l =? 1) || (l =? 2)); [discriminate | lia].
  - intros l. destruct (l =? 0); lia.
Qed.

Definition S t := AStep t false.
Definition So t := AStep t true.

(* three submitters (5, 6, 7) and two workers (8, 9) *)
Definition demo_acts : list action :=
  [ABegin 5 (CAsync 1 0); S 5; S 5; S 5; S 5;       (* item 0 of lane 1: xchg, link, probe, wakeup sets ENQUEUED of lane 1 *)
   S 5;                                             (* tpush: a push of Lane 1 on its target, lane 0 *)
   S 5; S 5; S 5; S 5; S 5;                         (* xchg on lane 0, link, probe, wakeup sets ENQUEUED of lane 0, tpush: root queue *)
   ABegin 8 (CWorker 0 0); S 8; S 8;                (* worker 8 pops bottom 0: the lock wants the override floor first (Restart), then locks *)
   S 8; S 8; S 8; S 8;                              (* tail, head, pop (Lane 1), run: nested invoke of lane 1 *)
   S 8; S 8; S 8; S 8; S 8;                         (* lock 1, tail, head, pop, run item 0 of lane 1: inside the callout *)
   ABegin 6 (CAsync 2 0); S 6; S 6; S 6; S 6; S 6;  (* item 0 of lane 2, lane 2 enqueued, tpush *)
   S 6; S 6; S 6; S 6;                              (* Lane 2 pushed on lane 0 (list empty: MAKE_DIRTY wakeup; lane 0 is locked by 8: DIRTY only) *)
   ABegin 7 (CAsync 1 0); S 7; S 7; S 7; S 7;       (* item 1 of lane 1 while 8 runs item 0: DIRTY only *)
   S 8; S 8;                                        (* the callout ends; next: list non-empty -> head *)
   S 8; S 8; S 8; S 8;                              (* pop, run item 1, inside the callout, next *)
   S 8; S 8; S 8;                                   (* unlock of lane 1 refused (DIRTY), xor, and - an inner lane - invoke_finish *)
   S 8; S 8;                                        (* invoke_finish: lock released, ENQUEUED kept, DIRTY; tpush: push of Lane 1 on lane 0 *)
   S 8; So 8; S 8; S 8;                             (* xchg behind Lane 2, link (need_override: yes), probe, wakeup without MAKE_DIRTY: gives up *)
   S 8; S 8; S 8; S 8;                              (* back in lane 0's drain loop: next, head, pop (Lane 2, more), run: nested invoke of lane 2 *)
   S 8; S 8; S 8; S 8; S 8; S 8; S 8; S 8;          (* lock 2, tail, head, pop, run item 0 of lane 2, inside the callout, next, unlock *)
   S 8; S 8; S 8;                                   (* next (more), pop Lane 1, run: nested invoke of lane 1 again *)
   S 8; S 8; S 8;                                   (* lock 1, tail (empty), unlock *)
   S 8; S 8; S 8; S 8; S 8;                         (* next, unlock of lane 0 refused (6's DIRTY), xor, tail (a bottom loops), unlock: 8 is idle *)
   ABegin 7 (CAsync 2 0); S 7; S 7; S 7; S 7; S 7;  (* item 1 of lane 2, lane 2 enqueued, tpush *)
   S 7; S 7; S 7; S 7; S 7;                         (* Lane 2 on lane 0, lane 0 in the root queue *)
   ABegin 9 (CWorker 0 0); S 9; S 9; S 9; S 9; S 9; S 9;   (* worker 9: lock (Restart), lock, tail, head, pop, run: invoke of lane 2 *)
   S 9; S 9; S 9; S 9; S 9; S 9; S 9; S 9;          (* lock 2, tail, head, pop, run item 1, the callout returns, next, unlock: back in lane 0 *)
   S 9; S 9].                                       (* next, unlock of lane 0 (its lock had cleared 7's DIRTY): 9 is idle *)

(* a notation, not a definition: the kernel must never be asked to convert the name with the (expensive) run *)
Notation demo_final := (run F2 (init_state F2) demo_acts).

(* the state holds functions (per lane, per thread): facts about the final state are computed pointwise *)
Definition at_final {A} (f : gst -> A) (d : A) : A := match demo_final with Some s => f s | None => d end.

Lemma demo_final_some : exists s, demo_final = Some s.
Proof.
  assert (H : at_final (fun _ => true) false = true) by (vm_compute; reflexivity).
  unfold at_final in H. destruct demo_final as [s|]; [exists s; reflexivity | discriminate].
Qed.

Lemma at_final_eq {A} (f : gst -> A) (d v : A) s : demo_final = Some s -> at_final f d = v -> f s = v.
Proof. unfold at_final. intros ->. auto. Qed.

Lemma demo_reach :
  exists s, demo_final = Some s /\ reach F2 s /\ quiescent s /\ rootq s 0 = 0 /\
            started s 1 = [1; 0] /\ nextid s 1 = 2 /\ started s 2 = [1; 0] /\ nextid s 2 = 2 /\
            lst s 0 = [] /\ lst s 1 = [] /\ lst s 2 = [] /\ token s 0 = None.
Proof.
  destruct demo_final_some as [s E]. exists s. split; [exact E|].
  assert (K : forall t, In t [5; 6; 7; 8; 9] -> stk s t = []).
  { intros t [<-|[<-|[<-|[<-|[<-|[]]]]]]; apply (at_final_eq (fun s => stk s _) [(0, PW_lock 0)] [] s E); vm_compute; reflexivity. }
  pose proof (at_final_eq (fun s => (rootq s 0, started s 1, nextid s 1, started s 2, nextid s 2)) (1, [], 0, [], 0)
                (0, [1; 0], 2, [1; 0], 2) s E) as P1.
  pose proof (at_final_eq (fun s => (lst s 0, lst s 1, lst s 2, token s 0)) ([], [], [], Some None) ([], [], [], None) s E) as P2.
  cbv beta in P1, P2.
  pose proof E as E'.
  split.
  - apply (run_reach F2 demo_acts (init_state F2) s); [apply reach_init; reflexivity | vm_compute; reflexivity | exact E'].
  - split.
    + intros t.
      destruct (Z.eq_dec t 5) as [->|N5]; [apply K; cbn; tauto|].
      destruct (Z.eq_dec t 6) as [->|N6]; [apply K; cbn; tauto|].
      destruct (Z.eq_dec t 7) as [->|N7]; [apply K; cbn; tauto|].
      destruct (Z.eq_dec t 8) as [->|N8]; [apply K; cbn; tauto|].
      destruct (Z.eq_dec t 9) as [->|N9]; [apply K; cbn; tauto|].
      rewrite (run_frame F2 demo_acts t (init_state F2) s E'); [reflexivity|].
      unfold demo_acts, S, So. cbn [forallb act_tid].
      apply Z.eqb_neq in N5, N6, N7, N8, N9.
      rewrite (Z.eqb_sym 5 t), (Z.eqb_sym 6 t), (Z.eqb_sym 7 t), (Z.eqb_sym 8 t), (Z.eqb_sym 9 t), N5, N6, N7, N8, N9. reflexivity.
    + assert (Q1 : (rootq s 0, started s 1, nextid s 1, started s 2, nextid s 2) = (0, [1; 0], 2, [1; 0], 2)) by (apply P1; vm_compute; reflexivity).
      assert (Q2 : (lst s 0, lst s 1, lst s 2, token s 0) = ([], [], [], None)) by (apply P2; vm_compute; reflexivity).
      injection Q1 as -> -> -> -> ->. injection Q2 as -> -> -> ->. repeat split.
Qed.

(* ---------------------------------------------------------------- no reachable state is stuck *)
Definition needs_item (p : pc) : bool :=
  match p with
  | PW_head _ | PW_pop _ | PW_run _ _ true | PW_incall _ _ true | PW_invoking _ _ true | PW_next _ true => true
  | _ => false
  end.

Section Progress.
  Variable F : forest.
  Hypothesis FOK : forest_ok F.

  Definition frame_fed (s : gst) (f : frame) : Prop := needs_item (snd f) = true -> lst s (fst f) <> [].
  (* a drainer that counts on a next entry has one *)
  Definition L1 (s : gst) : Prop := forall t, Forall (frame_fed s) (stk s t).
  (* an entry whose link is not yet published has its enqueuer one step from publishing it *)
  Definition L2 (s : gst) : Prop :=
    forall l e, In e (lst s l) -> e_linked e = false -> exists t w q r, stk s t = (l, PA_link (e_ent e) w q) :: r.
  Definition Inv2 (s : gst) : Prop := Inv F s /\ L1 s /\ L2 s.

  Lemma Inv2_init : Inv2 (init_state F).
  Proof.
    split; [apply Inv_init; exact FOK|]. split.
    - intros t. unfold init_state; cbn [stk]. constructor.
    - intros l e. unfold init_state; cbn [lst]. contradiction.
  Qed.

  Lemma fed_ret s r : Forall (frame_fed s) r -> Forall (frame_fed s) (ret r).
  Proof.
    destruct r as [|[x q] r']; [auto|]. intros H. destruct q; try exact H.
    inversion H as [|f k Hf Hk]; subst. constructor; [|exact Hk]. unfold frame_fed in *. cbn [fst snd needs_item] in *. exact Hf.
  Qed.

  Lemma fed_mono s s' k : (forall x, lst s x <> [] -> lst s' x <> []) -> Forall (frame_fed s) k -> Forall (frame_fed s') k.
  Proof. intros M H. induction H as [|f k Hf Hk IH]; constructor; [|exact IH]. unfold frame_fed in *. intros N. apply M. apply Hf. exact N. Qed.

  Lemma L1_mono s s' t :
    L1 s -> (forall x, lst s x <> [] -> lst s' x <> []) -> (forall u, u <> t -> stk s' u = stk s u) ->
    Forall (frame_fed s') (stk s' t) -> L1 s'.
  Proof.
    intros H M O Ht u. destruct (Z.eq_dec u t) as [->|N]; [exact Ht|]. rewrite (O u N). apply (fed_mono s s' _ M). apply H.
  Qed.

  Lemma L2_same s s' t :
    L2 s -> (forall x, lst s' x = lst s x) -> (forall u, u <> t -> stk s' u = stk s u) ->
    (forall l e w q r, stk s t <> (l, PA_link e w q) :: r) -> L2 s'.
  Proof.
    intros H Ls O Nt l e Hin Hl. rewrite Ls in Hin. destruct (H l e Hin Hl) as (u & w & q & r & E).
    exists u, w, q, r. rewrite O; [exact E|]. intros ->. exact (Nt _ _ _ _ _ E).
  Qed.

  (* the entries of a list are pairwise different: item ids by the order equation, lane objects by the token *)
  Lemma count_le_one s l x : Inv F s -> (count_lane x (lst s l) <= 1)%nat.
  Proof.
    intros [L _]. destruct (L x) as [r G]. pose proof (g_where F s x r G l) as H. rewrite H.
    destruct (token s x) as [[w|]|]; try lia. destruct (target F x) as [p|]; try lia. destruct (p =? l); lia.
  Qed.

  Lemma items_nodup s l : Inv F s -> NoDup (items (lst s l)).
  Proof.
    intros [L _]. destruct (L l) as [r G]. pose proof (g_order F s l r G) as H.
    pose proof (zrange_nodup (nextid s l)) as ND. rewrite <- H in ND.
    apply nodup_app_r in ND. apply nodup_app_r in ND. exact ND.
  Qed.

  Lemma ents_nodup_gen k : NoDup (items k) -> (forall x, (count_lane x k <= 1)%nat) -> NoDup (map e_ent k).
  Proof.
    induction k as [|e k IH]; cbn [map]; intros ND C; [constructor|].
    assert (NDk : NoDup (items k)).
    { unfold items in *. cbn [flat_map] in ND. apply nodup_app_r in ND. exact ND. }
    assert (Ck : forall x, (count_lane x k <= 1)%nat) by (intros x; specialize (C x); cbn [count_lane] in C; lia).
    constructor; [|apply IH; assumption].
    intros Hin. apply in_map_iff in Hin. destruct Hin as (e' & Ee & He').
    destruct (e_ent e) as [i|y] eqn:E.
    - unfold items in ND. cbn [flat_map] in ND. rewrite E in ND. cbn [app] in ND. inversion ND as [|a b Ha Hb]; subst.
      apply Ha. apply in_flat_map. exists e'. split; [exact He'|]. rewrite Ee. left. reflexivity.
    - specialize (C y). cbn [count_lane] in C. rewrite E, Z.eqb_refl in C.
      pose proof (in_count_pos y k e' He' Ee). lia.
  Qed.

  Lemma ents_nodup s l : Inv F s -> NoDup (map e_ent (lst s l)).
  Proof. intros I. apply ents_nodup_gen; [apply items_nodup; exact I | intros x; apply count_le_one; exact I]. Qed.

  Lemma ent_eqb_eq a b : ent_eqb a b = true <-> a = b.
  Proof.
    destruct a as [i|x], b as [j|y]; cbn [ent_eqb]; split; intros H; try discriminate; try (apply Z.eqb_eq in H; congruence); try (injection H as ->; apply Z.eqb_refl).
  Qed.

  (* after the link of e is published, every entry still unlinked was unlinked before and is not e *)
  Lemma in_link_ent k e x : NoDup (map e_ent k) -> In x (link_ent k e) -> e_linked x = false -> In x k /\ e_ent x <> e.
  Proof.
    induction k as [|y k IH]; cbn [link_ent map]; intros ND Hin Hl; [contradiction|].
    inversion ND as [|a b Ha Hb]; subst.
    destruct (ent_eqb (e_ent y) e && negb (e_linked y)) eqn:C.
    - apply andb_true_iff in C. destruct C as [C _]. apply ent_eqb_eq in C.
      destruct Hin as [<-|Hin]; [cbn in Hl; discriminate|]. split; [right; exact Hin|].
      intros E'. apply Ha. rewrite C, <- E'. apply in_map. exact Hin.
    - destruct Hin as [->|Hin].
      + split; [left; reflexivity|]. intros E'. rewrite Hl in C. cbn [negb] in C. rewrite andb_true_r in C.
        assert (ent_eqb (e_ent x) e = true) by (apply ent_eqb_eq; exact E'). congruence.
      + destruct (IH Hb Hin Hl) as [H1 H2]. split; [right; exact H1 | exact H2].
  Qed.

  Lemma top_holder_unique s t u l p r q :
    Inv F s -> stk s t = (l, p) :: r -> is_drain p = true -> In (l, q) (stk s u) -> is_drain q = true -> u = t.
  Proof.
    intros [L T] E D Hin Dq.
    pose proof (drain_frame_token F s u l q (T u) Hin Dq) as K1.
    pose proof (holder_of_top F s t l p r (T t) E D) as K2. congruence.
  Qed.

  Lemma drain_in_holds k l p : In (l, p) k -> is_drain p = true -> In l (holds k).
  Proof.
    intros H D. unfold holds. apply in_flat_map. exists (l, p). split; [exact H|].
    unfold frame_tokens. destruct p; cbn in D |- *; try discriminate; try (left; reflexivity). destruct e; left; reflexivity.
  Qed.

  Lemma needs_item_drain p : needs_item p = true -> is_drain p = true.
  Proof. destruct p; cbn; congruence. Qed.

  Theorem step2_preserves s a s' : Inv2 s -> step F s a s' -> Inv2 s'.
  Proof.
    intros (I & H1 & H2) St. pose proof (step_preserves F FOK s a s' I St) as I'. split; [exact I'|].
    destruct a as [t c|t o]; destruct St as [V B].
    - (* begin *)
      destruct c as [l q|b fl]; cbn [begin] in B.
      + destruct ((0 <=? q) && (q <? 8) && in_callout (stk s t)) eqn:C; [|discriminate]. injection B as <-.
        apply andb_true_iff in C. destruct C as [_ C]. split.
        * apply (L1_mono s _ t H1); sproj; auto; [intros u N; apply upd_other; exact N|].
          rewrite upd_same. constructor; [intros N; discriminate | apply H1].
        * apply (L2_same s _ t H2); sproj; auto; [intros u N; apply upd_other; exact N|].
          intros l0 e w q0 r E. rewrite E in C. discriminate.
      + destruct (stk s t) eqn:E; [|discriminate]. destruct (target F b); [discriminate|]. destruct (0 <? rootq s b); [|discriminate].
        injection B as <-. split.
        * apply (L1_mono s _ t H1); sproj; auto; [intros u N; apply upd_other; exact N|].
          rewrite upd_same. constructor; [intros N; discriminate | constructor].
        * apply (L2_same s _ t H2); sproj; auto; [intros u N; apply upd_other; exact N|].
          intros l0 e w q0 r E'. congruence.
    - pose proof (fun u => gstep_frame F s t o s' u B) as Fr.
      unfold gstep in B. destruct (stk s t) as [|[l p] r] eqn:E; [discriminate|].
      assert (Hr : Forall (frame_fed s) r) by (specialize (H1 t); rewrite E in H1; inversion H1; assumption).
      assert (Htop : frame_fed s (l, p)) by (specialize (H1 t); rewrite E in H1; inversion H1; assumption).
      assert (Oth : forall u, u <> t -> stk s' u = stk s u) by (intros u N; apply Fr; exact N).
      destruct p.
      + (* PA_xchg *)
        assert (M : forall x, lst s x <> [] ->
                    upd (lst s) l (lst s l ++ [{| e_ent := match w with WItem => Item (nextid s l) | WLane l' => Lane l' end; e_linked := false |}]) x <> []).
        { intros x. destruct (Z.eq_dec x l) as [->|N]; [rewrite upd_same; intros _; destruct (lst s l); discriminate | rewrite upd_other by exact N; auto]. }
        destruct w as [|l']; injection B as <-; (split;
          [ apply (L1_mono s _ t H1); sproj;
            [ exact M
            | intros u N; apply upd_other; exact N
            | rewrite upd_same; constructor; [intros N; discriminate|]; apply (fed_mono s _ r); [|exact Hr]; exact M ]
          | intros x e; sproj; destruct (Z.eq_dec x l) as [->|N]; [rewrite upd_same | rewrite upd_other by exact N]; intros Hin Hl;
            [ apply in_app_or in Hin; destruct Hin as [Hin|[<-|[]]];
              [ destruct (H2 l e Hin Hl) as (u & w0 & q0 & r0 & Eu); exists u, w0, q0, r0; rewrite upd_other; [exact Eu|]; intros ->; congruence
              | exists t; eexists; eexists; eexists; rewrite upd_same; reflexivity ]
            | destruct (H2 x e Hin Hl) as (u & w0 & q0 & r0 & Eu); exists u, w0, q0, r0; rewrite upd_other; [exact Eu|]; intros ->; congruence ] ]).
      + (* PA_link *) split.
        * assert (M : forall x, lst s x <> [] -> lst (set_lst s l (link_ent (lst s l) e)) x <> []).
          { intros x. sproj. destruct (Z.eq_dec x l) as [->|N]; [rewrite upd_same, link_nil_iff; auto | rewrite upd_other by exact N; auto]. }
          destruct was_empty; [|destruct o]; injection B as <-; apply (L1_mono s _ t H1); sproj; auto;
            try (intros u N; apply upd_other; exact N); rewrite upd_same;
            try (constructor; [intros N; discriminate|]); try apply fed_ret; apply (fed_mono s _ r M Hr).
        * intros x y Hin Hl.
          assert (Hin' : In y (upd (lst s) l (link_ent (lst s l) e) x)) by (destruct was_empty; [|destruct o]; injection B as <-; exact Hin).
          destruct (Z.eq_dec x l) as [->|N]; [rewrite upd_same in Hin' | rewrite upd_other in Hin' by exact N].
          -- destruct (in_link_ent _ _ _ (ents_nodup s l I) Hin' Hl) as [Hy Ne].
             destruct (H2 l y Hy Hl) as (u & w0 & q0 & r0 & Eu). exists u, w0, q0, r0. rewrite Oth; [exact Eu|]. intros ->.
             rewrite E in Eu. injection Eu as Ee _ _ _. congruence.
          -- destruct (H2 x y Hin' Hl) as (u & w0 & q0 & r0 & Eu). exists u, w0, q0, r0. rewrite Oth; [exact Eu|]. intros ->.
             rewrite E in Eu. injection Eu as Ex _ _ _ _. congruence.
      + (* PA_probe *) injection B as <-. split.
        * destruct (lst s l) eqn:Ll; apply (L1_mono s _ t H1); sproj; auto; try (intros u N; apply upd_other; exact N); rewrite upd_same.
          -- apply fed_ret. exact Hr.
          -- constructor; [intros N; discriminate | exact Hr].
        * apply (L2_same s _ t H2); [destruct (lst s l); reflexivity | exact Oth | rewrite E; intros; discriminate].
      + (* PA_wake *)
        destruct (w_wake qos dirty (st s l)) eqn:Ww; try discriminate.
        * injection B as <-. split.
          -- destruct (enq_flipped (st s l) new); apply (L1_mono s _ t H1); sproj; auto; try (intros u N; apply upd_other; exact N); rewrite upd_same.
             ++ constructor; [intros N; discriminate | exact Hr].
             ++ apply fed_ret. exact Hr.
          -- apply (L2_same s _ t H2); [destruct (enq_flipped (st s l) new); reflexivity | exact Oth | rewrite E; intros; discriminate].
        * destruct dirty; [discriminate|]. injection B as <-. split.
          -- apply (L1_mono s _ t H1); sproj; auto; try (intros u N; apply upd_other; exact N). rewrite upd_same. apply fed_ret. exact Hr.
          -- apply (L2_same s _ t H2); [reflexivity | exact Oth | rewrite E; intros; discriminate].
      + (* PA_tpush *) injection B as <-. split.
        * destruct (target F l); apply (L1_mono s _ t H1); sproj; auto; try (intros u N; apply upd_other; exact N); rewrite upd_same.
          -- constructor; [intros N; discriminate | exact Hr].
          -- apply fed_ret. exact Hr.
        * apply (L2_same s _ t H2); [destruct (target F l); reflexivity | exact Oth | rewrite E; intros; discriminate].
      + (* PW_lock *)
        destruct (w_lock t floor (st s l)) as [nw ow|rv ops|ops|tg] eqn:Wl; try discriminate.
        * injection B as <-. split.
          -- destruct (ow =? 0); apply (L1_mono s _ t H1); sproj; auto; try (intros u N; apply upd_other; exact N); rewrite upd_same.
             ++ apply fed_ret. exact Hr.
             ++ constructor; [intros N; discriminate | exact Hr].
          -- apply (L2_same s _ t H2); [destruct (ow =? 0); reflexivity | exact Oth | rewrite E; intros; discriminate].
        * injection B as <-. split.
          -- apply (L1_mono s _ t H1); sproj; auto; try (intros u N; apply upd_other; exact N). rewrite upd_same. constructor; [intros N; discriminate | exact Hr].
          -- apply (L2_same s _ t H2); [reflexivity | exact Oth | rewrite E; intros; discriminate].
      + (* PW_tail *) injection B as <-. split.
        * apply (L1_mono s _ t H1); sproj; auto; try (intros u N; apply upd_other; exact N). rewrite upd_same.
          constructor; [|exact Hr]. unfold frame_fed; cbn [fst snd]; sproj. destruct (lst s l); [intros N; discriminate | intros _; discriminate].
        * apply (L2_same s _ t H2); [reflexivity | exact Oth | rewrite E; intros; discriminate].
      + (* PW_head *) destruct (lst s l) as [|e0 l0] eqn:Ll; [discriminate|]. destruct (e_linked e0); [|discriminate]. injection B as <-. split.
        * apply (L1_mono s _ t H1); sproj; auto; try (intros u N; apply upd_other; exact N). rewrite upd_same.
          constructor; [|exact Hr]. unfold frame_fed; cbn [fst snd]; sproj. rewrite Ll. intros _. discriminate.
        * apply (L2_same s _ t H2); [reflexivity | exact Oth | rewrite E; intros; discriminate].
      + (* PW_pop: only the drainer of l shortens l's list *)
        assert (Pop : forall e0 rest more, lst s l = e0 :: rest -> (more = match rest with [] => false | _ => true end) ->
                      L1 (after_pop s t l e0 rest more r) /\ L2 (after_pop s t l e0 rest more r)).
        { intros e0 rest more Ll Em. unfold after_pop. split.
          - intros u. destruct (Z.eq_dec u t) as [->|N].
            + assert (St : stk (set_stk (match e_ent e0 with Lane l' => set_token (set_lst s l rest) l' (Some (Some t)) | Item _ => set_lst s l rest end) t
                                   ((l, PW_run OWN (e_ent e0) more) :: r)) t = (l, PW_run OWN (e_ent e0) more) :: r) by (sproj; apply upd_same).
              rewrite St. constructor.
              * unfold frame_fed; cbn [fst snd needs_item]. subst more. destruct rest; [intros N; discriminate|].
                intros _. destruct (e_ent e0); sproj; rewrite upd_same; discriminate.
              * (* the frames below are on other lanes *)
                destruct I as [L T]. destruct (tinv_top F s t l _ r (T t) E) as (T1 & _).
                cbn [frame_tokens is_drain app] in T1. inversion T1 as [|a b Ha Hb]; subst.
                apply Forall_forall. intros [x q] Hin. rewrite Forall_forall in Hr. specialize (Hr _ Hin).
                unfold frame_fed in *; cbn [fst snd] in *. intros N. specialize (Hr N).
                assert (x <> l).
                { intros ->. apply Ha. apply (drain_in_holds r l q Hin). apply needs_item_drain. exact N. }
                destruct (e_ent e0); sproj; rewrite upd_other by assumption; exact Hr.
            + assert (St : stk (set_stk (match e_ent e0 with Lane l' => set_token (set_lst s l rest) l' (Some (Some t)) | Item _ => set_lst s l rest end) t
                                   ((l, PW_run OWN (e_ent e0) more) :: r)) u = stk s u) by (destruct (e_ent e0); sproj; apply upd_other; exact N).
              rewrite St. specialize (H1 u). clear St.
              assert (Hu : forall f, In f (stk s u) -> needs_item (snd f) = true -> fst f <> l).
              { intros [x q] Hin Nq Ex. cbn [fst snd] in *. subst x. apply N. apply (top_holder_unique s t u l _ r q I E eq_refl Hin). apply needs_item_drain. exact Nq. }
              induction H1 as [|f k Hf Hk IH]; constructor.
              * unfold frame_fed in *. intros Nq. specialize (Hf Nq). specialize (Hu f (or_introl eq_refl) Nq).
                destruct (e_ent e0); sproj; rewrite upd_other by assumption; exact Hf.
              * apply IH. intros f0 Hin. apply Hu. right. exact Hin.
          - intros x y.
            assert (Ls : lst (set_stk (match e_ent e0 with Lane l' => set_token (set_lst s l rest) l' (Some (Some t)) | Item _ => set_lst s l rest end) t
                                   ((l, PW_run OWN (e_ent e0) more) :: r)) x = upd (lst s) l rest x) by (destruct (e_ent e0); reflexivity).
            rewrite Ls. intros Hin Hl.
            assert (Hin' : In y (lst s x)).
            { destruct (Z.eq_dec x l) as [->|N]; [rewrite upd_same in Hin; rewrite Ll; right; exact Hin | rewrite upd_other in Hin by exact N; exact Hin]. }
            destruct (H2 x y Hin' Hl) as (u & w0 & q0 & r0 & Eu). exists u, w0, q0, r0.
            assert (u <> t) by (intros ->; congruence).
            destruct (e_ent e0); sproj; rewrite upd_other by assumption; exact Eu. }
        assert (owned = OWN).
        { destruct I as [_ T]. apply (owned_top F s t l _ r owned (T t) E). reflexivity. }
        subst owned.
        destruct (lst s l) as [|e0 [|e2 l0]] eqn:Ll; [discriminate| |].
        * injection B as <-. apply (Pop e0 [] false eq_refl eq_refl).
        * destruct (e_linked e2); [|discriminate]. injection B as <-. apply (Pop e0 (e2 :: l0) true eq_refl eq_refl).
      + (* PW_run *) injection B as <-. split.
        * destruct e; apply (L1_mono s _ t H1); sproj; auto; try (intros u N; apply upd_other; exact N); rewrite upd_same.
          -- constructor; [exact Htop | exact Hr].
          -- constructor; [intros N; discriminate|]. constructor; [exact Htop | exact Hr].
        * apply (L2_same s _ t H2); [destruct e; reflexivity | exact Oth | rewrite E; intros; discriminate].
      + (* PW_incall *) injection B as <-. split.
        * apply (L1_mono s _ t H1); sproj; auto; try (intros u N; apply upd_other; exact N). rewrite upd_same. constructor; [exact Htop | exact Hr].
        * apply (L2_same s _ t H2); [reflexivity | exact Oth | rewrite E; intros; discriminate].
      + discriminate.
      + (* PW_next *) destruct more; injection B as <-; split.
        * apply (L1_mono s _ t H1); sproj; auto; try (intros u N; apply upd_other; exact N). rewrite upd_same. constructor; [|exact Hr].
          intros _. apply Htop. reflexivity.
        * apply (L2_same s _ t H2); [reflexivity | exact Oth | rewrite E; intros; discriminate].
        * apply (L1_mono s _ t H1); sproj; auto; try (intros u N; apply upd_other; exact N). rewrite upd_same. constructor; [|exact Hr].
          unfold frame_fed; cbn [fst snd]; sproj. destruct (lst s l); [intros N; discriminate | intros _; discriminate].
        * apply (L2_same s _ t H2); [reflexivity | exact Oth | rewrite E; intros; discriminate].
      + (* PW_unlock *) destruct (w_unlock owned (st s l)); try discriminate; injection B as <-; split.
        * apply (L1_mono s _ t H1); sproj; auto; try (intros u N; apply upd_other; exact N). rewrite upd_same. apply fed_ret. exact Hr.
        * apply (L2_same s _ t H2); [reflexivity | exact Oth | rewrite E; intros; discriminate].
        * apply (L1_mono s _ t H1); sproj; auto; try (intros u N; apply upd_other; exact N). rewrite upd_same. constructor; [intros N; discriminate | exact Hr].
        * apply (L2_same s _ t H2); [reflexivity | exact Oth | rewrite E; intros; discriminate].
      + (* PW_xor *) injection B as <-. split.
        * apply (L1_mono s _ t H1); sproj; auto; try (intros u N; apply upd_other; exact N). rewrite upd_same.
          constructor; [destruct (target F l); intros N; discriminate | exact Hr].
        * apply (L2_same s _ t H2); [reflexivity | exact Oth | rewrite E; intros; discriminate].
      + (* PW_finish *) destruct (w_finish owned (st s l)); try discriminate. injection B as <-. split.
        * destruct (enq_flipped (u64 (st s l - owned)) new); apply (L1_mono s _ t H1); sproj; auto; try (intros u N; apply upd_other; exact N); rewrite upd_same.
          -- constructor; [intros N; discriminate | exact Hr].
          -- apply fed_ret. exact Hr.
        * apply (L2_same s _ t H2); [destruct (enq_flipped (u64 (st s l - owned)) new); reflexivity | exact Oth | rewrite E; intros; discriminate].
  Qed.

  Theorem Inv2_reachable s : reach F s -> Inv2 s.
  Proof.
    apply invariant_lift.
    - intros s0 ->. apply Inv2_init.
    - intros s1 a s2 I H. exact (step2_preserves s1 a s2 I H).
  Qed.

  (* ---------------------------------------------------------------- enabledness *)
  Definition enabled (s : gst) (t : Z) : Prop := exists o s', gstep F s t o = Some s'.

  Lemma link_enabled s t l e w q r : stk s t = (l, PA_link e w q) :: r -> enabled s t.
  Proof. intros H. exists false. unfold gstep. rewrite H. eexists. reflexivity. Qed.

  (* t is a drainer at _dispatch_queue_get_head / _dispatch_queue_pop_head of lane l waiting for the link of an entry that
     u has exchanged into l's tail and is about to publish (u's top frame is that push, at PA_link) *)
  Definition waits_for_link (s : gst) (t u : Z) : Prop :=
    exists l o e w q r r' x,
      (stk s t = (l, PW_head o) :: r \/ stk s t = (l, PW_pop o) :: r) /\
      stk s u = (l, PA_link e w q) :: r' /\ In x (lst s l) /\ e_ent x = e /\ e_linked x = false.

  (* every thread inside a call or a drain either can step, or waits for the link of a NAMED enqueuer u, and u can step
     (its next step publishes that link) *)
  Theorem no_stuck_thread_named s t :
    reach F s -> valid_tid t -> stk s t <> [] -> enabled s t \/ exists u, u <> t /\ waits_for_link s t u /\ enabled s u.
  Proof.
    intros R Vt NI. destruct (Inv2_reachable s R) as (I & H1 & H2). pose proof I as [L T].
    destruct (stk s t) as [|[l p] r] eqn:E; [contradiction|].
    destruct (L l) as [rl G]. pose proof (g_enc F s l rl G) as Genc. pose proof (g_wf F s l rl G) as Gwf.
    assert (Fed : frame_fed s (l, p)) by (specialize (H1 t); rewrite E in H1; inversion H1; assumption).
    assert (En : forall s1, gstep F s t false = Some s1 -> enabled s t) by (intros s1 H; exists false, s1; exact H).
    destruct p; unfold enabled at 1; unfold gstep; rewrite E.
    - left. exists false. eexists. reflexivity.
    - left. exists false. eexists. reflexivity.
    - left. exists false. eexists. reflexivity.
    - (* PA_wake *) left. exists false.
      destruct (tinv_top F s t l _ r (T t) E) as (_ & _ & _ & _ & (_ & Bq & _) & _). pose proof (Bq qos eq_refl) as Q.
      unfold w_wake, ENQUEUED. rewrite Genc. destruct dirty.
      + rewrite (wakeup_fields rl qos 3 1 Gwf Q eq_refl). cbv zeta. eexists. reflexivity.
      + rewrite (wakeup_fields_nodirty rl qos 1 1 Gwf Q eq_refl). cbv zeta.
        destruct (can_enqueue rl); [eexists; reflexivity|]. destruct (f_mq rl <? qos); eexists; reflexivity.
    - left. exists false. eexists. reflexivity.
    - (* PW_lock *) left. exists false.
      destruct (lock_never_fails F FOK s t l floor r R E) as [H|[nw H]]; rewrite H; eexists; reflexivity.
    - left. exists false. eexists. reflexivity.
    - (* PW_head: the head entry is linked, or its enqueuer is about to link it *)
      assert (Ll : lst s l <> []) by (apply Fed; reflexivity).
      destruct (lst s l) as [|e0 l0] eqn:El; [contradiction|].
      destruct (e_linked e0) eqn:Elk; [left; exists false; eexists; reflexivity|].
      right. destruct (H2 l e0) as (u & w & q & r0 & Eu); [rewrite El; left; reflexivity | exact Elk |].
      exists u. split; [intros ->; congruence|]. split; [|apply (link_enabled s u _ _ _ _ _ Eu)].
      exists l, owned, (e_ent e0), w, q, r, r0, e0. split; [left; exact E|]. split; [exact Eu|]. split; [rewrite El; left; reflexivity | auto].
    - (* PW_pop *)
      assert (Ll : lst s l <> []) by (apply Fed; reflexivity).
      destruct (lst s l) as [|e0 [|e2 l0]] eqn:El; [contradiction | left; exists false; eexists; reflexivity |].
      destruct (e_linked e2) eqn:Elk; [left; exists false; eexists; reflexivity|].
      right. destruct (H2 l e2) as (u & w & q & r0 & Eu); [rewrite El; right; left; reflexivity | exact Elk |].
      exists u. split; [intros ->; congruence|]. split; [|apply (link_enabled s u _ _ _ _ _ Eu)].
      exists l, owned, (e_ent e2), w, q, r, r0, e2. split; [right; exact E|]. split; [exact Eu|]. split; [rewrite El; right; left; reflexivity | auto].
    - left. exists false. eexists. reflexivity.
    - left. exists false. eexists. reflexivity.
    - (* PW_invoking is never the top frame *)
      exfalso. destruct (T t) as (_ & _ & _ & T4 & _). rewrite E in T4. cbn [shape is_drain] in T4. destruct T4 as [_ NI']. exact (NI' _ _ _ eq_refl).
    - left. exists false. destruct more; eexists; reflexivity.
    - (* PW_unlock *) left. exists false.
      assert (owned = OWN) by (apply (owned_top F s t l _ r owned (T t) E); reflexivity). subst owned.
      destruct (top_drain_facts F s t l _ r rl I E eq_refl G) as (K & _ & Fr & Enq). cbn [locked_pc] in Fr. destruct Fr as (O & Ib & Wq).
      unfold w_unlock. rewrite Genc. change OWN with (18014398509481984 + 2199023255552 + 2147483648 * 1).
      rewrite (unlock_fields rl 1 Gwf (g_hi F s l rl G) Ib Wq) by lia.
      destruct (f_d rl =? 1); eexists; reflexivity.
    - left. exists false. eexists. reflexivity.
    - (* PW_finish *) left. exists false.
      assert (owned = OWN) by (apply (owned_top F s t l _ r owned (T t) E); reflexivity). subst owned.
      destruct (top_drain_facts F s t l _ r rl I E eq_refl G) as (K & _ & Fr & Enq). cbn [locked_pc] in Fr. destruct Fr as (O & Ib & Wq).
      unfold w_finish, ENQUEUED. rewrite Genc. change OWN with (18014398509481984 + 2199023255552 + 2147483648 * 1).
      rewrite (finish_fields rl Gwf (g_hi F s l rl G) Ib Wq Enq (g_em F s l rl G)). eexists. reflexivity.
  Qed.

  Corollary no_stuck_thread s t :
    reach F s -> valid_tid t -> stk s t <> [] -> enabled s t \/ exists u, u <> t /\ enabled s u.
  Proof. intros R V N. destruct (no_stuck_thread_named s t R V N) as [H|(u & Nu & _ & H)]; [left; exact H | right; eauto]. Qed.

  (* hence: a reachable state in which some thread is inside a call is never deadlocked *)
  Corollary no_deadlock s t : reach F s -> valid_tid t -> stk s t <> [] -> exists u, enabled s u.
  Proof. intros R V N. destruct (no_stuck_thread s t R V N) as [H|(u & _ & H)]; eauto. Qed.

  (* dispatch_async never waits: every program point of the submission path (at any level of the hierarchy) has an
     enabled step, whatever the drainers and the other submitters are doing *)
  Theorem async_never_blocks s t l p r :
    reach F s -> stk s t = (l, p) :: r -> is_drain p = false -> enabled s t.
  Proof.
    intros R E D. destruct (Inv2_reachable s R) as (I & _ & _). pose proof I as [L T].
    destruct (L l) as [rl G]. pose proof (g_enc F s l rl G) as Genc. pose proof (g_wf F s l rl G) as Gwf.
    exists false. unfold gstep. rewrite E. destruct p; try discriminate; try (eexists; reflexivity).
    destruct (tinv_top F s t l _ r (T t) E) as (_ & _ & _ & _ & (_ & Bq & _) & _). pose proof (Bq qos eq_refl) as Q.
    unfold w_wake, ENQUEUED. rewrite Genc. destruct dirty.
    - rewrite (wakeup_fields rl qos 3 1 Gwf Q eq_refl). cbv zeta. eexists. reflexivity.
    - rewrite (wakeup_fields_nodirty rl qos 1 1 Gwf Q eq_refl). cbv zeta.
      destruct (can_enqueue rl); [eexists; reflexivity|]. destruct (f_mq rl <? qos); eexists; reflexivity.
  Qed.
End Progress.
