(* MainQ_proofs.v — the invariant of the main-queue model (Model/MainQ.v) holds in every reachable state, for any
   number of threads and every interleaving; what it says to a client (C02 for the main queue). *)
From Coq Require Import ZArith Bool List Lia.
From Verif Require Import Word Bits Fields DqFields Conc Gen_consts Gen_dqstate Lane_fields SLane SLane_proofs SLane_progress
  MainQ MainQ_fields MainQ_inv MainQ_frames MainQ_steps1 MainQ_steps2 MainQ_steps3 MainQ_steps4 MainQ_steps5 MainQ_steps6.
Import ListNotations.
Local Open Scope Z_scope.

Theorem mstep_preserves s a s' : Inv s -> mstep_rel s a s' -> Inv s'.
Proof.
  intros I H. destruct a as [t c|t|t|t]; destruct H as [V B].
  - destruct c.
    + exact (step_async_begin s t q s' I V B).
    + exact (step_sync_begin s t aaw q s' I V B).
    + exact (step_service_begin s t s' I B).
    + exact (step_callback_begin s t s' I B).
    + exact (step_main_begin s t s' I B).
    + exact (step_worker_begin s t floor s' I V B).
  - destruct (mpcs s t) eqn:Hpc.
    + destruct (c_lane (mcl s)) eqn:CL; [exact (step_lane_phase2 s t s' I V CL Hpc B) | exact (step_lane_pre s t s' I V CL Hpc B)].
    + (* MP_push *)
      pose proof I as (T & _). destruct (T t) as (_ & T2 & _). rewrite Hpc in T2. cbn [lane_ok] in T2.
      destruct (pcs (lane s) t) eqn:Hlp; try discriminate T2.
      * exact (step_push_xchg s t k i s' I V Hpc Hlp B).
      * exact (step_push_link s t k i was_empty qos s' I V Hpc Hlp B).
    + exact (step_MW_bound s t q d k s' I V Hpc B).
    + exact (step_MW_rel s t q d k s' I Hpc B).
    + exact (step_MW_or s t q k s' I Hpc B).
    + exact (step_MW_probe s t q k s' I Hpc B).
    + exact (step_MW_merge s t q k s' I Hpc B).
    + exact (step_MW_write s t k s' I Hpc B).
    + exact (step_MW_reset s t k s' I Hpc B).
    + exact (step_MW_probe2 s t q k s' I Hpc B).
    + exact (step_MW_ret s t k s' I Hpc B).
    + exact (step_MS_aaw s t q s' I Hpc B).
    + exact (step_MS_fast s t q s' I Hpc B).
    + exact (step_MS_prep s t q s' I Hpc B).
    + exact (step_MS_dec s t s' I Hpc B).
    + exact (step_MS_load s t s' I Hpc B).
    + exact (step_MS_futex s t s' I Hpc B).
    + exact (step_MS_sleep s t s' I Hpc B).
    + exact (step_MS_woken s t s' I Hpc B).
    + exact (step_MB_tail s t s' I Hpc B).
    + exact (step_MB_bound s t s' I Hpc B).
    + exact (step_MB_state s t s' I Hpc B).
    + exact (step_MB_head s t s' I Hpc B).
    + exact (step_MB_clr s t s' I Hpc B).
    + exact (step_MB_snap s t s' I Hpc B).
    + exact (step_MB_next s t s' I Hpc B).
    + exact (step_MB_run s t i w more s' I Hpc B).
    + exact (step_MB_incall s t i w more s' I Hpc B).
    + exact (step_MB_sig s t w more s' I Hpc B).
    + exact (step_MB_fwake s t w more s' I Hpc B).
    + exact (step_MB_loop s t more s' I Hpc B).
    + exact (step_MB_ret s t s' I Hpc B).
    + exact (step_MC_rmw s t s' I Hpc B).
    + exact (step_MC_clr s t s' I Hpc B).
    + exact (step_MC_tail s t s' I Hpc B).
    + exact (step_MC_susp s t s' I Hpc B).
    + exact (step_MC_head s t s' I Hpc B).
    + exact (step_MC_cbc s t tgt s' I Hpc B).
    + exact (step_MC_xor s t s' I Hpc B).
    + exact (step_MC_flags s t s' I Hpc B).
    + exact (step_MC_push s t s' I V Hpc B).
    + exact (step_MC_close s t s' I Hpc B).
    + unfold mstep in B. rewrite Hpc in B. discriminate.
  - (* the override continuation after the link *)
    destruct (mpcs s t) eqn:Hpc; try (unfold mostep in B; rewrite Hpc in B; discriminate).
    + exact (step_lane_o s t s' I Hpc B).
    + pose proof I as (T & _). destruct (T t) as (_ & T2 & _). rewrite Hpc in T2. cbn [lane_ok] in T2.
      destruct (pcs (lane s) t) eqn:Hlp; try (unfold mostep in B; rewrite Hpc, Hlp in B; discriminate).
      destruct was_empty; [unfold mostep in B; rewrite Hpc, Hlp in B; discriminate|].
      exact (step_push_link_o s t k i qos s' I V Hpc Hlp B).
  - exact (step_mspur s t s' I B).
Qed.

Theorem Inv_reachable m prio rb s : valid_tid m -> 0 <= rb < 2 -> mreach m prio rb s -> Inv s.
Proof.
  intros Vm Hrb. apply invariant_lift.
  - intros s0 ->. apply Inv_init; assumption.
  - intros s1 a s2 I H. exact (mstep_preserves s1 a s2 I H).
Qed.
