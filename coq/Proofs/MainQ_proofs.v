(* MainQ_proofs.v — the invariant of the main-queue model (Model/MainQ.v) holds in every reachable state, for any
   number of threads and every interleaving; what it says to a client (C02 for the main queue). *)
From Coq Require Import ZArith Bool List Lia.
From Verif Require Import Word Bits Fields DqFields Conc Gen_consts Gen_dqstate Lane_fields SLane SLane_proofs SLane_progress
  MainQ MainQ_fields MainQ_inv MainQ_frames MainQ_steps1 MainQ_steps2 MainQ_steps3 MainQ_steps4 MainQ_steps5 MainQ_steps6.
Import ListNotations.
Local Open Scope Z_scope.

Theorem mstep_preserves s a s' : Inv s -> mstep_rel s a s' -> Inv s'.
Proof.
  intros I H. destruct a as [t c|t|t|t]; destruct H as [V B].
  - destruct c.
    + exact (step_async_begin s t q s' I V B).
    + exact (step_sync_begin s t aaw q s' I V B).
    + exact (step_service_begin s t s' I B).
    + exact (step_callback_begin s t s' I B).
    + exact (step_main_begin s t s' I B).
    + exact (step_worker_begin s t floor s' I V B).
  - destruct (mpcs s t) eqn:Hpc.
    + destruct (c_lane (mcl s)) eqn:CL; [exact (step_lane_phase2 s t s' I V CL Hpc B) | exact (step_lane_pre s t s' I V CL Hpc B)].
    + (* MP_push *)
      pose proof I as (T & _). destruct (T t) as (_ & T2 & _). rewrite Hpc in T2. cbn [lane_ok] in T2.
      destruct (pcs (lane s) t) eqn:Hlp; try discriminate T2.
      * exact (step_push_xchg s t k i s' I V Hpc Hlp B).
      * exact (step_push_link s t k i was_empty qos s' I V Hpc Hlp B).
    + exact (step_MW_bound s t q d k s' I V Hpc B).
    + exact (step_MW_rel s t q d k s' I Hpc B).
    + exact (step_MW_or s t q k s' I Hpc B).
    + exact (step_MW_probe s t q k s' I Hpc B).
    + exact (step_MW_merge s t q k s' I Hpc B).
    + exact (step_MW_write s t k s' I Hpc B).
    + exact (step_MW_reset s t k s' I Hpc B).
    + exact (step_MW_probe2 s t q k s' I Hpc B).
    + exact (step_MW_ret s t k s' I Hpc B).
    + exact (step_MS_aaw s t q s' I Hpc B).
    + exact (step_MS_fast s t q s' I Hpc B).
    + exact (step_MS_prep s t q s' I Hpc B).
    + exact (step_MS_dec s t s' I Hpc B).
    + exact (step_MS_load s t s' I Hpc B).
    + exact (step_MS_futex s t s' I Hpc B).
    + exact (step_MS_sleep s t s' I Hpc B).
    + exact (step_MS_woken s t s' I Hpc B).
    + exact (step_MB_tail s t s' I Hpc B).
    + exact (step_MB_bound s t s' I Hpc B).
    + exact (step_MB_state s t s' I Hpc B).
    + exact (step_MB_head s t s' I Hpc B).
    + exact (step_MB_clr s t s' I Hpc B).
    + exact (step_MB_snap s t s' I Hpc B).
    + exact (step_MB_next s t s' I Hpc B).
    + exact (step_MB_run s t i w more s' I Hpc B).
    + exact (step_MB_incall s t i w more s' I Hpc B).
    + exact (step_MB_sig s t w more s' I Hpc B).
    + exact (step_MB_fwake s t w more s' I Hpc B).
    + exact (step_MB_loop s t more s' I Hpc B).
    + exact (step_MB_ret s t s' I Hpc B).
    + exact (step_MC_rmw s t s' I Hpc B).
    + exact (step_MC_clr s t s' I Hpc B).
    + exact (step_MC_tail s t s' I Hpc B).
    + exact (step_MC_susp s t s' I Hpc B).
    + exact (step_MC_head s t s' I Hpc B).
    + exact (step_MC_cbc s t tgt s' I Hpc B).
    + exact (step_MC_xor s t s' I Hpc B).
    + exact (step_MC_flags s t s' I Hpc B).
    + exact (step_MC_push s t s' I V Hpc B).
    + exact (step_MC_close s t s' I Hpc B).
    + unfold mstep in B. rewrite Hpc in B. discriminate.
  - (* the override continuation after the link *)
    destruct (mpcs s t) eqn:Hpc; try (unfold mostep in B; rewrite Hpc in B; discriminate).
    + exact (step_lane_o s t s' I Hpc B).
    + pose proof I as (T & _). destruct (T t) as (_ & T2 & _). rewrite Hpc in T2. cbn [lane_ok] in T2.
      destruct (pcs (lane s) t) eqn:Hlp; try (unfold mostep in B; rewrite Hpc, Hlp in B; discriminate).
      destruct was_empty; [unfold mostep in B; rewrite Hpc, Hlp in B; discriminate|].
      exact (step_push_link_o s t k i qos s' I V Hpc Hlp B).
  - exact (step_mspur s t s' I B).
Qed.

Theorem Inv_reachable m prio rb s : valid_tid m -> 0 <= rb < 2 -> mreach m prio rb s -> Inv s.
Proof.
  intros Vm Hrb. apply invariant_lift.
  - intros s0 ->. apply Inv_init; assumption.
  - intros s1 a s2 I H. exact (mstep_preserves s1 a s2 I H).
Qed.

(* ------------------------------------------------------------------ the bound thread's identity never changes *)
Lemma mtid_if (c : bool) (a b : mst) : mtid (if c then a else b) = if c then mtid a else mtid b.
Proof. destruct c; reflexivity. Qed.

Lemma some_inj {A} (a b : A) : Some a = Some b -> a = b.
Proof. intros H. injection H. auto. Qed.

Ltac brk B :=
  repeat match type of B with
  | (if ?x then _ else _) = Some _ => destruct x; try discriminate B
  | match ?x with _ => _ end = Some _ => destruct x; try discriminate B
  end.

Lemma mstep_mtid s t s' : mstep s t = Some s' -> mtid s' = mtid s.
Proof.
  intros B. unfold mstep, lane_step in B. destruct (gstep (lane s) t) eqn:GS; destruct (mpcs s t); brk B; try discriminate B.
  all: apply some_inj in B; rewrite <- B.
  all: mproj; rewrite ?mtid_if; mproj.
  all: repeat match goal with |- context [if ?x then _ else _] => destruct x end; try reflexivity.
  all: repeat match goal with |- context [match ?x with _ => _ end] => destruct x end; reflexivity.
Qed.

Lemma mostep_mtid s t s' : mostep s t = Some s' -> mtid s' = mtid s.
Proof.
  intros B. unfold mostep, lane_step in B. destruct (gstep (lane s) t) eqn:GS; destruct (ostep (lane s) t) eqn:OS;
    destruct (mpcs s t); brk B; try discriminate B.
  all: apply some_inj in B; rewrite <- B; reflexivity.
Qed.

Lemma mbegin_mtid s t c s' : mbegin s t c = Some s' -> mtid s' = mtid s.
Proof.
  intros B. unfold mbegin in B. destruct (pcs (lane s) t); try discriminate B.
  destruct c; destruct (begin (lane s) t (CWorker 0)) eqn:BG; destruct (mpcs s t); brk B; try discriminate B.
  all: apply some_inj in B; rewrite <- B; unfold callback; mproj; rewrite ?mtid_if; mproj.
  all: repeat match goal with |- context [if ?x then _ else _] => destruct x end; reflexivity.
Qed.

(* ================================================================== what the invariant says to a client *)
Section Client.
Variables (m prio rb : Z).
Hypothesis Vm : valid_tid m.
Hypothesis Hrb : 0 <= rb < 2.
Notation reach := (mreach m prio rb).

Lemma reach_mtid s : reach s -> mtid s = m.
Proof.
  intros R. induction R as [s0 ->|s a s' R IH H]; [reflexivity|]. rewrite <- IH.
  destruct a as [t c|t|t|t]; destruct H as [_ B].
  - exact (mbegin_mtid s t c s' B).
  - exact (mstep_mtid s t s' B).
  - exact (mostep_mtid s t s' B).
  - unfold mspur in B. destruct (mpcs s t); try discriminate. injection B as <-. reflexivity.
Qed.

(* ---- C02: one item at a time ---- *)
(* thread t is inside the callout of item i: on the bound thread (also while the work item itself is inside a
   dispatch_async_f onto the main queue: the push / wakeup program points with continuation KCall i), or as the worker
   that drains the released lane *)
Definition in_callout (s : mst) (t i : Z) : Prop :=
  (exists w mo, mpcs s t = MB_incall i w mo \/ kont (mpcs s t) = Some (KCall i w mo)) \/
  (exists o mo, pcs (lane s) t = PW_incall o i mo).

Lemma incall_class p i w mo :
  p = MB_incall i w mo \/ kont p = Some (KCall i w mo) -> only_main p = true /\ mclass p = mclass (MB_incall i w mo).
Proof.
  intros [->|E]; [split; reflexivity|].
  destruct p; cbn [kont] in E; try discriminate E; injection E as ->; split; reflexivity.
Qed.

Theorem mainq_exclusive s t1 i1 t2 i2 :
  reach s -> in_callout s t1 i1 -> in_callout s t2 i2 -> t1 = t2 /\ i1 = i2 /\ running (lane s) = Some (t1, i1).
Proof.
  intros R C1 C2. pose proof (Inv_reachable m prio rb s Vm Hrb R) as I. pose proof I as (T & Y & V & G).
  assert (Main : forall t i w mo, mpcs s t = MB_incall i w mo \/ kont (mpcs s t) = Some (KCall i w mo) ->
                 t = mtid s /\ mcl s = mclass (MB_incall i w mo)).
  { intros t i w mo Hpc. destruct (incall_class _ _ _ _ Hpc) as [Om Ec]. rewrite <- Ec. apply (main_thread s t _ I eq_refl). exact Om. }
  assert (Lane : forall t o i mo, pcs (lane s) t = PW_incall o i mo -> token (lane s) = Some (Some t)).
  { intros t o i mo Hlp. destruct (T t) as ((Tt & _) & _). apply Tt. rewrite Hlp. reflexivity. }
  assert (NoMix : forall t i w mo t' o i' mo', mpcs s t = MB_incall i w mo \/ kont (mpcs s t) = Some (KCall i w mo) ->
                  pcs (lane s) t' = PW_incall o i' mo' -> False).
  { intros t i w mo t' o i' mo' Hpc Hlp. destruct (Main _ _ _ _ Hpc) as [_ Ec]. rewrite Ec in G. cbn [mclass c_lane] in G.
    destruct G as [r G]. rewrite (a_token s r G) in *. pose proof (Lane _ _ _ _ Hlp). congruence. }
  destruct C1 as [(w1 & m1 & P1)|(o1 & m1 & P1)]; destruct C2 as [(w2 & m2 & P2)|(o2 & m2 & P2)].
  - destruct (Main _ _ _ _ P1) as [E1 Ec]. destruct (Main _ _ _ _ P2) as [E2 Ec2]. assert (Et : t1 = t2) by congruence.
    assert (Ei : i1 = i2).
    { rewrite Ec in Ec2. apply (f_equal c_view) in Ec2. cbn [mclass c_view] in Ec2. congruence. }
    split; [exact Et|]. split; [exact Ei|].
    rewrite Ec in G. cbn [mclass c_lane] in G. destruct G as [r G]. rewrite (a_running s r G), Ec, E1. reflexivity.
  - destruct (NoMix _ _ _ _ _ _ _ _ P1 P2).
  - destruct (NoMix _ _ _ _ _ _ _ _ P2 P1).
  - pose proof (Lane _ _ _ _ P1) as K1. pose proof (Lane _ _ _ _ P2) as K2. assert (Et : t1 = t2) by congruence.
    assert (Ei : i1 = i2) by (rewrite <- Et in P2; congruence). split; [exact Et|]. split; [exact Ei|].
    destruct (c_lane (mcl s)).
    + destruct G as [[[r G] _] _]. rewrite (g_running _ _ G), K1, P1. reflexivity.
    + destruct G as [r G]. rewrite (a_token s r G) in K1. discriminate.
Qed.

(* while the queue is thread-bound (and until cleanup2 has released it) every callout is on the bound thread ... *)
Theorem mainq_callouts_on_main_thread s t i :
  reach s -> c_lane (mcl s) = false -> in_callout s t i -> t = m.
Proof.
  intros R CL C. pose proof (Inv_reachable m prio rb s Vm Hrb R) as I. pose proof I as (T & Y & V & G).
  rewrite <- (reach_mtid s R). destruct C as [(w & mo & P)|(o & mo & P)].
  - destruct (incall_class _ _ _ _ P) as [Om _]. apply (main_thread s t _ I eq_refl). exact Om.
  - exfalso. rewrite CL in G. destruct G as [r G]. destruct (T t) as ((Tt & _) & _).
    assert (token (lane s) = Some (Some t)) by (apply Tt; rewrite P; reflexivity). rewrite (a_token s r G) in H. discriminate.
Qed.

(* ... including the blocks of dispatch_sync / dispatch_async_and_wait callers from other threads: the callout of a
   synchronous context was begun by the bound thread's drain, never by its caller *)
Theorem mainq_sync_items_run_on_main s i :
  reach s -> In i (started (lane s)) -> waiter_of s i <> 0 -> In i (mainran s).
Proof. intros R. pose proof (Inv_reachable m prio rb s Vm Hrb R) as (_ & Y & _). exact (y_ran s Y i). Qed.

(* ---- C02: submission (tail-exchange) order, each item at most once ---- *)
Theorem mainq_fifo s :
  reach s -> exists rest, zrange (nextid (lane s)) = rev (started (lane s)) ++ rest /\ NoDup (started (lane s)) /\
                          (forall i, In i (started (lane s)) -> 0 <= i < nextid (lane s)).
Proof.
  intros R. pose proof (Inv_reachable m prio rb s Vm Hrb R) as I. pose proof I as (T & Y & V & G).
  assert (X : exists rest, rev (started (lane s)) ++ rest = zrange (nextid (lane s))).
  { destruct (c_lane (mcl s)).
    - destruct G as [[[r G] _] _]. eexists. exact (g_order _ _ G).
    - destruct G as [r G]. eexists. exact (a_order s r G). }
  destruct X as [rest E]. exists rest. split; [symmetry; exact E|].
  assert (ND : NoDup (rev (started (lane s)))) by (apply (prefix_nodup _ _ _ E), zrange_nodup).
  split.
  - apply NoDup_rev in ND. rewrite rev_involutive in ND. exact ND.
  - intros i Hi. apply (started_below s i I Hi).
Qed.

Corollary mainq_kth_started_is_k s k :
  reach s -> (k < length (started (lane s)))%nat -> nth k (rev (started (lane s))) (-1) = Z.of_nat k.
Proof.
  intros R Hk. destruct (mainq_fifo s R) as (rest & E & _ & _).
  assert (Hk' : (k < length (rev (started (lane s))))%nat) by (rewrite rev_length; exact Hk).
  rewrite <- (app_nth1 (rev (started (lane s))) rest (-1) Hk'). rewrite <- E. unfold zrange.
  assert (Hlen : (length (rev (started (lane s))) <= length (zrange (nextid (lane s))))%nat) by (rewrite E, app_length; lia).
  unfold zrange in Hlen. rewrite map_length, seq_length in Hlen.
  rewrite (nth_indep _ (-1) (Z.of_nat 0)) by (rewrite map_length, seq_length; lia).
  rewrite map_nth. rewrite seq_nth by lia. reflexivity.
Qed.

(* ---- C02 / C01 for the main queue: nothing is stranded ---- *)
(* thread-bound phase: whenever the bound thread is outside the callback and the list is not empty, the handle is
   readable or a thread is on its way to make it readable *)
Theorem mainq_not_stranded s :
  reach s -> mpcs s m = MIdle -> lst (lane s) <> [] -> 0 < evfd s \/ exists t, poker s t.
Proof.
  intros R Hpc Hne. pose proof (Inv_reachable m prio rb s Vm Hrb R) as (T & Y & V & G).
  pose proof (reach_mtid s R) as Em. assert (Ec : mcl s = mclass MIdle) by (unfold mcl; rewrite Em, Hpc; reflexivity).
  rewrite Ec in G. cbn [mclass kont c_lane] in G. destruct G as [r G].
  destruct (a_strand s r G) as [H|[H|H]]; try (rewrite Ec; reflexivity); try exact Hne; [left; exact H | | right; exact H].
  rewrite Ec in H. discriminate H.
Qed.

(* the same at ANY program point of the bound thread before dispatch_main(): inside the drain (c_see: from the test of
   dq_items_tail to the return of the exit wakeup dx_wakeup(dq, 0, 0): this covers a work item that consumed the poke
   in a nested service of the handle, and a work item that submits to the main queue itself) the pending wake-up is
   the drain's own exit wakeup *)
Theorem mainq_not_stranded_any s :
  reach s -> c_lane (mcl s) = false -> c_clean (mcl s) = false -> lst (lane s) <> [] ->
  0 < evfd s \/ c_see (mcl s) = true \/ exists t, poker s t.
Proof.
  intros R CL CC Hne. pose proof (Inv_reachable m prio rb s Vm Hrb R) as (T & Y & V & G).
  rewrite CL in G. destruct G as [r G]. exact (a_strand s r G CC Hne).
Qed.

Definition quiescent (s : mst) : Prop := forall t, mpcs s t = MIdle /\ pcs (lane s) t = Idle.

(* at rest, a non-empty thread-bound main queue has a readable handle *)
Theorem mainq_quiescent_readable s :
  reach s -> quiescent s -> lst (lane s) <> [] -> bound s = true /\ 0 < evfd s /\ hopen s = true.
Proof.
  intros R Q Hne. pose proof (Inv_reachable m prio rb s Vm Hrb R) as (T & Y & V & G).
  pose proof (reach_mtid s R) as Em. destruct (Q m) as [Hpc _].
  assert (Ec : mcl s = mclass MIdle) by (unfold mcl; rewrite Em, Hpc; reflexivity).
  destruct (mainq_not_stranded s R Hpc Hne) as [H|[t H]].
  - rewrite Ec in G. cbn [mclass kont c_lane] in G. destruct G as [r G].
    split; [rewrite (a_bound s r G), Ec; reflexivity|]. split; [exact H | exact (a_hopen s r G)].
  - exfalso. unfold poker in H. destruct (Q t) as [H1 H2]. rewrite H1, H2 in H. discriminate H.
Qed.

(* ... and when the handle is not readable either, every submitted item has run, in order: nothing was lost *)
Theorem mainq_quiescent_all_done s :
  reach s -> quiescent s -> evfd s = 0 ->
  lst (lane s) = [] /\ snap s = [] /\ rev (started (lane s)) = zrange (nextid (lane s)) /\ running (lane s) = None.
Proof.
  intros R Q E0.
  assert (L : lst (lane s) = []).
  { destruct (lst (lane s)) eqn:E; [reflexivity|]. assert (Hne : lst (lane s) <> []) by congruence.
    destruct (mainq_quiescent_readable s R Q Hne) as (_ & H & _). lia. }
  pose proof (Inv_reachable m prio rb s Vm Hrb R) as (T & Y & V & G).
  pose proof (reach_mtid s R) as Em. destruct (Q m) as [Hpc _].
  assert (Ec : mcl s = mclass MIdle) by (unfold mcl; rewrite Em, Hpc; reflexivity).
  rewrite Ec in G. cbn [mclass kont c_lane] in G. destruct G as [r G].
  pose proof (a_snap s r G) as AS. pose proof (a_order s r G) as AO. pose proof (a_running s r G) as AR. rewrite Ec in *.
  assert (Sn : snap s = []) by (destruct (snap s); [reflexivity | discriminate AS]).
  split; [exact L|]. split; [exact Sn|]. split; [|exact AR].
  rewrite Sn, L in AO. cbn [mclass kont bitem c_view ids map app] in AO. rewrite app_nil_r in AO. exact AO.
Qed.

(* ---- C02 / C05 for the main queue: a synchronous call returns only after its block finished on the bound thread ---- *)
Theorem mainq_sync_returns_after_run s t :
  reach s -> mpcs s t = MS_woken ->
  w_null (ws s t) = true /\ In (w_item (ws s t)) (finished s) /\ In (w_item (ws s t)) (mainran s) /\
  exists s', mstep s t = Some s'.
Proof.
  intros R Hpc. pose proof (Inv_reachable m prio rb s Vm Hrb R) as I. pose proof I as (T & _).
  destruct (T t) as (_ & _ & _ & _ & _ & T6). pose proof (lane_of_plain s t _ I Hpc Logic.I) as Hlp.
  unfold sinv in T6. rewrite Hpc, Hlp in T6. cbn [stage] in T6. destruct T6 as (_ & _ & _ & S5 & S6).
  specialize (S5 eq_refl). destruct S6 as (A & B & C); [lia | exact S5|].
  split; [exact A|]. split; [exact B|]. split; [exact C|].
  unfold mstep. rewrite Hpc, A. eexists. reflexivity.
Qed.

(* the barrier-sync fast path and the workloop preparation never apply to the thread-bound word: the caller always
   queues its context *)
Theorem mainq_sync_never_fast s t q :
  reach s -> mpcs s t = MS_fast q \/ mpcs s t = MS_prep q ->
  f_dispatch_queue_try_acquire_barrier_sync_and_suspend 0 t 0 1 (st (lane s)) = NoCommit 0 [] /\
  wait_prepare_loop 0 (st (lane s)) = NoCommit 1 [].
Proof.
  intros R Hpc. pose proof (Inv_reachable m prio rb s Vm Hrb R) as I. pose proof I as (T & Y & V & G).
  destruct (T t) as (_ & _ & _ & _ & T5 & _).
  assert (Hin : In t (syncers s)) by (apply T5; destruct Hpc as [-> | ->]; reflexivity).
  destruct (sync_pre s t I Hin) as [CL _]. rewrite CL in G. destruct G as [r G].
  rewrite (a_enc s r G). split.
  - apply fast_refused; [exact (a_wf s r G)|]. rewrite (a_owner s r G). unfold valid_tid in V. lia.
  - apply wait_prepare_giveup; [exact (a_wf s r G) | exact (a_role s r G)].
Qed.

(* ---- the hand-over at dispatch_main(): from the release on, the queue is an ordinary serial lane ---- *)
Theorem mainq_handoff s :
  reach s -> c_lane (mcl s) = true ->
  SLane_proofs.Inv (lane s) /\ snap s = [] /\ syncers s = [] /\ bound s = false /\
  rev (started (lane s)) ++ inflight (lane s) ++ map e_id (lst (lane s)) = zrange (nextid (lane s)).
Proof.
  intros R CL. pose proof (Inv_reachable m prio rb s Vm Hrb R) as (T & Y & V & G). rewrite CL in G. destruct G as [I2 G2].
  split; [exact I2|]. split; [exact (b_snap s G2)|]. split; [exact (b_sync s G2)|]. split; [exact (b_bound s G2)|].
  destruct I2 as [[r G] _]. exact (g_order _ _ G).
Qed.

(* every step of a thread that runs ordinary lane code is a step of Model/SLane.v on the lane component *)
Theorem mainq_lane_steps_are_slane s t s' :
  mpcs s t = MIdle -> mstep s t = Some s' -> gstep (lane s) t = Some (lane s') /\ mpcs s' = mpcs s.
Proof.
  intros Hpc B. unfold mstep in B. rewrite Hpc in B. unfold lane_step in B. destruct (gstep (lane s) t); [|discriminate].
  injection B as <-. split; reflexivity.
Qed.

(* after the release: at rest, a non-empty queue sits in its root queue (a worker can pick it up) *)
Theorem mainq_lane_not_stranded s :
  reach s -> c_lane (mcl s) = true -> (forall t, pcs (lane s) t = Idle) -> lst (lane s) <> [] ->
  rootq (lane s) = 1 /\ token (lane s) = Some None.
Proof.
  intros R CL Q L. destruct (mainq_handoff s R CL) as ([[r G] T] & _). destruct G.
  assert (Wk : wakers (lane s) = []).
  { destruct (wakers (lane s)) as [|w l] eqn:E; [reflexivity|]. destruct (T w) as (_ & T2 & _). rewrite Q in T2.
    assert (In w (wakers (lane s))) by (rewrite E; left; reflexivity). apply T2 in H. discriminate. }
  destruct (g_nostrand L) as [H|H]; [|congruence].
  destruct (token (lane s)) as [[w|]|] eqn:K; [| split; [rewrite g_rootq; reflexivity | reflexivity] | congruence].
  destruct (T w) as (T1 & _). rewrite Q in T1. assert (token_pc Idle = true) by (apply T1; exact K). discriminate.
Qed.

End Client.

(* ================================================================== an executable run (non-vacuity) *)
Definition mact_valid (a : mact) : bool :=
  match a with MBegin t _ | MStep t | MStepO t | MSpur t => (0 <? t) && (t <? 1073741824) end.

Lemma mrun_reach m prio rb acts : forall s s',
  mreach m prio rb s -> forallb mact_valid acts = true -> mrun s acts = Some s' -> mreach m prio rb s'.
Proof.
  induction acts as [|a acts IH]; intros s s' R V H; cbn [mrun] in H.
  - injection H as <-. exact R.
  - cbn [forallb] in V. apply andb_true_iff in V as [Va V].
    assert (Vt : forall t, (0 <? t) && (t <? 1073741824) = true -> valid_tid t).
    { intros t E. apply andb_true_iff in E as [E1 E2]. apply Z.ltb_lt in E1, E2. split; assumption. }
    destruct a as [t c|t|t|t]; cbn [mact_valid] in Va.
    + destruct (mbegin s t c) as [s1|] eqn:B; [|discriminate]. apply (IH s1 s'); [|exact V|exact H].
      apply (reach_step _ _ s (MBegin t c) s1 R). split; [apply Vt; exact Va | exact B].
    + destruct (mstep s t) as [s1|] eqn:B; [|discriminate]. apply (IH s1 s'); [|exact V|exact H].
      apply (reach_step _ _ s (MStep t) s1 R). split; [apply Vt; exact Va | exact B].
    + destruct (mostep s t) as [s1|] eqn:B; [|discriminate]. apply (IH s1 s'); [|exact V|exact H].
      apply (reach_step _ _ s (MStepO t) s1 R). split; [apply Vt; exact Va | exact B].
    + destruct (mspur s t) as [s1|] eqn:B; [|discriminate]. apply (IH s1 s'); [|exact V|exact H].
      apply (reach_step _ _ s (MSpur t) s1 R). split; [apply Vt; exact Va | exact B].
Qed.

Definition quiescent_dec (s : mst) (ts : list Z) : bool :=
  forallb (fun t => match mpcs s t, pcs (lane s) t with MIdle, Idle => true | _, _ => false end) ts.

(* bound thread 100; pushers 5 and 6 (6 pushes onto a non-empty list and takes the override wakeup), synchronous caller 7
   (parks on its thread event), the bound thread services the handle and drains the three items (the third is 7's
   context: run on the bound thread, then signalled with futex_wake), 7 returns, 5 pushes again, dispatch_main()
   hands the queue over with that item queued, worker 8 drains it as an ordinary serial lane *)
Definition demo_steps (t : Z) (n : nat) : list mact := repeat (MStep t) n.
Definition demo_phase1 : list mact :=
  [MBegin 5 (MAsync 0)] ++ demo_steps 5 9 ++
  [MBegin 6 (MAsync 0); MStep 6; MStepO 6] ++ demo_steps 6 6 ++
  [MBegin 7 (MSync false 0)] ++ demo_steps 7 8.
Definition demo_drain : list mact :=
  [MBegin 100 MService] ++ demo_steps 100 6 ++ demo_steps 100 4 ++ demo_steps 100 4 ++ demo_steps 100 5 ++ demo_steps 100 7 ++
  demo_steps 7 3.
Definition demo_phase2 : list mact :=
  [MBegin 5 (MAsync 0)] ++ demo_steps 5 9 ++ [MBegin 100 MMain] ++ demo_steps 100 8 ++ [MBegin 8 (MWorker 0)] ++ demo_steps 8 8.
Definition demo_acts := demo_phase1 ++ demo_drain ++ demo_phase2.

Lemma demo_parked :
  exists s, mrun (minit 100 0 1) demo_phase1 = Some s /\ mreach 100 0 1 s /\
            mpcs s 7 = MS_sleep /\ map e_id (lst (lane s)) = [0; 1; 2] /\ waiter_of s 2 = 7 /\ evfd s = 2 /\ mpcs s 100 = MIdle.
Proof.
  eexists. split; [vm_compute; reflexivity|]. split; [|repeat split].
  apply (mrun_reach 100 0 1 demo_phase1 (minit 100 0 1)); [apply reach_init; reflexivity | reflexivity | vm_compute; reflexivity].
Qed.

Lemma demo_final :
  exists s, mrun (minit 100 0 1) demo_acts = Some s /\ mreach 100 0 1 s /\
            quiescent_dec s [5; 6; 7; 8] = true /\ mpcs s 100 = MC_gone /\ started (lane s) = [3; 2; 1; 0] /\
            mainran s = [2; 1; 0] /\ finished s = [2; 1; 0] /\ lst (lane s) = [] /\ rootq (lane s) = 0 /\ nextid (lane s) = 4 /\
            bound s = false /\ hopen s = false /\ syncers s = [] /\ st (lane s) = 9005068950962176.
Proof.
  eexists. split; [vm_compute; reflexivity|]. split; [|repeat split].
  apply (mrun_reach 100 0 1 demo_acts (minit 100 0 1)); [apply reach_init; reflexivity | reflexivity | vm_compute; reflexivity].
Qed.

(* a work item that submits to the main queue from inside its callout, as the LAST item of a drain pass: thread 5 pushes
   item 0, the bound thread 100 services the handle and begins the callout of item 0 (nothing left in its snapshot, the
   list is empty); inside the callout it calls dispatch_async_f(main queue): tail exchange onto the empty list, head
   store, MAKE_DIRTY wakeup on the thread-bound way: it pokes its own eventfd (counter 1) and returns into the callout;
   the callout ends, the drain's exit wakeup finds the list non-empty and pokes again; back in the run loop the handle
   is readable, the second service pass runs item 1; at rest everything ran in order and the handle is not readable *)
Definition demo_resub1 : list mact :=
  [MBegin 5 (MAsync 0)] ++ demo_steps 5 9 ++ [MBegin 100 MService] ++ demo_steps 100 8 ++
  [MBegin 100 (MAsync 0)] ++ demo_steps 100 9.
Definition demo_resub2 : list mact := demo_resub1 ++ demo_steps 100 9 ++ [MBegin 100 MService] ++ demo_steps 100 16.

Lemma demo_resubmit :
  (exists s, mrun (minit 100 0 1) demo_resub1 = Some s /\ mreach 100 0 1 s /\
             mpcs s 100 = MB_incall 0 0 false /\ running (lane s) = Some (100, 0) /\ map e_id (lst (lane s)) = [1] /\
             snap s = [] /\ evfd s = 1) /\
  (exists s, mrun (minit 100 0 1) demo_resub2 = Some s /\ mreach 100 0 1 s /\
             quiescent_dec s [5] = true /\ mpcs s 100 = MIdle /\ started (lane s) = [1; 0] /\ mainran s = [1; 0] /\
             finished s = [1; 0] /\ lst (lane s) = [] /\ evfd s = 0 /\ bound s = true).
Proof.
  split; (eexists; split; [vm_compute; reflexivity|]; split; [|repeat split]).
  - apply (mrun_reach 100 0 1 demo_resub1 (minit 100 0 1)); [apply reach_init; reflexivity | reflexivity | vm_compute; reflexivity].
  - apply (mrun_reach 100 0 1 demo_resub2 (minit 100 0 1)); [apply reach_init; reflexivity | reflexivity | vm_compute; reflexivity].
Qed.
