(* Group_iface.v — interface lemmas about Gen_group (masks, carry, loop bodies) and the word operations of Model/Group.v, field-wise. *)
From Coq Require Import ZArith Bool List Lia ZifyBool.
From Verif Require Import Word Bits Conc Gen_consts Gen_group Group.
Import ListNotations.
Local Open Scope Z_scope.

Definition fw (x : Z) := x mod 2.
Definition fn (x : Z) := (x / 2) mod 2.
Definition fv (x : Z) := (x / 4) mod 1073741824.
Definition fg (x : Z) := x / 4294967296.
Definition wfw (x : Z) := 0 <= x < 18446744073709551616.

Section Arith.
Local Ltac Zify.zify_post_hook ::= Z.div_mod_to_equations.

Lemma decomp x : wfw x ->
  x = fg x * 4294967296 + fv x * 4 + fn x * 2 + fw x /\ 0 <= fg x < 4294967296 /\ 0 <= fv x < 1073741824 /\
  0 <= fn x <= 1 /\ 0 <= fw x <= 1.
Proof. unfold wfw, fg, fv, fn, fw. intros. lia. Qed.

Lemma fields_of g v n w : 0 <= g < 4294967296 -> 0 <= v < 1073741824 -> 0 <= n <= 1 -> 0 <= w <= 1 ->
  let x := g * 4294967296 + v * 4 + n * 2 + w in wfw x /\ fg x = g /\ fv x = v /\ fn x = n /\ fw x = w.
Proof. unfold wfw, fg, fv, fn, fw. intros. cbv zeta. lia. Qed.

Lemma land_vmask x : Z.land x VMASK = fv x * 4.
Proof. unfold VMASK, DISPATCH_GROUP_VALUE_MASK, fv. rewrite (land_mask x 4294967292 30 2) by lia. reflexivity. Qed.
Lemma land_hw x : Z.land x HW = fw x.
Proof. unfold HW, DISPATCH_GROUP_HAS_WAITERS, fw. change 1 with (2 ^ 1 - 1) at 1. rewrite land_low by lia. reflexivity. Qed.
Lemma land_hn x : Z.land x HN = fn x * 2.
Proof. unfold HN, DISPATCH_GROUP_HAS_NOTIFS, fn. change 2 with (2 ^ 1) at 1. rewrite land_bit by lia. reflexivity. Qed.
Lemma u32_fields x : wfw x -> u32 x = fv x * 4 + fn x * 2 + fw x.
Proof. unfold wfw, u32, fv, fn, fw. intros. lia. Qed.
Lemma gen_fields x : wfw x -> f_dg_state_gen x = fg x.
Proof. unfold wfw, f_dg_state_gen, u32, fg. intros. rewrite Z.shiftr_div_pow2 by lia. change (2 ^ 32) with 4294967296. lia. Qed.
End Arith.

Lemma ldiff_sub a b : 0 <= a -> Z.ldiff a b = a - Z.land a b.
Proof.
  intros Ha.
  assert (D : Z.land (Z.ldiff a b) (Z.land a b) = 0).
  { apply Z.bits_inj'; intros i Hi. rewrite !Z.land_spec, Z.ldiff_spec, Z.bits_0.
    destruct (Z.testbit a i), (Z.testbit b i); reflexivity. }
  pose proof (Z.lor_ldiff_and a b) as E.
  rewrite <- (Z.lxor_lor _ _ D), <- (Z.add_nocarry_lxor _ _ D) in E. lia.
Qed.
Lemma land_ldiff_mask x m b : Z.land x (Z.ldiff m b) = Z.ldiff (Z.land x m) b.
Proof.
  apply Z.bits_inj'; intros i Hi. rewrite !Z.land_spec, !Z.ldiff_spec, Z.land_spec.
  destruct (Z.testbit x i), (Z.testbit m i), (Z.testbit b i); reflexivity.
Qed.
Lemma land_ones64 x : wfw x -> Z.land x (Z.ones 64) = x.
Proof. unfold wfw. intros. rewrite Z.land_ones by lia. apply Z.mod_small. change (2 ^ 64) with 18446744073709551616. lia. Qed.
Lemma clear_hw x : wfw x -> Z.land x (not64 HW) = x - fw x.
Proof.
  intros H. change (not64 HW) with (Z.ldiff (Z.ones 64) 1). rewrite land_ldiff_mask, land_ones64 by exact H.
  rewrite ldiff_sub by (unfold wfw in H; lia). f_equal. apply land_hw.
Qed.
Lemma clear_hn x : wfw x -> Z.land x (not64 HN) = x - fn x * 2.
Proof.
  intros H. change (not64 HN) with (Z.ldiff (Z.ones 64) 2). rewrite land_ldiff_mask, land_ones64 by exact H.
  rewrite ldiff_sub by (unfold wfw in H; lia). f_equal. apply land_hn.
Qed.

Section Arith2.
Local Ltac Zify.zify_post_hook ::= Z.div_mod_to_equations.

Lemma lor_hw x : wfw x -> Z.lor x HW = x + (1 - fw x).
Proof.
  intros H. unfold HW, DISPATCH_GROUP_HAS_WAITERS. pose proof (decomp x H) as (_ & _ & _ & _ & Hw).
  change 1 with (2 ^ 0) at 1. destruct (Z.eq_dec (fw x) 0) as [E|E].
  - rewrite lor_bit_clear; unfold wfw, fw in *; try lia.
  - rewrite lor_bit_set; unfold wfw, fw in *; try lia.
Qed.
Lemma lor_hn x : wfw x -> Z.lor x HN = x + 2 * (1 - fn x).
Proof.
  intros H. unfold HN, DISPATCH_GROUP_HAS_NOTIFS. pose proof (decomp x H) as (_ & _ & _ & Hn & _).
  change 2 with (2 ^ 1) at 1. destruct (Z.eq_dec (fn x) 0) as [E|E].
  - rewrite lor_bit_clear; unfold wfw, fn in *; try lia. 
  - rewrite lor_bit_set; unfold wfw, fn in *; try lia.
Qed.

(* field-wise effect of the word operations *)
Lemma upd_fields x d : wfw x -> wfw (x + d) -> -4 < d < 4 -> fv (x + d) = fv x -> fg (x + d) = fg x.
Proof. unfold wfw, fv, fg. intros. lia. Qed.

Lemma leave_new_spec x : wfw x ->
  leave_new x = (if fv x =? 0 then x - fn x * 2 - fw x else x - fn x * 2) /\
  wfw (leave_new x) /\ fg (leave_new x) = fg x /\ fv (leave_new x) = fv x /\ fn (leave_new x) = 0 /\
  fw (leave_new x) = (if fv x =? 0 then 0 else fw x).
Proof.
  intros H. unfold leave_new. rewrite land_vmask.
  pose proof (decomp x H) as (E & B1 & B2 & B3 & B4).
  assert (C : (fv x * 4 =? 0) = (fv x =? 0)) by lia. rewrite C.
  destruct (Z.eqb_spec (fv x) 0) as [V|V].
  - rewrite (clear_hw x H). assert (H2 : wfw (x - fw x)) by (unfold wfw in *; lia).
    rewrite (clear_hn _ H2).
    assert (F : fn (x - fw x) = fn x) by (unfold fn, fw in *; lia). rewrite F.
    split; [lia|]. unfold wfw, fg, fv, fn, fw in *. lia.
  - rewrite (clear_hn x H). split; [reflexivity|]. unfold wfw, fg, fv, fn, fw in *. lia.
Qed.

Lemma lor_hw_spec x : wfw x -> wfw (Z.lor x HW) /\ fg (Z.lor x HW) = fg x /\ fv (Z.lor x HW) = fv x /\
  fn (Z.lor x HW) = fn x /\ fw (Z.lor x HW) = 1.
Proof. intros H. rewrite (lor_hw x H). unfold wfw, fg, fv, fn, fw in *. lia. Qed.
Lemma lor_hn_spec x : wfw x -> wfw (Z.lor x HN) /\ fg (Z.lor x HN) = fg x /\ fv (Z.lor x HN) = fv x /\
  fn (Z.lor x HN) = 1 /\ fw (Z.lor x HN) = fw x.
Proof. intros H. rewrite (lor_hn x H). unfold wfw, fg, fv, fn, fw in *. lia. Qed.

(* enter: 32-bit sub on the low half: no borrow into the generation *)
Lemma enter_word_spec x : wfw x -> wfw (enter_word x) /\ fg (enter_word x) = fg x /\
  fv (enter_word x) = (fv x - 1) mod 1073741824 /\ fn (enter_word x) = fn x /\ fw (enter_word x) = fw x.
Proof. intros H. unfold enter_word, INTERVAL, DISPATCH_GROUP_VALUE_INTERVAL, u32, wfw, fg, fv, fn, fw in *. lia. Qed.
(* leave: 64-bit add: the carry out of the value field bumps the generation (mod 2^32) *)
Lemma leave_word_spec x : wfw x -> wfw (leave_word x) /\ fn (leave_word x) = fn x /\ fw (leave_word x) = fw x /\
  (if fv x =? 1073741823 then fg (leave_word x) = (fg x + 1) mod 4294967296 /\ fv (leave_word x) = 0
   else fg (leave_word x) = fg x /\ fv (leave_word x) = fv x + 1).
Proof.
  intros H. unfold leave_word, INTERVAL, DISPATCH_GROUP_VALUE_INTERVAL, u64.
  destruct (Z.eqb_spec (fv x) 1073741823); unfold wfw, fg, fv, fn, fw in *; lia.
Qed.
End Arith2.

Lemma vzero_fv x : vzero x = (fv x =? 0).
Proof. unfold vzero. rewrite land_vmask. destruct (Z.eqb_spec (fv x) 0), (Z.eqb_spec (fv x * 4) 0); try reflexivity; lia. Qed.
Lemma carry_fv x : (Z.land x VMASK =? V1) = (fv x =? 1073741823).
Proof. rewrite land_vmask. unfold V1, DISPATCH_GROUP_VALUE_1. destruct (Z.eqb_spec (fv x) 1073741823), (Z.eqb_spec (fv x * 4) 4294967292); try reflexivity; lia. Qed.
Lemma vmax_fv x : (Z.land x VMASK =? VMAX) = (fv x =? 1).
Proof. rewrite land_vmask. unfold VMAX, DISPATCH_GROUP_VALUE_MAX. destruct (Z.eqb_spec (fv x) 1), (Z.eqb_spec (fv x * 4) 4); try reflexivity; lia. Qed.
Lemma nz_hw x : wfw x -> nz (Z.land x HW) = (fw x =? 1).
Proof. intros H. rewrite land_hw. pose proof (decomp x H) as (_ & _ & _ & _ & B). unfold nz. destruct (Z.eqb_spec (fw x) 0), (Z.eqb_spec (fw x) 1); try reflexivity; lia. Qed.
Lemma nz_hn x : wfw x -> nz (Z.land x HN) = (fn x =? 1).
Proof. intros H. rewrite land_hn. pose proof (decomp x H) as (_ & _ & _ & B & _). unfold nz. destruct (Z.eqb_spec (fn x * 2) 0), (Z.eqb_spec (fn x) 1); try reflexivity; lia. Qed.

(* ---- the generated loop bodies and the entry functions, field-wise ---- *)
Lemma wt_entry_spec tmo x : wfw x ->
  wt_entry tmo x = if fv x =? 0 then PRetV 0 else if tmo =? 0 then PRetV 1
                   else if fw x =? 1 then PSlow tmo (fg x) else PWtCas tmo x (Z.lor x HW).
Proof.
  intros H. unfold wt_entry, group_wait_loop.
  change 4294967292 with VMASK. change (Z.land x 1) with (Z.land x HW). change (Z.lor x 1) with (Z.lor x HW).
  rewrite land_vmask, (nz_hw x H).
  assert (C : (fv x * 4 =? 0) = (fv x =? 0)).
  { destruct (Z.eqb_spec (fv x) 0), (Z.eqb_spec (fv x * 4) 0); try reflexivity; lia. }
  rewrite C. destruct (fv x =? 0); [reflexivity|].
  destruct (tmo =? 0); [reflexivity|]. cbn [negb]. destruct (fw x =? 1); cbn.
  - rewrite gen_fields by (apply lor_hw_spec; exact H). f_equal. apply (lor_hw_spec x H).
  - reflexivity.
Qed.
Lemma wait_order_relaxed : group_wait_loop_order = Relaxed. Proof. reflexivity. Qed.
Lemma notify_order_release : group_notify_loop_order = Release. Proof. reflexivity. Qed.

Lemma nf_entry_spec x : nf_entry x = if u32 x =? 0 then wake_entry KApi (Z.lor x HN) else PNfCas x (Z.lor x HN).
Proof. unfold nf_entry, group_notify_loop. change (Z.lor x 2) with (Z.lor x HN). destruct (u32 x =? 0); reflexivity. Qed.

Lemma wake_tail_spec k x : wfw x -> wake_tail k x = if fw x =? 1 then PWakeFutex k else end_pc k.
Proof. intros H. unfold wake_tail. rewrite (nz_hw x H). reflexivity. Qed.
Lemma wake_entry_spec k x : wfw x -> wake_entry k x = if fn x =? 1 then PSnapHead k x else wake_tail k x.
Proof. intros H. unfold wake_entry. rewrite (nz_hn x H). reflexivity. Qed.
Lemma after_add_spec k x : after_add k x =
  if fv x =? 1073741823 then lv_loop_entry k (leave_word x) else if fv x =? 0 then PCrash else end_pc k.
Proof. unfold after_add. cbv zeta. rewrite carry_fv. fold (vzero x). rewrite vzero_fv. reflexivity. Qed.
Lemma leave_new_fix x : wfw x -> leave_new x = x -> fn x = 0.
Proof. intros H E. pose proof (leave_new_spec x H) as (_ & _ & _ & _ & F & _). rewrite E in F. exact F. Qed.
Lemma lv_loop_entry_spec k x : wfw x ->
  lv_loop_entry k x = PLvLoop k x \/ (leave_new x = x /\ fn x = 0 /\ lv_loop_entry k x = wake_tail k x).
Proof.
  intros H. unfold lv_loop_entry. destruct (Z.eqb_spec (leave_new x) x) as [E|E]; [right|left; reflexivity].
  pose proof (leave_new_fix x H E) as F. repeat split; auto. rewrite (wake_entry_spec k x H), F. reflexivity.
Qed.

(* ---- inversion of one global step ---- *)
Lemma gstep_inv s t e s' : gstep s t e = Some s' ->
  exists p' s1, tstep (pcs s t) e = Some p' /\ geffect s t (pcs s t) p' e = Some s1 /\ s' = set_pc s1 t p'.
Proof.
  unfold gstep. destruct (tstep (pcs s t) e) as [p'|]; [|discriminate].
  destruct (geffect s t (pcs s t) p' e) as [s1|] eqn:G; [|discriminate]. intros H. injection H as <-. exists p', s1. auto.
Qed.

Ltac crack H := repeat match type of H with
  | (if ?c then _ else None) = Some _ => let E := fresh "C" in destruct c eqn:E; [|discriminate H]
  | None = Some _ => discriminate H
  end.
Ltac sset := cbn [set_pc set_word set_slp set_tok set_read set_call_wait set_count set_carry set_push set_detach set_fire
                  word nq pcs slp held gfull outst nreg nplace fcnt ntok gsnap wz zreg early] in *.
Ltac bsplit H := repeat match type of H with
  | (_ && _) = true => let H1 := fresh H in apply andb_true_iff in H as [H1 H] end.
