(* SLaneT_proofs.v — the observation automaton of Model/SLaneT.v against (a) the atomic-site lists src2v reads from the
   source (kinds + memory orders, in program order) and (b) the global model Model/SLane.v: every SLane.gstep step of a
   thread is matched by a sequence of observations SLaneT.tstep accepts, from the matching program point to the
   matching program point, whose dq_state operations read SLane's word and leave SLane's new word. *)
From Coq Require Import ZArith Bool List Lia.
From Verif Require Import Word Bits Fields DqFields Conc Gen_consts Gen_fields Gen_dqstate Gen_lanesites Lane_fields
  SLane SLane_proofs SLane_progress SLaneT.
Import ListNotations.
Local Open Scope Z_scope.

(* ================================================================== (a) sites *)
(* os_mpsc_get_head reads through the local `__n = &q->dq_items_head`; src2v names the site after the variable *)
Definition rename_field (a b : nat) (s : site) : site :=
  if Nat.eqb (s_field s) a then {| s_kind := s_kind s; s_field := b; s_order := s_order s |} else s.
Definition lastn {A} (n : nat) (l : list A) : list A := skipn (length l - n) l.
Definition S_ref := mks KAdd F_os_obj_ref_cnt Relaxed.

Lemma sites_push_item : f_dispatch_queue_push_item_sites = model_sites_push_item.
Proof. reflexivity. Qed.
(* _dispatch_lane_push ends with its own MPSC push: update_tail, the two _dispatch_retain_2 branches, update_prev *)
Lemma sites_lane_push :
  lastn 6 f_dispatch_lane_push_sites = [S_push_init; S_push_xchg; S_ref; S_ref; S_push_link_next; S_push_link_head].
Proof. vm_compute. reflexivity. Qed.
Lemma sites_class_probe : f_dispatch_queue_class_probe_sites = model_sites_class_probe.
Proof. reflexivity. Qed.
Lemma sites_wakeup_loop : wakeup_loop_sites = model_sites_wakeup_loop /\ wakeup_loop_order = Release.
Proof. split; reflexivity. Qed.
(* _dispatch_queue_wakeup: (retain, the BARRIER_COMPLETE branch,) the rmw loop, the dependency fence, do_targetq *)
Lemma sites_queue_wakeup : lastn 4 f_dispatch_queue_wakeup_sites = model_sites_wakeup_tail.
Proof. vm_compute. reflexivity. Qed.
(* _dispatch_lane_wakeup: ... the probe, then _dispatch_queue_wakeup *)
Lemma sites_lane_wakeup :
  lastn (1 + length f_dispatch_queue_wakeup_sites) f_dispatch_lane_wakeup_sites = S_probe :: f_dispatch_queue_wakeup_sites.
Proof. vm_compute. reflexivity. Qed.
Lemma sites_root_push : firstn 4 f_dispatch_root_queue_push_inline_sites = model_sites_root_push.
Proof. reflexivity. Qed.
Lemma sites_try_lock :
  Gen_lanesites.f_dispatch_queue_drain_try_lock_sites = model_sites_try_lock /\
  Gen_dqstate.f_dispatch_queue_drain_try_lock_sites = model_sites_try_lock /\
  f_dispatch_queue_drain_try_lock_order = Acquire.
Proof. repeat split; reflexivity. Qed.
Lemma sites_get_head : map (rename_field F___n F_dq_items_head) f_dispatch_queue_get_head_sites = [S_get_head].
Proof. reflexivity. Qed.
Lemma sites_wait_for_enqueuer : f_dispatch_wait_for_enqueuer_sites = [S_wait].
Proof. reflexivity. Qed.
Lemma sites_pop_head : f_dispatch_queue_pop_head_sites = model_sites_pop_head.
Proof. reflexivity. Qed.
(* _dispatch_lane_serial_drain = _dispatch_lane_drain: the two get_head calls, the first_iteration load, (the width
   upgrade of the concurrent flavour,) pop_head *)
Lemma sites_serial_drain :
  map (rename_field F___n F_dq_items_head) (firstn 3 f_dispatch_lane_serial_drain_sites) = model_sites_drain_head /\
  firstn 5 (skipn 6 f_dispatch_lane_serial_drain_sites) = model_sites_pop_head.
Proof. split; reflexivity. Qed.
Lemma sites_try_unlock :
  Gen_lanesites.f_dispatch_queue_drain_try_unlock_sites = model_sites_try_unlock /\
  Gen_dqstate.f_dispatch_queue_drain_try_unlock_sites = model_sites_try_unlock /\
  f_dispatch_queue_drain_try_unlock_order = Release /\ drain_try_unlock_dirty_op_order = Acquire.
Proof. repeat split; reflexivity. Qed.
(* _dispatch_lane_invoke = _dispatch_queue_class_invoke: try_lock first; try_unlock after the drain *)
Lemma sites_lane_invoke :
  firstn 2 f_dispatch_lane_invoke_sites = model_sites_try_lock /\
  firstn 3 (skipn 5 f_dispatch_lane_invoke_sites) = model_sites_try_unlock.
Proof. split; reflexivity. Qed.

(* every kind / order tstep tests is one of the sites above: the list of (site, where it is proved) *)
Theorem sites_match :
  f_dispatch_queue_push_item_sites = [S_push_init; S_push_xchg; S_push_link_next; S_push_link_head] /\
  lastn 6 f_dispatch_lane_push_sites = [S_push_init; S_push_xchg; S_ref; S_ref; S_push_link_next; S_push_link_head] /\
  f_dispatch_queue_class_probe_sites = [S_probe] /\
  wakeup_loop_sites = [S_wake_load; S_wake_cas] /\
  lastn 4 f_dispatch_queue_wakeup_sites = [S_wake_load; S_wake_cas; S_wake_fence; S_wake_tq] /\
  lastn (1 + length f_dispatch_queue_wakeup_sites) f_dispatch_lane_wakeup_sites = S_probe :: f_dispatch_queue_wakeup_sites /\
  firstn 4 f_dispatch_root_queue_push_inline_sites = [S_push_init; S_push_xchg; S_push_link_next; S_push_link_head] /\
  Gen_lanesites.f_dispatch_queue_drain_try_lock_sites = [S_lock_load; S_lock_cas] /\
  Gen_dqstate.f_dispatch_queue_drain_try_lock_sites = [S_lock_load; S_lock_cas] /\
  map (rename_field F___n F_dq_items_head) f_dispatch_queue_get_head_sites = [S_get_head] /\
  f_dispatch_wait_for_enqueuer_sites = [S_wait] /\
  f_dispatch_queue_pop_head_sites = [S_pop_next; S_pop_head; S_pop_cas; S_pop_next; S_pop_head] /\
  map (rename_field F___n F_dq_items_head) (firstn 3 f_dispatch_lane_serial_drain_sites) = [S_get_head; S_get_head; S_drain_state] /\
  firstn 5 (skipn 6 f_dispatch_lane_serial_drain_sites) = [S_pop_next; S_pop_head; S_pop_cas; S_pop_next; S_pop_head] /\
  Gen_lanesites.f_dispatch_queue_drain_try_unlock_sites = [S_unlock_load; S_unlock_xor; S_unlock_cas] /\
  Gen_dqstate.f_dispatch_queue_drain_try_unlock_sites = [S_unlock_load; S_unlock_xor; S_unlock_cas] /\
  firstn 2 f_dispatch_lane_invoke_sites = [S_lock_load; S_lock_cas] /\
  firstn 3 (skipn 5 f_dispatch_lane_invoke_sites) = [S_unlock_load; S_unlock_xor; S_unlock_cas].
Proof.
  repeat (split; [first [reflexivity | vm_compute; reflexivity]|]). reflexivity.
Qed.

(* ================================================================== (b) simulation *)
Inductive trel (c : cfg) : pc -> tpc -> Prop :=
| R_idle : trel c Idle TIdle
| R_xchg q : trel c (PA_xchg q) (TA_init q)
| R_link i we q item prev : we = (prev =? 0) -> trel c (PA_link i we q) (TA_link q item prev)
| R_probe q : trel c (PA_probe q) (TA_probe q FL_PUSH)
| R_wake q tg : trel c (PA_wake q tg) (TA_wake_load q FL_PUSH)
| R_rootpush : trel c PA_rootpush TA_push_tq
| R_oprobe q : trel c (PA_oprobe q) (TA_linked q)
| R_owake q : trel c (PA_owake q) (TA_wake_load q FL_CONSUME_2)
| R_lock0 : trel c (PW_lock (c_floor c)) TIdle
| R_lock f0 old x :
    f_dispatch_queue_drain_try_lock 0 0 1 (c_self c) f0 old 0 = Restart x ->
    trel c (PW_lock (f_dq_state_max_qos old)) (TW_lock_body f0 old)
| R_tail o : trel c (PW_tail o) (TW_tail o)
| R_head o : trel c (PW_head o) (TW_tail o)
| R_head' o : trel c (PW_head o) (TW_again o)
| R_pop o h : h <> 0 -> trel c (PW_pop o) (TW_first o h)
| R_run o i m h n : m = negb (n =? 0) -> trel c (PW_run o i m) (TW_run o h n)
| R_incall o i m h n : m = negb (n =? 0) -> trel c (PW_incall o i m) (TW_incall o h n)
| R_next_more o n : n <> 0 -> trel c (PW_next o true) (TW_first o n)
| R_next_last o : trel c (PW_next o false) (TW_again o)
| R_unlock o : trel c (PW_unlock o) (TW_tail o)
| R_unlock' o : trel c (PW_unlock (after_loop_owned o)) (TW_again o)
| R_xor o old x y :
    f_dispatch_queue_drain_try_unlock 0 o 1 old = NoCommit x y -> trel c (PW_xor o) (TW_unlock_body o old).

(* the observations *)
Definition mkS (s : site) (obj a b ok : Z) : event :=
  mkEv (skind (s_kind s)) (smo (s_order s)) obj (Z.of_nat (s_field s)) 8 a b ok.
Definition mkSf (s : site) (obj : Z) (fld : nat) (a b ok : Z) : event :=
  mkEv (skind (s_kind s)) (smo (s_order s)) obj (Z.of_nat fld) 8 a b ok.
Definition mkU (k a b : Z) : event := mkEv k 0 0 0 0 a b 1.

Lemma site_hit s obj a b ok : ev_site (mkS s obj a b ok) s obj = true.
Proof. unfold ev_site, ev_site_f, mkS. cbn [ek eord eobj eoff esz]. rewrite !Z.eqb_refl. reflexivity. Qed.

(* ---- the three DIRTY rules hold in the model (from the field specifications of the generated bodies) ---- *)
Lemma Commit_new a b c d : Commit a b = Commit c d -> a = c.
Proof. intros H. apply (f_equal (fun o => match o with Commit n _ => n | _ => 0 end)) in H. exact H. Qed.
Lemma Commit_ret a b c d : Commit a b = Commit c d -> b = d.
Proof. intros H. apply (f_equal (fun o => match o with Commit _ r => r | _ => 0 end)) in H. exact H. Qed.

Lemma wake_commit_dirty s t q tg new ret :
  Inv s -> pcs s t = PA_wake q tg -> wakeup_loop 0 q FL_PUSH 1 (st s) ENQUEUED = Commit new ret ->
  dirty_rule_wake FL_PUSH new = true.
Proof.
  intros [[r G] T] Hpc B.
  destruct (T t) as (_ & _ & _ & T4). rewrite Hpc in T4. pose proof (T4 q eq_refl) as Q.
  pose proof (g_wf _ _ G) as W0. pose proof W0 as W. unfold wfr in W.
  rewrite (g_enc _ _ G) in B. unfold ENQUEUED, FL_PUSH in B.
  rewrite (wakeup_fields r q 3 1 W0 Q eq_refl) in B. cbv zeta in B.
  pose proof (merged_wf r q W0 Q) as Wm. unfold wfr in Wm.
  set (m := merged r q) in *.
  set (e' := if can_enqueue r then 1 else f_enq m) in *.
  assert (He' : 0 <= e' < 2) by (subst e'; destruct (can_enqueue r); lia).
  set (r' := mk (f_owner m) (f_tr m) e' (f_mq m) (f_ov m) (f_role m) (f_em m) 1 (f_pb m) (f_wq m) (f_ib m) (f_hi m)) in *.
  assert (W' : wfr r') by (subst r'; apply wfr_mk; lia).
  apply Commit_new in B. subst new.
  unfold dirty_rule_wake. rewrite (is_dirty_f r' W'). subst r'. reflexivity.
Qed.

Lemma lock_commit_clean s t fl new owned :
  Inv s -> pcs s t = PW_lock fl -> f_dispatch_queue_drain_try_lock 0 0 1 t fl (st s) 0 = Commit new owned ->
  dirty_rule_lock owned new = true.
Proof.
  intros [[r G] T] Hpc B.
  pose proof (holder s t (T t)) as K. rewrite Hpc in K. specialize (K eq_refl).
  pose proof (g_lock _ _ G) as GL. rewrite K, Hpc in GL. cbn [locked_pc] in GL.
  destruct GL as [Vt (O & Ib & Wq)]. pose proof (g_wf _ _ G) as W0. pose proof W0 as W. unfold wfr in W.
  rewrite (g_enc _ _ G) in B. rewrite (lock_fields r t fl 0 W0 Vt) in B.
  assert (LF : lock_free r = true).
  { unfold lock_free. rewrite O, (g_em _ _ G), Ib, (g_hi _ _ G), Wq. reflexivity. }
  rewrite LF in B.
  destruct ((f_role r mod 2 =? 1) && (fl <? f_mq r)); [discriminate|].
  apply Commit_new in B. subst new.
  unfold dirty_rule_lock.
  assert (W' : wfr (mk t 0 (f_enq r) (f_mq r) 0 (f_role r) 0 0 0 4096 1 0)) by (apply wfr_mk; unfold valid_tid in Vt; lia).
  rewrite (is_dirty_f _ W'). cbn. apply orb_true_r.
Qed.

Lemma unlock_commit_clean s t o new ret :
  Inv s -> pcs s t = PW_unlock o -> f_dispatch_queue_drain_try_unlock 0 o 1 (st s) = Commit new ret ->
  dirty_rule_unlock (st s) = true.
Proof.
  intros I Hpc B.
  assert (o = OWN) by (apply (owned_is_OWN s t); [exact I | rewrite Hpc; reflexivity]). subst o.
  destruct I as [[r G] T].
  pose proof (holder s t (T t)) as K. rewrite Hpc in K. specialize (K eq_refl).
  pose proof (g_lock _ _ G) as GL. rewrite K, Hpc in GL. cbn [locked_pc] in GL.
  destruct GL as [Vt (O & Ib & Wq)]. pose proof (g_wf _ _ G) as W0. pose proof W0 as W. unfold wfr in W.
  assert (En : f_enq r = 1) by (apply (g_enq _ _ G); rewrite K; discriminate).
  rewrite (g_enc _ _ G) in B |- *.
  change OWN with (18014398509481984 + 2199023255552 + 2147483648 * 1) in B.
  rewrite (unlock_fields r 1 W0 (g_hi _ _ G) Ib Wq) in B by lia.
  unfold dirty_rule_unlock. rewrite (is_dirty_f r W0).
  destruct (f_d r =? 1); [discriminate | reflexivity].
Qed.

Opaque wakeup_loop f_dispatch_queue_drain_try_lock f_dispatch_queue_drain_try_unlock f_dq_state_max_qos
  f_dq_state_is_suspended f_dq_state_is_dirty.

Ltac ev :=
  unfold ev_site, ev_site_f, ev_kind, mkS, mkSf, mkU;
  cbn [ek eord eobj eoff esz ea eb eok s_kind s_field s_order mks
       S_push_init S_push_xchg S_push_link_next S_push_link_head S_probe S_wake_load S_wake_cas S_wake_tq
       S_lock_load S_lock_cas S_get_head S_wait S_drain_state S_pop_next S_pop_head S_pop_cas
       S_unlock_load S_unlock_xor S_unlock_cas skind smo];
  rewrite ?Z.eqb_refl.

Section Sim.
  Variable c : cfg.
  Let dq := c_dq c.

  (* one-event lemmas *)
  Lemma t_call q : 0 <= q < 8 -> tstep c TIdle (mkU DVU_CALL q 0) = Some (TA_init q).
  Proof.
    intros H. unfold tstep. ev. cbn.
    destruct (Z.leb_spec 0 q); [|lia]. destruct (Z.ltb_spec q 8); [|lia]. reflexivity.
  Qed.
  Lemma t_ret p : p = TA_ret \/ (exists q, p = TA_linked q) -> tstep c p (mkU DVU_RET 0 0) = Some TIdle.
  Proof. intros [->|[q ->]]; reflexivity. Qed.
  Lemma t_init q item : item <> 0 -> tstep c (TA_init q) (mkS S_push_init item 0 0 1) = Some (TA_xchg q item).
  Proof.
    intros H. unfold tstep. cbn [eobj mkS]. rewrite site_hit. cbn [eb mkS].
    destruct (Z.eqb_spec item 0); [contradiction|]. reflexivity.
  Qed.
  Lemma t_xchg q item prev : tstep c (TA_xchg q item) (mkS S_push_xchg dq prev item 1) = Some (TA_link q item prev).
  Proof. unfold tstep. fold dq. rewrite site_hit. cbn [eb ea mkS]. rewrite Z.eqb_refl. reflexivity. Qed.
  Lemma t_link_head q item : tstep c (TA_link q item 0) (mkS S_push_link_head dq 0 item 1) = Some (TA_probe q FL_PUSH).
  Proof. unfold tstep. fold dq. cbn [Z.eqb]. rewrite site_hit. cbn [eb mkS]. rewrite Z.eqb_refl. reflexivity. Qed.
  Lemma t_link_next q item prev : prev <> 0 ->
    tstep c (TA_link q item prev) (mkS S_push_link_next prev 0 item 1) = Some (TA_linked q).
  Proof.
    intros H. unfold tstep. destruct (Z.eqb_spec prev 0); [contradiction|].
    rewrite site_hit. cbn [eb mkS]. rewrite Z.eqb_refl. reflexivity.
  Qed.
  Lemma t_probe q fl v : tstep c (TA_probe q fl) (mkS S_probe dq v v 1) = Some (if v =? 0 then TA_ret else TA_wake_load q fl).
  Proof. unfold tstep, probe_step. fold dq. rewrite site_hit. reflexivity. Qed.
  Lemma t_oprobe q v :
    tstep c (TA_linked q) (mkS S_probe dq v v 1) = Some (if v =? 0 then TA_ret else TA_wake_load q FL_CONSUME_2).
  Proof. unfold tstep, probe_step. fold dq. ev. reflexivity. Qed.
  Lemma t_wake_giveup q fl old x y :
    wakeup_loop 0 q fl 1 old ENQUEUED = NoCommit x y -> tstep c (TA_wake_body q fl old) (mkU DVU_RET 0 0) = Some TIdle.
  Proof. intros H. unfold tstep. rewrite H. reflexivity. Qed.
  Lemma t_wake_load q fl v : tstep c (TA_wake_load q fl) (mkS S_wake_load dq v v 1) = Some (TA_wake_body q fl v).
  Proof. unfold tstep. fold dq. rewrite site_hit. reflexivity. Qed.
  Lemma t_wake_cas q fl old new r :
    wakeup_loop 0 q fl 1 old ENQUEUED = Commit new r -> dirty_rule_wake fl new = true ->
    tstep c (TA_wake_body q fl old) (mkS S_wake_cas dq old new 1) =
    Some (if negb (Z.land (Z.lxor old new) ENQUEUED =? 0) then TA_push_tq else TA_ret).
  Proof.
    intros H D. unfold tstep. fold dq. rewrite H. rewrite site_hit, D. cbn [eb ea eok mkS]. rewrite !Z.eqb_refl. reflexivity.
  Qed.
  Lemma t_push_tq : tstep c TA_push_tq (mkS S_wake_tq dq (c_rq c) (c_rq c) 1) = Some TA_push_init.
  Proof. unfold tstep. fold dq. rewrite site_hit. cbn [ea mkS]. rewrite Z.eqb_refl. reflexivity. Qed.
  Lemma t_push_init : tstep c TA_push_init (mkS S_push_init dq 0 0 1) = Some TA_push_xchg.
  Proof. unfold tstep. fold dq. rewrite site_hit. reflexivity. Qed.
  Lemma t_push_xchg prev : tstep c TA_push_xchg (mkS S_push_xchg (c_rq c) prev dq 1) = Some (TA_push_link prev).
  Proof. unfold tstep. fold dq. rewrite site_hit. cbn [eb ea mkS]. rewrite Z.eqb_refl. reflexivity. Qed.
  Lemma t_push_link : tstep c (TA_push_link 0) (mkS S_push_link_head (c_rq c) 0 dq 1) = Some TA_ret.
  Proof. unfold tstep. fold dq. cbn [Z.eqb]. rewrite site_hit. cbn [eb mkS]. rewrite Z.eqb_refl. reflexivity. Qed.

  Lemma t_lock_entry v : tstep c TIdle (mkS S_lock_load dq v v 1) = Some (TW_lock_body (c_floor c) v).
  Proof. unfold tstep, lock_entry. fold dq. ev. reflexivity. Qed.
  Lemma t_lock_restart f0 old x v :
    f_dispatch_queue_drain_try_lock 0 0 1 (c_self c) f0 old 0 = Restart x ->
    tstep c (TW_lock_body f0 old) (mkS S_lock_load dq v v 1) = Some (TW_lock_body (f_dq_state_max_qos old) v).
  Proof. intros H. unfold tstep, lock_entry. fold dq. rewrite H. rewrite site_hit. reflexivity. Qed.
  Lemma t_lock_cas f0 old new owned :
    f_dispatch_queue_drain_try_lock 0 0 1 (c_self c) f0 old 0 = Commit new owned -> dirty_rule_lock owned new = true ->
    tstep c (TW_lock_body f0 old) (mkS S_lock_cas dq old new 1) = Some (if owned =? 0 then TIdle else TW_tail owned).
  Proof.
    intros H D. unfold tstep. fold dq. rewrite H. rewrite site_hit, D. cbn [eb ea eok mkS]. rewrite !Z.eqb_refl. reflexivity.
  Qed.
  Lemma t_tail_head o o' h : h <> 0 -> tail_step c o o' (mkS S_get_head dq h h 1) = Some (TW_first o h).
  Proof.
    intros H. unfold tail_step. fold dq. rewrite site_hit. cbn [ea mkS].
    destruct (Z.eqb_spec h 0); [contradiction|]. reflexivity.
  Qed.
  Lemma t_tail_unlock o o' v : tail_step c o o' (mkS S_unlock_load dq v v 1) = Some (TW_unlock_body o' v).
  Proof. unfold tail_step. fold dq. ev. reflexivity. Qed.
  Lemma t_first o h v : nz (f_dq_state_is_suspended v) = false ->
    tstep c (TW_first o h) (mkS S_drain_state dq v v 1) = Some (TW_pop o h).
  Proof. intros H. unfold tstep. fold dq. rewrite site_hit. cbn [ea mkS]. rewrite H. reflexivity. Qed.
  Lemma t_pop o h n : tstep c (TW_pop o h) (mkS S_pop_next h n n 1) = Some (TW_pop_store o h n).
  Proof. unfold tstep. rewrite site_hit. reflexivity. Qed.
  Lemma t_pop_store o h n :
    tstep c (TW_pop_store o h n) (mkS S_pop_head dq 0 n 1) = Some (if n =? 0 then TW_pop_cas o h else TW_run o h n).
  Proof. unfold tstep. fold dq. rewrite site_hit. cbn [eb mkS]. rewrite Z.eqb_refl. reflexivity. Qed.
  Lemma t_pop_cas o h : tstep c (TW_pop_cas o h) (mkS S_pop_cas dq h 0 1) = Some (TW_run o h 0).
  Proof. unfold tstep. fold dq. rewrite site_hit. cbn [eb ea eok mkS]. rewrite !Z.eqb_refl. reflexivity. Qed.
  Lemma t_run o h n : tstep c (TW_run o h n) (mkU DVU_CALLOUT_BEGIN h 0) = Some (TW_incall o h n).
  Proof. unfold tstep. ev. reflexivity. Qed.
  Lemma t_incall o h n :
    tstep c (TW_incall o h n) (mkU DVU_CALLOUT_END h 0) = Some (if n =? 0 then TW_again o else TW_first o n).
  Proof. unfold tstep. ev. reflexivity. Qed.
  Lemma t_unlock_cas o old new r :
    f_dispatch_queue_drain_try_unlock 0 o 1 old = Commit new r -> dirty_rule_unlock old = true ->
    tstep c (TW_unlock_body o old) (mkS S_unlock_cas dq old new 1) = Some TIdle.
  Proof.
    intros H D. unfold tstep. fold dq. rewrite H. rewrite site_hit, D. cbn [eb ea eok mkS]. rewrite !Z.eqb_refl. reflexivity.
  Qed.
  Lemma t_unlock_xor o old x y v :
    f_dispatch_queue_drain_try_unlock 0 o 1 old = NoCommit x y ->
    tstep c (TW_unlock_body o old) (mkS S_unlock_xor dq v DIRTY 1) = Some (TW_tail o).
  Proof. intros H. unfold tstep. fold dq. rewrite H. rewrite site_hit. reflexivity. Qed.

  (* state_obs of the observations used below *)
  Lemma so_other v e r : (eobj e =? dq) && (eoff e =? Z.of_nat F_dq_state) && (ek e <? 32) = false ->
    state_obs c v (e :: r) = state_obs c v r.
  Proof. intros H. cbn [state_obs]. fold dq. rewrite H. reflexivity. Qed.
  Lemma so_load s v r : s_kind s = KLoad -> s_field s = F_dq_state ->
    state_obs c v (mkS s dq v v 1 :: r) = state_obs c v r.
  Proof.
    intros K F. cbn [state_obs]. fold dq. unfold mkS. rewrite K, F. cbn [ek eobj eoff ea skind].
    rewrite !Z.eqb_refl. reflexivity.
  Qed.
  Lemma so_cas s v new r : s_kind s = KCasWeak -> s_field s = F_dq_state ->
    state_obs c v (mkS s dq v new 1 :: r) = state_obs c new r.
  Proof.
    intros K F. cbn [state_obs]. fold dq. unfold mkS. rewrite K, F. cbn [ek eobj eoff ea eb eok skind].
    rewrite !Z.eqb_refl. reflexivity.
  Qed.
  Lemma so_xor s v x r : s_kind s = KXor -> s_field s = F_dq_state ->
    state_obs c v (mkS s dq v x 1 :: r) = state_obs c (Z.lxor v x) r.
  Proof.
    intros K F. cbn [state_obs]. fold dq. unfold mkS. rewrite K, F. cbn [ek eobj eoff ea eb eok skind].
    rewrite !Z.eqb_refl. reflexivity.
  Qed.
  Lemma so_user v k a b r : 32 <= k -> state_obs c v (mkU k a b :: r) = state_obs c v r.
  Proof.
    intros H. apply so_other. unfold mkU. cbn [ek eobj eoff].
    destruct (Z.ltb_spec k 32); [lia|]. rewrite andb_false_r. reflexivity.
  Qed.
  (* a word of another field of the lane, or of another object *)
  Lemma so_field s obj a b ok v r : Z.of_nat (s_field s) <> Z.of_nat F_dq_state ->
    state_obs c v (mkS s obj a b ok :: r) = state_obs c v r.
  Proof.
    intros H. apply so_other. unfold mkS. cbn [ek eobj eoff].
    destruct (Z.eqb_spec (Z.of_nat (s_field s)) (Z.of_nat F_dq_state)); [contradiction|].
    rewrite andb_false_r. reflexivity.
  Qed.
End Sim.

Lemma Some_inj {A} (x y : A) : Some x = Some y -> x = y.
Proof. congruence. Qed.

Definition ret_of (o : rmw_outcome) : Z := match o with Commit _ r => r | NoCommit r _ => r | _ => 0 end.
Definition new_of (o : rmw_outcome) : Z := match o with Commit n _ => n | _ => 0 end.

(* what `begin` corresponds to: a submission starts with the harness mark; a worker that popped the lane is at the
   entry of try_lock (no observation of the lane yet), provided its QoS floor is the configured one *)
Theorem begin_tstep c s t cl s' :
  begin s t cl = Some s' -> (forall f, cl = CWorker f -> f = c_floor c) ->
  exists evs p', taccept c TIdle evs = Some p' /\ trel c (pcs s' t) p' /\ state_obs c (st s) evs = Some (st s').
Proof.
  intros B Hf. unfold begin in B. destruct (pcs s t); try discriminate. destruct cl as [q|f].
  - destruct ((0 <=? q) && (q <? 8)) eqn:Q; [|discriminate]. apply Some_inj in B. subst s'.
    apply andb_true_iff in Q. destruct Q as [Q1 Q2]. apply Z.leb_le in Q1. apply Z.ltb_lt in Q2.
    exists [mkU DVU_CALL q 0], (TA_init q). cbn [taccept]. rewrite t_call by lia.
    unfold set_pc; cbn [pcs st]. rewrite upd_same. repeat split; [constructor|].
    rewrite so_user by (unfold DVU_CALL; lia). reflexivity.
  - destruct (0 <? rootq s); [|discriminate]. apply Some_inj in B. subst s'.
    exists [], TIdle. cbn [taccept state_obs]. unfold set_token, set_pc, set_rootq; cbn [pcs st]. rewrite upd_same.
    rewrite (Hf f eq_refl). repeat split. constructor.
Qed.

Theorem gstep_tstep c s t s' p :
  Inv s -> c_self c = t -> gstep s t = Some s' -> trel c (pcs s t) p ->
  exists evs p', taccept c p evs = Some p' /\ trel c (pcs s' t) p' /\ state_obs c (st s) evs = Some (st s').
Proof.
  intros I Hself G R. pose (dq := c_dq c).
  assert (HO : forall o, owned_of (pcs s t) = Some o -> o = OWN) by (intros o; apply (owned_is_OWN s t o I)).
  assert (HS : nz (f_dq_state_is_suspended (st s)) = false).
  { destruct I as [[r Gr] _]. rewrite (g_enc _ _ Gr), is_suspended_f by (exact (g_wf _ _ Gr)). rewrite (g_hi _ _ Gr). reflexivity. }
  unfold gstep in G. inversion R as
    [ E1 | q E1 | i we q item prev Hwe E1 | q E1 | q tg E1 | E1 | q E1 | q E1 | E1 | f0 old x Hr E1 | o E1 | o E1 | o E1 | o h Hh E1
    | o i m h n Hm E1 | o i m h n Hm E1 | o n Hn E1 | o E1 | o E1 | o E1 | o old x y Hn E1 ];
    rewrite <- E1 in G; subst p.
  - (* Idle *) discriminate.
  - (* PA_xchg: item->do_next = NULL; prev = xchg(tail, item) *)
    apply Some_inj in G. subst s'.
    set (prev := match lst s with [] => 0 | _ => 1 end).
    exists [mkS S_push_init 1 0 0 1; mkS S_push_xchg dq prev 1 1], (TA_link q 1 prev).
    cbn [taccept]. rewrite t_init by lia. unfold dq. rewrite t_xchg.
    cbn [pcs st]. rewrite upd_same. split; [reflexivity|]. split.
    + constructor. unfold prev. destruct (lst s); reflexivity.
    + rewrite !so_field by (cbn; lia). reflexivity.
  - (* PA_link *)
    apply Some_inj in G. subst s'. unfold set_pc, set_lst; cbn [pcs st]. rewrite upd_same.
    destruct (Z.eqb_spec prev 0) as [->|Hp]; subst we.
    + exists [mkS S_push_link_head dq 0 item 1], (TA_probe q FL_PUSH).
      cbn [taccept]. unfold dq. rewrite t_link_head. repeat split; [constructor|].
      rewrite so_field by (cbn; lia). reflexivity.
    + exists [mkS S_push_link_next prev 0 item 1; mkU DVU_RET 0 0], TIdle.
      cbn [taccept]. rewrite t_link_next by exact Hp. rewrite t_ret by (right; eauto). repeat split; [constructor|].
      rewrite so_field by (cbn; lia). rewrite so_user by (unfold DVU_RET; lia). reflexivity.
  - (* PA_probe *)
    apply Some_inj in G. subst s'. destruct (lst s).
    + exists [mkS S_probe dq 0 0 1; mkU DVU_RET 0 0], TIdle.
      cbn [taccept]. unfold dq. rewrite t_probe. cbn [Z.eqb]. rewrite t_ret by (left; reflexivity).
      unfold set_wakers, set_pc; cbn [pcs st]. rewrite upd_same. repeat split; [constructor|].
      rewrite so_field by (cbn; lia). rewrite so_user by (unfold DVU_RET; lia). reflexivity.
    + exists [mkS S_probe dq 1 1 1], (TA_wake_load q FL_PUSH).
      cbn [taccept]. unfold dq. rewrite t_probe. cbn [Z.eqb].
      unfold set_pc; cbn [pcs st]. rewrite upd_same. repeat split; [constructor|].
      rewrite so_field by (cbn; lia). reflexivity.
  - (* PA_wake: the rmw loop *)
    destruct (wakeup_loop 0 q 3 1 (st s) ENQUEUED) as [new r| | |] eqn:W; try discriminate.
    pose proof (wake_commit_dirty s t q tg new r I (eq_sym E1) W) as WD.
    apply Some_inj in G.
    destruct (negb (Z.land (Z.lxor (st s) new) ENQUEUED =? 0)) eqn:Enq.
    + exists [mkS S_wake_load dq (st s) (st s) 1; mkS S_wake_cas dq (st s) new 1], TA_push_tq.
      cbn [taccept]. unfold dq. rewrite t_wake_load. rewrite (t_wake_cas c q FL_PUSH (st s) new r W WD). rewrite Enq.
      subst s'. unfold set_token, set_wakers, set_pc, set_st; cbn [pcs st]. rewrite upd_same.
      repeat split; [constructor|].
      rewrite so_load by reflexivity. rewrite so_cas by reflexivity. reflexivity.
    + exists [mkS S_wake_load dq (st s) (st s) 1; mkS S_wake_cas dq (st s) new 1; mkU DVU_RET 0 0], TIdle.
      cbn [taccept]. unfold dq. rewrite t_wake_load. rewrite (t_wake_cas c q FL_PUSH (st s) new r W WD). rewrite Enq.
      rewrite t_ret by (left; reflexivity).
      subst s'. unfold set_token, set_wakers, set_pc, set_st; cbn [pcs st]. rewrite upd_same.
      repeat split; [constructor|].
      rewrite so_load by reflexivity. rewrite so_cas by reflexivity. rewrite so_user by (unfold DVU_RET; lia). reflexivity.
  - (* PA_rootpush *)
    apply Some_inj in G. subst s'.
    exists [mkS S_wake_tq dq (c_rq c) (c_rq c) 1; mkS S_push_init dq 0 0 1; mkS S_push_xchg (c_rq c) 0 dq 1;
            mkS S_push_link_head (c_rq c) 0 dq 1; mkU DVU_RET 0 0], TIdle.
    cbn [taccept]. unfold dq. rewrite t_push_tq, t_push_init, t_push_xchg, t_push_link. rewrite t_ret by (left; reflexivity).
    unfold set_token, set_pc, set_rootq; cbn [pcs st]. rewrite upd_same. repeat split; [constructor|].
    rewrite !so_field by (cbn; lia). rewrite so_user by (unfold DVU_RET; lia). reflexivity.
  - (* PA_oprobe: the probe of the override wakeup *)
    apply Some_inj in G. subst s'. destruct (lst s).
    + exists [mkS S_probe dq 0 0 1; mkU DVU_RET 0 0], TIdle.
      cbn [taccept]. unfold dq. rewrite t_oprobe. cbn [Z.eqb]. rewrite t_ret by (left; reflexivity).
      unfold set_pc; cbn [pcs st]. rewrite upd_same. repeat split; [constructor|].
      rewrite so_field by (cbn; lia). rewrite so_user by (unfold DVU_RET; lia). reflexivity.
    + exists [mkS S_probe dq 1 1 1], (TA_wake_load q FL_CONSUME_2).
      cbn [taccept]. unfold dq. rewrite t_oprobe. cbn [Z.eqb].
      unfold set_pc; cbn [pcs st]. rewrite upd_same. repeat split; [constructor|].
      rewrite so_field by (cbn; lia). reflexivity.
  - (* PA_owake: the rmw loop without MAKE_DIRTY *)
    destruct (wakeup_loop 0 q 1 1 (st s) ENQUEUED) as [new r|x y| |] eqn:W; try discriminate.
    + apply Some_inj in G.
      assert (WD : dirty_rule_wake FL_CONSUME_2 new = true) by reflexivity.
      destruct (negb (Z.land (Z.lxor (st s) new) ENQUEUED =? 0)) eqn:Enq.
      * exists [mkS S_wake_load dq (st s) (st s) 1; mkS S_wake_cas dq (st s) new 1], TA_push_tq.
        cbn [taccept]. unfold dq. rewrite t_wake_load. rewrite (t_wake_cas c q FL_CONSUME_2 (st s) new r W WD). rewrite Enq.
        subst s'. unfold set_token, set_pc, set_st; cbn [pcs st]. rewrite upd_same.
        repeat split; [constructor|].
        rewrite so_load by reflexivity. rewrite so_cas by reflexivity. reflexivity.
      * exists [mkS S_wake_load dq (st s) (st s) 1; mkS S_wake_cas dq (st s) new 1; mkU DVU_RET 0 0], TIdle.
        cbn [taccept]. unfold dq. rewrite t_wake_load. rewrite (t_wake_cas c q FL_CONSUME_2 (st s) new r W WD). rewrite Enq.
        rewrite t_ret by (left; reflexivity).
        subst s'. unfold set_token, set_pc, set_st; cbn [pcs st]. rewrite upd_same.
        repeat split; [constructor|].
        rewrite so_load by reflexivity. rewrite so_cas by reflexivity. rewrite so_user by (unfold DVU_RET; lia). reflexivity.
    + apply Some_inj in G. subst s'.
      exists [mkS S_wake_load dq (st s) (st s) 1; mkU DVU_RET 0 0], TIdle.
      cbn [taccept]. unfold dq. rewrite t_wake_load. rewrite (t_wake_giveup c q FL_CONSUME_2 (st s) x y W).
      unfold set_pc; cbn [pcs st]. rewrite upd_same. repeat split; [constructor|].
      rewrite so_load by reflexivity. rewrite so_user by (unfold DVU_RET; lia). reflexivity.
  - (* PW_lock, first iteration *)
    rewrite <- Hself in G.
    destruct (f_dispatch_queue_drain_try_lock 0 0 1 (c_self c) (c_floor c) (st s) 0) as [new owned| |x|] eqn:L; try discriminate.
    + assert (LD : dirty_rule_lock owned new = true).
      { apply (lock_commit_clean s t (c_floor c) new owned I (eq_sym E1)). rewrite <- Hself. exact L. }
      apply Some_inj in G.
      exists [mkS S_lock_load dq (st s) (st s) 1; mkS S_lock_cas dq (st s) new 1], (if owned =? 0 then TIdle else TW_tail owned).
      cbn [taccept]. unfold dq. rewrite t_lock_entry. rewrite (t_lock_cas c _ _ _ _ L LD).
      split; [reflexivity|]. split.
      * subst s'. destruct (owned =? 0); unfold set_token, set_pc, set_st; cbn [pcs st]; rewrite Hself, upd_same; constructor.
      * rewrite so_load by reflexivity. rewrite so_cas by reflexivity.
        subst s'. destruct (owned =? 0); reflexivity.
    + apply Some_inj in G. subst s'.
      exists [mkS S_lock_load dq (st s) (st s) 1], (TW_lock_body (c_floor c) (st s)).
      cbn [taccept]. unfold dq. rewrite t_lock_entry. unfold set_pc; cbn [pcs st]. rewrite Hself, upd_same.
      repeat split; [econstructor; exact L|]. rewrite so_load by reflexivity. reflexivity.
  - (* PW_lock after a restart *)
    rewrite <- Hself in G.
    destruct (f_dispatch_queue_drain_try_lock 0 0 1 (c_self c) (f_dq_state_max_qos old) (st s) 0) as [new owned| |x'|] eqn:L;
      try discriminate.
    + assert (LD : dirty_rule_lock owned new = true).
      { apply (lock_commit_clean s t (f_dq_state_max_qos old) new owned I (eq_sym E1)). rewrite <- Hself. exact L. }
      apply Some_inj in G.
      exists [mkS S_lock_load dq (st s) (st s) 1; mkS S_lock_cas dq (st s) new 1], (if owned =? 0 then TIdle else TW_tail owned).
      cbn [taccept]. unfold dq. rewrite (t_lock_restart c _ _ _ _ Hr). rewrite (t_lock_cas c _ _ _ _ L LD).
      split; [reflexivity|]. split.
      * subst s'. destruct (owned =? 0); unfold set_token, set_pc, set_st; cbn [pcs st]; rewrite Hself, upd_same; constructor.
      * rewrite so_load by reflexivity. rewrite so_cas by reflexivity.
        subst s'. destruct (owned =? 0); reflexivity.
    + apply Some_inj in G. subst s'.
      exists [mkS S_lock_load dq (st s) (st s) 1], (TW_lock_body (f_dq_state_max_qos old) (st s)).
      cbn [taccept]. unfold dq. rewrite (t_lock_restart c _ _ _ _ Hr). unfold set_pc; cbn [pcs st]. rewrite Hself, upd_same.
      repeat split; [econstructor; exact L|]. rewrite so_load by reflexivity. reflexivity.
  - (* PW_tail: the plain read of dq_items_tail: nothing observed *)
    apply Some_inj in G. subst s'. exists [], (TW_tail o). cbn [taccept state_obs].
    unfold set_pc; cbn [pcs st]. rewrite upd_same. repeat split.
    assert (o = OWN) by (apply HO; rewrite <- E1; reflexivity). subst o.
    destruct (lst s); [rewrite OWN_unlock|]; constructor.
  - (* PW_head, on entry *)
    destruct (lst s) as [|e l]; [discriminate|]. destruct (e_linked e); [|discriminate]. apply Some_inj in G. subst s'.
    exists [mkS S_get_head dq 1 1 1], (TW_first o 1). cbn [taccept]. unfold tstep, dq. rewrite t_tail_head by lia.
    unfold set_pc; cbn [pcs st]. rewrite upd_same. repeat split; [constructor; lia|].
    rewrite so_field by (cbn; lia). reflexivity.
  - (* PW_head, after the last item *)
    destruct (lst s) as [|e l]; [discriminate|]. destruct (e_linked e); [|discriminate]. apply Some_inj in G. subst s'.
    exists [mkS S_get_head dq 1 1 1], (TW_first o 1). cbn [taccept]. unfold tstep, dq. rewrite t_tail_head by lia.
    unfold set_pc; cbn [pcs st]. rewrite upd_same. repeat split; [constructor; lia|].
    rewrite so_field by (cbn; lia). reflexivity.
  - (* PW_pop *)
    destruct (lst s) as [|e [|e2 l]]; [discriminate| |].
    + apply Some_inj in G. subst s'.
      exists [mkS S_drain_state dq (st s) (st s) 1; mkS S_pop_next h 0 0 1; mkS S_pop_head dq 0 0 1; mkS S_pop_cas dq h 0 1],
             (TW_run o h 0).
      cbn [taccept]. unfold dq. rewrite t_first by exact HS. rewrite t_pop, t_pop_store. cbn [Z.eqb]. rewrite t_pop_cas.
      unfold set_pc, set_lst; cbn [pcs st]. rewrite upd_same. repeat split; [constructor; reflexivity|].
      rewrite so_load by reflexivity. rewrite !so_field by (cbn; lia). reflexivity.
    + destruct (e_linked e2); [|discriminate]. apply Some_inj in G. subst s'.
      exists [mkS S_drain_state dq (st s) (st s) 1; mkS S_pop_next h 1 1 1; mkS S_pop_head dq 0 1 1], (TW_run o h 1).
      cbn [taccept]. unfold dq. rewrite t_first by exact HS. rewrite t_pop, t_pop_store. cbn [Z.eqb].
      unfold set_pc, set_lst; cbn [pcs st]. rewrite upd_same. repeat split; [constructor; reflexivity|].
      rewrite so_load by reflexivity. rewrite !so_field by (cbn; lia). reflexivity.
  - (* PW_run *)
    apply Some_inj in G. subst s'. exists [mkU DVU_CALLOUT_BEGIN h 0], (TW_incall o h n).
    cbn [taccept]. rewrite t_run. cbn [pcs st]. rewrite upd_same. repeat split; [constructor; exact Hm|].
    rewrite so_user by (unfold DVU_CALLOUT_BEGIN; lia). reflexivity.
  - (* PW_incall *)
    apply Some_inj in G. subst s'. exists [mkU DVU_CALLOUT_END h 0], (if n =? 0 then TW_again o else TW_first o n).
    cbn [taccept]. rewrite t_incall. cbn [pcs st]. rewrite upd_same. split; [reflexivity|]. split.
    + subst m. destruct (Z.eqb_spec n 0); cbn [negb]; constructor. exact n0.
    + rewrite so_user by (unfold DVU_CALLOUT_END; lia). reflexivity.
  - (* PW_next, next_dc known *)
    apply Some_inj in G. subst s'. exists [], (TW_first o n). cbn [taccept state_obs].
    unfold set_pc; cbn [pcs st]. rewrite upd_same. repeat split. constructor. exact Hn.
  - (* PW_next, next_dc = NULL: the plain read of dq_items_tail *)
    apply Some_inj in G. subst s'. exists [], (TW_again o). cbn [taccept state_obs].
    unfold set_pc; cbn [pcs st]. rewrite upd_same. repeat split.
    assert (o = OWN) by (apply HO; rewrite <- E1; reflexivity). subst o.
    destruct (lst s); [|constructor].
    change (Z.lor (Z.land OWN ENQUEUED) SERIAL_OWNED) with (after_loop_owned OWN). constructor.
  - (* PW_unlock reached from the entry of the drain *)
    destruct (f_dispatch_queue_drain_try_unlock 0 o 1 (st s)) as [new r|x y| |] eqn:U; try discriminate.
    + pose proof (unlock_commit_clean s t o new r I (eq_sym E1) U) as UD.
      apply Some_inj in G. subst s'.
      exists [mkS S_unlock_load dq (st s) (st s) 1; mkS S_unlock_cas dq (st s) new 1], TIdle.
      cbn [taccept]. unfold tstep at 1. unfold dq. rewrite t_tail_unlock. rewrite (t_unlock_cas c _ _ _ _ U UD).
      unfold set_token, set_pc, set_st; cbn [pcs st]. rewrite upd_same. repeat split; [constructor|].
      rewrite so_load by reflexivity. rewrite so_cas by reflexivity. reflexivity.
    + apply Some_inj in G. subst s'.
      exists [mkS S_unlock_load dq (st s) (st s) 1], (TW_unlock_body o (st s)).
      cbn [taccept]. unfold tstep, dq. rewrite t_tail_unlock.
      unfold set_pc; cbn [pcs st]. rewrite upd_same. repeat split; [econstructor; exact U|].
      rewrite so_load by reflexivity. reflexivity.
  - (* PW_unlock reached from the end of the loop *)
    destruct (f_dispatch_queue_drain_try_unlock 0 (after_loop_owned o) 1 (st s)) as [new r|x y| |] eqn:U; try discriminate.
    + pose proof (unlock_commit_clean s t (after_loop_owned o) new r I (eq_sym E1) U) as UD.
      apply Some_inj in G. subst s'.
      exists [mkS S_unlock_load dq (st s) (st s) 1; mkS S_unlock_cas dq (st s) new 1], TIdle.
      cbn [taccept]. unfold tstep at 1. unfold dq. rewrite t_tail_unlock. rewrite (t_unlock_cas c _ _ _ _ U UD).
      unfold set_token, set_pc, set_st; cbn [pcs st]. rewrite upd_same. repeat split; [constructor|].
      rewrite so_load by reflexivity. rewrite so_cas by reflexivity. reflexivity.
    + apply Some_inj in G. subst s'.
      exists [mkS S_unlock_load dq (st s) (st s) 1], (TW_unlock_body (after_loop_owned o) (st s)).
      cbn [taccept]. unfold tstep, dq. rewrite t_tail_unlock.
      unfold set_pc; cbn [pcs st]. rewrite upd_same. repeat split; [econstructor; exact U|].
      rewrite so_load by reflexivity. reflexivity.
  - (* PW_xor *)
    apply Some_inj in G. subst s'.
    exists [mkS S_unlock_xor dq (st s) DIRTY 1], (TW_tail o).
    cbn [taccept]. unfold dq. rewrite (t_unlock_xor c _ _ _ _ _ Hn).
    unfold set_pc, set_st; cbn [pcs st]. rewrite upd_same. repeat split; [constructor|].
    rewrite so_xor by reflexivity. reflexivity.
Qed.

(* the other continuation of a push onto a non-empty list: the link store, then the probe of the override wakeup *)
Theorem ostep_tstep c s t s' p :
  ostep s t = Some s' -> trel c (pcs s t) p ->
  exists evs p', taccept c p evs = Some p' /\ trel c (pcs s' t) p' /\ state_obs c (st s) evs = Some (st s').
Proof.
  intros G R. unfold ostep in G.
  destruct (pcs s t) as [| |i we q| | | | | | | | | | | | | |] eqn:E; try discriminate.
  destruct we; [discriminate|]. apply Some_inj in G. subst s'.
  inversion R as [ | | i' we' q' item prev Hwe | | | | | | | | | | | | | | | | | | ]. subst.
  destruct (Z.eqb_spec prev 0) as [->|Hp]; [discriminate|].
  exists [mkS S_push_link_next prev 0 item 1], (TA_linked q).
  cbn [taccept]. rewrite t_link_next by exact Hp.
  unfold set_pc, set_lst; cbn [pcs st]. rewrite upd_same. repeat split; [constructor|].
  rewrite so_field by (cbn; lia). reflexivity.
Qed.

(* lifted to runs: in every reachable state of the global model (workers entering with the configured QoS floor), the
   program point of a thread is matched by a point the automaton reaches from TIdle on some accepted observation sequence *)
Definition step_fl (fl : Z) (s : gst) (a : action) (s' : gst) : Prop :=
  step s a s' /\ match a with ABegin _ (CWorker f) => f = fl | _ => True end.
Definition reach_fl (fl rb : Z) : gst -> Prop := reachable (fun s => s = init_state rb) (step_fl fl).

Lemma reach_fl_reach fl rb s : reach_fl fl rb s -> reach rb s.
Proof.
  induction 1 as [s H|s a s' _ IH [H _]]; [apply reach_init; exact H | eapply reach_step; [exact IH | exact H]].
Qed.

Lemma taccept_app c p e1 e2 p1 : taccept c p e1 = Some p1 -> taccept c p (e1 ++ e2) = taccept c p1 e2.
Proof.
  revert p. induction e1 as [|e r IH]; intros p H; cbn [taccept app] in *.
  - apply Some_inj in H. subst. reflexivity.
  - destruct (tstep c p e); [apply IH; exact H | discriminate].
Qed.

Theorem reach_tstep c rb s :
  0 <= rb < 2 -> reach_fl (c_floor c) rb s ->
  exists evs p, taccept c TIdle evs = Some p /\ trel c (pcs s (c_self c)) p.
Proof.
  intros Hrb R. induction R as [s H|s a s' R IH [St Fl]].
  - subst s. exists [], TIdle. split; [reflexivity | constructor].
  - destruct IH as (evs & p & A & Tr).
    assert (I : Inv s) by (eapply Inv_reachable; [exact Hrb | eapply reach_fl_reach; exact R]).
    destruct a as [u cl|u|u]; destruct St as [Vu St].
    + destruct (Z.eq_dec u (c_self c)) as [->|N].
      * assert (p = TIdle).
        { unfold begin in St. destruct (pcs s (c_self c)) eqn:E; try discriminate. inversion Tr. reflexivity. }
        subst p.
        destruct (begin_tstep c s (c_self c) cl s' St) as (e2 & p' & A2 & Tr2 & _).
        { intros f ->. exact Fl. }
        exists (evs ++ e2), p'. rewrite (taccept_app _ _ _ _ _ A). split; assumption.
      * exists evs, p. split; [exact A|]. rewrite (SLane_progress.begin_frame s u cl s' (c_self c) St) by congruence. exact Tr.
    + destruct (Z.eq_dec u (c_self c)) as [->|N].
      * destruct (gstep_tstep c s (c_self c) s' p I eq_refl St Tr) as (e2 & p' & A2 & Tr2 & _).
        exists (evs ++ e2), p'. rewrite (taccept_app _ _ _ _ _ A). split; assumption.
      * exists evs, p. split; [exact A|]. rewrite (SLane_progress.gstep_frame s u s' (c_self c) St) by congruence. exact Tr.
    + destruct (Z.eq_dec u (c_self c)) as [->|N].
      * destruct (ostep_tstep c s (c_self c) s' p St Tr) as (e2 & p' & A2 & Tr2 & _).
        exists (evs ++ e2), p'. rewrite (taccept_app _ _ _ _ _ A). split; assumption.
      * exists evs, p. split; [exact A|]. rewrite (SLane_progress.ostep_frame s u s' (c_self c) St) by congruence. exact Tr.
Qed.

(* ================================================================== non-vacuity *)
(* (1) the hypotheses of gstep_tstep hold in the demo run of SLane_progress: worker 7 about to pop item 0 *)
Definition demo_c : cfg := {| c_self := 7; c_dq := 4096; c_rq := 8192; c_floor := 0 |}.
Lemma demo_sim :
  exists s s', run (init_state 1) (firstn 11 demo_acts) = Some s /\ reach 1 s /\ Inv s /\ gstep s 7 = Some s' /\
               trel demo_c (pcs s 7) (TW_first OWN 1) /\ pcs s' 7 = PW_run OWN 0 false.
Proof.
  destruct (run (init_state 1) (firstn 11 demo_acts)) as [s|] eqn:E; [|vm_compute in E; discriminate].
  assert (R : reach 1 s).
  { apply (run_reach 1 (firstn 11 demo_acts) (init_state 1) s); [apply reach_init; reflexivity | vm_compute; reflexivity | exact E]. }
  destruct (gstep s 7) as [s'|] eqn:G; [|vm_compute in E; injection E as <-; vm_compute in G; discriminate].
  exists s, s'. split; [reflexivity|]. split; [exact R|]. split; [apply (Inv_reachable 1); [lia | exact R]|].
  split; [exact G|].
  vm_compute in E. apply Some_inj in E. subst s. split.
  - cbn [pcs]. unfold upd. cbn. apply (R_pop demo_c OWN 1). lia.
  - vm_compute in G. apply Some_inj in G. subst s'. reflexivity.
Qed.

(* (2) two thread traces recorded from the library (harness/c02_slane.c, one submitter and the worker of a round of 7 items
   on a queue targeting the LOW global queue): the submitter pushes onto the empty list twice (wakeup sets ENQUEUED and the
   lane goes to the root queue / wakeup only sets DIRTY while the drainer holds the lock); the worker restarts try_lock for the
   QoS floor, pops, has its unlock refused by DIRTY (after a failed compare-exchange), xors, meets a lagging enqueuer in
   pop_head (failed tail reset, spin on do_next), unlocks.  Both are accepted and end idle; weakening the recorded release
   of the tail exchange to relaxed makes the automaton reject the trace at that event. *)
Definition evf (k o obj : Z) (f : nat) (a b ok : Z) : event := mkEv k o obj (Z.of_nat f) 8 a b ok.
Definition evu (k a b : Z) : event := mkEv k 0 0 0 0 a b 1.
(* round 14 kind 5 threads 1 items 7 *)
Definition ex_cfg_worker : cfg := {| c_self := 14534; c_dq := 94466094532000; c_rq := 94465737704960; c_floor := 0 |}.
Definition ex_trace_worker : list event := [
  evf 1 0 94466094532000 F_dq_state 9005663803932672 9005663803932672 1;
  evf 1 0 94466094532000 F_dq_state 9005663803932672 9005663803932672 1;
  evf 5 2 94466094532000 F_dq_state 9005663803932672 27021677221132486 1;
  evf 1 2 94466094532000 F_dq_items_head 140074587012224 140074587012224 1;
  evf 1 0 94466094532000 F_dq_state 27021677221132486 27021677221132486 1;
  evf 1 2 140074587012224 F_do_next 140074587012304 140074587012304 1;
  evf 2 0 94466094532000 F_dq_items_head 0 140074587012304 1;
  evu 102 140074587012224 0;
  evu 103 140074587012224 0;
  evf 1 0 94466094532000 F_dq_state 27021677221132486 27021677221132486 1;
  evf 1 2 140074587012304 F_do_next 140074587012384 140074587012384 1;
  evf 2 0 94466094532000 F_dq_items_head 0 140074587012384 1;
  evu 102 140074587012304 0;
  evu 103 140074587012304 0;
  evf 1 0 94466094532000 F_dq_state 27021677221132486 27021677221132486 1;
  evf 1 2 140074587012384 F_do_next 140074587012464 140074587012464 1;
  evf 2 0 94466094532000 F_dq_items_head 0 140074587012464 1;
  evu 102 140074587012384 0;
  evu 103 140074587012384 0;
  evf 1 0 94466094532000 F_dq_state 27021677221132486 27021677221132486 1;
  evf 1 2 140074587012464 F_do_next 140074587012544 140074587012544 1;
  evf 2 0 94466094532000 F_dq_items_head 0 140074587012544 1;
  evu 102 140074587012464 0;
  evu 103 140074587012464 0;
  evf 1 0 94466094532000 F_dq_state 27021677221132486 27021677221132486 1;
  evf 1 2 140074587012544 F_do_next 0 0 1;
  evf 2 0 94466094532000 F_dq_items_head 0 0 1;
  evf 4 3 94466094532000 F_dq_items_tail 140074587012544 0 1;
  evu 102 140074587012544 0;
  evu 103 140074587012544 0;
  evf 1 0 94466094532000 F_dq_state 27021677221132486 27021677221132486 1;
  evf 5 3 94466094532000 F_dq_state 27022226976946374 9005068950962176 0;
  evf 10 2 94466094532000 F_dq_state 27022226976946374 549755813888 1;
  evf 1 2 94466094532000 F_dq_items_head 140074587012624 140074587012624 1;
  evf 1 0 94466094532000 F_dq_state 27021677221132486 27021677221132486 1;
  evf 1 2 140074587012624 F_do_next 0 0 1;
  evf 2 0 94466094532000 F_dq_items_head 0 0 1;
  evf 4 3 94466094532000 F_dq_items_tail 140074587012704 0 0;
  evf 1 2 140074587012624 F_do_next 0 0 1;
  evf 1 0 140074587012624 F_do_next 0 0 1;
  evf 1 0 140074587012624 F_do_next 140074587012704 140074587012704 1;
  evf 2 0 94466094532000 F_dq_items_head 0 140074587012704 1;
  evu 102 140074587012624 0;
  evu 103 140074587012624 0;
  evf 1 0 94466094532000 F_dq_state 27021677221132486 27021677221132486 1;
  evf 1 2 140074587012704 F_do_next 0 0 1;
  evf 2 0 94466094532000 F_dq_items_head 0 0 1;
  evf 4 3 94466094532000 F_dq_items_tail 140074587012704 0 1;
  evu 102 140074587012704 0;
  evu 103 140074587012704 0;
  evf 1 0 94466094532000 F_dq_state 27021677221132486 27021677221132486 1;
  evf 5 3 94466094532000 F_dq_state 27021677221132486 9005068950962176 1].
Definition ex_cfg_submitter : cfg := {| c_self := 14555; c_dq := 94466094532000; c_rq := 94465737704960; c_floor := 0 |}.
Definition ex_trace_submitter : list event := [
  evu 100 2 0;
  evf 2 0 140074587012224 F_do_next 0 0 1;
  evf 3 3 94466094532000 F_dq_items_tail 0 140074587012224 1;
  evf 2 0 94466094532000 F_dq_items_head 0 140074587012224 1;
  evf 1 5 94466094532000 F_dq_items_tail 140074587012224 140074587012224 1;
  evf 1 0 94466094532000 F_dq_state 9005068950962176 9005068950962176 1;
  evf 5 3 94466094532000 F_dq_state 9005068950962176 9005663803932672 1;
  evf 1 0 94466094532000 F_do_targetq 94465737704960 94465737704960 1;
  evf 2 0 94466094532000 F_do_next 0 0 1;
  evf 3 3 94465737704960 F_dq_items_tail 0 94466094532000 1;
  evf 2 0 94465737704960 F_dq_items_head 0 94466094532000 1;
  evu 101 0 0;
  evu 100 2 0;
  evf 2 0 140074587012304 F_do_next 0 0 1;
  evf 3 3 94466094532000 F_dq_items_tail 140074587012224 140074587012304 1;
  evf 2 0 140074587012224 F_do_next 0 140074587012304 1;
  evu 101 0 0;
  evu 100 2 0;
  evf 2 0 140074587012384 F_do_next 0 0 1;
  evf 3 3 94466094532000 F_dq_items_tail 140074587012304 140074587012384 1;
  evf 2 0 140074587012304 F_do_next 0 140074587012384 1;
  evu 101 0 0;
  evu 100 2 0;
  evf 2 0 140074587012464 F_do_next 0 0 1;
  evf 3 3 94466094532000 F_dq_items_tail 140074587012384 140074587012464 1;
  evf 2 0 140074587012384 F_do_next 0 140074587012464 1;
  evu 101 0 0;
  evu 100 2 0;
  evf 2 0 140074587012544 F_do_next 0 0 1;
  evf 3 3 94466094532000 F_dq_items_tail 140074587012464 140074587012544 1;
  evf 2 0 140074587012464 F_do_next 0 140074587012544 1;
  evu 101 0 0;
  evu 100 2 0;
  evf 2 0 140074587012624 F_do_next 0 0 1;
  evf 3 3 94466094532000 F_dq_items_tail 0 140074587012624 1;
  evf 2 0 94466094532000 F_dq_items_head 0 140074587012624 1;
  evf 1 5 94466094532000 F_dq_items_tail 140074587012624 140074587012624 1;
  evf 1 0 94466094532000 F_dq_state 27021677221132486 27021677221132486 1;
  evf 5 3 94466094532000 F_dq_state 27021677221132486 27022226976946374 1;
  evu 101 0 0;
  evu 100 2 0;
  evf 2 0 140074587012704 F_do_next 0 0 1;
  evf 3 3 94466094532000 F_dq_items_tail 140074587012624 140074587012704 1;
  evf 2 0 140074587012624 F_do_next 0 140074587012704 1;
  evu 101 0 0].

Definition weaken_xchg (e : event) : event :=
  if (ek e =? DV_XCHG) then mkEv (ek e) MO_RELAXED (eobj e) (eoff e) (esz e) (ea e) (eb e) (eok e) else e.
Lemma demo_traces :
  firstn 2 (conform ex_cfg_submitter ex_trace_submitter) = [-1; 1] /\
  firstn 2 (conform ex_cfg_worker ex_trace_worker) = [-1; 1] /\
  firstn 2 (conform ex_cfg_submitter (map weaken_xchg ex_trace_submitter)) = [2; 0].
Proof. vm_compute. repeat split. Qed.
