(* CLane_proofs.v — the invariant of the concurrent-lane model holds in every reachable state: any number of threads,
   any interleaving, any width 2..DISPATCH_QUEUE_WIDTH_MAX. *)
From Coq Require Import ZArith Bool List Lia.
From Verif Require Import Word Bits Fields DqFields Conc Gen_consts Gen_dqstate Lane_fields CLane_fields CLane CLane_inv.
Import ListNotations.
Local Open Scope Z_scope.

(* reduce projections of updated states only (a plain cbn may start computing bit operations on big constants) *)
Ltac gcbn :=
  cbn [st lst rootq rq pcs woken grant lockh bmode dw holders tokh nextid kinds pushed popped started finished
       set_st set_lst set_rootq set_rq set_pcs set_woken set_grant set_lockh set_bmode set_dw set_holders set_tokh
       set_nextid set_kinds set_pushed set_popped set_started set_finished set_pc new_item push_item].
Tactic Notation "gcbn" "in" hyp(H) :=
  cbn [st lst rootq rq pcs woken grant lockh bmode dw holders tokh nextid kinds pushed popped started finished
       set_st set_lst set_rootq set_rq set_pcs set_woken set_grant set_lockh set_bmode set_dw set_holders set_tokh
       set_nextid set_kinds set_pushed set_popped set_started set_finished set_pc new_item push_item] in H.

(* ---- lists ---- *)
Lemma remove_z_length t l : In t l -> Z.of_nat (length (remove_z t l)) = Z.of_nat (length l) - 1.
Proof.
  induction l as [|x l IH]; cbn [remove_z In length]; [tauto|]. intros [->|H].
  - rewrite Z.eqb_refl. lia.
  - destruct (Z.eqb_spec x t); [lia|]. cbn [length]. rewrite !Nat2Z.inj_succ. rewrite IH by exact H. lia.
Qed.
Lemma remove_z_in_other t u l : u <> t -> (In u (remove_z t l) <-> In u l).
Proof.
  intros Ne. induction l as [|x l IH]; cbn [remove_z In]; [tauto|].
  destruct (Z.eqb_spec x t) as [->|]; cbn [In]; [|rewrite IH]; intuition congruence.
Qed.
Lemma remove_z_subset t u l : In u (remove_z t l) -> In u l.
Proof.
  induction l as [|x l IH]; cbn [remove_z In]; [tauto|].
  destruct (Z.eqb_spec x t) as [->|]; cbn [In]; intuition.
Qed.
Lemma remove_z_nodup t l : NoDup l -> NoDup (remove_z t l) /\ ~ In t (remove_z t l).
Proof.
  induction 1 as [|x l Hx Hl IH]; cbn [remove_z]; [split; [constructor|intros []]|].
  destruct (Z.eqb_spec x t) as [->|Ne]; [split; assumption|].
  destruct IH as [I1 I2]. split.
  - constructor; [|exact I1]. intros H. apply Hx. eapply remove_z_subset; eauto.
  - cbn [In]. intros [E|E]; [congruence|contradiction].
Qed.
Lemma mem_z_in t l : mem_z t l = true <-> In t l.
Proof.
  induction l as [|x l IH]; cbn [mem_z In]; [split; [discriminate|tauto]|].
  rewrite orb_true_iff, IH, Z.eqb_eq. tauto.
Qed.
Lemma is_nil_true {A} (l : list A) : is_nil l = true <-> l = [].
Proof. destruct l; cbn; split; congruence. Qed.

Lemma waiters_app l x : waiters (l ++ [x]) = waiters l ++ (if i_wt x =? 0 then [] else [i_wt x]).
Proof.
  unfold waiters. rewrite map_app, filter_app. cbn [map filter]. destruct (i_wt x =? 0); reflexivity.
Qed.
Lemma waiters_cons x l : waiters (x :: l) = if i_wt x =? 0 then waiters l else i_wt x :: waiters l.
Proof. unfold waiters. cbn [map filter]. destruct (i_wt x =? 0); reflexivity. Qed.
Lemma in_waiters u l : In u (waiters l) <-> exists x, In x l /\ i_wt x = u /\ u <> 0.
Proof.
  unfold waiters. rewrite filter_In, in_map_iff. split.
  - intros [(x & E & I) N]. exists x. destruct (Z.eqb_spec u 0); [discriminate|]. auto.
  - intros (x & I & E & N). split; [exists x; auto|]. destruct (Z.eqb_spec u 0); [contradiction|reflexivity].
Qed.

(* ---- words ---- *)
Lemma lor_enq_hi x : 0 <= x -> Z.lor ENQUEUED (x * 2199023255552) = ENQUEUED + x * 2199023255552.
Proof.
  intros Hx. change 2199023255552 with (2 ^ 41). apply lor_disjoint; [lia | unfold ENQUEUED; lia | exact Hx].
Qed.

Definition oprec (d b : Z) : dqf := mk 0 0 1 0 0 0 0 0 0 d b 0.
Lemma op_enc d b : 0 <= d <= 4096 -> 0 <= b <= 1 -> ENQUEUED + d * INTERVAL + IN_BARRIER * b = enc (oprec d b) /\ wfr (oprec d b).
Proof.
  intros Hd Hb. split.
  - rewrite enc_linear. unfold oprec, mk, ENQUEUED, INTERVAL, IN_BARRIER.
    cbn [f_owner f_tr f_enq f_mq f_ov f_role f_em f_d f_pb f_wq f_ib f_hi]. lia.
  - unfold oprec. wf_mk.
Qed.
Lemma op_enq_bits d b : 0 <= d <= 4096 -> 0 <= b <= 1 -> Z.land (ENQUEUED + d * INTERVAL + IN_BARRIER * b) ENQ_BITS = ENQUEUED.
Proof.
  intros Hd Hb. destruct (op_enc d b Hd Hb) as [-> Wf]. unfold ENQ_BITS. rewrite enc_vec. unfold oprec, mk.
  cbn [f_owner f_tr f_enq f_mq f_ov f_role f_em f_d f_pb f_wq f_ib f_hi].
  vec_land 277025390592. fsimp. rewrite vec_linear. reflexivity.
Qed.
Lemma op_in_barrier d b : 0 <= d <= 4096 -> 0 <= b <= 1 ->
  nz (f_dq_state_is_in_barrier (ENQUEUED + d * INTERVAL + IN_BARRIER * b)) = (b =? 1).
Proof. intros Hd Hb. destruct (op_enc d b Hd Hb) as [-> Wf]. rewrite is_in_barrier_f by exact Wf. reflexivity. Qed.
Lemma op_width d b : 0 <= d <= 4096 -> 0 <= b <= 1 -> Z.land (ENQUEUED + d * INTERVAL + IN_BARRIER * b) WIDTH_MASK = d * INTERVAL.
Proof.
  intros Hd Hb. destruct (op_enc d b Hd Hb) as [-> Wf]. unfold WIDTH_MASK. rewrite enc_vec. unfold oprec, mk.
  cbn [f_owner f_tr f_enq f_mq f_ov f_role f_em f_d f_pb f_wq f_ib f_hi].
  vec_land 18012199486226432. fsimp. rewrite vec_linear. unfold INTERVAL. lia.
Qed.

(* ---- the parts of the state the invariant reads ---- *)
Definition same1 (s s1 : gst) : Prop :=
  st s1 = st s /\ lst s1 = lst s /\ rootq s1 = rootq s /\ rq s1 = rq s /\ pcs s1 = pcs s /\ grant s1 = grant s /\
  lockh s1 = lockh s /\ bmode s1 = bmode s /\ dw s1 = dw s /\ holders s1 = holders s /\ tokh s1 = tokh s.

Lemma same1_pcinv W s s1 p : same1 s s1 -> pcinv W s p -> pcinv W s1 p.
Proof.
  intros (E1 & E2 & E3 & E4 & E5 & E6 & E7 & E8 & E9 & E10 & E11).
  unfold pcinv, opform, head_nb, head_bar, head_wt, U, pb, dirty. rewrite E1, E2, E4, E5, E6, E8, E9, E10. tauto.
Qed.

Lemma same1_inv W s s1 : same1 s s1 -> Inv W s -> Inv W s1.
Proof.
  intros S (HW & (r & G) & T). pose proof S as (E1 & E2 & E3 & E4 & E5 & E6 & E7 & E8 & E9 & E10 & E11).
  split; [exact HW|]. split.
  - exists r. destruct G. constructor; unfold U, head_bar in *; rewrite ?E1, ?E2, ?E3, ?E4, ?E5, ?E6, ?E7, ?E8, ?E9, ?E10, ?E11; assumption.
  - intros t. destruct (T t) as [T1 T2 T3 T4 T5 T6].
    constructor; rewrite ?E5, ?E6, ?E7, ?E8, ?E10, ?E11; [exact T1|exact T2|exact T3|exact T4|exact T5|].
    intros H. apply (same1_pcinv W s s1 _ S). auto.
Qed.

(* ---- frame: the threads that do not move ---- *)
Lemma others_ok W s s' t :
  (forall u, u <> t -> pcs s' u = pcs s u) ->
  (forall u, u <> t -> grant s' u = grant s u) ->
  (forall u, u <> t -> (In u (holders s') <-> In u (holders s))) ->
  (forall u, u <> t -> (lockh s' = Some u <-> lockh s = Some u)) ->
  (forall u, u <> t -> (tokh s' = Some u <-> tokh s = Some u)) ->
  (forall u, u <> t -> owns (pcs s u) = true -> pcinv W s (pcs s u) -> pcinv W s' (pcs s u)) ->
  (forall u, u <> t -> grant s u = GOwner -> bmode s' = bmode s) ->
  forall u, u <> t -> thread_inv W s u -> thread_inv W s' u.
Proof.
  intros Hp Hg Hh Hl Hk Hi Hb u Ne [T1 T2 T3 T4 T5 T6].
  constructor; rewrite ?(Hp u Ne), ?(Hg u Ne), ?(Hh u Ne), ?(Hl u Ne), ?(Hk u Ne); try assumption.
  - intros X. rewrite (Hb u Ne X). auto.
  - intros H. apply Hi; auto.
Qed.

(* what a step of a thread that does not own the lock may do to the owner's knowledge *)
Lemma pcinv_stable W s s' p :
  bmode s' = bmode s -> dw s' = dw s -> pb s' = pb s -> (U s' <= U s \/ U s' <= 4095) ->
  (dirty s' = 1 \/ (U s <= U s' /\ dirty s' = dirty s)) ->
  (lst s' = lst s \/ exists x, lst s' = lst s ++ [x]) ->
  (forall u, grant s u = GNone -> waitpc (pcs s u) = true -> grant s' u = GNone /\ waitpc (pcs s' u) = true) ->
  (forall u, In u (waiters (lst s')) -> In u (waiters (lst s)) \/ waitpc (pcs s u) = false) ->
  pcinv W s p -> pcinv W s' p.
Proof.
  intros Eb Ed Ep HU HD Hl Hg Hw.
  assert (Hnb : head_nb s -> head_nb s').
  { unfold head_nb. destruct Hl as [->|(x & ->)]; [tauto|]. destruct (lst s); cbn; tauto. }
  assert (Hbar : head_bar s -> head_bar s').
  { unfold head_bar. destruct Hl as [->|(x & ->)]; [tauto|]. destruct (lst s); cbn; tauto. }
  assert (Hwt : head_wt s -> head_wt s').
  { unfold head_wt. destruct Hl as [->|(x & ->)]; [tauto|]. destruct (lst s); cbn; tauto. }
  destruct p; cbn [pcinv]; unfold opform; rewrite ?Eb, ?Ed, ?Ep; try tauto.
  - (* DBW_xfer *)
    intros (H1 & H2 & H3 & H4 & H5 & H6). destruct (Hg u H4 H5) as [G1 G2].
    split; [exact H1|]. split; [exact H2|]. split; [exact H3|]. split; [exact G1|]. split; [exact G2|].
    intros Hin. destruct (Hw u Hin) as [X|X]; [contradiction|congruence].
  - (* DN_add *) intros (H1 & H2 & H3 & H4 & H5 & H6). repeat split; auto. lia.
  - (* W_addw *) intros (H0 & H1 & H2 & H3 & H4 & H5 & H6). repeat split; auto. lia.
  - (* W_unlock *) intros (H1 & H2). split; [exact H1|]. intros P. specialize (H2 P).
    destruct HD as [D1|(D1 & D2)]; [right; exact D1|]. destruct H2 as [H2|H2]; [left; lia | right; congruence].
Qed.

(* moving one thread between program points without touching anything else *)
Lemma pcinv_setpc W s t p' q :
  (waitpc (pcs s t) = true -> waitpc p' = true) -> pcinv W s q -> pcinv W (set_pc s t p') q.
Proof.
  intros Hw. destruct q; cbn [pcinv]; unfold opform, head_nb, head_bar, head_wt, U, pb, dirty; gcbn; try tauto.
  intros (H1 & H2 & H3 & H4 & H5 & H6). repeat (split; [assumption|]). split; [|exact H6].
  unfold upd. destruct (Z.eqb_spec u t) as [->|]; auto.
Qed.

Lemma pc_only W s t p' : Inv W s ->
  holds p' = holds (pcs s t) -> owns p' = owns (pcs s t) -> toks p' = toks (pcs s t) ->
  (waitpc (pcs s t) = true -> waitpc p' = true) ->
  (owns p' = true -> pcinv W s p') ->
  Inv W (set_pc s t p').
Proof.
  intros (HW & (r & G) & T) Eh Eo Ek Hw Hpc. split; [exact HW|]. split.
  - exists r. pose proof (g_wt _ _ _ G) as Gwt. destruct G. constructor; gcbn; try assumption.
    intros x Hx Nx. destruct (Gwt x Hx Nx) as (V & Gn & Wp). split; [exact V|]. split; [exact Gn|].
    unfold upd. destruct (Z.eqb_spec (i_wt x) t) as [E|]; [rewrite E in Wp; auto | exact Wp].
  - intros u. destruct (Z.eq_dec u t) as [->|Ne].
    + destruct (T t) as [T1 T2 T3 T4 T5 T6]. constructor; gcbn; rewrite ?upd_same.
      * rewrite Eh. exact T1.
      * rewrite Eo. exact T2.
      * rewrite Ek. exact T3.
      * intros H. auto.
      * rewrite Eo. exact T5.
      * intros H. apply pcinv_setpc; auto.
    + apply (others_ok W s (set_pc s t p') t); gcbn.
      * intros v Nv. apply upd_other; exact Nv.
      * reflexivity.
      * reflexivity.
      * reflexivity.
      * reflexivity.
      * intros v Nv _ Hv. apply pcinv_setpc; auto.
      * reflexivity.
      * exact Ne.
      * apply T.
Qed.

(* ---- the initial state ---- *)
Lemma Inv_init W : 2 <= W <= 4094 -> Inv W (init_state W).
Proof.
  intros HW. split; [exact HW|]. split.
  - exists (mk 0 0 0 0 0 1 0 0 0 (4096 - W) 0 0). unfold init_state.
    constructor; unfold U, head_bar; gcbn; cbn [mk f_owner f_tr f_enq f_mq f_ov f_role f_em f_d f_pb f_wq f_ib f_hi length];
      try reflexivity; try (intros; discriminate); try (intros; contradiction); try lia.
    + rewrite enc_linear. unfold INTERVAL, ROLE_BASE_ANON, mk.
      cbn [f_owner f_tr f_enq f_mq f_ov f_role f_em f_d f_pb f_wq f_ib f_hi]. lia.
    + wf_mk.
    + constructor.
    + constructor.
  - intros t. constructor; unfold init_state; gcbn; cbn [holds owns toks waitpc In].
    + split; [intros []|intros [?|?]; discriminate].
    + split; [discriminate|intros [?|?]; discriminate].
    + split; discriminate.
    + intros H. exfalso. apply H. reflexivity.
    + discriminate.
    + discriminate.
Qed.

(* ---- facts read off the invariant ---- *)
Lemma pb_of W s r : ginv W s r -> pb s = f_pb r.
Proof. intros G. unfold pb. rewrite (g_enc _ _ _ G). rewrite dec_enc by (apply (g_wf _ _ _ G)). reflexivity. Qed.

Lemma U_nonneg s : 0 <= U s.
Proof. unfold U. lia. Qed.

Lemma owner_pc W s t : Inv W s -> owns (pcs s t) = true -> lockh s = Some t /\ pcinv W s (pcs s t).
Proof. intros (_ & _ & T) H. destruct (T t) as [_ T2 _ _ _ T6]. split; [apply T2; auto | auto]. Qed.

Ltac inv_pc HI t Hpc :=
  let Ho := fresh "Ho" in let Hi := fresh "Hi" in
  destruct (owner_pc _ _ t HI) as [Ho Hi]; [rewrite Hpc; reflexivity|]; rewrite Hpc in Hi; cbn [pcinv] in Hi.

(* apply pc_only: the classification side conditions are decided by computation, the owner's knowledge is left *)
Ltac pc_only_tac HI Hpc :=
  apply pc_only;
  [ exact HI
  | rewrite Hpc; reflexivity
  | rewrite Hpc; reflexivity
  | rewrite Hpc; reflexivity
  | rewrite Hpc; cbn [waitpc ret_waits after]; try (intros X; exact X); try discriminate; auto
  | try (intros X; discriminate X); intros _; cbn [pcinv] ].

(* ---- steps that only move the program point ---- *)
Lemma step_S_tail W s t : Inv W s -> pcs s t = S_tail -> forall tl, Inv W (set_pc s t (S_rsv tl)).
Proof. intros HI Hpc tl. pc_only_tac HI Hpc. Qed.

Lemma step_B_tail W s t p' : Inv W s -> pcs s t = B_tail -> (p' = B_acq \/ p' = SW_xchg true) -> Inv W (set_pc s t p').
Proof. intros HI Hpc [->| ->]; pc_only_tac HI Hpc. Qed.

Lemma step_A_tail W s t b q ovr p' : Inv W s -> pcs s t = A_tail b q ovr ->
  (p' = A_acq q ovr \/ p' = A_xchg b q ovr) -> Inv W (set_pc s t p').
Proof. intros HI Hpc [->| ->]; pc_only_tac HI Hpc. Qed.

Lemma step_A_probe W s t q fl p' : Inv W s -> pcs s t = A_probe q fl ->
  (p' = Idle \/ p' = A_wake q fl) -> Inv W (set_pc s t p').
Proof. intros HI Hpc [->| ->]; pc_only_tac HI Hpc. Qed.

Lemma step_BC_tail W s t k : Inv W s -> pcs s t = BC_tail k ->
  Inv W (set_pc s t (match lst s with
                     | [] => BC_class k 0
                     | x :: _ => if i_bar x then (if i_wt x =? 0 then BC_class k ENQUEUED else DBW_pop k 0) else DN_and k
                     end)).
Proof.
  intros HI Hpc. inv_pc HI t Hpc.
  destruct (lst s) as [|x l] eqn:Hl.
  - pc_only_tac HI Hpc. auto.
  - destruct (i_bar x) eqn:Eb.
    + destruct (Z.eqb_spec (i_wt x) 0) as [Ew|Ew].
      * pc_only_tac HI Hpc. auto.
      * pc_only_tac HI Hpc. unfold head_bar, head_wt. rewrite Hl. auto.
    + pc_only_tac HI Hpc. unfold head_nb. rewrite Hl. auto.
Qed.

Lemma room_bound W s r : 2 <= W <= 4094 -> ginv W s r -> nz (f_dq_state_has_sync_width_room (st s) W) = true ->
  bmode s = false /\ U s + dw s + (W - 1) * f_pb r <= 4094.
Proof.
  intros HW G H. rewrite (g_enc _ _ _ G) in H. rewrite has_room_f in H by (apply (g_wf _ _ _ G) || lia).
  apply andb_true_iff in H as [H H3]. apply andb_true_iff in H as [H1 H2].
  apply Z.eqb_eq in H2. apply Z.ltb_lt in H3. rewrite (g_wq _ _ _ G) in H3. rewrite (g_ib _ _ _ G) in H2.
  split; [destruct (bmode s); [discriminate|reflexivity] | lia].
Qed.

Lemma step_DN_loop W s t k ow x l : Inv W s -> pcs s t = DN_loop k ow -> lst s = x :: l ->
  Inv W (set_pc s t (if 0 <? ow then DN_pop k (ow - 1)
                     else if negb (i_wt x =? 0)
                          then (if nz (f_dq_state_has_sync_width_room (st s) W) then DN_add k else DN_fin k 0 1)
                          else DN_acq k)).
Proof.
  intros HI Hpc Hl. inv_pc HI t Hpc. destruct Hi as (B & D & O & P & N).
  pose proof HI as (HW & (r & G) & T).
  destruct (Z.ltb_spec 0 ow).
  - pc_only_tac HI Hpc. repeat split; auto; lia.
  - assert (E0 : ow = 0) by lia. rewrite E0 in *. clear E0.
    destruct (Z.eqb_spec (i_wt x) 0) as [E|E]; cbn [negb].
    + pc_only_tac HI Hpc. repeat split; auto.
    + destruct (nz (f_dq_state_has_sync_width_room (st s) W)) eqn:R.
      * pc_only_tac HI Hpc.
        destruct (room_bound W s r HW G R) as [_ Bd]. pose proof (U_nonneg s).
        assert (0 <= (W - 1) * f_pb r) by (pose proof (g_wf _ _ _ G) as Wf; unfold wfr in Wf; nia).
        split; [exact B|]. split; [exact D|]. split; [exact P|]. split; [exact N|].
        split; [unfold head_wt; rewrite Hl; exact E | lia].
      * pc_only_tac HI Hpc. split; [exact B|]. split; [exact D|]. split; [lia|]. split; [exact P|].
        split; [auto|]. split; [intros _; exact N | intros X; discriminate X].
Qed.

Lemma opform_facts W s op : opform W s op ->
  Z.land op ENQ_BITS = ENQUEUED /\
  ((bmode s = true /\ nz (f_dq_state_is_in_barrier op) = true) \/
   (bmode s = false /\ nz (f_dq_state_is_in_barrier op) = false /\ Z.land op WIDTH_MASK = dw s * INTERVAL /\
    (pb s = 1 -> dw s = 0))).
Proof.
  intros (d & b & -> & Hd & [(Hb & Bm & Dd)|(Hb & Bm & Dd & P)]); subst b.
  - split; [apply op_enq_bits; lia|]. left. split; [exact Bm|]. rewrite op_in_barrier by lia. reflexivity.
  - split; [apply op_enq_bits; lia|]. right. split; [exact Bm|]. split; [rewrite op_in_barrier by lia; reflexivity|].
    split; [rewrite op_width by lia; subst d; reflexivity | exact P].
Qed.

Lemma pb_nil W s r : ginv W s r -> lst s = [] -> pb s = 0.
Proof.
  intros G Hn. rewrite (pb_of W s r G). pose proof (g_wf _ _ _ G) as Wf. unfold wfr in Wf.
  destruct (Z.eq_dec (f_pb r) 1) as [E|E]; [|lia]. apply (g_pbh _ _ _ G) in E.
  unfold head_bar in E. rewrite Hn in E. contradiction.
Qed.

Lemma step_W_tail W s t op : Inv W s -> pcs s t = W_tail op ->
  Inv W (set_pc s t (if is_nil (lst s) then W_unlock op 1
                     else W_head op (if nz (f_dq_state_is_in_barrier op) then IN_BARRIER else Z.land op WIDTH_MASK))).
Proof.
  intros HI Hpc. inv_pc HI t Hpc. pose proof HI as (HW & (r & G) & T).
  destruct (is_nil (lst s)) eqn:Nl.
  - apply is_nil_true in Nl. pc_only_tac HI Hpc. split; [exact Hi|]. intros X. rewrite (pb_nil W s r G Nl) in X. discriminate X.
  - pc_only_tac HI Hpc.
    destruct (opform_facts W s op Hi) as [E [[Bm Ib]|(Bm & Ib & Wd & P)]]; rewrite Ib; split; auto.
Qed.

Lemma dw_range W s r : ginv W s r -> 0 <= dw s <= 4096.
Proof. intros G. pose proof (g_dw _ _ _ G) as [D _]. pose proof (g_bound _ _ _ G). pose proof (U_nonneg s). lia. Qed.

Lemma pb_head W s r : ginv W s r -> head_nb s -> pb s = 0.
Proof.
  intros G Hn. rewrite (pb_of W s r G). pose proof (g_wf _ _ _ G) as Wf. unfold wfr in Wf.
  destruct (Z.eq_dec (f_pb r) 1) as [E|E]; [|lia]. apply (g_pbh _ _ _ G) in E.
  unfold head_nb, head_bar in *. destruct (lst s); [contradiction|congruence].
Qed.

Lemma step_W_head W s t op owned x l : Inv W s -> pcs s t = W_head op owned -> lst s = x :: l ->
  Inv W (set_pc s t
    (if i_bar x then
       if negb (owned =? IN_BARRIER) then W_upg op owned
       else if negb (i_wt x =? 0) then DBW_pop RIdle (Z.land op ENQ_BITS)
       else W_popb op
     else
       if (owned =? 0) && negb (i_wt x =? 0) && negb (nz (f_dq_state_has_sync_width_room (st s) W))
       then W_unlock (Z.land op ENQ_BITS) 0
       else if owned =? IN_BARRIER then W_xorib op
       else if owned =? 0 then (if negb (i_wt x =? 0) then W_addw op else W_acq op)
       else W_popn op owned)).
Proof.
  intros HI Hpc Hl. inv_pc HI t Hpc. destruct Hi as (E & D).
  pose proof HI as (HW & (r & G) & T). pose proof (dw_range W s r G) as Dr.
  assert (NB : forall d, 0 <= d <= 4096 -> d * INTERVAL <> IN_BARRIER) by (unfold INTERVAL, IN_BARRIER; intros; lia).
  destruct (i_bar x) eqn:Eb.
  - assert (Hb : head_bar s) by (unfold head_bar; rewrite Hl; exact Eb).
    destruct (Z.eqb_spec owned IN_BARRIER) as [Eo|Eo]; cbn [negb].
    + assert (Bm : bmode s = true).
      { destruct D as [[Bm _]|(Bm & Ow & _)]; [exact Bm|]. exfalso. apply (NB (dw s) Dr). congruence. }
      destruct (Z.eqb_spec (i_wt x) 0) as [Ew|Ew]; cbn [negb].
      * pc_only_tac HI Hpc. auto.
      * apply pc_only;
          [ exact HI | rewrite Hpc; reflexivity | rewrite Hpc; reflexivity
          | rewrite Hpc, E; reflexivity | rewrite Hpc; intros X; discriminate X | intros _; cbn [pcinv] ].
        rewrite E. split; [exact Bm|]. split; [auto|]. split; [exact Hb|]. unfold head_wt. rewrite Hl. exact Ew.
    + pc_only_tac HI Hpc.
      destruct D as [[_ Ow]|(Bm & Ow & P)]; [contradiction|]. auto.
  - assert (Hn : head_nb s) by (unfold head_nb; rewrite Hl; exact Eb).
    pose proof (pb_head W s r G Hn) as P0.
    destruct ((owned =? 0) && negb (i_wt x =? 0) && negb (nz (f_dq_state_has_sync_width_room (st s) W))) eqn:C.
    + apply andb_true_iff in C as [C _]. apply andb_true_iff in C as [C _]. apply Z.eqb_eq in C. subst owned.
      pc_only_tac HI Hpc. rewrite E. split; [|intros X; rewrite P0 in X; discriminate X].
      destruct D as [[_ Ow]|(Bm & Ow & P)]; [unfold IN_BARRIER in Ow; discriminate|].
      exists 0, 0. split; [unfold ENQUEUED, INTERVAL, IN_BARRIER; lia|]. split; [lia|]. right.
      assert (dw s = 0) by (unfold INTERVAL in Ow; lia). auto.
    + destruct (Z.eqb_spec owned IN_BARRIER) as [Eo|Eo].
      * pc_only_tac HI Hpc.
        destruct D as [[Bm _]|(Bm & Ow & _)]; [auto|]. exfalso. apply (NB (dw s) Dr). congruence.
      * destruct D as [[_ Ow]|(Bm & Ow & P)]; [contradiction|].
        destruct (Z.eqb_spec owned 0) as [E0|E0].
        -- assert (D0 : dw s = 0) by (unfold INTERVAL in Ow; lia).
           destruct (Z.eqb_spec (i_wt x) 0) as [Ew|Ew]; cbn [negb].
           ++ pc_only_tac HI Hpc. auto.
           ++ cbn [negb andb] in C. apply negb_false_iff in C.
              destruct (room_bound W s r HW G C) as [_ Bd]. pose proof (U_nonneg s).
              assert (0 <= (W - 1) * f_pb r) by (pose proof (g_wf _ _ _ G) as Wf; unfold wfr in Wf; nia).
              pc_only_tac HI Hpc. split; [exact E|]. split; [exact Bm|]. split; [exact D0|]. split; [exact P0|].
              split; [exact Hn|]. split; [unfold head_wt; rewrite Hl; exact Ew | lia].
        -- pc_only_tac HI Hpc. split; [exact E|]. split; [exact Bm|]. split; [exact Ow|].
           split; [unfold INTERVAL in *; lia | auto].
Qed.

Lemma step_W_next W s t op owned : Inv W s -> pcs s t = W_next op owned ->
  Inv W (set_pc s t (if is_nil (lst s)
                     then W_unlock (Z.lor (Z.land op ENQ_BITS)
                                          (if owned =? IN_BARRIER then u64 (owned + u64 (W * INTERVAL)) else owned)) 1
                     else W_head op owned)).
Proof.
  intros HI Hpc. inv_pc HI t Hpc. destruct Hi as (E & D).
  pose proof HI as (HW & (r & G) & T). pose proof (dw_range W s r G) as Dr.
  destruct (is_nil (lst s)) eqn:Nl.
  - apply is_nil_true in Nl. pc_only_tac HI Hpc. rewrite E. split; [|intros X; rewrite (pb_nil W s r G Nl) in X; discriminate X].
    destruct D as [[Bm Ow]|(Bm & Ow & P)].
    + subst owned. rewrite Z.eqb_refl. rewrite (u64_id'' (W * INTERVAL)) by (unfold INTERVAL; lia).
      rewrite u64_id'' by (unfold IN_BARRIER, INTERVAL; lia).
      exists W, 1. split.
      * replace (IN_BARRIER + W * INTERVAL) with ((8192 + W) * 2199023255552) by (unfold IN_BARRIER, INTERVAL; lia).
        rewrite lor_enq_hi by lia. unfold IN_BARRIER, INTERVAL. lia.
      * split; [lia|]. left. auto.
    + destruct (Z.eqb_spec owned IN_BARRIER) as [Eo|Eo]; [exfalso; unfold IN_BARRIER, INTERVAL in *; lia|].
      exists (dw s), 0. split.
      * subst owned. unfold INTERVAL. rewrite lor_enq_hi by lia. unfold IN_BARRIER. lia.
      * split; [lia|]. right. auto.
  - pc_only_tac HI Hpc. auto.
Qed.

(* ---- callouts and wake-ups: only the history / the thread events change ---- *)
Lemma step_log W s s1 t p' : Inv W s -> same1 s s1 ->
  holds p' = holds (pcs s t) -> owns p' = owns (pcs s t) -> toks p' = toks (pcs s t) ->
  (waitpc (pcs s t) = true -> waitpc p' = true) ->
  (owns p' = true -> pcinv W s p') ->
  Inv W (set_pc s1 t p').
Proof.
  intros HI S Eh Eo Ek Hw Hp. pose proof S as (E1 & E2 & E3 & E4 & E5 & E6 & E7 & E8 & E9 & E10 & E11).
  apply pc_only; rewrite ?E5; auto.
  - apply (same1_inv W s s1 S HI).
  - intros H. apply (same1_pcinv W s s1 _ S). auto.
Qed.

Ltac same1_tac := unfold same1; gcbn; repeat split; reflexivity.
Ltac step_log_tac HI Hpc :=
  eapply step_log;
  [ exact HI
  | same1_tac
  | rewrite Hpc; reflexivity
  | rewrite Hpc; reflexivity
  | rewrite Hpc; reflexivity
  | rewrite Hpc; cbn [waitpc ret_waits after dn_cont]; try (intros X; exact X); try discriminate; auto
  | try (intros X; discriminate X); intros _; cbn [pcinv] ].

Lemma step_callouts W s t s' : Inv W s ->
  (exists i, pcs s t = R_call i /\ s' = set_pc (set_started s (i :: started s)) t (R_incall i)) \/
  (exists i, pcs s t = R_incall i /\ s' = set_pc (set_finished s (i :: finished s)) t NBC) \/
  (exists i, pcs s t = B_call i /\ s' = set_pc (set_started s (i :: started s)) t (B_incall i)) \/
  (exists i, pcs s t = B_incall i /\ s' = set_pc (set_finished s (i :: finished s)) t (BC_tail RIdle)) \/
  (exists op i, pcs s t = W_call op i /\ s' = set_pc (set_started s (i :: started s)) t (W_incall op i)) \/
  (exists op i, pcs s t = W_incall op i /\ s' = set_pc (set_finished s (i :: finished s)) t (W_next op IN_BARRIER)) ->
  Inv W s'.
Proof.
  intros HI [(i & Hpc & ->)|[(i & Hpc & ->)|[(i & Hpc & ->)|[(i & Hpc & ->)|[(op & i & Hpc & ->)|(op & i & Hpc & ->)]]]]].
  - step_log_tac HI Hpc.
  - step_log_tac HI Hpc.
  - inv_pc HI t Hpc. step_log_tac HI Hpc. exact Hi.
  - inv_pc HI t Hpc. step_log_tac HI Hpc. exact Hi.
  - inv_pc HI t Hpc. step_log_tac HI Hpc. exact Hi.
  - inv_pc HI t Hpc. step_log_tac HI Hpc. destruct Hi. auto.
Qed.

Lemma step_wakes W s t s' : Inv W s ->
  (exists k u, pcs s t = DBW_wake k u /\ s' = set_pc (set_woken s (upd (woken s) u true)) t (after k)) \/
  (exists k ow u nx, pcs s t = DN_wake k ow u nx /\ s' = set_pc (set_woken s (upd (woken s) u true)) t (dn_cont k ow nx)) \/
  (exists op owned u, pcs s t = W_wake op owned u /\ s' = set_pc (set_woken s (upd (woken s) u true)) t (W_next op owned)) ->
  Inv W s'.
Proof.
  intros HI [(k & u & Hpc & ->)|[(k & ow & u & nx & Hpc & ->)|(op & owned & u & Hpc & ->)]].
  - destruct k; step_log_tac HI Hpc.
  - inv_pc HI t Hpc. destruct Hi as (B & D & O & P & N & N1 & N2).
    unfold dn_cont. destruct (Z.eqb_spec nx 1).
    + step_log_tac HI Hpc. repeat split; auto.
    + step_log_tac HI Hpc. repeat split; auto.
  - inv_pc HI t Hpc. destruct Hi as (E & B & O & P).
    step_log_tac HI Hpc. split; [exact E|]. right. repeat split; auto. intros X. rewrite P in X. discriminate.
Qed.

(* ---- a thread u that does not move, when thread t makes a step ---- *)
Lemma not_waiting_grant W s t : thread_inv W s t -> waitpc (pcs s t) = false -> grant s t = GNone.
Proof.
  intros [_ _ _ T4 _ _] H. destruct (grant s t) eqn:E; auto; exfalso;
    assert (X : waitpc (pcs s t) = true) by (apply T4; discriminate); congruence.
Qed.

Definition stable_for_owner (s s' : gst) (t : Z) : Prop :=
  bmode s' = bmode s /\ dw s' = dw s /\ pb s' = pb s /\ (U s' <= U s \/ U s' <= 4095) /\
  (lst s' = lst s \/ exists x, lst s' = lst s ++ [x] /\ (i_wt x = 0 \/ i_wt x = t)) /\
  (forall v, v <> t -> pcs s' v = pcs s v /\ grant s' v = grant s v) /\
  (grant s t = GNone -> waitpc (pcs s t) = true -> grant s' t = GNone /\ waitpc (pcs s' t) = true) /\
  (In t (waiters (lst s')) -> In t (waiters (lst s)) \/ waitpc (pcs s t) = false) /\
  (dirty s' = 1 \/ (U s <= U s' /\ dirty s' = dirty s)).

Lemma other_thread W s s' t u :
  u <> t -> (forall v, thread_inv W s v) ->
  pcs s' u = pcs s u -> grant s' u = grant s u ->
  (In u (holders s') <-> In u (holders s)) ->
  (lockh s' = Some u <-> lockh s = Some u) ->
  (tokh s' = Some u <-> tokh s = Some u) ->
  (forall v, lockh s = Some v -> v <> t -> stable_for_owner s s' t) ->
  thread_inv W s' u.
Proof.
  intros Ne T Hp Hg Hh Hl Hk Hst. destruct (T u) as [T1 T2 T3 T4 T5 T6].
  constructor; rewrite ?Hp, ?Hg, ?Hh, ?Hl, ?Hk; try assumption.
  { intros X. assert (Lu : lockh s = Some u) by (apply T2; auto).
    destruct (Hst u Lu Ne) as (Eb & _). rewrite Eb. auto. }
  intros Ow. specialize (T6 Ow).
  assert (Lu : lockh s = Some u) by (apply T2; auto).
  destruct (Hst u Lu Ne) as (Eb & Ed & Ep & HU & Hlst & Hv & Ht & Hw & HD).
  - eapply (pcinv_stable W s); try eassumption.
    + destruct Hlst as [E|(x & E & _)]; [left; exact E | right; exists x; exact E].
    + intros v Gv Wv. destruct (Z.eq_dec v t) as [->|Nv]; [auto|]. destruct (Hv v Nv) as [-> ->]. auto.
    + intros v Hin. destruct Hlst as [E|(x & E & Hx)]; [left; rewrite <- E; exact Hin|].
      rewrite E, waiters_app in Hin. apply in_app_or in Hin as [Hin|Hin]; [left; exact Hin|].
      destruct (Z.eqb_spec (i_wt x) 0) as [E0|E0]; [destruct Hin|]. destruct Hin as [<-|[]].
      destruct Hx as [Hx|Hx]; [contradiction|]. rewrite Hx in *.
      apply Hw. rewrite E, waiters_app. apply in_or_app. right.
      destruct (Z.eqb_spec (i_wt x) 0); [congruence|]. left. exact Hx.
Qed.

(* ---- shared tactics for the steps that change the state word ---- *)
Ltac fcbn := cbn [mk set_wq set_d set_enq1 locked_bar released unbar oprec
                  f_owner f_tr f_enq f_mq f_ov f_role f_em f_d f_pb f_wq f_ib f_hi].
Ltac fcbn_in H := cbn [mk set_wq set_d set_enq1 locked_bar released unbar oprec
                       f_owner f_tr f_enq f_mq f_ov f_role f_em f_d f_pb f_wq f_ib f_hi] in H.

Lemma pb_st s r : st s = enc r -> wfr r -> pb s = f_pb r.
Proof. intros E Wf. unfold pb. rewrite E, dec_enc by exact Wf. reflexivity. Qed.

Lemma g_wt_setpc s t p' (l : list item) (g : Z -> grantst) :
  (forall x, In x l -> i_wt x <> 0 -> valid_tid (i_wt x) /\ g (i_wt x) = GNone /\ waitpc (pcs s (i_wt x)) = true) ->
  (waitpc (pcs s t) = true -> waitpc p' = true) ->
  forall x, In x l -> i_wt x <> 0 ->
  valid_tid (i_wt x) /\ g (i_wt x) = GNone /\ waitpc (upd (pcs s) t p' (i_wt x)) = true.
Proof.
  intros H Hw x Hx Nx. destruct (H x Hx Nx) as (V & Gn & Wp). split; [exact V|]. split; [exact Gn|].
  unfold upd. destruct (Z.eqb_spec (i_wt x) t) as [E|]; [rewrite E in Wp; auto | exact Wp].
Qed.

Lemma in_cons_other (u t : Z) l : u <> t -> (In u (t :: l) <-> In u l).
Proof. intros Ne. cbn [In]. split; [intros [X|X]; [congruence|exact X] | intros X; right; exact X]. Qed.

Lemma U_cons_h s s' t : holders s' = t :: holders s -> rq s' = rq s -> U s' = U s + 1.
Proof. intros E1 E2. unfold U. rewrite E1, E2. cbn [length]. lia. Qed.

Lemma pb_eq s s' r r' : st s = enc r -> wfr r -> st s' = enc r' -> wfr r' -> f_pb r' = f_pb r -> pb s' = pb s.
Proof. intros E W E' W' H. rewrite (pb_st s r E W), (pb_st s' r' E' W'). exact H. Qed.

(* the lock owner moves: nobody else has owner's knowledge to preserve *)
Lemma other_thread_owner W s s' t u :
  u <> t -> (forall v, thread_inv W s v) -> lockh s = Some t ->
  pcs s' u = pcs s u -> grant s' u = grant s u ->
  (In u (holders s') <-> In u (holders s)) ->
  lockh s' <> Some u ->
  (tokh s' = Some u <-> tokh s = Some u) ->
  thread_inv W s' u.
Proof.
  intros Ne T Lt Hp Hg Hh Hl Hk. apply (other_thread W s s' t u Ne T Hp Hg Hh); [|exact Hk|].
  - split; [intros X; contradiction | intros X; congruence].
  - intros v Lv Nv. congruence.
Qed.

(* nobody holds the lock: likewise *)
Lemma other_thread_free W s s' t u :
  u <> t -> (forall v, thread_inv W s v) -> lockh s = None ->
  pcs s' u = pcs s u -> grant s' u = grant s u ->
  (In u (holders s') <-> In u (holders s)) ->
  lockh s' <> Some u ->
  (tokh s' = Some u <-> tokh s = Some u) ->
  thread_inv W s' u.
Proof.
  intros Ne T Lt Hp Hg Hh Hl Hk. apply (other_thread W s s' t u Ne T Hp Hg Hh); [|exact Hk|].
  - split; [intros X; contradiction | intros X; congruence].
  - intros v Lv Nv. congruence.
Qed.

Lemma merged_zero r : wfr r -> merged r 0 = r.
Proof. intros W. unfold wfr in W. unfold merged. destruct (Z.ltb_spec (f_mq r) 0); [lia|reflexivity]. Qed.

Lemma NoDup_app_singleton (l : list Z) x : NoDup l -> ~ In x l -> NoDup (l ++ [x]).
Proof.
  intros Nd Ni. induction Nd as [|y l Hy Hl IH]; cbn; [constructor; [intros []|constructor]|].
  constructor.
  - intros X. apply in_app_or in X as [X|[X|[]]]; [contradiction|]. subst. apply Ni. left. reflexivity.
  - apply IH. intros X. apply Ni. right. exact X.
Qed.
Lemma head_bar_app' s s2 x : lst s2 = lst s ++ [x] -> head_bar s -> head_bar s2.
Proof. intros E2. unfold head_bar. rewrite E2. destruct (lst s); cbn; tauto. Qed.

(* pb of a state whose word was just written *)
Ltac pb_now r' Wn := match goal with |- context [pb ?s2] => rewrite (pb_st s2 r' eq_refl Wn) end.
Lemma pb_same s s2 : st s2 = st s -> pb s2 = pb s.
Proof. intros E. unfold pb. rewrite E. reflexivity. Qed.

Lemma dirty_st s r : st s = enc r -> wfr r -> dirty s = f_d r.
Proof. intros E Wf. unfold dirty. rewrite E, dec_enc by exact Wf. reflexivity. Qed.
Lemma dirty_same s s2 : st s2 = st s -> dirty s2 = dirty s.
Proof. intros E. unfold dirty. rewrite E. reflexivity. Qed.
Lemma dirty_eq s s' r r' : st s = enc r -> wfr r -> st s' = enc r' -> wfr r' -> f_d r' = f_d r -> dirty s' = dirty s.
Proof. intros E W E' W' H. rewrite (dirty_st s r E W), (dirty_st s' r' E' W'). exact H. Qed.

(* a thread that neither owns the lock nor holds width, before and after its step *)
Lemma self_plain' W s s2 t p2 :
  thread_inv W s t -> holds (pcs s t) = false -> owns (pcs s t) = false -> waitpc (pcs s t) = false ->
  holds p2 = false -> owns p2 = false -> waitpc p2 = false ->
  pcs s2 t = p2 -> grant s2 t = grant s t -> (In t (holders s2) <-> In t (holders s)) -> lockh s2 = lockh s ->
  (tokh s2 = Some t <-> toks p2 = true) -> thread_inv W s2 t.
Proof.
  intros Tt H1 O1 W1 H2 O2 W2 P2 G2 Hh L2 K2.
  pose proof (not_waiting_grant W s t Tt W1) as Gt. destruct Tt as [T1 T2 T3 T4 T5 T6].
  rewrite H1, Gt in T1. rewrite O1, Gt in T2.
  constructor; rewrite ?P2, ?G2, ?Hh, ?L2, ?Gt, ?H2, ?O2, ?W2.
  - exact T1.
  - exact T2.
  - exact K2.
  - intros X; contradiction.
  - intros X; discriminate.
  - intros X; discriminate.
Qed.

Lemma Some_inj {A} (a b : A) : Some a = Some b -> a = b.
Proof. intros H. injection H. auto. Qed.
