(* CLane_fields.v — field-level specifications of the generated dq_state bodies used by the concurrent-lane protocol
   model (Model/CLane.v), for a lane of any width: what each rmw body does to the fields of the word, for every
   well-formed word that satisfies the stated side conditions. *)
From Coq Require Import ZArith Bool List Lia.
From Verif Require Import Word Bits Fields DqFields Gen_consts Gen_dqstate Lane_fields.
Import ListNotations.
Local Open Scope Z_scope.

Ltac wf_mk := unfold wfr, mk; cbn [f_owner f_tr f_enq f_mq f_ov f_role f_em f_d f_pb f_wq f_ib f_hi]; repeat split; lia.

(* ---- predicates ---- *)
Lemma is_runnable_f r : wfr r -> nz (f_dq_state_is_runnable (enc r)) = (f_hi r =? 0) && (f_ib r =? 0) && (f_wq r <? 4096).
Proof.
  intros W. unfold f_dq_state_is_runnable, nz, b2z. rewrite enc_linear. unfold wfr in W.
  destruct (Z.ltb_spec (f_owner r + 1073741824 * f_tr r + 2147483648 * f_enq r + 4294967296 * f_mq r +
     34359738368 * f_ov r + 68719476736 * f_role r + 274877906944 * f_em r + 549755813888 * f_d r +
     1099511627776 * f_pb r + 2199023255552 * f_wq r + 18014398509481984 * f_ib r + 36028797018963968 * f_hi r)
     9007199254740992);
  destruct (Z.eqb_spec (f_hi r) 0); destruct (Z.eqb_spec (f_ib r) 0); destruct (Z.ltb_spec (f_wq r) 4096);
    cbn; try reflexivity; lia.
Qed.

Lemma is_sync_runnable_f r : wfr r -> nz (f_dq_state_is_sync_runnable (enc r)) = (f_hi r =? 0) && (f_ib r =? 0).
Proof.
  intros W. unfold f_dq_state_is_sync_runnable, nz, b2z. rewrite enc_linear. unfold wfr in W.
  destruct (Z.ltb_spec (f_owner r + 1073741824 * f_tr r + 2147483648 * f_enq r + 4294967296 * f_mq r +
     34359738368 * f_ov r + 68719476736 * f_role r + 274877906944 * f_em r + 549755813888 * f_d r +
     1099511627776 * f_pb r + 2199023255552 * f_wq r + 18014398509481984 * f_ib r + 36028797018963968 * f_hi r)
     18014398509481984);
  destruct (Z.eqb_spec (f_hi r) 0); destruct (Z.eqb_spec (f_ib r) 0); cbn; try reflexivity; lia.
Qed.

Lemma is_in_barrier_f r : wfr r -> nz (f_dq_state_is_in_barrier (enc r)) = (f_ib r =? 1).
Proof.
  intros W. pose proof W as W'. unfold wfr in W'. unfold f_dq_state_is_in_barrier. rewrite enc_vec.
  vec_land 18014398509481984. fsimp. rewrite vec_linear. unfold nz, b2z.
  assert (f_ib r = 0 \/ f_ib r = 1) as [->| ->] by lia; reflexivity.
Qed.

(* _dq_state_has_sync_width_room: the word is sync-runnable and dq_width + 1 more intervals still fit below IN_BARRIER *)
Lemma has_room_f r w : wfr r -> 1 <= w <= 4095 ->
  nz (f_dq_state_has_sync_width_room (enc r) w) = (f_hi r =? 0) && (f_ib r =? 0) && (f_wq r + w + 1 <? 8192).
Proof.
  intros W Hw. unfold f_dq_state_has_sync_width_room. rewrite is_sync_runnable_f by exact W.
  pose proof W as W'. unfold wfr in W'.
  destruct (Z.eqb_spec (f_hi r) 0) as [H0|H0]; [|reflexivity].
  destruct (Z.eqb_spec (f_ib r) 0) as [Hi|Hi]; [|reflexivity].
  cbn [andb].
  rewrite (u64_id'' (w + 1)) by lia. rewrite (u64_id'' ((w + 1) * 2199023255552)) by lia.
  rewrite enc_linear, H0, Hi. rewrite u64_id'' by lia.
  unfold nz, b2z.
  destruct (Z.ltb_spec (f_owner r + 1073741824 * f_tr r + 2147483648 * f_enq r + 4294967296 * f_mq r + 34359738368 * f_ov r +
     68719476736 * f_role r + 274877906944 * f_em r + 549755813888 * f_d r + 1099511627776 * f_pb r +
     2199023255552 * f_wq r + 18014398509481984 * 0 + 36028797018963968 * 0 + (w + 1) * 2199023255552) 18014398509481984);
  destruct (Z.ltb_spec (f_wq r + w + 1) 8192); cbn; try reflexivity; lia.
Qed.

(* ---- adding / subtracting width intervals ---- *)
Definition set_wq (r : dqf) (v : Z) : dqf :=
  mk (f_owner r) (f_tr r) (f_enq r) (f_mq r) (f_ov r) (f_role r) (f_em r) (f_d r) (f_pb r) v (f_ib r) (f_hi r).

Lemma add_wq r k : wfr r -> 0 <= f_wq r + k < 8192 -> u64 (enc r + k * 2199023255552) = enc (set_wq r (f_wq r + k)).
Proof.
  intros W Hk. pose proof W as W'. unfold wfr in W'. rewrite !enc_linear. unfold set_wq, mk.
  cbn [f_owner f_tr f_enq f_mq f_ov f_role f_em f_d f_pb f_wq f_ib f_hi]. rewrite u64_id'' by lia. lia.
Qed.
Lemma set_wq_wf r v : wfr r -> 0 <= v < 8192 -> wfr (set_wq r v).
Proof. intros W Hv. unfold wfr in W. unfold set_wq. wf_mk. Qed.

(* ---- the reader fast paths ---- *)
Definition sync_ok (r : dqf) (w : Z) : bool :=
  (f_hi r =? 0) && (f_ib r =? 0) && negb (f_d r =? 1) && negb (f_pb r =? 1) && (f_wq r + w + 1 <? 8192).

Lemma reserve_sync_fields r tl w : wfr r -> 1 <= w <= 4095 ->
  f_dispatch_queue_try_reserve_sync_width 0 tl (enc r) w =
  if nz tl then NoCommit 0 []
  else if sync_ok r w then Commit (enc (set_wq r (f_wq r + 1))) 1 else NoCommit 0 [].
Proof.
  intros W Hw. unfold f_dispatch_queue_try_reserve_sync_width.
  destruct (nz tl); cbn [negb]; [reflexivity|].
  rewrite is_sync_runnable_f, is_dirty_f, pending_barrier_f, has_room_f by assumption.
  unfold sync_ok.
  destruct (Z.eqb_spec (f_hi r) 0); cbn [andb negb orb]; [|reflexivity].
  destruct (Z.eqb_spec (f_ib r) 0); cbn [andb negb orb]; [|reflexivity].
  destruct (Z.eqb_spec (f_d r) 1); cbn [andb negb orb]; [reflexivity|].
  destruct (Z.eqb_spec (f_pb r) 1); cbn [andb negb orb]; [reflexivity|].
  destruct (Z.ltb_spec (f_wq r + w + 1) 8192); cbn [andb negb orb]; [|reflexivity].
  pose proof W as W'. unfold wfr in W'.
  change 2199023255552 with (1 * 2199023255552). rewrite add_wq by (assumption || lia). reflexivity.
Qed.

Definition async_ok (r : dqf) : bool :=
  (f_hi r =? 0) && (f_ib r =? 0) && (f_wq r <? 4096) && negb (f_d r =? 1) && negb (f_pb r =? 1).

Lemma acquire_async_fields r : wfr r ->
  f_dispatch_queue_try_acquire_async 0 (enc r) =
  if async_ok r then Commit (enc (set_wq r (f_wq r + 1))) 1 else NoCommit 0 [].
Proof.
  intros W. unfold f_dispatch_queue_try_acquire_async.
  rewrite is_runnable_f, is_dirty_f, pending_barrier_f by assumption.
  unfold async_ok.
  destruct (Z.eqb_spec (f_hi r) 0); cbn [andb negb orb]; [|reflexivity].
  destruct (Z.eqb_spec (f_ib r) 0); cbn [andb negb orb]; [|reflexivity].
  destruct (Z.ltb_spec (f_wq r) 4096); cbn [andb negb orb]; [|reflexivity].
  destruct (Z.eqb_spec (f_d r) 1); cbn [andb negb orb]; [reflexivity|].
  destruct (Z.eqb_spec (f_pb r) 1); cbn [andb negb orb]; [reflexivity|].
  pose proof W as W'. unfold wfr in W'.
  change 2199023255552 with (1 * 2199023255552). rewrite add_wq by (assumption || lia). reflexivity.
Qed.

(* ---- _dispatch_lane_non_barrier_complete_try_lock on fields ---- *)
Definition tl_take (rn : dqf) (w : Z) : bool :=
  if f_pb rn =? 1 then f_wq rn + 1 =? 4096 else f_wq rn + w =? 4096.
Definition locked_bar (rn : dqf) (t : Z) : dqf :=
  mk t (f_tr rn) (f_enq rn) (f_mq rn) (f_ov rn) (f_role rn) (f_em rn) 0 0 4096 1 0.
Definition set_enq1 (rn : dqf) : dqf :=
  mk (f_owner rn) (f_tr rn) 1 (f_mq rn) (f_ov rn) (f_role rn) (f_em rn) (f_d rn) (f_pb rn) (f_wq rn) (f_ib rn) (f_hi rn).
Definition tl_rec (dold : Z) (rn : dqf) (t w : Z) : dqf :=
  if tl_take rn w then locked_bar rn t else if dold =? 1 then set_enq1 rn else rn.

Lemma tid_vec t : 0 <= t < 1073741824 -> t = encode LAY [t; 0; 0; 0; 0; 0; 0; 0; 0; 0; 0; 0].
Proof. intros. rewrite vec_linear. lia. Qed.

Lemma try_lock_fields ro rn t w :
  wfr ro -> wfr rn -> f_ib rn = 0 -> f_hi rn = 0 -> f_owner rn = 0 -> 0 < t < 1073741824 -> 1 <= w <= 4095 ->
  (f_pb rn = 0 -> f_wq rn + w <= 8192) ->
  f_dispatch_lane_non_barrier_complete_try_lock 0 (enc ro) (enc rn) t w = enc (tl_rec (f_d ro) rn t w).
Proof.
  intros Wo Wn Hib Hhi Hown Ht Hw B1. pose proof Wn as Wn'. unfold wfr in Wn'. pose proof Wo as Wo'. unfold wfr in Wo'.
  unfold f_dispatch_lane_non_barrier_complete_try_lock. cbv zeta.
  rewrite pending_barrier_f by exact Wn. rewrite is_dirty_f by exact Wo.
  unfold tl_rec, tl_take.
  assert (Rn : 0 <= enc rn < 18446744073709551616) by (apply enc_range; exact Wn).
  destruct (Z.eqb_spec (f_pb rn) 1) as [Hp|Hp].
  - (* a barrier is pending: full_width = new - PENDING + INTERVAL + IN_BARRIER *)
    assert (L : enc rn = f_tr rn * 1073741824 + 2147483648 * f_enq rn + 4294967296 * f_mq rn + 34359738368 * f_ov rn +
                68719476736 * f_role rn + 274877906944 * f_em rn + 549755813888 * f_d rn + 1099511627776 +
                2199023255552 * f_wq rn) by (rewrite enc_linear, Hib, Hhi, Hown, Hp; lia).
    assert (E : u64 (u64 (u64 (enc rn - 1099511627776) + 2199023255552) + 18014398509481984) =
                if f_wq rn =? 8191
                then encode LAY [0; f_tr rn; f_enq rn; f_mq rn; f_ov rn; f_role rn; f_em rn; f_d rn; 0; 0; 0; 1]
                else encode LAY [0; f_tr rn; f_enq rn; f_mq rn; f_ov rn; f_role rn; f_em rn; f_d rn; 0; f_wq rn + 1; 1; 0]).
    { rewrite (u64_id'' (enc rn - 1099511627776)) by lia.
      rewrite (u64_id'' (enc rn - 1099511627776 + 2199023255552)) by lia.
      rewrite u64_id'' by lia. destruct (Z.eqb_spec (f_wq rn) 8191); rewrite vec_linear; lia. }
    rewrite E.
    destruct (Z.eqb_spec (f_wq rn) 8191) as [H8|H8].
    + destruct (Z.eqb_spec (f_wq rn + 1) 4096); [lia|].
      vec_land 18012199486226432. fsimp. rewrite vec_linear. cbn [Z.eqb Z.mul Z.add].
      destruct (Z.eqb_spec (f_d ro) 1).
      * rewrite (enc_vec rn). vec_lor 2147483648. fsimp. reflexivity.
      * reflexivity.
    + vec_land 18012199486226432. fsimp. rewrite vec_linear.
      destruct (Z.eqb_spec (f_wq rn + 1) 4096) as [Hq|Hq].
      * destruct (Z.eqb_spec (0 + 1073741824 * 0 + 2147483648 * 0 + 4294967296 * 0 + 34359738368 * 0 + 68719476736 * 0 +
           274877906944 * 0 + 549755813888 * 0 + 1099511627776 * 0 + 2199023255552 * (f_wq rn + 1) + 18014398509481984 * 0 +
           36028797018963968 * 0) 9007199254740992); [|lia].
        vec_land 18446743523953737727. fsimp.
        rewrite (tid_vec t) at 1 by lia. rewrite encode_lor by wfv_tac. cbn [map2]. fsimp.
        rewrite Hq. reflexivity.
      * destruct (Z.eqb_spec (0 + 1073741824 * 0 + 2147483648 * 0 + 4294967296 * 0 + 34359738368 * 0 + 68719476736 * 0 +
           274877906944 * 0 + 549755813888 * 0 + 1099511627776 * 0 + 2199023255552 * (f_wq rn + 1) + 18014398509481984 * 0 +
           36028797018963968 * 0) 9007199254740992); [lia|].
        destruct (Z.eqb_spec (f_d ro) 1).
        -- rewrite (enc_vec rn). vec_lor 2147483648. fsimp. reflexivity.
        -- reflexivity.
  - (* no pending barrier: full_width = new + dq_width * INTERVAL + IN_BARRIER *)
    assert (Hp0 : f_pb rn = 0) by lia. specialize (B1 Hp0).
    assert (L : enc rn = f_tr rn * 1073741824 + 2147483648 * f_enq rn + 4294967296 * f_mq rn + 34359738368 * f_ov rn +
                68719476736 * f_role rn + 274877906944 * f_em rn + 549755813888 * f_d rn +
                2199023255552 * f_wq rn) by (rewrite enc_linear, Hib, Hhi, Hown, Hp0; lia).
    assert (E : u64 (u64 (enc rn + u64 (w * 2199023255552)) + 18014398509481984) =
                if f_wq rn + w =? 8192
                then encode LAY [0; f_tr rn; f_enq rn; f_mq rn; f_ov rn; f_role rn; f_em rn; f_d rn; 0; 0; 0; 1]
                else encode LAY [0; f_tr rn; f_enq rn; f_mq rn; f_ov rn; f_role rn; f_em rn; f_d rn; 0; f_wq rn + w; 1; 0]).
    { rewrite (u64_id'' (w * 2199023255552)) by lia.
      rewrite (u64_id'' (enc rn + w * 2199023255552)) by lia.
      rewrite u64_id'' by lia. destruct (Z.eqb_spec (f_wq rn + w) 8192); rewrite vec_linear; lia. }
    rewrite E.
    destruct (Z.eqb_spec (f_wq rn + w) 8192) as [H8|H8].
    + destruct (Z.eqb_spec (f_wq rn + w) 4096); [lia|].
      vec_land 18012199486226432. fsimp. rewrite vec_linear. cbn [Z.eqb Z.mul Z.add].
      destruct (Z.eqb_spec (f_d ro) 1).
      * rewrite (enc_vec rn). vec_lor 2147483648. fsimp. reflexivity.
      * reflexivity.
    + vec_land 18012199486226432. fsimp. rewrite vec_linear.
      destruct (Z.eqb_spec (f_wq rn + w) 4096) as [Hq|Hq].
      * destruct (Z.eqb_spec (0 + 1073741824 * 0 + 2147483648 * 0 + 4294967296 * 0 + 34359738368 * 0 + 68719476736 * 0 +
           274877906944 * 0 + 549755813888 * 0 + 1099511627776 * 0 + 2199023255552 * (f_wq rn + w) + 18014398509481984 * 0 +
           36028797018963968 * 0) 9007199254740992); [|lia].
        vec_land 18446743523953737727. fsimp.
        rewrite (tid_vec t) at 1 by lia. rewrite encode_lor by wfv_tac. cbn [map2]. fsimp.
        rewrite Hq. reflexivity.
      * destruct (Z.eqb_spec (0 + 1073741824 * 0 + 2147483648 * 0 + 4294967296 * 0 + 34359738368 * 0 + 68719476736 * 0 +
           274877906944 * 0 + 549755813888 * 0 + 1099511627776 * 0 + 2199023255552 * (f_wq rn + w) + 18014398509481984 * 0 +
           36028797018963968 * 0) 9007199254740992); [lia|].
        destruct (Z.eqb_spec (f_d ro) 1).
        -- rewrite (enc_vec rn). vec_lor 2147483648. fsimp. reflexivity.
        -- reflexivity.
Qed.

(* ---- _dispatch_lane_non_barrier_complete: rmw loop ---- *)
Definition set_d (r : dqf) (v : Z) : dqf :=
  mk (f_owner r) (f_tr r) (f_enq r) (f_mq r) (f_ov r) (f_role r) (f_em r) v (f_pb r) (f_wq r) (f_ib r) (f_hi r).

Definition nbc_rec (r : dqf) (t w : Z) : dqf :=
  let r1 := set_wq r (f_wq r - 1) in
  if negb (f_owner r =? 0) then set_d r1 1
  else if (f_hi r =? 0) && (f_ib r =? 0) && (f_wq r - 1 <? 4096) then tl_rec (f_d r) r1 t w
  else r1.

Lemma nbc_fields r fl t w : wfr r -> 1 <= f_wq r -> 0 < t < 1073741824 -> 1 <= w <= 4095 ->
  non_barrier_complete_loop 0 fl (enc r) t w = Commit (enc (nbc_rec r t w)) 0.
Proof.
  intros W Hq Ht Hw. pose proof W as W'. unfold wfr in W'.
  unfold non_barrier_complete_loop. cbv zeta.
  assert (E : u64 (enc r - 2199023255552) = enc (set_wq r (f_wq r - 1))).
  { replace (enc r - 2199023255552) with (enc r + (-1) * 2199023255552) by lia. rewrite add_wq by (assumption || lia).
    f_equal. }
  rewrite E. rewrite drain_locked_f by exact W.
  assert (W1 : wfr (set_wq r (f_wq r - 1))) by (apply set_wq_wf; [exact W | lia]).
  unfold nbc_rec. cbv zeta.
  destruct (Z.eqb_spec (f_owner r) 0) as [Ho|Ho]; cbn [negb].
  - rewrite is_runnable_f by exact W1.
    change (f_hi (set_wq r (f_wq r - 1))) with (f_hi r). change (f_ib (set_wq r (f_wq r - 1))) with (f_ib r).
    change (f_wq (set_wq r (f_wq r - 1))) with (f_wq r - 1).
    destruct ((f_hi r =? 0) && (f_ib r =? 0) && (f_wq r - 1 <? 4096)) eqn:R; [|reflexivity].
    apply andb_true_iff in R as [R R3]. apply andb_true_iff in R as [R1 R2].
    apply Z.eqb_eq in R1, R2. apply Z.ltb_lt in R3.
    rewrite try_lock_fields; try assumption; try reflexivity; cbn; lia.
  - rewrite (enc_vec (set_wq r (f_wq r - 1))).
    unfold set_wq, mk; cbn [f_owner f_tr f_enq f_mq f_ov f_role f_em f_d f_pb f_wq f_ib f_hi].
    vec_lor 549755813888. fsimp. reflexivity.
Qed.

(* ---- records are determined by their encoding ---- *)
Lemma enc_inj r1 r2 : wfr r1 -> wfr r2 -> enc r1 = enc r2 -> r1 = r2.
Proof. intros W1 W2 E. rewrite <- (dec_enc r1 W1), <- (dec_enc r2 W2), E. reflexivity. Qed.

(* ---- _dispatch_queue_try_acquire_barrier_sync: a compare-exchange from the completely idle word ---- *)
Definition is_idle (r : dqf) (w : Z) : bool :=
  (f_owner r =? 0) && (f_tr r =? 0) && (f_enq r =? 0) && (f_mq r =? 0) && (f_ov r =? 0) && (f_em r =? 0) && (f_d r =? 0) &&
  (f_pb r =? 0) && (f_wq r =? 4096 - w) && (f_ib r =? 0) && (f_hi r =? 0).

Lemma acquire_barrier_fields r t w : wfr r -> 1 <= w <= 4095 -> 0 < t < 1073741824 ->
  f_dispatch_queue_try_acquire_barrier_sync_and_suspend 0 t 0 w (enc r) =
  if is_idle r w then Commit (enc (mk t 0 0 0 0 (f_role r) 0 0 0 4096 1 0)) 1 else NoCommit 0 [].
Proof.
  intros W Hw Ht. pose proof W as W'. unfold wfr in W'.
  unfold f_dispatch_queue_try_acquire_barrier_sync_and_suspend. cbv zeta.
  assert (Ei : u64 (Z.shiftl (u64 (4096 - w)) 41) = encode LAY [0; 0; 0; 0; 0; 0; 0; 0; 0; 4096 - w; 0; 0]).
  { rewrite (u64_id'' (4096 - w)) by lia. rewrite Z.shiftl_mul_pow2 by lia. change (2 ^ 41) with 2199023255552.
    rewrite u64_id'' by lia. rewrite vec_linear. lia. }
  assert (Er : Z.land (enc r) 206158430208 = encode LAY [0; 0; 0; 0; 0; f_role r; 0; 0; 0; 0; 0; 0]).
  { rewrite enc_vec. vec_land 206158430208. fsimp. reflexivity. }
  rewrite Ei, Er. rewrite encode_lor by wfv_tac. cbn [map2]. fsimp.
  change (encode LAY [0; 0; 0; 0; 0; f_role r; 0; 0; 0; 4096 - w; 0; 0]) with (enc (mk 0 0 0 0 0 (f_role r) 0 0 0 (4096 - w) 0 0)).
  assert (Wi : wfr (mk 0 0 0 0 0 (f_role r) 0 0 0 (4096 - w) 0 0)) by wf_mk.
  destruct (is_idle r w) eqn:I.
  - unfold is_idle in I. rewrite !andb_true_iff in I.
    destruct I as [[[[[[[[[[I1 I2] I3] I4] I5] I6] I7] I8] I9] I10] I11].
    apply Z.eqb_eq in I1, I2, I3, I4, I5, I6, I7, I8, I9, I10, I11.
    assert (E : enc r = enc (mk 0 0 0 0 0 (f_role r) 0 0 0 (4096 - w) 0 0)).
    { rewrite !enc_linear. cbn [mk f_owner f_tr f_enq f_mq f_ov f_role f_em f_d f_pb f_wq f_ib f_hi]. lia. }
    rewrite E at 1. rewrite Z.eqb_refl. cbn [negb].
    (* value | role *)
    unfold f_dispatch_lock_value_from_tid. rewrite land_owner by lia.
    change (u64 (0 * 288230376151711744)) with 0. rewrite Z.lor_0_r.
    change 27021597764222976 with (encode LAY [0; 0; 0; 0; 0; 0; 0; 0; 0; 4096; 1; 0]).
    rewrite (tid_vec t) at 1 by lia. rewrite encode_lor by wfv_tac. cbn [map2]. fsimp.
    rewrite encode_lor by wfv_tac. cbn [map2]. fsimp. reflexivity.
  - destruct (Z.eqb_spec (enc r) (enc (mk 0 0 0 0 0 (f_role r) 0 0 0 (4096 - w) 0 0))) as [E|E]; [|reflexivity].
    exfalso. apply enc_inj in E; try assumption. rewrite E in I. unfold is_idle, mk in I.
    cbn [f_owner f_tr f_enq f_mq f_ov f_role f_em f_d f_pb f_wq f_ib f_hi] in I.
    rewrite !Z.eqb_refl in I. discriminate.
Qed.

(* ---- _dispatch_lane_class_barrier_complete: the holder of IN_BARRIER + the full width gives everything back ---- *)
Definition unbar (r : dqf) (w : Z) : dqf :=
  mk (f_owner r) (f_tr r) (f_enq r) (f_mq r) (f_ov r) (f_role r) (f_em r) (f_d r) (f_pb r) (f_wq r - w) 0 (f_hi r).
Definition released (m : dqf) : dqf :=
  mk 0 0 (f_enq m) (f_mq m) 0 (f_role m) (f_em m) (f_d m) (f_pb m) (f_wq m) (f_ib m) (f_hi m).

Lemma unbar_enc r w : wfr r -> f_ib r = 1 -> 1 <= w <= 4095 -> w <= f_wq r ->
  u64 (enc r - (18014398509481984 + w * 2199023255552)) = enc (unbar r w) /\ wfr (unbar r w).
Proof.
  intros W Hib Hw Hq. pose proof W as W'. unfold wfr in W'. split.
  - rewrite !enc_linear. unfold unbar, mk. cbn [f_owner f_tr f_enq f_mq f_ov f_role f_em f_d f_pb f_wq f_ib f_hi].
    rewrite Hib. rewrite u64_id'' by lia. lia.
  - unfold unbar. wf_mk.
Qed.

Lemma class_complete_enq_fields r q tgt w : wfr r -> f_ib r = 1 -> f_hi r = 0 -> 1 <= w <= 4095 -> w <= f_wq r -> 0 <= q < 8 ->
  class_barrier_complete_loop 0 q 0 tgt (18014398509481984 + w * 2199023255552) (enc r) 2147483648 =
  let m := released (merged (unbar r w) q) in
  Commit (enc (if (f_enq r =? 0) && (f_em r =? 0) then set_enq1 m else m)) 0.
Proof.
  intros W Hib Hhi Hw Hq Q. pose proof W as W'. unfold wfr in W'.
  unfold class_barrier_complete_loop. cbv zeta.
  destruct (unbar_enc r w W Hib Hw Hq) as [E Wu]. rewrite E.
  rewrite merge_qos_fields by assumption.
  pose proof (merged_wf _ q Wu Q) as Wm. pose proof Wm as Wm'. unfold wfr in Wm'.
  rewrite is_suspended_f by exact W. rewrite Hhi. cbn [Z.ltb Z.compare negb].
  change (nz 2147483648) with true. cbv iota.
  rewrite is_enqueued_f by exact W.
  set (m := merged (unbar r w) q) in *.
  rewrite (enc_vec m). vec_land 18446744037202329600. fsimp.
  destruct ((f_enq r =? 0) && (f_em r =? 0)) eqn:Eq; cbn [negb].
  - vec_lor 2147483648. fsimp. reflexivity.
  - reflexivity.
Qed.

Lemma class_complete_none_fields r q tgt w : wfr r -> f_ib r = 1 -> f_hi r = 0 -> 1 <= w <= 4095 -> w <= f_wq r -> 0 <= q < 8 ->
  class_barrier_complete_loop 0 q 0 tgt (18014398509481984 + w * 2199023255552) (enc r) 0 =
  if f_d r =? 1 then NoCommit 1 [AXor 0 0 Acquire]
  else let m := released (merged (unbar r w) q) in
       Commit (enc (mk 0 0 (f_enq m) 0 0 (f_role m) (f_em m) (f_d m) (f_pb m) (f_wq m) (f_ib m) (f_hi m))) 0.
Proof.
  intros W Hib Hhi Hw Hq Q. pose proof W as W'. unfold wfr in W'.
  unfold class_barrier_complete_loop. cbv zeta.
  destruct (unbar_enc r w W Hib Hw Hq) as [E Wu]. rewrite E.
  rewrite merge_qos_fields by assumption.
  pose proof (merged_wf _ q Wu Q) as Wm. pose proof Wm as Wm'. unfold wfr in Wm'.
  rewrite is_suspended_f by exact W. rewrite Hhi. cbn [Z.ltb Z.compare negb].
  change (nz 0) with false. cbv iota.
  rewrite is_dirty_f by exact W.
  destruct (f_d r =? 1); cbn [negb]; [reflexivity|].
  set (m := merged (unbar r w) q) in *.
  rewrite (enc_vec m). vec_land 18446744037202329600. fsimp.
  vec_land 18446744043644780543. fsimp. reflexivity.
Qed.

(* ---- _dispatch_lane_drain_barrier_waiter: the lock is handed to the waiter ---- *)
Lemma barrier_waiter_fields r dc fl e u nd : wfr r -> f_role r < 2 -> 0 < u < 1073741824 -> 0 <= e <= f_enq r ->
  drain_barrier_waiter_loop 0 dc fl (2147483648 * e) (enc r) (Z.land u 1073741823) nd =
  Commit (enc (mk u 0 (f_enq r - e) (f_mq r) 0 (f_role r) (f_em r) 0 (f_pb r) (f_wq r) (f_ib r) (f_hi r))) 0.
Proof.
  intros W Hr Hu He. pose proof W as W'. unfold wfr in W'.
  unfold drain_barrier_waiter_loop. cbv zeta.
  rewrite base_wlh_f by exact W. destruct (Z.leb_spec 2 (f_role r)); [lia|].
  rewrite land_owner by lia.
  rewrite (enc_vec r). vec_land 18446744037202329600. fsimp.
  vec_land 18446743523953737727. fsimp.
  rewrite (tid_vec u) at 1 by lia. rewrite encode_lor by wfv_tac. cbn [map2]. fsimp.
  f_equal.
  assert (Wn : wfr (mk u 0 (f_enq r - e) (f_mq r) 0 (f_role r) (f_em r) 0 (f_pb r) (f_wq r) (f_ib r) (f_hi r))) by wf_mk.
  pose proof (enc_range _ Wn) as Rn.
  rewrite enc_linear in *. rewrite vec_linear.
  cbn [mk f_owner f_tr f_enq f_mq f_ov f_role f_em f_d f_pb f_wq f_ib f_hi] in *.
  rewrite u64_id'' by lia. lia.
Qed.

(* ---- _dispatch_lane_drain_non_barriers: final rmw loop ---- *)
Lemma drain_nb_fields r r0 dc owned t w :
  wfr r -> wfr r0 -> u64 (enc r - owned) = enc r0 -> f_ib r0 = 0 -> f_hi r0 = 0 -> 0 < t < 1073741824 -> 1 <= w <= 4095 ->
  (f_pb r0 = 0 -> f_wq r0 + w <= 8192) ->
  drain_non_barriers_loop 0 dc 0 (enc r) owned t w =
  let r2 := mk 0 0 (f_enq r0) (f_mq r0) 0 (f_role r0) (f_em r0) 0 (f_pb r0) (f_wq r0) 0 0 in
  if nz dc then Commit (enc (tl_rec (f_d r) (set_d r2 1) t w)) 0
  else if f_d r =? 1 then Restart [AXor 0 0 Acquire; AOther 1 Relaxed]
  else Commit (enc r2) 0.
Proof.
  intros W W0 E Hib Hhi Ht Hw B. pose proof W0 as W0'. unfold wfr in W0'.
  unfold drain_non_barriers_loop. cbv zeta. rewrite E.
  rewrite (enc_vec r0). vec_land 18446744037202329600. fsimp.
  vec_land 18446743523953737727. fsimp. rewrite Hib, Hhi.
  destruct (nz dc); cbn [negb].
  - vec_lor 549755813888. fsimp.
    change (encode LAY [0; 0; f_enq r0; f_mq r0; 0; f_role r0; f_em r0; 1; f_pb r0; f_wq r0; 0; 0])
      with (enc (set_d (mk 0 0 (f_enq r0) (f_mq r0) 0 (f_role r0) (f_em r0) 0 (f_pb r0) (f_wq r0) 0 0) 1)).
    rewrite try_lock_fields; try assumption; try reflexivity; try (cbn; lia).
    unfold set_d. wf_mk.
  - rewrite is_dirty_f by exact W. destruct (f_d r =? 1); cbn [negb]; reflexivity.
Qed.

(* ---- _dispatch_queue_wakeup without MAKE_DIRTY (push on a non-empty list that asks for an override) ---- *)
Lemma wakeup_nodirty_fields r qos flags target :
  wfr r -> 0 <= qos < 8 -> nz (Z.land flags 2) = false ->
  wakeup_loop 0 qos flags target (enc r) 2147483648 =
  let m := merged r qos in
  let r' := mk (f_owner m) (f_tr m) (if can_enqueue r then 1 else f_enq m) (f_mq m) (f_ov m) (f_role m) (f_em m) (f_d m)
               (f_pb m) (f_wq m) (f_ib m) (f_hi m) in
  if enc r' =? enc r then NoCommit 2 [] else Commit (enc r') 0.
Proof.
  intros W Q F. pose proof W as W'. unfold wfr in W'.
  unfold wakeup_loop. cbv zeta. rewrite F.
  rewrite merge_qos_fields by assumption.
  rewrite is_suspended_f, is_enqueued_f, drain_locked_f, base_wlh_f by exact W.
  change (2147483648 =? 274877906944) with false. cbn [negb andb].
  pose proof (merged_wf r qos W Q) as Wm. pose proof Wm as Wm'. unfold wfr in Wm'.
  set (m := merged r qos) in *.
  assert (Same : f_owner m = f_owner r /\ f_tr m = f_tr r /\ f_enq m = f_enq r /\ f_em m = f_em r /\ f_hi m = f_hi r).
  { subst m. unfold merged. destruct (f_mq r <? qos); cbn; auto. }
  destruct Same as (S1 & S2 & S3 & S4 & S5).
  assert (C : (negb (0 <? f_hi r) && negb (negb ((f_enq r =? 0) && (f_em r =? 0))) &&
               (negb (negb (f_owner r =? 0)) || (2 <=? f_role r))) = can_enqueue r).
  { unfold can_enqueue. rewrite !negb_involutive.
    destruct (Z.ltb_spec 0 (f_hi r)); destruct (Z.eqb_spec (f_hi r) 0); try lia; cbn [negb andb]; try reflexivity;
      try (rewrite andb_assoc; reflexivity). }
  rewrite negb_involutive. rewrite C.
  destruct (can_enqueue r) eqn:CE.
  - rewrite (enc_vec m). vec_lor 2147483648.
    unfold can_enqueue in CE. rewrite !andb_true_iff in CE. destruct CE as [[[_ CE2] _] _]. apply Z.eqb_eq in CE2.
    rewrite S3, CE2. change (Z.lor 0 1) with 1. fsimp. reflexivity.
  - replace (mk (f_owner m) (f_tr m) (f_enq m) (f_mq m) (f_ov m) (f_role m) (f_em m) (f_d m) (f_pb m) (f_wq m) (f_ib m) (f_hi m))
      with m by (destruct m; reflexivity). reflexivity.
Qed.

(* ---- _dispatch_lane_push_waiter: the rmw loop of a push that made the list non-empty ---- *)
Definition pw_take (r : dqf) (w : Z) : bool :=
  (f_owner r =? 0) && (f_hi r =? 0) && (f_ib r =? 0) && (f_wq r <? 4096) && ((f_pb r =? 1) || (f_wq r + w - 1 <? 4096)).

Lemma push_waiter_fields r q t w : wfr r -> 0 <= q < 8 -> f_role r < 2 -> 0 < t < 1073741824 -> 1 <= w <= 4095 ->
  push_waiter_loop 0 0 q (enc r) (u64 (u64 (s32 (w - 1)) * 2199023255552))
                   (Z.lor (Z.lor t 9007199254740992) 18014398509481984) =
  let m := merged r q in
  Commit (enc (if pw_take r w then mk t 0 (f_enq m) (f_mq m) 0 (f_role m) (f_em m) 0 0 4096 1 0 else set_d m 1)) 0.
Proof.
  intros W Q Hr Ht Hw. pose proof W as W'. unfold wfr in W'.
  unfold push_waiter_loop. cbv zeta.
  rewrite merge_qos_fields by assumption.
  pose proof (merged_wf r q W Q) as Wm. pose proof Wm as Wm'. unfold wfr in Wm'.
  rewrite drain_locked_f, is_runnable_f, base_wlh_f, pending_barrier_f by exact W.
  set (m := merged r q) in *.
  assert (Same : f_owner m = f_owner r /\ f_tr m = f_tr r /\ f_enq m = f_enq r /\ f_em m = f_em r /\ f_hi m = f_hi r /\
                 f_d m = f_d r /\ f_pb m = f_pb r /\ f_wq m = f_wq r /\ f_ib m = f_ib r /\ f_role m = f_role r).
  { subst m. unfold merged. destruct (f_mq r <? q); cbn; repeat split; reflexivity. }
  destruct Same as (S1 & S2 & S3 & S4 & S5 & S6 & S7 & S8 & S9 & S10).
  rewrite (enc_vec m). vec_lor 549755813888. fsimp.
  destruct (Z.leb_spec 2 (f_role r)); [lia|]. cbn [andb].
  unfold pw_take.
  destruct (Z.eqb_spec (f_owner r) 0) as [Ho|Ho]; cbn [negb orb andb]; [|reflexivity].
  destruct (Z.eqb_spec (f_hi r) 0) as [Hh|Hh]; cbn [negb orb andb]; [|reflexivity].
  destruct (Z.eqb_spec (f_ib r) 0) as [Hi|Hi]; cbn [negb orb andb]; [|reflexivity].
  destruct (Z.ltb_spec (f_wq r) 4096) as [Hq|Hq]; cbn [negb orb andb]; [|reflexivity].
  assert (Ep : u64 (u64 (s32 (w - 1)) * 2199023255552) = (w - 1) * 2199023255552).
  { assert (s32 (w - 1) = w - 1) as -> by (unfold s32; rewrite Z.mod_small by lia; lia).
    rewrite (u64_id'' (w - 1)) by lia. rewrite u64_id'' by lia. reflexivity. }
  rewrite Ep.
  assert (Cmp : (u64 (encode LAY [f_owner m; f_tr m; f_enq m; f_mq m; f_ov m; f_role m; f_em m; 1; f_pb m; f_wq m; f_ib m; f_hi m] +
                      (w - 1) * 2199023255552) <? 9007199254740992) = (f_wq r + w - 1 <? 4096)).
  { rewrite vec_linear, S1, S5, S8, S9, Ho, Hh, Hi. rewrite u64_id'' by lia.
    destruct (Z.ltb_spec (f_wq r + w - 1) 4096); [apply Z.ltb_lt | apply Z.ltb_ge]; lia. }
  rewrite Cmp.
  destruct ((f_pb r =? 1) || (f_wq r + w - 1 <? 4096)); [|reflexivity].
  vec_land 513248591872. fsimp.
  assert (Es : Z.lor (Z.lor t 9007199254740992) 18014398509481984 = encode LAY [t; 0; 0; 0; 0; 0; 0; 0; 0; 4096; 1; 0]).
  { rewrite (tid_vec t) at 1 by lia.
    change 9007199254740992 with (encode LAY [0; 0; 0; 0; 0; 0; 0; 0; 0; 4096; 0; 0]).
    rewrite encode_lor by wfv_tac. cbn [map2]. fsimp.
    change 18014398509481984 with (encode LAY [0; 0; 0; 0; 0; 0; 0; 0; 0; 0; 1; 0]).
    rewrite encode_lor by wfv_tac. cbn [map2]. fsimp. reflexivity. }
  rewrite Es. rewrite encode_lor by wfv_tac. cbn [map2]. fsimp. reflexivity.
Qed.

(* ---- _dispatch_queue_drain_try_lock of a lane of any width by a normal (non-stealing, non-manager) drainer ---- *)
Definition lock_ib (r : dqf) (w : Z) : Z := if (f_pb r =? 1) || (f_wq r + w - 1 <? 4096) then 1 else 0.

Lemma lock_fields_w r self floor ov w :
  wfr r -> 0 < self < 1073741824 -> 1 <= w <= 4095 ->
  f_dispatch_queue_drain_try_lock 0 0 w self floor (enc r) ov =
  if lock_free r then
    if (f_role r mod 2 =? 1) && (floor <? f_mq r) then Restart []
    else Commit (enc (mk self 0 (f_enq r) (f_mq r) 0 (f_role r) 0 0 0 4096 (lock_ib r w) 0))
                (18014398509481984 * lock_ib r w + 9007199254740992 + 2147483648 * f_enq r - 2199023255552 * f_wq r)
  else Commit (enc (mk (f_owner r) (f_tr r) (1 - f_enq r) (f_mq r) (f_ov r) (f_role r) (f_em r) (f_d r) (f_pb r)
                       (f_wq r) (f_ib r) (f_hi r))) 0.
Proof.
  intros W Hself Hw. pose proof W as W'. unfold wfr in W'.
  unfold f_dispatch_queue_drain_try_lock. cbv zeta.
  change (nz (Z.land 0 1)) with false. change (nz (Z.land 0 262144)) with false. cbv iota beta.
  change (Z.lor (Z.lor 18437736874454810624 1073741823) 274877906944) with 18437737150406459391.
  change (Z.lor 27021597764222976 2147483648) with 27021599911706624.
  assert (Ep : u64 (u64 (s32 (w - 1)) * 2199023255552) = (w - 1) * 2199023255552).
  { assert (s32 (w - 1) = w - 1) as -> by (unfold s32; rewrite Z.mod_small by lia; lia).
    rewrite (u64_id'' (w - 1)) by lia. rewrite u64_id'' by lia. reflexivity. }
  rewrite Ep.
  rewrite !(nz_lockfail r W).
  destruct (lock_free r) eqn:LF; cbn [negb].
  - unfold f_dq_state_needs_lock_override. rewrite base_anon_f, max_qos_f by exact W.
    destruct ((f_role r mod 2 =? 1) && (floor <? f_mq r)) eqn:OV.
    + unfold nz, b2z. cbn [Z.eqb negb]. reflexivity.
    + unfold nz at 1. unfold b2z. cbn [Z.eqb negb].
      unfold lock_free in LF. rewrite !andb_true_iff in LF. destruct LF as [[[[L1 L2] L3] L4] L5].
      apply Z.eqb_eq in L1, L2, L4, L5. apply Z.ltb_lt in L3.
      rewrite pending_barrier_f by exact W.
      assert (Hlt : (u64 (enc r + (w - 1) * 2199023255552) <? 9007199254740992) = (f_wq r + w - 1 <? 4096)).
      { rewrite enc_linear, L1, L2, L4, L5. rewrite u64_id'' by lia.
        destruct (Z.ltb_spec (f_wq r + w - 1) 4096); [apply Z.ltb_lt | apply Z.ltb_ge]; lia. }
      rewrite Hlt. unfold lock_ib.
      rewrite (enc_vec r).
      vec_land 513248591872. fsimp.
      assert (Eo : Z.lor self 9007199254740992 = encode LAY [self; 0; 0; 0; 0; 0; 0; 0; 0; 4096; 0; 0]).
      { rewrite vec_linear. pose proof (lor_disjoint self 1 53) as D. change (2 ^ 53) with 9007199254740992 in D.
        rewrite Z.mul_1_l in D. rewrite D by lia. lia. }
      rewrite Eo.
      rewrite encode_lor by wfv_tac. cbn [map2]. fsimp.
      destruct ((f_pb r =? 1) || (f_wq r + w - 1 <? 4096)).
      * vec_lor 18014398509481984. fsimp.
        vec_land 27021599911706624. fsimp.
        vec_land 18012199486226432. fsimp.
        change (Z.land 4096 4096) with 4096.
        f_equal.
        -- rewrite L2. reflexivity.
        -- rewrite !vec_linear. rewrite u64_id'' by lia. lia.
      * vec_land 27021599911706624. fsimp.
        vec_land 18012199486226432. fsimp.
        change (Z.land 4096 4096) with 4096.
        f_equal.
        -- rewrite L2. reflexivity.
        -- rewrite !vec_linear. rewrite u64_id'' by lia. lia.
  - change (nz 2147483648) with true. cbv iota.
    rewrite (enc_vec r). vec_lxor 2147483648. fsimp. reflexivity.
Qed.

(* ---- _dispatch_queue_try_upgrade_full_width ---- *)
Lemma pbw_val w : 1 <= w <= 4095 ->
  u64 (1099511627776 + u64 (u64 (s32 (w - 1)) * 2199023255552)) = 1099511627776 + (w - 1) * 2199023255552.
Proof.
  intros Hw. assert (s32 (w - 1) = w - 1) as -> by (unfold s32; rewrite Z.mod_small by lia; lia).
  rewrite (u64_id'' (w - 1)) by lia. rewrite (u64_id'' ((w - 1) * 2199023255552)) by lia. rewrite u64_id'' by lia. reflexivity.
Qed.

Definition upg_wq (r : dqf) (k w : Z) : Z := f_wq r - k + (if f_pb r =? 1 then 0 else w - 1).
Definition upg_rec (r : dqf) (k w : Z) : dqf :=
  if upg_wq r k w <? 4096
  then mk (f_owner r) (f_tr r) (f_enq r) (f_mq r) (f_ov r) (f_role r) (f_em r) 0 0 (upg_wq r k w + 1) 1 0
  else mk (f_owner r) (f_tr r) (f_enq r) (f_mq r) (f_ov r) (f_role r) (f_em r) 0 1 (upg_wq r k w) 0 0.

Lemma upgrade_fields r k w : wfr r -> f_ib r = 0 -> f_hi r = 0 -> 1 <= w <= 4095 -> 0 <= k <= f_wq r ->
  upg_wq r k w < 8192 ->
  f_dispatch_queue_try_upgrade_full_width 0 (k * 2199023255552) w (enc r) =
  Commit (enc (upg_rec r k w)) (if upg_wq r k w <? 4096 then 1 else 0).
Proof.
  intros W Hib Hhi Hw Hk B. pose proof W as W'. unfold wfr in W'.
  unfold f_dispatch_queue_try_upgrade_full_width. cbv zeta. rewrite pbw_val by exact Hw.
  rewrite pending_barrier_f by exact W. unfold upg_rec, upg_wq in *.
  assert (E1 : u64 (enc r - k * 2199023255552) = enc (set_wq r (f_wq r - k))).
  { replace (enc r - k * 2199023255552) with (enc r + (- k) * 2199023255552) by lia. rewrite add_wq by (assumption || lia).
    f_equal. }
  rewrite E1.
  destruct (Z.eqb_spec (f_pb r) 1) as [Hp|Hp]; cbn [negb].
  - rewrite Z.add_0_r in *.
    assert (W1 : wfr (set_wq r (f_wq r - k))) by (apply set_wq_wf; [exact W|lia]).
    rewrite is_runnable_f by exact W1.
    change (f_hi (set_wq r (f_wq r - k))) with (f_hi r). change (f_ib (set_wq r (f_wq r - k))) with (f_ib r).
    change (f_wq (set_wq r (f_wq r - k))) with (f_wq r - k). rewrite Hhi, Hib. cbn [Z.eqb andb].
    destruct (Z.ltb_spec (f_wq r - k) 4096) as [Hq|Hq]; cbn [negb].
    + assert (E2 : u64 (u64 (u64 (enc (set_wq r (f_wq r - k)) + 2199023255552) + 18014398509481984) - 1099511627776) =
                   encode LAY [f_owner r; f_tr r; f_enq r; f_mq r; f_ov r; f_role r; f_em r; f_d r; 0; f_wq r - k + 1; 1; 0]).
      { rewrite enc_linear. unfold set_wq, mk. cbn [f_owner f_tr f_enq f_mq f_ov f_role f_em f_d f_pb f_wq f_ib f_hi].
        rewrite Hp, Hib, Hhi.
        match goal with |- u64 (u64 (u64 ?a + ?b) - ?c) = _ => rewrite (u64_id'' a) by lia; rewrite (u64_id'' (a + b)) by lia end.
        rewrite u64_id'' by lia. rewrite vec_linear. lia. }
      rewrite E2. vec_land 18446743523953737727. fsimp.
      f_equal. vec_land 18014398509481984. fsimp. rewrite vec_linear. reflexivity.
    + rewrite (enc_vec (set_wq r (f_wq r - k))). unfold set_wq, mk.
      cbn [f_owner f_tr f_enq f_mq f_ov f_role f_em f_d f_pb f_wq f_ib f_hi].
      vec_land 18446743523953737727. fsimp. rewrite Hp, Hib, Hhi.
      f_equal. vec_land 18014398509481984. fsimp. rewrite vec_linear. reflexivity.
  - assert (Hp0 : f_pb r = 0) by lia.
    assert (E3 : u64 (enc (set_wq r (f_wq r - k)) + (1099511627776 + (w - 1) * 2199023255552)) =
                 enc (mk (f_owner r) (f_tr r) (f_enq r) (f_mq r) (f_ov r) (f_role r) (f_em r) (f_d r) 1 (f_wq r - k + (w - 1)) 0 0)).
    { rewrite !enc_linear. unfold set_wq, mk. cbn [f_owner f_tr f_enq f_mq f_ov f_role f_em f_d f_pb f_wq f_ib f_hi].
      rewrite Hp0, Hib, Hhi. rewrite u64_id'' by lia. lia. }
    rewrite E3.
    assert (W3 : wfr (mk (f_owner r) (f_tr r) (f_enq r) (f_mq r) (f_ov r) (f_role r) (f_em r) (f_d r) 1 (f_wq r - k + (w - 1)) 0 0))
      by wf_mk.
    rewrite is_runnable_f by exact W3.
    replace ((f_hi (mk (f_owner r) (f_tr r) (f_enq r) (f_mq r) (f_ov r) (f_role r) (f_em r) (f_d r) 1 (f_wq r - k + (w - 1)) 0 0) =? 0) &&
             (f_ib (mk (f_owner r) (f_tr r) (f_enq r) (f_mq r) (f_ov r) (f_role r) (f_em r) (f_d r) 1 (f_wq r - k + (w - 1)) 0 0) =? 0) &&
             (f_wq (mk (f_owner r) (f_tr r) (f_enq r) (f_mq r) (f_ov r) (f_role r) (f_em r) (f_d r) 1 (f_wq r - k + (w - 1)) 0 0) <? 4096))
      with (f_wq r - k + (w - 1) <? 4096) by reflexivity.
    destruct (Z.ltb_spec (f_wq r - k + (w - 1)) 4096) as [Hq|Hq]; cbn [negb].
    + assert (E2 : u64 (u64 (u64 (enc (mk (f_owner r) (f_tr r) (f_enq r) (f_mq r) (f_ov r) (f_role r) (f_em r) (f_d r) 1
                                      (f_wq r - k + (w - 1)) 0 0) + 2199023255552) + 18014398509481984) - 1099511627776) =
                   encode LAY [f_owner r; f_tr r; f_enq r; f_mq r; f_ov r; f_role r; f_em r; f_d r; 0; f_wq r - k + (w - 1) + 1; 1; 0]).
      { rewrite enc_linear. unfold mk. cbn [f_owner f_tr f_enq f_mq f_ov f_role f_em f_d f_pb f_wq f_ib f_hi].
        match goal with |- u64 (u64 (u64 ?a + ?b) - ?c) = _ => rewrite (u64_id'' a) by lia; rewrite (u64_id'' (a + b)) by lia end.
        rewrite u64_id'' by lia. rewrite vec_linear. lia. }
      rewrite E2. vec_land 18446743523953737727. fsimp.
      f_equal. vec_land 18014398509481984. fsimp. rewrite vec_linear. reflexivity.
    + rewrite enc_vec. unfold mk. cbn [f_owner f_tr f_enq f_mq f_ov f_role f_em f_d f_pb f_wq f_ib f_hi].
      vec_land 18446743523953737727. fsimp.
      f_equal. vec_land 18014398509481984. fsimp. rewrite vec_linear. reflexivity.
Qed.

(* ---- _dispatch_queue_adjust_owned for a barrier next item, and giving the adjusted amount back ---- *)
Lemma u64_sub_u64 a b : u64 (a - u64 b) = u64 (a - b).
Proof. unfold u64. apply Zminus_mod_idemp_r. Qed.

Lemma adjust_owned_val owned w : 2 <= w <= 4095 ->
  f_dispatch_queue_adjust_owned 0 owned 1 w 1 = u64 (owned - (1099511627776 + (w - 1) * 2199023255552)).
Proof.
  intros Hw. unfold f_dispatch_queue_adjust_owned. cbv zeta.
  destruct (Z.gtb_spec w 1); [|lia]. cbn [negb]. change (nz 1) with true. cbn [andb].
  rewrite pbw_val by lia. reflexivity.
Qed.

Lemma sub_adjusted r ow w : wfr r -> f_pb r = 0 -> 2 <= w <= 4095 -> 0 <= ow <= f_wq r -> f_wq r - ow + w - 1 < 8192 ->
  u64 (enc r - f_dispatch_queue_adjust_owned 0 (ow * 2199023255552) 1 w 1) =
  enc (mk (f_owner r) (f_tr r) (f_enq r) (f_mq r) (f_ov r) (f_role r) (f_em r) (f_d r) 1 (f_wq r - ow + w - 1) (f_ib r) (f_hi r)).
Proof.
  intros W Hp Hw Ho B. pose proof W as W'. unfold wfr in W'.
  rewrite adjust_owned_val by exact Hw. rewrite u64_sub_u64.
  rewrite !enc_linear. unfold mk. cbn [f_owner f_tr f_enq f_mq f_ov f_role f_em f_d f_pb f_wq f_ib f_hi]. rewrite Hp.
  rewrite u64_id'' by lia. lia.
Qed.

(* ---- _dispatch_queue_drain_try_unlock, the amount given back being described by its effect r0 on the fields ---- *)
Lemma unlock_fields_w r r0 op done : wfr r -> wfr r0 -> u64 (enc r - op) = enc r0 -> f_hi r = 0 ->
  f_dispatch_queue_drain_try_unlock 0 op done (enc r) =
  if f_d r =? 1 then NoCommit 0 [AXor 0 549755813888 Acquire]
  else Commit (enc (if nz done
                    then mk 0 0 (f_enq r0) 0 0 (f_role r0) (f_em r0) (f_d r0) (f_pb r0) (f_wq r0) (f_ib r0) (f_hi r0)
                    else mk 0 0 (f_enq r0) (f_mq r0) 0 (f_role r0) (f_em r0) 1 (f_pb r0) (f_wq r0) (f_ib r0) (f_hi r0))) 1.
Proof.
  intros W W0 E Hhi. pose proof W0 as W0'. unfold wfr in W0'.
  unfold f_dispatch_queue_drain_try_unlock. cbv zeta. rewrite E.
  rewrite is_suspended_f by exact W. rewrite Hhi. cbn [Z.ltb Z.compare negb].
  rewrite is_dirty_f by exact W.
  destruct (f_d r =? 1); cbn [negb]; [reflexivity|].
  rewrite (enc_vec r0). vec_land 18446744037202329600. fsimp.
  destruct (nz done); cbn [negb].
  - vec_land 18446744043644780543. fsimp. destruct (nz (f_dq_state_received_override (enc r))); reflexivity.
  - vec_lor 549755813888. fsimp. destruct (nz (f_dq_state_received_override (enc r))); reflexivity.
Qed.

(* ---- the plain atomic operations on IN_BARRIER ---- *)
Lemma xor_ib_fields r : wfr r ->
  Z.lxor (enc r) 18014398509481984 =
  enc (mk (f_owner r) (f_tr r) (f_enq r) (f_mq r) (f_ov r) (f_role r) (f_em r) (f_d r) (f_pb r) (f_wq r) (1 - f_ib r) (f_hi r)).
Proof.
  intros W. pose proof W as W'. unfold wfr in W'. rewrite (enc_vec r). vec_lxor 18014398509481984. fsimp. reflexivity.
Qed.
Lemma and_not_ib_fields r : wfr r ->
  Z.land (enc r) 18428729675200069631 =
  enc (mk (f_owner r) (f_tr r) (f_enq r) (f_mq r) (f_ov r) (f_role r) (f_em r) (f_d r) (f_pb r) (f_wq r) 0 (f_hi r)).
Proof.
  intros W. pose proof W as W'. unfold wfr in W'. rewrite (enc_vec r). vec_land 18428729675200069631. fsimp. reflexivity.
Qed.

(* ---- which flag bits a committed transition changed ---- *)
Lemma land_pow2_testbit x k : 0 <= k -> nz (Z.land x (2 ^ k)) = Z.testbit x k.
Proof.
  intros Hk. unfold nz. destruct (Z.testbit x k) eqn:B.
  - destruct (Z.eqb_spec (Z.land x (2 ^ k)) 0) as [E|E]; [|reflexivity].
    assert (X : Z.testbit (Z.land x (2 ^ k)) k = false) by (rewrite E; apply Z.bits_0).
    rewrite Z.land_spec, B, Z.pow2_bits_true in X by lia. discriminate.
  - destruct (Z.eqb_spec (Z.land x (2 ^ k)) 0) as [E|E]; [reflexivity|]. exfalso. apply E.
    apply Z.bits_inj'. intros i Hi. rewrite Z.land_spec, Z.bits_0, Z.pow2_bits_eqb by lia.
    destruct (Z.eqb_spec k i) as [<-|]; [rewrite B; reflexivity | apply andb_false_r].
Qed.

Lemma testbit_ib r : wfr r -> Z.testbit (enc r) 54 = (f_ib r =? 1).
Proof.
  intros W. pose proof W as W'. unfold wfr in W'.
  rewrite <- (land_pow2_testbit (enc r) 54) by lia. change (2 ^ 54) with 18014398509481984.
  rewrite enc_vec. vec_land 18014398509481984. fsimp. rewrite vec_linear. unfold nz.
  assert (f_ib r = 0 \/ f_ib r = 1) as [->| ->] by lia; reflexivity.
Qed.
Lemma testbit_enq r : wfr r -> Z.testbit (enc r) 31 = (f_enq r =? 1).
Proof.
  intros W. pose proof W as W'. unfold wfr in W'.
  rewrite <- (land_pow2_testbit (enc r) 31) by lia. change (2 ^ 31) with 2147483648.
  rewrite enc_vec. vec_land 2147483648. fsimp. rewrite vec_linear. unfold nz.
  assert (f_enq r = 0 \/ f_enq r = 1) as [->| ->] by lia; reflexivity.
Qed.

Lemma changed_ib_f r r' : wfr r -> wfr r' ->
  nz (Z.land (Z.lxor (enc r) (enc r')) 18014398509481984) = negb (f_ib r =? f_ib r').
Proof.
  intros W W'. change 18014398509481984 with (2 ^ 54). rewrite land_pow2_testbit by lia.
  rewrite Z.lxor_spec, !testbit_ib by assumption. unfold wfr in *.
  assert (f_ib r = 0 \/ f_ib r = 1) as [->| ->] by lia; assert (f_ib r' = 0 \/ f_ib r' = 1) as [->| ->] by lia; reflexivity.
Qed.
Lemma changed_enq_f r r' : wfr r -> wfr r' ->
  nz (Z.land (Z.lxor (enc r) (enc r')) 2147483648) = negb (f_enq r =? f_enq r').
Proof.
  intros W W'. change 2147483648 with (2 ^ 31). rewrite land_pow2_testbit by lia.
  rewrite Z.lxor_spec, !testbit_enq by assumption. unfold wfr in *.
  assert (f_enq r = 0 \/ f_enq r = 1) as [->| ->] by lia; assert (f_enq r' = 0 \/ f_enq r' = 1) as [->| ->] by lia; reflexivity.
Qed.

Lemma barrier_waiter_fields0 r dc fl u nd : wfr r -> f_role r < 2 -> 0 < u < 1073741824 ->
  drain_barrier_waiter_loop 0 dc fl 0 (enc r) (Z.land u 1073741823) nd =
  Commit (enc (mk u 0 (f_enq r) (f_mq r) 0 (f_role r) (f_em r) 0 (f_pb r) (f_wq r) (f_ib r) (f_hi r))) 0.
Proof.
  intros W Hr Hu. pose proof W as W'. unfold wfr in W'.
  pose proof (barrier_waiter_fields r dc fl 0 u nd W Hr Hu ltac:(lia)) as H.
  change (2147483648 * 0) with 0 in H. rewrite Z.sub_0_r in H. exact H.
Qed.
Lemma barrier_waiter_fields1 r dc fl u nd : wfr r -> f_role r < 2 -> 0 < u < 1073741824 -> f_enq r = 1 ->
  drain_barrier_waiter_loop 0 dc fl 2147483648 (enc r) (Z.land u 1073741823) nd =
  Commit (enc (mk u 0 0 (f_mq r) 0 (f_role r) (f_em r) 0 (f_pb r) (f_wq r) (f_ib r) (f_hi r))) 0.
Proof.
  intros W Hr Hu He.
  pose proof (barrier_waiter_fields r dc fl 1 u nd W Hr Hu ltac:(lia)) as H.
  change (2147483648 * 1) with 2147483648 in H. rewrite He in H. exact H.
Qed.
