(* HLane_inv.v — the invariant of the target-queue hierarchy model (Model/HLane.v) and its frame lemmas: what a step
   of one thread on one lane leaves untouched for the other lanes and the other threads.  The steps themselves are in
   HLane_proofs.v. *)
From Coq Require Import ZArith Bool List Lia FinFun Permutation.
From Verif Require Import Word Bits Fields DqFields Conc Gen_consts Gen_dqstate Lane_fields HLane_fields HLane.
Import ListNotations.
Local Open Scope Z_scope.

Definition OWN := 18014398509481984 + 2199023255552 + 2147483648.
Lemma OWN_is_OWNED : OWN = OWNED.    (* the constant the correspondence check passes as `owned` *)
Proof. reflexivity. Qed.

Definition is_drain (p : pc) : bool :=
  match p with PA_xchg _ _ | PA_link _ _ _ | PA_probe _ _ | PA_wake _ _ | PA_tpush _ => false | _ => true end.
Definition locked_pc (p : pc) : bool :=
  match p with
  | PW_tail _ | PW_head _ | PW_pop _ | PW_run _ _ _ | PW_incall _ _ _ | PW_invoking _ _ _ | PW_next _ _ | PW_unlock _
  | PW_xor _ | PW_finish _ => true
  | _ => false
  end.
Definition unlocking_pc (p : pc) : bool := match p with PW_unlock _ | PW_xor _ => true | _ => false end.
Definition waker_pc (p : pc) : bool :=
  match p with PA_link _ true _ | PA_probe _ true | PA_wake _ true => true | _ => false end.
Definition owned_of (p : pc) : option Z :=
  match p with
  | PW_tail o | PW_head o | PW_pop o | PW_run o _ _ | PW_incall o _ _ | PW_invoking o _ _ | PW_next o _ | PW_unlock o
  | PW_xor o | PW_finish o => Some o
  | _ => None
  end.
Definition qos_of (p : pc) : option Z :=
  match p with PA_xchg _ q | PA_link _ _ q | PA_probe q _ | PA_wake q _ | PA_tpush q => Some q | _ => None end.

(* the lanes whose enqueued token a frame holds *)
Definition frame_tokens (f : frame) : list Z :=
  let '(l, p) := f in
  match p with
  | PA_xchg (WLane l') _ => [l']          (* about to put lane l' into this frame's lane *)
  | PA_tpush _ => [l]                     (* set ENQUEUED of l, about to push it on its target *)
  | PW_run _ (Lane l') _ => [l; l']       (* draining l, has just popped lane l' from it *)
  | _ => if is_drain p then [l] else []
  end.
Definition holds (k : list frame) : list Z := flat_map frame_tokens k.

(* the program point of the drain frame of lane l in a stack *)
Fixpoint dpc (k : list frame) (l : Z) : option pc :=
  match k with
  | [] => None
  | (x, p) :: r => if (x =? l) && is_drain p then Some p else dpc r l
  end.

Definition topwaker (k : list frame) : option Z :=
  match k with (l, p) :: _ => if waker_pc p then Some l else None | [] => None end.

Definition lockedb (o : option pc) : bool := match o with Some p => locked_pc p | None => false end.
Definition inflight_pc (o : option pc) : list Z := match o with Some (PW_run _ (Item i) _) => [i] | _ => [] end.
Definition hpc (s : gst) (l : Z) : option pc :=
  match token s l with Some (Some w) => dpc (stk s w) l | _ => None end.

Definition items (l : list entry) : list Z :=
  flat_map (fun e => match e_ent e with Item i => [i] | Lane _ => [] end) l.
Fixpoint count_lane (x : Z) (l : list entry) : nat :=
  match l with
  | [] => O
  | e :: r => Nat.add (match e_ent e with Lane y => if Z.eqb y x then 1%nat else 0%nat | Item _ => 0%nat end) (count_lane x r)
  end.

Definition zrange (n : Z) : list Z := map Z.of_nat (seq 0 (Z.to_nat n)).

Definition free (r : dqf) : Prop := f_owner r = 0 /\ f_ib r = 0 /\ f_wq r = 4095.
Definition held (r : dqf) (w : Z) : Prop := f_owner r = w /\ f_ib r = 1 /\ f_wq r = 4096.

Section Inv.
  Variable F : forest.

  (* a frame carries the constants the code computed *)
  Definition frame_ok (f : frame) : Prop :=
    let '(l, p) := f in
    (forall o, owned_of p = Some o -> o = OWN) /\
    (forall q, qos_of p = Some q -> 0 <= q < 8) /\
    match p with
    | PA_xchg (WLane l') _ => target F l' = Some l
    | PW_run _ (Lane l') _ => target F l' = Some l
    | PW_invoking _ l' _ => target F l' = Some l
    | PW_finish _ => target F l <> None
    | _ => True
    end.

  (* the drain frames of a stack form a path of the forest, ending at a bottom; every frame below another one is
     inside dx_invoke of the lane of the frame above it *)
  Fixpoint chain (child : option Z) (k : list frame) : Prop :=
    match k with
    | [] => match child with Some c => target F c = None | None => True end
    | (l, p) :: r =>
        is_drain p = true /\
        match child with
        | Some c => target F c = Some l /\ exists o m, p = PW_invoking o c m
        | None => True
        end /\
        chain (Some l) r
    end.
  Definition not_invoking (p : pc) : Prop := forall o c m, p <> PW_invoking o c m.
  Definition shape (k : list frame) : Prop :=
    match k with
    | [] => True
    | (l, p) :: r =>
        if is_drain p then chain None k /\ not_invoking p
        else chain None r /\
             match r with
             | [] => True
             | (_, q) :: _ => (exists o i m, q = PW_incall o i m) \/ (exists o c m, q = PW_invoking o c m)
             end
    end.

  Record linv (s : gst) (l : Z) (r : dqf) : Prop := {
    g_enc : st s l = enc r;
    g_wf : wfr r;
    g_tr : f_tr r = 0;
    g_em : f_em r = 0;
    g_pb : f_pb r = 0;
    g_hi : f_hi r = 0;
    g_role : f_role r = rolebits F l;
    g_enq : f_enq r = 1 <-> token s l <> None;
    g_rootq : rootq s l = (match token s l, target F l with Some None, None => 1 | _, _ => 0 end);
    (* the lane object is linked into at most one list, once: the list of its target, exactly while the token says so *)
    g_where : forall p, count_lane l (lst s p) =
                        (match token s l, target F l with
                         | Some None, Some p' => if p' =? p then 1%nat else 0%nat
                         | _, _ => 0%nat
                         end);
    g_lock : match token s l with
             | Some (Some w) => valid_tid w /\ (if lockedb (dpc (stk s w) l) then held r w else free r)
             | _ => free r
             end;
    (* a non-empty list always has somebody responsible for it *)
    g_nostrand : lst s l <> [] -> token s l <> None \/ wakers s l <> [];
    (* ... and the drainer about to give the lane back cannot miss it: DIRTY is set *)
    g_dirty : forall w p, token s l = Some (Some w) -> dpc (stk s w) l = Some p -> unlocking_pc p = true ->
                          lst s l <> [] -> wakers s l = [] -> f_d r = 1;
    g_nodup : NoDup (wakers s l);
    g_nextid : 0 <= nextid s l;
    g_order : rev (started s l) ++ inflight_pc (hpc s l) ++ items (lst s l) = zrange (nextid s l)
  }.

  Definition tinv (s : gst) (t : Z) : Prop :=
    NoDup (holds (stk s t)) /\
    (forall l, In l (holds (stk s t)) <-> token s l = Some (Some t)) /\
    (forall l, In t (wakers s l) <-> topwaker (stk s t) = Some l) /\
    shape (stk s t) /\
    Forall frame_ok (stk s t).

  Definition Inv (s : gst) : Prop := (forall l, exists r, linv s l r) /\ forall t, tinv s t.

  (* ---------------------------------------------------------------- small list facts *)
  Lemma in_remove_z t u l : In u (remove_z t l) <-> In u l /\ u <> t.
  Proof.
    induction l as [|x l IH]; cbn [remove_z In]; [tauto|].
    destruct (Z.eqb_spec x t) as [->|Hx]; cbn [In]; rewrite IH; split.
    - intros [H1 H2]; auto.
    - intros [[H1|H1] H2]; [congruence|auto].
    - intros [H1|[H1 H2]]; [subst; auto|auto].
    - intros [[H1|H1] H2]; auto.
  Qed.

  Lemma nodup_remove_z t l : NoDup l -> NoDup (remove_z t l).
  Proof.
    induction 1 as [|x l Hx Hl IH]; cbn [remove_z]; [constructor|].
    destruct (x =? t); [exact IH|]. constructor; [|exact IH]. rewrite in_remove_z. tauto.
  Qed.

  Lemma remove_z_nil_iff t l : NoDup l -> (remove_z t l = [] <-> (l = [] \/ l = [t])).
  Proof.
    intros ND. destruct l as [|x l]; cbn [remove_z]; [tauto|].
    destruct (Z.eqb_spec x t) as [->|Hx].
    - inversion ND as [|y l' Hy Hl]; subst. split.
      + intros E. right. destruct l as [|z l]; [reflexivity|]. exfalso.
        assert (In z (remove_z t (z :: l))) by (apply in_remove_z; split; [left; reflexivity | intros ->; apply Hy; left; reflexivity]).
        rewrite E in H. contradiction.
      + intros [E|E]; [discriminate|]. injection E as ->. reflexivity.
    - split; [discriminate | intros [E|E]; [discriminate | congruence]].
  Qed.

  Lemma zrange_succ n : 0 <= n -> zrange (n + 1) = zrange n ++ [n].
  Proof.
    intros H. unfold zrange. replace (Z.to_nat (n + 1)) with (S (Z.to_nat n)) by lia.
    rewrite seq_S, map_app. cbn [map plus]. rewrite Z2Nat.id by lia. reflexivity.
  Qed.

  Lemma zrange_nodup n : NoDup (zrange n).
  Proof. unfold zrange. apply FinFun.Injective_map_NoDup; [|apply seq_NoDup]. intros a b H. lia. Qed.

  Lemma in_zrange n x : In x (zrange n) <-> 0 <= x < n.
  Proof.
    unfold zrange. rewrite in_map_iff. split.
    - intros [k [<- Hk]]. apply in_seq in Hk. lia.
    - intros H. exists (Z.to_nat x). split; [lia|]. apply in_seq. lia.
  Qed.

  Lemma items_app a b : items (a ++ b) = items a ++ items b.
  Proof. unfold items. apply flat_map_app. Qed.

  Lemma items_link l e : items (link_ent l e) = items l.
  Proof.
    induction l as [|x l IH]; cbn [link_ent]; [reflexivity|].
    destruct (ent_eqb (e_ent x) e && negb (e_linked x)) eqn:E.
    - apply andb_true_iff in E. destruct E as [E _]. unfold items. cbn [flat_map e_ent].
      destruct (e_ent x) as [i|y], e as [j|z]; cbn [ent_eqb] in E; try discriminate; apply Z.eqb_eq in E; subst; reflexivity.
    - unfold items in *. cbn [flat_map]. rewrite IH. reflexivity.
  Qed.

  Lemma count_app x a b : count_lane x (a ++ b) = (count_lane x a + count_lane x b)%nat.
  Proof. induction a as [|e a IH]; cbn [count_lane app]; [reflexivity|]. rewrite IH. lia. Qed.

  Lemma count_link x l e : count_lane x (link_ent l e) = count_lane x l.
  Proof.
    induction l as [|y l IH]; cbn [link_ent]; [reflexivity|].
    destruct (ent_eqb (e_ent y) e && negb (e_linked y)) eqn:E.
    - apply andb_true_iff in E. destruct E as [E _]. cbn [count_lane e_ent].
      destruct (e_ent y) as [i|a], e as [j|b]; cbn [ent_eqb] in E; try discriminate; apply Z.eqb_eq in E; subst; reflexivity.
    - cbn [count_lane]. rewrite IH. reflexivity.
  Qed.

  Lemma link_nil_iff l e : link_ent l e = [] <-> l = [].
  Proof.
    destruct l as [|x l]; cbn [link_ent]; [tauto|]. destruct (ent_eqb (e_ent x) e && negb (e_linked x)); split; discriminate.
  Qed.

  Lemma count_pos_in x l : (0 < count_lane x l)%nat -> exists e, In e l /\ e_ent e = Lane x.
  Proof.
    induction l as [|e l IH]; cbn [count_lane]; [lia|]. intros H.
    destruct (e_ent e) as [i|y] eqn:E.
    - destruct IH as (e' & H1 & H2); [lia|]. exists e'. split; [right; exact H1 | exact H2].
    - destruct (Z.eqb_spec y x) as [->|N].
      + exists e. split; [left; reflexivity | exact E].
      + destruct IH as (e' & H1 & H2); [lia|]. exists e'. split; [right; exact H1 | exact H2].
  Qed.

  Lemma in_count_pos x l e : In e l -> e_ent e = Lane x -> (0 < count_lane x l)%nat.
  Proof.
    induction l as [|y l IH]; cbn [In count_lane]; [contradiction|]. intros [->|H] E.
    - rewrite E, Z.eqb_refl. lia.
    - specialize (IH H E). lia.
  Qed.

  (* ---------------------------------------------------------------- stacks *)
  Lemma dpc_cons_other l p r x : x <> l -> dpc ((l, p) :: r) x = dpc r x.
  Proof. intros N. cbn [dpc]. destruct (Z.eqb_spec l x); [congruence|reflexivity]. Qed.

  Lemma dpc_cons_pa l p r x : is_drain p = false -> dpc ((l, p) :: r) x = dpc r x.
  Proof. intros N. cbn [dpc]. rewrite N, andb_false_r. reflexivity. Qed.

  Lemma dpc_cons_same l p r : is_drain p = true -> dpc ((l, p) :: r) l = Some p.
  Proof. intros N. cbn [dpc]. rewrite N, Z.eqb_refl. reflexivity. Qed.

  Lemma holds_cons f r : holds (f :: r) = frame_tokens f ++ holds r.
  Proof. reflexivity. Qed.

  Lemma holds_ret r : holds (ret r) = holds r.
  Proof. destruct r as [|[p q] r]; [reflexivity|]. destruct q; reflexivity. Qed.

  (* a drain frame holds the token of its lane *)
  Lemma dpc_holds k l p : dpc k l = Some p -> In l (holds k).
  Proof.
    induction k as [|[x q] k IH]; cbn [dpc]; [discriminate|]. intros H. rewrite holds_cons. apply in_or_app.
    destruct (Z.eqb_spec x l) as [->|N]; cbn [andb] in H.
    - destruct (is_drain q) eqn:D.
      + left. unfold frame_tokens. destruct q; cbn in D |- *; try discriminate; try (left; reflexivity).
        destruct e; left; reflexivity.
      + right. apply IH. exact H.
    - right. apply IH. exact H.
  Qed.

  Lemma dpc_none_not_holds_drain k l : ~ In l (holds k) -> dpc k l = None.
  Proof. intros H. destruct (dpc k l) eqn:E; [|reflexivity]. exfalso. apply H. eapply dpc_holds. exact E. Qed.

  (* what the frame lemma for a lane needs to know about the holder's drain frame *)
  Definition dsim (s : gst) (x : Z) (o' o : option pc) : Prop :=
    lockedb o' = lockedb o /\ inflight_pc o' = inflight_pc o /\
    (forall p', o' = Some p' -> unlocking_pc p' = true -> (exists p, o = Some p /\ unlocking_pc p = true) \/ lst s x = []).

  Lemma dsim_refl s x o : dsim s x o o.
  Proof. repeat split. intros p' E U. left. exists p'. auto. Qed.

  Lemma dsim_eq s x o' o : o' = o -> dsim s x o' o.
  Proof. intros ->. apply dsim_refl. Qed.

  Lemma dpc_ret_sim s x r : dsim s x (dpc (ret r) x) (dpc r x).
  Proof.
    destruct r as [|[p q] r]; [apply dsim_refl|].
    destruct q; try apply dsim_refl. cbn [ret dpc is_drain].
    destruct ((p =? x) && true); [|apply dsim_refl].
    repeat split. intros p' E U. injection E as <-. discriminate.
  Qed.

  (* ---------------------------------------------------------------- frame lemmas *)
  Lemma linv_frame s s' x r :
    linv s x r ->
    st s' x = st s x -> lst s' x = lst s x -> rootq s' x = rootq s x -> nextid s' x = nextid s x ->
    started s' x = started s x -> token s' x = token s x -> wakers s' x = wakers s x ->
    (forall p, count_lane x (lst s' p) = count_lane x (lst s p)) ->
    (forall w, token s x = Some (Some w) -> dsim s x (dpc (stk s' w) x) (dpc (stk s w) x)) ->
    linv s' x r.
  Proof.
    intros G E1 E2 E3 E4 E5 E6 E7 C D. destruct G.
    constructor; rewrite ?E1, ?E2, ?E3, ?E4, ?E5, ?E6, ?E7; auto.
    - intros p. rewrite C. apply g_where0.
    - destruct (token s x) as [[w|]|] eqn:K; auto. destruct (D w eq_refl) as (D1 & _ & _). rewrite D1. exact g_lock0.
    - intros w p K Hp U L Wk. destruct (D w K) as (_ & _ & D3).
      destruct (D3 p Hp U) as [(p0 & Hp0 & U0)|L0]; [|contradiction]. apply (g_dirty0 w p0); auto.
    - unfold hpc in *. rewrite E6. destruct (token s x) as [[w|]|] eqn:K; auto.
      destruct (D w eq_refl) as (_ & D2 & _). rewrite D2. exact g_order0.
  Qed.

  Lemma tinv_other s s' u :
    tinv s u -> stk s' u = stk s u ->
    (forall l, token s' l = Some (Some u) <-> token s l = Some (Some u)) ->
    (forall l, In u (wakers s' l) <-> In u (wakers s l)) ->
    tinv s' u.
  Proof.
    intros (T1 & T2 & T3 & T4 & T5) E K W. unfold tinv. rewrite E. repeat split; auto.
    - intros H. apply K. apply T2. exact H.
    - intros H. apply T2. apply K. exact H.
    - intros H. apply T3. apply W. exact H.
    - intros H. apply W. apply T3. exact H.
  Qed.
End Inv.
