(* IoOp_proofs.v — theorems about Model/IoOp.v for every sequence of system call results and every placement of
   close / stop / timer ticks / cleanup (induction over the event list; no bound on sizes). *)
From Coq Require Import ZArith List Bool Lia.
From Verif Require Import Word IoOp.
Import ListNotations.
Local Open Scope Z_scope.

(* ------------------------------------------------------------------ lists *)
Lemma zlen_nil {A} : zlen (@nil A) = 0. Proof. reflexivity. Qed.
Lemma zlen_app {A} (a b : list A) : zlen (a ++ b) = zlen a + zlen b.
Proof. unfold zlen. rewrite app_length. lia. Qed.
Lemma zlen_nonneg {A} (a : list A) : 0 <= zlen a. Proof. unfold zlen. lia. Qed.
Lemma zlen_0_nil {A} (a : list A) : zlen a = 0 -> a = [].
Proof. destruct a; auto. unfold zlen; simpl; lia. Qed.
Lemma flat_app a b : flat (a ++ b) = flat a ++ flat b.
Proof. unfold flat. apply concat_app. Qed.
Lemma flat_snoc a b : flat (a ++ [b]) = flat a ++ b.
Proof. rewrite flat_app. unfold flat. simpl. now rewrite app_nil_r. Qed.
Lemma dsize_snoc a b : dsize (a ++ [b]) = dsize a + zlen b.
Proof. unfold dsize. now rewrite flat_snoc, zlen_app. Qed.
Lemma dsize_nonneg d : 0 <= dsize d. Proof. apply zlen_nonneg. Qed.
Lemma dsize_nil : dsize [] = 0. Proof. reflexivity. Qed.
Lemma dsize_0_flat d : dsize d = 0 -> flat d = [].
Proof. apply zlen_0_nil. Qed.

Lemma zlen_firstn {A} n (l : list A) : 0 <= n -> zlen (firstn (Z.to_nat n) l) = Z.min n (zlen l).
Proof. intros. unfold zlen. rewrite firstn_length. lia. Qed.
Lemma zlen_skipn {A} n (l : list A) : 0 <= n -> zlen (skipn (Z.to_nat n) l) = Z.max 0 (zlen l - n).
Proof. intros. unfold zlen. rewrite skipn_length. lia. Qed.

Lemma flat_rdrop : forall d n, 0 <= n -> flat (rdrop n d) = skipn (Z.to_nat n) (flat d).
Proof.
  induction d as [|r t IH]; intros n Hn; simpl.
  - now rewrite skipn_nil.
  - destruct (Z.leb_spec n 0).
    + replace n with 0 by lia. reflexivity.
    + destruct (Z.leb_spec (zlen r) n).
      * rewrite IH by lia. unfold flat. simpl. fold (flat t).
        rewrite skipn_app. unfold zlen in *.
        rewrite (skipn_all2 r) by lia. simpl.
        f_equal. lia.
      * unfold flat. simpl. fold (flat t). rewrite skipn_app. unfold zlen in *.
        replace (Z.to_nat n - length r)%nat with 0%nat by lia. reflexivity.
Qed.

Lemma flat_rtake : forall d n, 0 <= n -> flat (rtake n d) = firstn (Z.to_nat n) (flat d).
Proof.
  induction d as [|r t IH]; intros n Hn; simpl.
  - now rewrite firstn_nil.
  - destruct (Z.leb_spec n 0).
    + replace n with 0 by lia. reflexivity.
    + destruct (Z.leb_spec (zlen r) n).
      * unfold flat. simpl. fold (flat t) (flat (rtake (n - zlen r) t)). rewrite IH by lia.
        rewrite firstn_app. unfold zlen in *. rewrite (firstn_all2 r) by lia. f_equal. f_equal. lia.
      * unfold flat. simpl. fold (flat t). rewrite app_nil_r. rewrite firstn_app. unfold zlen in *.
        replace (Z.to_nat n - length r)%nat with 0%nat by lia. simpl. now rewrite app_nil_r.
Qed.

Lemma flat_dsub d off len : 0 <= off -> 0 <= len ->
  flat (dsub d off len) = firstn (Z.to_nat len) (skipn (Z.to_nat off) (flat d)).
Proof. intros. unfold dsub. rewrite flat_rtake, flat_rdrop; auto. Qed.

Lemma firstn_ge_all {A} n (l : list A) : zlen l <= n -> firstn (Z.to_nat n) l = l.
Proof. intros. apply firstn_all2. unfold zlen in *. lia. Qed.

Lemma firstn_add_skipn {A} (a b : nat) (l : list A) : firstn a l ++ firstn b (skipn a l) = firstn (a + b) l.
Proof.
  revert l. induction a; intros l; simpl; auto.
  destruct l; simpl. now rewrite firstn_nil. now rewrite IHa.
Qed.

(* ------------------------------------------------------------------ handler invocations *)
Definition cbytes (k : call) : list Z := match c_data k with Some l => l | None => [] end.
Definition cdata (cs : list call) : list Z := concat (map cbytes cs).
Lemma cdata_app a b : cdata (a ++ b) = cdata a ++ cdata b.
Proof. unfold cdata. now rewrite map_app, concat_app. Qed.

Definition all_notdone (cs : list call) : Prop := Forall (fun k => c_done k = false) cs.
Definition done_last (cs : list call) : Prop :=
  exists pre k, cs = pre ++ [k] /\ c_done k = true /\ all_notdone pre.

Lemma handler_calls_notdone w fl forced d err tot :
  f_done fl = false -> all_notdone (handler_calls w fl forced d err tot).
Proof. intros H. unfold handler_calls. rewrite H. repeat constructor. Qed.

Lemma handler_calls_done w fl forced d err tot :
  f_done fl = true -> done_last (handler_calls w fl forced d err tot).
Proof.
  intros H. unfold handler_calls, done_last. rewrite H.
  destruct (negb w && negb (err =? 0)).
  - destruct (negb (dsize d =? 0)).
    + exists [mkCall false (Some (flat d)) 0 tot forced], (mkCall true None err tot forced).
      repeat split; auto. repeat constructor.
    + exists [], (mkCall true None err tot forced). repeat split; auto. constructor.
  - destruct (w && (err =? 0)).
    + exists [], (mkCall true None err tot forced). repeat split; auto. constructor.
    + exists [], (mkCall true (Some (flat d)) err tot forced). repeat split; auto. constructor.
Qed.

(* deliver_data without DOP_DONE never sets done; with DOP_DONE it always invokes the handler, done on the last call *)
Lemma deliver_notdone stp fl o : f_done fl = false -> all_notdone (snd (deliver_data stp fl o)).
Proof.
  intros H. unfold deliver_data.
  destruct (dd_decide _ _ _ _) as [[[ret deliver] err] o1].
  destruct ret; [constructor|].
  destruct (dd_data deliver o1) as [d o2]. unfold dd_finish.
  destruct (negb deliver || _); [constructor|]. now apply handler_calls_notdone.
Qed.

Lemma deliver_done stp o : done_last (snd (deliver_data stp FL_DONE o)).
Proof.
  unfold deliver_data. cbn [f_deliver f_done FL_DONE orb].
  unfold dd_decide. cbn [negb].
  destruct ((o_err (set_flagd o false) =? 0) && stp);
    (destruct (dd_data true _) as [d o2]; unfold dd_finish; cbn [negb orb f_noempty FL_DONE andb];
     now apply handler_calls_done).
Qed.

(* ------------------------------------------------------------------ done exactly once, on the last invocation *)
Definition DoneInv (s : st) : Prop :=
  match s_phase s with Completed => done_last (s_calls s) | _ => all_notdone (s_calls s) end.

Lemma complete_phase s : s_phase (complete s) = Completed.
Proof. unfold complete. now destruct (deliver_data _ _ _). Qed.
Lemma complete_done s : all_notdone (s_calls s) -> done_last (s_calls (complete s)).
Proof.
  intros H. unfold complete. pose proof (deliver_done (s_stopped s) (s_op s)) as D.
  destruct (deliver_data _ _ _) as [o cs]. cbn in *.
  destruct D as (pre & k & -> & Hk & Hp). exists (s_calls s ++ pre), k.
  rewrite app_assoc. repeat split; auto. apply Forall_app; auto.
Qed.
Lemma complete_DoneInv s : all_notdone (s_calls s) -> DoneInv (complete s).
Proof. intros. unfold DoneInv. rewrite complete_phase. now apply complete_done. Qed.

Lemma with_deliver_phase s fl ph : s_phase (with_deliver s fl ph) = ph.
Proof. unfold with_deliver. now destruct (deliver_data _ _ _). Qed.
Lemma with_deliver_notdone s fl ph : f_done fl = false -> all_notdone (s_calls s) ->
  all_notdone (s_calls (with_deliver s fl ph)).
Proof.
  intros Hf H. unfold with_deliver. pose proof (deliver_notdone (s_stopped s) fl (s_op s) Hf) as D.
  destruct (deliver_data _ _ _) as [o cs]. cbn in *. apply Forall_app; auto.
Qed.
Lemma with_deliver_DoneInv s fl ph : ph <> Completed -> f_done fl = false -> all_notdone (s_calls s) ->
  DoneInv (with_deliver s fl ph).
Proof.
  intros. unfold DoneInv. rewrite with_deliver_phase. destruct ph; try congruence; now apply with_deliver_notdone.
Qed.

Lemma step_DoneInv c s e : DoneInv s -> DoneInv (step c s e).
Proof.
  intros H. unfold DoneInv in H.
  destruct e; cbn [step]; try exact H.
  - (* Check *) destruct (s_phase s) eqn:P; try (unfold DoneInv; now rewrite P).
    destruct (negb _).
    + apply complete_DoneInv. exact H.
    + destruct (_ && _).
      * apply with_deliver_DoneInv; auto; discriminate.
      * unfold DoneInv. cbn. exact H.
  - (* Perform *) destruct (s_phase s) eqn:P; try (unfold DoneInv; now rewrite P).
    destruct (perform _ _ _ _ _ _) as [[[o r] f] moved]. unfold DoneInv. cbn. exact H.
  - (* Act *) destruct (s_phase s) eqn:P; try (unfold DoneInv; now rewrite P).
    assert (Hw : forall fl, f_done fl = false -> all_notdone (s_calls (with_deliver s fl Idle)))
      by (intros; now apply with_deliver_notdone).
    repeat (match goal with |- context [if ?b then _ else _] => destruct b end);
      try (apply complete_DoneInv; auto; fail);
      try (apply with_deliver_DoneInv; auto; discriminate);
      try (unfold DoneInv; cbn; exact H).
  - (* Timer *) destruct (s_phase s) eqn:P; try (unfold DoneInv; now rewrite P);
    (destruct (negb _); [unfold DoneInv; now rewrite P|]);
    (destruct (_ && _); [unfold DoneInv; cbn; try rewrite P; exact H|]);
    (apply with_deliver_DoneInv; [try rewrite P; discriminate| now destruct (o_strict _) | exact H]).
  - (* Cleanup *) destruct (s_phase s) eqn:P; try (unfold DoneInv; now rewrite P);
    (destruct (is_active s); [unfold DoneInv; now rewrite P|]);
    (destruct fd_wide;
      [destruct (s_fderr s =? 0); [unfold DoneInv; now rewrite P| apply complete_DoneInv; exact H]
      |destruct (s_stopped s); [apply complete_DoneInv; exact H | unfold DoneInv; now rewrite P]]).
Qed.

Lemma run_DoneInv c evs : forall s, DoneInv s -> DoneInv (run c s evs).
Proof. induction evs; intros; simpl; auto. apply IHevs. now apply step_DoneInv. Qed.

(* once completed the operation is inert: the handler is never invoked again *)
Lemma step_completed c s e : s_phase s = Completed ->
  s_phase (step c s e) = Completed /\ s_calls (step c s e) = s_calls s /\ s_io (step c s e) = s_io s.
Proof. intros P. destruct e; cbn [step]; rewrite ?P; cbn; auto. Qed.

Theorem done_exactly_once_last : forall c o evs,
  let s := run c (st_init o) evs in
  (s_phase s = Completed -> done_last (s_calls s)) /\
  (s_phase s <> Completed -> all_notdone (s_calls s)) /\
  (forall e, s_phase s = Completed -> s_calls (step c s e) = s_calls s).
Proof.
  intros. assert (D : DoneInv s) by (apply run_DoneInv; unfold DoneInv; cbn; constructor).
  unfold DoneInv in D. repeat split.
  - intros P. now rewrite P in D.
  - intros P. destruct (s_phase s); try congruence; exact D.
  - intros e P. now apply step_completed.
Qed.

(* ------------------------------------------------------------------ reads: conservation and high water *)
Definition pending (o : op) : list Z := flat (o_data o) ++ o_buf o.
Definition small (hi : Z) (cs : list call) : Prop := Forall (fun k => zlen (cbytes k) <= hi) cs.

Definition RInv (o : op) : Prop :=
  o_write o = false /\
  o_buf_len o = zlen (o_buf o) /\
  o_undelivered o = dsize (o_data o) /\
  (o_hasbuf o = false -> o_buf o = []) /\
  (o_hasbuf o = true -> zlen (o_buf o) <= o_buf_siz o /\ dsize (o_data o) + o_buf_siz o <= o_high o) /\
  (dsize (o_data o) = 0 \/ dsize (o_data o) < o_low o) /\
  (0 <= o_low o <= o_high o /\ 1 <= o_high o <= SIZE_MAX) /\
  (o_length o < SIZE_MAX -> o_total o <= o_length o /\
     (o_hasbuf o = true -> o_total o - zlen (o_buf o) + o_buf_siz o <= o_length o)).

Ltac bd :=
  match goal with
  | H : context [?a >=? ?b] |- _ => rewrite (Z.geb_leb a b) in H
  | H : context [?a >? ?b] |- _ => rewrite (Z.gtb_ltb a b) in H
  | H : context [?a <=? ?b] |- _ => destruct (Z.leb_spec a b)
  | H : context [?a <? ?b] |- _ => destruct (Z.ltb_spec a b)
  | H : context [?a =? ?b] |- _ => destruct (Z.eqb_spec a b)
  end.

Lemma cdata_handler_read fl forced d err tot :
  cdata (handler_calls false fl forced d err tot) = flat d /\ small (dsize d) (handler_calls false fl forced d err tot).
Proof.
  unfold handler_calls, small. cbn [negb andb].
  destruct (f_done fl).
  - destruct (Z.eqb_spec err 0); cbn [negb].
    + unfold cdata, cbytes; cbn. rewrite app_nil_r. split; auto. repeat constructor. cbn. unfold dsize. lia.
    + destruct (Z.eqb_spec (dsize d) 0); cbn [negb].
      * pose proof (dsize_0_flat d e) as F. rewrite F. unfold cdata, cbytes; cbn. split; auto.
        repeat constructor. cbn. unfold zlen; simpl; lia.
      * unfold cdata, cbytes; cbn. rewrite app_nil_r. split; auto.
        pose proof (zlen_nonneg (flat d)). repeat constructor; cbn; unfold dsize, zlen in *; simpl; try lia.
  - unfold cdata, cbytes; cbn. rewrite app_nil_r. split; auto. repeat constructor. cbn. unfold dsize. lia.
Qed.

Ltac fin Hb Htot :=
  repeat split; auto; try lia; try discriminate;
  try (match goal with HH : o_hasbuf _ = true |- _ => destruct (Hb HH); lia end);
  try (intros; apply Htot; auto; fail);
  try (match goal with HH : o_length _ < SIZE_MAX |- _ => destruct (Htot HH) as [? ?]; try lia; try (split; [lia|discriminate]) end);
  try constructor.

Lemma deliver_read stp fl o o' cs : RInv o -> deliver_data stp fl o = (o', cs) ->
  RInv o' /\ cdata cs ++ pending o' = pending o /\ small (o_high o) cs /\
  o_total o' = o_total o /\ o_high o' = o_high o /\ o_length o' = o_length o /\ o_low o' = o_low o.
Proof.
  intros (Hd & Hl & Hu & Hnb & Hb & Hdat & Hpar & Htot) E.
  unfold deliver_data in E.
  set (und := o_undelivered o + o_buf_len o) in *.
  set (forced := f_deliver fl || f_done fl || o_flagd o) in *.
  assert (Hund : und = dsize (o_data o) + zlen (o_buf o)) by (unfold und; lia).
  pose proof (dsize_nonneg (o_data o)) as Hdn. pose proof (zlen_nonneg (o_buf o)) as Hzn.
  assert (Hsz : dsize (o_data o) + zlen (o_buf o) <= o_high o).
  { destruct (o_hasbuf o) eqn:HB.
    - destruct (Hb eq_refl). lia.
    - rewrite (Hnb eq_refl), zlen_nil. lia. }
  (* what the data stage does, for either value of deliver and any err *)
  assert (K : forall deliver err o1, 
     (o1 = set_flagd o false \/ o1 = set_err (set_flagd o false) err) ->
     (deliver = false -> und < o_low o /\ ~ (zlen (o_buf o) < o_buf_siz o)) ->
     forall err', (let '(d, o2) := dd_data deliver o1 in dd_finish fl forced deliver err' und d o2) = (o', cs) ->
     RInv o' /\ cdata cs ++ pending o' = pending o /\ small (o_high o) cs /\
     o_total o' = o_total o /\ o_high o' = o_high o /\ o_length o' = o_length o /\ o_low o' = o_low o).
  { intros deliver err o1 Ho1 Hnd err' E1.
    unfold dd_data in E1.
    assert (W : o_write o1 = false) by (destruct Ho1; subst; cbn; auto). rewrite W in E1. cbn [negb] in E1.
    assert (BL : o_buf_len o1 = zlen (o_buf o)) by (destruct Ho1; subst; cbn; auto). rewrite BL in E1.
    destruct (Z.eqb_spec (zlen (o_buf o)) 0) as [Z0|Z0]; cbn [negb] in E1.
    - (* no buffered bytes *)
      pose proof (zlen_0_nil _ Z0) as Bn.
      unfold dd_finish in E1.
      destruct deliver; cbn [negb orb] in E1.
      + destruct (f_noempty fl && (dsize (o_data o1) =? 0)) eqn:NE.
        * inversion E1; subst o' cs; clear E1.
          apply andb_prop in NE. destruct NE as [_ NE]. apply Z.eqb_eq in NE.
          assert (DD : dsize (o_data o) = 0) by (destruct Ho1; subst; cbn in NE; auto).
          unfold RInv, pending. destruct Ho1; subst o1; cbn; rewrite ?Bn, ?zlen_nil, ?dsize_nil in *;
            (fin Hb Htot; try (rewrite (dsize_0_flat _ DD); reflexivity)).
        * inversion E1; subst o' cs; clear E1.
          assert (OD : o_data o1 = o_data o) by (destruct Ho1; subst; cbn; auto).
          match goal with |- context [handler_calls ?w fl forced ?d err' ?t] =>
            assert (W2 : w = false) by (destruct Ho1; subst; cbn; auto); rewrite W2;
            destruct (cdata_handler_read fl forced d err' t) as [C1 C2] end.
          rewrite C1, OD. rewrite OD in C2.
          unfold RInv, pending. destruct Ho1; subst o1; cbn; rewrite ?Bn, ?zlen_nil, ?dsize_nil, ?app_nil_r in *;
            (try (split; [|split; [|split; [eapply Forall_impl; [|exact C2]; cbn; intros; lia|]]]); fin Hb Htot).
      + (* buffer used up, nothing to move *)
        inversion E1; subst o' cs; clear E1.
        destruct (Hnd eq_refl) as [Hlow _].
        unfold RInv, pending. destruct Ho1; subst o1; cbn; rewrite ?Bn, ?zlen_nil in *;
          (fin Hb Htot).
    - (* buffered bytes move into the data object *)
      unfold dd_finish in E1.
      assert (OD : o_data o1 = o_data o) by (destruct Ho1; subst; cbn; auto).
      assert (OB : o_buf o1 = o_buf o) by (destruct Ho1; subst; cbn; auto).
      rewrite OD, OB in E1.
      destruct deliver; cbn [negb orb] in E1.
      + destruct (f_noempty fl && (dsize (o_data o ++ [o_buf o]) =? 0)) eqn:NE.
        * apply andb_prop in NE. destruct NE as [_ NE]. apply Z.eqb_eq in NE. rewrite dsize_snoc in NE.
          pose proof (dsize_nonneg (o_data o)). pose proof (zlen_nonneg (o_buf o)). lia.
        * inversion E1; subst o' cs; clear E1.
          match goal with |- context [handler_calls ?w fl forced ?d err' ?t] =>
            assert (W2 : w = false) by (destruct Ho1; subst; cbn; auto); rewrite W2;
            destruct (cdata_handler_read fl forced d err' t) as [C1 C2] end.
          rewrite C1. rewrite dsize_snoc in C2.
          unfold RInv, pending. destruct Ho1; subst o1; cbn; rewrite ?flat_snoc, ?zlen_nil, ?dsize_nil, ?app_nil_r in *;
            (try (split; [|split; [|split; [eapply Forall_impl; [|exact C2]; cbn; intros; lia|]]]); fin Hb Htot).
      + inversion E1; subst o' cs; clear E1.
        destruct (Hnd eq_refl) as [Hlow _].
        unfold RInv, pending. destruct Ho1; subst o1; cbn; rewrite ?flat_snoc, ?dsize_snoc, ?zlen_nil, ?app_nil_r in *;
          (fin Hb Htot). }
  unfold dd_decide in E.
  destruct (negb forced).
  - cbn [o_low set_flagd o_buf_len o_buf_siz] in E.
    rewrite Z.geb_leb in E. destruct (Z.leb_spec (o_low o) und).
    + eapply (K true 0 (set_flagd o false)); eauto. discriminate.
    + destruct (Z.ltb_spec (o_buf_len o) (o_buf_siz o)).
      * inversion E; subst o' cs. unfold RInv, pending, small. cbn.
        fin Hb Htot.
      * eapply (K false 0 (set_flagd o false)); eauto. intros _. split; lia.
  - destruct ((o_err (set_flagd o false) =? 0) && stp).
    + eapply (K true ECANCELED (set_err (set_flagd o false) ECANCELED)); eauto. discriminate.
    + eapply (K true 0 (set_flagd o false)); eauto. discriminate.
Qed.

Lemma RInv_set_err o e : RInv o -> RInv (set_err o e).
Proof. unfold RInv. cbn. auto. Qed.

Lemma alloc_read c o : RInv o -> 1 <= chunk_size c ->
  RInv (alloc_buf c o) /\ pending (alloc_buf c o) = pending o /\ o_hasbuf (alloc_buf c o) = true /\
  o_total (alloc_buf c o) = o_total o /\ o_high (alloc_buf c o) = o_high o /\
  o_length (alloc_buf c o) = o_length o /\ o_low (alloc_buf c o) = o_low o /\ o_write (alloc_buf c o) = false /\
  o_buf_len (alloc_buf c o) = zlen (o_buf (alloc_buf c o)).
Proof.
  intros (Hd & Hl & Hu & Hnb & Hb & Hdat & Hpar & Htot) Hc.
  pose proof (dsize_nonneg (o_data o)) as Hdn.
  unfold alloc_buf. destruct (o_hasbuf o) eqn:HB.
  - unfold RInv. repeat split; auto; try (apply Hb; auto); try (apply Htot; auto); try lia;
      try (rewrite HB; discriminate).
  - rewrite Hd. cbn [negb].
    pose proof (Hnb eq_refl) as Bn. rewrite Bn in *. change (zlen (@nil Z)) with 0 in *.
    set (max1 := if dsize (o_data o) =? 0 then o_high o else u64 (o_high o - dsize (o_data o))).
    assert (M1 : 1 <= max1 /\ dsize (o_data o) + max1 <= o_high o).
    { unfold max1. destruct (Z.eqb_spec (dsize (o_data o)) 0). lia.
      rewrite u64_id; unfold SIZE_MAX in *; lia. }
    set (max2 := if max1 >? chunk_size c then chunk_size c else max1).
    assert (M2 : 1 <= max2 <= max1) by (unfold max2; rewrite Z.gtb_ltb; destruct (Z.ltb_spec (chunk_size c) max1); lia).
    set (bs := if o_length o <? SIZE_MAX then
                 let b := o_length o - o_total o in if b >? max2 then max2 else b else max2).
    assert (B : 0 <= bs <= max2 /\ (o_length o < SIZE_MAX -> o_total o + bs <= o_length o)).
    { unfold bs. destruct (Z.ltb_spec (o_length o) SIZE_MAX).
      - destruct (Htot H) as [T _]. cbn zeta. rewrite Z.gtb_ltb. destruct (Z.ltb_spec max2 (o_length o - o_total o)); lia.
      - lia. }
    unfold RInv, pending. cbn. rewrite ?Bn. change (zlen (@nil Z)) with 0.
    repeat split; auto; try lia; try discriminate.
    all: try (intros HH; destruct (Htot HH); lia).
Qed.

Lemma perform_error_read o fd e o' r f : RInv o -> perform_error o fd e = (o', r, f) ->
  RInv o' /\ pending o' = pending o /\ o_total o' = o_total o /\ o_high o' = o_high o /\
  o_length o' = o_length o /\ o_low o' = o_low o.
Proof.
  intros R E. unfold perform_error in E.
  repeat (match type of E with context [if ?b then _ else _] => destruct b end);
    inversion E; subst; auto 10; (split; [now apply RInv_set_err|cbn; auto 10]).
Qed.

Lemma perform_read c cl stp fd o rs o' r f moved :
  RInv o -> 1 <= chunk_size c ->
  (match first_result rs with Some (Got bs) => zlen bs <= req_len c o | _ => True end) ->
  perform c cl stp fd o rs = (o', r, f, moved) ->
  RInv o' /\ pending o' = pending o ++ moved /\ o_total o' = o_total o + zlen moved /\ o_high o' = o_high o /\
  o_length o' = o_length o /\ o_low o' = o_low o.
Proof.
  intros R Hc Hok E. unfold perform in E.
  destruct (negb (get_error cl stp fd true =? 0)).
  - destruct (perform_error o fd _) as [[o1 r1] f1] eqn:PE. inversion E; subst.
    rewrite app_nil_r, zlen_nil, Z.add_0_r. eapply perform_error_read; eauto.
  - destruct (alloc_read c o R Hc) as (RA & PA & HA & TA & HiA & LeA & LoA & WA & BLA).
    destruct (first_result rs) as [[bs|e]|].
    + destruct (Z.eqb_spec (zlen bs) 0).
      * inversion E; subst. rewrite app_nil_r, zlen_nil, Z.add_0_r. auto 10.
      * rewrite WA in E.
        assert (E' : (set_total (set_buf (alloc_buf c o) (o_hasbuf (alloc_buf c o)) (o_buf_siz (alloc_buf c o))
                        (o_buf_len (alloc_buf c o) + zlen bs) (o_buf (alloc_buf c o) ++ bs))
                        (o_total (alloc_buf c o) + zlen bs), moved) = (o', bs)).
        { cbn [o_total set_buf set_total o_length] in E.
          destruct (_ =? _) in E; inversion E; subst; auto. }
        inversion E'; subst o' moved; clear E E'.
        unfold req_len in Hok.
        destruct RA as (Hd & Hl & Hu & Hnb & Hb & Hdat & Hpar & Htot).
        destruct (Hb HA) as [B1 B2].
        pose proof (zlen_nonneg bs).
        unfold RInv, pending in *. cbn. rewrite HA, !zlen_app, <- PA, <- TA, <- HiA, <- LeA, <- LoA.
        repeat split; auto; try lia; try discriminate.
        all: try (unfold flat; rewrite app_assoc; reflexivity).
        all: intros; try (match goal with HH : o_length _ < SIZE_MAX |- _ =>
                            destruct (Htot HH) as [T1 T2]; specialize (T2 HA); lia end).
    + destruct (perform_error (alloc_buf c o) fd e) as [[o1 r1] f1] eqn:PE. inversion E; subst.
      rewrite app_nil_r, zlen_nil, Z.add_0_r.
      destruct (perform_error_read _ _ _ _ _ _ RA PE) as (A1 & A2 & A3 & A4 & A5 & A6).
      split; [exact A1|]. repeat split; congruence.
    + inversion E; subst. rewrite app_nil_r, zlen_nil, Z.add_0_r. auto 10.
Qed.

(* state invariant for a read operation with high-water mark hi and requested length len *)
Definition RS (hi len : Z) (o : op) (calls : list call) (io : list Z) : Prop :=
  RInv o /\ cdata calls ++ pending o = io /\ o_total o = zlen io /\ small hi calls /\ o_high o = hi /\ o_length o = len.
Definition RSt hi len (s : st) : Prop := RS hi len (s_op s) (s_calls s) (s_io s).

Lemma RS_deliver hi len stp fl o calls io o' cs :
  RS hi len o calls io -> deliver_data stp fl o = (o', cs) -> RS hi len o' (calls ++ cs) io.
Proof.
  intros (R & P & T & S & H & L) E.
  destruct (deliver_read _ _ _ _ _ R E) as (R' & P' & S' & T' & H' & L' & _).
  unfold RS. rewrite cdata_app, <- app_assoc, P'.
  split; [exact R'|]. split; [exact P|]. split; [congruence|].
  split; [apply Forall_app; split; auto; now rewrite <- H|]. split; congruence.
Qed.
Lemma RSt_with_deliver hi len s fl ph : RSt hi len s -> RSt hi len (with_deliver s fl ph).
Proof.
  intros H. unfold with_deliver. destruct (deliver_data _ _ _) as [o cs] eqn:E. unfold RSt. cbn.
  eapply RS_deliver; eauto.
Qed.
Lemma RSt_complete hi len s : RSt hi len s -> RSt hi len (complete s).
Proof.
  intros H. unfold complete. destruct (deliver_data _ _ _) as [o cs] eqn:E. unfold RSt. cbn.
  eapply RS_deliver; eauto.
Qed.
Lemma RS_set_err hi len o calls io e : RS hi len o calls io -> RS hi len (set_err o e) calls io.
Proof. intros (R & P & T & S & H & L). unfold RS. split; [now apply RInv_set_err|]. cbn. auto. Qed.

Lemma step_RSt c hi len s e : 1 <= chunk_size c -> RSt hi len s -> result_ok c s e = true -> RSt hi len (step c s e).
Proof.
  intros Hc H Hok.
  destruct e; cbn [step]; try exact H.
  - destruct (s_phase s); try exact H.
    destruct (negb _).
    + apply RSt_complete. unfold RSt. cbn. apply RS_set_err. exact H.
    + destruct (_ && _); [now apply RSt_with_deliver | exact H].
  - unfold result_ok in Hok. destruct (s_phase s); try exact H.
    destruct (perform _ _ _ _ _ _) as [[[o r] f] moved] eqn:E.
    destruct H as (R & P & T & S & Hh & L).
    assert (OK : match first_result rs with Some (Got bs) => zlen bs <= req_len c (s_op s) | _ => True end).
    { destruct (first_result rs) as [[bs|]|]; auto. now apply Z.leb_le. }
    destruct (perform_read _ _ _ _ _ _ _ _ _ _ R Hc OK E) as (R' & P' & T' & H' & L' & _).
    unfold RSt, RS. cbn [s_op s_calls s_io]. rewrite P', app_assoc, P, zlen_app.
    split; [exact R'|]. split; [reflexivity|]. split; [congruence|]. split; [exact S|]. split; congruence.
  - destruct (s_phase s); try exact H.
    repeat (match goal with |- context [if ?b then _ else _] => destruct b end);
      try (apply RSt_complete); try (apply RSt_with_deliver); try exact H.
  - destruct (s_phase s); try exact H;
    (destruct (negb _); [exact H|]); (destruct (_ && _); [unfold RSt; cbn; destruct H as (R & P & T & S & Hh & L);
       unfold RS; (split; [unfold RInv in *; cbn; exact R|]); cbn; auto | now apply RSt_with_deliver]).
  - destruct (s_phase s); try exact H;
    (destruct (is_active s); [exact H|]);
    (destruct fd_wide; [destruct (s_fderr s =? 0); [exact H|apply RSt_complete; unfold RSt; cbn;
        destruct (o_err (s_op s) =? 0); [apply RS_set_err|]; exact H]
      | destruct (s_stopped s); [now apply RSt_complete | exact H]]).
Qed.

Lemma run_RSt c hi len evs : 1 <= chunk_size c -> forall s, RSt hi len s -> run_ok c s evs = true -> RSt hi len (run c s evs).
Proof.
  intros Hc. induction evs as [|e t IH]; intros s H Hok; simpl; auto.
  simpl in Hok. apply andb_prop in Hok. destruct Hok. apply IH; auto. now apply step_RSt.
Qed.

Definition read_params_ok (p : params) : Prop := 0 <= p_low p <= p_high p /\ 1 <= p_high p <= SIZE_MAX.

Lemma RSt_init disk conv len p iv strict : read_params_ok p -> 0 <= len ->
  RSt (p_high p) len (st_init (op_init false disk conv len [] p iv strict)).
Proof.
  intros (A & B) L. unfold RSt, RS, RInv, pending, small, st_init, op_init. cbn.
  repeat split; auto; try lia; try discriminate; constructor.
Qed.

(* completed: nothing is left in the operation *)
Lemma complete_pending_read hi len s : RSt hi len s -> pending (s_op (complete s)) = [].
Proof.
  intros (R & _). unfold complete. destruct (deliver_data _ _ _) as [o cs] eqn:E. cbn.
  unfold deliver_data in E. cbn [f_deliver f_done FL_DONE orb] in E. unfold dd_decide in E. cbn [negb] in E.
  destruct R as (Hd & Hl & Hu & Hnb & Hb & _).
  assert (K : forall err o1, o_write o1 = false -> o_buf_len o1 = zlen (o_buf o1) ->
     (let '(d, o2) := dd_data true o1 in dd_finish FL_DONE true true err (o_undelivered (s_op s) + o_buf_len (s_op s)) d o2) = (o, cs) ->
     pending o = []).
  { intros err o1 W BL E1. unfold dd_data in E1. rewrite W in E1. cbn [negb] in E1.
    destruct (Z.eqb_spec (o_buf_len o1) 0); cbn [negb] in E1; unfold dd_finish in E1; cbn in E1;
      inversion E1; subst; unfold pending; cbn; auto.
    rewrite BL in e. now rewrite (zlen_0_nil _ e). }
  destruct (_ && _); (eapply K; [| |exact E]; cbn; auto).
Qed.

Theorem read_conservation_high_water : forall c disk conv len p iv strict evs,
  1 <= chunk_size c -> read_params_ok p -> 0 <= len ->
  let s0 := st_init (op_init false disk conv len [] p iv strict) in
  run_ok c s0 evs = true ->
  let s := run c s0 evs in
  cdata (s_calls s) ++ pending (s_op s) = s_io s /\
  (len < SIZE_MAX -> zlen (s_io s) <= len) /\
  small (p_high p) (s_calls s).
Proof.
  intros c disk conv len p iv strict evs Hc Hp Hl s0 Hok s.
  assert (R : RSt (p_high p) len s) by (apply run_RSt; auto; now apply RSt_init).
  destruct R as ((Hd & _ & _ & _ & _ & _ & _ & Htot) & P & T & S & Hh & L).
  repeat split; auto. intros HH. rewrite <- T. rewrite L in Htot. destruct (Htot HH). lia.
Qed.

(* the step that completes a read flushes everything that was buffered *)
Theorem read_completion_flushes : forall c disk conv len p iv strict evs,
  1 <= chunk_size c -> read_params_ok p -> 0 <= len ->
  let s0 := st_init (op_init false disk conv len [] p iv strict) in
  run_ok c s0 evs = true ->
  let s := run c s0 evs in
  pending (s_op (complete s)) = [] /\ cdata (s_calls (complete s)) = s_io s.
Proof.
  intros c disk conv len p iv strict evs Hc Hp Hl s0 Hok s.
  assert (R : RSt (p_high p) len s) by (apply run_RSt; auto; now apply RSt_init).
  pose proof (complete_pending_read _ _ _ R) as E. split; auto.
  destruct (RSt_complete _ _ _ R) as (_ & P & _). rewrite E, app_nil_r in P.
  unfold complete in *. destruct (deliver_data _ _ _); cbn in *. exact P.
Qed.

(* ------------------------------------------------------------------ low water, as coded *)
Lemma deliver_unforced_low stp fl o : f_deliver fl = false -> f_done fl = false -> o_flagd o = false ->
  snd (deliver_data stp fl o) <> [] -> o_low o <= o_undelivered o + o_buf_len o.
Proof.
  intros A B C. unfold deliver_data. rewrite A, B, C. cbn [orb]. unfold dd_decide. cbn [negb o_low set_flagd o_buf_len o_buf_siz].
  rewrite Z.geb_leb. destruct (Z.leb_spec (o_low o) (o_undelivered o + o_buf_len o)); auto.
  destruct (_ <? _); cbn; try congruence.
  destruct (dd_data false _) as [d o2]. unfold dd_finish. cbn. congruence.
Qed.

(* ------------------------------------------------------------------ ECANCELED *)
Theorem canceled_when_scheduled_after_close : forall closed stopped write len d,
  closed || stopped = true ->
  create_or_enqueue closed stopped 0 write len d =
    Some (mkCall true (if write then Some (flat d) else None) ECANCELED 0 true).
Proof. intros [|] [|] [|] len d H; try discriminate; reflexivity. Qed.

Lemma handler_calls_done_err w fl forced d err tot : f_done fl = true ->
  exists pre k, handler_calls w fl forced d err tot = pre ++ [k] /\ c_done k = true /\ c_err k = err /\
    (w = true -> c_data k = if err =? 0 then None else Some (flat d)) /\ c_total k = tot.
Proof.
  intros H. unfold handler_calls. rewrite H.
  destruct w; cbn [negb andb].
  - destruct (err =? 0).
    + exists [], (mkCall true None err tot forced). auto 6.
    + exists [], (mkCall true (Some (flat d)) err tot forced). auto 6.
  - destruct (negb (err =? 0)).
    + destruct (negb (dsize d =? 0)).
      * exists [mkCall false (Some (flat d)) 0 tot forced], (mkCall true None err tot forced). repeat split; auto; discriminate.
      * exists [], (mkCall true None err tot forced). repeat split; auto; discriminate.
    + exists [], (mkCall true (Some (flat d)) err tot forced). repeat split; auto; discriminate.
Qed.

Lemma deliver_done_err stp o : exists pre k, snd (deliver_data stp FL_DONE o) = pre ++ [k] /\ c_done k = true /\
  c_err k = (if (o_err o =? 0) && stp then ECANCELED else o_err o).
Proof.
  unfold deliver_data. cbn [f_deliver f_done FL_DONE orb]. unfold dd_decide. cbn [negb o_err set_flagd].
  destruct ((o_err o =? 0) && stp);
    (destruct (dd_data true _) as [d o2]; unfold dd_finish; cbn [negb orb f_noempty FL_DONE andb];
     match goal with |- context [handler_calls ?w FL_DONE ?f ?dd ?e ?t] =>
       destruct (handler_calls_done_err w FL_DONE f dd e t eq_refl) as (pre & k & E & D & Er & _) end;
     exists pre, k; cbn [snd]; auto).
Qed.

(* an operation picked (or cleaned up) after the stop became visible completes with ECANCELED without touching
   the descriptor, unless a descriptor error had already been recorded in the operation *)
Theorem canceled_after_stop : forall c s e,
  s_stopped s = true -> s_phase s = Idle -> (e = EvCheck \/ e = EvCleanup false) -> o_disk (s_op s) = false ->
  let s' := step c s e in
  s_phase s' = Completed /\ s_io s' = s_io s /\
  exists pre k, s_calls s' = s_calls s ++ pre ++ [k] /\ c_done k = true /\
    c_err k = (match e with EvCheck => ECANCELED | _ => if o_err (s_op s) =? 0 then ECANCELED else o_err (s_op s) end).
Proof.
  intros c s e St Ph He Hd s'. subst s'.
  destruct He; subst e; cbn [step]; rewrite Ph.
  - unfold get_error. rewrite St, orb_true_r. cbn [negb orb]. change (negb (ECANCELED =? 0)) with true. cbn iota.
    unfold complete. cbn [s_stopped s_op].
    pose proof (deliver_done_err (s_stopped s) (set_err (s_op s) ECANCELED)) as D.
    destruct (deliver_data _ _ _) as [o cs]. cbn in *. destruct D as (pre & k & -> & Dk & Ek).
    repeat split; auto. exists pre, k. repeat split; auto.
  - unfold is_active. rewrite Hd, Ph. cbn [andb]. rewrite St.
    unfold complete.
    pose proof (deliver_done_err (s_stopped s) (s_op s)) as D.
    destruct (deliver_data _ _ _) as [o cs]. cbn in *. destruct D as (pre & k & -> & Dk & Ek).
    repeat split; auto. exists pre, k. repeat split; auto.
    rewrite Ek, St. destruct (o_err (s_op s) =? 0); auto.
Qed.

(* ------------------------------------------------------------------ stream order *)
Lemma pick_keeps_current q op : q_cur q = Some op -> so_random op = false -> pick_next q = Some op.
Proof. intros H R. unfold pick_next. now rewrite H, R. Qed.
Lemma pick_first q h t : q_cur q = None -> q_s q = h :: t -> pick_next q = Some h.
Proof. intros H R. unfold pick_next. now rewrite H, R. Qed.

(* a stream operation that has been picked stays the stream's current operation, whatever is enqueued behind it and
   however often the handler runs, until a handler pass completes it; when it completes, the next pick is the head of
   the STREAM list (FIFO: TAILQ_INSERT_TAIL / TAILQ_FIRST) *)
Theorem stream_current_kept : forall q op e,
  q_cur q = Some op -> so_random op = false ->
  (match e with SEnq _ | SHandler HKeep => True | _ => False end) ->
  q_cur (sstep q e) = Some op /\ pick_next (sstep q e) = Some op /\ q_done (sstep q e) = q_done q.
Proof.
  intros q op e C R He. destruct e as [x| [ | | ] |]; try contradiction; cbn [sstep].
  - cbn. split; auto. split; auto. unfold pick_next. cbn. now rewrite C, R.
  - rewrite (pick_keeps_current q op C R). cbn. split; auto. split; auto. unfold pick_next. cbn. now rewrite R.
Qed.

Theorem stream_completion_is_of_current : forall q op,
  q_cur q = Some op -> so_random op = false ->
  q_done (sstep q (SHandler HComplete)) = q_done q ++ [op] /\ q_cur (sstep q (SHandler HComplete)) = None.
Proof.
  intros q op C R. cbn [sstep]. rewrite (pick_keeps_current q op C R). unfold complete_op. cbn.
  rewrite C. unfold same_op. now rewrite Z.eqb_refl.
Qed.

(* ------------------------------------------------------------------ channel parameters *)
Lemma params_ok : forall chunk l,
  0 <= chunk <= SIZE_MAX -> Forall (fun s => match s with SetLow v | SetHigh v => 0 <= v <= SIZE_MAX end) l ->
  read_params_ok (apply_setters (params_init chunk 1) l).
Proof.
  intros chunk l Hc Hl. unfold apply_setters.
  assert (I : read_params_ok (params_init chunk 1)).
  { unfold read_params_ok, params_init. cbn [p_low p_high]. replace (1 * chunk) with chunk by lia.
    rewrite u64_id; unfold SIZE_MAX in *; lia. }
  revert I. generalize (params_init chunk 1). induction Hl as [|x l Hx Hl IH]; intros p I; simpl; auto.
  apply IH. unfold read_params_ok in *. destruct x; unfold set_low_water, set_high_water; cbn.
  - destruct (Z.ltb_spec (p_high p) v); destruct (Z.eqb_spec v 0); lia.
  - rewrite Z.gtb_ltb. destruct (Z.ltb_spec v (p_low p)); destruct (Z.eqb_spec v 0); lia.
Qed.
