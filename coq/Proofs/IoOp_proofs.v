(* IoOp_proofs.v — theorems about Model/IoOp.v for every sequence of system call results and every placement of
   close / stop / timer ticks / cleanup (induction over the event list; no bound on sizes). *)
From Coq Require Import ZArith List Bool Lia.
From Verif Require Import Word IoOp.
Import ListNotations.
Local Open Scope Z_scope.

(* ------------------------------------------------------------------ lists *)
Lemma zlen_nil {A} : zlen (@nil A) = 0. Proof. reflexivity. Qed.
Lemma zlen_app {A} (a b : list A) : zlen (a ++ b) = zlen a + zlen b.
Proof. unfold zlen. rewrite app_length. lia. Qed.
Lemma zlen_nonneg {A} (a : list A) : 0 <= zlen a. Proof. unfold zlen. lia. Qed.
Lemma zlen_0_nil {A} (a : list A) : zlen a = 0 -> a = [].
Proof. destruct a; auto. unfold zlen; simpl; lia. Qed.
Lemma flat_app a b : flat (a ++ b) = flat a ++ flat b.
Proof. unfold flat. apply concat_app. Qed.
Lemma flat_snoc a b : flat (a ++ [b]) = flat a ++ b.
Proof. rewrite flat_app. unfold flat. simpl. now rewrite app_nil_r. Qed.
Lemma dsize_snoc a b : dsize (a ++ [b]) = dsize a + zlen b.
Proof. unfold dsize. now rewrite flat_snoc, zlen_app. Qed.
Lemma dsize_nonneg d : 0 <= dsize d. Proof. apply zlen_nonneg. Qed.
Lemma dsize_nil : dsize [] = 0. Proof. reflexivity. Qed.
Lemma dsize_0_flat d : dsize d = 0 -> flat d = [].
Proof. apply zlen_0_nil. Qed.

Lemma zlen_firstn {A} n (l : list A) : 0 <= n -> zlen (firstn (Z.to_nat n) l) = Z.min n (zlen l).
Proof. intros. unfold zlen. rewrite firstn_length. lia. Qed.
Lemma zlen_skipn {A} n (l : list A) : 0 <= n -> zlen (skipn (Z.to_nat n) l) = Z.max 0 (zlen l - n).
Proof. intros. unfold zlen. rewrite skipn_length. lia. Qed.

Lemma flat_rdrop : forall d n, 0 <= n -> flat (rdrop n d) = skipn (Z.to_nat n) (flat d).
Proof.
  induction d as [|r t IH]; intros n Hn; simpl.
  - now rewrite skipn_nil.
  - destruct (Z.leb_spec n 0).
    + replace n with 0 by lia. reflexivity.
    + destruct (Z.leb_spec (zlen r) n).
      * rewrite IH by lia. unfold flat. simpl. fold (flat t).
        rewrite skipn_app. unfold zlen in *.
        rewrite (skipn_all2 r) by lia. simpl.
        f_equal. lia.
      * unfold flat. simpl. fold (flat t). rewrite skipn_app. unfold zlen in *.
        replace (Z.to_nat n - length r)%nat with 0%nat by lia. reflexivity.
Qed.

Lemma flat_rtake : forall d n, 0 <= n -> flat (rtake n d) = firstn (Z.to_nat n) (flat d).
Proof.
  induction d as [|r t IH]; intros n Hn; simpl.
  - now rewrite firstn_nil.
  - destruct (Z.leb_spec n 0).
    + replace n with 0 by lia. reflexivity.
    + destruct (Z.leb_spec (zlen r) n).
      * unfold flat. simpl. fold (flat t) (flat (rtake (n - zlen r) t)). rewrite IH by lia.
        rewrite firstn_app. unfold zlen in *. rewrite (firstn_all2 r) by lia. f_equal. f_equal. lia.
      * unfold flat. simpl. fold (flat t). rewrite app_nil_r. rewrite firstn_app. unfold zlen in *.
        replace (Z.to_nat n - length r)%nat with 0%nat by lia. simpl. now rewrite app_nil_r.
Qed.

Lemma flat_dsub d off len : 0 <= off -> 0 <= len ->
  flat (dsub d off len) = firstn (Z.to_nat len) (skipn (Z.to_nat off) (flat d)).
Proof. intros. unfold dsub. rewrite flat_rtake, flat_rdrop; auto. Qed.

Lemma firstn_ge_all {A} n (l : list A) : zlen l <= n -> firstn (Z.to_nat n) l = l.
Proof. intros. apply firstn_all2. unfold zlen in *. lia. Qed.

Lemma firstn_add_skipn {A} (a b : nat) (l : list A) : firstn a l ++ firstn b (skipn a l) = firstn (a + b) l.
Proof.
  revert l. induction a; intros l; simpl; auto.
  destruct l; simpl. now rewrite firstn_nil. now rewrite IHa.
Qed.

(* ------------------------------------------------------------------ handler invocations *)
Definition cbytes (k : call) : list Z := match c_data k with Some l => l | None => [] end.
Definition cdata (cs : list call) : list Z := concat (map cbytes cs).
Lemma cdata_app a b : cdata (a ++ b) = cdata a ++ cdata b.
Proof. unfold cdata. now rewrite map_app, concat_app. Qed.

Definition all_notdone (cs : list call) : Prop := Forall (fun k => c_done k = false) cs.
Definition done_last (cs : list call) : Prop :=
  exists pre k, cs = pre ++ [k] /\ c_done k = true /\ all_notdone pre.

Lemma handler_calls_notdone w fl forced d err tot :
  f_done fl = false -> all_notdone (handler_calls w fl forced d err tot).
Proof. intros H. unfold handler_calls. rewrite H. repeat constructor. Qed.

Lemma handler_calls_done w fl forced d err tot :
  f_done fl = true -> done_last (handler_calls w fl forced d err tot).
Proof.
  intros H. unfold handler_calls, done_last. rewrite H.
  destruct (negb w && negb (err =? 0)).
  - destruct (negb (dsize d =? 0)).
    + exists [mkCall false (Some (flat d)) 0 tot forced], (mkCall true None err tot forced).
      repeat split; auto. repeat constructor.
    + exists [], (mkCall true None err tot forced). repeat split; auto. constructor.
  - destruct (w && (err =? 0)).
    + exists [], (mkCall true None err tot forced). repeat split; auto. constructor.
    + exists [], (mkCall true (Some (flat d)) err tot forced). repeat split; auto. constructor.
Qed.

(* deliver_data without DOP_DONE never sets done; with DOP_DONE it always invokes the handler, done on the last call *)
Lemma deliver_notdone stp fl o : f_done fl = false -> all_notdone (snd (deliver_data stp fl o)).
Proof.
  intros H. unfold deliver_data.
  destruct (dd_decide _ _ _ _) as [[[ret deliver] err] o1].
  destruct ret; [constructor|].
  destruct (dd_data deliver o1) as [d o2]. unfold dd_finish.
  destruct (negb deliver || _); [constructor|]. now apply handler_calls_notdone.
Qed.

Lemma deliver_done stp o : done_last (snd (deliver_data stp FL_DONE o)).
Proof.
  unfold deliver_data. cbn [f_deliver f_done FL_DONE orb].
  unfold dd_decide. cbn [negb].
  destruct ((o_err (set_flagd o false) =? 0) && stp);
    (destruct (dd_data true _) as [d o2]; unfold dd_finish; cbn [negb orb f_noempty FL_DONE andb];
     now apply handler_calls_done).
Qed.
